(* Site 31 of lookup_score (`keys[riter + 1]` out of bounds) is unreachable, in exact
   arithmetic, in the step that follows a non-exhausted (in particular: an unconverged)
   step of ScoresIterator::next.

   The next step runs at granularity g/10 on the window
   (floor((alpha - w) 10), floor((alpha + w) 10)), w = ceil(error_max + 1/2).
   Every word whose integer score at g/10 lies above that window has an integer score
   >= alpha at g, and the mass of those words is <= p when the step at g left the loop
   of lookup_score inside the table. *)
From Coq Require Import ZArith QArith Qround List Bool Lia Lqa Sorted Permutation.
From LMBase Require Import Res ListX.
From LMTfm Require Import TfmNum TfmModel TfmSpec TfmProofs TfmScore TfmDist TfmPerm TfmMain TfmRun TfmTotal TfmLink.
Import ListNotations.
Open Scope Q_scope.

(* ------------------------------------------------------------------ *)
(** * 1. Digits *)

Lemma digit_bounds (y : Q) :
  (0 <= Qfloor (10 * y) - 10 * Qfloor y <= 9)%Z /\
  inject_Z (Qfloor (10 * y) - 10 * Qfloor y) <= 10 * (y - inject_Z (Qfloor y)).
Proof.
  pose proof (Qfloor_le y) as H1. pose proof (Qlt_floor y) as H2.
  pose proof (Qfloor_le (10 * y)) as H3. pose proof (Qlt_floor (10 * y)) as H4.
  rewrite inject_Z_plus in H2, H4. change (inject_Z 1) with 1 in *.
  set (a := Qfloor y) in *. set (b := Qfloor (10 * y)) in *.
  assert (A1 : inject_Z (10 * a) < inject_Z (b + 1)).
  { rewrite inject_Z_mult, inject_Z_plus. change (inject_Z 10) with 10. change (inject_Z 1) with 1. lra. }
  assert (A2 : inject_Z b < inject_Z (10 * a + 10)).
  { rewrite inject_Z_plus, inject_Z_mult. change (inject_Z 10) with 10. lra. }
  rewrite <- Zlt_Qlt in A1, A2. split; [lia|].
  rewrite inject_Z_minus, inject_Z_mult. change (inject_Z 10) with 10. lra.
Qed.

Lemma zmin_from_glb m a l :
  (m <= a)%Z -> (forall x, In x l -> (m <= x)%Z) -> (m <= zmin_from a l)%Z.
Proof.
  revert a; induction l as [|y r IH]; intros a Ha H; simpl; [exact Ha|].
  apply IH.
  - assert (m <= y)%Z by (apply H; left; reflexivity). lia.
  - intros x Hx. apply H. right; exact Hx.
Qed.

Lemma zmin_of_glb m l :
  l <> [] -> (forall x, In x l -> (m <= x)%Z) -> (m <= zmin_of l)%Z.
Proof.
  destruct l as [|a r]; intros Hne H; [congruence|]. simpl.
  apply zmin_from_glb; [apply H; left; reflexivity|intros x Hx; apply H; right; exact Hx].
Qed.

(* minima of the scaled floors *)
Lemma zmin_scaled {A} (f f' : A -> Z) (l : list A) :
  (forall x, In x l -> (10 * f x <= f' x)%Z) ->
  (10 * zmin_of (map f l) <= zmin_of (map f' l))%Z.
Proof.
  intros H. destruct l as [|a r] eqn:E; [simpl; lia|]. rewrite <- E in *.
  apply zmin_of_glb; [rewrite E; discriminate|].
  intros z Hz. apply in_map_iff in Hz. destruct Hz as [x [<- Hx]].
  assert (zmin_of (map f l) <= f x)%Z by (apply zmin_of_le; apply in_map; exact Hx).
  specialize (H x Hx). lia.
Qed.

Lemma div_tenth (g x : Q) : ~ g == 0 -> x / (g / 10) == 10 * (x / g).
Proof. intros Hg. field. exact Hg. Qed.

Lemma qfl_tenth (g x : Q) : ~ g == 0 -> qfl (g / 10) x = Qfloor (10 * (x / g)).
Proof. intros Hg. unfold qfl. apply Qfloor_comp. apply div_tenth. exact Hg. Qed.

(* ------------------------------------------------------------------ *)
(** * 2. Cells *)

Lemma off_tenth (g : Q) (cs : list Q) : ~ g == 0 -> (off_of (g / 10) cs <= 10 * off_of g cs)%Z.
Proof.
  intros Hg. unfold off_of.
  assert (10 * zmin_of (map (qfl g) cs) <= zmin_of (map (qfl (g / 10)) cs))%Z.
  { apply zmin_scaled. intros x _. rewrite qfl_tenth by exact Hg. unfold qfl.
    destruct (digit_bounds (x / g)) as [D _]. lia. }
  lia.
Qed.

Lemma cell_tenth (g : Q) (cs : list Q) (x : Q) :
  ~ g == 0 ->
  let c := (qfl g x + off_of g cs)%Z in
  let c' := (qfl (g / 10) x + off_of (g / 10) cs)%Z in
  (c' - 10 * c <= 9)%Z /\ inject_Z (c' - 10 * c) <= 10 * cell_err g x.
Proof.
  intros Hg c c'. pose proof (off_tenth g cs Hg) as Ho.
  destruct (digit_bounds (x / g)) as [D1 D2].
  assert (E : qfl (g / 10) x = Qfloor (10 * (x / g))) by (apply qfl_tenth; exact Hg).
  unfold c, c'. rewrite E. unfold cell_err. unfold qfl in *.
  set (a := Qfloor (x / g)) in *. set (b := Qfloor (10 * (x / g))) in *.
  set (o := off_of g cs) in *. set (o' := off_of (g / 10) cs) in *.
  split; [lia|].
  apply Qle_trans with (inject_Z (b - 10 * a)); [|exact D2].
  rewrite <- Zle_Qle. lia.
Qed.

(* ------------------------------------------------------------------ *)
(** * 3. Words: the integer cells at two granularities, jointly *)

Definition tent : Type := ((Z * Z) * Q)%type.

Definition trow (g g' : Q) (bg : list Q) (cs : list Q) : list tent :=
  map (fun xb => (((qfl g (fst xb) + off_of g cs)%Z, (qfl g' (fst xb) + off_of g' cs)%Z), snd xb))
      (combine cs bg).

Definition trows (g g' : Q) (bg : list Q) (css : list (list Q)) : list (list tent) :=
  map (trow g g' bg) css.

Lemma irows_trows_fst g g' bg css :
  irows (ints_of g css) bg = map (map (fun ab : tent => (fst (fst ab), snd ab))) (trows g g' bg css).
Proof.
  unfold irows, trows, ints_of. rewrite !map_map. apply map_ext. intros cs. unfold trow.
  rewrite map_map. simpl. rewrite combine_map_l. reflexivity.
Qed.

Lemma irows_trows_snd g g' bg css :
  irows (ints_of g' css) bg = map (map (fun ab : tent => (snd (fst ab), snd ab))) (trows g g' bg css).
Proof.
  unfold irows, trows, ints_of. rewrite !map_map. apply map_ext. intros cs. unfold trow.
  rewrite map_map. simpl. rewrite combine_map_l. reflexivity.
Qed.

Lemma wsum_I_fst g g' bg css f :
  wsum (irows (ints_of g css) bg) f == wsum (trows g g' bg css) (fun l => f (map (fun cc => fst cc) l)).
Proof. rewrite (irows_trows_fst g g'). apply (wsum_map (fun cc : Z * Z => fst cc)). Qed.

Lemma wsum_I_snd g g' bg css f :
  wsum (irows (ints_of g' css) bg) f == wsum (trows g g' bg css) (fun l => f (map (fun cc => snd cc) l)).
Proof. rewrite (irows_trows_snd g g'). apply (wsum_map (fun cc : Z * Z => snd cc)). Qed.

Lemma wf_trows g g' bg css : (forall b, In b bg -> 0 <= b) -> wf_rows (trows g g' bg css).
Proof.
  intros H r Hr ab Hab. unfold trows in Hr. apply in_map_iff in Hr. destruct Hr as [cs [<- _]].
  unfold trow in Hab. apply in_map_iff in Hab. destruct Hab as [xb [<- Hxb]]. simpl.
  eapply in_combine_snd_nonneg; eauto.
Qed.

Lemma trow_cell g g' bg cs (cc : Z * Z) :
  In cc (map fst (trow g g' bg cs)) ->
  exists x, In x cs /\ fst cc = (qfl g x + off_of g cs)%Z /\ snd cc = (qfl g' x + off_of g' cs)%Z.
Proof.
  intros Hin. apply in_map_iff in Hin. destruct Hin as [e [He Hin]]. unfold trow in Hin.
  apply in_map_iff in Hin. destruct Hin as [xb [<- Hxb]]. cbn [fst snd] in He. subst cc.
  exists (fst xb). split; [|split; reflexivity].
  destruct xb as [x b]. apply in_combine_l in Hxb. exact Hxb.
Qed.

(* rows 1.. : I' - 10 I <= 10 * (sum of the per-row maxima of the rounding errors) *)
Lemma word_tenth_rest g bg (rs : list (list Q)) (es : list Q) :
  ~ g == 0 ->
  Forall2 (fun r e => forall x, In x (cells r) -> cell_err g x <= e) rs es ->
  forall l, attain l (trows g (g / 10) bg (map cells rs)) ->
  inject_Z (Zsum (map (fun cc : Z * Z => snd cc) l))
  <= 10 * inject_Z (Zsum (map (fun cc : Z * Z => fst cc) l)) + 10 * Qsum es.
Proof.
  intros Hg HF. induction HF as [|r e rs' es' Hre HF IH]; intros l Hat.
  - inversion Hat; subst. cbn [map Qsum Zsum]. change (inject_Z 0) with 0. lra.
  - cbn [map] in Hat. inversion Hat as [|cc tr l' rows' Hin Hrest]; subst.
    destruct (trow_cell _ _ _ _ _ Hin) as [x [Hx [E1 E2]]].
    destruct (cell_tenth g (cells r) x Hg) as [_ C]. cbv zeta in C. rewrite <- E1, <- E2 in C.
    specialize (IH l' Hrest). specialize (Hre x Hx).
    cbn [map Qsum Zsum]. rewrite !inject_Z_plus.
    rewrite inject_Z_minus, inject_Z_mult in C. change (inject_Z 10) with 10 in C.
    lra.
Qed.

(* the whole word: row 0 contributes at most 9 *)
Lemma word_tenth g bg (r0 : list Q) (rs : list (list Q)) (es : list Q) :
  ~ g == 0 ->
  Forall2 (fun r e => forall x, In x (cells r) -> cell_err g x <= e) rs es ->
  forall l, attain l (trows g (g / 10) bg (map cells (r0 :: rs))) ->
  inject_Z (Zsum (map (fun cc : Z * Z => snd cc) l))
  <= 10 * inject_Z (Zsum (map (fun cc : Z * Z => fst cc) l)) + 9 + 10 * Qsum es.
Proof.
  intros Hg HF l Hat.
  cbn [map] in Hat. inversion Hat as [|cc tr l' rows' Hin Hrest]; subst.
  destruct (trow_cell _ _ _ _ _ Hin) as [x [Hx [E1 E2]]].
  destruct (cell_tenth g (cells r0) x Hg) as [C _]. cbv zeta in C. rewrite <- E1, <- E2 in C.
  pose proof (word_tenth_rest g bg rs es Hg HF l' Hrest) as HR.
  cbn [map Qsum Zsum]. rewrite !inject_Z_plus.
  assert (C' : inject_Z (snd cc) <= 10 * inject_Z (fst cc) + 9).
  { change 10 with (inject_Z 10). change 9 with (inject_Z 9).
    rewrite <- inject_Z_mult, <- inject_Z_plus, <- Zle_Qle. lia. }
  lra.
Qed.

(* ------------------------------------------------------------------ *)
(** * 4. The next window *)

Lemma next_window_top (alpha W : Z) :
  Qfloor ((inject_Z alpha + inject_Z W) * 10) = (10 * (alpha + W))%Z.
Proof.
  rewrite <- (Qfloor_Z (10 * (alpha + W))). apply Qfloor_comp.
  rewrite inject_Z_mult, inject_Z_plus. change (inject_Z 10) with 10. ring.
Qed.

(* a word above the next window has an integer score >= alpha at the current granularity *)
Lemma above_window_arith (I I' alpha : Z) (E : Q) :
  inject_Z I' <= 10 * inject_Z I + 9 + 10 * E ->
  (Qfloor ((inject_Z alpha + inject_Z (Qceiling (E + (1 # 2)))) * 10) < I')%Z ->
  (alpha <= I)%Z.
Proof.
  intros H1 H2. rewrite next_window_top in H2.
  pose proof (Qle_ceiling (E + (1 # 2))) as HC.
  set (W := Qceiling (E + (1 # 2))) in *.
  assert (H3 : inject_Z (10 * (alpha + W)) + 1 <= inject_Z I').
  { change 1 with (inject_Z 1). rewrite <- inject_Z_plus, <- Zle_Qle. lia. }
  rewrite inject_Z_mult, inject_Z_plus in H3. change (inject_Z 10) with 10 in H3.
  assert (H4 : inject_Z (alpha - 1) < inject_Z I).
  { rewrite inject_Z_minus. change (inject_Z 1) with 1. lra. }
  rewrite <- Zlt_Qlt in H4. lia.
Qed.

(* ------------------------------------------------------------------ *)
(** * 5. The mass above the next window *)

Lemma mass_above_next_window g bg (r0 : list Q) (rs : list (list Q)) (es : list Q) (E : Q) (alpha : Z) :
  ~ g == 0 -> (forall b, In b bg -> 0 <= b) ->
  Forall2 (fun r e => forall x, In x (cells r) -> cell_err g x <= e) rs es ->
  Qsum es <= E ->
  let css := map cells (r0 :: rs) in
  PI_gt (irows (ints_of (g / 10) css) bg)
        (Qfloor ((inject_Z alpha + inject_Z (Qceiling (E + (1 # 2)))) * 10))
  <= PI_ge (irows (ints_of g css) bg) alpha.
Proof.
  intros Hg Hbg HF HE css. unfold PI_gt, PI_ge.
  rewrite (wsum_I_snd g (g / 10)), (wsum_I_fst g (g / 10)).
  apply wsum_le; [apply wf_trows; exact Hbg|].
  intros l Hl. apply ind_impl. intros H. apply Z.ltb_lt in H. apply Z.leb_le.
  eapply above_window_arith; [|exact H].
  pose proof (word_tenth g bg r0 rs es Hg HF l Hl) as HW. lra.
Qed.

(* ------------------------------------------------------------------ *)
(** * 6. A non-exhausted lookup: the tail at alpha is at most p *)

Lemma lookup_score_alpha_mass G (bg : list Q) p mn mx o :
  lookup_score NumQ G bg p mn mx = Ok o ->
  dist_exact (irows (g_int G) bg) mn mx (last (ls_rows o) []) -> 0 < p ->
  ls_exhausted o = false ->
  PI_ge (irows (g_int G) bg) (ls_alpha o) <= p.
Proof.
  intros Hlook Hdist Hp Hexh.
  unfold lookup_score in Hlook. cbn [NumQ n_isnan] in Hlook.
  apply rbind_ok in Hlook. destruct Hlook as [rowsq [Hdistr Hlook]].
  set (lastm := last rowsq []) in *.
  destruct (length lastm) as [|top] eqn:Elen; [discriminate|].
  apply rbind_ok in Hlook. destruct Hlook as [[[riter sum] pvs] [Hloop Hlook]].
  apply rbind_ok in Hlook. destruct Hlook as [[[[a ae] pvs'] exh] [Hsel Hlook]].
  apply rbind_ok in Hlook. destruct Hlook as [pa [Hpa Hlook]].
  apply rbind_ok in Hlook. destruct Hlook as [pe [Hpe Hlook]].
  inversion Hlook; subst o; clear Hlook. cbn [ls_alpha ls_exhausted ls_rows] in *.
  fold lastm in Hdist. subst exh.
  set (ir := irows (g_int G) bg) in *.
  assert (Hloop' :
    ((1 <= riter)%nat /\ sum == tailsum lastm riter /\ p <= sum /\
       ((S riter < length lastm)%nat -> tailsum lastm (S riter) < p))
    \/ (riter = 0%nat /\ sum == tailsum lastm 1 /\ ((1 < length lastm)%nat -> sum < p))).
  { destruct (ls_loop_spec p lastm top 0 [] riter sum pvs Hloop) as [[A1 [A2 [A3 [A4 A5]]]]|[B1 [B2 B3]]].
    - rewrite tailsum_beyond by lia. reflexivity.
    - intros Hc. lia.
    - left. repeat split; auto.
    - right. repeat split; auto. }
  destruct (gt NumQ sum p) eqn:Hgt.
  - (* sum > p: alpha = keys[riter + 1], whose tail was below p one iteration earlier *)
    apply rbind_ok in Hsel. destruct Hsel as [ae0 [Hae0 Hsel]].
    apply rbind_ok in Hsel. destruct Hsel as [a0 [Ha0 Hsel]].
    inversion Hsel; subst a0 ae0 pvs'; clear Hsel.
    apply gtQ in Hgt. apply key_at_ok in Ha0. destruct Ha0 as [va Ha].
    assert (HSr : (S riter < length lastm)%nat) by (apply nth_error_Some; congruence).
    destruct Hloop' as [[L1 [L2 [L3 L4]]]|[R1 [R2 R3]]].
    + specialize (L4 HSr). rewrite (tailsum_spec _ _ _ _ Hdist _ _ _ Ha) in L4. lra.
    + subst riter. specialize (R3 HSr). lra.
  - destruct riter as [|r'].
    + (* window bottom reached: exhausted *)
      apply rbind_ok in Hsel. destruct Hsel as [a0 [Ha0 Hsel]]. inversion Hsel.
    + (* sum == p: alpha = keys[riter] *)
      apply rbind_ok in Hsel. destruct Hsel as [a0 [Ha0 Hsel]].
      apply rbind_ok in Hsel. destruct Hsel as [ae0 [Hae0 Hsel]].
      inversion Hsel; subst a0 ae0 pvs'; clear Hsel.
      apply key_at_ok in Ha0. destruct Ha0 as [va Ha].
      destruct Hloop' as [[L1 [L2 [L3 L4]]]|[R1 _]]; [|discriminate].
      assert (Hle : sum <= p).
      { destruct (Qlt_le_dec p sum) as [Hc|?]; auto. apply gtQ in Hc. congruence. }
      rewrite (tailsum_spec _ _ _ _ Hdist _ _ _ Ha) in L2. lra.
Qed.

(* an exhausted lookup returns a degenerate range: alpha_e = alpha *)
Lemma lookup_score_exhausted_conv G (bg : list Q) p mn mx o :
  lookup_score NumQ G bg p mn mx = Ok o ->
  ls_exhausted o = true -> feq NumQ (ls_start o) (ls_end o) = true.
Proof.
  intros Hlook Hexh.
  unfold lookup_score in Hlook. cbn [NumQ n_isnan] in Hlook.
  apply rbind_ok in Hlook. destruct Hlook as [rowsq [Hdistr Hlook]].
  set (lastm := last rowsq []) in *.
  destruct (length lastm) as [|top] eqn:Elen; [discriminate|].
  apply rbind_ok in Hlook. destruct Hlook as [[[riter sum] pvs] [Hloop Hlook]].
  apply rbind_ok in Hlook. destruct Hlook as [[[[a ae] pvs'] exh] [Hsel Hlook]].
  apply rbind_ok in Hlook. destruct Hlook as [pa [Hpa Hlook]].
  apply rbind_ok in Hlook. destruct Hlook as [pe [Hpe Hlook]].
  inversion Hlook; subst o; clear Hlook. cbn [ls_start ls_end ls_exhausted] in *. subst exh.
  assert (Eae : ae = a).
  { destruct (gt NumQ sum p).
    - apply rbind_ok in Hsel. destruct Hsel as [ae0 [_ Hsel]].
      apply rbind_ok in Hsel. destruct Hsel as [a0 [_ Hsel]]. inversion Hsel.
    - destruct riter as [|r'].
      + apply rbind_ok in Hsel. destruct Hsel as [a0 [_ Hsel]]. inversion Hsel; subst. reflexivity.
      + apply rbind_ok in Hsel. destruct Hsel as [a0 [_ Hsel]].
        apply rbind_ok in Hsel. destruct Hsel as [ae0 [_ Hsel]]. inversion Hsel. }
  subst ae. clear Hsel. apply feqQ.
  destruct (gt NumQ (n_ofZ NumQ (a - a)) (g_emax G)).
  - inversion Hpe; subst. reflexivity.
  - rewrite Hpa in Hpe. inversion Hpe; subst. reflexivity.
Qed.

Lemma lookup_score_unconv_not_exhausted G (bg : list Q) p mn mx o :
  lookup_score NumQ G bg p mn mx = Ok o ->
  feq NumQ (ls_start o) (ls_end o) = false -> ls_exhausted o = false.
Proof.
  intros Hlook Hc. destruct (ls_exhausted o) eqn:E; [|reflexivity].
  rewrite (lookup_score_exhausted_conv _ _ _ _ _ _ Hlook E) in Hc. discriminate.
Qed.

(* ------------------------------------------------------------------ *)
(** * 7. The next lookup does not panic at site 31 *)

Theorem lookup_score_next_no_panic31 rows perm bg K p g G G' mn mx o :
  matrix_ok K rows bg -> (2 <= length rows)%nat -> length perm = length rows ->
  0 < g -> 0 < p -> (mn <= mx + 1)%Z ->
  recompute NumQ rows perm g = Ok G ->
  lookup_score NumQ G bg p mn mx = Ok o ->
  ls_exhausted o = false ->
  recompute NumQ rows perm (g / 10) = Ok G' ->
  let a := inject_Z (ls_alpha o) in
  let w := inject_Z (Qceiling (g_emax G + (1 # 2))) in
  lookup_score NumQ G' bg p (Qfloor ((a - w) * 10)) (Qfloor ((a + w) * 10)) <> Panic 31.
Proof.
  intros Hok HM Hperm Hg Hp Hwin Hrec Hlook Hexh Hrec' a w Hpanic.
  assert (Hg0 : ~ g == 0) by lra.
  (* geometry of the two steps *)
  destruct (recompute_cells _ _ _ _ _ _ Hok Hrec) as [Hcells [Hmaxr HlenG]].
  destruct (recompute_cells _ _ _ _ _ _ Hok Hrec') as [Hcells' [Hmaxr' HlenG']].
  destruct (matrix_ok_bg _ _ _ Hok) as [Hunit Hbl].
  pose proof (recompute_emax_nonneg _ _ _ _ _ _ Hok Hg Hrec) as Em0.
  destruct (recompute_Q_geom _ _ _ _ Hrec) as [prow [Hpr [Hgran [Hg1 [Hint [Hoff [Hne [_ [_ Hem]]]]]]]]].
  destruct (recompute_Q_geom _ _ _ _ Hrec') as [prow' [Hpr' [_ [_ [Hint' _]]]]].
  rewrite Hpr in Hpr'. inversion Hpr'; subst prow'; clear Hpr'.
  destruct (permuted_rows_spec _ _ _ Hpr) as [Hplen [Hpin Hcs]].
  destruct Hok as [HK [Hlen [Hbgl [Hbg [_ Hwild]]]]].
  rewrite combine_map_self, tl_map in Hem.
  apply error_max_from_Q in Hem; auto.
  2:{ apply Forall_tl. rewrite Forall_forall in *. intros r Hr. split; [apply Hne; auto|apply Hwild; apply Hpin; auto]. }
  destruct Hem as [_ [_ [es [HF Ees]]]].
  destruct prow as [|r0 prest]; [simpl in Hplen; lia|]. cbn [tl] in HF.
  (* the table of the current step *)
  pose proof (lookup_score_rows _ _ _ _ _ _ Hlook) as Hrows.
  assert (Hdist : dist_exact (irows (g_int G) bg) mn mx (last (ls_rows o) [])).
  { apply (distribution_exact G bg _ _ (ls_rows o) (K - 1)%nat Hrows); [lia|exact Hcells|exact Hmaxr|exact Hunit|exact Hbl|exact Hwin]. }
  pose proof (lookup_score_alpha_mass _ _ _ _ _ _ Hlook Hdist Hp Hexh) as Hmass.
  (* the panic *)
  apply lookup_score_panic_sites in Hpanic.
  destruct Hpanic as [Hd|[_ [rowsq [Hd Hfe]]]].
  { apply distribution_panic in Hd. lia. }
  pose proof (ceil_half_pos _ Em0) as Hw.
  assert (Hw' : 1 <= w).
  { unfold w. change 1 with (inject_Z 1). rewrite <- Zle_Qle. exact Hw. }
  assert (Hwin' : (Qfloor ((a - w) * 10) <= Qfloor ((a + w) * 10) + 1)%Z).
  { assert (Qfloor ((a - w) * 10) <= Qfloor ((a + w) * 10))%Z by (apply Qfloor_resp_le; lra). lia. }
  assert (Hdist' : dist_exact (irows (g_int G') bg) (Qfloor ((a - w) * 10)) (Qfloor ((a + w) * 10)) (last rowsq [])).
  { apply (distribution_exact G' bg _ _ rowsq (K - 1)%nat Hd); [lia|exact Hcells'|exact Hmaxr'|exact Hunit|exact Hbl|exact Hwin']. }
  destruct Hdist' as [body [vb [Hl [_ [_ [Hvb _]]]]]].
  destruct Hfe as [[_ Hneg]|[_ [kb [vb' [Hlast Hlt]]]]]; [lra|].
  rewrite Hl, last_last in Hlast. inversion Hlast; subst kb vb'; clear Hlast.
  rewrite Hvb in Hlt.
  assert (Hle : PI_gt (irows (g_int G') bg) (Qfloor ((a + w) * 10)) <= PI_ge (irows (g_int G) bg) (ls_alpha o)).
  { rewrite Hint, Hint'. unfold a, w.
    apply (mass_above_next_window g bg r0 prest es (g_emax G) (ls_alpha o) Hg0 Hbg HF). lra. }
  lra.
Qed.

(* ScoresIterator::next: after a step that did not exhaust its window, the next step
   (granularity g/10, window [io_win]) does not panic at `keys[riter + 1]` *)
Theorem sc_next_no_panic31_exh : forall rows perm bg K p g win it,
  matrix_ok K rows bg -> (2 <= length rows)%nat -> length perm = length rows ->
  0 < g -> 0 < p -> (fst win <= snd win + 1)%Z ->
  sc_next NumQ rows perm bg p g win = Ok it ->
  io_exh it = false ->
  sc_next NumQ rows perm bg p (g / 10) (io_win it) <> Panic 31.
Proof.
  intros rows perm bg K p g win it Hok HM Hperm Hg Hp Hwin H Hexh Hpanic.
  unfold sc_next in H.
  apply rbind_ok in H. destruct H as [G [Hrec H]].
  apply rbind_ok in H. destruct H as [o [Hlook H]].
  apply rbind_ok in H. destruct H as [osum [Hosum H]].
  destruct (negb _); [discriminate|].
  inversion H; subst it; clear H. cbn [io_win io_exh fst snd] in *.
  unfold sc_next in Hpanic.
  apply rbind_panic in Hpanic. destruct Hpanic as [Hpanic|[G' [Hrec' Hpanic]]].
  { apply recompute_panic in Hpanic. lia. }
  apply rbind_panic in Hpanic. destruct Hpanic as [Hpanic|[o' [_ Hpanic]]].
  { cbn [fst snd] in Hpanic.
    exact (lookup_score_next_no_panic31 rows perm bg K p g G G' (fst win) (snd win) o
             Hok HM Hperm Hg Hp Hwin Hrec Hlook Hexh Hrec' Hpanic). }
  apply rbind_panic in Hpanic. destruct Hpanic as [Hpanic|[osum' [_ Hpanic]]].
  { apply sum_i64_panic in Hpanic. discriminate. }
  destruct (negb _); discriminate.
Qed.

(* an unconverged step has not exhausted its window *)
Lemma sc_next_unconv_not_exhausted rows perm (bg : list Q) p g win it :
  sc_next NumQ rows perm bg p g win = Ok it -> io_conv it = false -> io_exh it = false.
Proof.
  intros H Hc. unfold sc_next in H.
  apply rbind_ok in H. destruct H as [G [Hrec H]].
  apply rbind_ok in H. destruct H as [o [Hlook H]].
  apply rbind_ok in H. destruct H as [osum [Hosum H]].
  destruct (negb _); [discriminate|].
  inversion H; subst it; clear H. cbn [io_conv io_exh] in *.
  exact (lookup_score_unconv_not_exhausted _ _ _ _ _ _ Hlook Hc).
Qed.

Theorem sc_next_no_panic31 : forall rows perm bg K p g win it,
  matrix_ok K rows bg -> (2 <= length rows)%nat -> length perm = length rows ->
  0 < g -> 0 < p -> (fst win <= snd win + 1)%Z ->
  sc_next NumQ rows perm bg p g win = Ok it ->
  io_conv it = false ->
  sc_next NumQ rows perm bg p (g / 10) (io_win it) <> Panic 31.
Proof.
  intros rows perm bg K p g win it Hok HM Hperm Hg Hp Hwin H Hc.
  apply (sc_next_no_panic31_exh rows perm bg K p g win it Hok HM Hperm Hg Hp Hwin H).
  exact (sc_next_unconv_not_exhausted _ _ _ _ _ _ _ H Hc).
Qed.

(* ------------------------------------------------------------------ *)
(** * 8. Runs *)

(* along a run of `approximate_score`, site 31 can only be reached by the first step *)
Theorem sc_run_no_panic31 : forall steps rows perm bg K p g win,
  matrix_ok K rows bg -> (2 <= length rows)%nat -> length perm = length rows ->
  0 < g -> 0 < p -> (fst win <= snd win + 1)%Z ->
  sc_next NumQ rows perm bg p g win <> Panic 31 ->
  ~ In (Panic 31) (sc_run NumQ steps rows perm bg p g win).
Proof.
  intros steps rows perm bg K p g win Hok HM Hperm Hg Hp. revert g win Hg.
  induction steps as [|n IH]; intros g win Hg Hwin Hfirst Hin; cbn [sc_run] in Hin; [destruct Hin|].
  rewrite (le_pos_false g Hg) in Hin.
  destruct (sc_next NumQ rows perm bg p g win) as [it0|c|s|] eqn:Enext;
    try (destruct Hin as [Hin|[]]; discriminate).
  - destruct Hin as [Hin|Hin]; [discriminate|].
    destruct (io_conv it0) eqn:Econv; [destruct Hin|].
    destruct (div10_pos g Hg) as [D1 _]. cbn [NumQ n_div n_ten] in D1, Hin.
    pose proof (sc_next_window _ _ _ _ _ _ _ _ Hok Hperm Hg Enext) as Hwin'.
    apply (IH (g / 10) (io_win it0) D1 ltac:(lia)); [|exact Hin].
    exact (sc_next_no_panic31 rows perm bg K p g win it0 Hok HM Hperm Hg Hp Hwin Enext Econv).
  - destruct Hin as [Hin|[]]. inversion Hin; subst s. apply Hfirst. reflexivity.
Qed.

(* the first step on the initial window of `approximate_score`: no word lies above it *)
Theorem sc_first_no_panic31 : forall rows perm bg K p win,
  matrix_ok K rows bg -> (2 <= length rows)%nat -> length perm = length rows ->
  0 <= p ->
  score_window0 NumQ rows perm = Ok win ->
  (fst win <= snd win + 1)%Z /\
  sc_next NumQ rows perm bg p (1 # 10) win <> Panic 31.
Proof.
  intros rows perm bg K p win Hok HM Hperm Hp Hwin.
  unfold score_window0 in Hwin.
  apply rbind_ok in Hwin. destruct Hwin as [G [Hrec Hwin]].
  apply rbind_ok in Hwin. destruct Hwin as [mn [Hmn Hwin]].
  apply rbind_ok in Hwin. destruct Hwin as [smax [Hsmax Hwin]].
  destruct (in_i64 _); [|discriminate]. inversion Hwin; subst win; clear Hwin.
  change (n_tenth NumQ) with (1 # 10) in Hrec.
  assert (Hg : 0 < 1 # 10) by reflexivity.
  pose proof (recompute_emax_nonneg _ _ _ _ _ _ Hok Hg Hrec) as Em0.
  pose proof (ceil_half_pos _ Em0) as Hc.
  change (n_ceilZ NumQ (n_add NumQ (g_emax G) (n_half NumQ))) with (Qceiling (g_emax G + (1 # 2))).
  set (c := Qceiling (g_emax G + (1 # 2))) in *. clearbody c.
  cbn [fst snd].
  destruct (recompute_cells _ _ _ _ _ _ Hok Hrec) as [Hcells [Hmaxr HlenG]].
  destruct (matrix_ok_bg _ _ _ Hok) as [Hunit Hbl].
  destruct (recompute_Q_geom _ _ _ _ Hrec) as [prow [_ [_ [_ [_ [_ [_ [Hminr _]]]]]]]].
  assert (HK : (2 <= K)%nat) by (destruct Hok as [HK _]; exact HK).
  assert (Hbg : forall b, In b bg -> 0 <= b) by (destruct Hok as [_ [_ [_ [Hbg _]]]]; exact Hbg).
  apply sum_i64_ok in Hmn. apply sum_i64_ok in Hsmax. rewrite Z.add_0_l in Hmn, Hsmax.
  rewrite Hminr in Hmn. rewrite Hmaxr in Hsmax.
  set (ir := irows (g_int G) bg) in *.
  assert (Hlens : Forall (fun r : list Z => length r = (K - 1)%nat) (g_int G)).
  { eapply Forall_impl; [|exact Hcells]. intros r [Hr _]. exact Hr. }
  assert (Hbnd : forall l, attain l ir -> (mn <= Zsum l <= smax)%Z).
  { intros l Hl. rewrite Hmn, Hsmax. apply (attain_irows_bounds _ bg). exact Hl. }
  destruct (attain_exists (K - 1) (g_int G) bg ltac:(lia) Hbl Hlens) as [l0 Hl0].
  fold ir in Hl0.
  pose proof (Hbnd _ Hl0) as Hb0.
  assert (Hw : (mn <= smax + c + 1)%Z) by lia.
  split; [exact Hw|].
  intros Hpanic. unfold sc_next in Hpanic.
  apply rbind_panic in Hpanic. destruct Hpanic as [Hpanic|[G' [Hrec' Hpanic]]].
  { apply recompute_panic in Hpanic. lia. }
  rewrite Hrec in Hrec'. inversion Hrec'; subst G'; clear Hrec'.
  apply rbind_panic in Hpanic. destruct Hpanic as [Hpanic|[o' [_ Hpanic]]].
  2:{ apply rbind_panic in Hpanic. destruct Hpanic as [Hpanic|[osum' [_ Hpanic]]].
      - apply sum_i64_panic in Hpanic. discriminate.
      - destruct (negb _); discriminate. }
  cbn [fst snd] in Hpanic.
  apply lookup_score_panic_sites in Hpanic.
  destruct Hpanic as [Hd|[_ [rowsq [Hd Hfe]]]].
  { apply distribution_panic in Hd. lia. }
  assert (Hdist : dist_exact ir mn (smax + c) (last rowsq [])).
  { apply (distribution_exact G bg _ _ rowsq (K - 1)%nat Hd); [lia|exact Hcells|exact Hmaxr|exact Hunit|exact Hbl|exact Hw]. }
  destruct Hdist as [body [vb [Hl [_ [_ [Hvb _]]]]]].
  destruct Hfe as [[_ Hneg]|[_ [kb [vb' [Hlast Hlt]]]]]; [lra|].
  rewrite Hl, last_last in Hlast. inversion Hlast; subst kb vb'; clear Hlast.
  rewrite Hvb in Hlt.
  assert (U : unit_rows ir) by (apply (unit_irows (K - 1)); auto).
  assert (E0 : PI_gt ir (smax + c) == 0).
  { unfold PI_gt. rewrite <- (wsum_const_unit ir U 0). apply wsum_ext_in. intros l Hl'.
    pose proof (Hbnd _ Hl') as Hb.
    destruct (Z.ltb_spec (smax + c) (Zsum l)); [lia|reflexivity]. }
  lra.
Qed.

(* `approximate_score` in exact arithmetic never reaches `keys[riter + 1]` out of bounds *)
Theorem approximate_score_no_panic31 : forall steps rows perm bg K p win,
  matrix_ok K rows bg -> (2 <= length rows)%nat -> length perm = length rows ->
  0 < p ->
  score_window0 NumQ rows perm = Ok win ->
  ~ In (Panic 31) (sc_run NumQ steps rows perm bg p (1 # 10) win).
Proof.
  intros steps rows perm bg K p win Hok HM Hperm Hp Hwin.
  destruct (sc_first_no_panic31 rows perm bg K p win Hok HM Hperm ltac:(lra) Hwin) as [Hw Hfirst].
  apply (sc_run_no_panic31 steps rows perm bg K p (1 # 10) win Hok HM Hperm ltac:(reflexivity) Hp Hw Hfirst).
Qed.

