(* C12 / C13 for backgrounds WITH wildcard mass (wildcard cells of the matrix at -inf).

   The theorems of TfmMain / TfmRun / TfmLink / TfmClause1 / TfmAdequate assume
   [matrix_ok]: the K-1 symbol frequencies sum to 1 and the wildcard frequency b_N is 0.
   The code (`mass = 1 - bg[K-1]`, overflow bucket weighted by mass^(M-1-pos)) is also
   right when b_N > 0, provided the wildcard cells of the matrix are -inf: the words
   through N then never reach a finite threshold and the exact tail P(S >= t) is the sum
   over the words made of the K-1 symbols only, i.e. [Ptail rows bg t] with symbol
   frequencies that sum to 1 - b_N (a sub-probability).  This file redoes the chain
   from [TfmDist.distribution_exact] (already stated with [bg_mass]) for
   [matrix_okm]: symbol frequencies sum to 1 - b_N, any b_N. *)
From Coq Require Import ZArith QArith Qround List Bool Lia Lqa Sorted Permutation Setoid Morphisms.
From LMBase Require Import Res ListX.
From LMTfm Require Import TfmNum TfmModel TfmSpec TfmProofs TfmScore TfmDist TfmPerm TfmMain TfmRun TfmTotal TfmLink TfmClause1 TfmAdequate.
Import ListNotations.
Open Scope Q_scope.

(* ------------------------------------------------------------------ *)
(** * 0. The hypothesis *)

Definition matrix_okm (K : nat) (rows : list (list Q)) (bg : list Q) : Prop :=
  (2 <= K)%nat /\ Forall (fun r => length r = K) rows /\ length bg = K /\
  (forall b, In b bg -> 0 <= b) /\ bg_mass (K - 1) bg /\ last bg 0 <= 1.

Lemma matrix_ok_okm K rows bg : matrix_ok K rows bg -> matrix_okm K rows bg.
Proof.
  intros [HK [Hlen [Hbgl [Hbg [Hunit Hw]]]]].
  split; [exact HK|]. split; [exact Hlen|]. split; [exact Hbgl|]. split; [exact Hbg|].
  split; [|rewrite Hw; lra]. unfold bg_mass. rewrite Hw. unfold bg_unit in Hunit. lra.
Qed.

Lemma matrix_okm_bg K rows (bg : list Q) :
  matrix_okm K rows bg -> bg_mass (K - 1) bg /\ (K - 1 <= length bg)%nat.
Proof. intros [HK [_ [Hbgl [_ [Hm _]]]]]. split; [exact Hm|lia]. Qed.

Lemma last_nonneg (bg : list Q) : (forall b, In b bg -> 0 <= b) -> 0 <= last bg 0.
Proof.
  induction bg as [|a r IH]; intros H; [simpl; lra|].
  destruct r as [|b r']; [simpl; apply H; left; reflexivity|].
  change (last (a :: b :: r') 0) with (last (b :: r') 0). apply IH. intros x Hx. apply H. right; exact Hx.
Qed.

(* the total mass 1 - b_N of one row lies in [0, 1] *)
Lemma matrix_okm_mass K rows bg :
  matrix_okm K rows bg -> 0 <= 1 - last bg 0 /\ 1 - last bg 0 <= 1.
Proof.
  intros [_ [_ [_ [Hbg [_ Hw]]]]]. pose proof (last_nonneg bg Hbg). split; lra.
Qed.

(* ------------------------------------------------------------------ *)
(** * 1. Rows of total mass m *)

Fixpoint Qpow_nat (m : Q) (n : nat) : Q :=
  match n with O => 1 | S k => m * Qpow_nat m k end.

Lemma Qpow_nat_comp m m' n : m == m' -> Qpow_nat m n == Qpow_nat m' n.
Proof. intros E. induction n as [|n IH]; simpl; [reflexivity|]. rewrite IH, E. reflexivity. Qed.

Lemma Qpow_nat_nonneg m n : 0 <= m -> 0 <= Qpow_nat m n.
Proof. intros Hm. induction n as [|n IH]; simpl; [lra|]. apply Qmult_le_0_compat; assumption. Qed.

Lemma Qpow_nat_le_1 m n : 0 <= m -> m <= 1 -> Qpow_nat m n <= 1.
Proof.
  intros H0 H1. induction n as [|n IH]; simpl; [lra|].
  pose proof (Qpow_nat_nonneg m n H0). nra.
Qed.

Lemma Qpow_nat_1 n : Qpow_nat 1 n == 1.
Proof. induction n as [|n IH]; simpl; [reflexivity|]. rewrite IH. lra. Qed.

Definition mass_rows {A} (m : Q) (rows : list (list (A * Q))) : Prop :=
  forall r, In r rows -> Qsum (map snd r) == m.

Lemma wsum_const_mass {A} (m : Q) (rows : list (list (A * Q))) :
  mass_rows m rows -> forall c, wsum rows (fun _ => c) == c * Qpow_nat m (length rows).
Proof.
  induction rows as [|r rest IH]; intros U c; simpl; [lra|].
  assert (E : Qsum (map (fun ab : A * Q => snd ab * wsum rest (fun _ => c)) r)
              == Qsum (map (fun ab : A * Q => (c * Qpow_nat m (length rest)) * snd ab) r)).
  { apply Qsum_eq_map. intros ab _. rewrite IH; [lra|]. intros r' Hr'. apply U. right; auto. }
  rewrite E.
  rewrite (Qsum_scale_map (c * Qpow_nat m (length rest)) (fun ab : A * Q => snd ab) r).
  change (map (fun ab : A * Q => snd ab) r) with (map (@snd A Q) r).
  rewrite (U r) by (left; auto). lra.
Qed.

Lemma mass_irows n ints bg :
  bg_mass n bg -> (n <= length bg)%nat -> Forall (fun r => length r = n) ints ->
  mass_rows (1 - last bg 0) (irows ints bg).
Proof.
  intros U Hn F r Hr. unfold irows in Hr. apply in_map_iff in Hr. destruct Hr as [cs [<- Hcs]].
  rewrite Forall_forall in F. specialize (F _ Hcs).
  rewrite map_snd_combine_firstn by lia. rewrite F. exact U.
Qed.

Lemma PI_ge_le_1_mass ir m k :
  wf_rows ir -> mass_rows m ir -> 0 <= m -> m <= 1 -> PI_ge ir k <= 1.
Proof.
  intros W U H0 H1. unfold PI_ge.
  apply Qle_trans with (wsum ir (fun _ => 1)).
  - apply wsum_le; auto. intros l _. apply ind_le_1.
  - rewrite (wsum_const_mass m ir U 1). pose proof (Qpow_nat_le_1 m (length ir) H0 H1). lra.
Qed.

(* ------------------------------------------------------------------ *)
(** * 2. lookup_pvalue on an exact table (C12, stage 1) *)

Theorem lookup_pvalue_sound_m rows perm bg K g G score o :
  matrix_okm K rows bg -> 0 < g -> length perm = length rows ->
  recompute NumQ rows perm g = Ok G ->
  lookup_pvalue NumQ G bg score = Ok o ->
  dist_exact (irows (g_int G) bg) (pv_lo o) (pv_hi o) (last (pv_rows o) []) ->
  let M := inject_Z (Z.of_nat (length rows)) in
  let cs := perm_cells rows perm in
  pv_min o <= pv_max o /\ 0 <= pv_min o /\ pv_max o <= 1 /\
  tailS cs bg (score + (M + 1) * g) <= pv_min o /\
  pv_max o <= tailS cs bg (score - (M + 2) * g).
Proof.
  intros Hokm Hg Hperm Hrec Hlook Hdist M cs.
  destruct (matrix_okm_mass _ _ _ Hokm) as [Hm0 Hm1].
  destruct Hokm as [HK [Hlen [Hbgl [Hbg [Hunit Hwild]]]]].
  destruct (recompute_Q_geom _ _ _ _ Hrec) as [prow [Hp [Hgran [Hg1 [Hint [Hoff [Hne [_ [_ Hem]]]]]]]]].
  destruct (permuted_rows_spec _ _ _ Hp) as [Hplen [Hpin Hcells]].
  set (css := map cells prow) in *.
  assert (Hcs : cs = css) by (unfold cs; symmetry; exact Hcells).
  (* error_max bounds *)
  rewrite combine_map_self, tl_map in Hem.
  apply error_max_from_Q in Hem; auto; [|apply Forall_tl; auto].
  destruct Hem as [Em0 [Em1 _]].
  assert (EmM : g_emax G <= M).
  { unfold M. rewrite <- Hperm, <- Hplen.
    assert (inject_Z (Z.of_nat (length (tl prow))) <= inject_Z (Z.of_nat (length prow))).
    { rewrite <- Zle_Qle. destruct prow; simpl; lia. }
    lra. }
  (* unfold the lookup *)
  unfold lookup_pvalue in Hlook. cbn [NumQ n_isnan n_add n_sub n_div n_ofZ n_floorZ n_one n_zero] in Hlook.
  apply rbind_ok in Hlook. destruct Hlook as [osum [Hosum Hlook]].
  apply rbind_ok in Hlook. destruct Hlook as [rows_t [Hrows_t Hlook]].
  apply sum_i64_ok in Hosum. rewrite Z.add_0_l in Hosum.
  rewrite Hgran in Hlook.
  set (scaled := score / g + inject_Z osum) in *.
  set (avg := Qfloor scaled) in *.
  set (mx := Qfloor (scaled + g_emax G + 1)) in *.
  set (mn := Qfloor (scaled - g_emax G - 1)) in *.
  set (lastm := last rows_t []) in *.
  destruct (fm_get _ _) as [pmin|] eqn:Hget; [|discriminate].
  destruct (walk_down _ _ _) as [kv|] eqn:Hwalk; [|discriminate].
  inversion Hlook; subst o; clear Hlook. simpl in *.
  fold mx in Hdist. fold mn in Hdist. fold lastm in Hdist.
  set (ir := irows (g_int G) bg) in *.
  assert (W : wf_rows ir) by (apply wf_irows; auto).
  assert (U : mass_rows (1 - last bg 0) ir).
  { apply (mass_irows (K - 1)); auto; [lia|]. rewrite Hint. unfold ints_of. rewrite Forall_forall.
    intros r Hr. apply in_map_iff in Hr. destruct Hr as [c [<- Hc]]. rewrite map_length.
    unfold css in Hc. apply in_map_iff in Hc. destruct Hc as [r0 [<- Hr0]]. apply cells_length.
    rewrite Forall_forall in Hlen, Hpin. apply Hlen. apply Hpin. auto. }
  assert (Hle1 : forall k, PI_ge ir k <= 1).
  { intros k. apply (PI_ge_le_1_mass ir (1 - last bg 0)); auto. }
  assert (Hmnavg : (mn <= avg)%Z) by (apply (Qfloor_resp_le (scaled - g_emax G - 1) scaled); lra).
  assert (Havgmx : (avg <= mx)%Z) by (apply (Qfloor_resp_le scaled (scaled + g_emax G + 1)); lra).
  destruct (pv_table_sound ir mn mx avg _ lastm W Hdist Hmnavg ltac:(lia) pmin kv Hget Hwalk)
    as [Hpmin [Hpmax [Hkv Hs]]].
  set (s := match find (fun kv0 : Z * Q => (avg <=? fst kv0)%Z) (rev (cum_desc NumQ 0 (rev lastm))) with
            | Some kv0 => fst kv0 | None => (mx + 1)%Z end) in *.
  assert (Hc1 : forall x, x <= 1 -> clamp1 NumQ x = x).
  { intros x Hx. unfold clamp1, gt. cbn [NumQ n_cmp n_one]. unfold Qcmp_opt.
    destruct (Qcompare x 1) eqn:Ec; try reflexivity. apply Qgt_alt in Ec. lra. }
  rewrite (Hc1 pmin) by (rewrite Hpmin; apply Hle1).
  rewrite (Hc1 (snd kv)) by (rewrite Hpmax; apply Hle1).
  rewrite Hpmin, Hpmax.
  split. { apply PI_ge_mono; auto. lia. }
  split. { apply PI_ge_nonneg; auto. }
  split. { apply Hle1. }
  (* the two brackets, through the joint rows *)
  assert (WJ : wf_rows (jrows g bg css)) by (apply wf_jrows; auto).
  assert (Hosum' : osum = Zsum (offs_of g css)) by (rewrite Hosum, Hoff; reflexivity).
  assert (HM : M = inject_Z (Z.of_nat (length css))).
  { unfold M, css. rewrite map_length, Hplen, Hperm. reflexivity. }
  unfold tailS. rewrite Hcs. unfold PI_ge, ir. rewrite Hint.
  rewrite !(wsum_S_joint g), !(wsum_I_joint g).
  split.
  - apply wsum_le; auto. intros l Hl. apply ind_impl. intros Hle.
    apply Qle_bool_iff in Hle. apply Z.leb_le.
    destruct (int_score_error_coarse g bg css l Hg Hl) as [E0 [E1 _]]. rewrite <- HM, <- Hosum' in *.
    apply Hs.
    + unfold ir. rewrite Hint, (irows_jrows g). apply (attain_map (fun xc : Q * Z => snd xc)). exact Hl.
    + pose proof (up_arith g _ _ _ M score Hg Hle E0 E1) as HA. fold scaled in HA.
      assert (HF : inject_Z avg <= scaled) by exact (Qfloor_le scaled).
      rewrite Zle_Qle. apply Qle_trans with scaled; [exact HF|].
      apply Qle_trans with (scaled + 1); [|exact HA].
      rewrite <- (Qplus_0_r scaled) at 1. apply Qplus_le_r. discriminate.
  - apply Qle_trans with (wsum (jrows g bg css) (fun l => ind (mn <=? Zsum (map (fun xc : Q * Z => snd xc) l))%Z)).
    + apply wsum_le; auto. intros l _. apply ind_impl. intros E. apply Z.leb_le in E. apply Z.leb_le. lia.
    + apply wsum_le; auto. intros l Hl. apply ind_impl. intros Hle. apply Z.leb_le in Hle.
      apply Qle_bool_iff.
      destruct (int_score_error_coarse g bg css l Hg Hl) as [E0 [E1 _]]. rewrite <- HM, <- Hosum' in *.
      apply (dn_arith g _ (inject_Z osum) (inject_Z (Zsum (map (fun xc : Q * Z => snd xc) l))) M score (g_emax G) mn); auto.
      rewrite <- Zle_Qle. exact Hle.
Qed.

(* ------------------------------------------------------------------ *)
(** * 3. recompute (shape facts only: no use of the mass clauses) *)

Lemma recompute_cells_m rows perm (bg : list Q) K g G :
  matrix_okm K rows bg -> recompute NumQ rows perm g = Ok G ->
  Forall (fun r => length r = (K - 1)%nat /\ forall c, In c r -> (0 <= c)%Z) (g_int G) /\
  g_maxr G = map zmax_of (g_int G) /\ length (g_int G) = length perm.
Proof.
  intros [HK [Hlen [Hbgl [Hbg [Hunit Hwild]]]]] Hrec.
  destruct (recompute_Q_geom _ _ _ _ Hrec) as [prow [Hpr [Hgran [Hg1 [Hint [Hoff [Hne [_ [Hmaxr _]]]]]]]]].
  destruct (permuted_rows_spec _ _ _ Hpr) as [Hplen [Hpin Hcells]].
  split; [|split; [exact Hmaxr|]].
  - rewrite Hint. unfold ints_of. rewrite Forall_forall. intros r Hr.
    apply in_map_iff in Hr. destruct Hr as [cs [<- Hcs]]. apply in_map_iff in Hcs. destruct Hcs as [r0 [<- Hr0]].
    split.
    + rewrite map_length. apply cells_length. rewrite Forall_forall in Hlen, Hpin. apply Hlen. apply Hpin. exact Hr0.
    + intros c Hc. apply in_map_iff in Hc. destruct Hc as [x [<- Hx]]. unfold off_of.
      assert (In (qfl g x) (map (qfl g) (cells r0))) by (apply in_map; exact Hx).
      pose proof (zmin_of_le _ _ H). lia.
  - rewrite Hint. unfold ints_of. rewrite !map_length. exact Hplen.
Qed.

Lemma recompute_emax_nonneg_m rows perm g G :
  0 < g -> recompute NumQ rows perm g = Ok G -> 0 <= g_emax G.
Proof.
  intros Hg Hrec.
  destruct (recompute_Q_geom _ _ _ _ Hrec) as [prow [Hpr [Hgran [Hg1 [Hint [Hoff [Hne [_ [_ Hem]]]]]]]]].
  rewrite combine_map_self, tl_map in Hem.
  apply error_max_from_Q in Hem; auto.
  2:{ apply Forall_tl. exact Hne. }
  destruct Hem as [Em0 _]. exact Em0.
Qed.

(* ------------------------------------------------------------------ *)
(** * 4. C12: PvaluesIterator::next, runs, the final p-value *)

Theorem pv_next_sound_m rows perm bg K g score it :
  matrix_okm K rows bg -> (2 <= length rows)%nat -> length perm = length rows -> 0 < g ->
  pv_next NumQ rows perm bg score g = Ok it ->
  let M := inject_Z (Z.of_nat (length rows)) in
  let cs := perm_cells rows perm in
  io_gran it = g /\
  io_start it <= io_end it /\ 0 <= io_start it /\ io_end it <= 1 /\
  tailS cs bg (score + (M + 1) * g) <= io_start it /\
  io_end it <= tailS cs bg (score - (M + 2) * g).
Proof.
  intros Hok HM Hperm Hg H M cs. unfold pv_next in H.
  apply rbind_ok in H. destruct H as [G [Hrec H]].
  apply rbind_ok in H. destruct H as [o [Hlook H]].
  inversion H; subst it; clear H. cbn [io_gran io_start io_end]. split; [reflexivity|].
  destruct (recompute_cells_m _ _ _ _ _ _ Hok Hrec) as [Hcells [Hmaxr HlenG]].
  destruct (matrix_okm_bg _ _ _ Hok) as [Hunit Hbl].
  assert (Hdist : dist_exact (irows (g_int G) bg) (pv_lo o) (pv_hi o) (last (pv_rows o) [])).
  { pose proof Hlook as Hl. unfold lookup_pvalue in Hl. cbn [NumQ n_isnan] in Hl.
    apply rbind_ok in Hl. destruct Hl as [osum [_ Hl]].
    apply rbind_ok in Hl. destruct Hl as [rowsq [Hd Hl]].
    destruct (fm_get _ _) as [pmin|]; [|discriminate].
    destruct (walk_down _ _ _) as [kv|]; [|discriminate].
    inversion Hl; subst o; clear Hl. cbn [pv_lo pv_hi pv_rows].
    apply (distribution_exact G bg _ _ rowsq (K - 1)%nat Hd); [lia|exact Hcells|exact Hmaxr|exact Hunit|exact Hbl|].
    pose proof (recompute_emax_nonneg_m _ _ _ _ Hg Hrec) as Em0.
    cbn [NumQ n_floorZ n_add n_sub n_div n_ofZ n_one].
    set (sc := score / g_gran G + inject_Z osum).
    assert (Qfloor (sc - g_emax G - 1) <= Qfloor (sc + g_emax G + 1))%Z by (apply Qfloor_resp_le; lra).
    lia. }
  exact (lookup_pvalue_sound_m rows perm bg K g G score o Hok Hg Hperm Hrec Hlook Hdist).
Qed.

(* C12, one refinement step, for the matrix as given *)
Theorem pv_step_bounds_m rows perm bg K g score it :
  matrix_okm K rows bg -> (2 <= length rows)%nat -> Permutation perm (seq 0 (length rows)) -> 0 < g ->
  pv_next NumQ rows perm bg score g = Ok it ->
  let M := inject_Z (Z.of_nat (length rows)) in
  io_gran it = g /\
  io_start it <= io_end it /\ 0 <= io_start it /\ io_end it <= 1 /\
  Ptail rows bg (score + (M + 1) * g) <= io_start it /\
  io_end it <= Ptail rows bg (score - (M + 2) * g).
Proof.
  intros Hok HM Hperm Hg H M.
  destruct (pv_next_sound_m rows perm bg K g score it Hok HM (perm_length _ _ Hperm) Hg H) as [A [B [C [D [E F]]]]].
  rewrite (Ptail_perm rows perm bg _ Hperm) in E. rewrite (Ptail_perm rows perm bg _ Hperm) in F. repeat split; assumption.
Qed.

Theorem pv_run_sound_m : forall steps rows perm bg K score g it,
  matrix_okm K rows bg -> (2 <= length rows)%nat -> length perm = length rows -> 0 < g ->
  In (Ok it) (pv_run NumQ steps rows perm bg score g) ->
  let M := inject_Z (Z.of_nat (length rows)) in
  let cs := perm_cells rows perm in
  let gi := io_gran it in
  0 < gi /\ gi <= g /\
  io_start it <= io_end it /\ 0 <= io_start it /\ io_end it <= 1 /\
  tailS cs bg (score + (M + 1) * gi) <= io_start it /\
  io_end it <= tailS cs bg (score - (M + 2) * gi).
Proof.
  intros steps rows perm bg K score g it Hok HM Hperm Hg Hin M cs gi. subst gi.
  revert g Hg Hin. induction steps as [|n IH]; intros g Hg Hin; cbn [pv_run] in Hin; [destruct Hin|].
  rewrite (le_pos_false g Hg) in Hin.
  destruct (pv_next NumQ rows perm bg score g) as [it0| | |] eqn:Enext;
    try (destruct Hin as [Hin|[]]; discriminate).
  destruct Hin as [Hin|Hin].
  - inversion Hin; subst it0; clear Hin.
    destruct (pv_next_sound_m rows perm bg K g score it Hok HM Hperm Hg Enext) as [E [H1 [H2 [H3 [H4 H5]]]]].
    fold M in H4, H5. fold cs in H4, H5. rewrite E.
    split; [exact Hg|]. split; [lra|]. repeat split; assumption.
  - destruct (io_conv it0); [destruct Hin|].
    destruct (div10_pos g Hg) as [D1 D2].
    destruct (IH _ D1 Hin) as [A1 [A2 A3]].
    split; [exact A1|]. split; [lra|exact A3].
Qed.

(* C12: every iteration of approximate_pvalue *)
Theorem pv_run_bounds_m steps rows perm bg K score g it :
  matrix_okm K rows bg -> (2 <= length rows)%nat -> Permutation perm (seq 0 (length rows)) -> 0 < g ->
  In (Ok it) (pv_run NumQ steps rows perm bg score g) ->
  let M := inject_Z (Z.of_nat (length rows)) in
  let gi := io_gran it in
  0 < gi /\ gi <= g /\
  io_start it <= io_end it /\ 0 <= io_start it /\ io_end it <= 1 /\
  Ptail rows bg (score + (M + 1) * gi) <= io_start it /\
  io_end it <= Ptail rows bg (score - (M + 2) * gi).
Proof.
  intros Hok HM Hperm Hg H M gi.
  destruct (pv_run_sound_m steps rows perm bg K score g it Hok HM (perm_length _ _ Hperm) Hg H)
    as [A [B [C [D [E [F G]]]]]].
  rewrite (Ptail_perm rows perm bg _ Hperm) in F. rewrite (Ptail_perm rows perm bg _ Hperm) in G.
  repeat split; assumption.
Qed.

Theorem pvalue_final_bounds_m : forall steps rows perm bg K score g it,
  matrix_okm K rows bg -> (2 <= length rows)%nat -> length perm = length rows -> 0 < g ->
  last (pv_run NumQ steps rows perm bg score g) (Panic 0) = Ok it ->
  io_conv it = true ->
  let M := inject_Z (Z.of_nat (length rows)) in
  let cs := perm_cells rows perm in
  let pfinal := io_start it in
  let gi := io_gran it in
  0 < gi /\ gi <= g /\ pfinal == io_end it /\
  0 <= pfinal <= 1 /\
  tailS cs bg (score + (M + 1) * gi) <= pfinal /\
  pfinal <= tailS cs bg (score - (M + 2) * gi).
Proof.
  intros steps rows perm bg K score g it Hok HM Hperm Hg Hlast Hconv M cs pfinal gi.
  assert (Hin : In (Ok it) (pv_run NumQ steps rows perm bg score g)).
  { eapply last_In; [exact Hlast|discriminate]. }
  destruct (pv_run_sound_m steps rows perm bg K score g it Hok HM Hperm Hg Hin)
    as [A1 [A2 [A3 [A4 [A5 [A6 A7]]]]]].
  fold M in A6, A7. fold cs in A6, A7. fold gi in A1, A2, A6, A7. fold pfinal in A3, A4, A6.
  assert (Heq : pfinal == io_end it).
  { clear -Hconv Hin. revert g Hin. induction steps as [|n IH]; intros g Hin; cbn [pv_run] in Hin; [destruct Hin|].
    destruct (le NumQ g (n_zero NumQ)); [destruct Hin|].
    destruct (pv_next NumQ rows perm bg score g) as [it0| | |] eqn:Enext;
      try (destruct Hin as [Hin|[]]; discriminate).
    destruct Hin as [Hin|Hin].
    - inversion Hin; subst it0; clear Hin. unfold pv_next in Enext.
      apply rbind_ok in Enext. destruct Enext as [G [_ H]].
      apply rbind_ok in H. destruct H as [o [_ H]].
      inversion H; subst it. cbn [io_conv io_start io_end] in *. apply feqQ. exact Hconv.
    - destruct (io_conv it0); [destruct Hin|]. eapply IH; eauto. }
  split; [exact A1|]. split; [exact A2|]. split; [exact Heq|].
  split; [split; lra|]. split; [exact A6|]. lra.
Qed.

(* C12: the final p-value *)
Theorem pvalue_final_m rows perm bg K score g steps it :
  matrix_okm K rows bg -> (2 <= length rows)%nat -> Permutation perm (seq 0 (length rows)) -> 0 < g ->
  last (pv_run NumQ steps rows perm bg score g) (Panic 0) = Ok it ->
  io_conv it = true ->
  let M := inject_Z (Z.of_nat (length rows)) in
  let pfinal := io_start it in
  let gi := io_gran it in
  0 < gi /\ gi <= g /\ pfinal == io_end it /\
  0 <= pfinal <= 1 /\
  Ptail rows bg (score + (M + 1) * gi) <= pfinal /\
  pfinal <= Ptail rows bg (score - (M + 2) * gi).
Proof.
  intros Hok HM Hperm Hg H Hc M pfinal gi.
  destruct (pvalue_final_bounds_m steps rows perm bg K score g it Hok HM (perm_length _ _ Hperm) Hg H Hc)
    as [A [B [C [D [E F]]]]].
  rewrite (Ptail_perm rows perm bg _ Hperm) in E. rewrite (Ptail_perm rows perm bg _ Hperm) in F.
  repeat split; try assumption; apply D.
Qed.

(* ... so its error is at most the probability mass of the scores within (M+2) g of s *)
Theorem pvalue_final_error_m rows perm bg K score g steps it :
  matrix_okm K rows bg -> (2 <= length rows)%nat -> Permutation perm (seq 0 (length rows)) -> 0 < g ->
  last (pv_run NumQ steps rows perm bg score g) (Panic 0) = Ok it ->
  io_conv it = true ->
  let M := inject_Z (Z.of_nat (length rows)) in
  let gi := io_gran it in
  let mass := Ptail rows bg (score - (M + 2) * gi) - Ptail rows bg (score + (M + 1) * gi) in
  0 <= mass /\ - mass <= io_start it - Ptail rows bg score <= mass.
Proof.
  intros Hok HM Hperm Hg H Hc M gi mass.
  destruct (pvalue_final_m rows perm bg K score g steps it Hok HM Hperm Hg H Hc) as [A [B [C [D [E F]]]]].
  destruct Hok as [_ [_ [_ [Hbg _]]]].
  assert (HM0 : 0 <= M).
  { unfold M. change 0 with (inject_Z 0). rewrite <- Zle_Qle. lia. }
  fold gi in A, E, F. fold M in E, F.
  assert (G1 : Ptail rows bg (score + (M + 1) * gi) <= Ptail rows bg score).
  { apply Ptail_antitone; auto. nra. }
  assert (G2 : Ptail rows bg score <= Ptail rows bg (score - (M + 2) * gi)).
  { apply Ptail_antitone; auto. nra. }
  unfold mass. split; [lra|]. split; lra.
Qed.

(* ------------------------------------------------------------------ *)
(** * 5. C13: lookup_score on an exact table and an adequate window *)

Theorem lookup_score_sound_m rows perm bg K g G p mn mx o :
  matrix_okm K rows bg -> 0 < g -> length perm = length rows ->
  recompute NumQ rows perm g = Ok G ->
  lookup_score NumQ G bg p mn mx = Ok o ->
  dist_exact (irows (g_int G) bg) mn mx (last (ls_rows o) []) ->
  WindowOK o -> 0 < p ->
  let M := inject_Z (Z.of_nat (length rows)) in
  let cs := perm_cells rows perm in
  let t := inject_Z (ls_alpha o - Zsum (g_off G)) * g in
  let d := (M + 2) * g in
  tailS cs bg (t + d) <= p /\
  (forall l, attain l (srows cs bg) -> Qsum l < t - d -> p <= tailS cs bg (Qsum l - d)).
Proof.
  intros [HK [Hlen [Hbgl [Hbg [Hunit Hwild]]]]] Hg Hperm Hrec Hlook Hdist [Hw1 Hw2] Hp M cs t d.
  destruct (recompute_Q_geom _ _ _ _ Hrec) as [prow [Hpr [Hgran [Hg1 [Hint [Hoff [Hne _]]]]]]].
  destruct (permuted_rows_spec _ _ _ Hpr) as [Hplen [Hpin Hcells]].
  set (css := map cells prow) in *.
  assert (Hcs : cs = css) by (unfold cs; symmetry; exact Hcells).
  unfold lookup_score in Hlook. cbn [NumQ n_isnan] in Hlook.
  apply rbind_ok in Hlook. destruct Hlook as [rowsq [Hdistr Hlook]].
  set (lastm := last rowsq []) in *.
  destruct (length lastm) as [|top] eqn:Elen; [discriminate|].
  apply rbind_ok in Hlook. destruct Hlook as [[[riter sum] pvs] [Hloop Hlook]].
  apply rbind_ok in Hlook. destruct Hlook as [[[[a ae] pvs'] exh] [Hsel Hlook]].
  apply rbind_ok in Hlook. destruct Hlook as [pa [Hpa Hlook]].
  apply rbind_ok in Hlook. destruct Hlook as [pe [Hpe Hlook]].
  inversion Hlook; subst o; clear Hlook. cbn [ls_alpha ls_total_lt ls_rows] in *.
  fold lastm in Hdist, Hw2.
  set (ir := irows (g_int G) bg) in *.
  assert (W : wf_rows ir) by (apply wf_irows; auto).
  (* the loop *)
  assert (Hloop' :
    ((1 <= riter)%nat /\ sum == tailsum lastm riter /\ p <= sum /\
       ((S riter < length lastm)%nat -> tailsum lastm (S riter) < p))
    \/ (riter = 0%nat /\ sum == tailsum lastm 1 /\ ((1 < length lastm)%nat -> sum < p))).
  { destruct (ls_loop_spec p lastm top 0 [] riter sum pvs Hloop) as [[A1 [A2 [A3 [A4 A5]]]]|[B1 [B2 B3]]].
    - rewrite tailsum_beyond by lia. reflexivity.
    - intros Hc. lia.
    - left. repeat split; auto.
    - right. repeat split; auto. }
  (* the choice of alpha *)
  assert (Hsel' :
    (gt NumQ sum p = true /\ key_at lastm (S riter) 31 = Ok a /\ exh = false /\
       exists ae0, key_at lastm riter 31 = Ok ae0)
    \/ (gt NumQ sum p = false /\ riter = 0%nat /\ key_at lastm 0 31 = Ok a /\ exh = true)
    \/ (gt NumQ sum p = false /\ riter <> 0%nat /\ key_at lastm riter 31 = Ok a /\ exh = false)).
  { destruct (gt NumQ sum p) eqn:Hgt.
    - apply rbind_ok in Hsel. destruct Hsel as [ae0 [Hae0 Hsel]].
      apply rbind_ok in Hsel. destruct Hsel as [a0 [Ha0 Hsel]].
      inversion Hsel; subst. left. repeat split; auto. exists ae; auto.
    - destruct riter as [|r'].
      + apply rbind_ok in Hsel. destruct Hsel as [a0 [Ha0 Hsel]].
        inversion Hsel; subst. right; left. repeat split; auto.
      + apply rbind_ok in Hsel. destruct Hsel as [a0 [Ha0 Hsel]].
        apply rbind_ok in Hsel. destruct Hsel as [ae0 [Hae0 Hsel]].
        inversion Hsel; subst. right; right. repeat split; auto. }
  cbn [NumQ n_add n_zero] in Hw1.
  destruct (ls_core ir mn mx lastm p riter sum a exh Hdist W Hp Hw2 Hloop' Hsel' Hw1) as [C1 [b [C2 C3]]].
  (* from integer scores to real scores *)
  assert (WJ : wf_rows (jrows g bg css)) by (apply wf_jrows; auto).
  assert (HM : M = inject_Z (Z.of_nat (length css))).
  { unfold M, css. rewrite map_length, Hplen, Hperm. reflexivity. }
  assert (HM0 : 0 <= M).
  { unfold M. change 0 with (inject_Z 0). rewrite <- Zle_Qle. lia. }
  assert (Ht : t == (inject_Z a - inject_Z (Zsum (offs_of g css))) * g).
  { unfold t. rewrite inject_Z_minus, Hoff. reflexivity. }
  set (A := inject_Z a) in *. set (O := inject_Z (Zsum (offs_of g css))) in *.
  unfold tailS. rewrite Hcs.
  split.
  - apply Qle_trans with (PI_ge ir (a + 2)); [|exact C1].
    unfold PI_ge, ir. rewrite Hint. rewrite (wsum_S_joint g), (wsum_I_joint g).
    apply wsum_le; auto. intros l Hl. apply ind_impl. intros Hle.
    apply Qle_bool_iff in Hle. apply Z.leb_le.
    destruct (int_score_error_coarse g bg css l Hg Hl) as [E0 [E1 _]]. rewrite <- HM in E1. fold O in E0, E1.
    rewrite Ht in Hle. unfold d in Hle.
    pose proof (c1_arith g _ O _ M A Hg Hle E1) as HA.
    rewrite Zle_Qle, inject_Z_plus. exact HA.
  - intros lu Hlu Hult.
    destruct (attain_srows_joint g bg css lu) as [lj [Hlj Elj]]; [exact Hlu|].
    destruct (int_score_error_coarse g bg css lj Hg Hlj) as [U0 [U1 _]]. rewrite <- HM in U1. fold O in U0, U1.
    rewrite Elj in U0, U1.
    set (u := Qsum lu) in *.
    set (Iu := Zsum (map (fun xc : Q * Z => snd xc) lj)) in *.
    assert (HIu : (Iu < a)%Z).
    { rewrite Ht in Hult. unfold d in Hult.
      pose proof (u_arith g u O (inject_Z Iu) M A Hg HM0 Hult U0) as HA. unfold A in HA.
      rewrite <- Zlt_Qlt in HA. exact HA. }
    assert (HIub : (Iu <= b)%Z).
    { apply C3; auto. unfold ir. rewrite Hint, (irows_jrows g).
      apply (attain_map (fun xc : Q * Z => snd xc)). exact Hlj. }
    apply Qle_trans with (PI_ge ir b); [exact C2|].
    unfold PI_ge, ir. rewrite Hint. rewrite (wsum_S_joint g), (wsum_I_joint g).
    apply wsum_le; auto. intros l Hl. apply ind_impl. intros Hle.
    apply Z.leb_le in Hle. apply Qle_bool_iff.
    destruct (int_score_error_coarse g bg css l Hg Hl) as [E0 [E1 _]]. fold O in E0.
    unfold d.
    apply (c2_arith g u _ O (inject_Z (Zsum (map (fun xc : Q * Z => snd xc) l))) (inject_Z Iu) M); auto.
    rewrite <- Zle_Qle. lia.
Qed.

(* first clause only, no [ls_total_lt] hypothesis *)
Theorem lookup_score_clause1_m : forall rows perm bg K g G p mn mx o,
  matrix_okm K rows bg -> 0 < g -> length perm = length rows ->
  recompute NumQ rows perm g = Ok G ->
  lookup_score NumQ G bg p mn mx = Ok o ->
  dist_exact (irows (g_int G) bg) mn mx (last (ls_rows o) []) ->
  (1 < length (last (ls_rows o) []))%nat -> 0 < p ->
  let M := inject_Z (Z.of_nat (length rows)) in
  let cs := perm_cells rows perm in
  let t := inject_Z (ls_alpha o - Zsum (g_off G)) * g in
  let d := (M + 2) * g in
  tailS cs bg (t + d) <= p.
Proof.
  intros rows perm bg K g G p mn mx o.
  intros [HK [Hlen [Hbgl [Hbg [Hunit Hwild]]]]] Hg Hperm Hrec Hlook Hdist Hw2 Hp M cs t d.
  destruct (recompute_Q_geom _ _ _ _ Hrec) as [prow [Hpr [Hgran [Hg1 [Hint [Hoff [Hne _]]]]]]].
  destruct (permuted_rows_spec _ _ _ Hpr) as [Hplen [Hpin Hcells]].
  set (css := map cells prow) in *.
  assert (Hcs : cs = css) by (unfold cs; symmetry; exact Hcells).
  unfold lookup_score in Hlook. cbn [NumQ n_isnan] in Hlook.
  apply rbind_ok in Hlook. destruct Hlook as [rowsq [Hdistr Hlook]].
  set (lastm := last rowsq []) in *.
  destruct (length lastm) as [|top] eqn:Elen; [discriminate|].
  apply rbind_ok in Hlook. destruct Hlook as [[[riter sum] pvs] [Hloop Hlook]].
  apply rbind_ok in Hlook. destruct Hlook as [[[[a ae] pvs'] exh] [Hsel Hlook]].
  apply rbind_ok in Hlook. destruct Hlook as [pa [Hpa Hlook]].
  apply rbind_ok in Hlook. destruct Hlook as [pe [Hpe Hlook]].
  inversion Hlook; subst o; clear Hlook. cbn [ls_alpha ls_total_lt ls_rows] in *.
  fold lastm in Hdist, Hw2.
  set (ir := irows (g_int G) bg) in *.
  assert (W : wf_rows ir) by (apply wf_irows; auto).
  (* the loop *)
  assert (Hloop' :
    ((1 <= riter)%nat /\ sum == tailsum lastm riter /\ p <= sum /\
       ((S riter < length lastm)%nat -> tailsum lastm (S riter) < p))
    \/ (riter = 0%nat /\ sum == tailsum lastm 1 /\ ((1 < length lastm)%nat -> sum < p))).
  { destruct (ls_loop_spec p lastm top 0 [] riter sum pvs Hloop) as [[A1 [A2 [A3 [A4 A5]]]]|[B1 [B2 B3]]].
    - rewrite tailsum_beyond by lia. reflexivity.
    - intros Hc. lia.
    - left. repeat split; auto.
    - right. repeat split; auto. }
  (* the choice of alpha *)
  assert (Hsel' :
    (gt NumQ sum p = true /\ key_at lastm (S riter) 31 = Ok a /\ exh = false /\
       exists ae0, key_at lastm riter 31 = Ok ae0)
    \/ (gt NumQ sum p = false /\ riter = 0%nat /\ key_at lastm 0 31 = Ok a /\ exh = true)
    \/ (gt NumQ sum p = false /\ riter <> 0%nat /\ key_at lastm riter 31 = Ok a /\ exh = false)).
  { destruct (gt NumQ sum p) eqn:Hgt.
    - apply rbind_ok in Hsel. destruct Hsel as [ae0 [Hae0 Hsel]].
      apply rbind_ok in Hsel. destruct Hsel as [a0 [Ha0 Hsel]].
      inversion Hsel; subst. left. repeat split; auto. exists ae; auto.
    - destruct riter as [|r'].
      + apply rbind_ok in Hsel. destruct Hsel as [a0 [Ha0 Hsel]].
        inversion Hsel; subst. right; left. repeat split; auto.
      + apply rbind_ok in Hsel. destruct Hsel as [a0 [Ha0 Hsel]].
        apply rbind_ok in Hsel. destruct Hsel as [ae0 [Hae0 Hsel]].
        inversion Hsel; subst. right; right. repeat split; auto. }
  pose proof (ls_core_c1 ir mn mx lastm p riter sum a exh Hdist W Hp Hw2 Hloop' Hsel') as C1.
  (* from integer scores to real scores *)
  assert (WJ : wf_rows (jrows g bg css)) by (apply wf_jrows; auto).
  assert (HM : M = inject_Z (Z.of_nat (length css))).
  { unfold M, css. rewrite map_length, Hplen, Hperm. reflexivity. }
  assert (Ht : t == (inject_Z a - inject_Z (Zsum (offs_of g css))) * g).
  { unfold t. rewrite inject_Z_minus, Hoff. reflexivity. }
  set (A := inject_Z a) in *. set (O := inject_Z (Zsum (offs_of g css))) in *.
  unfold tailS. rewrite Hcs.
  apply Qle_trans with (PI_ge ir (a + 2)); [|exact C1].
  unfold PI_ge, ir. rewrite Hint. rewrite (wsum_S_joint g), (wsum_I_joint g).
  apply wsum_le; auto. intros l Hl. apply ind_impl. intros Hle.
  apply Qle_bool_iff in Hle. apply Z.leb_le.
  destruct (int_score_error_coarse g bg css l Hg Hl) as [E0 [E1 _]]. rewrite <- HM in E1. fold O in E0, E1.
  rewrite Ht in Hle. unfold d in Hle.
  pose proof (c1_arith g _ O _ M A Hg Hle E1) as HA.
  rewrite Zle_Qle, inject_Z_plus. exact HA.
Qed.

(* ------------------------------------------------------------------ *)
(** * 6. C13: ScoresIterator::next on an adequate window *)

Theorem sc_next_sound_m rows perm bg K g p win it :
  matrix_okm K rows bg -> (2 <= length rows)%nat -> length perm = length rows -> 0 < g -> 0 < p ->
  (fst win <= snd win + 1)%Z ->
  sc_next NumQ rows perm bg p g win = Ok it ->
  io_total_lt it = false -> (1 < length (last (io_rows it) []))%nat ->
  let M := inject_Z (Z.of_nat (length rows)) in
  let cs := perm_cells rows perm in
  let t := io_score it in
  let d := (M + 2) * g in
  io_gran it = g /\
  tailS cs bg (t + d) <= p /\
  (forall l, attain l (srows cs bg) -> Qsum l < t - d -> p <= tailS cs bg (Qsum l - d)).
Proof.
  intros Hok HM Hperm Hg Hp Hwin H Hw1 Hw2 M cs t d. unfold sc_next in H.
  apply rbind_ok in H. destruct H as [G [Hrec H]].
  apply rbind_ok in H. destruct H as [o [Hlook H]].
  apply rbind_ok in H. destruct H as [osum [Hosum H]].
  destruct (negb _); [discriminate|].
  inversion H; subst it; clear H. cbn [io_gran io_score io_total_lt io_rows] in *. split; [reflexivity|].
  destruct (recompute_cells_m _ _ _ _ _ _ Hok Hrec) as [Hcells [Hmaxr HlenG]].
  destruct (matrix_okm_bg _ _ _ Hok) as [Hunit Hbl].
  assert (Hrows : distribution NumQ G bg (fst win) (snd win) = Ok (ls_rows o)).
  { pose proof Hlook as Hl. unfold lookup_score in Hl. cbn [NumQ n_isnan] in Hl.
    apply rbind_ok in Hl. destruct Hl as [rowsq [Hd Hl]]. rewrite Hd. f_equal.
    destruct (length (last rowsq [])); [discriminate|].
    apply rbind_ok in Hl. destruct Hl as [[[riter sum] pvs] [_ Hl]].
    apply rbind_ok in Hl. destruct Hl as [[[[a ae] pvs'] exh] [_ Hl]].
    apply rbind_ok in Hl. destruct Hl as [pa [_ Hl]].
    apply rbind_ok in Hl. destruct Hl as [pe [_ Hl]].
    inversion Hl; subst o. reflexivity. }
  assert (Hdist : dist_exact (irows (g_int G) bg) (fst win) (snd win) (last (ls_rows o) [])).
  { apply (distribution_exact G bg _ _ (ls_rows o) (K - 1)%nat Hrows); [lia|exact Hcells|exact Hmaxr|exact Hunit|exact Hbl|exact Hwin]. }
  apply sum_i64_ok in Hosum. rewrite Z.add_0_l in Hosum.
  unfold t. cbn [NumQ n_mul n_ofZ]. rewrite Hosum.
  exact (lookup_score_sound_m rows perm bg K g G p (fst win) (snd win) o Hok Hg Hperm Hrec Hlook Hdist
           (conj Hw1 Hw2) Hp).
Qed.

Theorem sc_next_clause1_m : forall rows perm bg K g p win it,
  matrix_okm K rows bg -> (2 <= length rows)%nat -> length perm = length rows -> 0 < g -> 0 < p ->
  (fst win <= snd win + 1)%Z ->
  sc_next NumQ rows perm bg p g win = Ok it ->
  (1 < length (last (io_rows it) []))%nat ->
  let M := inject_Z (Z.of_nat (length rows)) in
  let cs := perm_cells rows perm in
  let d := (M + 2) * g in
  io_gran it = g /\ tailS cs bg (io_score it + d) <= p.
Proof.
  intros rows perm bg K g p win it.
  intros Hok HM Hperm Hg Hp Hwin H Hw2 M cs d. unfold sc_next in H.
  apply rbind_ok in H. destruct H as [G [Hrec H]].
  apply rbind_ok in H. destruct H as [o [Hlook H]].
  apply rbind_ok in H. destruct H as [osum [Hosum H]].
  destruct (negb _); [discriminate|].
  inversion H; subst it; clear H. cbn [io_gran io_score io_total_lt io_rows] in *. split; [reflexivity|].
  destruct (recompute_cells_m _ _ _ _ _ _ Hok Hrec) as [Hcells [Hmaxr HlenG]].
  destruct (matrix_okm_bg _ _ _ Hok) as [Hunit Hbl].
  assert (Hrows : distribution NumQ G bg (fst win) (snd win) = Ok (ls_rows o)).
  { pose proof Hlook as Hl. unfold lookup_score in Hl. cbn [NumQ n_isnan] in Hl.
    apply rbind_ok in Hl. destruct Hl as [rowsq [Hd Hl]]. rewrite Hd. f_equal.
    destruct (length (last rowsq [])); [discriminate|].
    apply rbind_ok in Hl. destruct Hl as [[[riter sum] pvs] [_ Hl]].
    apply rbind_ok in Hl. destruct Hl as [[[[a ae] pvs'] exh] [_ Hl]].
    apply rbind_ok in Hl. destruct Hl as [pa [_ Hl]].
    apply rbind_ok in Hl. destruct Hl as [pe [_ Hl]].
    inversion Hl; subst o. reflexivity. }
  assert (Hdist : dist_exact (irows (g_int G) bg) (fst win) (snd win) (last (ls_rows o) [])).
  { apply (distribution_exact G bg _ _ (ls_rows o) (K - 1)%nat Hrows); [lia|exact Hcells|exact Hmaxr|exact Hunit|exact Hbl|exact Hwin]. }
  apply sum_i64_ok in Hosum. rewrite Z.add_0_l in Hosum.
  cbn [NumQ n_mul n_ofZ]. rewrite Hosum.
  exact (lookup_score_clause1_m rows perm bg K g G p (fst win) (snd win) o Hok Hg Hperm Hrec Hlook Hdist
           Hw2 Hp).
Qed.

(* C13, one refinement step on an adequate window, for the matrix as given *)
Theorem sc_step_bounds_m rows perm bg K g p win it :
  matrix_okm K rows bg -> (2 <= length rows)%nat -> Permutation perm (seq 0 (length rows)) ->
  0 < g -> 0 < p -> (fst win <= snd win + 1)%Z ->
  sc_next NumQ rows perm bg p g win = Ok it ->
  io_total_lt it = false -> (1 < length (last (io_rows it) []))%nat ->
  let M := inject_Z (Z.of_nat (length rows)) in
  let t := io_score it in
  let d := (M + 2) * g in
  io_gran it = g /\
  Ptail rows bg (t + d) <= p /\
  (forall l, attain l (srows (sym_cells rows) bg) -> Qsum l < t - d -> p <= Ptail rows bg (Qsum l - d)).
Proof.
  intros Hok HM Hperm Hg Hp Hwin H Hw1 Hw2 M t d.
  destruct (sc_next_sound_m rows perm bg K g p win it Hok HM (perm_length _ _ Hperm) Hg Hp Hwin H Hw1 Hw2)
    as [A [B C]].
  rewrite (Ptail_perm rows perm bg _ Hperm) in B. split; [exact A|]. split; [exact B|].
  exact (clause2_perm rows perm bg p _ _ Hperm C).
Qed.

Theorem sc_step_clause1_m : forall rows perm bg K g p win it,
  matrix_okm K rows bg -> (2 <= length rows)%nat -> Permutation perm (seq 0 (length rows)) ->
  0 < g -> 0 < p -> (fst win <= snd win + 1)%Z ->
  sc_next NumQ rows perm bg p g win = Ok it ->
  (1 < length (last (io_rows it) []))%nat ->
  let M := inject_Z (Z.of_nat (length rows)) in
  io_gran it = g /\ Ptail rows bg (io_score it + (M + 2) * g) <= p.
Proof.
  intros rows perm bg K g p win it Hok HM Hperm Hg Hp Hwin H Hw2 M.
  destruct (sc_next_clause1_m rows perm bg K g p win it Hok HM (perm_length _ _ Hperm) Hg Hp Hwin H Hw2)
    as [A B].
  rewrite (Ptail_perm rows perm bg _ Hperm) in B. split; [exact A|exact B].
Qed.

(* ------------------------------------------------------------------ *)
(** * 7. C13: runs on adequate windows *)

Lemma sc_next_window_m rows perm bg K p g win it :
  matrix_okm K rows bg -> (2 <= length rows)%nat -> length perm = length rows -> 0 < g ->
  (fst win <= snd win + 1)%Z ->
  sc_next NumQ rows perm bg p g win = Ok it ->
  (fst (io_win it) <= snd (io_win it))%Z.
Proof.
  intros Hok HM Hperm Hg Hwin H. unfold sc_next in H.
  apply rbind_ok in H. destruct H as [G [Hrec H]].
  apply rbind_ok in H. destruct H as [o [Hlook H]].
  apply rbind_ok in H. destruct H as [osum [Hosum H]].
  destruct (negb _); [discriminate|].
  inversion H; subst it; clear H. cbn [io_win fst snd].
  pose proof (recompute_emax_nonneg_m _ _ _ _ Hg Hrec) as Em0.
  pose proof (ceil_half_pos _ Em0) as Hw.
  assert (Hw' : inject_Z 1 <= inject_Z (Qceiling (g_emax G + (1 # 2)))) by (rewrite <- Zle_Qle; exact Hw).
  change (inject_Z 1) with 1 in Hw'.
  (* alpha_e <= alpha: the table is sorted *)
  destruct (recompute_cells_m _ _ _ _ _ _ Hok Hrec) as [Hcells [Hmaxr HlenG]].
  destruct (matrix_okm_bg _ _ _ Hok) as [Hunit Hbl].
  assert (Hrows : distribution NumQ G bg (fst win) (snd win) = Ok (ls_rows o)).
  { pose proof Hlook as Hl. unfold lookup_score in Hl. cbn [NumQ n_isnan] in Hl.
    apply rbind_ok in Hl. destruct Hl as [rowsq [Hd Hl]]. rewrite Hd. f_equal.
    destruct (length (last rowsq [])); [discriminate|].
    apply rbind_ok in Hl. destruct Hl as [[[riter sum] pvs] [_ Hl]].
    apply rbind_ok in Hl. destruct Hl as [[[[a0 ae0] pvs'] exh] [_ Hl]].
    apply rbind_ok in Hl. destruct Hl as [pa [_ Hl]].
    apply rbind_ok in Hl. destruct Hl as [pe [_ Hl]].
    inversion Hl; subst o. reflexivity. }
  assert (Hdist : dist_exact (irows (g_int G) bg) (fst win) (snd win) (last (ls_rows o) [])).
  { apply (distribution_exact G bg _ _ (ls_rows o) (K - 1)%nat Hrows); [lia|exact Hcells|exact Hmaxr|exact Hunit|exact Hbl|exact Hwin]. }
  pose proof (lookup_score_alpha_order _ _ _ _ _ _ _ Hlook Hdist) as Hord.
  assert (Hord' : inject_Z (ls_alpha_e o) <= inject_Z (ls_alpha o)) by (rewrite <- Zle_Qle; exact Hord).
  assert (HM0 : 0 <= inject_Z (Z.of_nat (length rows))).
  { change 0 with (inject_Z 0). rewrite <- Zle_Qle. lia. }
  set (w := inject_Z (Qceiling (g_emax G + (1 # 2)))) in *.
  set (a := inject_Z (ls_alpha o)) in *. set (ae := inject_Z (ls_alpha_e o)) in *.
  set (m := inject_Z (Z.of_nat (length rows))) in *.
  change (Qfloor ((ae - w) * 10 - (10 - 1) * m) <= Qfloor ((a + w) * 10 + (10 - 1) * m))%Z.
  apply Qfloor_resp_le. nra.
Qed.

Theorem sc_run_sound_m : forall steps rows perm bg K p g win it,
  matrix_okm K rows bg -> (2 <= length rows)%nat -> length perm = length rows -> 0 < g -> 0 < p ->
  (fst win <= snd win + 1)%Z ->
  In (Ok it) (sc_run NumQ steps rows perm bg p g win) ->
  io_total_lt it = false -> (1 < length (last (io_rows it) []))%nat ->
  let M := inject_Z (Z.of_nat (length rows)) in
  let cs := perm_cells rows perm in
  let gi := io_gran it in
  let t := io_score it in
  let d := (M + 2) * gi in
  0 < gi /\ gi <= g /\
  tailS cs bg (t + d) <= p /\
  (forall l, attain l (srows cs bg) -> Qsum l < t - d -> p <= tailS cs bg (Qsum l - d)).
Proof.
  intros steps rows perm bg K p g win it Hok HM Hperm Hg Hp Hwin Hin Hw1 Hw2 M cs gi t d.
  subst gi t d.
  revert g win Hg Hwin Hin. induction steps as [|n IH]; intros g win Hg Hwin Hin; cbn [sc_run] in Hin; [destruct Hin|].
  rewrite (le_pos_false g Hg) in Hin.
  destruct (sc_next NumQ rows perm bg p g win) as [it0| | |] eqn:Enext;
    try (destruct Hin as [Hin|[]]; discriminate).
  destruct Hin as [Hin|Hin].
  - inversion Hin; subst it0; clear Hin.
    destruct (sc_next_sound_m rows perm bg K g p win it Hok HM Hperm Hg Hp Hwin Enext Hw1 Hw2) as [E [H1 H2]].
    fold M in H1, H2. fold cs in H1, H2. rewrite E.
    split; [exact Hg|]. split; [lra|]. split; assumption.
  - destruct (io_conv it0); [destruct Hin|].
    destruct (div10_pos g Hg) as [D1 D2].
    pose proof (sc_next_window_m _ _ _ _ _ _ _ _ Hok HM Hperm Hg Hwin Enext) as Hwin'.
    assert (Hwin'' : (fst (io_win it0) <= snd (io_win it0) + 1)%Z) by lia.
    destruct (IH _ _ D1 Hwin'' Hin) as [A1 [A2 A3]].
    split; [exact A1|]. split; [lra|exact A3].
Qed.

(* C13: every iteration of approximate_score whose window is adequate *)
Theorem sc_run_bounds_m steps rows perm bg K p g win it :
  matrix_okm K rows bg -> (2 <= length rows)%nat -> Permutation perm (seq 0 (length rows)) ->
  0 < g -> 0 < p -> (fst win <= snd win + 1)%Z ->
  In (Ok it) (sc_run NumQ steps rows perm bg p g win) ->
  io_total_lt it = false -> (1 < length (last (io_rows it) []))%nat ->
  let M := inject_Z (Z.of_nat (length rows)) in
  let gi := io_gran it in
  let t := io_score it in
  let d := (M + 2) * gi in
  0 < gi /\ gi <= g /\
  Ptail rows bg (t + d) <= p /\
  (forall l, attain l (srows (sym_cells rows) bg) -> Qsum l < t - d -> p <= Ptail rows bg (Qsum l - d)).
Proof.
  intros Hok HM Hperm Hg Hp Hwin H Hw1 Hw2 M gi t d.
  destruct (sc_run_sound_m steps rows perm bg K p g win it Hok HM (perm_length _ _ Hperm) Hg Hp Hwin H Hw1 Hw2)
    as [A [B [C D]]].
  rewrite (Ptail_perm rows perm bg _ Hperm) in C.
  split; [exact A|]. split; [exact B|]. split; [exact C|].
  exact (clause2_perm rows perm bg p _ _ Hperm D).
Qed.

Theorem score_final_m rows perm bg K p g win steps it :
  matrix_okm K rows bg -> (2 <= length rows)%nat -> Permutation perm (seq 0 (length rows)) ->
  0 < g -> 0 < p -> (fst win <= snd win + 1)%Z ->
  last (sc_run NumQ steps rows perm bg p g win) (Panic 0) = Ok it ->
  io_total_lt it = false -> (1 < length (last (io_rows it) []))%nat ->
  let M := inject_Z (Z.of_nat (length rows)) in
  let gi := io_gran it in
  let t := io_score it in
  let d := (M + 2) * gi in
  0 < gi /\ gi <= g /\
  Ptail rows bg (t + d) <= p /\
  (forall l, attain l (srows (sym_cells rows) bg) -> Qsum l < t - d -> p <= Ptail rows bg (Qsum l - d)).
Proof.
  intros Hok HM Hperm Hg Hp Hwin H Hw1 Hw2.
  apply (sc_run_bounds_m steps rows perm bg K p g win it Hok HM Hperm Hg Hp Hwin); auto.
  apply (last_In _ (Panic 0)); [exact H|discriminate].
Qed.

(* ------------------------------------------------------------------ *)
(** * 8. C13: the initial window of `approximate_score` is adequate

   With wildcard mass the total mass of the symbol words is (1 - b_N)^M, so the
   request p must not exceed it (for p above it no threshold has tail >= p). *)

Theorem initial_window_ok_m : forall rows perm bg K p win it,
  matrix_okm K rows bg -> (2 <= length rows)%nat -> length perm = length rows ->
  0 < p -> p <= Qpow_nat (1 - last bg 0) (length rows) ->
  score_window0 NumQ rows perm = Ok win ->
  sc_next NumQ rows perm bg p (1 # 10) win = Ok it ->
  (fst win <= snd win + 1)%Z /\ io_total_lt it = false /\ (1 < length (last (io_rows it) []))%nat.
Proof.
  intros rows perm bg K p win it Hok HM Hperm Hp Hp1 Hwin.
  unfold score_window0 in Hwin.
  apply rbind_ok in Hwin. destruct Hwin as [G [Hrec Hwin]].
  apply rbind_ok in Hwin. destruct Hwin as [mn [Hmn Hwin]].
  apply rbind_ok in Hwin. destruct Hwin as [smax [Hsmax Hwin]].
  destruct (in_i64 _); [|discriminate]. inversion Hwin; subst win; clear Hwin.
  change (n_tenth NumQ) with (1 # 10) in Hrec.
  assert (Hg : 0 < 1 # 10) by reflexivity.
  pose proof (recompute_emax_nonneg_m _ _ _ _ Hg Hrec) as Em0.
  pose proof (ceil_half_pos _ Em0) as Hc.
  change (n_ceilZ NumQ (n_add NumQ (g_emax G) (n_half NumQ))) with (Qceiling (g_emax G + (1 # 2))).
  set (c := Qceiling (g_emax G + (1 # 2))) in *. clearbody c.
  cbn [fst snd].
  intros H. unfold sc_next in H.
  apply rbind_ok in H. destruct H as [G' [Hrec' H]].
  rewrite Hrec in Hrec'. inversion Hrec'; subst G'; clear Hrec'.
  apply rbind_ok in H. destruct H as [o [Hlook H]].
  apply rbind_ok in H. destruct H as [osum [Hosum H]].
  destruct (negb _); [discriminate|].
  inversion H; subst it; clear H. cbn [io_total_lt io_rows fst snd] in *.
  (* geometry *)
  destruct (recompute_cells_m _ _ _ _ _ _ Hok Hrec) as [Hcells [Hmaxr HlenG]].
  destruct (matrix_okm_bg _ _ _ Hok) as [Hunit Hbl].
  destruct (recompute_Q_geom _ _ _ _ Hrec) as [prow [_ [_ [_ [_ [_ [_ [Hminr _]]]]]]]].
  assert (HK : (2 <= K)%nat) by (destruct Hok as [HK _]; exact HK).
  assert (Hbg : forall b, In b bg -> 0 <= b) by (destruct Hok as [_ [_ [_ [Hbg _]]]]; exact Hbg).
  apply sum_i64_ok in Hmn. apply sum_i64_ok in Hsmax. rewrite Z.add_0_l in Hmn, Hsmax.
  rewrite Hminr in Hmn. rewrite Hmaxr in Hsmax.
  set (ir := irows (g_int G) bg) in *.
  assert (Hlens : Forall (fun r : list Z => length r = (K - 1)%nat) (g_int G)).
  { eapply Forall_impl; [|exact Hcells]. intros r [Hr _]. exact Hr. }
  assert (Hbnd : forall l, attain l ir -> (mn <= Zsum l <= smax)%Z).
  { intros l Hl. rewrite Hmn, Hsmax. apply (attain_irows_bounds _ bg). exact Hl. }
  destruct (attain_exists (K - 1) (g_int G) bg ltac:(lia) Hbl Hlens) as [l0 Hl0].
  fold ir in Hl0.
  pose proof (Hbnd _ Hl0) as Hb0.
  assert (Hw : (mn <= smax + c + 1)%Z) by lia.
  split; [exact Hw|].
  (* the table *)
  pose proof (lookup_score_rows _ _ _ _ _ _ Hlook) as Hrows.
  assert (Hdist : dist_exact ir mn (smax + c) (last (ls_rows o) [])).
  { apply (distribution_exact G bg _ _ (ls_rows o) (K - 1)%nat Hrows); [lia|exact Hcells|exact Hmaxr|exact Hunit|exact Hbl|exact Hw]. }
  set (lastm := last (ls_rows o) []) in *.
  pose proof Hdist as [body [vb [Hl [Hsort [Hbody [Hvb Hcomp]]]]]].
  assert (Hkey : forall l, attain l ir -> In (Zsum l) (map fst body)).
  { intros l Hl'. apply Hcomp; [exact Hl'|]. pose proof (Hbnd _ Hl'). lia. }
  destruct body as [|[k0 v0] body'] eqn:Ebody; [destruct (Hkey _ Hl0)|].
  split.
  - (* the total mass of the table is 1 >= p *)
    destruct (ls_total_lt o) eqn:Et; [exfalso|reflexivity].
    pose proof (ls_total_lt_tailsum _ _ _ _ _ _ Hlook Et) as Hlt. fold lastm in Hlt.
    assert (Hn0 : nth_error lastm 0 = Some (k0, v0)) by (rewrite Hl; reflexivity).
    rewrite (tailsum_spec _ _ _ _ Hdist _ _ _ Hn0) in Hlt.
    assert (U : mass_rows (1 - last bg 0) ir) by (apply (mass_irows (K - 1)); auto).
    assert (E1 : PI_ge ir k0 == wsum ir (fun _ => 1)).
    { unfold PI_ge. apply wsum_ext_in. intros l Hl'.
      assert (Hle : (k0 <= Zsum l)%Z).
      { pose proof (Hkey _ Hl') as Hin. simpl in Hin. destruct Hin as [Hin|Hin]; [lia|].
        simpl in Hsort. pose proof (SSorted_lt_inv _ _ Hsort _ Hin). lia. }
      apply Z.leb_le in Hle. rewrite Hle. reflexivity. }
    rewrite E1, (wsum_const_mass _ ir U 1) in Hlt.
    assert (Elen : length ir = length rows).
    { unfold ir, irows. rewrite map_length, HlenG. exact Hperm. }
    rewrite Elen in Hlt. lra.
  - rewrite Hl. simpl. rewrite app_length. simpl. lia.
Qed.

Theorem first_window_ok_m rows perm bg K p win it :
  matrix_okm K rows bg -> (2 <= length rows)%nat -> Permutation perm (seq 0 (length rows)) ->
  0 < p -> p <= Qpow_nat (1 - last bg 0) (length rows) ->
  score_window0 NumQ rows perm = Ok win ->
  sc_next NumQ rows perm bg p (1 # 10) win = Ok it ->
  (fst win <= snd win + 1)%Z /\ io_total_lt it = false /\ (1 < length (last (io_rows it) []))%nat.
Proof.
  intros Hok HM Hperm Hp Hp1 Hw H.
  exact (initial_window_ok_m rows perm bg K p win it Hok HM (perm_length _ _ Hperm) Hp Hp1 Hw H).
Qed.

(* ------------------------------------------------------------------ *)
(** * 9. C13: adequacy is an invariant of the re-centring (TfmAdequate.v, sections 7-9) *)

Lemma next_step_table_m rows perm bg K p g G G' mn mx o rowsq :
  matrix_okm K rows bg -> (2 <= length rows)%nat -> length perm = length rows ->
  0 < g -> 0 < p -> (mn <= mx + 1)%Z ->
  recompute NumQ rows perm g = Ok G ->
  lookup_score NumQ G bg p mn mx = Ok o ->
  ls_total_lt o = false -> (1 < length (last (ls_rows o) []))%nat ->
  recompute NumQ rows perm (g / 10) = Ok G' ->
  let W := Qceiling (g_emax G + (1 # 2)) in
  let M := Z.of_nat (length rows) in
  let mn' := (10 * (ls_alpha_e o - W) - 9 * M)%Z in
  let mx' := (10 * (ls_alpha o + W) + 9 * M)%Z in
  distribution NumQ G' bg mn' mx' = Ok rowsq ->
  (mn' <= mx')%Z /\
  p <= tailsum (last rowsq []) 0 /\ (1 < length (last rowsq []))%nat /\ ~ first_exitQ p (last rowsq []).
Proof.
  intros Hok HM Hperm Hg Hp Hwin Hrec Hlook Hw1 Hw2 Hrec' W M mn' mx' Hd.
  assert (Hg0 : ~ g == 0) by lra.
  destruct (recompute_cells_m _ _ _ _ _ _ Hok Hrec) as [Hcells [Hmaxr HlenG]].
  destruct (recompute_cells_m _ _ _ _ _ _ Hok Hrec') as [Hcells' [Hmaxr' HlenG']].
  destruct (matrix_okm_bg _ _ _ Hok) as [Hunit Hbl].
  pose proof (recompute_emax_nonneg_m _ _ _ _ Hg Hrec) as Em0.
  pose proof (ceil_half_pos _ Em0) as HW. fold W in HW.
  destruct (recompute_Q_geom _ _ _ _ Hrec) as [prow [Hpr [_ [_ [Hint _]]]]].
  destruct (recompute_Q_geom _ _ _ _ Hrec') as [prow' [Hpr' [_ [_ [Hint' _]]]]].
  rewrite Hpr in Hpr'. inversion Hpr'; subst prow'; clear Hpr'.
  destruct (permuted_rows_spec _ _ _ Hpr) as [Hplen _].
  assert (Hbg : forall b, In b bg -> 0 <= b) by (destruct Hok as [_ [_ [_ [Hbg _]]]]; exact Hbg).
  set (css := map cells prow) in *.
  assert (HMc : M = Z.of_nat (length css)).
  { unfold M, css. rewrite map_length, Hplen, Hperm. reflexivity. }
  (* the table of the current step *)
  pose proof (lookup_score_rows _ _ _ _ _ _ Hlook) as Hrows.
  assert (Hdist : dist_exact (irows (g_int G) bg) mn mx (last (ls_rows o) [])).
  { apply (distribution_exact G bg _ _ (ls_rows o) (K - 1)%nat Hrows); [lia|exact Hcells|exact Hmaxr|exact Hunit|exact Hbl|exact Hwin]. }
  assert (Wf : wf_rows (irows (g_int G) bg)) by (apply wf_irows; exact Hbg).
  destruct (lookup_score_facts G bg p mn mx o Hlook Hdist Wf Hp Hw1 Hw2) as [Fi [Fii Fiii]].
  pose proof (lookup_score_alpha_order _ _ _ _ _ _ _ Hlook Hdist) as Hord.
  assert (Hatt : exists l0, attain l0 (irows (g_int G) bg) /\ Zsum l0 = ls_alpha_e o).
  { apply (distribution_keys_attainable G bg mn mx (ls_rows o) (K - 1)%nat Hrows); [lia|exact Hcells|exact Hmaxr|exact Hunit|exact Hbl|exact Hwin|exact Fiii]. }
  assert (Hwin' : (mn' <= mx')%Z) by (unfold mn', mx'; lia).
  split; [exact Hwin'|].
  assert (Hdist' : dist_exact (irows (g_int G') bg) mn' mx' (last rowsq [])).
  { apply (distribution_exact G' bg _ _ rowsq (K - 1)%nat Hd); [lia|exact Hcells'|exact Hmaxr'|exact Hunit|exact Hbl|lia]. }
  rewrite Hint in Fi, Fii, Hatt. rewrite Hint' in Hdist'.
  unfold mn', mx' in Hdist'. rewrite HMc in Hdist'.
  exact (next_table g bg css p (ls_alpha_e o) (ls_alpha o) W (last rowsq []) Hg0 Hbg Hp Hord HW Fi Fii Hatt Hdist').
Qed.

(** T1: adequacy is preserved by the re-centring *)
Theorem sc_next_adequate_next_m : forall rows perm bg K p g win it it',
  matrix_okm K rows bg -> (2 <= length rows)%nat -> length perm = length rows ->
  0 < g -> 0 < p -> (fst win <= snd win + 1)%Z ->
  sc_next NumQ rows perm bg p g win = Ok it ->
  adequate it ->
  sc_next NumQ rows perm bg p (g / 10) (io_win it) = Ok it' ->
  adequate it'.
Proof.
  intros rows perm bg K p g win it it' Hok HM Hperm Hg Hp Hwin H [Ha1 Ha2] H'.
  destruct (sc_next_open _ _ _ _ _ _ _ H) as [G [o [Hrec [Hlook [Et [Er Ew]]]]]].
  destruct (sc_next_open _ _ _ _ _ _ _ H') as [G' [o' [Hrec' [Hlook' [Et' [Er' _]]]]]].
  rewrite Et in Ha1. rewrite Er in Ha2. rewrite Ew in Hlook'. cbn [fst snd] in Hlook'.
  pose proof (lookup_score_rows _ _ _ _ _ _ Hlook') as Hrows'.
  destruct (next_step_table_m rows perm bg K p g G G' (fst win) (snd win) o (ls_rows o')
              Hok HM Hperm Hg Hp Hwin Hrec Hlook Ha1 Ha2 Hrec' Hrows') as [_ [T1 [T2 _]]].
  unfold adequate. rewrite Et', Er'. split; [|exact T2].
  destruct (ls_total_lt o') eqn:E; [exfalso|reflexivity].
  pose proof (ls_total_lt_tailsum _ _ _ _ _ _ Hlook' E) as Hlt. lra.
Qed.

(** T2: the step that follows an adequate step does not reach `keys[riter + 1]` out of bounds *)
Theorem sc_next_no_panic31_m : forall rows perm bg K p g win it,
  matrix_okm K rows bg -> (2 <= length rows)%nat -> length perm = length rows ->
  0 < g -> 0 < p -> (fst win <= snd win + 1)%Z ->
  sc_next NumQ rows perm bg p g win = Ok it ->
  adequate it ->
  sc_next NumQ rows perm bg p (g / 10) (io_win it) <> Panic 31.
Proof.
  intros rows perm bg K p g win it Hok HM Hperm Hg Hp Hwin H [Ha1 Ha2] Hpanic.
  destruct (sc_next_open _ _ _ _ _ _ _ H) as [G [o [Hrec [Hlook [Et [Er Ew]]]]]].
  rewrite Et in Ha1. rewrite Er in Ha2. rewrite Ew in Hpanic.
  unfold sc_next in Hpanic.
  apply rbind_panic in Hpanic. destruct Hpanic as [Hpanic|[G' [Hrec' Hpanic]]].
  { apply recompute_panic in Hpanic. lia. }
  apply rbind_panic in Hpanic. destruct Hpanic as [Hpanic|[o' [_ Hpanic]]].
  2:{ apply rbind_panic in Hpanic. destruct Hpanic as [Hpanic|[osum' [_ Hpanic]]].
      - apply sum_i64_panic in Hpanic. discriminate.
      - destruct (negb _); discriminate. }
  cbn [fst snd] in Hpanic.
  apply lookup_score_panic_sites in Hpanic.
  destruct Hpanic as [Hd|[_ [rowsq [Hd Hfe]]]].
  { apply distribution_panic in Hd. lia. }
  destruct (next_step_table_m rows perm bg K p g G G' (fst win) (snd win) o rowsq
              Hok HM Hperm Hg Hp Hwin Hrec Hlook Ha1 Ha2 Hrec' Hd) as [_ [_ [_ T3]]].
  exact (T3 Hfe).
Qed.

(* ------------------------------------------------------------------ *)
(** * 8. Runs *)

(** T3: if the first step of a run (when it succeeds) is adequate, every step is *)
Theorem sc_run_adequate_m : forall steps rows perm bg K p g win it,
  matrix_okm K rows bg -> (2 <= length rows)%nat -> length perm = length rows ->
  0 < g -> 0 < p -> (fst win <= snd win + 1)%Z ->
  (forall it0, sc_next NumQ rows perm bg p g win = Ok it0 -> adequate it0) ->
  In (Ok it) (sc_run NumQ steps rows perm bg p g win) ->
  adequate it.
Proof.
  intros steps rows perm bg K p g win it Hok HM Hperm Hg Hp. revert g win Hg.
  induction steps as [|n IH]; intros g win Hg Hwin Hfirst Hin; cbn [sc_run] in Hin; [destruct Hin|].
  rewrite (le_pos_false g Hg) in Hin.
  destruct (sc_next NumQ rows perm bg p g win) as [it0| | |] eqn:Enext;
    try (destruct Hin as [Hin|[]]; discriminate).
  pose proof (Hfirst it0 eq_refl) as Had0.
  destruct Hin as [Hin|Hin].
  - inversion Hin; subst it0. exact Had0.
  - destruct (io_conv it0); [destruct Hin|].
    destruct (div10_pos g Hg) as [D1 _]. cbn [NumQ n_div n_ten] in D1, Hin.
    pose proof (sc_next_window_m _ _ _ _ _ _ _ _ Hok HM Hperm Hg Hwin Enext) as Hwin'.
    apply (IH (g / 10) (io_win it0) D1 ltac:(lia)); [|exact Hin].
    intros it1 H1.
    exact (sc_next_adequate_next_m rows perm bg K p g win it0 it1 Hok HM Hperm Hg Hp Hwin Enext Had0 H1).
Qed.

(* along such a run, site 31 can only be reached by the first step *)
Theorem sc_run_no_panic31_m : forall steps rows perm bg K p g win,
  matrix_okm K rows bg -> (2 <= length rows)%nat -> length perm = length rows ->
  0 < g -> 0 < p -> (fst win <= snd win + 1)%Z ->
  (forall it0, sc_next NumQ rows perm bg p g win = Ok it0 -> adequate it0) ->
  sc_next NumQ rows perm bg p g win <> Panic 31 ->
  ~ In (Panic 31) (sc_run NumQ steps rows perm bg p g win).
Proof.
  intros steps rows perm bg K p g win Hok HM Hperm Hg Hp. revert g win Hg.
  induction steps as [|n IH]; intros g win Hg Hwin Hfirst Hnp Hin; cbn [sc_run] in Hin; [destruct Hin|].
  rewrite (le_pos_false g Hg) in Hin.
  destruct (sc_next NumQ rows perm bg p g win) as [it0|c|s|] eqn:Enext;
    try (destruct Hin as [Hin|[]]; discriminate).
  - pose proof (Hfirst it0 eq_refl) as Had0.
    destruct Hin as [Hin|Hin]; [discriminate|].
    destruct (io_conv it0); [destruct Hin|].
    destruct (div10_pos g Hg) as [D1 _]. cbn [NumQ n_div n_ten] in D1, Hin.
    pose proof (sc_next_window_m _ _ _ _ _ _ _ _ Hok HM Hperm Hg Hwin Enext) as Hwin'.
    apply (IH (g / 10) (io_win it0) D1 ltac:(lia)); [| |exact Hin].
    + intros it1 H1.
      exact (sc_next_adequate_next_m rows perm bg K p g win it0 it1 Hok HM Hperm Hg Hp Hwin Enext Had0 H1).
    + exact (sc_next_no_panic31_m rows perm bg K p g win it0 Hok HM Hperm Hg Hp Hwin Enext Had0).
  - destruct Hin as [Hin|[]]. inversion Hin; subst s. apply Hnp. reflexivity.
Qed.

(* the first step on the initial window of `approximate_score`: no word lies above it *)
Theorem sc_first_no_panic31_m : forall rows perm bg K p win,
  matrix_okm K rows bg -> (2 <= length rows)%nat -> length perm = length rows ->
  0 <= p ->
  score_window0 NumQ rows perm = Ok win ->
  (fst win <= snd win + 1)%Z /\
  sc_next NumQ rows perm bg p (1 # 10) win <> Panic 31.
Proof.
  intros rows perm bg K p win Hok HM Hperm Hp Hwin.
  unfold score_window0 in Hwin.
  apply rbind_ok in Hwin. destruct Hwin as [G [Hrec Hwin]].
  apply rbind_ok in Hwin. destruct Hwin as [mn [Hmn Hwin]].
  apply rbind_ok in Hwin. destruct Hwin as [smax [Hsmax Hwin]].
  destruct (in_i64 _); [|discriminate]. inversion Hwin; subst win; clear Hwin.
  change (n_tenth NumQ) with (1 # 10) in Hrec.
  assert (Hg : 0 < 1 # 10) by reflexivity.
  pose proof (recompute_emax_nonneg_m _ _ _ _ Hg Hrec) as Em0.
  pose proof (ceil_half_pos _ Em0) as Hc.
  change (n_ceilZ NumQ (n_add NumQ (g_emax G) (n_half NumQ))) with (Qceiling (g_emax G + (1 # 2))).
  set (c := Qceiling (g_emax G + (1 # 2))) in *. clearbody c.
  cbn [fst snd].
  destruct (recompute_cells_m _ _ _ _ _ _ Hok Hrec) as [Hcells [Hmaxr HlenG]].
  destruct (matrix_okm_bg _ _ _ Hok) as [Hunit Hbl].
  destruct (recompute_Q_geom _ _ _ _ Hrec) as [prow [_ [_ [_ [_ [_ [_ [Hminr _]]]]]]]].
  assert (HK : (2 <= K)%nat) by (destruct Hok as [HK _]; exact HK).
  assert (Hbg : forall b, In b bg -> 0 <= b) by (destruct Hok as [_ [_ [_ [Hbg _]]]]; exact Hbg).
  apply sum_i64_ok in Hmn. apply sum_i64_ok in Hsmax. rewrite Z.add_0_l in Hmn, Hsmax.
  rewrite Hminr in Hmn. rewrite Hmaxr in Hsmax.
  set (ir := irows (g_int G) bg) in *.
  assert (Hlens : Forall (fun r : list Z => length r = (K - 1)%nat) (g_int G)).
  { eapply Forall_impl; [|exact Hcells]. intros r [Hr _]. exact Hr. }
  assert (Hbnd : forall l, attain l ir -> (mn <= Zsum l <= smax)%Z).
  { intros l Hl. rewrite Hmn, Hsmax. apply (attain_irows_bounds _ bg). exact Hl. }
  destruct (attain_exists (K - 1) (g_int G) bg ltac:(lia) Hbl Hlens) as [l0 Hl0].
  fold ir in Hl0.
  pose proof (Hbnd _ Hl0) as Hb0.
  assert (Hw : (mn <= smax + c + 1)%Z) by lia.
  split; [exact Hw|].
  intros Hpanic. unfold sc_next in Hpanic.
  apply rbind_panic in Hpanic. destruct Hpanic as [Hpanic|[G' [Hrec' Hpanic]]].
  { apply recompute_panic in Hpanic. lia. }
  rewrite Hrec in Hrec'. inversion Hrec'; subst G'; clear Hrec'.
  apply rbind_panic in Hpanic. destruct Hpanic as [Hpanic|[o' [_ Hpanic]]].
  2:{ apply rbind_panic in Hpanic. destruct Hpanic as [Hpanic|[osum' [_ Hpanic]]].
      - apply sum_i64_panic in Hpanic. discriminate.
      - destruct (negb _); discriminate. }
  cbn [fst snd] in Hpanic.
  apply lookup_score_panic_sites in Hpanic.
  destruct Hpanic as [Hd|[_ [rowsq [Hd Hfe]]]].
  { apply distribution_panic in Hd. lia. }
  assert (Hdist : dist_exact ir mn (smax + c) (last rowsq [])).
  { apply (distribution_exact G bg _ _ rowsq (K - 1)%nat Hd); [lia|exact Hcells|exact Hmaxr|exact Hunit|exact Hbl|exact Hw]. }
  destruct Hdist as [body [vb [Hl [_ [_ [Hvb _]]]]]].
  destruct Hfe as [[_ Hneg]|[_ [kb [vb' [Hlast Hlt]]]]]; [lra|].
  rewrite Hl, last_last in Hlast. inversion Hlast; subst kb vb'; clear Hlast.
  rewrite Hvb in Hlt.
  assert (E0 : PI_gt ir (smax + c) == 0).
  { unfold PI_gt. rewrite <- (wsum_zero ir). apply wsum_ext_in. intros l Hl'.
    pose proof (Hbnd _ Hl') as Hb.
    destruct (Z.ltb_spec (smax + c) (Zsum l)); [lia|reflexivity]. }
  lra.
Qed.

(** every iteration of `approximate_score` works on an adequate window *)
Theorem approximate_score_adequate_m : forall steps rows perm bg K p win it,
  matrix_okm K rows bg -> (2 <= length rows)%nat -> length perm = length rows ->
  0 < p -> p <= Qpow_nat (1 - last bg 0) (length rows) ->
  score_window0 NumQ rows perm = Ok win ->
  In (Ok it) (sc_run NumQ steps rows perm bg p (1 # 10) win) ->
  adequate it.
Proof.
  intros steps rows perm bg K p win it Hok HM Hperm Hp Hp1 Hwin Hin.
  destruct (sc_first_no_panic31_m rows perm bg K p win Hok HM Hperm ltac:(lra) Hwin) as [Hw _].
  apply (sc_run_adequate_m steps rows perm bg K p (1 # 10) win it Hok HM Hperm ltac:(reflexivity) Hp Hw); [|exact Hin].
  intros it0 H0.
  destruct (initial_window_ok_m rows perm bg K p win it0 Hok HM Hperm Hp Hp1 Hwin H0) as [_ [A1 A2]].
  split; assumption.
Qed.

(** C13 for every iteration of `approximate_score`, without hypotheses on the windows *)
Theorem approximate_score_sound_m : forall steps rows perm bg K p win it,
  matrix_okm K rows bg -> (2 <= length rows)%nat -> length perm = length rows ->
  0 < p -> p <= Qpow_nat (1 - last bg 0) (length rows) ->
  score_window0 NumQ rows perm = Ok win ->
  In (Ok it) (sc_run NumQ steps rows perm bg p (1 # 10) win) ->
  let M := inject_Z (Z.of_nat (length rows)) in
  let cs := perm_cells rows perm in
  let gi := io_gran it in
  let t := io_score it in
  let d := (M + 2) * gi in
  0 < gi /\ gi <= 1 # 10 /\
  tailS cs bg (t + d) <= p /\
  (forall l, attain l (srows cs bg) -> Qsum l < t - d -> p <= tailS cs bg (Qsum l - d)).
Proof.
  intros steps rows perm bg K p win it Hok HM Hperm Hp Hp1 Hwin Hin.
  destruct (sc_first_no_panic31_m rows perm bg K p win Hok HM Hperm ltac:(lra) Hwin) as [Hw _].
  destruct (approximate_score_adequate_m steps rows perm bg K p win it Hok HM Hperm Hp Hp1 Hwin Hin) as [A1 A2].
  exact (sc_run_sound_m steps rows perm bg K p (1 # 10) win it Hok HM Hperm ltac:(reflexivity) Hp Hw Hin A1 A2).
Qed.

(** `approximate_score` in exact arithmetic never reaches `keys[riter + 1]` out of bounds *)
Theorem approximate_score_no_panic31_m : forall steps rows perm bg K p win,
  matrix_okm K rows bg -> (2 <= length rows)%nat -> length perm = length rows ->
  0 < p -> p <= Qpow_nat (1 - last bg 0) (length rows) ->
  score_window0 NumQ rows perm = Ok win ->
  ~ In (Panic 31) (sc_run NumQ steps rows perm bg p (1 # 10) win).
Proof.
  intros steps rows perm bg K p win Hok HM Hperm Hp Hp1 Hwin.
  destruct (sc_first_no_panic31_m rows perm bg K p win Hok HM Hperm ltac:(lra) Hwin) as [Hw Hfirst].
  apply (sc_run_no_panic31_m steps rows perm bg K p (1 # 10) win Hok HM Hperm ltac:(reflexivity) Hp Hw); [|exact Hfirst].
  intros it0 H0.
  destruct (initial_window_ok_m rows perm bg K p win it0 Hok HM Hperm Hp Hp1 Hwin H0) as [_ [A1 A2]].
  split; assumption.
Qed.

(* ------------------------------------------------------------------ *)
(** * 9. The matrix as given *)

(** T4: C13 for every iteration of `approximate_score`, for the matrix as given *)
Theorem approximate_score_bounds_m : forall steps rows perm bg K p win it,
  matrix_okm K rows bg -> (2 <= length rows)%nat -> Permutation perm (seq 0 (length rows)) ->
  0 < p -> p <= Qpow_nat (1 - last bg 0) (length rows) ->
  score_window0 NumQ rows perm = Ok win ->
  In (Ok it) (sc_run NumQ steps rows perm bg p (1 # 10) win) ->
  let M := inject_Z (Z.of_nat (length rows)) in
  let gi := io_gran it in
  let t := io_score it in
  let d := (M + 2) * gi in
  0 < gi /\ gi <= 1 # 10 /\
  Ptail rows bg (t + d) <= p /\
  (forall l, attain l (srows (sym_cells rows) bg) -> Qsum l < t - d -> p <= Ptail rows bg (Qsum l - d)).
Proof.
  intros steps rows perm bg K p win it Hok HM Hperm Hp Hp1 Hwin Hin.
  pose proof (perm_length _ _ Hperm) as Hlen.
  destruct (sc_first_no_panic31_m rows perm bg K p win Hok HM Hlen ltac:(lra) Hwin) as [Hw _].
  destruct (approximate_score_adequate_m steps rows perm bg K p win it Hok HM Hlen Hp Hp1 Hwin Hin) as [A1 A2].
  exact (sc_run_bounds_m steps rows perm bg K p (1 # 10) win it Hok HM Hperm ltac:(reflexivity) Hp Hw Hin A1 A2).
Qed.

(* the final threshold (TfmPvalue::score = score of the last iteration) *)
Theorem approximate_score_final_m : forall steps rows perm bg K p win it,
  matrix_okm K rows bg -> (2 <= length rows)%nat -> Permutation perm (seq 0 (length rows)) ->
  0 < p -> p <= Qpow_nat (1 - last bg 0) (length rows) ->
  score_window0 NumQ rows perm = Ok win ->
  last (sc_run NumQ steps rows perm bg p (1 # 10) win) (Panic 0) = Ok it ->
  let M := inject_Z (Z.of_nat (length rows)) in
  let gi := io_gran it in
  let t := io_score it in
  let d := (M + 2) * gi in
  0 < gi /\ gi <= 1 # 10 /\
  Ptail rows bg (t + d) <= p /\
  (forall l, attain l (srows (sym_cells rows) bg) -> Qsum l < t - d -> p <= Ptail rows bg (Qsum l - d)).
Proof.
  intros steps rows perm bg K p win it Hok HM Hperm Hp Hp1 Hwin Hlast.
  apply (approximate_score_bounds_m steps rows perm bg K p win it Hok HM Hperm Hp Hp1 Hwin).
  apply (last_In _ (Panic 0)); [exact Hlast|discriminate].
Qed.

(* ------------------------------------------------------------------ *)
(** * 10. The mass hypothesis on p; consistency with the [matrix_ok] theorems *)

From Coq Require Import Qpower.

Lemma Qpow_nat_Qpower m n : Qpow_nat m n == Qpower m (Z.of_nat n).
Proof.
  induction n as [|n IH]; [reflexivity|].
  cbn [Qpow_nat]. rewrite IH. destruct n as [|k].
  - simpl. lra.
  - rewrite !Nat2Z.inj_succ. rewrite <- Nat2Z.inj_succ.
    change (Z.of_nat (S k)) with (Z.pos (Pos.of_succ_nat k)).
    rewrite <- Pos2Z.inj_succ. cbn [Qpower]. rewrite <- Pos.add_1_l.
    rewrite Qpower_plus_positive. simpl. reflexivity.
Qed.

(* the same theorem with the library power *)
Theorem approximate_score_bounds_m_Qpower : forall steps rows perm bg K p win it,
  matrix_okm K rows bg -> (2 <= length rows)%nat -> Permutation perm (seq 0 (length rows)) ->
  0 < p -> p <= Qpower (1 - last bg 0) (Z.of_nat (length rows)) ->
  score_window0 NumQ rows perm = Ok win ->
  In (Ok it) (sc_run NumQ steps rows perm bg p (1 # 10) win) ->
  let M := inject_Z (Z.of_nat (length rows)) in
  let gi := io_gran it in
  let t := io_score it in
  let d := (M + 2) * gi in
  0 < gi /\ gi <= 1 # 10 /\
  Ptail rows bg (t + d) <= p /\
  (forall l, attain l (srows (sym_cells rows) bg) -> Qsum l < t - d -> p <= Ptail rows bg (Qsum l - d)).
Proof.
  intros steps rows perm bg K p win it Hok HM Hperm Hp Hp1 Hwin Hin.
  apply (approximate_score_bounds_m steps rows perm bg K p win it Hok HM Hperm Hp); [|exact Hwin|exact Hin].
  rewrite Qpow_nat_Qpower. exact Hp1.
Qed.

(* without wildcard mass the bound on p is p <= 1: the [_m] theorems contain the
   [matrix_ok] theorems of C13.v *)
Lemma matrix_ok_pow K rows bg n : matrix_ok K rows bg -> Qpow_nat (1 - last bg 0) n == 1.
Proof.
  intros [_ [_ [_ [_ [_ Hw]]]]].
  rewrite (Qpow_nat_comp (1 - last bg 0) 1 n) by (rewrite Hw; lra). apply Qpow_nat_1.
Qed.

Corollary approximate_score_bounds_from_m : forall steps rows perm bg K p win it,
  matrix_ok K rows bg -> (2 <= length rows)%nat -> Permutation perm (seq 0 (length rows)) ->
  0 < p -> p <= 1 ->
  score_window0 NumQ rows perm = Ok win ->
  In (Ok it) (sc_run NumQ steps rows perm bg p (1 # 10) win) ->
  let M := inject_Z (Z.of_nat (length rows)) in
  let gi := io_gran it in
  let t := io_score it in
  let d := (M + 2) * gi in
  0 < gi /\ gi <= 1 # 10 /\
  Ptail rows bg (t + d) <= p /\
  (forall l, attain l (srows (sym_cells rows) bg) -> Qsum l < t - d -> p <= Ptail rows bg (Qsum l - d)).
Proof.
  intros steps rows perm bg K p win it Hok HM Hperm Hp Hp1 Hwin Hin.
  apply (approximate_score_bounds_m steps rows perm bg K p win it (matrix_ok_okm _ _ _ Hok) HM Hperm Hp);
    [|exact Hwin|exact Hin].
  rewrite (matrix_ok_pow K rows bg _ Hok). exact Hp1.
Qed.

(* the total mass of the symbol words: Ptail at a threshold below every score is
   (1 - b_N)^M, so the bound on p is the largest value the exact tail can take *)
Lemma mass_srows n css bg :
  bg_mass n bg -> (n <= length bg)%nat -> Forall (fun r => length r = n) css ->
  mass_rows (1 - last bg 0) (srows css bg).
Proof.
  intros U Hn F r Hr. unfold srows in Hr. apply in_map_iff in Hr. destruct Hr as [cs [<- Hcs]].
  rewrite Forall_forall in F. specialize (F _ Hcs).
  rewrite map_snd_combine_firstn by lia. rewrite F. exact U.
Qed.

Theorem Ptail_le_mass K rows bg t :
  matrix_okm K rows bg -> Ptail rows bg t <= Qpow_nat (1 - last bg 0) (length rows).
Proof.
  intros Hok. destruct (matrix_okm_bg _ _ _ Hok) as [Hm Hbl].
  destruct Hok as [HK [Hlen [Hbgl [Hbg _]]]].
  unfold Ptail, tailS.
  assert (U : mass_rows (1 - last bg 0) (srows (sym_cells rows) bg)).
  { apply (mass_srows (K - 1)); auto. unfold sym_cells. rewrite Forall_forall. intros r Hr.
    apply in_map_iff in Hr. destruct Hr as [r0 [<- Hr0]].
    rewrite Forall_forall in Hlen. apply (cells_length r0 K). apply Hlen. exact Hr0. }
  apply Qle_trans with (wsum (srows (sym_cells rows) bg) (fun _ => 1)).
  - apply wsum_le; [apply wf_srows; exact Hbg|]. intros l _. apply ind_le_1.
  - rewrite (wsum_const_mass _ _ U 1). unfold srows, sym_cells. rewrite !map_length. lra.
Qed.

(* ------------------------------------------------------------------ *)
(** * 11. Why [Ptail] is the tail of the full score when the wildcard cells are "-inf"

   [tailS rows bg t] sums over ALL words (K symbols per row, wildcard included, with
   the K frequencies of bg); [Ptail rows bg t] over the words of the K-1 symbols.  When
   the wildcard cells are so low that no word through a wildcard reaches t (cells
   bounded above by hi, wildcard + (M-1) hi < t) the two coincide: in the limit of
   wildcard cells at -inf, [Ptail] is the exact tail at every finite threshold. *)

Definition tacc (t acc : Q) (l : list Q) : Q := ind (Qle_bool t (acc + Qsum l)).

Lemma Qle_bool_comp t x y : x == y -> Qle_bool t x = Qle_bool t y.
Proof.
  intros E. destruct (Qle_bool t x) eqn:E1, (Qle_bool t y) eqn:E2; try reflexivity.
  - apply Qle_bool_iff in E1. rewrite E in E1. apply Qle_bool_iff in E1. congruence.
  - apply Qle_bool_iff in E2. rewrite <- E in E2. apply Qle_bool_iff in E2. congruence.
Qed.

Lemma tacc_cons t acc x l : tacc t acc (x :: l) = tacc t (acc + x) l.
Proof. unfold tacc. f_equal. apply Qle_bool_comp. cbn [Qsum]. lra. Qed.

Lemma combine_last (r bg : list Q) :
  r <> [] -> length bg = length r ->
  combine r bg = combine (removelast r) bg ++ [(last r 0, last bg 0)].
Proof.
  revert bg. induction r as [|a r' IH]; intros bg Hne Hl; [congruence|].
  destruct bg as [|b bg']; [simpl in Hl; lia|].
  destruct r' as [|a' r''].
  - destruct bg' as [|b' bg'']; [reflexivity|simpl in Hl; lia].
  - destruct bg' as [|b' bg'']; [simpl in Hl; lia|].
    change (removelast (a :: a' :: r'')) with (a :: removelast (a' :: r'')).
    change (last (a :: a' :: r'') 0) with (last (a' :: r'') 0).
    change (last (b :: b' :: bg'') 0) with (last (b' :: bg'') 0).
    cbn [combine app]. f_equal.
    apply (IH (b' :: bg'')); [discriminate|simpl in Hl |- *; lia].
Qed.

Lemma In_removelast {A} (l : list A) x : In x (removelast l) -> In x l.
Proof.
  induction l as [|a r IH]; [intros []|]. destruct r as [|b r']; [intros []|].
  change (removelast (a :: b :: r')) with (a :: removelast (b :: r')).
  intros [<-|H]; [left; reflexivity|right; apply IH; exact H].
Qed.

Lemma attain_Qsum_le (rows : list (list Q)) bg hi l :
  (forall r c, In r rows -> In c r -> c <= hi) ->
  attain l (srows rows bg) -> Qsum l <= inject_Z (Z.of_nat (length rows)) * hi.
Proof.
  revert l. induction rows as [|r rest IH]; intros l H Hat.
  - inversion Hat; subst. cbn [Qsum length]. change (inject_Z (Z.of_nat 0)) with 0. lra.
  - unfold attain in Hat. cbn [srows map] in Hat. inversion Hat as [|a ? l' ? Ha Hrest]; subst.
    apply in_map_fst_combine in Ha.
    assert (Hah : a <= hi) by (apply (H r); [left; reflexivity|exact Ha]).
    assert (IH' : Qsum l' <= inject_Z (Z.of_nat (length rest)) * hi).
    { apply IH; [|exact Hrest]. intros r' c Hr' Hc. apply (H r'); [right; exact Hr'|exact Hc]. }
    cbn [Qsum length]. rewrite Nat2Z.inj_succ. unfold Z.succ. rewrite inject_Z_plus.
    change (inject_Z 1) with 1. set (n := inject_Z (Z.of_nat (length rest))) in *.
    assert (E : (n + 1) * hi == n * hi + hi) by ring. rewrite E. lra.
Qed.

Lemma wsum_dead {A} (P : list (list (A * Q))) f :
  (forall l, attain l P -> f l == 0) -> wsum P f == 0.
Proof. intros H. rewrite <- (wsum_zero P). apply wsum_ext_in. exact H. Qed.

Lemma full_tail_gen (bg : list Q) (hi t : Q) : forall rows : list (list Q),
  Forall (fun r => r <> [] /\ length bg = length r) rows ->
  (forall r c, In r rows -> In c r -> c <= hi) ->
  forall acc B, acc <= B ->
    (forall r, In r rows -> last r 0 + B + (inject_Z (Z.of_nat (length rows)) - 1) * hi < t) ->
    wsum (srows rows bg) (tacc t acc) == wsum (srows (sym_cells rows) bg) (tacc t acc).
Proof.
  induction rows as [|r rest IH]; intros F Hhi acc B HB Hw; [reflexivity|].
  inversion F as [|? ? [Hne Hl] Frest]; subst.
  assert (EM : inject_Z (Z.of_nat (length (r :: rest))) == inject_Z (Z.of_nat (length rest)) + 1).
  { cbn [length]. rewrite Nat2Z.inj_succ. unfold Z.succ. rewrite inject_Z_plus. reflexivity. }
  cbn [srows sym_cells map wsum].
  change (map (fun r0 : list Q => combine r0 bg) rest) with (srows rest bg).
  change (map (fun r1 : list Q => combine r1 bg) (map (fun r2 : list Q => removelast r2) rest))
    with (srows (sym_cells rest) bg).
  rewrite (combine_last r bg Hne Hl), map_app, Qsum_app. cbn [map Qsum fst snd].
  assert (Hdead : wsum (srows rest bg) (fun l => tacc t acc (last r 0 :: l)) == 0).
  { apply wsum_dead. intros l Hat. rewrite tacc_cons. unfold tacc.
    assert (Hs : Qsum l <= inject_Z (Z.of_nat (length rest)) * hi).
    { apply (attain_Qsum_le rest bg hi l); [|exact Hat].
      intros r' c Hr' Hc. apply (Hhi r'); [right; exact Hr'|exact Hc]. }
    assert (Hlt : last r 0 + B + (inject_Z (Z.of_nat (length (r :: rest))) - 1) * hi < t)
      by (apply Hw; left; reflexivity).
    rewrite EM in Hlt.
    destruct (Qle_bool t (acc + last r 0 + Qsum l)) eqn:E; [|reflexivity].
    apply Qle_bool_iff in E. exfalso.
    set (n := inject_Z (Z.of_nat (length rest))) in *.
    assert (E' : (n + 1 - 1) * hi == n * hi) by ring. rewrite E' in Hlt. lra. }
  rewrite Hdead.
  assert (Hsym : Qsum (map (fun ab : Q * Q => snd ab * wsum (srows rest bg) (fun l => tacc t acc (fst ab :: l)))
                           (combine (removelast r) bg))
                 == Qsum (map (fun ab : Q * Q => snd ab * wsum (srows (sym_cells rest) bg) (fun l => tacc t acc (fst ab :: l)))
                              (combine (removelast r) bg))).
  { apply Qsum_eq_map. intros [x b] Hxb. cbn [fst snd].
    apply Qmult_comp; [reflexivity|].
    assert (Hx : x <= hi).
    { apply (Hhi r); [left; reflexivity|]. apply In_removelast. eapply in_combine_l; eauto. }
    rewrite (wsum_ext_in (srows rest bg) _ (tacc t (acc + x))) by (intros l _; rewrite tacc_cons; reflexivity).
    rewrite (wsum_ext_in (srows (sym_cells rest) bg) _ (tacc t (acc + x))) by (intros l _; rewrite tacc_cons; reflexivity).
    apply (IH Frest) with (B := B + hi).
    - intros r' c Hr' Hc. apply (Hhi r'); [right; exact Hr'|exact Hc].
    - lra.
    - intros r' Hr'.
      assert (Hlt : last r' 0 + B + (inject_Z (Z.of_nat (length (r :: rest))) - 1) * hi < t)
        by (apply Hw; right; exact Hr').
      rewrite EM in Hlt. set (n := inject_Z (Z.of_nat (length rest))) in *.
      assert (E' : (n + 1 - 1) * hi == (n - 1) * hi + hi) by ring. rewrite E' in Hlt. lra. }
  rewrite Hsym. lra.
Qed.

Theorem Ptail_full K (rows : list (list Q)) (bg : list Q) (hi t : Q) :
  (1 <= K)%nat -> Forall (fun r => length r = K) rows -> length bg = K ->
  (forall r c, In r rows -> In c r -> c <= hi) ->
  (forall r, In r rows -> last r 0 + (inject_Z (Z.of_nat (length rows)) - 1) * hi < t) ->
  tailS rows bg t == Ptail rows bg t.
Proof.
  intros HK Hlen Hbgl Hhi Hw. unfold Ptail, tailS.
  rewrite (wsum_ext_in (srows rows bg) _ (tacc t 0))
    by (intros l _; unfold tacc; rewrite (Qle_bool_comp t (0 + Qsum l) (Qsum l)) by lra; reflexivity).
  rewrite (wsum_ext_in (srows (sym_cells rows) bg) _ (tacc t 0))
    by (intros l _; unfold tacc; rewrite (Qle_bool_comp t (0 + Qsum l) (Qsum l)) by lra; reflexivity).
  apply (full_tail_gen bg hi t rows) with (B := 0).
  - rewrite Forall_forall in *. intros r Hr. specialize (Hlen r Hr). split; [|lia].
    intros E. subst r. simpl in Hlen. lia.
  - exact Hhi.
  - lra.
  - intros r Hr. specialize (Hw r Hr). lra.
Qed.

(* C12 against the tail of the full score (all K symbols, wildcard included), when the
   wildcard cells lie below every threshold the step looks at *)
Corollary pv_step_bounds_full rows perm bg K g score it hi :
  matrix_okm K rows bg -> (2 <= length rows)%nat -> Permutation perm (seq 0 (length rows)) -> 0 < g ->
  pv_next NumQ rows perm bg score g = Ok it ->
  let M := inject_Z (Z.of_nat (length rows)) in
  (forall r c, In r rows -> In c r -> c <= hi) ->
  (forall r, In r rows -> last r 0 + (M - 1) * hi < score - (M + 2) * g) ->
  io_gran it = g /\
  io_start it <= io_end it /\ 0 <= io_start it /\ io_end it <= 1 /\
  tailS rows bg (score + (M + 1) * g) <= io_start it /\
  io_end it <= tailS rows bg (score - (M + 2) * g).
Proof.
  intros Hok HM Hperm Hg H M Hhi Hw.
  destruct (pv_step_bounds_m rows perm bg K g score it Hok HM Hperm Hg H) as [A [B [C [D [E F]]]]].
  fold M in E, F.
  destruct Hok as [HK [Hlen [Hbgl _]]].
  assert (HM0 : 0 <= M).
  { unfold M. change 0 with (inject_Z 0). rewrite <- Zle_Qle. lia. }
  rewrite (Ptail_full K rows bg hi (score + (M + 1) * g)); [|lia|exact Hlen|exact Hbgl|exact Hhi|].
  2:{ intros r Hr. specialize (Hw r Hr). fold M. nra. }
  rewrite (Ptail_full K rows bg hi (score - (M + 2) * g)); [|lia|exact Hlen|exact Hbgl|exact Hhi|].
  2:{ intros r Hr. specialize (Hw r Hr). fold M. exact Hw. }
  repeat split; assumption.
Qed.

(* ---------- statement pins ---------- *)
Check pv_step_bounds_m : forall rows perm bg K g score it,
  matrix_okm K rows bg -> (2 <= length rows)%nat -> Permutation perm (seq 0 (length rows)) -> 0 < g ->
  pv_next NumQ rows perm bg score g = Ok it ->
  let M := inject_Z (Z.of_nat (length rows)) in
  io_gran it = g /\
  io_start it <= io_end it /\ 0 <= io_start it /\ io_end it <= 1 /\
  Ptail rows bg (score + (M + 1) * g) <= io_start it /\
  io_end it <= Ptail rows bg (score - (M + 2) * g).
Check pv_run_bounds_m : forall steps rows perm bg K score g it,
  matrix_okm K rows bg -> (2 <= length rows)%nat -> Permutation perm (seq 0 (length rows)) -> 0 < g ->
  In (Ok it) (pv_run NumQ steps rows perm bg score g) ->
  let M := inject_Z (Z.of_nat (length rows)) in
  let gi := io_gran it in
  0 < gi /\ gi <= g /\
  io_start it <= io_end it /\ 0 <= io_start it /\ io_end it <= 1 /\
  Ptail rows bg (score + (M + 1) * gi) <= io_start it /\
  io_end it <= Ptail rows bg (score - (M + 2) * gi).
Check pvalue_final_m : forall rows perm bg K score g steps it,
  matrix_okm K rows bg -> (2 <= length rows)%nat -> Permutation perm (seq 0 (length rows)) -> 0 < g ->
  last (pv_run NumQ steps rows perm bg score g) (Panic 0) = Ok it ->
  io_conv it = true ->
  let M := inject_Z (Z.of_nat (length rows)) in
  let pfinal := io_start it in
  let gi := io_gran it in
  0 < gi /\ gi <= g /\ pfinal == io_end it /\
  0 <= pfinal <= 1 /\
  Ptail rows bg (score + (M + 1) * gi) <= pfinal /\
  pfinal <= Ptail rows bg (score - (M + 2) * gi).
Check sc_step_bounds_m : forall rows perm bg K g p win it,
  matrix_okm K rows bg -> (2 <= length rows)%nat -> Permutation perm (seq 0 (length rows)) ->
  0 < g -> 0 < p -> (fst win <= snd win + 1)%Z ->
  sc_next NumQ rows perm bg p g win = Ok it ->
  io_total_lt it = false -> (1 < length (last (io_rows it) []))%nat ->
  let M := inject_Z (Z.of_nat (length rows)) in
  let t := io_score it in
  let d := (M + 2) * g in
  io_gran it = g /\
  Ptail rows bg (t + d) <= p /\
  (forall l, attain l (srows (sym_cells rows) bg) -> Qsum l < t - d -> p <= Ptail rows bg (Qsum l - d)).
Check approximate_score_bounds_m : forall steps rows perm bg K p win it,
  matrix_okm K rows bg -> (2 <= length rows)%nat -> Permutation perm (seq 0 (length rows)) ->
  0 < p -> p <= Qpow_nat (1 - last bg 0) (length rows) ->
  score_window0 NumQ rows perm = Ok win ->
  In (Ok it) (sc_run NumQ steps rows perm bg p (1 # 10) win) ->
  let M := inject_Z (Z.of_nat (length rows)) in
  let gi := io_gran it in
  let t := io_score it in
  let d := (M + 2) * gi in
  0 < gi /\ gi <= 1 # 10 /\
  Ptail rows bg (t + d) <= p /\
  (forall l, attain l (srows (sym_cells rows) bg) -> Qsum l < t - d -> p <= Ptail rows bg (Qsum l - d)).

(* ---------- non-vacuity: a background with wildcard mass 1/4 ---------- *)
Definition exm_rows : list (list Q) :=
  [[1; -1; 1 # 3; -2; -100]; [1 # 2; -(1 # 3); 0; -1; -100]; [1 # 4; 0; 1 # 7; -(1 # 4); -100]].
Definition exm_bg : list Q := [1 # 4; 1 # 4; 1 # 8; 1 # 8; 1 # 4].
Definition exm_perm : list nat := [0; 1; 2]%nat.

Example exm_hyps :
  matrix_okm 5 exm_rows exm_bg /\ ~ matrix_ok 5 exm_rows exm_bg /\
  Permutation exm_perm (seq 0 (length exm_rows)) /\
  Qpow_nat (1 - last exm_bg 0) (length exm_rows) == 27 # 64.
Proof.
  split; [|split; [|split]].
  - unfold matrix_okm. split; [lia|]. split; [repeat constructor|]. split; [reflexivity|].
    split; [|split; [reflexivity|discriminate]].
    intros b Hb. cbn in Hb. repeat (destruct Hb as [<-|Hb]; [discriminate|]). destruct Hb.
  - intros [_ [_ [_ [_ [_ Hw]]]]]. cbn in Hw. discriminate Hw.
  - apply Permutation_refl.
  - reflexivity.
Qed.

(* two refinement steps of approximate_pvalue(1/3): both succeed; the first range
   [77/512, 87/512] is a proper interval strictly inside (0, (3/4)^3) *)
Example exm_pvalue_run :
  exists it1 it2,
    pv_run NumQ 2 exm_rows exm_perm exm_bg (1 # 3) (1 # 10) = [Ok it1; Ok it2] /\
    0 < io_start it1 /\ io_start it1 < io_end it1 /\ io_end it1 < Qpow_nat (1 - last exm_bg 0) (length exm_rows) /\
    io_start it1 == 77 # 512 /\ io_end it1 == 87 # 512 /\
    io_gran it2 == 1 # 100 /\ io_conv it2 = true.
Proof.
  eexists. eexists. split; [vm_compute; reflexivity|].
  vm_compute. repeat split; intros; discriminate.
Qed.

(* approximate_score(1/8) (1/8 <= (3/4)^3) converges in two steps, both on adequate windows *)
Example exm_score_run :
  exists win it1 it2,
    score_window0 NumQ exm_rows exm_perm = Ok win /\
    sc_run NumQ 4 exm_rows exm_perm exm_bg (1 # 8) (1 # 10) win = [Ok it1; Ok it2] /\
    io_total_lt it1 = false /\ io_total_lt it2 = false /\
    (1 < length (last (io_rows it1) []))%nat /\ (1 < length (last (io_rows it2) []))%nat /\
    io_conv it2 = true /\ io_score it2 == 3 # 4.
Proof.
  eexists. eexists. eexists. split; [vm_compute; reflexivity|].
  split; [vm_compute; reflexivity|]. vm_compute. repeat split; try lia; discriminate.
Qed.

(* the bound p <= (1 - b_N)^M cannot be dropped: for p = 1/2 > 27/64 the first window is
   exhausted with total mass below p ([io_total_lt] holds), at p = 27/64 it is not *)
Example exm_score_mass_needed :
  exists win it it',
    score_window0 NumQ exm_rows exm_perm = Ok win /\
    sc_next NumQ exm_rows exm_perm exm_bg (1 # 2) (1 # 10) win = Ok it /\ io_total_lt it = true /\
    sc_next NumQ exm_rows exm_perm exm_bg (27 # 64) (1 # 10) win = Ok it' /\ io_total_lt it' = false.
Proof.
  eexists. eexists. eexists. split; [vm_compute; reflexivity|].
  split; [vm_compute; reflexivity|]. split; [vm_compute; reflexivity|].
  split; [vm_compute; reflexivity|]. vm_compute. reflexivity.
Qed.

(* on the example (cells <= 1, wildcard cells -100, M = 3) the full tail is [Ptail] at every
   threshold above -98 *)
Example exm_full_tail t : -98 < t -> tailS exm_rows exm_bg t == Ptail exm_rows exm_bg t.
Proof.
  intros Ht. apply (Ptail_full 5 exm_rows exm_bg 1 t); [lia|repeat constructor|reflexivity| |].
  - intros r c Hr Hc. cbn in Hr.
    repeat (destruct Hr as [<-|Hr]; [cbn in Hc; repeat (destruct Hc as [<-|Hc]; [discriminate|]); destruct Hc|]).
    destruct Hr.
  - intros r Hr. cbn in Hr.
    repeat (destruct Hr as [<-|Hr]; [cbn [last exm_rows length]; change (inject_Z (Z.of_nat 3)) with 3; lra|]).
    destruct Hr.
Qed.
