(* First clause of C13 without the window-total hypothesis: even when lookup_score
   exhausts its window ([ls_total_lt o = true]), the returned threshold is never too
   LOW, i.e. the exact tail (M+2) g above the returned score is at most p.  Only the
   table must have more than one entry. *)
From Coq Require Import ZArith QArith Qround List Bool Lia Lqa Sorted Permutation.
From LMBase Require Import Res ListX.
From LMTfm Require Import TfmNum TfmModel TfmSpec TfmProofs TfmScore TfmDist TfmPerm TfmMain TfmRun TfmLink.
Import ListNotations.
Open Scope Q_scope.

(* integer-level content, first conclusion of TfmScore.ls_core; the hypothesis on
   [exh && lt ... = false] is not needed *)
Lemma ls_core_c1 ir mn mx (lastm : fmap (T:=Q)) p riter sum a exh :
  dist_exact ir mn mx lastm -> wf_rows ir -> 0 < p -> (1 < length lastm)%nat ->
  (((1 <= riter)%nat /\ sum == tailsum lastm riter /\ p <= sum /\
      ((S riter < length lastm)%nat -> tailsum lastm (S riter) < p))
   \/ (riter = 0%nat /\ sum == tailsum lastm 1 /\ ((1 < length lastm)%nat -> sum < p))) ->
  ((gt NumQ sum p = true /\ key_at lastm (S riter) 31 = Ok a /\ exh = false /\
      exists ae, key_at lastm riter 31 = Ok ae)
   \/ (gt NumQ sum p = false /\ riter = 0%nat /\ key_at lastm 0 31 = Ok a /\ exh = true)
   \/ (gt NumQ sum p = false /\ riter <> 0%nat /\ key_at lastm riter 31 = Ok a /\ exh = false)) ->
  PI_ge ir (a + 2) <= p.
Proof.
  intros Hdist W Hp Hlen Hloop Hsel.
  destruct (dist_exact_keys _ _ _ _ Hdist) as [Hsort [Hrange [Hcomp Hlastkey]]].
  assert (Hmono : forall k, PI_ge ir (k + 2) <= PI_ge ir k) by (intros k; apply PI_ge_mono; auto; lia).
  assert (Hkeyle : forall i k v, nth_error lastm i = Some (k, v) -> (k <= mx + 1)%Z).
  { intros i k v Hn. apply nth_error_In in Hn. apply Hrange in Hn. simpl in Hn. lia. }
  destruct Hsel as [[Hgt [Ha [Hexh [ae Hae]]]]|[[Hgt [Hr0 [Ha Hexh]]]|[Hgt [Hr0 [Ha Hexh]]]]].
  - (* sum > p: alpha = keys[riter+1] *)
    apply gtQ in Hgt. apply key_at_ok in Ha. destruct Ha as [va Ha].
    assert (HSr : (S riter < length lastm)%nat) by (apply nth_error_Some; congruence).
    destruct Hloop as [[L1 [L2 [L3 L4]]]|[R1 [R2 R3]]]; [|specialize (R3 Hlen); lra].
    specialize (L4 HSr).
    rewrite (tailsum_spec _ _ _ _ Hdist _ _ _ Ha) in L4.
    specialize (Hmono a); lra.
  - (* window bottom reached: alpha = keys[0] *)
    subst riter exh. apply key_at_ok in Ha. destruct Ha as [va Ha].
    destruct Hloop as [[L1 _]|[_ [R2 R3]]]; [lia|]. specialize (R3 Hlen).
    destruct (nth_error lastm 1) as [[k1 v1]|] eqn:E1; [|apply nth_error_None in E1; lia].
    rewrite (tailsum_spec _ _ _ _ Hdist _ _ _ E1) in R2.
    assert (Ha1 : (a < k1)%Z).
    { eapply (sorted_nth_lt (map fst lastm) Hsort 0 1); eauto using nth_error_map_fst. }
    pose proof (Hkeyle _ _ _ E1) as Hk1le.
    assert (Hamn : (mn <= a)%Z).
    { apply nth_error_In in Ha. apply Hrange in Ha. simpl in Ha. lia. }
    apply Qle_trans with (PI_ge ir k1); [|lra].
    unfold PI_ge. apply wsum_le; auto. intros li Hat. apply ind_impl. intros Hle.
    apply Z.leb_le in Hle. apply Z.leb_le.
    destruct (Z.le_gt_cases (Zsum li) mx) as [Hin|Hout]; [|lia].
    assert (Hk : In (Zsum li) (map fst lastm)) by (apply Hcomp; auto; lia).
    eapply (sorted_nth_next (map fst lastm) Hsort 0 a k1); eauto using nth_error_map_fst. lia.
  - (* sum == p at riter >= 1: alpha = keys[riter] *)
    apply key_at_ok in Ha. destruct Ha as [va Ha].
    destruct Hloop as [[L1 [L2 [L3 L4]]]|[R1 _]]; [|lia].
    assert (Hle : sum <= p).
    { destruct (Qlt_le_dec p sum) as [Hc|?]; auto. apply gtQ in Hc. congruence. }
    rewrite (tailsum_spec _ _ _ _ Hdist _ _ _ Ha) in L2.
    specialize (Hmono a); lra.
Qed.

(* lookup_score: first clause of TfmScore.lookup_score_sound, no [ls_total_lt] hypothesis *)
Theorem lookup_score_clause1 : forall rows perm bg K g G p mn mx o,
  matrix_ok K rows bg -> 0 < g -> length perm = length rows ->
  recompute NumQ rows perm g = Ok G ->
  lookup_score NumQ G bg p mn mx = Ok o ->
  dist_exact (irows (g_int G) bg) mn mx (last (ls_rows o) []) ->
  (1 < length (last (ls_rows o) []))%nat -> 0 < p ->
  let M := inject_Z (Z.of_nat (length rows)) in
  let cs := perm_cells rows perm in
  let t := inject_Z (ls_alpha o - Zsum (g_off G)) * g in
  let d := (M + 2) * g in
  tailS cs bg (t + d) <= p.
Proof.
  intros rows perm bg K g G p mn mx o.
  intros [HK [Hlen [Hbgl [Hbg [Hunit Hwild]]]]] Hg Hperm Hrec Hlook Hdist Hw2 Hp M cs t d.
  destruct (recompute_Q_geom _ _ _ _ Hrec) as [prow [Hpr [Hgran [Hg1 [Hint [Hoff [Hne _]]]]]]].
  destruct (permuted_rows_spec _ _ _ Hpr) as [Hplen [Hpin Hcells]].
  set (css := map cells prow) in *.
  assert (Hcs : cs = css) by (unfold cs; symmetry; exact Hcells).
  unfold lookup_score in Hlook. cbn [NumQ n_isnan] in Hlook.
  apply rbind_ok in Hlook. destruct Hlook as [rowsq [Hdistr Hlook]].
  set (lastm := last rowsq []) in *.
  destruct (length lastm) as [|top] eqn:Elen; [discriminate|].
  apply rbind_ok in Hlook. destruct Hlook as [[[riter sum] pvs] [Hloop Hlook]].
  apply rbind_ok in Hlook. destruct Hlook as [[[[a ae] pvs'] exh] [Hsel Hlook]].
  apply rbind_ok in Hlook. destruct Hlook as [pa [Hpa Hlook]].
  apply rbind_ok in Hlook. destruct Hlook as [pe [Hpe Hlook]].
  inversion Hlook; subst o; clear Hlook. cbn [ls_alpha ls_total_lt ls_rows] in *.
  fold lastm in Hdist, Hw2.
  set (ir := irows (g_int G) bg) in *.
  assert (W : wf_rows ir) by (apply wf_irows; auto).
  (* the loop *)
  assert (Hloop' :
    ((1 <= riter)%nat /\ sum == tailsum lastm riter /\ p <= sum /\
       ((S riter < length lastm)%nat -> tailsum lastm (S riter) < p))
    \/ (riter = 0%nat /\ sum == tailsum lastm 1 /\ ((1 < length lastm)%nat -> sum < p))).
  { destruct (ls_loop_spec p lastm top 0 [] riter sum pvs Hloop) as [[A1 [A2 [A3 [A4 A5]]]]|[B1 [B2 B3]]].
    - rewrite tailsum_beyond by lia. reflexivity.
    - intros Hc. lia.
    - left. repeat split; auto.
    - right. repeat split; auto. }
  (* the choice of alpha *)
  assert (Hsel' :
    (gt NumQ sum p = true /\ key_at lastm (S riter) 31 = Ok a /\ exh = false /\
       exists ae0, key_at lastm riter 31 = Ok ae0)
    \/ (gt NumQ sum p = false /\ riter = 0%nat /\ key_at lastm 0 31 = Ok a /\ exh = true)
    \/ (gt NumQ sum p = false /\ riter <> 0%nat /\ key_at lastm riter 31 = Ok a /\ exh = false)).
  { destruct (gt NumQ sum p) eqn:Hgt.
    - apply rbind_ok in Hsel. destruct Hsel as [ae0 [Hae0 Hsel]].
      apply rbind_ok in Hsel. destruct Hsel as [a0 [Ha0 Hsel]].
      inversion Hsel; subst. left. repeat split; auto. exists ae; auto.
    - destruct riter as [|r'].
      + apply rbind_ok in Hsel. destruct Hsel as [a0 [Ha0 Hsel]].
        inversion Hsel; subst. right; left. repeat split; auto.
      + apply rbind_ok in Hsel. destruct Hsel as [a0 [Ha0 Hsel]].
        apply rbind_ok in Hsel. destruct Hsel as [ae0 [Hae0 Hsel]].
        inversion Hsel; subst. right; right. repeat split; auto. }
  pose proof (ls_core_c1 ir mn mx lastm p riter sum a exh Hdist W Hp Hw2 Hloop' Hsel') as C1.
  (* from integer scores to real scores *)
  assert (WJ : wf_rows (jrows g bg css)) by (apply wf_jrows; auto).
  assert (HM : M = inject_Z (Z.of_nat (length css))).
  { unfold M, css. rewrite map_length, Hplen, Hperm. reflexivity. }
  assert (Ht : t == (inject_Z a - inject_Z (Zsum (offs_of g css))) * g).
  { unfold t. rewrite inject_Z_minus, Hoff. reflexivity. }
  set (A := inject_Z a) in *. set (O := inject_Z (Zsum (offs_of g css))) in *.
  unfold tailS. rewrite Hcs.
  apply Qle_trans with (PI_ge ir (a + 2)); [|exact C1].
  unfold PI_ge, ir. rewrite Hint. rewrite (wsum_S_joint g), (wsum_I_joint g).
  apply wsum_le; auto. intros l Hl. apply ind_impl. intros Hle.
  apply Qle_bool_iff in Hle. apply Z.leb_le.
  destruct (int_score_error_coarse g bg css l Hg Hl) as [E0 [E1 _]]. rewrite <- HM in E1. fold O in E0, E1.
  rewrite Ht in Hle. unfold d in Hle.
  pose proof (c1_arith g _ O _ M A Hg Hle E1) as HA.
  rewrite Zle_Qle, inject_Z_plus. exact HA.
Qed.

(* ScoresIterator::next, first clause of TfmMain.sc_next_sound, no [io_total_lt] hypothesis *)
Theorem sc_next_clause1 : forall rows perm bg K g p win it,
  matrix_ok K rows bg -> (2 <= length rows)%nat -> length perm = length rows -> 0 < g -> 0 < p ->
  (fst win <= snd win + 1)%Z ->
  sc_next NumQ rows perm bg p g win = Ok it ->
  (1 < length (last (io_rows it) []))%nat ->
  let M := inject_Z (Z.of_nat (length rows)) in
  let cs := perm_cells rows perm in
  let d := (M + 2) * g in
  io_gran it = g /\ tailS cs bg (io_score it + d) <= p.
Proof.
  intros rows perm bg K g p win it.
  intros Hok HM Hperm Hg Hp Hwin H Hw2 M cs d. unfold sc_next in H.
  apply rbind_ok in H. destruct H as [G [Hrec H]].
  apply rbind_ok in H. destruct H as [o [Hlook H]].
  apply rbind_ok in H. destruct H as [osum [Hosum H]].
  destruct (negb _); [discriminate|].
  inversion H; subst it; clear H. cbn [io_gran io_score io_total_lt io_rows] in *. split; [reflexivity|].
  destruct (recompute_cells _ _ _ _ _ _ Hok Hrec) as [Hcells [Hmaxr HlenG]].
  destruct (matrix_ok_bg _ _ _ Hok) as [Hunit Hbl].
  assert (Hrows : distribution NumQ G bg (fst win) (snd win) = Ok (ls_rows o)).
  { pose proof Hlook as Hl. unfold lookup_score in Hl. cbn [NumQ n_isnan] in Hl.
    apply rbind_ok in Hl. destruct Hl as [rowsq [Hd Hl]]. rewrite Hd. f_equal.
    destruct (length (last rowsq [])); [discriminate|].
    apply rbind_ok in Hl. destruct Hl as [[[riter sum] pvs] [_ Hl]].
    apply rbind_ok in Hl. destruct Hl as [[[[a ae] pvs'] exh] [_ Hl]].
    apply rbind_ok in Hl. destruct Hl as [pa [_ Hl]].
    apply rbind_ok in Hl. destruct Hl as [pe [_ Hl]].
    inversion Hl; subst o. reflexivity. }
  assert (Hdist : dist_exact (irows (g_int G) bg) (fst win) (snd win) (last (ls_rows o) [])).
  { apply (distribution_exact G bg _ _ (ls_rows o) (K - 1)%nat Hrows); [lia|exact Hcells|exact Hmaxr|exact Hunit|exact Hbl|exact Hwin]. }
  apply sum_i64_ok in Hosum. rewrite Z.add_0_l in Hosum.
  cbn [NumQ n_mul n_ofZ]. rewrite Hosum.
  exact (lookup_score_clause1 rows perm bg K g G p (fst win) (snd win) o Hok Hg Hperm Hrec Hlook Hdist
           Hw2 Hp).
Qed.

(* the same for the matrix as given (cf. TfmLink.sc_step_bounds) *)
Theorem sc_step_clause1 : forall rows perm bg K g p win it,
  matrix_ok K rows bg -> (2 <= length rows)%nat -> Permutation perm (seq 0 (length rows)) ->
  0 < g -> 0 < p -> (fst win <= snd win + 1)%Z ->
  sc_next NumQ rows perm bg p g win = Ok it ->
  (1 < length (last (io_rows it) []))%nat ->
  let M := inject_Z (Z.of_nat (length rows)) in
  io_gran it = g /\ Ptail rows bg (io_score it + (M + 2) * g) <= p.
Proof.
  intros rows perm bg K g p win it Hok HM Hperm Hg Hp Hwin H Hw2 M.
  destruct (sc_next_clause1 rows perm bg K g p win it Hok HM (perm_length _ _ Hperm) Hg Hp Hwin H Hw2)
    as [A B].
  rewrite (Ptail_perm rows perm bg _ Hperm) in B. split; [exact A|exact B].
Qed.
