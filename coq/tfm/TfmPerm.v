(* Row-order independence of the exact tail, and the fine rounding-error bound of the
   integer score (error_max summed from row 1, as in the code). *)
From Coq Require Import ZArith QArith Qround List Bool Lia Lqa Sorted Setoid Morphisms Permutation.
From LMBase Require Import Res ListX.
From LMTfm Require Import TfmNum TfmModel TfmSpec TfmProofs.
Import ListNotations.
Open Scope Q_scope.

(* ------------------------------------------------------------------ *)
(** * Part A: the exact tail does not depend on the order of the rows *)

Lemma Qsum_map_zero {A} (l : list A) : Qsum (map (fun _ => 0) l) == 0.
Proof. induction l as [|x r IH]; simpl; [reflexivity|]. rewrite IH. lra. Qed.

Lemma Qsum_fubini {A B} (F : A -> B -> Q) (r1 : list A) (r2 : list B) :
  Qsum (map (fun a => Qsum (map (fun b => F a b) r2)) r1)
  == Qsum (map (fun b => Qsum (map (fun a => F a b) r1)) r2).
Proof.
  induction r1 as [|a r1 IH]; simpl.
  - rewrite Qsum_map_zero. reflexivity.
  - rewrite IH.
    rewrite (Qsum_plus_map (fun b => F a b) (fun b => Qsum (map (fun a0 => F a0 b) r1)) r2).
    reflexivity.
Qed.

Lemma wsum_sum_perm_gen (rows rows' : list (list (Q * Q))) (h : Q -> Q) :
  (forall x y, x == y -> h x == h y) ->
  Permutation rows rows' ->
  forall a, wsum rows (fun l => h (a + Qsum l)) == wsum rows' (fun l => h (a + Qsum l)).
Proof.
  intros Hh HP. induction HP as [|r l1 l2 HP IH|r1 r2 l0|l1 l2 l3 HP1 IH1 HP2 IH2]; intros a.
  - reflexivity.
  - cbn [wsum]. apply Qsum_eq_map. intros ab _. apply Qmult_comp; [reflexivity|].
    cbn [Qsum].
    rewrite (wsum_ext_in l1 (fun l => h (a + (fst ab + Qsum l))) (fun l => h ((a + fst ab) + Qsum l)))
      by (intros l _; apply Hh; ring).
    rewrite (wsum_ext_in l2 (fun l => h (a + (fst ab + Qsum l))) (fun l => h ((a + fst ab) + Qsum l)))
      by (intros l _; apply Hh; ring).
    apply IH.
  - cbn [wsum Qsum].
    set (W := fun (u v : Q * Q) => wsum l0 (fun l => h (a + (fst u + (fst v + Qsum l))))).
    (* left side: sum over r1 (outer) of r2 (inner) *)
    assert (E1 : Qsum (map (fun ab : Q * Q => snd ab *
                   Qsum (map (fun cd : Q * Q => snd cd * wsum l0 (fun l => h (a + (fst ab + (fst cd + Qsum l))))) r2)) r1)
                 == Qsum (map (fun ab : Q * Q => Qsum (map (fun cd : Q * Q => snd ab * (snd cd * W ab cd)) r2)) r1)).
    { apply Qsum_eq_map. intros ab _.
      rewrite (Qsum_scale_map (snd ab) (fun cd : Q * Q => snd cd * W ab cd) r2). reflexivity. }
    assert (E2 : Qsum (map (fun cd : Q * Q => snd cd *
                   Qsum (map (fun ab : Q * Q => snd ab * wsum l0 (fun l => h (a + (fst cd + (fst ab + Qsum l))))) r1)) r2)
                 == Qsum (map (fun cd : Q * Q => Qsum (map (fun ab : Q * Q => snd ab * (snd cd * W ab cd)) r1)) r2)).
    { apply Qsum_eq_map. intros cd _.
      rewrite <- (Qsum_scale_map (snd cd) (fun ab : Q * Q => snd ab * wsum l0 (fun l => h (a + (fst cd + (fst ab + Qsum l))))) r1).
      apply Qsum_eq_map. intros ab _.
      assert (E : wsum l0 (fun l => h (a + (fst cd + (fst ab + Qsum l)))) == W ab cd).
      { unfold W. apply wsum_ext_in. intros l _. apply Hh. ring. }
      rewrite E. ring. }
    rewrite E1, E2. symmetry.
    apply (Qsum_fubini (fun (ab cd : Q * Q) => snd ab * (snd cd * W ab cd)) r1 r2).
  - rewrite IH1. apply IH2.
Qed.

Lemma wsum_sum_perm : forall (rows rows' : list (list (Q*Q))) (h : Q -> Q),
  (forall x y, x == y -> h x == h y) ->
  Permutation rows rows' ->
  wsum rows (fun l => h (Qsum l)) == wsum rows' (fun l => h (Qsum l)).
Proof.
  intros rows rows' h Hh HP.
  rewrite (wsum_ext_in rows (fun l => h (Qsum l)) (fun l => h (0 + Qsum l)))
    by (intros l _; apply Hh; ring).
  rewrite (wsum_ext_in rows' (fun l => h (Qsum l)) (fun l => h (0 + Qsum l)))
    by (intros l _; apply Hh; ring).
  apply wsum_sum_perm_gen; auto.
Qed.

Lemma tailS_perm : forall css css' bg t,
  Permutation css css' -> tailS css bg t == tailS css' bg t.
Proof.
  intros css css' bg t HP. unfold tailS.
  apply (wsum_sum_perm (srows css bg) (srows css' bg) (fun x => ind (Qle_bool t x))).
  - intros x y Hxy. rewrite Hxy. reflexivity.
  - unfold srows. apply Permutation_map. exact HP.
Qed.

Lemma map_nth_seq {A} (rows : list A) (d : A) :
  map (fun p => nth p rows d) (seq 0 (length rows)) = rows.
Proof.
  induction rows as [|a r IH]; [reflexivity|].
  cbn [length seq map nth]. f_equal.
  rewrite <- seq_shift, map_map. exact IH.
Qed.

Lemma perm_cells_Permutation : forall (rows : list (list Q)) perm,
  Permutation perm (seq 0 (length rows)) ->
  Permutation (perm_cells rows perm) (map (fun r => removelast r) rows).
Proof.
  intros rows perm HP. unfold perm_cells.
  assert (E : map (fun r : list Q => removelast r) rows
              = map (fun p => removelast (nth p rows [])) (seq 0 (length rows))).
  { rewrite <- (map_map (fun p => nth p rows []) (fun r : list Q => removelast r)).
    rewrite map_nth_seq. reflexivity. }
  rewrite E. apply Permutation_map. exact HP.
Qed.

Lemma tailS_perm_cells (rows : list (list Q)) perm bg t :
  Permutation perm (seq 0 (length rows)) ->
  tailS (perm_cells rows perm) bg t == tailS (map (fun r => removelast r) rows) bg t.
Proof. intros HP. apply tailS_perm. apply perm_cells_Permutation. exact HP. Qed.

(* ------------------------------------------------------------------ *)
(** * Part B: the fine rounding-error bound *)

(* one row of a word: its contribution to S/g + offsets - I is the rounding error of its cell *)
Lemma err_step g bg cs rest (xc : Q * Z) (l' : list (Q * Z)) :
  0 < g -> In xc (map fst (jrow g bg cs)) ->
  exists x, In x cs /\
    Qsum (map (fun xc : Q * Z => fst xc) (xc :: l')) / g
      + inject_Z (Zsum (offs_of g (cs :: rest)))
      - inject_Z (Zsum (map (fun xc : Q * Z => snd xc) (xc :: l')))
    == cell_err g x +
       (Qsum (map (fun xc : Q * Z => fst xc) l') / g
          + inject_Z (Zsum (offs_of g rest))
          - inject_Z (Zsum (map (fun xc : Q * Z => snd xc) l'))).
Proof.
  intros Hg Hin.
  apply in_map_iff in Hin. destruct Hin as [e [He Hin]]. unfold jrow in Hin.
  apply in_map_iff in Hin. destruct Hin as [xb [<- Hxb]]. cbn [fst snd] in He. subst xc.
  exists (fst xb). split.
  { destruct xb as [x b]. apply in_combine_l in Hxb. exact Hxb. }
  assert (Hg0 : ~ g == 0) by lra.
  cbn [map Qsum Zsum fst snd offs_of]. fold (offs_of g rest).
  rewrite (Qdiv_plus_distr _ _ _ Hg0). rewrite !inject_Z_plus.
  unfold cell_err. lra.
Qed.

(* rows 1.. : bounded by the sum of the per-row maxima *)
Lemma err_fine_rest g bg (rs : list (list Q)) (es : list Q) :
  0 < g ->
  Forall2 (fun r e => forall x, In x (cells r) -> cell_err g x <= e) rs es ->
  forall l, attain l (jrows g bg (map cells rs)) ->
  Qsum (map (fun xc : Q * Z => fst xc) l) / g
    + inject_Z (Zsum (offs_of g (map cells rs)))
    - inject_Z (Zsum (map (fun xc : Q * Z => snd xc) l))
  <= Qsum es.
Proof.
  intros Hg HF. induction HF as [|r e rs' es' Hre HF IH]; intros l Hat.
  - inversion Hat; subst. cbn [map Qsum Zsum offs_of]. unfold Qdiv. rewrite Qmult_0_l.
    change (inject_Z 0) with 0. lra.
  - cbn [map] in Hat. inversion Hat as [|xc jr l' rows' Hin Hrest]; subst.
    destruct (err_step g bg (cells r) (map cells rs') xc l' Hg Hin) as [x [Hx E]].
    cbn [map] in *. rewrite E. cbn [Qsum].
    specialize (IH l' Hrest). specialize (Hre x Hx). lra.
Qed.

Theorem int_score_error_fine : forall rows perm bg K g G l,
  matrix_ok K rows bg -> 0 < g -> perm <> [] ->
  recompute NumQ rows perm g = Ok G ->
  let css := perm_cells rows perm in
  attain l (jrows g bg css) ->
  let S := Qsum (map (fun xc : Q * Z => fst xc) l) in
  let I := Zsum (map (fun xc : Q * Z => snd xc) l) in
  let O := Zsum (g_off G) in
  0 <= S / g + inject_Z O - inject_Z I /\
  S / g + inject_Z O - inject_Z I < g_emax G + 1 /\
  0 <= g_emax G /\ g_emax G + 1 <= inject_Z (Z.of_nat (length perm)).
Proof.
  intros rows perm bg K g G l [HK [Hlen [Hbgl [Hbg [Hunit Hwild]]]]] Hg Hperm Hrec css Hat SS II OO.
  destruct (recompute_Q_geom _ _ _ _ Hrec) as [prow [Hp [Hgran [Hg1 [Hint [Hoff [Hne [_ [_ Hem]]]]]]]]].
  destruct (permuted_rows_spec _ _ _ Hp) as [Hplen [Hpin Hcells]].
  assert (Hcss : css = map cells prow) by (unfold css; symmetry; exact Hcells).
  rewrite combine_map_self, tl_map in Hem.
  apply error_max_from_Q in Hem; auto; [|apply Forall_tl; auto].
  destruct Hem as [Em0 [Em1 [es [HF Ees]]]].
  assert (HO : OO = Zsum (offs_of g css)) by (unfold OO; rewrite Hoff, Hcss; reflexivity).
  (* lower bound: the coarse lemma *)
  destruct (int_score_error_coarse g bg css l Hg Hat) as [C0 _].
  cbv zeta in C0. fold SS in C0. fold II in C0. rewrite <- HO in C0.
  split; [exact C0|].
  (* length facts *)
  destruct prow as [|r0 prest].
  { simpl in Hplen. destruct perm; [congruence|discriminate]. }
  cbn [tl] in HF, Em1.
  assert (HL : inject_Z (Z.of_nat (length perm)) == inject_Z (Z.of_nat (length prest)) + 1).
  { rewrite <- Hplen. cbn [length]. rewrite Nat2Z.inj_succ. unfold Z.succ.
    rewrite inject_Z_plus. reflexivity. }
  split; [|split; [lra|rewrite HL; lra]].
  (* upper bound *)
  rewrite HO. unfold SS, II. revert Hat. rewrite Hcss. cbn [map]. intros Hat.
  unfold jrows in Hat. cbn [map] in Hat. fold (jrows g bg (map cells prest)) in Hat.
  inversion Hat as [|xc jr l' rows' Hin Hrest]; subst l rows' jr.
  destruct (err_step g bg (cells r0) (map cells prest) xc l' Hg Hin) as [x [Hx E]].
  rewrite E.
  pose proof (err_fine_rest g bg prest es Hg HF l' Hrest) as HR.
  destruct (qfl_bounds g x Hg) as [_ B2]. fold (cell_err g x) in B2.
  lra.
Qed.
