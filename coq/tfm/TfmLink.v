(* Statements about the matrix as given (independent of the row permutation chosen by
   TfmPvalue::new) and the link between the exact tail of the theorems ([tailS]) and
   the tail evaluated by the extracted checkers ([TfmCheck.T] on dyadic rows). *)
From Coq Require Import ZArith QArith Qround List Bool Lia Lqa Sorted Permutation.
From LMBase Require Import Res ListX IEEE.
From LMTfm Require Import TfmNum TfmModel TfmSpec TfmProofs TfmScore TfmDist TfmPerm TfmMain TfmRun TfmCheck.
Import ListNotations.
Open Scope Q_scope.

(* the non-wildcard cells of the matrix, in the order of the matrix *)
Definition sym_cells (rows : list (list Q)) : list (list Q) := map (fun r => removelast r) rows.

(* the exact tail P(S >= t) of the score of a random background-distributed word *)
Definition Ptail (rows : list (list Q)) (bg : list Q) (t : Q) : Q := tailS (sym_cells rows) bg t.

Lemma Ptail_perm rows perm bg t :
  Permutation perm (seq 0 (length rows)) -> tailS (perm_cells rows perm) bg t == Ptail rows bg t.
Proof. intros H. unfold Ptail, sym_cells. apply tailS_perm_cells. exact H. Qed.

(* C12, one refinement step, for the matrix as given *)
Theorem pv_step_bounds rows perm bg K g score it :
  matrix_ok K rows bg -> (2 <= length rows)%nat -> Permutation perm (seq 0 (length rows)) -> 0 < g ->
  pv_next NumQ rows perm bg score g = Ok it ->
  let M := inject_Z (Z.of_nat (length rows)) in
  io_gran it = g /\
  io_start it <= io_end it /\ 0 <= io_start it /\ io_end it <= 1 /\
  Ptail rows bg (score + (M + 1) * g) <= io_start it /\
  io_end it <= Ptail rows bg (score - (M + 2) * g).
Proof.
  intros Hok HM Hperm Hg H M.
  assert (Hlen : length perm = length rows).
  { apply Permutation_length in Hperm. rewrite seq_length in Hperm. exact Hperm. }
  destruct (pv_next_sound rows perm bg K g score it Hok HM Hlen Hg H) as [A [B [C [D [E F]]]]].
  rewrite (Ptail_perm rows perm bg _ Hperm) in E. rewrite (Ptail_perm rows perm bg _ Hperm) in F. repeat split; assumption.
Qed.

(* a word of the matrix in permuted row order has the same score as a word of the matrix *)
Lemma attain_perm {A} (rows rows' : list (list (A * Q))) :
  Permutation rows rows' -> forall l, attain l rows -> exists l', attain l' rows' /\ Permutation l l'.
Proof.
  induction 1 as [|r rs rs' Hp IH|r1 r2 rs|rs1 rs2 rs3 H1 IH1 H2 IH2]; intros l Hl.
  - exists l. split; [exact Hl|apply Permutation_refl].
  - inversion Hl as [|a ? l0 ? Ha Hl0]; subst. destruct (IH _ Hl0) as [l' [A1 A2]].
    exists (a :: l'). split; [constructor; auto|constructor; auto].
  - inversion Hl as [|a ? l0 ? Ha Hl0]; subst. inversion Hl0 as [|b ? l1 ? Hb Hl1]; subst.
    exists (b :: a :: l1). split; [constructor; [exact Hb|constructor; [exact Ha|exact Hl1]]|apply perm_swap].
  - destruct (IH1 _ Hl) as [l1 [A1 A2]]. destruct (IH2 _ A1) as [l2 [B1 B2]].
    exists l2. split; [exact B1|eapply Permutation_trans; eauto].
Qed.

Lemma Qsum_Permutation l l' : Permutation l l' -> Qsum l == Qsum l'.
Proof.
  induction 1; cbn [Qsum]; lra.
Qed.

Lemma Ptail_comp rows bg x y : x == y -> Ptail rows bg x == Ptail rows bg y.
Proof.
  intros Exy. unfold Ptail, tailS. apply wsum_ext_in. intros l0 _.
  destruct (Qle_bool x (Qsum l0)) eqn:E1, (Qle_bool y (Qsum l0)) eqn:E2; try reflexivity.
  - apply Qle_bool_iff in E1. rewrite Exy in E1. apply Qle_bool_iff in E1. congruence.
  - apply Qle_bool_iff in E2. rewrite <- Exy in E2. apply Qle_bool_iff in E2. congruence.
Qed.

(* the second clause of C13 does not depend on the row order either *)
Lemma clause2_perm rows perm bg p x d :
  Permutation perm (seq 0 (length rows)) ->
  (forall l, attain l (srows (perm_cells rows perm) bg) -> Qsum l < x ->
             p <= tailS (perm_cells rows perm) bg (Qsum l - d)) ->
  forall l, attain l (srows (sym_cells rows) bg) -> Qsum l < x -> p <= Ptail rows bg (Qsum l - d).
Proof.
  intros Hperm C l Hl Hlt.
  assert (HP : Permutation (srows (sym_cells rows) bg) (srows (perm_cells rows perm) bg)).
  { unfold srows. apply Permutation_map. apply Permutation_sym. apply perm_cells_Permutation. exact Hperm. }
  destruct (attain_perm _ _ HP l Hl) as [l' [Hl' Hpl]].
  pose proof (Qsum_Permutation _ _ Hpl) as Es.
  assert (Hlt' : Qsum l' < x) by (rewrite <- Es; exact Hlt).
  pose proof (C l' Hl' Hlt') as Hc. rewrite (Ptail_perm rows perm bg _ Hperm) in Hc.
  rewrite (Ptail_comp rows bg (Qsum l - d) (Qsum l' - d)); [exact Hc|]. rewrite Es. reflexivity.
Qed.

Lemma perm_length (rows : list (list Q)) perm : Permutation perm (seq 0 (length rows)) -> length perm = length rows.
Proof. intros H. apply Permutation_length in H. rewrite seq_length in H. exact H. Qed.

(* C13, one refinement step on an adequate window, for the matrix as given *)
Theorem sc_step_bounds rows perm bg K g p win it :
  matrix_ok K rows bg -> (2 <= length rows)%nat -> Permutation perm (seq 0 (length rows)) ->
  0 < g -> 0 < p -> (fst win <= snd win + 1)%Z ->
  sc_next NumQ rows perm bg p g win = Ok it ->
  io_total_lt it = false -> (1 < length (last (io_rows it) []))%nat ->
  let M := inject_Z (Z.of_nat (length rows)) in
  let t := io_score it in
  let d := (M + 2) * g in
  io_gran it = g /\
  Ptail rows bg (t + d) <= p /\
  (forall l, attain l (srows (sym_cells rows) bg) -> Qsum l < t - d -> p <= Ptail rows bg (Qsum l - d)).
Proof.
  intros Hok HM Hperm Hg Hp Hwin H Hw1 Hw2 M t d.
  destruct (sc_next_sound rows perm bg K g p win it Hok HM (perm_length _ _ Hperm) Hg Hp Hwin H Hw1 Hw2)
    as [A [B C]].
  rewrite (Ptail_perm rows perm bg _ Hperm) in B. split; [exact A|]. split; [exact B|].
  exact (clause2_perm rows perm bg p _ _ Hperm C).
Qed.

(* C12: every iteration of approximate_pvalue *)
Theorem pv_run_bounds steps rows perm bg K score g it :
  matrix_ok K rows bg -> (2 <= length rows)%nat -> Permutation perm (seq 0 (length rows)) -> 0 < g ->
  In (Ok it) (pv_run NumQ steps rows perm bg score g) ->
  let M := inject_Z (Z.of_nat (length rows)) in
  let gi := io_gran it in
  0 < gi /\ gi <= g /\
  io_start it <= io_end it /\ 0 <= io_start it /\ io_end it <= 1 /\
  Ptail rows bg (score + (M + 1) * gi) <= io_start it /\
  io_end it <= Ptail rows bg (score - (M + 2) * gi).
Proof.
  intros Hok HM Hperm Hg H M gi.
  destruct (pv_run_sound steps rows perm bg K score g it Hok HM (perm_length _ _ Hperm) Hg H)
    as [A [B [C [D [E [F G]]]]]].
  rewrite (Ptail_perm rows perm bg _ Hperm) in F. rewrite (Ptail_perm rows perm bg _ Hperm) in G.
  repeat split; assumption.
Qed.

(* C12: the final p-value (TfmPvalue::pvalue = start of the range of the last, converged iteration) *)
Theorem pvalue_final rows perm bg K score g steps it :
  matrix_ok K rows bg -> (2 <= length rows)%nat -> Permutation perm (seq 0 (length rows)) -> 0 < g ->
  last (pv_run NumQ steps rows perm bg score g) (Panic 0) = Ok it ->
  io_conv it = true ->
  let M := inject_Z (Z.of_nat (length rows)) in
  let pfinal := io_start it in
  let gi := io_gran it in
  0 < gi /\ gi <= g /\ pfinal == io_end it /\
  0 <= pfinal <= 1 /\
  Ptail rows bg (score + (M + 1) * gi) <= pfinal /\
  pfinal <= Ptail rows bg (score - (M + 2) * gi).
Proof.
  intros Hok HM Hperm Hg H Hc M pfinal gi.
  destruct (pvalue_final_bounds steps rows perm bg K score g it Hok HM (perm_length _ _ Hperm) Hg H Hc)
    as [A [B [C [D [E F]]]]].
  rewrite (Ptail_perm rows perm bg _ Hperm) in E. rewrite (Ptail_perm rows perm bg _ Hperm) in F.
  repeat split; try assumption; apply D.
Qed.

(* C13: every iteration of approximate_score whose window is adequate *)
Theorem sc_run_bounds steps rows perm bg K p g win it :
  matrix_ok K rows bg -> (2 <= length rows)%nat -> Permutation perm (seq 0 (length rows)) ->
  0 < g -> 0 < p -> (fst win <= snd win + 1)%Z ->
  In (Ok it) (sc_run NumQ steps rows perm bg p g win) ->
  io_total_lt it = false -> (1 < length (last (io_rows it) []))%nat ->
  let M := inject_Z (Z.of_nat (length rows)) in
  let gi := io_gran it in
  let t := io_score it in
  let d := (M + 2) * gi in
  0 < gi /\ gi <= g /\
  Ptail rows bg (t + d) <= p /\
  (forall l, attain l (srows (sym_cells rows) bg) -> Qsum l < t - d -> p <= Ptail rows bg (Qsum l - d)).
Proof.
  intros Hok HM Hperm Hg Hp Hwin H Hw1 Hw2 M gi t d.
  destruct (sc_run_sound steps rows perm bg K p g win it Hok HM (perm_length _ _ Hperm) Hg Hp Hwin H Hw1 Hw2)
    as [A [B [C D]]].
  rewrite (Ptail_perm rows perm bg _ Hperm) in C.
  split; [exact A|]. split; [exact B|]. split; [exact C|].
  exact (clause2_perm rows perm bg p _ _ Hperm D).
Qed.

(* C13: the first iteration of approximate_score always works on an adequate window *)
Theorem first_window_ok rows perm bg K p win it :
  matrix_ok K rows bg -> (2 <= length rows)%nat -> Permutation perm (seq 0 (length rows)) ->
  0 < p -> p <= 1 ->
  score_window0 NumQ rows perm = Ok win ->
  sc_next NumQ rows perm bg p (1 # 10) win = Ok it ->
  (fst win <= snd win + 1)%Z /\ io_total_lt it = false /\ (1 < length (last (io_rows it) []))%nat.
Proof.
  intros Hok HM Hperm Hp Hp1 Hw H.
  exact (initial_window_ok rows perm bg K p win it Hok HM (perm_length _ _ Hperm) Hp Hp1 Hw H).
Qed.

(* ---------- the tail evaluated by the extracted checkers ---------- *)

(* rows of the checker: every symbol cell paired with its background frequency *)
Definition dy_rows (cs : list (list dy)) (bg : list dy) : list wrow := map (fun r => combine r bg) cs.

Lemma qrows_srows cs bg :
  qrows (dy_rows cs bg) = srows (map (map dy_toQ) cs) (map dy_toQ bg).
Proof.
  unfold qrows, dy_rows, srows. rewrite !map_map. apply map_ext. intros r.
  revert bg. induction r as [|a r IH]; intros [|b bg]; cbn [combine map]; auto.
  rewrite IH. reflexivity.
Qed.

(* the checker's exact tail is the tail of the theorems *)
Lemma T_tailS cs bg x : T (dy_rows cs bg) x == tailS (map (map dy_toQ) cs) (map dy_toQ bg) x.
Proof. unfold T, tailS. rewrite qrows_srows. reflexivity. Qed.

(* ---------- corollaries ---------- *)

Lemma wf_srows css bg : (forall b, In b bg -> 0 <= b) -> wf_rows (srows css bg).
Proof.
  intros H r Hr ab Hab. unfold srows in Hr. apply in_map_iff in Hr. destruct Hr as [cs [<- _]].
  eapply in_combine_snd_nonneg; eauto.
Qed.

(* the exact tail is non-increasing in the threshold *)
Lemma Ptail_antitone rows bg x y :
  (forall b, In b bg -> 0 <= b) -> x <= y -> Ptail rows bg y <= Ptail rows bg x.
Proof.
  intros Hbg Hxy. unfold Ptail, tailS. apply wsum_le; [apply wf_srows; exact Hbg|].
  intros l _. apply ind_impl. intros H. apply Qle_bool_iff in H. apply Qle_bool_iff. lra.
Qed.

(* C12, last sentence of the property: the error of the final p-value is at most the
   probability mass of the scores within (M+2) g of s (more precisely of
   s - (M+2) g <= S < s + (M+1) g) *)
Theorem pvalue_final_error rows perm bg K score g steps it :
  matrix_ok K rows bg -> (2 <= length rows)%nat -> Permutation perm (seq 0 (length rows)) -> 0 < g ->
  last (pv_run NumQ steps rows perm bg score g) (Panic 0) = Ok it ->
  io_conv it = true ->
  let M := inject_Z (Z.of_nat (length rows)) in
  let gi := io_gran it in
  let mass := Ptail rows bg (score - (M + 2) * gi) - Ptail rows bg (score + (M + 1) * gi) in
  0 <= mass /\ - mass <= io_start it - Ptail rows bg score <= mass.
Proof.
  intros Hok HM Hperm Hg H Hc M gi mass.
  destruct (pvalue_final rows perm bg K score g steps it Hok HM Hperm Hg H Hc) as [A [B [C [D [E F]]]]].
  destruct Hok as [_ [_ [_ [Hbg _]]]].
  assert (HM0 : 0 <= M).
  { unfold M. change 0 with (inject_Z 0). rewrite <- Zle_Qle. lia. }
  fold gi in A, E, F. fold M in E, F.
  assert (G1 : Ptail rows bg (score + (M + 1) * gi) <= Ptail rows bg score).
  { apply Ptail_antitone; auto. nra. }
  assert (G2 : Ptail rows bg score <= Ptail rows bg (score - (M + 2) * gi)).
  { apply Ptail_antitone; auto. nra. }
  unfold mass. split; [lra|]. split; lra.
Qed.

(* C13: the final threshold (TfmPvalue::score = score of the last, converged iteration) *)
Theorem score_final rows perm bg K p g win steps it :
  matrix_ok K rows bg -> (2 <= length rows)%nat -> Permutation perm (seq 0 (length rows)) ->
  0 < g -> 0 < p -> (fst win <= snd win + 1)%Z ->
  last (sc_run NumQ steps rows perm bg p g win) (Panic 0) = Ok it ->
  io_total_lt it = false -> (1 < length (last (io_rows it) []))%nat ->
  let M := inject_Z (Z.of_nat (length rows)) in
  let gi := io_gran it in
  let t := io_score it in
  let d := (M + 2) * gi in
  0 < gi /\ gi <= g /\
  Ptail rows bg (t + d) <= p /\
  (forall l, attain l (srows (sym_cells rows) bg) -> Qsum l < t - d -> p <= Ptail rows bg (Qsum l - d)).
Proof.
  intros Hok HM Hperm Hg Hp Hwin H Hw1 Hw2.
  apply (sc_run_bounds steps rows perm bg K p g win it Hok HM Hperm Hg Hp Hwin); auto.
  apply (last_In _ (Panic 0)); [exact H|discriminate].
Qed.

(* the permutation test applied by the correspondence check to the implementation's
   permutation implies the hypothesis [Permutation perm (seq 0 M)] of the theorems *)
Lemma is_perm_of_Permutation n perm : is_perm_of n perm = true -> Permutation perm (seq 0 n).
Proof.
  unfold is_perm_of. intros H. apply andb_true_iff in H. destruct H as [Hl Hall].
  apply Nat.eqb_eq in Hl. apply Permutation_sym.
  apply NoDup_Permutation_bis.
  - apply seq_NoDup.
  - rewrite seq_length. lia.
  - intros i Hi. rewrite forallb_forall in Hall. specialize (Hall i Hi).
    apply existsb_exists in Hall. destruct Hall as [j [Hj E]]. apply Nat.eqb_eq in E. subst j. exact Hj.
Qed.

Lemma perm_ok_Permutation mat perm : perm_ok mat perm = true -> Permutation perm (seq 0 (length mat)).
Proof.
  unfold perm_ok. intros H. apply andb_true_iff in H. destruct H as [H _].
  apply is_perm_of_Permutation. exact H.
Qed.

(* the window predicates that the correspondence check computes from the table reported
   by the implementation ([ls_flags]) are the ones of the model's [lookup_score] *)
Lemma ls_flags_spec {T} (N : NumOps T) G bg p mn mx o :
  lookup_score N G bg p mn mx = Ok o ->
  ls_flags N p (last (ls_rows o) []) = (ls_exhausted o, ls_total_lt o).
Proof.
  unfold lookup_score, ls_flags. intros H.
  destruct (n_isnan N (g_gran G)); [discriminate|].
  apply rbind_ok in H. destruct H as [rowsq [Hd H]].
  set (lastm := last rowsq []) in *.
  destruct (length lastm) as [|top] eqn:Elen; [discriminate|].
  apply rbind_ok in H. destruct H as [[[riter sum] pvs] [Hloop H]].
  apply rbind_ok in H. destruct H as [[[[a ae] pvs'] exh] [Hsel H]].
  apply rbind_ok in H. destruct H as [pa [Hpa H]].
  apply rbind_ok in H. destruct H as [pe [Hpe H]].
  inversion H; subst o; clear H. cbn [ls_rows ls_exhausted ls_total_lt]. fold lastm.
  rewrite Elen, Hloop.
  assert (Hexh : exh = Nat.eqb riter 0 && negb (gt N sum p)).
  { destruct (gt N sum p) eqn:Hgt.
    - apply rbind_ok in Hsel. destruct Hsel as [x [_ Hsel]].
      apply rbind_ok in Hsel. destruct Hsel as [y [_ Hsel]]. inversion Hsel. rewrite andb_false_r. reflexivity.
    - destruct riter as [|r'].
      + apply rbind_ok in Hsel. destruct Hsel as [x [_ Hsel]]. inversion Hsel. reflexivity.
      + apply rbind_ok in Hsel. destruct Hsel as [x [_ Hsel]].
        apply rbind_ok in Hsel. destruct Hsel as [y [_ Hsel]]. inversion Hsel. reflexivity. }
  rewrite <- Hexh. reflexivity.
Qed.
