(* Theorems about the unbounded loops `pvalue()` / `score()` (TfmFinal.v). *)
From Coq Require Import ZArith QArith Qround List Bool Lia Lqa Sorted Permutation.
From LMBase Require Import Res ListX.
From LMTfm Require Import TfmNum TfmModel TfmSpec TfmProofs TfmScore TfmDist TfmPerm TfmMain TfmRun TfmTotal TfmLink TfmClause1 TfmAdequate TfmConverge TfmFinal.
Import ListNotations.
Open Scope Q_scope.

Lemma last_cons_ne {A} (x : A) l d d' : l <> [] -> last (x :: l) d = last l d'.
Proof.
  revert x. induction l as [|y r IH]; intros x H; [congruence|].
  destruct r as [|z r']; [reflexivity|].
  change (last (x :: y :: z :: r') d) with (last (y :: z :: r') d).
  change (last (y :: z :: r') d') with (last (z :: r') d').
  rewrite (IH y); [reflexivity|discriminate].
Qed.

Lemma last_default {A} (l : list A) d d' : l <> [] -> last l d = last l d'.
Proof.
  destruct l as [|x r]; [congruence|]. intros _.
  destruct r as [|y r']; [reflexivity|].
  rewrite (last_cons_ne x (y :: r') d d) by discriminate.
  rewrite (last_cons_ne x (y :: r') d' d) by discriminate. reflexivity.
Qed.

Section Generic.
  Context {T : Type} (N : NumOps T).

  (* a run that ended on a converged iteration is not changed by more fuel *)
  Lemma pv_run_fuel_mono : forall fuel rows perm bg score g (it : iter_out (T:=T)),
    last (pv_run N fuel rows perm bg score g) OutOfFuel = Ok it -> io_conv it = true ->
    pv_run N (S fuel) rows perm bg score g = pv_run N fuel rows perm bg score g.
  Proof.
    induction fuel as [|n IH]; intros rows perm bg score g it Hl Hc.
    - discriminate.
    - change (pv_run N (S (S n)) rows perm bg score g) with
        (if le N g (n_zero N) then [] else
         match pv_next N rows perm bg score g with
         | Ok it0 => Ok it0 :: (if io_conv it0 then [] else pv_run N (S n) rows perm bg score (n_div N g (n_ten N)))
         | e => [e]
         end).
      change (pv_run N (S n) rows perm bg score g) with
        (if le N g (n_zero N) then [] else
         match pv_next N rows perm bg score g with
         | Ok it0 => Ok it0 :: (if io_conv it0 then [] else pv_run N n rows perm bg score (n_div N g (n_ten N)))
         | e => [e]
         end) in Hl |- *.
      destruct (le N g (n_zero N)); [reflexivity|].
      destruct (pv_next N rows perm bg score g) as [it0| | |]; try reflexivity.
      destruct (io_conv it0) eqn:Ec0; [reflexivity|].
      f_equal.
      destruct (pv_run N n rows perm bg score (n_div N g (n_ten N))) as [|y r] eqn:Er.
      + simpl in Hl. inversion Hl; subst it0. congruence.
      + rewrite <- Er in *. apply (IH _ _ _ _ _ it); [|exact Hc].
        rewrite <- Hl. symmetry. apply last_cons_ne. rewrite Er. discriminate.
  Qed.

  Lemma sc_run_fuel_mono : forall fuel rows perm bg p g win (it : iter_out (T:=T)),
    last (sc_run N fuel rows perm bg p g win) OutOfFuel = Ok it -> io_conv it = true ->
    sc_run N (S fuel) rows perm bg p g win = sc_run N fuel rows perm bg p g win.
  Proof.
    induction fuel as [|n IH]; intros rows perm bg p g win it Hl Hc.
    - discriminate.
    - change (sc_run N (S (S n)) rows perm bg p g win) with
        (if le N g (n_zero N) then [] else
         match sc_next N rows perm bg p g win with
         | Ok it0 => Ok it0 :: (if io_conv it0 then [] else sc_run N (S n) rows perm bg p (n_div N g (n_ten N)) (io_win it0))
         | e => [e]
         end).
      change (sc_run N (S n) rows perm bg p g win) with
        (if le N g (n_zero N) then [] else
         match sc_next N rows perm bg p g win with
         | Ok it0 => Ok it0 :: (if io_conv it0 then [] else sc_run N n rows perm bg p (n_div N g (n_ten N)) (io_win it0))
         | e => [e]
         end) in Hl |- *.
      destruct (le N g (n_zero N)); [reflexivity|].
      destruct (sc_next N rows perm bg p g win) as [it0| | |]; try reflexivity.
      destruct (io_conv it0) eqn:Ec0; [reflexivity|].
      f_equal.
      destruct (sc_run N n rows perm bg p (n_div N g (n_ten N)) (io_win it0)) as [|y r] eqn:Er.
      + simpl in Hl. inversion Hl; subst it0. congruence.
      + rewrite <- Er in *. apply (IH _ _ _ _ _ _ it); [|exact Hc].
        rewrite <- Hl. symmetry. apply last_cons_ne. rewrite Er. discriminate.
  Qed.

  Lemma final_of_run_ok fuel run (it : iter_out (T:=T)) :
    final_of_run fuel run = Ok it -> last run OutOfFuel = Ok it /\ io_conv it = true.
  Proof.
    unfold final_of_run. destruct (last run OutOfFuel) as [it0| | |]; try discriminate.
    destruct (io_conv it0) eqn:E.
    - intros H; inversion H; subst. auto.
    - destruct (length run <? fuel)%nat; discriminate.
  Qed.

  Lemma final_of_run_conv fuel run (it : iter_out (T:=T)) :
    last run OutOfFuel = Ok it -> io_conv it = true -> final_of_run fuel run = Ok it.
  Proof. intros H Hc. unfold final_of_run. rewrite H, Hc. reflexivity. Qed.

  (* the value returned with some fuel is the value returned with any larger fuel: it is the
     value of the unbounded loop *)
  Theorem pvalue_fuel_mono : forall fuel rows perm bg score p,
    pvalue_fuel N fuel rows perm bg score = Ok p -> pvalue_fuel N (S fuel) rows perm bg score = Ok p.
  Proof.
    intros fuel rows perm bg score p H. unfold pvalue_fuel in *.
    apply rbind_ok in H. destruct H as [it [Hf H]]. inversion H; subst p; clear H.
    destruct (final_of_run_ok _ _ _ Hf) as [Hl Hc].
    rewrite (pv_run_fuel_mono fuel rows perm bg score (n_tenth N) it Hl Hc).
    rewrite (final_of_run_conv (S fuel) _ it Hl Hc). reflexivity.
  Qed.

  Theorem score_fuel_mono : forall fuel rows perm bg p t,
    score_fuel N fuel rows perm bg p = Ok t -> score_fuel N (S fuel) rows perm bg p = Ok t.
  Proof.
    intros fuel rows perm bg p t H. unfold score_fuel in *.
    apply rbind_ok in H. destruct H as [win [Hw H]]. rewrite Hw. cbn [rbind].
    apply rbind_ok in H. destruct H as [it [Hf H]]. inversion H; subst t; clear H.
    destruct (final_of_run_ok _ _ _ Hf) as [Hl Hc].
    rewrite (sc_run_fuel_mono fuel rows perm bg p (n_tenth N) win it Hl Hc).
    rewrite (final_of_run_conv (S fuel) _ it Hl Hc). reflexivity.
  Qed.

End Generic.

(* ---------- exact arithmetic ---------- *)

(* the value returned by pvalue() obeys the bounds of the property at the granularity of the
   last iteration *)
Theorem pvalue_fuel_bounds : forall fuel rows perm bg K score p,
  matrix_ok K rows bg -> (2 <= length rows)%nat -> Permutation perm (seq 0 (length rows)) ->
  pvalue_fuel NumQ fuel rows perm bg score = Ok p ->
  let M := inject_Z (Z.of_nat (length rows)) in
  exists gi, 0 < gi /\ gi <= 1 # 10 /\ 0 <= p <= 1 /\
    Ptail rows bg (score + (M + 1) * gi) <= p /\ p <= Ptail rows bg (score - (M + 2) * gi).
Proof.
  intros fuel rows perm bg K score p Hok HM Hperm H M. unfold pvalue_fuel in H.
  apply rbind_ok in H. destruct H as [it [Hf H]]. inversion H; subst p; clear H.
  destruct (final_of_run_ok _ _ _ Hf) as [Hl Hc].
  change (n_tenth NumQ) with (1 # 10) in Hl.
  assert (Hl' : last (pv_run NumQ fuel rows perm bg score (1 # 10)) (Panic 0) = Ok it).
  { rewrite <- Hl. apply last_default. intros E. rewrite E in Hl. discriminate. }
  destruct (pvalue_final rows perm bg K score (1 # 10) fuel it Hok HM Hperm ltac:(reflexivity) Hl' Hc)
    as [A [B [_ [D [E F]]]]].
  exists (io_gran it). repeat split; try assumption; apply D.
Qed.

Theorem score_fuel_bounds : forall fuel rows perm bg K p t,
  matrix_ok K rows bg -> (2 <= length rows)%nat -> Permutation perm (seq 0 (length rows)) ->
  0 < p -> p <= 1 ->
  score_fuel NumQ fuel rows perm bg p = Ok t ->
  let M := inject_Z (Z.of_nat (length rows)) in
  exists gi, 0 < gi /\ gi <= 1 # 10 /\
    let d := (M + 2) * gi in
    Ptail rows bg (t + d) <= p /\
    (forall l, attain l (srows (sym_cells rows) bg) -> Qsum l < t - d -> p <= Ptail rows bg (Qsum l - d)).
Proof.
  intros fuel rows perm bg K p t Hok HM Hperm Hp Hp1 H M. unfold score_fuel in H.
  apply rbind_ok in H. destruct H as [win [Hw H]].
  apply rbind_ok in H. destruct H as [it [Hf H]]. inversion H; subst t; clear H.
  destruct (final_of_run_ok _ _ _ Hf) as [Hl Hc].
  change (n_tenth NumQ) with (1 # 10) in Hl.
  assert (Hl' : last (sc_run NumQ fuel rows perm bg p (1 # 10) win) (Panic 0) = Ok it).
  { rewrite <- Hl. apply last_default. intros E. rewrite E in Hl. discriminate. }
  destruct (approximate_score_final fuel rows perm bg K p win it Hok HM Hperm Hp Hp1 Hw Hl') as [A [B [C D]]].
  exists (io_gran it). split; [exact A|]. split; [exact B|]. cbv zeta. split; [exact C|exact D].
Qed.

(* a run that did not use up its fuel ended on a converged iteration or on a failing call *)
Lemma pv_run_nonempty n rows perm bg score g : 0 < g -> pv_run NumQ (S n) rows perm bg score g <> [].
Proof.
  intros Hg. cbn [pv_run]. rewrite (le_pos_false g Hg).
  destruct (pv_next NumQ rows perm bg score g); discriminate.
Qed.

Lemma pv_run_short : forall fuel rows perm bg score g it d,
  0 < g -> (length (pv_run NumQ fuel rows perm bg score g) < fuel)%nat ->
  last (pv_run NumQ fuel rows perm bg score g) d = Ok it -> io_conv it = true.
Proof.
  induction fuel as [|n IH]; intros rows perm bg score g it d Hg Hlen Hl; [simpl in Hlen; lia|].
  cbn [pv_run] in Hlen, Hl. rewrite (le_pos_false g Hg) in Hlen, Hl.
  destruct (pv_next NumQ rows perm bg score g) as [it0| | |] eqn:En; try (simpl in Hl; discriminate).
  destruct (io_conv it0) eqn:Ec0.
  - simpl in Hl. inversion Hl; subst it0. exact Ec0.
  - destruct (div10_pos g Hg) as [D1 _]. cbn [length] in Hlen.
    destruct n as [|n']; [lia|].
    pose proof (pv_run_nonempty n' rows perm bg score _ D1) as Hne.
    rewrite (last_cons_ne (Ok it0) _ d d Hne) in Hl.
    apply (IH rows perm bg score _ it d D1); [lia|exact Hl].
Qed.

Lemma last_nth_error {A} (l : list A) d i : length l = S i -> nth_error l i = Some (last l d).
Proof.
  revert i. induction l as [|x r IH]; intros i H; [discriminate|].
  destruct r as [|y r'].
  - simpl in H. inversion H; subst i. reflexivity.
  - destruct i as [|i']; [simpl in H; lia|].
    change (last (x :: y :: r') d) with (last (y :: r') d).
    cbn [nth_error]. apply IH. simpl in *; lia.
Qed.

(* termination: when every attainable score is at distance >= delta from the query and
   (M+1) 10^-(i+1) < delta, i+1 calls of next() are enough: with any fuel > i, pvalue() has
   returned a value -- unless its last call of next() failed (a panic of the model) *)
Theorem pvalue_fuel_terminates : forall fuel rows perm bg K score delta i,
  matrix_ok K rows bg -> (2 <= length rows)%nat -> length perm = length rows ->
  let M := inject_Z (Z.of_nat (length rows)) in
  let cs := perm_cells rows perm in
  (forall l, attain l (srows cs bg) -> Qsum l <= score - delta \/ score + delta <= Qsum l) ->
  (M + 1) * ((1 # 10) / pow10 i) < delta ->
  (i < fuel)%nat ->
  (length (pv_run NumQ fuel rows perm bg score (1 # 10)) <= S i)%nat /\
  ((exists p, pvalue_fuel NumQ fuel rows perm bg score = Ok p) \/
   (forall it, last (pv_run NumQ fuel rows perm bg score (1 # 10)) OutOfFuel <> Ok it)).
Proof.
  intros fuel rows perm bg K score delta i Hok HM Hperm M cs Hgap Hd Hi.
  pose proof (pv_run_length_gap fuel rows perm bg K score delta i Hok HM Hperm Hgap Hd) as Hlen.
  split; [exact Hlen|].
  unfold pvalue_fuel, final_of_run. change (n_tenth NumQ) with (1 # 10).
  set (run := pv_run NumQ fuel rows perm bg score (1 # 10)) in *.
  destruct (last run OutOfFuel) as [it| | |] eqn:El; try (right; intros it' E; discriminate).
  left.
  assert (Hc : io_conv it = true).
  { destruct (Nat.lt_ge_cases (length run) fuel) as [Hlt|Hge].
    - apply (pv_run_short fuel rows perm bg score (1 # 10) it OutOfFuel); [reflexivity|exact Hlt|exact El].
    - assert (Hle : length run = S i) by lia.
      assert (Hn : nth_error run i = Some (Ok it)) by (rewrite <- El; apply last_nth_error; exact Hle).
      assert (Hiso : forall l, attain l (srows cs bg) ->
                     ~ (score - (M + 1) * ((1 # 10) / pow10 i) <= Qsum l /\ Qsum l < score + M * ((1 # 10) / pow10 i))).
      { intros l Hl [H1 H2]. pose proof (gran_pos i) as Hgi.
        assert (HM0 : 0 <= M) by (unfold M; change 0 with (inject_Z 0); rewrite <- Zle_Qle; lia).
        set (gi := (1 # 10) / pow10 i) in *. destruct (Hgap l Hl) as [A|A]; nra. }
      exact (pv_run_converged_at fuel rows perm bg K score i it Hok HM Hperm Hn Hiso). }
  rewrite Hc. cbn [rbind]. eexists; reflexivity.
Qed.
