(* Unreachable panic sites of lookup_pvalue / lookup_score (TfmModel.v).

   The model makes every `unwrap()` / indexing of lib.rs an explicit [Panic n].  This
   file shows, from the structure of the tables alone (no arithmetic facts: the lemmas
   hold for an arbitrary [N : NumOps T]), that
     - site 25 (lookup_pvalue: position(..).unwrap(), pvalues[&key]) is unreachable;
     - sites 30 and 32 (lookup_score: keys.len() - 1, pvalues[&key]) are unreachable;
     - site 31 (lookup_score: keys[riter + 1]) is reached exactly when the loop leaves
       at its very first iteration with sum > pvalue (riter = keys.len() - 1). *)
From Coq Require Import ZArith QArith List Bool Lia Lqa.
From LMBase Require Import Res ListX.
From LMTfm Require Import TfmNum TfmModel TfmSpec TfmProofs TfmScore.
Import ListNotations.
Open Scope Z_scope.

(* ------------------------------------------------------------------ *)
(** * Panics of a bind *)

Lemma rbind_panic {A B} (e : res A) (k : A -> res B) n :
  rbind e k = Panic n -> e = Panic n \/ exists a, e = Ok a /\ k a = Panic n.
Proof. destruct e; simpl; intros H; try discriminate; [right; eauto|left; inversion H; reflexivity]. Qed.

Lemma rall_panic {A} (l : list (res A)) n :
  rall l = Panic n -> In (Panic n) l.
Proof.
  induction l as [|x r IH]; simpl; intros H; [discriminate|].
  apply rbind_panic in H. destruct H as [H|[a [Ea H]]]; [left; exact H|].
  apply rbind_panic in H. destruct H as [H|[t [Et H]]]; [right; auto|discriminate].
Qed.

Lemma sum_i64_panic site acc l n : sum_i64 site acc l = Panic n -> n = site.
Proof.
  revert acc; induction l as [|x r IH]; intros acc; simpl; [discriminate|].
  destruct (in_i64 (acc + x)); [apply IH|]. intros H; inversion H; reflexivity.
Qed.

(* ------------------------------------------------------------------ *)
(** * Generic list facts *)

Lemma last_nth_error {A} (l : list A) d :
  l <> [] -> nth_error l (length l - 1) = Some (last l d).
Proof.
  induction l as [|a r IH]; intros Hne; [congruence|].
  destruct r as [|b r']; [reflexivity|].
  specialize (IH ltac:(discriminate)).
  replace (length (a :: b :: r') - 1)%nat with (S (length (b :: r') - 1))%nat by (simpl; lia).
  cbn [nth_error]. rewrite IH. reflexivity.
Qed.

Section Total.
  Context {T : Type} (N : NumOps T).

  (* ---------------------------------------------------------------- *)
  (** * Key sets of finite maps *)

  Lemma fm_get_key k (m : fmap (T:=T)) : In k (map fst m) -> fm_get k m <> None.
  Proof.
    induction m as [|[k' v'] r IH]; simpl; [tauto|].
    intros [E|Hin].
    - subst k'. rewrite Z.eqb_refl. discriminate.
    - destruct (k =? k'); [discriminate|auto].
  Qed.

  Lemma fm_get_key_inv k (m : fmap (T:=T)) : fm_get k m <> None -> In k (map fst m).
  Proof.
    induction m as [|[k' v'] r IH]; simpl; [tauto|].
    destruct (Z.eqb_spec k k') as [->|Hne]; [left; reflexivity|right; auto].
  Qed.

  Lemma fm_set_keys j k v (m : fmap (T:=T)) :
    In j (map fst (fm_set k v m)) <-> j = k \/ In j (map fst m).
  Proof.
    induction m as [|[k' v'] r IH]; cbn [fm_set].
    - simpl. intuition.
    - destruct (Z.ltb_spec k k') as [Hlt|Hge].
      + simpl. intuition.
      + destruct (Z.eqb_spec k k') as [->|Hne].
        * simpl. intuition.
        * cbn [map fst In]. rewrite IH. simpl. intuition.
  Qed.

  Lemma fm_get_set_same k v (m : fmap (T:=T)) : fm_get k (fm_set k v m) <> None.
  Proof. apply fm_get_key. apply fm_set_keys. left; reflexivity. Qed.

  Lemma fm_get_set_other j k v (m : fmap (T:=T)) :
    fm_get j m <> None -> fm_get j (fm_set k v m) <> None.
  Proof. intros H. apply fm_get_key. apply fm_set_keys. right. apply fm_get_key_inv. exact H. Qed.

  Lemma fm_set_nonempty k v (m : fmap (T:=T)) : fm_set k v m <> [].
  Proof.
    destruct m as [|[k' v'] r]; cbn [fm_set]; [discriminate|].
    destruct (k <? k'); [discriminate|]. destruct (k =? k'); discriminate.
  Qed.

  Lemma cum_desc_keys_gen sum (d : fmap (T:=T)) : map fst (cum_desc N sum d) = map fst d.
  Proof. revert sum; induction d as [|[k v] r IH]; intros sum; simpl; [reflexivity|]. rewrite IH. reflexivity. Qed.

  Lemma walk_down_nonempty thr (d : fmap (T:=T)) : d <> [] -> walk_down N thr d <> None.
  Proof.
    induction d as [|kv r IH]; intros Hne; [congruence|].
    cbn [walk_down]. destruct r as [|kv' r']; [discriminate|].
    destruct (ge N (n_ofZ N (fst kv)) thr); [apply IH; discriminate|discriminate].
  Qed.

  (* ---------------------------------------------------------------- *)
  (** * The tables returned by distribution *)

  Lemma distribution_last G bg mn mx rows :
    distribution N G bg mn mx = Ok rows ->
    exists cur bucket, last rows [] = fm_set (mx + 1) bucket cur.
  Proof.
    unfold distribution. destruct (g_int G) as [|irow0 irows]; [discriminate|].
    destruct (negb _); [discriminate|]. destruct (mx =? i64_max); [discriminate|].
    destruct (dist_loop _ _ _ _ _ _ _ _) as [[acc cur] bucket].
    intros H; inversion H; subst rows. exists cur, bucket. apply last_last.
  Qed.

  Lemma distribution_panic G bg mn mx n :
    distribution N G bg mn mx = Panic n -> (n = 22 \/ n = 23 \/ n = 24)%nat.
  Proof.
    unfold distribution. destruct (g_int G) as [|irow0 irows]; [intros H; inversion H; auto|].
    destruct (negb _); [intros H; inversion H; auto|].
    destruct (mx =? i64_max); [intros H; inversion H; auto|].
    destruct (dist_loop _ _ _ _ _ _ _ _) as [[acc cur] bucket]. discriminate.
  Qed.

  (* ---------------------------------------------------------------- *)
  (** * lookup_pvalue: site 25 is unreachable *)

  Theorem lookup_pvalue_never_25_gen G bg score : lookup_pvalue N G bg score <> Panic 25.
  Proof.
    unfold lookup_pvalue. destruct (n_isnan N (g_gran G)); [discriminate|].
    intros H. apply rbind_panic in H. destruct H as [H|[osum [_ H]]].
    { apply sum_i64_panic in H. discriminate. }
    set (scaled := n_add N (n_div N score (g_gran G)) (n_ofZ N osum)) in *.
    set (avg := n_floorZ N scaled) in *.
    set (mx := n_floorZ N (n_add N (n_add N scaled (g_emax G)) (n_one N))) in *.
    set (mn := n_floorZ N (n_sub N (n_sub N scaled (g_emax G)) (n_one N))) in *.
    clearbody mn mx avg.
    apply rbind_panic in H. destruct H as [H|[rows [Hd H]]].
    { apply distribution_panic in H. lia. }
    destruct (distribution_last _ _ _ _ _ Hd) as [cur [bucket Hlast]].
    set (lastm := last rows []) in *.
    set (pvd := cum_desc N (n_zero N) (rev lastm)) in *.
    set (pva := rev pvd) in *.
    set (s := match find _ pva with Some kv => fst kv | None => mx + 1 end) in *.
    assert (Hkeys : forall k, In k (map fst pva) <-> In k (map fst lastm)).
    { intros k. unfold pva, pvd. rewrite map_rev, cum_desc_keys_gen, map_rev, rev_involutive. reflexivity. }
    assert (Hs : In s (map fst pva)).
    { unfold s. destruct (find _ pva) as [kv|] eqn:Ef.
      - apply find_some in Ef. apply in_map. apply Ef.
      - apply Hkeys. rewrite Hlast. apply fm_set_keys. left; reflexivity. }
    destruct (fm_get s pva) as [pmin|] eqn:Eg; [|apply fm_get_key in Hs; congruence].
    destruct (walk_down _ _ _) as [kv|] eqn:Ew; [discriminate|].
    revert Ew. apply walk_down_nonempty.
    apply fm_get_in in Eg. unfold pva in Eg. apply in_rev in Eg.
    assert (Hf : In (s, pmin) (filter (fun kv : Z * T => fst kv <=? s) pvd)).
    { apply filter_In. split; [exact Eg|]. simpl. apply Z.leb_refl. }
    intros E. rewrite E in Hf. exact Hf.
  Qed.

  (* ---------------------------------------------------------------- *)
  (** * Panics of recompute and of PvaluesIterator::next *)

  Lemma recompute_panic rows perm g n :
    recompute N rows perm g = Panic n -> (10 <= n <= 15)%nat.
  Proof.
    unfold recompute. destruct (negb _); [intros H; inversion H; lia|].
    intros H. apply rbind_panic in H. destruct H as [H|[prow [_ H]]].
    { unfold permuted_rows in H. apply rall_panic in H. apply in_map_iff in H.
      destruct H as [q [H _]]. destruct (nth_error rows q); inversion H. lia. }
    apply rbind_panic in H. destruct H as [H|[em [_ H]]].
    { revert H. generalize (n_zero N). generalize (tl (combine prow (map (raw_int_row N g) prow))).
      induction l as [|[row ir] r IH]; intros acc H; cbn [error_max_from] in H; [discriminate|].
      apply rbind_panic in H. destruct H as [H|[e [_ H]]]; [|eauto].
      unfold row_max_err in H. destruct (row_errs _ _ _ _); inversion H. lia. }
    apply rbind_panic in H. destruct H as [H|[offs [_ H]]].
    { apply rall_panic in H. apply in_map_iff in H. destruct H as [ir [H _]].
      unfold offset_row in H. apply rbind_panic in H. destruct H as [H|[m [_ H]]].
      - destruct ir; inversion H. lia.
      - destruct (m =? i64_min); [inversion H; lia|]. destruct (forallb _ _); inversion H. lia. }
    apply rbind_panic in H. destruct H as [H|[minr [_ H]]].
    { apply rall_panic in H. apply in_map_iff in H. destruct H as [ir [H _]].
      destruct ir; inversion H. lia. }
    apply rbind_panic in H. destruct H as [H|[maxr [_ H]]]; [|discriminate].
    apply rall_panic in H. apply in_map_iff in H. destruct H as [ir [H _]].
    destruct ir; inversion H. lia.
  Qed.

  Lemma pv_next_panics_gen rows perm bg score g n :
    pv_next N rows perm bg score g = Panic n -> n <> 25%nat.
  Proof.
    unfold pv_next. intros H. apply rbind_panic in H. destruct H as [H|[G [_ H]]].
    { apply recompute_panic in H. lia. }
    apply rbind_panic in H. destruct H as [H|[o [_ H]]]; [|discriminate].
    intros ->. exact (lookup_pvalue_never_25_gen _ _ _ H).
  Qed.

  (* ---------------------------------------------------------------- *)
  (** * lookup_score *)

  Lemma gt_ge a b : gt N a b = true -> ge N a b = true.
  Proof. unfold gt, ge. destruct (n_cmp N a b) as [[| |]|]; auto. Qed.

  Lemma key_at_lt (lastm : fmap (T:=T)) i site :
    (i < length lastm)%nat -> exists kv, nth_error lastm i = Some kv /\ key_at lastm i site = Ok (fst kv).
  Proof.
    intros H. unfold key_at. destruct (nth_error lastm i) as [kv|] eqn:E.
    - exists kv. auto.
    - apply nth_error_None in E. lia.
  Qed.

  Lemma key_at_beyond (lastm : fmap (T:=T)) i site :
    (length lastm <= i)%nat -> key_at lastm i site = Panic site.
  Proof. intros H. unfold key_at. apply nth_error_None in H. rewrite H. reflexivity. Qed.

  Lemma key_at_Ok (lastm : fmap (T:=T)) i site k :
    key_at lastm i site = Ok k -> exists kv, nth_error lastm i = Some kv /\ fst kv = k.
  Proof.
    unfold key_at. destruct (nth_error lastm i) as [kv|]; [|discriminate].
    intros H; inversion H. eauto.
  Qed.

  (* the loop never indexes out of bounds when started inside the table *)
  Lemma ls_loop_panic p (lastm : fmap (T:=T)) : forall riter sum pvs n,
    ls_loop N p lastm riter sum pvs = Panic n -> (length lastm <= riter)%nat.
  Proof.
    induction riter as [|r IH]; intros sum pvs n H; cbn [ls_loop] in H; [discriminate|].
    destruct (nth_error lastm (S r)) as [[k q]|] eqn:En.
    - destruct (ge N _ p); [discriminate|]. apply IH in H. lia.
    - apply nth_error_None in En. exact En.
  Qed.

  (* key set of `pvalues` when the loop is left, and how it was left *)
  Lemma ls_loop_inv p (lastm : fmap (T:=T)) : forall riter sum pvs r' sum' pvs',
    ls_loop N p lastm riter sum pvs = Ok (r', sum', pvs') ->
    (r' <= riter)%nat /\
    (forall j, fm_get j pvs <> None -> fm_get j pvs' <> None) /\
    (forall i kv, (r' <= i <= riter)%nat -> (1 <= i)%nat -> nth_error lastm i = Some kv ->
                  fm_get (fst kv) pvs' <> None) /\
    (r' = riter ->
       (riter = 0%nat /\ sum' = sum /\ pvs' = pvs) \/
       ((1 <= riter)%nat /\ exists k q, nth_error lastm riter = Some (k, q) /\
                                        sum' = n_add N sum q /\ ge N sum' p = true)) /\
    (r' = 0%nat -> (riter = 0%nat /\ sum' = sum /\ pvs' = pvs) \/ ge N sum' p = false).
  Proof.
    induction riter as [|r IH]; intros sum pvs r' sum' pvs' H; cbn [ls_loop] in H.
    - inversion H; subst. repeat split; auto. intros i kv Hi H1. lia.
    - destruct (nth_error lastm (S r)) as [[k q]|] eqn:En; [|discriminate].
      destruct (ge N (n_add N sum q) p) eqn:Eg.
      + inversion H; subst. split; [lia|]. split; [intros j; apply fm_get_set_other|].
        split; [|split].
        * intros i kv Hi H1 Hn. assert (i = S r) by lia. subst i. rewrite En in Hn. inversion Hn; subst.
          apply fm_get_set_same.
        * intros _. right. split; [lia|]. exists k, q. auto.
        * discriminate.
      + destruct (IH _ _ _ _ _ H) as [A1 [A2 [A3 [A4 A5]]]].
        split; [lia|]. split; [intros j Hj; apply A2; apply fm_get_set_other; exact Hj|].
        split; [|split].
        * intros i kv Hi H1 Hn. destruct (Nat.eq_dec i (S r)) as [->|Hne].
          -- rewrite En in Hn. inversion Hn; subst. apply A2. apply fm_get_set_same.
          -- apply (A3 i kv); auto. lia.
        * intros E. lia.
        * intros E. right. destruct (A5 E) as [[B1 [B2 B3]]|B]; [subst; exact Eg|exact B].
  Qed.

  (* the loop is left at its very first iteration with sum > pvalue (or is not entered
     at all, for a one-entry table, with 0 > pvalue) *)
  Definition first_exit (p : T) (lastm : fmap (T:=T)) : Prop :=
    (length lastm = 1%nat /\ gt N (n_zero N) p = true) \/
    ((2 <= length lastm)%nat /\
     gt N (n_add N (n_zero N) (snd (last lastm (0, n_zero N)))) p = true).

  Theorem lookup_score_panic_gen G bg p mn mx n :
    lookup_score N G bg p mn mx = Panic n ->
    (n = 20%nat /\ n_isnan N (g_gran G) = true) \/
    distribution N G bg mn mx = Panic n \/
    (n = 31%nat /\ exists rowsq, distribution N G bg mn mx = Ok rowsq /\ first_exit p (last rowsq [])).
  Proof.
    unfold lookup_score. destruct (n_isnan N (g_gran G)) eqn:Enan.
    { intros H; inversion H. left; auto. }
    intros H. right. apply rbind_panic in H. destruct H as [H|[rowsq [Hd H]]]; [left; exact H|].
    right.
    destruct (distribution_last _ _ _ _ _ Hd) as [cur [bucket Hlast]].
    set (lastm := last rowsq []) in *.
    assert (Hne : lastm <> []) by (rewrite Hlast; apply fm_set_nonempty).
    destruct (length lastm) as [|top] eqn:Elen.
    { destruct lastm; [congruence|discriminate]. }
    apply rbind_panic in H. destruct H as [H|[[[riter sum] pvs] [Hloop H]]].
    { apply ls_loop_panic in H. lia. }
    destruct (ls_loop_inv _ _ _ _ _ _ _ _ Hloop) as [I1 [I2 [I3 [I4 I5]]]].
    apply rbind_panic in H. destruct H as [H|[[[[a ae] pvs'] exh] [Hsel H]]].
    - (* the choice of alpha: only keys[riter + 1] can be out of bounds *)
      destruct (gt N sum p) eqn:Hgt.
      + destruct (key_at_lt lastm riter 31) as [kv0 [En0 Ek0]]; [lia|].
        rewrite Ek0 in H. cbn [rbind] in H.
        destruct (Nat.lt_ge_cases (S riter) (length lastm)) as [Hin|Hout].
        * destruct (key_at_lt lastm (S riter) 31 Hin) as [kv1 [En1 Ek1]].
          rewrite Ek1 in H. discriminate.
        * rewrite (key_at_beyond _ _ _ Hout) in H. inversion H. split; [reflexivity|].
          exists rowsq. split; [exact Hd|]. fold lastm.
          assert (Er : riter = top) by lia.
          destruct (I4 Er) as [[B1 [B2 B3]]|[B1 [k [q [B2 [B3 B4]]]]]].
          -- left. split; [lia|]. subst sum. exact Hgt.
          -- right. split; [lia|].
             pose proof (last_nth_error lastm (0, n_zero N) Hne) as Hl.
             replace (length lastm - 1)%nat with top in Hl by lia.
             rewrite B2 in Hl. inversion Hl as [Hl']. cbn [snd].
             rewrite <- B3. exact Hgt.
      + destruct riter as [|r].
        * destruct (key_at_lt lastm 0 31) as [kv0 [En0 Ek0]]; [lia|].
          rewrite Ek0 in H. discriminate.
        * destruct (key_at_lt lastm (S r) 31) as [kv0 [En0 Ek0]]; [lia|].
          destruct (key_at_lt lastm r 31) as [kv1 [En1 Ek1]]; [lia|].
          rewrite Ek0 in H. cbn [rbind] in H. rewrite Ek1 in H. discriminate.
    - (* pvalues[&alpha], pvalues[&alpha_e]: both keys have been inserted *)
      exfalso.
      assert (Hkeys : fm_get a pvs' <> None /\ fm_get ae pvs' <> None).
      { destruct (gt N sum p) eqn:Hgt.
        - apply rbind_ok in Hsel. destruct Hsel as [ae0 [Hae Hsel]].
          apply rbind_ok in Hsel. destruct Hsel as [a0 [Ha Hsel]].
          inversion Hsel; subst a0 ae0 pvs' exh; clear Hsel.
          apply key_at_Ok in Ha. destruct Ha as [kva [Hna Ea]].
          apply key_at_Ok in Hae. destruct Hae as [kve [Hne' Ee]].
          assert (HS : (S riter < length lastm)%nat) by (apply nth_error_Some; congruence).
          split.
          + rewrite <- Ea. apply (I3 (S riter) kva); auto; lia.
          + rewrite <- Ee. destruct riter as [|r].
            * destruct (I5 eq_refl) as [[B1 _]|B]; [lia|].
              apply gt_ge in Hgt. congruence.
            * apply (I3 (S r) kve); auto; lia.
        - destruct riter as [|r].
          + apply rbind_ok in Hsel. destruct Hsel as [a0 [Ha Hsel]].
            inversion Hsel; subst. split; apply fm_get_set_same.
          + apply rbind_ok in Hsel. destruct Hsel as [a0 [Ha Hsel]].
            apply rbind_ok in Hsel. destruct Hsel as [ae0 [Hae Hsel]].
            inversion Hsel; subst a0 ae0 pvs' exh; clear Hsel.
            apply key_at_Ok in Ha. destruct Ha as [kva [Hna Ea]].
            split; [|apply fm_get_set_same].
            apply fm_get_set_other. rewrite <- Ea. apply (I3 (S r) kva); auto; lia. }
      destruct Hkeys as [Ka Ke]. unfold pv_at in H.
      destruct (fm_get a pvs') as [pa|]; [|congruence]. cbn [rbind] in H.
      destruct (gt N (n_ofZ N (a - ae)) (g_emax G)); [discriminate|].
      destruct (fm_get ae pvs') as [pe|]; [discriminate|congruence].
  Qed.

  (* conversely, leaving the loop at its first iteration with sum > pvalue does panic *)
  Theorem lookup_score_first_exit_panics G bg p mn mx rowsq :
    n_isnan N (g_gran G) = false ->
    distribution N G bg mn mx = Ok rowsq ->
    first_exit p (last rowsq []) ->
    lookup_score N G bg p mn mx = Panic 31.
  Proof.
    intros Enan Hd Hfe. unfold lookup_score. rewrite Enan, Hd. cbn [rbind].
    set (lastm := last rowsq []) in *.
    destruct Hfe as [[Hlen Hgt]|[Hlen Hgt]].
    - rewrite Hlen. cbn [ls_loop rbind]. rewrite Hgt.
      destruct (key_at_lt lastm 0 31) as [kv0 [_ Ek0]]; [lia|]. rewrite Ek0. cbn [rbind].
      rewrite key_at_beyond by lia. reflexivity.
    - assert (Hne : lastm <> []) by (intros E; rewrite E in Hlen; simpl in Hlen; lia).
      pose proof (last_nth_error lastm (0, n_zero N) Hne) as Hl.
      destruct (length lastm) as [|[|t]] eqn:Elen; [lia|lia|].
      replace (S (S t) - 1)%nat with (S t) in Hl by lia.
      cbn [ls_loop]. rewrite Hl.
      destruct (last lastm (0, n_zero N)) as [kb vb]. cbn [snd] in Hgt.
      rewrite (gt_ge _ _ Hgt). cbn [rbind]. rewrite Hgt.
      destruct (key_at_lt lastm (S t) 31) as [kv0 [_ Ek0]]; [lia|]. rewrite Ek0. cbn [rbind].
      rewrite key_at_beyond by lia. reflexivity.
  Qed.

  Corollary lookup_score_never_30_32_gen G bg p mn mx n :
    lookup_score N G bg p mn mx = Panic n ->
    (n = 20 \/ n = 22 \/ n = 23 \/ n = 24 \/ n = 31)%nat.
  Proof.
    intros H. apply lookup_score_panic_gen in H.
    destruct H as [[H _]|[H|[H _]]]; [lia| |lia].
    apply distribution_panic in H. lia.
  Qed.

  (* ScoresIterator::next *)
  Corollary sc_next_panics_gen rows perm bg p g win n :
    sc_next N rows perm bg p g win = Panic n -> (n <> 25 /\ n <> 30 /\ n <> 32)%nat.
  Proof.
    unfold sc_next. intros H. apply rbind_panic in H. destruct H as [H|[G [_ H]]].
    { apply recompute_panic in H. lia. }
    apply rbind_panic in H. destruct H as [H|[o [_ H]]].
    { apply lookup_score_never_30_32_gen in H. lia. }
    apply rbind_panic in H. destruct H as [H|[osum [_ H]]].
    { apply sum_i64_panic in H. lia. }
    destruct (negb _); inversion H. lia.
  Qed.

End Total.

Theorem lookup_pvalue_never_25 : forall G bg score, lookup_pvalue NumQ G bg score <> Panic 25.
Proof. apply lookup_pvalue_never_25_gen. Qed.

Corollary pv_next_panics rows perm bg score g n :
  pv_next NumQ rows perm bg score g = Panic n -> n <> 25%nat.
Proof. apply pv_next_panics_gen. Qed.

(* ------------------------------------------------------------------ *)
(** * lookup_score in exact arithmetic *)

Open Scope Q_scope.

(* the loop of lookup_score is left at its first iteration with sum > pvalue: the value
   stored under the largest key (the overflow key max + 1: the mass above the window)
   already exceeds pvalue; for a table with that single entry the loop is not entered and
   the test is 0 > pvalue *)
Definition first_exitQ (p : Q) (lastm : list (Z * Q)) : Prop :=
  (length lastm = 1%nat /\ p < 0) \/
  ((2 <= length lastm)%nat /\ exists kb vb, last lastm (0%Z, 0) = (kb, vb) /\ p < vb).

Lemma first_exit_Q p lastm : first_exit NumQ p lastm <-> first_exitQ p lastm.
Proof.
  unfold first_exit, first_exitQ. cbn [NumQ n_zero n_add]. rewrite !gtQ.
  destruct (last lastm (0%Z, 0)) as [kb vb]. cbn [snd]. split.
  - intros [H|[H1 H2]]; [left; exact H|right]. split; [exact H1|]. exists kb, vb. split; [reflexivity|lra].
  - intros [H|[H1 [kb' [vb' [E H2]]]]]; [left; exact H|right]. inversion E; subst. split; [exact H1|lra].
Qed.

(* sites 20, 30 and 32 are unreachable; site 31 is reached only through [first_exitQ] *)
Theorem lookup_score_panic_sites G bg p mn mx n :
  lookup_score NumQ G bg p mn mx = Panic n ->
  distribution NumQ G bg mn mx = Panic n \/
  (n = 31%nat /\ exists rowsq, distribution NumQ G bg mn mx = Ok rowsq /\ first_exitQ p (last rowsq [])).
Proof.
  intros H. apply lookup_score_panic_gen in H.
  destruct H as [[_ H]|[H|[H [rowsq [Hd Hfe]]]]]; [discriminate|left; exact H|right].
  split; [exact H|]. exists rowsq. split; [exact Hd|]. apply first_exit_Q. exact Hfe.
Qed.

(* for a p-value 0 <= p: the form with the value under the last key only *)
Corollary lookup_score_panic_sites_nonneg G bg p mn mx n :
  0 <= p ->
  lookup_score NumQ G bg p mn mx = Panic n ->
  distribution NumQ G bg mn mx = Panic n \/
  (n = 31%nat /\ exists rowsq, distribution NumQ G bg mn mx = Ok rowsq /\
     exists kb vb, last (last rowsq []) (0%Z, 0) = (kb, vb) /\ p < vb).
Proof.
  intros Hp H. apply lookup_score_panic_sites in H.
  destruct H as [H|[H [rowsq [Hd [[_ Hfe]|[_ Hfe]]]]]]; [left; exact H|lra|right].
  split; [exact H|]. exists rowsq. split; [exact Hd|exact Hfe].
Qed.

Corollary lookup_score_never_30_32 G bg p mn mx n :
  lookup_score NumQ G bg p mn mx = Panic n -> (n = 22 \/ n = 23 \/ n = 24 \/ n = 31)%nat.
Proof.
  intros H. apply lookup_score_panic_sites in H. destruct H as [H|[H _]]; [|lia].
  apply distribution_panic in H. lia.
Qed.

(* the characterisation of site 31 is exact *)
Theorem lookup_score_panic_31_iff G bg p mn mx rowsq :
  distribution NumQ G bg mn mx = Ok rowsq ->
  (lookup_score NumQ G bg p mn mx = Panic 31 <-> first_exitQ p (last rowsq [])).
Proof.
  intros Hd. split.
  - intros H. apply lookup_score_panic_sites in H.
    destruct H as [H|[_ [rowsq' [Hd' Hfe]]]]; [congruence|].
    rewrite Hd in Hd'. inversion Hd'; subst. exact Hfe.
  - intros Hfe. apply (lookup_score_first_exit_panics NumQ G bg p mn mx rowsq); auto.
    apply first_exit_Q. exact Hfe.
Qed.

Corollary lookup_score_panic_31_converse G bg p mn mx rowsq kb vb :
  distribution NumQ G bg mn mx = Ok rowsq ->
  (2 <= length (last rowsq []))%nat ->
  last (last rowsq []) (0%Z, 0) = (kb, vb) -> p < vb ->
  lookup_score NumQ G bg p mn mx = Panic 31.
Proof.
  intros Hd Hlen Hl Hp. apply (lookup_score_panic_31_iff G bg p mn mx rowsq Hd).
  right. split; [exact Hlen|]. exists kb, vb. auto.
Qed.

Corollary sc_next_panics rows perm bg p g win n :
  sc_next NumQ rows perm bg p g win = Panic n -> (n <> 25 /\ n <> 30 /\ n <> 32)%nat.
Proof. apply sc_next_panics_gen. Qed.
