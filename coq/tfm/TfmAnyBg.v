(* Totality of PvaluesIterator::next does not depend on the background at all (exact arithmetic): any list [bg], with or
   without wildcard mass, normalised or not *)
From Coq Require Import ZArith QArith Qround Qabs List Bool Lia Lqa Permutation.
From LMBase Require Import Res ListX.
From LMTfm Require Import TfmNum TfmModel TfmSpec TfmProofs TfmScore TfmRun TfmTotal TfmLink TfmOverflow TfmConverge TfmClosed TfmTotality.
Import ListNotations.
Open Scope Q_scope.

Lemma shape_ok_Q K (rows : list (list Q)) perm (g : Q) :
  (2 <= K)%nat -> Forall (fun r => length r = K) rows -> (1 <= length rows)%nat ->
  Permutation perm (seq 0 (length rows)) -> g < 1 ->
  shape_ok NumQ rows perm g.
Proof.
  intros HK Hlen HM Hperm Hg1. split; [apply ltQ; exact Hg1|]. split; [reflexivity|].
  split; [apply perm_in_range; exact Hperm|]. split.
  { intros E. subst perm. apply Permutation_nil in Hperm. destruct rows; [simpl in HM; lia|discriminate]. }
  intros r Hr. rewrite Forall_forall in Hlen. specialize (Hlen r Hr).
  unfold cells. destruct r as [|a [|b r']]; cbn [length] in Hlen; [lia|lia|]. cbn [removelast]. discriminate.
Qed.

Theorem pv_next_total_any_bg : forall K rows perm bg g score B,
  (2 <= K)%nat -> Forall (fun r => length r = K) rows -> (1 <= length rows)%nat ->
  Permutation perm (seq 0 (length rows)) ->
  0 < g -> g < 1 ->
  cells_boundedQ B rows g -> Qabs score / g <= inject_Z B ->
  ((2 * Z.of_nat (length rows) + 1) * B + Z.of_nat (length rows) + 1 < i64_max)%Z ->
  exists it, pv_next NumQ rows perm bg score g = Ok it.
Proof.
  intros K rows perm bg g score B HK Hlen HM Hperm Hg Hg1 Hc Hs Hbig.
  pose proof (perm_length rows perm Hperm) as Hpl.
  destruct (okp_cases _ (okp_pv_next NumQ rows perm bg score g)) as [Hit|[n Hn]]; [exact Hit|exfalso].
  assert (HB : (0 <= B)%Z).
  { rewrite Zle_Qle. eapply Qle_trans; [|exact Hs]. apply Qle_shift_div_l; [exact Hg|].
    rewrite Qmult_0_l. apply Qabs_nonneg. }
  pose proof (pv_next_panic_sites_gen NumQ rows perm bg score g n (shape_ok_Q K rows perm g HK Hlen HM Hperm Hg1) Hn) as Hsites.
  rewrite <- Hpl in Hbig.
  assert (Hne : perm <> []).
  { intros E. rewrite E in Hpl. simpl in Hpl. lia. }
  pose proof (pv_next_no_overflow_closed rows perm bg score g B n HB Hne Hg Hc Hs Hbig Hn).
  lia.
Qed.
