(* Totality of approximate_score along the whole run (review of round 3, C13-1): structural sites
   (TfmTotality), i64 sites through the window invariant (TfmWindow), site 31 through adequacy (TfmAdequate). *)
From Coq Require Import ZArith QArith Qround Qabs List Bool Lia Lqa Permutation.
From LMBase Require Import Res ListX.
From LMTfm Require Import TfmNum TfmModel TfmSpec TfmProofs TfmScore TfmRun TfmTotal TfmLink TfmAdequate
  TfmOverflow TfmClosed TfmTotality TfmWindow.
Import ListNotations.
Open Scope Q_scope.

(* one step, any window: under the step bounds of C13_step_no_overflow the call returns an Iteration unless the mass
   above the window exceeds p (site 31, characterised exactly by TfmTotal.lookup_score_panic_31_iff) *)
Theorem sc_next_total_or_31 rows perm bg K p g win B :
  matrix_ok K rows bg -> (2 <= length rows)%nat -> Permutation perm (seq 0 (length rows)) ->
  0 < g -> g < 1 ->
  (0 <= B)%Z -> (2 * B <= i64_max)%Z -> (3 * Z.of_nat (length rows) * B <= i64_max)%Z ->
  cells_boundedQ B rows g ->
  (snd win < i64_max)%Z ->
  (i64_min + Z.of_nat (length rows) * B <= snd win + 1 <= i64_max - Z.of_nat (length rows) * B)%Z ->
  (exists it, sc_next NumQ rows perm bg p g win = Ok it) \/ sc_next NumQ rows perm bg p g win = Panic 31.
Proof.
  intros Hok HM Hperm Hg Hg1 HB H2 H3 Hc Hw Hw2.
  pose proof (perm_length rows perm Hperm) as Hpl. rewrite <- Hpl in H3, Hw2.
  destruct (okp_cases _ (okp_sc_next NumQ rows perm bg p g win)) as [Hit|[n Hn]]; [left; exact Hit|right].
  pose proof (sc_next_panic_sites _ _ _ _ _ _ _ _ Hok HM Hperm Hg1 Hn) as Hs.
  pose proof (sc_next_no_overflow_Q rows perm bg p g win B n HB H2 H3 Hg Hc Hw Hw2 Hn) as Hno.
  assert (n = 31%nat) by lia. subst n. exact Hn.
Qed.

(* ... and the step that follows an adequate step (the invariant of approximate_score) returns an Iteration *)
Theorem sc_next_total_after_adequate rows perm bg K p g win it B :
  matrix_ok K rows bg -> (2 <= length rows)%nat -> Permutation perm (seq 0 (length rows)) ->
  0 < g -> g < 1 -> 0 < p -> (fst win <= snd win + 1)%Z ->
  sc_next NumQ rows perm bg p g win = Ok it -> adequate it ->
  (0 <= B)%Z -> (2 * B <= i64_max)%Z -> (3 * Z.of_nat (length rows) * B <= i64_max)%Z ->
  cells_boundedQ B rows (g / 10) ->
  (snd (io_win it) < i64_max)%Z ->
  (i64_min + Z.of_nat (length rows) * B <= snd (io_win it) + 1 <= i64_max - Z.of_nat (length rows) * B)%Z ->
  exists it', sc_next NumQ rows perm bg p (g / 10) (io_win it) = Ok it'.
Proof.
  intros Hok HM Hperm Hg Hg1 Hp Hwin Hit Had HB H2 H3 Hc Hw Hw2.
  assert (Hg10 : 0 < g / 10 /\ g / 10 < 1).
  { split; [apply Qlt_shift_div_l; lra|apply Qlt_shift_div_r; lra]. }
  destruct Hg10 as [Hg0 Hg01].
  destruct (sc_next_total_or_31 rows perm bg K p (g / 10) (io_win it) B Hok HM Hperm Hg0 Hg01 HB H2 H3 Hc Hw Hw2)
    as [Hok'|H31]; [exact Hok'|exfalso].
  exact (sc_next_no_panic31 rows perm bg K p g win it Hok HM (perm_length rows perm Hperm) Hg Hp Hwin Hit Had H31).
Qed.

(* approximate_score(): recompute(0.1) and the initial window succeed *)
Theorem score_window0_total rows perm bg K B0 :
  matrix_ok K rows bg -> (2 <= length rows)%nat -> Permutation perm (seq 0 (length rows)) ->
  (0 <= B0)%Z -> cells_boundedQ B0 rows (1 # 10) ->
  (2 * Z.of_nat (length rows) * B0 + Z.of_nat (length rows) <= i64_max)%Z ->
  exists win, score_window0 NumQ rows perm = Ok win.
Proof.
  intros Hok HM Hperm HB Hc Hb.
  pose proof (perm_length rows perm Hperm) as Hpl. rewrite <- Hpl in Hb.
  destruct (okp_cases _ (okp_score_window0 NumQ rows perm)) as [Hw|[n Hn]]; [exact Hw|exfalso].
  pose proof (score_window0_panic_sites _ _ _ _ _ Hok Hperm Hn) as Hs.
  pose proof (score_window0_no_overflow_closed rows perm B0 n HB (perm_nonempty rows perm HM Hpl) Hc Hb Hn).
  lia.
Qed.

(* TOTALITY along the run of approximate_score(p): with |x| / 0.1 <= B0 for every symbol cell and
   (3 M B0 + 4 M) 10^(steps-1) <= i64::MAX, each of the first [steps] calls of next() returns an Iteration *)
Theorem sc_run_total : forall steps rows perm bg K p win B0,
  matrix_ok K rows bg -> (2 <= length rows)%nat -> Permutation perm (seq 0 (length rows)) ->
  0 < p -> p <= 1 ->
  (0 <= B0)%Z -> cells_boundedQ B0 rows (1 # 10) ->
  score_window0 NumQ rows perm = Ok win ->
  ((3 * Z.of_nat (length rows) * B0 + 4 * Z.of_nat (length rows)) * 10 ^ (Z.of_nat steps - 1) <= i64_max)%Z ->
  all_ok (sc_run NumQ steps rows perm bg p (1 # 10) win).
Proof.
  intros steps rows perm bg K p win B0 Hok HM Hperm Hp Hp1 HB Hc Hw Hb.
  pose proof (perm_length rows perm Hperm) as Hpl. rewrite <- Hpl in Hb.
  apply all_ok_of_no_panic; [apply okp_sc_run|]. intros n Hin.
  pose proof (sc_run_panic_sites steps rows perm bg K p (1 # 10) win n Hok HM Hperm ltac:(reflexivity) ltac:(reflexivity) Hin) as Hs.
  pose proof (sc_run_no_overflow_closed steps rows perm bg K p win B0 n Hok HM Hpl HB Hc Hw Hb Hin) as Hno.
  assert (n = 31%nat) by lia. subst n.
  exact (approximate_score_no_panic31 steps rows perm bg K p win Hok HM Hpl Hp Hp1 Hw Hin).
Qed.

Theorem approximate_score_total : forall steps rows perm bg K p B0,
  matrix_ok K rows bg -> (2 <= length rows)%nat -> Permutation perm (seq 0 (length rows)) ->
  0 < p -> p <= 1 -> (1 <= steps)%nat ->
  (0 <= B0)%Z -> cells_boundedQ B0 rows (1 # 10) ->
  ((3 * Z.of_nat (length rows) * B0 + 4 * Z.of_nat (length rows)) * 10 ^ (Z.of_nat steps - 1) <= i64_max)%Z ->
  exists win, score_window0 NumQ rows perm = Ok win /\
              all_ok (sc_run NumQ steps rows perm bg p (1 # 10) win) /\
              sc_run NumQ steps rows perm bg p (1 # 10) win <> [].
Proof.
  intros steps rows perm bg K p B0 Hok HM Hperm Hp Hp1 Hst HB Hc Hb.
  assert (Hpow : (1 <= 10 ^ (Z.of_nat steps - 1))%Z).
  { assert (0 < 10 ^ (Z.of_nat steps - 1))%Z by (apply Z.pow_pos_nonneg; lia). lia. }
  assert (HMB : (0 <= Z.of_nat (length rows) * B0)%Z) by (apply Z.mul_nonneg_nonneg; lia).
  destruct (score_window0_total rows perm bg K B0 Hok HM Hperm HB Hc) as [win Hw]; [nia|].
  exists win. split; [exact Hw|]. split.
  - apply (sc_run_total steps rows perm bg K p win B0); auto.
  - destruct steps as [|n]; [lia|]. cbn [sc_run].
    rewrite (le_pos_false (1 # 10) ltac:(reflexivity)).
    destruct (sc_next NumQ rows perm bg p (1 # 10) win); discriminate.
Qed.
