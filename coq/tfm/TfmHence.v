(* The last sentences of C12 / C13 for the value pvalue() / score() RETURNS, tied to the granularity of the
   iteration it comes from (review of round 3, C13-2, C13-3):

     - [pvalue_fuel_final] / [score_fuel_final]: the returned value is the start of the range / the score of the
       LAST iteration of the run, that iteration is converged, its granularity is 10^-(number of calls of next()),
       and the bounds of the property hold at THAT granularity (the earlier statements pvalue_fuel_bounds /
       score_fuel_bounds only say "for some gi <= 1/10");
     - [threshold_sandwich]: what the two clauses of C13 imply about the position of the threshold t among the
       attainable scores ("Hence the final threshold is, to within the final granularity, the smallest score whose
       exact p-value does not exceed p"): every attainable score whose exact p-value exceeds p lies below t + d,
       and every attainable score v whose p-value even d below v is smaller than p lies at or above t - d.
       (The strict form "P(S >= u - d) > p for the attainable u < t - d" is not a consequence of the property's
       own clauses -- clause 2 says "at least p" -- and is false when p is exactly an attainable tail.) *)
From Coq Require Import ZArith QArith Qround List Bool Lia Lqa Permutation.
From LMBase Require Import Res ListX.
From LMTfm Require Import TfmNum TfmModel TfmSpec TfmProofs TfmScore TfmRun TfmLink TfmAdequate TfmFinal TfmFinalProofs.
Import ListNotations.
Open Scope Q_scope.

Lemma last_ok_index {A} (run : list (res A)) (it : A) :
  last run OutOfFuel = Ok it -> exists i, length run = S i /\ nth_error run i = Some (Ok it).
Proof.
  intros H. destruct run as [|x r]; [discriminate|].
  exists (length r). split; [reflexivity|].
  rewrite (TfmFinalProofs.last_nth_error (x :: r) OutOfFuel (length r) eq_refl). rewrite H. reflexivity.
Qed.

Theorem pvalue_fuel_final : forall fuel rows perm bg K score p,
  matrix_ok K rows bg -> (2 <= length rows)%nat -> Permutation perm (seq 0 (length rows)) ->
  pvalue_fuel NumQ fuel rows perm bg score = Ok p ->
  let run := pv_run NumQ fuel rows perm bg score (1 # 10) in
  let M := inject_Z (Z.of_nat (length rows)) in
  exists it i,
    length run = S i /\ nth_error run i = Some (Ok it) /\ io_conv it = true /\
    p = io_start it /\ p == io_end it /\ io_gran it == (1 # 10) / pow10 i /\
    0 <= p <= 1 /\
    Ptail rows bg (score + (M + 1) * io_gran it) <= p /\ p <= Ptail rows bg (score - (M + 2) * io_gran it) /\
    (let mass := Ptail rows bg (score - (M + 2) * io_gran it) - Ptail rows bg (score + (M + 1) * io_gran it) in
     - mass <= p - Ptail rows bg score <= mass).
Proof.
  intros fuel rows perm bg K score p Hok HM Hperm H run M. unfold pvalue_fuel in H.
  apply rbind_ok in H. destruct H as [it [Hf H]]. inversion H; subst p; clear H.
  destruct (final_of_run_ok _ _ _ Hf) as [Hl Hc].
  change (n_tenth NumQ) with (1 # 10) in Hl. fold run in Hl.
  destruct (last_ok_index run it Hl) as [i [Hlen Hnth]].
  assert (Hl' : last run (Panic 0) = Ok it).
  { rewrite <- Hl. apply last_default. intros E. rewrite E in Hl. discriminate. }
  destruct (pvalue_final rows perm bg K score (1 # 10) fuel it Hok HM Hperm ltac:(reflexivity) Hl' Hc)
    as [A [B [C [D [E F]]]]].
  destruct (pvalue_final_error rows perm bg K score (1 # 10) fuel it Hok HM Hperm ltac:(reflexivity) Hl' Hc)
    as [_ G].
  exists it, i. split; [exact Hlen|]. split; [exact Hnth|]. split; [exact Hc|]. split; [reflexivity|].
  split; [exact C|]. split; [exact (pv_run_gran _ _ _ _ _ _ _ _ Hnth)|].
  split; [exact D|]. split; [exact E|]. split; [exact F|exact G].
Qed.

Theorem score_fuel_final : forall fuel rows perm bg K p t,
  matrix_ok K rows bg -> (2 <= length rows)%nat -> Permutation perm (seq 0 (length rows)) ->
  0 < p -> p <= 1 ->
  score_fuel NumQ fuel rows perm bg p = Ok t ->
  let M := inject_Z (Z.of_nat (length rows)) in
  exists win it i,
    score_window0 NumQ rows perm = Ok win /\
    let run := sc_run NumQ fuel rows perm bg p (1 # 10) win in
    length run = S i /\ nth_error run i = Some (Ok it) /\ io_conv it = true /\
    t = io_score it /\ io_gran it == (1 # 10) / pow10 i /\
    let d := (M + 2) * io_gran it in
    Ptail rows bg (t + d) <= p /\
    (forall l, attain l (srows (sym_cells rows) bg) -> Qsum l < t - d -> p <= Ptail rows bg (Qsum l - d)).
Proof.
  intros fuel rows perm bg K p t Hok HM Hperm Hp Hp1 H M. unfold score_fuel in H.
  apply rbind_ok in H. destruct H as [win [Hw H]].
  apply rbind_ok in H. destruct H as [it [Hf H]]. inversion H; subst t; clear H.
  destruct (final_of_run_ok _ _ _ Hf) as [Hl Hc].
  change (n_tenth NumQ) with (1 # 10) in Hl.
  destruct (last_ok_index _ it Hl) as [i [Hlen Hnth]].
  assert (Hl' : last (sc_run NumQ fuel rows perm bg p (1 # 10) win) (Panic 0) = Ok it).
  { rewrite <- Hl. apply last_default. intros E. rewrite E in Hl. discriminate. }
  destruct (approximate_score_final fuel rows perm bg K p win it Hok HM Hperm Hp Hp1 Hw Hl') as [A [B [C D]]].
  exists win, it, i. split; [exact Hw|]. cbv zeta.
  split; [exact Hlen|]. split; [exact Hnth|]. split; [exact Hc|]. split; [reflexivity|].
  split; [exact (sc_run_gran _ _ _ _ _ _ _ _ _ Hnth)|]. split; [exact C|exact D].
Qed.

(* "Hence": position of a threshold t that satisfies the two clauses of C13 with slack d *)
Theorem threshold_sandwich : forall rows bg p t d,
  (forall b, In b bg -> 0 <= b) ->
  Ptail rows bg (t + d) <= p ->
  (forall l, attain l (srows (sym_cells rows) bg) -> Qsum l < t - d -> p <= Ptail rows bg (Qsum l - d)) ->
  forall l, attain l (srows (sym_cells rows) bg) ->
    (p < Ptail rows bg (Qsum l) -> Qsum l < t + d) /\
    (Ptail rows bg (Qsum l - d) < p -> t - d <= Qsum l).
Proof.
  intros rows bg p t d Hbg H1 H2 l Hl. split.
  - intros Hgt. destruct (Qlt_le_dec (Qsum l) (t + d)) as [Hlt|Hge]; [exact Hlt|exfalso].
    pose proof (Ptail_antitone rows bg (t + d) (Qsum l) Hbg Hge). lra.
  - intros Hlt. destruct (Qlt_le_dec (Qsum l) (t - d)) as [Hb|Hge]; [exfalso|exact Hge].
    pose proof (H2 l Hl Hb). lra.
Qed.

Lemma matrix_ok_bg_nonneg K rows (bg : list Q) : matrix_ok K rows bg -> forall b, In b bg -> 0 <= b.
Proof. intros [_ [_ [_ [H _]]]]. exact H. Qed.

(* ... for the value score(p) returns, d = (M+2) * (granularity of the last iteration) *)
Theorem score_fuel_hence : forall fuel rows perm bg K p t,
  matrix_ok K rows bg -> (2 <= length rows)%nat -> Permutation perm (seq 0 (length rows)) ->
  0 < p -> p <= 1 ->
  score_fuel NumQ fuel rows perm bg p = Ok t ->
  let M := inject_Z (Z.of_nat (length rows)) in
  exists i, (i < fuel)%nat /\
    let d := (M + 2) * ((1 # 10) / pow10 i) in
    forall l, attain l (srows (sym_cells rows) bg) ->
      (p < Ptail rows bg (Qsum l) -> Qsum l < t + d) /\
      (Ptail rows bg (Qsum l - d) < p -> t - d <= Qsum l).
Proof.
  intros fuel rows perm bg K p t Hok HM Hperm Hp Hp1 H M.
  destruct (score_fuel_final fuel rows perm bg K p t Hok HM Hperm Hp Hp1 H)
    as [win [it [i [Hw [Hlen [Hnth [Hc [Et [Hg [C D]]]]]]]]]].
  fold M in C, D.
  exists i. split.
  { assert (Hle : (length (sc_run NumQ fuel rows perm bg p (1 # 10) win) <= fuel)%nat).
    { clear. generalize (1 # 10) win. induction fuel as [|n IH]; intros g w; cbn [sc_run]; [simpl; lia|].
      destruct (le NumQ g (n_zero NumQ)); [simpl; lia|].
      destruct (sc_next NumQ rows perm bg p g w) as [it0| | |]; try (simpl; lia).
      destruct (io_conv it0); [simpl; lia|]. cbn [length]. specialize (IH (n_div NumQ g (n_ten NumQ)) (io_win it0)). lia. }
    lia. }
  cbv zeta. intros l Hl.
  assert (Ed : (M + 2) * io_gran it == (M + 2) * ((1 # 10) / pow10 i)) by (rewrite Hg; reflexivity).
  apply (threshold_sandwich rows bg p t ((M + 2) * ((1 # 10) / pow10 i)) (matrix_ok_bg_nonneg K rows bg Hok)); [| |exact Hl].
  - rewrite <- (Ptail_comp rows bg (t + (M + 2) * io_gran it)); [exact C|]. rewrite Ed. reflexivity.
  - intros l' Hl' Hlt. rewrite <- (Ptail_comp rows bg (Qsum l' - (M + 2) * io_gran it)); [|rewrite Ed; reflexivity].
    apply D; [exact Hl'|]. rewrite Ed. exact Hlt.
Qed.
