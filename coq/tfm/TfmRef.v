(* The exact reference rows of the property checkers, computed from the binary32 input of a case
   (executable definitions only; proofs in TfmRefProofs.v).  [wrows_of mat bg] = the rows handed to
   [enum_dy] / [conv_dy] and [c12_check] / [c13_check]:
     - a symbol cell (every column but the last) must be finite: entry (exact value, frequency);
     - the wildcard cell (last column): -inf contributes nothing (a word through it never reaches a finite
       threshold); a finite one contributes an entry iff the wildcard frequency is not zero;
     - anything else (NaN, +inf, -inf symbol cell, row and background of different lengths): [None] = the
       case is outside the quantifier of C12 / C13 ("finite non-wildcard entries"). *)
From Coq Require Import ZArith List Bool.
From LMBase Require Import IEEE.
From LMTfm Require Import TfmNum TfmModel.
Import ListNotations.

Fixpoint wrow_of (row : list F32.t) (bg : list dy) : option wrow :=
  match row, bg with
  | [c], [b] =>
      match f32_to_dy c with
      | Some d => Some (if (fst b =? 0)%Z then [] else [(d, b)])
      | None => if F32.is_neg_inf c then Some [] else None
      end
  | c :: cs, b :: bs =>
      match f32_to_dy c with
      | Some d => match wrow_of cs bs with Some r => Some ((d, b) :: r) | None => None end
      | None => None
      end
  | _, _ => None
  end.

Fixpoint wrows_of (mat : list (list F32.t)) (bg : list dy) : option (list wrow) :=
  match mat with
  | [] => Some []
  | row :: rest =>
      match wrow_of row bg, wrows_of rest bg with
      | Some r, Some rs => Some (r :: rs)
      | _, _ => None
      end
  end.
