(* Model of lightmotif-tfmpvalue/src/lib.rs (TfmPvalue), executable definitions only.

   Written once over [NumOps T] (TfmNum.v).  `Vec`/slices are lists, `i64` values are
   [Z] (the places where Rust's checked arithmetic / indexing / unwrap can panic are
   explicit [Panic n] results), hash maps `IntMap<f64>` are association lists sorted
   by key without duplicate keys ([fmap]); where the code iterates over a hash map
   (unspecified order) the model iterates in key order -- this only changes the order
   in which floating-point probabilities are summed.

   A scoring matrix is a list of M rows of K cells (K-1 symbols + the wildcard
   column, last); the background is a list of K frequencies.  The row permutation
   computed by `TfmPvalue::new` with `sort_unstable_by` is an input of the model
   ([perm]); [perm_ok] is the specification of that sort (a permutation of 0..M with
   non-increasing score ranges) and [perm_stable] one admissible result.

   Panic sites:
     10 assert!(granularity < 1.0)          11 max_by(..).unwrap() on an empty row
     12 min()/max().unwrap() on empty row   13 i64 negation overflow (offsets)
     14 i64 addition overflow (int_matrix += offset)
     15 matrix[p]: permutation entry out of range
     20 assert!(!granularity.is_nan())      21 offsets.iter().sum() overflow
     22 int_matrix[0] / qvalues[M-1] with M = 0
     23 maxs[i+1] + max_score_rows[i] overflow     24 max + 1 overflow
     25 position(..).unwrap() / pvalues[&key] on a missing key (lookup_pvalue)
     30 keys.len() - 1 underflow            31 keys[riter + 1] out of bounds
     32 pvalues[&key] on a missing key (lookup_score)
     33 iscore - offset overflow            34 sum of max_score_rows overflow *)
From Coq Require Import ZArith List Bool Lia.
From LMBase Require Import Res ListX IEEE.
From LMTfm Require Import TfmNum.
Import ListNotations.
Open Scope Z_scope.

Definition i64_min : Z := -9223372036854775808.
Definition i64_max : Z := 9223372036854775807.
Definition in_i64 (z : Z) : bool := (i64_min <=? z) && (z <=? i64_max).

(* iter().sum::<i64>() with overflow checks: left-to-right from 0 *)
Fixpoint sum_i64 (site : nat) (acc : Z) (l : list Z) : res Z :=
  match l with
  | [] => Ok acc
  | x :: r => if in_i64 (acc + x) then sum_i64 site (acc + x) r else Panic site
  end.

Fixpoint zmin_from (a : Z) (l : list Z) : Z :=
  match l with [] => a | x :: r => zmin_from (Z.min a x) r end.
Fixpoint zmax_from (a : Z) (l : list Z) : Z :=
  match l with [] => a | x :: r => zmax_from (Z.max a x) r end.
Definition zmin_list (l : list Z) : res Z :=
  match l with [] => Panic 12 | x :: r => Ok (zmin_from x r) end.
Definition zmax_list (l : list Z) : res Z :=
  match l with [] => Panic 12 | x :: r => Ok (zmax_from x r) end.

(* collect results, first failure wins *)
Fixpoint rall {A} (l : list (res A)) : res (list A) :=
  match l with
  | [] => Ok []
  | x :: r => a <- x ;; t <- rall r ;; Ok (a :: t)
  end.

(* suffix sums: [suffix_sums [a;b;c] = [a+b+c; b+c; c; 0]] (the vector `maxs`) *)
Fixpoint suffix_sums (l : list Z) : list Z :=
  match l with
  | [] => [0]
  | x :: r => let s := suffix_sums r in (x + hd 0 s) :: s
  end.

Section Model.
  Context {T : Type} (N : NumOps T).

  Definition lt (a b : T) : bool := match n_cmp N a b with Some Lt => true | _ => false end.
  Definition le (a b : T) : bool := match n_cmp N a b with Some Lt | Some Eq => true | _ => false end.
  Definition gt (a b : T) : bool := match n_cmp N a b with Some Gt => true | _ => false end.
  Definition ge (a b : T) : bool := match n_cmp N a b with Some Gt | Some Eq => true | _ => false end.
  Definition feq (a b : T) : bool := match n_cmp N a b with Some Eq => true | _ => false end.

  (* ---------- finite maps i64 -> probability ---------- *)

  Definition fmap := list (Z * T).

  (* `*map.entry(k).or_default() += v` *)
  Fixpoint fm_add (k : Z) (v : T) (m : fmap) : fmap :=
    match m with
    | [] => [(k, n_add N (n_zero N) v)]
    | (k', v') :: r =>
        if k <? k' then (k, n_add N (n_zero N) v) :: m
        else if k =? k' then (k', n_add N v' v) :: r
        else (k', v') :: fm_add k v r
    end.

  (* `map.insert(k, v)` *)
  Fixpoint fm_set (k : Z) (v : T) (m : fmap) : fmap :=
    match m with
    | [] => [(k, v)]
    | (k', v') :: r =>
        if k <? k' then (k, v) :: m
        else if k =? k' then (k, v) :: r
        else (k', v') :: fm_set k v r
    end.

  Fixpoint fm_get (k : Z) (m : fmap) : option T :=
    match m with
    | [] => None
    | (k', v') :: r => if k =? k' then Some v' else fm_get k r
    end.

  Definition fm_keys (m : fmap) : list Z := map fst m.

  (* ---------- recompute ---------- *)

  Record geom := mkGeom {
    g_gran : T;                  (* granularity *)
    g_int : list (list Z);       (* int_matrix, non-wildcard columns (the wildcard cell stays 0) *)
    g_off : list Z;              (* offsets *)
    g_emax : T;                  (* error_max *)
    g_minr : list Z;             (* min_score_rows *)
    g_maxr : list Z;             (* max_score_rows *)
  }.

  (* row[..K-1] *)
  Definition cells (row : list T) : list T := removelast row.

  (* (matrix[p][j] as f64 / granularity).floor() as i64, j < K-1 *)
  Definition raw_int_row (g : T) (row : list T) : list Z :=
    map (fun x => n_floorZ N (n_div N x g)) (cells row).

  (* (x as f64) / granularity - int_matrix[i][j] as f64 over the K-1 symbol columns
     (`matrix[p][..K - 1]`) *)
  Definition row_errs (g : T) (row : list T) (ir : list Z) : list T :=
    map (fun xi => n_sub N (n_div N (fst xi) g) (n_ofZ N (snd xi))) (combine (cells row) ir).

  (* Iterator::max_by(|x, y| x.partial_cmp(y).unwrap_or(Ordering::Less)):
     reduce(|x, y| match compare(x, y) { Greater => x, _ => y }) *)
  Fixpoint max_by_pc (acc : T) (l : list T) : T :=
    match l with
    | [] => acc
    | y :: r => max_by_pc (match n_cmp N acc y with Some Gt => acc | _ => y end) r
    end.

  Definition row_max_err (g : T) (row : list T) (ir : list Z) : res T :=
    match row_errs g row ir with
    | [] => Panic 11
    | e :: r => Ok (max_by_pc e r)
    end.

  (* error_max = 0.0; for i in 1..M { error_max += max_e(i) } *)
  Fixpoint error_max_from (g : T) (acc : T) (rows : list (list T * list Z)) : res T :=
    match rows with
    | [] => Ok acc
    | (row, ir) :: r => e <- row_max_err g row ir ;; error_max_from g (n_add N acc e) r
    end.

  Definition offset_row (ir : list Z) : res (Z * list Z) :=
    mn <- zmin_list ir ;;
    if mn =? i64_min then Panic 13 else
    let off := - mn in
    let ir' := map (fun x => x + off) ir in
    if forallb in_i64 ir' then Ok (off, ir') else Panic 14.

  Definition permuted_rows (rows : list (list T)) (perm : list nat) : res (list (list T)) :=
    rall (map (fun p => match nth_error rows p with Some r => Ok r | None => Panic 15 end) perm).

  Definition recompute (rows : list (list T)) (perm : list nat) (g : T) : res geom :=
    if negb (lt g (n_one N)) then Panic 10 else
    prow <- permuted_rows rows perm ;;
    let raw := map (raw_int_row g) prow in
    em <- error_max_from g (n_zero N) (tl (combine prow raw)) ;;
    offs <- rall (map offset_row raw) ;;
    let ints := map snd offs in
    minr <- rall (map zmin_list ints) ;;
    maxr <- rall (map zmax_list ints) ;;
    Ok {| g_gran := g; g_int := ints; g_off := map fst offs; g_emax := em;
          g_minr := minr; g_maxr := maxr |}.

  (* ---------- distribution ---------- *)

  (* first row: for k in 0..K-1 { if int[0][k] + maxs[1] >= min { q[0][int[0][k]] += bg[k] } } *)
  Definition init_row (mn maxs1 : Z) (irow : list Z) (bg : list T) : fmap :=
    fold_left (fun m cb => if (fst cb + maxs1 >=? mn) then fm_add (fst cb) (snd cb) m else m)
              (combine irow bg) [].

  (* body of the innermost loop; the state is (next row's map, overflow bucket) *)
  Definition step_cell (mn mx maxs_next : Z) (rest_next : T) (key : Z) (val : T) (st : fmap * T) (cb : Z * T)
    : fmap * T :=
    let sc := key + fst cb in
    if sc + maxs_next >=? mn then
      let occ := n_mul N val (snd cb) in
      if sc >? mx then (fst st, n_add N (snd st) (n_mul N occ rest_next))
      else (fm_add sc occ (fst st), snd st)
    else st.

  Definition step_row (mn mx maxs_next : Z) (rest_next : T) (irow : list Z) (bg : list T) (cur : fmap) (bucket : T)
    : fmap * T :=
    fold_left (fun st kv => fold_left (step_cell mn mx maxs_next rest_next (fst kv) (snd kv)) (combine irow bg) st)
              cur ([], bucket).

  (* rows pos = 1..M-1; [rm] pairs int_matrix[pos] with maxs[pos+1] and rest[pos+1]; [acc]
     collects the finished maps qvalues[0..pos-1] in reverse order *)
  Fixpoint dist_loop (mn mx : Z) (bg : list T) (rm : list (list Z * Z * T)) (cur : fmap) (bucket : T)
           (acc : list fmap) : list fmap * fmap * T :=
    match rm with
    | [] => (acc, cur, bucket)
    | (irow, mnext, rnext) :: r =>
        let '(nxt, b) := step_row mn mx mnext rnext irow bg cur bucket in
        dist_loop mn mx bg r nxt b (cur :: acc)
    end.

  (* `rest`: rest[M] = 1.0, rest[i] = rest[i+1] * mass; [rest_sums mass n] = [rest[M-n]; ..; rest[M]] *)
  Fixpoint rest_sums (mass : T) (n : nat) : list T :=
    match n with
    | O => [n_one N]
    | S k => let s := rest_sums mass k in (n_mul N (hd (n_one N) s) mass) :: s
    end.

  (* distribution(min, max): the maps qvalues[0..M-1] (qvalues[M] stays empty).
     The entry `max+1` of the last map is carried as a separate accumulator (it is
     inserted as 0.0 before the loop and only ever incremented) and stored at the end. *)
  Definition distribution (G : geom) (bg : list T) (mn mx : Z) : res (list fmap) :=
    match g_int G with
    | [] => Panic 22
    | irow0 :: irows =>
        let maxs := suffix_sums (g_maxr G) in
        if negb (forallb in_i64 maxs) then Panic 23 else
        if mx =? i64_max then Panic 24 else
        (* mass = 1.0 - bg[K - 1] as f64: total probability of the symbols in one row *)
        let mass := n_sub N (n_one N) (last bg (n_zero N)) in
        let rest := rest_sums mass (length (g_int G)) in
        let q0 := init_row mn (nth 1 maxs 0) irow0 bg in
        let '(acc, cur, bucket) :=
          dist_loop mn mx bg (combine (combine irows (skipn 2 maxs)) (skipn 2 rest)) q0 (n_zero N) [] in
        Ok (rev acc ++ [fm_set (mx + 1) bucket cur])
    end.

  (* ---------- lookup_pvalue ---------- *)

  (* reverse cumulative sums: [cum_desc 0.0 (rev last)] lists (key, sum of the values of
     the keys >= key), keys descending *)
  Fixpoint cum_desc (sum : T) (desc : fmap) : fmap :=
    match desc with
    | [] => []
    | (k, v) :: r => let s := n_add N sum v in (k, s) :: cum_desc s r
    end.

  (* `while kmax > 0 && keys[kmax] as f64 >= s as f64 - error_max { kmax -= 1 }`
     on the entries from position kmax downwards *)
  Fixpoint walk_down (thr : T) (desc : fmap) : option (Z * T) :=
    match desc with
    | [] => None
    | [kv] => Some kv
    | kv :: rest => if ge (n_ofZ N (fst kv)) thr then walk_down thr rest else Some kv
    end.

  Record pv_out := mkPv {
    pv_min : T; pv_max : T;            (* the returned range pmin..=pmax *)
    pv_avg : Z; pv_lo : Z; pv_hi : Z;  (* avg, min, max *)
    pv_s : Z; pv_kmax : Z;             (* the keys whose cumulative sums are returned *)
    pv_rows : list fmap;               (* qvalues after distribution(min,max) *)
  }.

  (* `x.min(1.0)` (x is never NaN here) *)
  Definition clamp1 (x : T) : T := if gt x (n_one N) then n_one N else x.

  Definition lookup_pvalue (G : geom) (bg : list T) (score : T) : res pv_out :=
    if n_isnan N (g_gran G) then Panic 20 else
    osum <- sum_i64 21 0 (g_off G) ;;
    let scaled := n_add N (n_div N score (g_gran G)) (n_ofZ N osum) in
    let avg := n_floorZ N scaled in
    let mx := n_floorZ N (n_add N (n_add N scaled (g_emax G)) (n_one N)) in
    let mn := n_floorZ N (n_sub N (n_sub N scaled (g_emax G)) (n_one N)) in
    rows <- distribution G bg mn mx ;;
    let lastm := last rows [] in
    let pvd := cum_desc (n_zero N) (rev lastm) in       (* keys descending *)
    let pva := rev pvd in                               (* keys ascending *)
    let s := match find (fun kv => avg <=? fst kv) pva with Some kv => fst kv | None => mx + 1 end in
    match fm_get s pva with
    | None => Panic 25
    | Some pmin =>
        let thr := n_sub N (n_ofZ N s) (g_emax G) in
        match walk_down thr (filter (fun kv => fst kv <=? s) pvd) with
        | None => Panic 25
        | Some kv =>
            Ok {| pv_min := clamp1 pmin; pv_max := clamp1 (snd kv); pv_avg := avg; pv_lo := mn; pv_hi := mx;
                  pv_s := s; pv_kmax := fst kv; pv_rows := rows |}
        end
    end.

  (* ---------- lookup_score ---------- *)

  (* while riter > 0 { sum += q[keys[riter]]; pvalues.insert(keys[riter], sum);
                       if sum >= pvalue { break } riter -= 1 } *)
  Fixpoint ls_loop (p : T) (lastm : fmap) (riter : nat) (sum : T) (pvs : fmap)
    : res (nat * T * fmap) :=
    match riter with
    | O => Ok (O, sum, pvs)
    | S r' =>
        match nth_error lastm riter with
        | None => Panic 31
        | Some (k, q) =>
            let sum' := n_add N sum q in
            let pvs' := fm_set k sum' pvs in
            if ge sum' p then Ok (riter, sum', pvs') else ls_loop p lastm r' sum' pvs'
        end
    end.

  Record ls_out := mkLs {
    ls_alpha : Z; ls_alpha_e : Z;
    ls_start : T; ls_end : T;          (* the returned RangeInclusive::new(start, end) *)
    ls_exhausted : bool;               (* riter reached 0 with sum < pvalue (the window gave no crossing) *)
    ls_total_lt : bool;                (* ... and even sum + q[keys[0]] < pvalue *)
    ls_sum : T;                        (* sum when the loop was left *)
    ls_rows : list fmap;
  }.

  Definition key_at (lastm : fmap) (i : nat) (site : nat) : res Z :=
    match nth_error lastm i with Some kv => Ok (fst kv) | None => Panic site end.

  Definition pv_at (pvs : fmap) (k : Z) : res T :=
    match fm_get k pvs with Some v => Ok v | None => Panic 32 end.

  Definition lookup_score (G : geom) (bg : list T) (p : T) (mn mx : Z) : res ls_out :=
    if n_isnan N (g_gran G) then Panic 20 else
    rows <- distribution G bg mn mx ;;
    let lastm := last rows [] in
    match length lastm with
    | O => Panic 30
    | S top =>
        st <- ls_loop p lastm top (n_zero N) [] ;;
        let '(riter, sum, pvs) := st in
        r <- (if gt sum p then
                ae <- key_at lastm riter 31 ;;
                a <- key_at lastm (S riter) 31 ;;
                Ok (a, ae, pvs, false)
              else
                match riter with
                | O =>
                    a <- key_at lastm 0 31 ;;
                    Ok (a, a, fm_set a sum pvs, true)
                | S r' =>
                    a <- key_at lastm riter 31 ;;
                    ae <- key_at lastm r' 31 ;;
                    let sum' := n_add N sum (match fm_get ae pvs with Some v => v | None => n_zero N end) in
                    Ok (a, ae, fm_set ae sum' pvs, false)
                end) ;;
        let '(a, ae, pvs', exh) := r in
        pa <- pv_at pvs' a ;;
        pe <- (if gt (n_ofZ N (a - ae)) (g_emax G) then Ok pa else pv_at pvs' ae) ;;
        let q0 := match lastm with kv :: _ => snd kv | [] => n_zero N end in
        Ok {| ls_alpha := a; ls_alpha_e := ae; ls_start := pe; ls_end := pa;
              ls_exhausted := exh;
              ls_total_lt := exh && lt (n_add N sum q0) p;
              ls_sum := sum; ls_rows := rows |}
    end.

  (* the two predicates of [ls_out] computed from a last-row table alone (used by the
     check on the table the implementation itself reports) *)
  Definition ls_flags (p : T) (lastm : fmap) : bool * bool :=
    match length lastm with
    | O => (false, false)
    | S top =>
        match ls_loop p lastm top (n_zero N) [] with
        | Ok (riter, sum, _) =>
            let exh := Nat.eqb riter 0 && negb (gt sum p) in
            let q0 := match lastm with kv :: _ => snd kv | [] => n_zero N end in
            (exh, exh && lt (n_add N sum q0) p)
        | _ => (false, false)
        end
    end.

  (* ---------- iterators ---------- *)

  Record iter_out := mkIt {
    io_gran : T;                 (* Iteration.granularity *)
    io_start : T; io_end : T;    (* Iteration.range *)
    io_conv : bool;              (* Iteration.converged *)
    io_score : T;                (* Iteration.score *)
    io_geom : geom;              (* state of TfmPvalue after the step *)
    io_rows : list fmap;
    io_win : Z * Z;              (* ScoresIterator.{min,max} after the step (lookup window for C12) *)
    io_key : Z;                  (* s (C12) / alpha (C13) *)
    io_exh : bool; io_total_lt : bool;   (* C13: see ls_out *)
    io_sum : T;
  }.

  (* PvaluesIterator::next; the iterator state is (granularity, converged) *)
  Definition pv_next (rows : list (list T)) (perm : list nat) (bg : list T) (score g : T)
    : res iter_out :=
    G <- recompute rows perm g ;;
    o <- lookup_pvalue G bg score ;;
    Ok {| io_gran := g; io_start := pv_min o; io_end := pv_max o;
          io_conv := feq (pv_min o) (pv_max o); io_score := score; io_geom := G;
          io_rows := pv_rows o; io_win := (pv_lo o, pv_hi o); io_key := pv_s o;
          io_exh := false; io_total_lt := false; io_sum := n_zero N |}.

  (* approximate_pvalue(score) driven for at most [steps] calls of next();
     a panicking call ends the run (the last element is then [Panic]) *)
  Fixpoint pv_run (steps : nat) (rows : list (list T)) (perm : list nat) (bg : list T)
           (score g : T) : list (res iter_out) :=
    match steps with
    | O => []
    | S n =>
        if le g (n_zero N) then [] else     (* granularity <= target *)
        match pv_next rows perm bg score g with
        | Ok it => Ok it :: (if io_conv it then [] else pv_run n rows perm bg score (n_div N g (n_ten N)))
        | e => [e]
        end
    end.

  (* approximate_score: recompute(0.1), initial window *)
  Definition score_window0 (rows : list (list T)) (perm : list nat) : res (Z * Z) :=
    G <- recompute rows perm (n_tenth N) ;;
    mn <- sum_i64 34 0 (g_minr G) ;;
    smax <- sum_i64 34 0 (g_maxr G) ;;
    let mx := smax + n_ceilZ N (n_add N (g_emax G) (n_half N)) in
    if in_i64 mx then Ok (mn, mx) else Panic 34.

  (* ScoresIterator::next (the window of the next step reaches from below the images of
     alpha_e to above the images of alpha: an integer score I becomes a score within
     9 M of 10 I at the next granularity) *)
  Definition sc_next (rows : list (list T)) (perm : list nat) (bg : list T) (p g : T) (win : Z * Z)
    : res iter_out :=
    G <- recompute rows perm g ;;
    o <- lookup_score G bg p (fst win) (snd win) ;;
    let a := n_ofZ N (ls_alpha o) in
    let ae := n_ofZ N (ls_alpha_e o) in
    let w := n_ceil N (n_add N (g_emax G) (n_half N)) in
    (* slack = (decay - 1.0) * M as f64 *)
    let slack := n_mul N (n_sub N (n_ten N) (n_one N)) (n_ofZ N (Z.of_nat (length rows))) in
    let mn' := n_floorZ N (n_sub N (n_mul N (n_sub N ae w) (n_ten N)) slack) in
    let mx' := n_floorZ N (n_add N (n_mul N (n_add N a w) (n_ten N)) slack) in
    osum <- sum_i64 21 0 (g_off G) ;;
    if negb (in_i64 (ls_alpha o - osum)) then Panic 33 else
    Ok {| io_gran := g; io_start := ls_start o; io_end := ls_end o;
          io_conv := feq (ls_start o) (ls_end o);
          io_score := n_mul N (n_ofZ N (ls_alpha o - osum)) g;
          io_geom := G; io_rows := ls_rows o; io_win := (mn', mx'); io_key := ls_alpha o;
          io_exh := ls_exhausted o; io_total_lt := ls_total_lt o; io_sum := ls_sum o |}.

  Fixpoint sc_run (steps : nat) (rows : list (list T)) (perm : list nat) (bg : list T)
           (p g : T) (win : Z * Z) : list (res iter_out) :=
    match steps with
    | O => []
    | S n =>
        if le g (n_zero N) then [] else
        match sc_next rows perm bg p g win with
        | Ok it => Ok it :: (if io_conv it then [] else sc_run n rows perm bg p (n_div N g (n_ten N)) (io_win it))
        | e => [e]
        end
    end.

End Model.

Arguments mkGeom {T}. Arguments g_gran {T}. Arguments g_int {T}. Arguments g_off {T}.
Arguments g_emax {T}. Arguments g_minr {T}. Arguments g_maxr {T}.

(* ---------- TfmPvalue::new: row permutation by decreasing score range ---------- *)

(* range of a row in f32: reduce(f32::max) - reduce(f32::min) over the non-wildcard cells *)
Definition row_range32 (row : list F32.t) : F32.t :=
  match removelast row with
  | [] => F32.sub F32.zero F32.zero
  | x :: r => F32.sub (fold_left F32.max r x) (fold_left F32.min r x)
  end.

Definition is_perm_of (n : nat) (perm : list nat) : bool :=
  (length perm =? n)%nat && forallb (fun i => existsb (Nat.eqb i) perm) (seq 0 n).

Fixpoint sorted_by (ranges : list F32.t) (perm : list nat) : bool :=
  match perm with
  | a :: ((b :: _) as r) =>
      negb (F32.lt (nth a ranges F32.nan) (nth b ranges F32.nan)) && sorted_by ranges r
  | _ => true
  end.

(* specification of the `sort_unstable_by` in `new`: a permutation of 0..M along which
   the ranges never increase (any order among equal ranges is admissible) *)
Definition perm_ok (mat : list (list F32.t)) (perm : list nat) : bool :=
  let ranges := map row_range32 mat in
  is_perm_of (length mat) perm && sorted_by ranges perm.

(* one admissible result: stable insertion sort by decreasing range *)
Fixpoint ins_desc (ranges : list F32.t) (i : nat) (l : list nat) : list nat :=
  match l with
  | [] => [i]
  | j :: r => if F32.lt (nth j ranges F32.nan) (nth i ranges F32.nan) then i :: l
              else j :: ins_desc ranges i r
  end.

Definition perm_stable (mat : list (list F32.t)) : list nat :=
  let ranges := map row_range32 mat in
  fold_left (fun acc i => ins_desc ranges i acc) (seq 0 (length mat)) [].

(* `partial_cmp(..).unwrap()` in the comparator panics on a NaN range as soon as two rows are compared *)
Definition new_panics (mat : list (list F32.t)) : bool :=
  (2 <=? length mat)%nat && existsb F32.is_nan (map row_range32 mat).

(* ---------- exact score distribution (dyadic arithmetic) and the property checkers ---------- *)

(* one matrix row for the exact enumeration: (score, probability) of every symbol whose
   cell is finite (a symbol with a -inf cell never reaches a finite threshold) *)
Definition wrow := list (dy * dy).

Fixpoint enum_dy (rows : list wrow) : list (dy * dy) :=
  match rows with
  | [] => [(dy0, dy1)]
  | r :: rest =>
      let e := enum_dy rest in
      flat_map (fun xb => map (fun sp => (dy_add (fst xb) (fst sp), dy_mul (snd xb) (snd sp))) e) r
  end.

(* P(S >= t) *)
Definition tail_dy (e : list (dy * dy)) (t : dy) : dy :=
  fold_left (fun acc sp => if dy_leb t (fst sp) then dy_add acc (snd sp) else acc) e dy0.

(* largest attainable score (with non-zero probability or not) strictly below t *)
Definition below_dy (e : list (dy * dy)) (t : dy) : option dy :=
  fold_left (fun acc sp =>
               if dy_ltb (fst sp) t then
                 match acc with
                 | None => Some (fst sp)
                 | Some u => if dy_ltb u (fst sp) then Some (fst sp) else acc
                 end
               else acc) e None.

Definition tol30 : dy := dy_add dy1 (dy_pow2 (-30)).   (* 1 + 2^-30: relative tolerance on f64 sums *)
Definition one_eps20 : dy := dy_add dy1 (dy_pow2 (-20)).

Definition dy_abs (a : dy) : dy := (Z.abs (fst a), snd a).
Fixpoint dy_powN (a : dy) (n : nat) : dy :=
  match n with O => dy1 | S k => dy_mul a (dy_powN a k) end.

(* relative tolerance of the checkers: 2^-30 for the f64 summation order (hash-map
   iteration), widened by (1+|delta|)^M where delta = (sum of all K background
   frequencies) - 1 in exact arithmetic: `Background::new` accepts frequencies whose
   f32 sum is 1.0, e.g. [0.3,0.2,0.2,0.3,0] with exact sum 1+3e-8, and the code's
   overflow bucket treats the mass of the remaining rows as exactly 1.
   delta = 0 for dyadic frequencies (uniform, counts over a power of two), with or
   without wildcard mass. *)
Definition tol_bg (m : nat) (bg : list dy) : dy :=
  let delta := dy_abs (dy_sub (fold_left dy_add bg dy0) dy1) in
  dy_mul tol30 (dy_powN (dy_add dy1 delta) m).

(* C12, one refinement step: 0 = holds; otherwise the number of the violated clause.
   [m] = M, [s] the query score, [g] the granularity, [pmin..pmax] the reported range.
   The exact tails are compared with the reported f64 sums up to the relative
   tolerance [tol]; the clause "within [0,1]" is checked without tolerance (since
   /repo 91d4601 the code clamps the reported range at 1). *)
Definition c12_check (tol : dy) (m : Z) (e : list (dy * dy)) (s g pmin pmax : dy) : Z :=
  let up := dy_add s (dy_mul (dy_ofZ (m + 1)) g) in
  let dn := dy_sub s (dy_mul (dy_ofZ (m + 2)) g) in
  if negb (dy_leb pmin pmax) then 1
  else if negb (dy_leb dy0 pmin) then 2
  else if negb (dy_leb pmax dy1) then 3
  else if negb (dy_leb (tail_dy e up) (dy_mul pmin tol)) then 4
  else if negb (dy_leb pmax (dy_mul (tail_dy e dn) tol)) then 5
  else 0.

(* C13, one refinement step: [t] the returned threshold, d = (M+2) g *)
Definition c13_check (tol : dy) (m : Z) (e : list (dy * dy)) (p g t : dy) : Z :=
  let d := dy_mul (dy_ofZ (m + 2)) g in
  if negb (dy_leb (tail_dy e (dy_add t d)) (dy_mul p tol)) then 1
  else match below_dy e (dy_sub t d) with
       | None => 0
       | Some u => if negb (dy_leb p (dy_mul (tail_dy e (dy_sub u d)) tol)) then 2 else 0
       end.
