(* Run-level soundness of the TFM-PVALUE iterators in exact arithmetic: the step
   theorems of TfmMain.v ([pv_next_sound], [sc_next_sound]) lifted to the drivers
   [pv_run] / [sc_run], the granularity schedule, the final p-value, and the
   adequacy of the initial window of `approximate_score`. *)
From Coq Require Import ZArith QArith Qround List Bool Lia Lqa Sorted Permutation.
From LMBase Require Import Res ListX.
From LMTfm Require Import TfmNum TfmModel TfmSpec TfmProofs TfmScore TfmDist TfmPerm TfmMain.
Import ListNotations.
Open Scope Q_scope.

(* ------------------------------------------------------------------ *)
(** * Comparisons of the exact instance (continued) *)

Lemma leQ a b : le NumQ a b = true <-> a <= b.
Proof.
  unfold le. cbn [NumQ n_cmp]. unfold Qcmp_opt. destruct (Qcompare a b) eqn:E.
  - apply Qeq_alt in E. split; [intros _; lra|auto].
  - apply Qlt_alt in E. split; [intros _; lra|auto].
  - apply Qgt_alt in E. split; [discriminate|lra].
Qed.

Lemma feqQ a b : feq NumQ a b = true <-> a == b.
Proof.
  unfold feq. cbn [NumQ n_cmp]. unfold Qcmp_opt. destruct (Qcompare a b) eqn:E.
  - apply Qeq_alt in E. split; auto.
  - apply Qlt_alt in E. split; [discriminate|lra].
  - apply Qgt_alt in E. split; [discriminate|lra].
Qed.

Lemma le_pos_false g : 0 < g -> le NumQ g (n_zero NumQ) = false.
Proof.
  intros Hg. destruct (le NumQ g (n_zero NumQ)) eqn:E; auto.
  apply leQ in E. cbn [NumQ n_zero] in E. lra.
Qed.

Lemma div10_pos g : 0 < g -> 0 < n_div NumQ g (n_ten NumQ) /\ n_div NumQ g (n_ten NumQ) <= g.
Proof.
  intros Hg. cbn [NumQ n_div n_ten].
  assert (E : g / 10 == g * (1 # 10)) by (field; lra).
  rewrite E. split; lra.
Qed.

(* 10^i as a rational *)
Definition pow10 (i : nat) : Q := inject_Z (10 ^ Z.of_nat i).

Lemma pow10_0 : pow10 0 == 1.
Proof. reflexivity. Qed.

Lemma pow10_S i : pow10 (S i) == 10 * pow10 i.
Proof.
  unfold pow10. rewrite Nat2Z.inj_succ, Z.pow_succ_r by lia.
  rewrite inject_Z_mult. reflexivity.
Qed.

Lemma pow10_pos i : 0 < pow10 i.
Proof.
  unfold pow10. change 0 with (inject_Z 0). rewrite <- Zlt_Qlt.
  apply Z.pow_pos_nonneg; lia.
Qed.

(* ------------------------------------------------------------------ *)
(** * A. p-value runs *)

Lemma pv_next_gran rows perm bg score g it :
  pv_next NumQ rows perm bg score g = Ok it -> io_gran it = g.
Proof.
  unfold pv_next. intros H.
  apply rbind_ok in H. destruct H as [G [_ H]].
  apply rbind_ok in H. destruct H as [o [_ H]].
  inversion H; subst it. reflexivity.
Qed.

Theorem pv_run_sound : forall steps rows perm bg K score g it,
  matrix_ok K rows bg -> (2 <= length rows)%nat -> length perm = length rows -> 0 < g ->
  In (Ok it) (pv_run NumQ steps rows perm bg score g) ->
  let M := inject_Z (Z.of_nat (length rows)) in
  let cs := perm_cells rows perm in
  let gi := io_gran it in
  0 < gi /\ gi <= g /\
  io_start it <= io_end it /\ 0 <= io_start it /\ io_end it <= 1 /\
  tailS cs bg (score + (M + 1) * gi) <= io_start it /\
  io_end it <= tailS cs bg (score - (M + 2) * gi).
Proof.
  intros steps rows perm bg K score g it Hok HM Hperm Hg Hin M cs gi. subst gi.
  revert g Hg Hin. induction steps as [|n IH]; intros g Hg Hin; cbn [pv_run] in Hin; [destruct Hin|].
  rewrite (le_pos_false g Hg) in Hin.
  destruct (pv_next NumQ rows perm bg score g) as [it0| | |] eqn:Enext;
    try (destruct Hin as [Hin|[]]; discriminate).
  destruct Hin as [Hin|Hin].
  - inversion Hin; subst it0; clear Hin.
    destruct (pv_next_sound rows perm bg K g score it Hok HM Hperm Hg Enext) as [E [H1 [H2 [H3 [H4 H5]]]]].
    fold M in H4, H5. fold cs in H4, H5. rewrite E.
    split; [exact Hg|]. split; [lra|]. repeat split; assumption.
  - destruct (io_conv it0); [destruct Hin|].
    destruct (div10_pos g Hg) as [D1 D2].
    destruct (IH _ D1 Hin) as [A1 [A2 A3]].
    split; [exact A1|]. split; [lra|exact A3].
Qed.

(* the granularity is divided by 10 at every step *)
Theorem pv_run_gran : forall steps rows perm bg score g i it,
  nth_error (pv_run NumQ steps rows perm bg score g) i = Some (Ok it) ->
  io_gran it == g / pow10 i.
Proof.
  induction steps as [|n IH]; intros rows perm bg score g i it H; cbn [pv_run] in H.
  - destruct i; discriminate.
  - destruct (le NumQ g (n_zero NumQ)); [destruct i; discriminate|].
    destruct (pv_next NumQ rows perm bg score g) as [it0| | |] eqn:Enext;
      try (destruct i as [|[|i]]; discriminate).
    destruct i as [|i]; cbn [nth_error] in H.
    + inversion H; subst it0. rewrite (pv_next_gran _ _ _ _ _ _ Enext).
      rewrite pow10_0. field.
    + destruct (io_conv it0); [destruct i; discriminate|].
      apply IH in H. rewrite H. cbn [NumQ n_div n_ten]. rewrite pow10_S.
      pose proof (pow10_pos i). field. lra.
Qed.

Lemma last_In {A} (l : list A) d x : last l d = x -> x <> d -> In x l.
Proof.
  induction l as [|a r IH]; simpl; intros H Hne; [congruence|].
  destruct r as [|b r']; [left; auto|right; apply IH; auto].
Qed.

(* `TfmPvalue::pvalue` returns the start of the range of the last, converged iteration *)
Theorem pvalue_final_bounds : forall steps rows perm bg K score g it,
  matrix_ok K rows bg -> (2 <= length rows)%nat -> length perm = length rows -> 0 < g ->
  last (pv_run NumQ steps rows perm bg score g) (Panic 0) = Ok it ->
  io_conv it = true ->
  let M := inject_Z (Z.of_nat (length rows)) in
  let cs := perm_cells rows perm in
  let pfinal := io_start it in
  let gi := io_gran it in
  0 < gi /\ gi <= g /\ pfinal == io_end it /\
  0 <= pfinal <= 1 /\
  tailS cs bg (score + (M + 1) * gi) <= pfinal /\
  pfinal <= tailS cs bg (score - (M + 2) * gi).
Proof.
  intros steps rows perm bg K score g it Hok HM Hperm Hg Hlast Hconv M cs pfinal gi.
  assert (Hin : In (Ok it) (pv_run NumQ steps rows perm bg score g)).
  { eapply last_In; [exact Hlast|discriminate]. }
  destruct (pv_run_sound steps rows perm bg K score g it Hok HM Hperm Hg Hin)
    as [A1 [A2 [A3 [A4 [A5 [A6 A7]]]]]].
  fold M in A6, A7. fold cs in A6, A7. fold gi in A1, A2, A6, A7. fold pfinal in A3, A4, A6.
  assert (Heq : pfinal == io_end it).
  { clear -Hconv Hin. revert g Hin. induction steps as [|n IH]; intros g Hin; cbn [pv_run] in Hin; [destruct Hin|].
    destruct (le NumQ g (n_zero NumQ)); [destruct Hin|].
    destruct (pv_next NumQ rows perm bg score g) as [it0| | |] eqn:Enext;
      try (destruct Hin as [Hin|[]]; discriminate).
    destruct Hin as [Hin|Hin].
    - inversion Hin; subst it0; clear Hin. unfold pv_next in Enext.
      apply rbind_ok in Enext. destruct Enext as [G [_ H]].
      apply rbind_ok in H. destruct H as [o [_ H]].
      inversion H; subst it. cbn [io_conv io_start io_end] in *. apply feqQ. exact Hconv.
    - destruct (io_conv it0); [destruct Hin|]. eapply IH; eauto. }
  split; [exact A1|]. split; [exact A2|]. split; [exact Heq|].
  split; [split; lra|]. split; [exact A6|]. lra.
Qed.

(* ------------------------------------------------------------------ *)
(** * B. score runs *)

Lemma recompute_emax_nonneg rows perm (bg : list Q) K g G :
  matrix_ok K rows bg -> 0 < g -> recompute NumQ rows perm g = Ok G -> 0 <= g_emax G.
Proof.
  intros Hok Hg Hrec.
  destruct (recompute_Q_geom _ _ _ _ Hrec) as [prow [Hpr [Hgran [Hg1 [Hint [Hoff [Hne [_ [_ Hem]]]]]]]]].
  destruct (permuted_rows_spec _ _ _ Hpr) as [Hplen [Hpin Hcs]].
  destruct Hok as [_ [_ [_ [_ [_ Hwild]]]]].
  rewrite combine_map_self, tl_map in Hem.
  apply error_max_from_Q in Hem; auto.
  2:{ apply Forall_tl. exact Hne. }
  destruct Hem as [Em0 _]. exact Em0.
Qed.

Lemma ceil_half_pos e : 0 <= e -> (1 <= Qceiling (e + (1 # 2)))%Z.
Proof.
  intros He. pose proof (Qle_ceiling (e + (1 # 2))) as H.
  assert (H0 : inject_Z 0 < inject_Z (Qceiling (e + (1 # 2)))) by (change (inject_Z 0) with 0; lra).
  rewrite <- Zlt_Qlt in H0. lia.
Qed.

Lemma sc_next_window rows perm bg K p g win it :
  matrix_ok K rows bg -> (2 <= length rows)%nat -> length perm = length rows -> 0 < g ->
  (fst win <= snd win + 1)%Z ->
  sc_next NumQ rows perm bg p g win = Ok it ->
  (fst (io_win it) <= snd (io_win it))%Z.
Proof.
  intros Hok HM Hperm Hg Hwin H. unfold sc_next in H.
  apply rbind_ok in H. destruct H as [G [Hrec H]].
  apply rbind_ok in H. destruct H as [o [Hlook H]].
  apply rbind_ok in H. destruct H as [osum [Hosum H]].
  destruct (negb _); [discriminate|].
  inversion H; subst it; clear H. cbn [io_win fst snd].
  pose proof (recompute_emax_nonneg _ _ _ _ _ _ Hok Hg Hrec) as Em0.
  pose proof (ceil_half_pos _ Em0) as Hw.
  assert (Hw' : inject_Z 1 <= inject_Z (Qceiling (g_emax G + (1 # 2)))) by (rewrite <- Zle_Qle; exact Hw).
  change (inject_Z 1) with 1 in Hw'.
  (* alpha_e <= alpha: the table is sorted *)
  destruct (recompute_cells _ _ _ _ _ _ Hok Hrec) as [Hcells [Hmaxr HlenG]].
  destruct (matrix_ok_bg _ _ _ Hok) as [Hunit Hbl].
  assert (Hrows : distribution NumQ G bg (fst win) (snd win) = Ok (ls_rows o)).
  { pose proof Hlook as Hl. unfold lookup_score in Hl. cbn [NumQ n_isnan] in Hl.
    apply rbind_ok in Hl. destruct Hl as [rowsq [Hd Hl]]. rewrite Hd. f_equal.
    destruct (length (last rowsq [])); [discriminate|].
    apply rbind_ok in Hl. destruct Hl as [[[riter sum] pvs] [_ Hl]].
    apply rbind_ok in Hl. destruct Hl as [[[[a0 ae0] pvs'] exh] [_ Hl]].
    apply rbind_ok in Hl. destruct Hl as [pa [_ Hl]].
    apply rbind_ok in Hl. destruct Hl as [pe [_ Hl]].
    inversion Hl; subst o. reflexivity. }
  assert (Hdist : dist_exact (irows (g_int G) bg) (fst win) (snd win) (last (ls_rows o) [])).
  { apply (distribution_exact G bg _ _ (ls_rows o) (K - 1)%nat Hrows); [lia|exact Hcells|exact Hmaxr|exact Hunit|exact Hbl|exact Hwin]. }
  pose proof (lookup_score_alpha_order _ _ _ _ _ _ _ Hlook Hdist) as Hord.
  assert (Hord' : inject_Z (ls_alpha_e o) <= inject_Z (ls_alpha o)) by (rewrite <- Zle_Qle; exact Hord).
  assert (HM0 : 0 <= inject_Z (Z.of_nat (length rows))).
  { change 0 with (inject_Z 0). rewrite <- Zle_Qle. lia. }
  set (w := inject_Z (Qceiling (g_emax G + (1 # 2)))) in *.
  set (a := inject_Z (ls_alpha o)) in *. set (ae := inject_Z (ls_alpha_e o)) in *.
  set (m := inject_Z (Z.of_nat (length rows))) in *.
  change (Qfloor ((ae - w) * 10 - (10 - 1) * m) <= Qfloor ((a + w) * 10 + (10 - 1) * m))%Z.
  apply Qfloor_resp_le. nra.
Qed.

Lemma sc_next_gran rows perm bg p g win it :
  sc_next NumQ rows perm bg p g win = Ok it -> io_gran it = g.
Proof.
  unfold sc_next. intros H.
  apply rbind_ok in H. destruct H as [G [_ H]].
  apply rbind_ok in H. destruct H as [o [_ H]].
  apply rbind_ok in H. destruct H as [osum [_ H]].
  destruct (negb _); [discriminate|].
  inversion H; subst it. reflexivity.
Qed.

Theorem sc_run_sound : forall steps rows perm bg K p g win it,
  matrix_ok K rows bg -> (2 <= length rows)%nat -> length perm = length rows -> 0 < g -> 0 < p ->
  (fst win <= snd win + 1)%Z ->
  In (Ok it) (sc_run NumQ steps rows perm bg p g win) ->
  io_total_lt it = false -> (1 < length (last (io_rows it) []))%nat ->
  let M := inject_Z (Z.of_nat (length rows)) in
  let cs := perm_cells rows perm in
  let gi := io_gran it in
  let t := io_score it in
  let d := (M + 2) * gi in
  0 < gi /\ gi <= g /\
  tailS cs bg (t + d) <= p /\
  (forall l, attain l (srows cs bg) -> Qsum l < t - d -> p <= tailS cs bg (Qsum l - d)).
Proof.
  intros steps rows perm bg K p g win it Hok HM Hperm Hg Hp Hwin Hin Hw1 Hw2 M cs gi t d.
  subst gi t d.
  revert g win Hg Hwin Hin. induction steps as [|n IH]; intros g win Hg Hwin Hin; cbn [sc_run] in Hin; [destruct Hin|].
  rewrite (le_pos_false g Hg) in Hin.
  destruct (sc_next NumQ rows perm bg p g win) as [it0| | |] eqn:Enext;
    try (destruct Hin as [Hin|[]]; discriminate).
  destruct Hin as [Hin|Hin].
  - inversion Hin; subst it0; clear Hin.
    destruct (sc_next_sound rows perm bg K g p win it Hok HM Hperm Hg Hp Hwin Enext Hw1 Hw2) as [E [H1 H2]].
    fold M in H1, H2. fold cs in H1, H2. rewrite E.
    split; [exact Hg|]. split; [lra|]. split; assumption.
  - destruct (io_conv it0); [destruct Hin|].
    destruct (div10_pos g Hg) as [D1 D2].
    pose proof (sc_next_window _ _ _ _ _ _ _ _ Hok HM Hperm Hg Hwin Enext) as Hwin'.
    assert (Hwin'' : (fst (io_win it0) <= snd (io_win it0) + 1)%Z) by lia.
    destruct (IH _ _ D1 Hwin'' Hin) as [A1 [A2 A3]].
    split; [exact A1|]. split; [lra|exact A3].
Qed.

Theorem sc_run_gran : forall steps rows perm bg p g win i it,
  nth_error (sc_run NumQ steps rows perm bg p g win) i = Some (Ok it) ->
  io_gran it == g / pow10 i.
Proof.
  induction steps as [|n IH]; intros rows perm bg p g win i it H; cbn [sc_run] in H.
  - destruct i; discriminate.
  - destruct (le NumQ g (n_zero NumQ)); [destruct i; discriminate|].
    destruct (sc_next NumQ rows perm bg p g win) as [it0| | |] eqn:Enext;
      try (destruct i as [|[|i]]; discriminate).
    destruct i as [|i]; cbn [nth_error] in H.
    + inversion H; subst it0. rewrite (sc_next_gran _ _ _ _ _ _ _ Enext).
      rewrite pow10_0. field.
    + destruct (io_conv it0); [destruct i; discriminate|].
      apply IH in H. rewrite H. cbn [NumQ n_div n_ten]. rewrite pow10_S.
      pose proof (pow10_pos i). field. lra.
Qed.

(* ------------------------------------------------------------------ *)
(** * C. the initial window of `approximate_score` is adequate *)

Lemma lookup_score_rows G (bg : list Q) p mn mx o :
  lookup_score NumQ G bg p mn mx = Ok o -> distribution NumQ G bg mn mx = Ok (ls_rows o).
Proof.
  intros Hl. unfold lookup_score in Hl. cbn [NumQ n_isnan] in Hl.
  apply rbind_ok in Hl. destruct Hl as [rowsq [Hd Hl]]. rewrite Hd. f_equal.
  destruct (length (last rowsq [])); [discriminate|].
  apply rbind_ok in Hl. destruct Hl as [[[riter sum] pvs] [_ Hl]].
  apply rbind_ok in Hl. destruct Hl as [[[[a ae] pvs'] exh] [_ Hl]].
  apply rbind_ok in Hl. destruct Hl as [pa [_ Hl]].
  apply rbind_ok in Hl. destruct Hl as [pe [_ Hl]].
  inversion Hl; subst o. reflexivity.
Qed.

(* [ls_total_lt]: the loop ran to the bottom of the table and even the total mass of
   the table is below p *)
Lemma ls_total_lt_tailsum G (bg : list Q) p mn mx o :
  lookup_score NumQ G bg p mn mx = Ok o -> ls_total_lt o = true ->
  tailsum (last (ls_rows o) []) 0 < p.
Proof.
  intros Hlook Htot.
  unfold lookup_score in Hlook. cbn [NumQ n_isnan] in Hlook.
  apply rbind_ok in Hlook. destruct Hlook as [rowsq [Hdistr Hlook]].
  set (lastm := last rowsq []) in *.
  destruct (length lastm) as [|top] eqn:Elen; [discriminate|].
  apply rbind_ok in Hlook. destruct Hlook as [[[riter sum] pvs] [Hloop Hlook]].
  apply rbind_ok in Hlook. destruct Hlook as [[[[a ae] pvs'] exh] [Hsel Hlook]].
  apply rbind_ok in Hlook. destruct Hlook as [pa [Hpa Hlook]].
  apply rbind_ok in Hlook. destruct Hlook as [pe [Hpe Hlook]].
  inversion Hlook; subst o; clear Hlook. cbn [ls_total_lt ls_rows] in *.
  fold lastm. clearbody lastm.
  apply andb_true_iff in Htot. destruct Htot as [Hexh Hlt]. subst exh.
  apply ltQ in Hlt. cbn [NumQ n_add n_zero] in Hlt.
  assert (Hr0 : riter = 0%nat).
  { destruct (gt NumQ sum p).
    - apply rbind_ok in Hsel. destruct Hsel as [ae0 [_ Hsel]].
      apply rbind_ok in Hsel. destruct Hsel as [a0 [_ Hsel]]. inversion Hsel.
    - destruct riter as [|r']; [reflexivity|].
      apply rbind_ok in Hsel. destruct Hsel as [a0 [_ Hsel]].
      apply rbind_ok in Hsel. destruct Hsel as [ae0 [_ Hsel]]. inversion Hsel. }
  subst riter.
  destruct (ls_loop_spec p lastm top 0 [] 0%nat sum pvs Hloop) as [[A1 _]|[_ [B2 _]]].
  - rewrite tailsum_beyond by lia. reflexivity.
  - intros Hc. lia.
  - lia.
  - destruct lastm as [|[k0 q0] r]; [discriminate|]. cbn [snd] in Hlt.
    rewrite (tailsum_nth ((k0, q0) :: r) 0 k0 q0 eq_refl). lra.
Qed.

Lemma in_map_fst_combine {A B} (a : list A) (b : list B) x : In x (map fst (combine a b)) -> In x a.
Proof.
  intros H. apply in_map_iff in H. destruct H as [[u v] [E Hin]]. simpl in E. subst u.
  eapply in_combine_l; eauto.
Qed.

(* every attainable integer score lies between the sums of the row minima and maxima *)
Lemma attain_irows_bounds ints (bg : list Q) : forall l,
  attain l (irows ints bg) ->
  (Zsum (map zmin_of ints) <= Zsum l <= Zsum (map zmax_of ints))%Z.
Proof.
  induction ints as [|a rest IH]; intros l H; unfold attain in H; simpl in H; inversion H; subst; simpl.
  - lia.
  - match goal with Hx : In _ (map fst (combine a bg)) |- _ => apply in_map_fst_combine in Hx;
      pose proof (zmin_of_le _ _ Hx); pose proof (zmax_of_ge _ _ Hx) end.
    match goal with Hr : Forall2 _ _ _ |- _ => apply IH in Hr end.
    set (u := zmin_of a) in *. set (v := zmax_of a) in *. lia.
Qed.

(* there is at least one word *)
Lemma attain_exists n ints (bg : list Q) :
  (1 <= n)%nat -> (n <= length bg)%nat -> Forall (fun r : list Z => length r = n) ints ->
  exists l, attain l (irows ints bg).
Proof.
  intros Hn Hbg. induction 1 as [|a rest Ha _ IH].
  - exists []. constructor.
  - destruct IH as [l Hl]. destruct a as [|x a']; [simpl in Ha; lia|].
    destruct bg as [|b bg']; [simpl in Hbg; lia|].
    exists (x :: l). unfold attain. simpl. constructor; [left; reflexivity|exact Hl].
Qed.

Theorem initial_window_ok : forall rows perm bg K p win it,
  matrix_ok K rows bg -> (2 <= length rows)%nat -> length perm = length rows ->
  0 < p -> p <= 1 ->
  score_window0 NumQ rows perm = Ok win ->
  sc_next NumQ rows perm bg p (1 # 10) win = Ok it ->
  (fst win <= snd win + 1)%Z /\ io_total_lt it = false /\ (1 < length (last (io_rows it) []))%nat.
Proof.
  intros rows perm bg K p win it Hok HM Hperm Hp Hp1 Hwin.
  unfold score_window0 in Hwin.
  apply rbind_ok in Hwin. destruct Hwin as [G [Hrec Hwin]].
  apply rbind_ok in Hwin. destruct Hwin as [mn [Hmn Hwin]].
  apply rbind_ok in Hwin. destruct Hwin as [smax [Hsmax Hwin]].
  destruct (in_i64 _); [|discriminate]. inversion Hwin; subst win; clear Hwin.
  change (n_tenth NumQ) with (1 # 10) in Hrec.
  assert (Hg : 0 < 1 # 10) by reflexivity.
  pose proof (recompute_emax_nonneg _ _ _ _ _ _ Hok Hg Hrec) as Em0.
  pose proof (ceil_half_pos _ Em0) as Hc.
  change (n_ceilZ NumQ (n_add NumQ (g_emax G) (n_half NumQ))) with (Qceiling (g_emax G + (1 # 2))).
  set (c := Qceiling (g_emax G + (1 # 2))) in *. clearbody c.
  cbn [fst snd].
  intros H. unfold sc_next in H.
  apply rbind_ok in H. destruct H as [G' [Hrec' H]].
  rewrite Hrec in Hrec'. inversion Hrec'; subst G'; clear Hrec'.
  apply rbind_ok in H. destruct H as [o [Hlook H]].
  apply rbind_ok in H. destruct H as [osum [Hosum H]].
  destruct (negb _); [discriminate|].
  inversion H; subst it; clear H. cbn [io_total_lt io_rows fst snd] in *.
  (* geometry *)
  destruct (recompute_cells _ _ _ _ _ _ Hok Hrec) as [Hcells [Hmaxr HlenG]].
  destruct (matrix_ok_bg _ _ _ Hok) as [Hunit Hbl].
  destruct (recompute_Q_geom _ _ _ _ Hrec) as [prow [_ [_ [_ [_ [_ [_ [Hminr _]]]]]]]].
  assert (HK : (2 <= K)%nat) by (destruct Hok as [HK _]; exact HK).
  assert (Hbg : forall b, In b bg -> 0 <= b) by (destruct Hok as [_ [_ [_ [Hbg _]]]]; exact Hbg).
  apply sum_i64_ok in Hmn. apply sum_i64_ok in Hsmax. rewrite Z.add_0_l in Hmn, Hsmax.
  rewrite Hminr in Hmn. rewrite Hmaxr in Hsmax.
  set (ir := irows (g_int G) bg) in *.
  assert (Hlens : Forall (fun r : list Z => length r = (K - 1)%nat) (g_int G)).
  { eapply Forall_impl; [|exact Hcells]. intros r [Hr _]. exact Hr. }
  assert (Hbnd : forall l, attain l ir -> (mn <= Zsum l <= smax)%Z).
  { intros l Hl. rewrite Hmn, Hsmax. apply (attain_irows_bounds _ bg). exact Hl. }
  destruct (attain_exists (K - 1) (g_int G) bg ltac:(lia) Hbl Hlens) as [l0 Hl0].
  fold ir in Hl0.
  pose proof (Hbnd _ Hl0) as Hb0.
  assert (Hw : (mn <= smax + c + 1)%Z) by lia.
  split; [exact Hw|].
  (* the table *)
  pose proof (lookup_score_rows _ _ _ _ _ _ Hlook) as Hrows.
  assert (Hdist : dist_exact ir mn (smax + c) (last (ls_rows o) [])).
  { apply (distribution_exact G bg _ _ (ls_rows o) (K - 1)%nat Hrows); [lia|exact Hcells|exact Hmaxr|exact Hunit|exact Hbl|exact Hw]. }
  set (lastm := last (ls_rows o) []) in *.
  pose proof Hdist as [body [vb [Hl [Hsort [Hbody [Hvb Hcomp]]]]]].
  assert (Hkey : forall l, attain l ir -> In (Zsum l) (map fst body)).
  { intros l Hl'. apply Hcomp; [exact Hl'|]. pose proof (Hbnd _ Hl'). lia. }
  destruct body as [|[k0 v0] body'] eqn:Ebody; [destruct (Hkey _ Hl0)|].
  split.
  - (* the total mass of the table is 1 >= p *)
    destruct (ls_total_lt o) eqn:Et; [exfalso|reflexivity].
    pose proof (ls_total_lt_tailsum _ _ _ _ _ _ Hlook Et) as Hlt. fold lastm in Hlt.
    assert (Hn0 : nth_error lastm 0 = Some (k0, v0)) by (rewrite Hl; reflexivity).
    rewrite (tailsum_spec _ _ _ _ Hdist _ _ _ Hn0) in Hlt.
    assert (U : unit_rows ir).
    { apply (unit_irows (K - 1)); auto. destruct Hok as [_ [_ [_ [_ [Hu _]]]]]. exact Hu. }
    assert (E1 : PI_ge ir k0 == wsum ir (fun _ => 1)).
    { unfold PI_ge. apply wsum_ext_in. intros l Hl'.
      assert (Hle : (k0 <= Zsum l)%Z).
      { pose proof (Hkey _ Hl') as Hin. simpl in Hin. destruct Hin as [Hin|Hin]; [lia|].
        simpl in Hsort. pose proof (SSorted_lt_inv _ _ Hsort _ Hin). lia. }
      apply Z.leb_le in Hle. rewrite Hle. reflexivity. }
    rewrite E1, (wsum_const_unit ir U 1) in Hlt. lra.
  - rewrite Hl. simpl. rewrite app_length. simpl. lia.
Qed.
