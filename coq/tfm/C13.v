(* Property C13 -- TFM-PVALUE score thresholds are consistent with the exact score
   distribution.  Only the property theorems (closed by [exact] of lemmas from
   TfmScore / TfmDist / TfmMain / TfmRun / TfmLink / TfmCheck / TfmRefute), statement
   pins and non-vacuity examples.  Setting as in C12.v ([matrix_ok], [Ptail]).

   History: before /repo 6b0495b the window re-centring of ScoresIterator::next could
   lose the answer (finding F13, former theorem C13_window_refuted; its witnesses are now
   must-pass corpus cases).  With the repaired re-centring (window from
   10 (alpha_e - w) - 9 M to 10 (alpha + w) + 9 M) "the window is adequate" ([io_total_lt =
   false] and the last table has more than one entry) is an invariant of the iteration,
   so the property holds for every step of approximate_score ([C13_approximate_score_bounds]);
   the step-level theorems are stated for an arbitrary adequate window. *)
From Coq Require Import ZArith QArith Qround List Bool Lia Lqa Sorted Permutation.
From LMBase Require Import Res ListX.
From LMTfm Require Import TfmNum TfmModel TfmSpec TfmProofs TfmScore TfmDist TfmPerm TfmMain TfmRun TfmTotal TfmLink TfmClause1 TfmAdequate TfmCheck TfmConv.
Import ListNotations.
Open Scope Q_scope.

(* lookup_score on an exact table and an adequate window *)
Theorem C13_lookup_score_sound : forall rows perm bg K g G p mn mx o,
  matrix_ok K rows bg -> 0 < g -> length perm = length rows ->
  recompute NumQ rows perm g = Ok G ->
  lookup_score NumQ G bg p mn mx = Ok o ->
  dist_exact (irows (g_int G) bg) mn mx (last (ls_rows o) []) ->
  WindowOK o -> 0 < p ->
  let M := inject_Z (Z.of_nat (length rows)) in
  let cs := perm_cells rows perm in
  let t := inject_Z (ls_alpha o - Zsum (g_off G)) * g in
  let d := (M + 2) * g in
  tailS cs bg (t + d) <= p /\
  (forall l, attain l (srows cs bg) -> Qsum l < t - d -> p <= tailS cs bg (Qsum l - d)).
Proof. exact lookup_score_sound. Qed.

(* the table of lookup_score is exact (shared with C12) *)
Theorem C13_dist_exact : forall (G : geom) (bg : list Q) mn mx rowsq n,
  distribution NumQ G bg mn mx = Ok rowsq ->
  (2 <= length (g_int G))%nat ->
  Forall (fun r => length r = n /\ forall c, In c r -> (0 <= c)%Z) (g_int G) ->
  g_maxr G = map zmax_of (g_int G) ->
  bg_mass n bg -> (n <= length bg)%nat -> (mn <= mx + 1)%Z ->
  dist_exact (irows (g_int G) bg) mn mx (last rowsq []).
Proof. exact distribution_exact. Qed.

(* One refinement step (ScoresIterator::next) at granularity g on an adequate window:
   with d = (M+2) g the returned threshold t satisfies P(S >= t+d) <= p, and every
   attainable score u < t-d (in particular the largest one) has P(S >= u-d) >= p. *)
Theorem C13_score_step_bounds : forall rows perm bg K g p win it,
  matrix_ok K rows bg -> (2 <= length rows)%nat -> Permutation perm (seq 0 (length rows)) ->
  0 < g -> 0 < p -> (fst win <= snd win + 1)%Z ->
  sc_next NumQ rows perm bg p g win = Ok it ->
  io_total_lt it = false -> (1 < length (last (io_rows it) []))%nat ->
  let M := inject_Z (Z.of_nat (length rows)) in
  let t := io_score it in
  let d := (M + 2) * g in
  io_gran it = g /\
  Ptail rows bg (t + d) <= p /\
  (forall l, attain l (srows (sym_cells rows) bg) -> Qsum l < t - d -> p <= Ptail rows bg (Qsum l - d)).
Proof. exact sc_step_bounds. Qed.

(* The first clause needs no condition on the mass of the window: even when lookup_score
   exhausts its window the returned threshold is never too low (only too high: clause 2,
   C13_window_refuted) -- as long as the window holds an attainable score. *)
Theorem C13_score_step_clause1 : forall rows perm bg K g p win it,
  matrix_ok K rows bg -> (2 <= length rows)%nat -> Permutation perm (seq 0 (length rows)) ->
  0 < g -> 0 < p -> (fst win <= snd win + 1)%Z ->
  sc_next NumQ rows perm bg p g win = Ok it ->
  (1 < length (last (io_rows it) []))%nat ->
  let M := inject_Z (Z.of_nat (length rows)) in
  io_gran it = g /\ Ptail rows bg (io_score it + (M + 2) * g) <= p.
Proof. exact sc_step_clause1. Qed.

(* every Iteration of approximate_score(p) whose window is adequate *)
Theorem C13_score_run_bounds : forall steps rows perm bg K p g win it,
  matrix_ok K rows bg -> (2 <= length rows)%nat -> Permutation perm (seq 0 (length rows)) ->
  0 < g -> 0 < p -> (fst win <= snd win + 1)%Z ->
  In (Ok it) (sc_run NumQ steps rows perm bg p g win) ->
  io_total_lt it = false -> (1 < length (last (io_rows it) []))%nat ->
  let M := inject_Z (Z.of_nat (length rows)) in
  let gi := io_gran it in
  let t := io_score it in
  let d := (M + 2) * gi in
  0 < gi /\ gi <= g /\
  Ptail rows bg (t + d) <= p /\
  (forall l, attain l (srows (sym_cells rows) bg) -> Qsum l < t - d -> p <= Ptail rows bg (Qsum l - d)).
Proof. exact sc_run_bounds. Qed.

(* the initial window [sum of row minima, sum of row maxima + ceil(error_max + 1/2)] of
   approximate_score is adequate for every p in (0, 1] *)
Theorem C13_initial_window_ok : forall rows perm bg K p win it,
  matrix_ok K rows bg -> (2 <= length rows)%nat -> Permutation perm (seq 0 (length rows)) ->
  0 < p -> p <= 1 ->
  score_window0 NumQ rows perm = Ok win ->
  sc_next NumQ rows perm bg p (1 # 10) win = Ok it ->
  (fst win <= snd win + 1)%Z /\ io_total_lt it = false /\ (1 < length (last (io_rows it) []))%nat.
Proof. exact first_window_ok. Qed.

(* the final threshold (TfmPvalue::score = score of the last, converged iteration) *)
Theorem C13_score_final_bounds : forall rows perm bg K p g win steps it,
  matrix_ok K rows bg -> (2 <= length rows)%nat -> Permutation perm (seq 0 (length rows)) ->
  0 < g -> 0 < p -> (fst win <= snd win + 1)%Z ->
  last (sc_run NumQ steps rows perm bg p g win) (Panic 0) = Ok it ->
  io_total_lt it = false -> (1 < length (last (io_rows it) []))%nat ->
  let M := inject_Z (Z.of_nat (length rows)) in
  let gi := io_gran it in
  let t := io_score it in
  let d := (M + 2) * gi in
  0 < gi /\ gi <= g /\
  Ptail rows bg (t + d) <= p /\
  (forall l, attain l (srows (sym_cells rows) bg) -> Qsum l < t - d -> p <= Ptail rows bg (Qsum l - d)).
Proof. exact score_final. Qed.

(* Panics of lookup_score: `keys.len() - 1` (site 30) and the `pvalues[..]` indexings
   (site 32) can never fail; the out-of-bounds `keys[riter + 1]` (site 31) happens exactly
   when the loop leaves at its first iteration: the mass stored under the overflow key
   max+1 (the mass above the window) already exceeds p. *)
Theorem C13_lookup_score_panic_sites : forall G bg p mn mx n,
  lookup_score NumQ G bg p mn mx = Panic n ->
  distribution NumQ G bg mn mx = Panic n \/
  (n = 31%nat /\ exists rowsq, distribution NumQ G bg mn mx = Ok rowsq /\ first_exitQ p (last rowsq [])).
Proof. exact lookup_score_panic_sites. Qed.

Theorem C13_lookup_score_panic_31_iff : forall G bg p mn mx rowsq,
  distribution NumQ G bg mn mx = Ok rowsq ->
  (lookup_score NumQ G bg p mn mx = Panic 31 <-> first_exitQ p (last rowsq [])).
Proof. exact lookup_score_panic_31_iff. Qed.

(* Adequacy is preserved by the (repaired) re-centring: an integer score I at granularity g
   becomes a score within 9 M of 10 I at granularity g/10, so the window from
   10 (alpha_e - w) - 9 M to 10 (alpha + w) + 9 M contains the images of alpha_e (mass >= p
   from there upwards, and an attainable score) and leaves at most mass p above it. *)
Theorem C13_adequacy_preserved : forall rows perm bg K p g win it it',
  matrix_ok K rows bg -> (2 <= length rows)%nat -> length perm = length rows ->
  0 < g -> 0 < p -> (fst win <= snd win + 1)%Z ->
  sc_next NumQ rows perm bg p g win = Ok it ->
  adequate it ->
  sc_next NumQ rows perm bg p (g / 10) (io_win it) = Ok it' ->
  adequate it'.
Proof. exact sc_next_adequate_next. Qed.

(* THE PROPERTY for approximate_score(p), without any condition on the windows: every
   Iteration (granularity 1/10, 1/100, ...) returns a threshold t with P(S >= t+d) <= p and
   P(S >= u-d) >= p for every attainable u < t-d (d = (M+2) g), for any matrix of width
   M >= 2, any background without wildcard mass and any p in (0,1]. *)
Theorem C13_approximate_score_bounds : forall steps rows perm bg K p win it,
  matrix_ok K rows bg -> (2 <= length rows)%nat -> Permutation perm (seq 0 (length rows)) ->
  0 < p -> p <= 1 ->
  score_window0 NumQ rows perm = Ok win ->
  In (Ok it) (sc_run NumQ steps rows perm bg p (1 # 10) win) ->
  let M := inject_Z (Z.of_nat (length rows)) in
  let gi := io_gran it in
  let t := io_score it in
  let d := (M + 2) * gi in
  0 < gi /\ gi <= 1 # 10 /\
  Ptail rows bg (t + d) <= p /\
  (forall l, attain l (srows (sym_cells rows) bg) -> Qsum l < t - d -> p <= Ptail rows bg (Qsum l - d)).
Proof. exact approximate_score_bounds. Qed.

(* ... and the iteration never reaches the out-of-bounds `keys[riter + 1]` (site 31; the
   panic formerly observed on the implementation, finding F26, came from a window that
   the old re-centring placed too low for the binary64 sums) *)
Theorem C13_approximate_score_no_panic31 : forall steps rows perm bg K p win,
  matrix_ok K rows bg -> (2 <= length rows)%nat -> length perm = length rows ->
  0 < p -> p <= 1 ->
  score_window0 NumQ rows perm = Ok win ->
  ~ In (Panic 31) (sc_run NumQ steps rows perm bg p (1 # 10) win).
Proof. exact approximate_score_no_panic31. Qed.

(* re-centred windows are never inverted (so only their position can be wrong) *)
Theorem C13_next_window_ordered : forall rows perm bg K p g win it,
  matrix_ok K rows bg -> (2 <= length rows)%nat -> length perm = length rows -> 0 < g ->
  (fst win <= snd win + 1)%Z ->
  sc_next NumQ rows perm bg p g win = Ok it ->
  (fst (io_win it) <= snd (io_win it))%Z.
Proof. exact sc_next_window. Qed.

(* the window predicates attached by the check to every observation ([ls_flags] on the
   table the implementation reports) are those of the theorems, for every instance of
   the model (exact rationals and binary64 alike) *)
Theorem C13_window_flags : forall {T} (N : NumOps T) G bg p mn mx o,
  lookup_score N G bg p mn mx = Ok o ->
  ls_flags N p (last (ls_rows o) []) = (ls_exhausted o, ls_total_lt o).
Proof. exact @ls_flags_spec. Qed.

(* The extracted checker used on the implementation's observations decides exactly the
   two clauses of the property (relative tolerance [tol] on p), against the exact
   tail [T] = [tailS] (C12_check_tail); [below_max rows x u]: u is the largest
   attainable score below x. *)
Theorem C13_check_sound : forall tol m rows p g t,
  c13_check tol m (enum_dy rows) p g t = 0%Z <->
  (let q := dy_toQ in let d := inject_Z (m + 2) * q g in
   T rows (q t + d) <= q p * q tol /\
   (forall u, below_max rows (q t - d) u -> q p <= T rows (u - d) * q tol)).
Proof. exact c13_check_iff. Qed.

(* the convolution reference used for wide motifs gives the same verdict as the enumeration *)
Theorem C13_check_conv : forall tol m rows p g t,
  c13_check tol m (conv_dy rows) p g t = c13_check tol m (enum_dy rows) p g t.
Proof. exact c13_check_conv. Qed.

(* ---------- statement pins ---------- *)
Check C13_score_step_bounds : forall rows perm bg K g p win it,
  matrix_ok K rows bg -> (2 <= length rows)%nat -> Permutation perm (seq 0 (length rows)) ->
  0 < g -> 0 < p -> (fst win <= snd win + 1)%Z ->
  sc_next NumQ rows perm bg p g win = Ok it ->
  io_total_lt it = false -> (1 < length (last (io_rows it) []))%nat ->
  let M := inject_Z (Z.of_nat (length rows)) in
  let t := io_score it in
  let d := (M + 2) * g in
  io_gran it = g /\
  Ptail rows bg (t + d) <= p /\
  (forall l, attain l (srows (sym_cells rows) bg) -> Qsum l < t - d -> p <= Ptail rows bg (Qsum l - d)).
Check C13_initial_window_ok : forall rows perm bg K p win it,
  matrix_ok K rows bg -> (2 <= length rows)%nat -> Permutation perm (seq 0 (length rows)) ->
  0 < p -> p <= 1 ->
  score_window0 NumQ rows perm = Ok win ->
  sc_next NumQ rows perm bg p (1 # 10) win = Ok it ->
  (fst win <= snd win + 1)%Z /\ io_total_lt it = false /\ (1 < length (last (io_rows it) []))%nat.

Check C13_approximate_score_bounds : forall steps rows perm bg K p win it,
  matrix_ok K rows bg -> (2 <= length rows)%nat -> Permutation perm (seq 0 (length rows)) ->
  0 < p -> p <= 1 ->
  score_window0 NumQ rows perm = Ok win ->
  In (Ok it) (sc_run NumQ steps rows perm bg p (1 # 10) win) ->
  let M := inject_Z (Z.of_nat (length rows)) in
  let gi := io_gran it in
  let t := io_score it in
  let d := (M + 2) * gi in
  0 < gi /\ gi <= 1 # 10 /\
  Ptail rows bg (t + d) <= p /\
  (forall l, attain l (srows (sym_cells rows) bg) -> Qsum l < t - d -> p <= Ptail rows bg (Qsum l - d)).

(* ---------- non-vacuity ---------- *)
Definition ex_rows : list (list Q) :=
  [[1; -1; 1 # 3; -2; -100]; [1 # 2; -(1 # 3); 0; -1; -100]; [1 # 4; 0; 1 # 7; -(1 # 4); -100]].
Definition ex_bg : list Q := [1 # 2; 1 # 4; 1 # 8; 1 # 8; 0].
Definition ex_perm : list nat := [0; 1; 2]%nat.

(* on the example approximate_score(1/3) converges in two steps, both on adequate
   windows (the hypotheses of C13_score_run_bounds are satisfiable along a run) *)
Example C13_nonvacuous_hyps :
  matrix_ok 5 ex_rows ex_bg /\ Permutation ex_perm (seq 0 (length ex_rows)).
Proof.
  split; [|apply Permutation_refl].
  unfold matrix_ok. split; [lia|]. split; [repeat constructor|]. split; [reflexivity|].
  split; [|split; reflexivity].
  intros b Hb. cbn in Hb. repeat (destruct Hb as [<-|Hb]; [discriminate|]). destruct Hb.
Qed.

Example C13_nonvacuous_run :
  exists win it1 it2,
    score_window0 NumQ ex_rows ex_perm = Ok win /\
    sc_run NumQ 4 ex_rows ex_perm ex_bg (1 # 3) (1 # 10) win = [Ok it1; Ok it2] /\
    io_total_lt it1 = false /\ io_total_lt it2 = false /\
    (1 < length (last (io_rows it1) []))%nat /\ (1 < length (last (io_rows it2) []))%nat /\
    io_conv it2 = true /\ io_score it2 == 27 # 25.
Proof.
  eexists. eexists. eexists. split; [vm_compute; reflexivity|].
  split; [vm_compute; reflexivity|]. vm_compute. repeat split; try lia; discriminate.
Qed.
