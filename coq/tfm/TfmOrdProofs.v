(* Proofs about the TFM-PVALUE model with the hash-map iteration order as an input (TfmOrd.v).

   1. The text over the table function [D] at [D := distribution N] IS the audited text
      (by conversion).
   2. Any carrier: an exhausted order list means key order, [distribution_ord N []] =
      [distribution N]; the runs with no orders are the audited runs.  Every table of
      the ord model is key-sorted whatever the orders ([distribution_ord_ksorted]).
   3. Exact rationals: when every given order lists the keys of its row
      ([ords_ok ords rows']), the tables of [distribution_ord NumQ ords] have the keys of
      the tables of [distribution NumQ] and values that are == ([distribution_ord_equiv]);
      hence the last table is the exact distribution of the integer score
      ([distribution_ord_exact], the statement of TfmDist.distribution_exact).
   4-6. C12 / C13 for the ord model: one step ([pv_next_ord_bounds], [sc_next_ord_bounds],
      the statements of TfmLink.pv_step_bounds / sc_step_bounds) and the runs
      ([pv_run_ord_bounds], [sc_run_ord_bounds]).

   No axioms: every theorem is closed under the global context. *)
From Coq Require Import ZArith QArith Qround List Bool Lia Lqa Sorted Permutation.
From LMBase Require Import Res ListX.
From LMTfm Require Import TfmNum TfmModel TfmSpec TfmProofs TfmScore TfmDist TfmPerm TfmMain TfmRun TfmLink TfmOrd.
Import ListNotations.

(* ------------------------------------------------------------------ *)
(** * 1. The text over [D] at [D := distribution N] is the audited text *)

Lemma lookup_pvalue_with_eq {T} (N : NumOps T) : lookup_pvalue_with N (distribution N) = lookup_pvalue N.
Proof. reflexivity. Qed.
Lemma lookup_score_with_eq {T} (N : NumOps T) : lookup_score_with N (distribution N) = lookup_score N.
Proof. reflexivity. Qed.
Lemma pv_next_with_eq {T} (N : NumOps T) : pv_next_with N (distribution N) = pv_next N.
Proof. reflexivity. Qed.
Lemma sc_next_with_eq {T} (N : NumOps T) : sc_next_with N (distribution N) = sc_next N.
Proof. reflexivity. Qed.

(* ------------------------------------------------------------------ *)
(** * 2. An exhausted order list means key order (any carrier) *)

Definition ksorted {T} (m : list (Z * T)) : Prop := StronglySorted Z.lt (map fst m).

Lemma fm_add_keys_gen {T} (N : NumOps T) k v (m : fmap (T:=T)) j :
  In j (map fst (fm_add N k v m)) <-> j = k \/ In j (map fst m).
Proof.
  induction m as [|[k' v'] r IH]; cbn [fm_add map fst In].
  - intuition.
  - destruct (Z.ltb_spec k k').
    + cbn [map fst In]. intuition.
    + destruct (Z.eqb_spec k k') as [->|Hne]; cbn [map fst In].
      * intuition.
      * rewrite IH. intuition.
Qed.

Lemma fm_add_ksorted {T} (N : NumOps T) k v (m : fmap (T:=T)) :
  ksorted m -> ksorted (fm_add N k v m).
Proof.
  unfold ksorted. induction m as [|[k' v'] r IH]; intros HS; cbn [fm_add].
  - cbn. constructor; constructor.
  - cbn [map fst] in HS. inversion HS as [|? ? HS' HF]; subst.
    destruct (Z.ltb_spec k k').
    + cbn [map fst]. constructor; [exact HS|].
      constructor; [auto|]. rewrite Forall_forall in *. intros x Hx. specialize (HF x Hx). lia.
    + destruct (Z.eqb_spec k k') as [->|Hne].
      * cbn [map fst]. exact HS.
      * cbn [map fst]. constructor; [apply IH; exact HS'|].
        rewrite Forall_forall in *. intros x Hx.
        apply fm_add_keys_gen in Hx. destruct Hx as [->|Hx]; [lia|auto].
Qed.

Lemma init_row_ksorted {T} (N : NumOps T) mn maxs1 irow bg : ksorted (init_row N mn maxs1 irow bg).
Proof.
  unfold init_row.
  assert (H : forall (l : list (Z * T)) m0, ksorted m0 ->
            ksorted (fold_left (fun m cb => if (fst cb + maxs1 >=? mn)%Z then fm_add N (fst cb) (snd cb) m else m) l m0)).
  { induction l as [|cb l IH]; intros m0 Hm; [exact Hm|]. cbn [fold_left]. apply IH.
    destruct (_ >=? _)%Z; [apply fm_add_ksorted|]; exact Hm. }
  apply H. constructor.
Qed.

Lemma step_cell_ksorted {T} (N : NumOps T) mn mx mnext rnext key val st cb :
  ksorted (fst st) -> ksorted (fst (step_cell N mn mx mnext rnext key val st cb)).
Proof.
  intros H. unfold step_cell. destruct (_ >=? _)%Z; [|exact H].
  destruct (_ >? _)%Z; cbn [fst]; [exact H|]. apply fm_add_ksorted. exact H.
Qed.

Lemma step_row_ksorted {T} (N : NumOps T) mn mx mnext rnext irow bg cur bucket :
  ksorted (fst (step_row N mn mx mnext rnext irow bg cur bucket)).
Proof.
  unfold step_row.
  assert (Hin : forall (l : list (Z * T)) key val st, ksorted (fst st) ->
            ksorted (fst (fold_left (step_cell N mn mx mnext rnext key val) l st))).
  { induction l as [|cb l IH]; intros key val st H; [exact H|]. cbn [fold_left]. apply IH.
    apply step_cell_ksorted. exact H. }
  assert (Hout : forall (l : fmap (T:=T)) st, ksorted (fst st) ->
            ksorted (fst (fold_left (fun st kv => fold_left (step_cell N mn mx mnext rnext (fst kv) (snd kv))
                                                            (combine irow bg) st) l st))).
  { induction l as [|kv l IH]; intros st H; [exact H|]. cbn [fold_left]. apply IH. apply Hin. exact H. }
  apply Hout. constructor.
Qed.

(* visiting a key-sorted table in the order of its keys is visiting the table *)
Lemma reorder_skip {T} k v (r : fmap (T:=T)) (l : list Z) :
  Forall (fun k' => (k < k')%Z) l -> reorder l ((k, v) :: r) = reorder l r.
Proof.
  unfold reorder. induction l as [|a l IH]; intros H; [reflexivity|].
  inversion H as [|? ? Ha Hl]; subst. cbn [flat_map]. rewrite (IH Hl). f_equal.
  cbn [fm_get]. destruct (Z.eqb_spec a k); [lia|]. reflexivity.
Qed.

Lemma reorder_keys {T} (m : fmap (T:=T)) : ksorted m -> reorder (fm_keys m) m = m.
Proof.
  unfold ksorted, fm_keys. induction m as [|[k v] r IH]; intros HS; [reflexivity|].
  cbn [map fst] in HS. inversion HS as [|? ? HS' HF]; subst.
  cbn [map fst]. unfold reorder at 1. cbn [flat_map fm_get]. rewrite Z.eqb_refl. cbn [app].
  f_equal. change (reorder (map fst r) ((k, v) :: r) = r). rewrite reorder_skip by exact HF.
  apply IH. exact HS'.
Qed.

Lemma dist_loop_ord_nil {T} (N : NumOps T) mn mx bg : forall rm cur bucket acc,
  ksorted cur ->
  dist_loop_ord N mn mx bg rm [] cur bucket acc = dist_loop N mn mx bg rm cur bucket acc.
Proof.
  induction rm as [|[[irow mnext] rnext] r IH]; intros cur bucket acc Hs; [reflexivity|].
  cbn [dist_loop_ord dist_loop hd tl]. rewrite (reorder_keys cur Hs).
  pose proof (step_row_ksorted N mn mx mnext rnext irow bg cur bucket) as Hn.
  destruct (step_row N mn mx mnext rnext irow bg cur bucket) as [nxt b]. cbn [fst] in Hn.
  apply IH. exact Hn.
Qed.

Theorem distribution_ord_nil : forall {T} (N : NumOps T) G bg mn mx,
  distribution_ord N [] G bg mn mx = distribution N G bg mn mx.
Proof.
  intros T N G bg mn mx. unfold distribution_ord, distribution.
  destruct (g_int G) as [|irow0 irows]; [reflexivity|].
  destruct (negb _); [reflexivity|]. destruct (mx =? i64_max)%Z; [reflexivity|].
  rewrite dist_loop_ord_nil by apply init_row_ksorted. reflexivity.
Qed.

Lemma pv_next_with_ord_nil {T} (N : NumOps T) rows perm bg score g :
  pv_next_with N (distribution_ord N []) rows perm bg score g = pv_next N rows perm bg score g.
Proof.
  unfold pv_next_with, pv_next, lookup_pvalue_with, lookup_pvalue.
  destruct (recompute N rows perm g) as [G| | |]; try reflexivity. cbn [rbind].
  destruct (n_isnan N (g_gran G)); [reflexivity|].
  destruct (sum_i64 21 0 (g_off G)) as [osum| | |]; try reflexivity. cbn [rbind].
  rewrite distribution_ord_nil. reflexivity.
Qed.

Lemma sc_next_with_ord_nil {T} (N : NumOps T) rows perm bg p g win :
  sc_next_with N (distribution_ord N []) rows perm bg p g win = sc_next N rows perm bg p g win.
Proof.
  unfold sc_next_with, sc_next, lookup_score_with, lookup_score.
  destruct (recompute N rows perm g) as [G| | |]; try reflexivity. cbn [rbind].
  destruct (n_isnan N (g_gran G)); [reflexivity|].
  rewrite distribution_ord_nil. reflexivity.
Qed.

Theorem pv_run_ord_nil : forall {T} (N : NumOps T) steps rows perm bg score g,
  pv_run_ord N steps [] rows perm bg score g = pv_run N steps rows perm bg score g.
Proof.
  intros T N steps rows perm bg score. induction steps as [|n IH]; intros g; [reflexivity|].
  cbn [pv_run_ord pv_run hd tl]. destruct (le N g (n_zero N)); [reflexivity|].
  rewrite pv_next_with_ord_nil. destruct (pv_next N rows perm bg score g) as [it| | |]; try reflexivity.
  rewrite IH. reflexivity.
Qed.

Theorem sc_run_ord_nil : forall {T} (N : NumOps T) steps rows perm bg p g win,
  sc_run_ord N steps [] rows perm bg p g win = sc_run N steps rows perm bg p g win.
Proof.
  intros T N steps rows perm bg p. induction steps as [|n IH]; intros g win; [reflexivity|].
  cbn [sc_run_ord sc_run hd tl]. destruct (le N g (n_zero N)); [reflexivity|].
  rewrite sc_next_with_ord_nil. destruct (sc_next N rows perm bg p g win) as [it| | |]; try reflexivity.
  rewrite IH. reflexivity.
Qed.

(* ------------------------------------------------------------------ *)
(** * 3. Exact arithmetic: the visiting order does not matter *)
Open Scope Q_scope.

Definition fm_equiv (m m' : list (Z * Q)) : Prop :=
  Forall2 (fun a b => fst a = fst b /\ snd a == snd b) m m'.

Lemma fm_equiv_refl m : fm_equiv m m.
Proof. induction m; constructor; auto. split; reflexivity. Qed.

Lemma fm_equiv_keys m m' : fm_equiv m m' -> keys m = keys m'.
Proof. induction 1 as [|a b l l' [E _] _ IH]; [reflexivity|]. cbn [keys map]. unfold keys in IH. congruence. Qed.

Lemma fm_equiv_length m m' : fm_equiv m m' -> length m = length m'.
Proof. induction 1; cbn [length]; congruence. Qed.

Lemma fm_equiv_meas m m' F : fm_equiv m m' -> meas m F == meas m' F.
Proof.
  unfold meas. induction 1 as [|a b l l' [E1 E2] _ IH]; [reflexivity|].
  cbn [map Qsum]. rewrite IH, E1, E2. reflexivity.
Qed.

Lemma fm_set_equiv k v v' m m' : v == v' -> fm_equiv m m' -> fm_equiv (fm_set k v m) (fm_set k v' m').
Proof.
  intros Hv. induction 1 as [|[k1 v1] [k2 v2] l l' [E1 E2] Hl IH]; cbn [fm_set].
  - constructor; [split; [reflexivity|exact Hv]|constructor].
  - cbn [fst snd] in E1, E2. subst k2.
    destruct (k <? k1)%Z.
    + constructor; [split; [reflexivity|exact Hv]|]. constructor; [split; auto|exact Hl].
    + destruct (k =? k1)%Z.
      * constructor; [split; [reflexivity|exact Hv]|exact Hl].
      * constructor; [split; auto|exact IH].
Qed.

(* two strictly increasing lists with the same elements are equal *)
Lemma SSorted_lt_ext : forall l l' : list Z,
  StronglySorted Z.lt l -> StronglySorted Z.lt l' -> (forall x, In x l <-> In x l') -> l = l'.
Proof.
  induction l as [|a l IH]; intros [|b l'] HS HS' H.
  - reflexivity.
  - exfalso. apply (proj2 (H b)). left; reflexivity.
  - exfalso. apply (proj1 (H a)). left; reflexivity.
  - inversion HS as [|? ? S1 F1]; subst. inversion HS' as [|? ? S2 F2]; subst.
    rewrite Forall_forall in F1, F2.
    assert (a = b).
    { destruct (proj1 (H a) (or_introl eq_refl)) as [E|Hin]; [auto|].
      destruct (proj2 (H b) (or_introl eq_refl)) as [E|Hin']; [auto|].
      specialize (F1 _ Hin'). specialize (F2 _ Hin). lia. }
    subst b. f_equal. apply IH; auto. intros x. split; intros Hx.
    + destruct (proj1 (H x) (or_intror Hx)) as [E|Hin]; [|exact Hin]. subst x. specialize (F1 _ Hx). lia.
    + destruct (proj2 (H x) (or_intror Hx)) as [E|Hin]; [|exact Hin]. subst x. specialize (F2 _ Hx). lia.
Qed.

(* extensionality of key-sorted tables as measures *)
Lemma sorted_meas_ext : forall m m' : list (Z * Q),
  sorted m -> sorted m' -> keys m = keys m' -> (forall psi, meas m psi == meas m' psi) -> fm_equiv m m'.
Proof.
  induction m as [|[k v] r IH]; intros [|[k' v'] r'] HS HS' HK HM; try discriminate.
  - constructor.
  - cbn [keys map fst] in HK. injection HK as -> HK.
    assert (Ev : v == v').
    { rewrite <- (meas_point ((k', v) :: r) k' v HS (or_introl eq_refl)).
      rewrite <- (meas_point ((k', v') :: r') k' v' HS' (or_introl eq_refl)). apply HM. }
    constructor; [split; [reflexivity|exact Ev]|].
    unfold sorted in HS, HS'. cbn [keys map fst] in HS, HS'.
    inversion HS; subst. inversion HS'; subst.
    apply IH; auto. intros psi. pose proof (HM psi) as E. unfold meas in E |- *.
    cbn [map Qsum fst snd] in E. rewrite Ev in E. lra.
Qed.

(* [lst] is visited instead of [cur]: same keys, same measure *)
Definition veq (lst cur : list (Z * Q)) : Prop :=
  (forall F, meas lst F == meas cur F) /\ (forall j, In j (keys lst) <-> In j (keys cur)).

Lemma veq_equiv m m' : fm_equiv m m' -> veq m m'.
Proof.
  intros H. split.
  - intros F. apply fm_equiv_meas. exact H.
  - intros j. rewrite (fm_equiv_keys _ _ H). reflexivity.
Qed.

Lemma veq_perm m m' : Permutation m m' -> veq m m'.
Proof.
  intros H. split.
  - intros F. unfold meas. induction H as [|x l l' _ IH|x y l|l l' l'' _ IH1 _ IH2]; cbn [map Qsum].
    + reflexivity.
    + rewrite IH. reflexivity.
    + lra.
    + rewrite IH1. exact IH2.
  - intros j. unfold keys. split; apply Permutation_in; [|symmetry]; apply Permutation_map; exact H.
Qed.

Lemma veq_trans a b c : veq a b -> veq b c -> veq a c.
Proof.
  intros [H1 H2] [H3 H4]. split.
  - intros F. rewrite H1. apply H3.
  - intros j. rewrite H2. apply H4.
Qed.

Lemma veq_sym a b : veq a b -> veq b a.
Proof.
  intros [H1 H2]. split.
  - intros F. symmetry. apply H1.
  - intros j. symmetry. apply H2.
Qed.

(* one row of the propagation only depends on the visited list up to [veq] *)
Lemma step_row_veq mn mx mnext Rn irow (bg : list Q) lst lst' b b' nxt nxt' c c' :
  veq lst lst' -> b == b' ->
  step_row NumQ mn mx mnext Rn irow bg lst b = (nxt, c) ->
  step_row NumQ mn mx mnext Rn irow bg lst' b' = (nxt', c') ->
  fm_equiv nxt nxt' /\ c == c' /\ sorted nxt'.
Proof.
  intros [V1 V2] Hb H H'. unfold step_row in H, H'.
  destruct (rows_fold mn mx mnext Rn _ _ _ _ _ _ H) as [F1 [F2 [F3 F4]]].
  destruct (rows_fold mn mx mnext Rn _ _ _ _ _ _ H') as [G1 [G2 [G3 G4]]].
  assert (S0 : sorted []) by constructor.
  split; [|split].
  - apply sorted_meas_ext; [apply F3; exact S0|apply G3; exact S0| |].
    + apply SSorted_lt_ext; [apply F3; exact S0|apply G3; exact S0|].
      intros j. rewrite F4, G4. split; (intros [Hj|[kv [cb [Hkv Hr]]]]; [left; exact Hj|right]).
      * assert (Hk : In (fst kv) (keys lst')) by (apply V2; unfold keys; apply in_map; exact Hkv).
        unfold keys in Hk. apply in_map_iff in Hk. destruct Hk as [kv' [E Hkv']].
        exists kv', cb. rewrite E. auto.
      * assert (Hk : In (fst kv) (keys lst)) by (apply V2; unfold keys; apply in_map; exact Hkv).
        unfold keys in Hk. apply in_map_iff in Hk. destruct Hk as [kv' [E Hkv']].
        exists kv', cb. rewrite E. auto.
    + intros psi. rewrite F1, G1, V1. reflexivity.
  - rewrite F2, G2, V1, Hb. reflexivity.
  - apply G3. exact S0.
Qed.

(* a complete order of the keys gives a permutation of the table *)
Lemma ksorted_NoDup (l : list Z) : StronglySorted Z.lt l -> NoDup l.
Proof.
  induction 1 as [|a l _ IH F]; constructor; [|exact IH].
  rewrite Forall_forall in F. intros Hin. specialize (F _ Hin). lia.
Qed.

Lemma reorder_perm (ord : list Z) (m : list (Z * Q)) :
  sorted m -> ord_ok ord m = true -> Permutation (reorder ord m) m.
Proof.
  intros HS Hok. unfold ord_ok in Hok. apply andb_true_iff in Hok. destruct Hok as [Hlen Hall].
  apply Nat.eqb_eq in Hlen. rewrite forallb_forall in Hall.
  assert (HP : Permutation (fm_keys m) ord).
  { apply NoDup_Permutation_bis.
    - apply ksorted_NoDup. exact HS.
    - unfold fm_keys. rewrite map_length. lia.
    - intros k Hk. specialize (Hall k Hk). apply existsb_exists in Hall. destruct Hall as [x [Hx E]].
      apply Z.eqb_eq in E. subst x. exact Hx. }
  rewrite <- (reorder_keys m HS) at 2. unfold reorder. apply Permutation_flat_map. symmetry. exact HP.
Qed.

(* the tables visited by the ord loop, in order (rows 0 .. M-2 of the result) *)
Fixpoint visited (mn mx : Z) (bg : list Q) (rm : list (list Z * Z * Q)) (ords : list (list Z))
         (cur : list (Z * Q)) (bucket : Q) : list (list (Z * Q)) :=
  match rm with
  | [] => []
  | (irow, mnext, rnext) :: r =>
      let '(nxt, b) := step_row NumQ mn mx mnext rnext irow bg (reorder (hd (fm_keys cur) ords) cur) bucket in
      cur :: visited mn mx bg r (tl ords) nxt b
  end.

Lemma dist_loop_ord_acc mn mx bg : forall rm ords cur bucket acc,
  fst (fst (dist_loop_ord NumQ mn mx bg rm ords cur bucket acc)) = rev (visited mn mx bg rm ords cur bucket) ++ acc.
Proof.
  induction rm as [|[[irow mnext] rnext] r IH]; intros ords cur bucket acc; [reflexivity|].
  cbn [dist_loop_ord visited].
  destruct (step_row NumQ mn mx mnext rnext irow bg (reorder (hd (fm_keys cur) ords) cur) bucket) as [nxt b].
  rewrite IH. cbn [rev]. rewrite <- app_assoc. reflexivity.
Qed.

Lemma ords_ok_cons (o : list Z) os (r : list (Z * Q)) rs x :
  ords_ok (o :: os) (r :: rs ++ [x]) = ord_ok o r && ords_ok os (rs ++ [x]).
Proof. destruct rs; reflexivity. Qed.

Lemma dist_loop_ord_equiv mn mx bg : forall rm ords cur cur' bucket bucket' acc acc' x,
  ords_ok ords (visited mn mx bg rm ords cur' bucket' ++ [x]) = true ->
  sorted cur' -> fm_equiv cur cur' -> bucket == bucket' -> Forall2 fm_equiv acc acc' ->
  Forall2 fm_equiv (fst (fst (dist_loop NumQ mn mx bg rm cur bucket acc)))
                   (fst (fst (dist_loop_ord NumQ mn mx bg rm ords cur' bucket' acc'))) /\
  fm_equiv (snd (fst (dist_loop NumQ mn mx bg rm cur bucket acc)))
           (snd (fst (dist_loop_ord NumQ mn mx bg rm ords cur' bucket' acc'))) /\
  snd (dist_loop NumQ mn mx bg rm cur bucket acc) == snd (dist_loop_ord NumQ mn mx bg rm ords cur' bucket' acc').
Proof.
  induction rm as [|[[irow mnext] rnext] r IH]; intros ords cur cur' bucket bucket' acc acc' x Hok HS He Hb Ha.
  - cbn [dist_loop dist_loop_ord fst snd]. auto.
  - cbn [dist_loop dist_loop_ord]. cbn [visited] in Hok.
    assert (Hv : veq cur (reorder (hd (fm_keys cur') ords) cur') /\
                 ords_ok (tl ords) (let '(nxt, b) := step_row NumQ mn mx mnext rnext irow bg
                                                       (reorder (hd (fm_keys cur') ords) cur') bucket' in
                                    visited mn mx bg r (tl ords) nxt b ++ [x]) = true).
    { destruct (step_row NumQ mn mx mnext rnext irow bg (reorder (hd (fm_keys cur') ords) cur') bucket') as [nxt' b'].
      destruct ords as [|o os]; cbn [hd tl] in *.
      - split; [|reflexivity]. rewrite (reorder_keys cur' HS). apply veq_equiv. exact He.
      - cbn [app] in Hok. rewrite ords_ok_cons in Hok. apply andb_true_iff in Hok. destruct Hok as [Ho Hos].
        split; [|exact Hos]. apply veq_trans with cur'; [apply veq_equiv; exact He|].
        apply veq_sym. apply veq_perm. apply reorder_perm; assumption. }
    destruct Hv as [Hv Hok'].
    destruct (step_row NumQ mn mx mnext rnext irow bg cur bucket) as [nxt b] eqn:E1.
    destruct (step_row NumQ mn mx mnext rnext irow bg (reorder (hd (fm_keys cur') ords) cur') bucket') as [nxt' b'] eqn:E2.
    destruct (step_row_veq _ _ _ _ _ _ _ _ _ _ _ _ _ _ Hv Hb E1 E2) as [Hn [Hb' Hs']].
    apply (IH (tl ords) nxt nxt' b b' (cur :: acc) (cur' :: acc') x Hok' Hs' Hn Hb').
    constructor; assumption.
Qed.

Lemma init_row_sorted mn maxs1 irow (bg : list Q) : sorted (init_row NumQ mn maxs1 irow bg).
Proof. exact (init_row_ksorted NumQ mn maxs1 irow bg). Qed.

Lemma Forall2_rev {A B} (R : A -> B -> Prop) l l' : Forall2 R l l' -> Forall2 R (rev l) (rev l').
Proof.
  induction 1; cbn [rev]; [constructor|]. apply Forall2_app; [assumption|]. constructor; [assumption|constructor].
Qed.

Theorem distribution_ord_equiv : forall ords G bg mn mx rows',
  distribution_ord NumQ ords G bg mn mx = Ok rows' -> ords_ok ords rows' = true ->
  exists rows, distribution NumQ G bg mn mx = Ok rows /\ Forall2 fm_equiv rows rows'.
Proof.
  intros ords G bg mn mx rows' H Hok. unfold distribution_ord in H. unfold distribution.
  destruct (g_int G) as [|irow0 irows0]; [discriminate|].
  destruct (negb _); [discriminate|]. destruct (mx =? i64_max)%Z; [discriminate|].
  set (mass := n_sub NumQ (n_one NumQ) (last bg (n_zero NumQ))) in *.
  set (rest := rest_sums NumQ mass (length (irow0 :: irows0))) in *.
  set (maxs := suffix_sums (g_maxr G)) in *.
  set (rm := combine (combine irows0 (skipn 2 maxs)) (skipn 2 rest)) in *.
  set (q0 := init_row NumQ mn (nth 1 maxs 0%Z) irow0 bg) in *.
  pose proof (dist_loop_ord_acc mn mx bg rm ords q0 (n_zero NumQ) (@nil (fmap (T:=Q)))) as Hacc.
  pose proof (fun x Hx => dist_loop_ord_equiv mn mx bg rm ords q0 q0 (n_zero NumQ) (n_zero NumQ) (@nil (fmap (T:=Q))) (@nil (fmap (T:=Q))) x Hx
                (init_row_sorted _ _ _ _) (fm_equiv_refl q0) (Qeq_refl _) (Forall2_nil _)) as Heq.
  revert H Hacc Heq.
  destruct (dist_loop_ord NumQ mn mx bg rm ords q0 (n_zero NumQ) []) as [[A' C'] B'].
  destruct (dist_loop NumQ mn mx bg rm q0 (n_zero NumQ) []) as [[A C] B].
  intros H Hacc Heq.
  cbn [fst snd] in Hacc, Heq. inversion H; subst rows'; clear H.
  rewrite app_nil_r in Hacc. subst A'. rewrite rev_involutive in Hok.
  destruct (Heq _ Hok) as [H1 [H2 H3]].
  eexists. split; [reflexivity|].
  apply Forall2_app; [apply Forall2_rev; exact H1|].
  constructor; [|constructor]. apply fm_set_equiv; assumption.
Qed.

Lemma Forall2_last {A B} (R : A -> B -> Prop) l l' d d' : Forall2 R l l' -> R d d' -> R (last l d) (last l' d').
Proof.
  intros H Hd. induction H as [|a b l l' Hab Hl IH]; [exact Hd|].
  destruct Hl; [exact Hab|]. exact IH.
Qed.

Lemma fm_equiv_in_r m m' kv' : fm_equiv m m' -> In kv' m' -> exists kv, In kv m /\ fst kv = fst kv' /\ snd kv == snd kv'.
Proof.
  induction 1 as [|a b l l' Hab _ IH]; intros Hin; [destruct Hin|].
  destruct Hin as [<-|Hin].
  - exists a. split; [left; reflexivity|exact Hab].
  - destruct (IH Hin) as [kv [H1 H2]]. exists kv. split; [right; exact H1|exact H2].
Qed.

(* [dist_exact] speaks of keys and of values up to == *)
Lemma dist_exact_equiv ir mn mx m m' : dist_exact ir mn mx m -> fm_equiv m m' -> dist_exact ir mn mx m'.
Proof.
  intros [body [vb [E [D1 [D2 [D3 D4]]]]]] He. subst m.
  apply Forall2_app_inv_l in He. destruct He as [body' [lst' [Hb [Hl E']]]].
  inversion Hl as [|a [k' vb'] ? ? [K V] Hn]; subst. inversion Hn; subst. cbn [fst snd] in K, V. subst k'.
  change (fm_equiv body body') in Hb.
  pose proof (fm_equiv_keys _ _ Hb) as HK. unfold keys in HK.
  exists body', vb'. split; [reflexivity|]. split; [rewrite <- HK; exact D1|].
  split; [|split; [rewrite <- V; exact D3|rewrite <- HK; exact D4]].
  intros kv' Hkv'. destruct (fm_equiv_in_r _ _ _ Hb Hkv') as [kv [Hin [E1 E2]]].
  destruct (D2 kv Hin) as [R1 R2]. rewrite <- E1, <- E2. split; assumption.
Qed.

Theorem distribution_ord_exact (ords : list (list Z)) (G : geom) (bg : list Q) mn mx rowsq n :
  distribution_ord NumQ ords G bg mn mx = Ok rowsq ->
  ords_ok ords rowsq = true ->
  (2 <= length (g_int G))%nat ->
  Forall (fun r => length r = n /\ forall c, In c r -> (0 <= c)%Z) (g_int G) ->
  g_maxr G = map zmax_of (g_int G) ->
  bg_mass n bg -> (n <= length bg)%nat -> (mn <= mx + 1)%Z ->
  dist_exact (irows (g_int G) bg) mn mx (last rowsq []).
Proof.
  intros H Hok H2 H3 H4 H5 H6 H7.
  destruct (distribution_ord_equiv ords G bg mn mx rowsq H Hok) as [rows [Hd He]].
  apply dist_exact_equiv with (last rows []).
  - exact (distribution_exact G bg mn mx rows n Hd H2 H3 H4 H5 H6 H7).
  - apply Forall2_last; [exact He|constructor].
Qed.

(* ------------------------------------------------------------------ *)
(** * 4. C12, one refinement step, for the ord model *)

(* TfmProofs.lookup_pvalue_sound only uses the table through [dist_exact]: the same
   proof for the text over any table function [D] *)
Theorem lookup_pvalue_with_sound (D : dist_fn (T:=Q)) rows perm bg K g G score o :
  matrix_ok K rows bg -> 0 < g -> length perm = length rows ->
  recompute NumQ rows perm g = Ok G ->
  lookup_pvalue_with NumQ D G bg score = Ok o ->
  dist_exact (irows (g_int G) bg) (pv_lo o) (pv_hi o) (last (pv_rows o) []) ->
  let M := inject_Z (Z.of_nat (length rows)) in
  let cs := perm_cells rows perm in
  pv_min o <= pv_max o /\ 0 <= pv_min o /\ pv_max o <= 1 /\
  tailS cs bg (score + (M + 1) * g) <= pv_min o /\
  pv_max o <= tailS cs bg (score - (M + 2) * g).
Proof.
  intros [HK [Hlen [Hbgl [Hbg [Hunit Hwild]]]]] Hg Hperm Hrec Hlook Hdist M cs.
  destruct (recompute_Q_geom _ _ _ _ Hrec) as [prow [Hp [Hgran [Hg1 [Hint [Hoff [Hne [_ [_ Hem]]]]]]]]].
  destruct (permuted_rows_spec _ _ _ Hp) as [Hplen [Hpin Hcells]].
  set (css := map cells prow) in *.
  assert (Hcs : cs = css) by (unfold cs; symmetry; exact Hcells).
  (* error_max bounds *)
  rewrite combine_map_self, tl_map in Hem.
  apply error_max_from_Q in Hem; auto; [|apply Forall_tl; auto].
  destruct Hem as [Em0 [Em1 _]].
  assert (EmM : g_emax G <= M).
  { unfold M. rewrite <- Hperm, <- Hplen.
    assert (inject_Z (Z.of_nat (length (tl prow))) <= inject_Z (Z.of_nat (length prow))).
    { rewrite <- Zle_Qle. destruct prow; simpl; lia. }
    lra. }
  (* unfold the lookup *)
  unfold lookup_pvalue_with in Hlook. cbn [NumQ n_isnan n_add n_sub n_div n_ofZ n_floorZ n_one n_zero] in Hlook.
  apply rbind_ok in Hlook. destruct Hlook as [osum [Hosum Hlook]].
  apply rbind_ok in Hlook. destruct Hlook as [rows_t [Hrows_t Hlook]].
  apply sum_i64_ok in Hosum. rewrite Z.add_0_l in Hosum.
  rewrite Hgran in Hlook.
  set (scaled := score / g + inject_Z osum) in *.
  set (avg := Qfloor scaled) in *.
  set (mx := Qfloor (scaled + g_emax G + 1)) in *.
  set (mn := Qfloor (scaled - g_emax G - 1)) in *.
  set (lastm := last rows_t []) in *.
  destruct (fm_get _ _) as [pmin|] eqn:Hget; [|discriminate].
  destruct (walk_down _ _ _) as [kv|] eqn:Hwalk; [|discriminate].
  inversion Hlook; subst o; clear Hlook. simpl in *.
  fold mx in Hdist. fold mn in Hdist. fold lastm in Hdist.
  set (ir := irows (g_int G) bg) in *.
  assert (W : wf_rows ir) by (apply wf_irows; auto).
  assert (U : unit_rows ir).
  { apply (unit_irows (K - 1)); auto; [lia|]. rewrite Hint. unfold ints_of. rewrite Forall_forall.
    intros r Hr. apply in_map_iff in Hr. destruct Hr as [c [<- Hc]]. rewrite map_length.
    unfold css in Hc. apply in_map_iff in Hc. destruct Hc as [r0 [<- Hr0]]. apply cells_length.
    rewrite Forall_forall in Hlen, Hpin. apply Hlen. apply Hpin. auto. }
  assert (Hmnavg : (mn <= avg)%Z) by (apply (Qfloor_resp_le (scaled - g_emax G - 1) scaled); lra).
  assert (Havgmx : (avg <= mx)%Z) by (apply (Qfloor_resp_le scaled (scaled + g_emax G + 1)); lra).
  destruct (pv_table_sound ir mn mx avg _ lastm W Hdist Hmnavg ltac:(lia) pmin kv Hget Hwalk)
    as [Hpmin [Hpmax [Hkv Hs]]].
  set (s := match find (fun kv0 : Z * Q => (avg <=? fst kv0)%Z) (rev (cum_desc NumQ 0 (rev lastm))) with
            | Some kv0 => fst kv0 | None => (mx + 1)%Z end) in *.
  assert (Hc1 : forall x, x <= 1 -> clamp1 NumQ x = x).
  { intros x Hx. unfold clamp1, gt. cbn [NumQ n_cmp n_one]. unfold Qcmp_opt.
    destruct (Qcompare x 1) eqn:Ec; try reflexivity. apply Qgt_alt in Ec. lra. }
  rewrite (Hc1 pmin) by (rewrite Hpmin; apply PI_ge_le_1; auto).
  rewrite (Hc1 (snd kv)) by (rewrite Hpmax; apply PI_ge_le_1; auto).
  rewrite Hpmin, Hpmax.
  split. { apply PI_ge_mono; auto. lia. }
  split. { apply PI_ge_nonneg; auto. }
  split. { apply PI_ge_le_1; auto. }
  (* the two brackets, through the joint rows *)
  assert (WJ : wf_rows (jrows g bg css)) by (apply wf_jrows; auto).
  assert (Hosum' : osum = Zsum (offs_of g css)) by (rewrite Hosum, Hoff; reflexivity).
  assert (HM : M = inject_Z (Z.of_nat (length css))).
  { unfold M, css. rewrite map_length, Hplen, Hperm. reflexivity. }
  unfold tailS. rewrite Hcs. unfold PI_ge, ir. rewrite Hint.
  rewrite !(wsum_S_joint g), !(wsum_I_joint g).
  split.
  - apply wsum_le; auto. intros l Hl. apply ind_impl. intros Hle.
    apply Qle_bool_iff in Hle. apply Z.leb_le.
    destruct (int_score_error_coarse g bg css l Hg Hl) as [E0 [E1 _]]. rewrite <- HM, <- Hosum' in *.
    apply Hs.
    + unfold ir. rewrite Hint, (irows_jrows g). apply (attain_map (fun xc : Q * Z => snd xc)). exact Hl.
    + pose proof (up_arith g _ _ _ M score Hg Hle E0 E1) as HA. fold scaled in HA.
      assert (HF : inject_Z avg <= scaled) by exact (Qfloor_le scaled).
      rewrite Zle_Qle. apply Qle_trans with scaled; [exact HF|].
      apply Qle_trans with (scaled + 1); [|exact HA].
      rewrite <- (Qplus_0_r scaled) at 1. apply Qplus_le_r. discriminate.
  - apply Qle_trans with (wsum (jrows g bg css) (fun l => ind (mn <=? Zsum (map (fun xc : Q * Z => snd xc) l))%Z)).
    + apply wsum_le; auto. intros l _. apply ind_impl. intros E. apply Z.leb_le in E. apply Z.leb_le. lia.
    + apply wsum_le; auto. intros l Hl. apply ind_impl. intros Hle. apply Z.leb_le in Hle.
      apply Qle_bool_iff.
      destruct (int_score_error_coarse g bg css l Hg Hl) as [E0 [E1 _]]. rewrite <- HM, <- Hosum' in *.
      apply (dn_arith g _ (inject_Z osum) (inject_Z (Zsum (map (fun xc : Q * Z => snd xc) l))) M score (g_emax G) mn); auto.
      rewrite <- Zle_Qle. exact Hle.
Qed.

(* PvaluesIterator::next with the hash maps visited in the orders [ords] *)
Theorem pv_next_ord_sound ords rows perm bg K g score it :
  matrix_ok K rows bg -> (2 <= length rows)%nat -> length perm = length rows -> 0 < g ->
  pv_next_with NumQ (distribution_ord NumQ ords) rows perm bg score g = Ok it ->
  ords_ok ords (io_rows it) = true ->
  let M := inject_Z (Z.of_nat (length rows)) in
  let cs := perm_cells rows perm in
  io_gran it = g /\
  io_start it <= io_end it /\ 0 <= io_start it /\ io_end it <= 1 /\
  tailS cs bg (score + (M + 1) * g) <= io_start it /\
  io_end it <= tailS cs bg (score - (M + 2) * g).
Proof.
  intros Hok HM Hperm Hg H Hords M cs. unfold pv_next_with in H.
  apply rbind_ok in H. destruct H as [G [Hrec H]].
  apply rbind_ok in H. destruct H as [o [Hlook H]].
  inversion H; subst it; clear H. cbn [io_gran io_start io_end io_rows] in *. split; [reflexivity|].
  destruct (recompute_cells _ _ _ _ _ _ Hok Hrec) as [Hcells [Hmaxr HlenG]].
  destruct (matrix_ok_bg _ _ _ Hok) as [Hunit Hbl].
  assert (Hdist : dist_exact (irows (g_int G) bg) (pv_lo o) (pv_hi o) (last (pv_rows o) [])).
  { pose proof Hlook as Hl. unfold lookup_pvalue_with in Hl. cbn [NumQ n_isnan] in Hl.
    apply rbind_ok in Hl. destruct Hl as [osum [_ Hl]].
    apply rbind_ok in Hl. destruct Hl as [rowsq [Hd Hl]].
    destruct (fm_get _ _) as [pmin|]; [|discriminate].
    destruct (walk_down _ _ _) as [kv|]; [|discriminate].
    inversion Hl; subst o; clear Hl. cbn [pv_lo pv_hi pv_rows] in *.
    apply (distribution_ord_exact ords G bg _ _ rowsq (K - 1)%nat Hd Hords); [lia|exact Hcells|exact Hmaxr|exact Hunit|exact Hbl|].
    destruct (recompute_Q_geom _ _ _ _ Hrec) as [prow [Hpr [Hgran [Hg1 [Hint [Hoff [Hne [_ [_ Hem]]]]]]]]].
    destruct (permuted_rows_spec _ _ _ Hpr) as [Hplen [Hpin Hcs]].
    destruct Hok as [_ [_ [_ [_ [_ Hwild]]]]].
    rewrite combine_map_self, tl_map in Hem.
    apply error_max_from_Q in Hem; auto.
    2:{ apply Forall_tl. exact Hne. }
    destruct Hem as [Em0 _]. cbn [NumQ n_floorZ n_add n_sub n_div n_ofZ n_one].
    set (sc := score / g_gran G + inject_Z osum).
    assert (Qfloor (sc - g_emax G - 1) <= Qfloor (sc + g_emax G + 1))%Z by (apply Qfloor_resp_le; lra).
    lia. }
  exact (lookup_pvalue_with_sound _ rows perm bg K g G score o Hok Hg Hperm Hrec Hlook Hdist).
Qed.

(* C12, one refinement step, for the matrix as given (statement of TfmLink.pv_step_bounds) *)
Theorem pv_next_ord_bounds ords rows perm bg K g score it :
  matrix_ok K rows bg -> (2 <= length rows)%nat -> Permutation perm (seq 0 (length rows)) -> 0 < g ->
  pv_next_with NumQ (distribution_ord NumQ ords) rows perm bg score g = Ok it ->
  ords_ok ords (io_rows it) = true ->
  let M := inject_Z (Z.of_nat (length rows)) in
  io_gran it = g /\
  io_start it <= io_end it /\ 0 <= io_start it /\ io_end it <= 1 /\
  Ptail rows bg (score + (M + 1) * g) <= io_start it /\
  io_end it <= Ptail rows bg (score - (M + 2) * g).
Proof.
  intros Hok HM Hperm Hg H Hords M.
  assert (Hlen : length perm = length rows).
  { apply Permutation_length in Hperm. rewrite seq_length in Hperm. exact Hperm. }
  destruct (pv_next_ord_sound ords rows perm bg K g score it Hok HM Hlen Hg H Hords) as [A [B [C [D [E F]]]]].
  rewrite (Ptail_perm rows perm bg _ Hperm) in E. rewrite (Ptail_perm rows perm bg _ Hperm) in F. repeat split; assumption.
Qed.

(* ------------------------------------------------------------------ *)
(** * 5. C13, one refinement step, for the ord model *)

(* TfmScore.lookup_score_sound only uses the table through [dist_exact] *)
Theorem lookup_score_with_sound (D : dist_fn (T:=Q)) rows perm bg K g G p mn mx o :
  matrix_ok K rows bg -> 0 < g -> length perm = length rows ->
  recompute NumQ rows perm g = Ok G ->
  lookup_score_with NumQ D G bg p mn mx = Ok o ->
  dist_exact (irows (g_int G) bg) mn mx (last (ls_rows o) []) ->
  WindowOK o -> 0 < p ->
  let M := inject_Z (Z.of_nat (length rows)) in
  let cs := perm_cells rows perm in
  let t := inject_Z (ls_alpha o - Zsum (g_off G)) * g in
  let d := (M + 2) * g in
  tailS cs bg (t + d) <= p /\
  (forall l, attain l (srows cs bg) -> Qsum l < t - d -> p <= tailS cs bg (Qsum l - d)).
Proof.
  intros [HK [Hlen [Hbgl [Hbg [Hunit Hwild]]]]] Hg Hperm Hrec Hlook Hdist [Hw1 Hw2] Hp M cs t d.
  destruct (recompute_Q_geom _ _ _ _ Hrec) as [prow [Hpr [Hgran [Hg1 [Hint [Hoff [Hne _]]]]]]].
  destruct (permuted_rows_spec _ _ _ Hpr) as [Hplen [Hpin Hcells]].
  set (css := map cells prow) in *.
  assert (Hcs : cs = css) by (unfold cs; symmetry; exact Hcells).
  unfold lookup_score_with in Hlook. cbn [NumQ n_isnan] in Hlook.
  apply rbind_ok in Hlook. destruct Hlook as [rowsq [Hdistr Hlook]].
  set (lastm := last rowsq []) in *.
  destruct (length lastm) as [|top] eqn:Elen; [discriminate|].
  apply rbind_ok in Hlook. destruct Hlook as [[[riter sum] pvs] [Hloop Hlook]].
  apply rbind_ok in Hlook. destruct Hlook as [[[[a ae] pvs'] exh] [Hsel Hlook]].
  apply rbind_ok in Hlook. destruct Hlook as [pa [Hpa Hlook]].
  apply rbind_ok in Hlook. destruct Hlook as [pe [Hpe Hlook]].
  inversion Hlook; subst o; clear Hlook. cbn [ls_alpha ls_total_lt ls_rows] in *.
  fold lastm in Hdist, Hw2.
  set (ir := irows (g_int G) bg) in *.
  assert (W : wf_rows ir) by (apply wf_irows; auto).
  (* the loop *)
  assert (Hloop' :
    ((1 <= riter)%nat /\ sum == tailsum lastm riter /\ p <= sum /\
       ((S riter < length lastm)%nat -> tailsum lastm (S riter) < p))
    \/ (riter = 0%nat /\ sum == tailsum lastm 1 /\ ((1 < length lastm)%nat -> sum < p))).
  { destruct (ls_loop_spec p lastm top 0 [] riter sum pvs Hloop) as [[A1 [A2 [A3 [A4 A5]]]]|[B1 [B2 B3]]].
    - rewrite tailsum_beyond by lia. reflexivity.
    - intros Hc. lia.
    - left. repeat split; auto.
    - right. repeat split; auto. }
  (* the choice of alpha *)
  assert (Hsel' :
    (gt NumQ sum p = true /\ key_at lastm (S riter) 31 = Ok a /\ exh = false /\
       exists ae0, key_at lastm riter 31 = Ok ae0)
    \/ (gt NumQ sum p = false /\ riter = 0%nat /\ key_at lastm 0 31 = Ok a /\ exh = true)
    \/ (gt NumQ sum p = false /\ riter <> 0%nat /\ key_at lastm riter 31 = Ok a /\ exh = false)).
  { destruct (gt NumQ sum p) eqn:Hgt.
    - apply rbind_ok in Hsel. destruct Hsel as [ae0 [Hae0 Hsel]].
      apply rbind_ok in Hsel. destruct Hsel as [a0 [Ha0 Hsel]].
      inversion Hsel; subst. left. repeat split; auto. exists ae; auto.
    - destruct riter as [|r'].
      + apply rbind_ok in Hsel. destruct Hsel as [a0 [Ha0 Hsel]].
        inversion Hsel; subst. right; left. repeat split; auto.
      + apply rbind_ok in Hsel. destruct Hsel as [a0 [Ha0 Hsel]].
        apply rbind_ok in Hsel. destruct Hsel as [ae0 [Hae0 Hsel]].
        inversion Hsel; subst. right; right. repeat split; auto. }
  cbn [NumQ n_add n_zero] in Hw1.
  destruct (ls_core ir mn mx lastm p riter sum a exh Hdist W Hp Hw2 Hloop' Hsel' Hw1) as [C1 [b [C2 C3]]].
  (* from integer scores to real scores *)
  assert (WJ : wf_rows (jrows g bg css)) by (apply wf_jrows; auto).
  assert (HM : M = inject_Z (Z.of_nat (length css))).
  { unfold M, css. rewrite map_length, Hplen, Hperm. reflexivity. }
  assert (HM0 : 0 <= M).
  { unfold M. change 0 with (inject_Z 0). rewrite <- Zle_Qle. lia. }
  assert (Ht : t == (inject_Z a - inject_Z (Zsum (offs_of g css))) * g).
  { unfold t. rewrite inject_Z_minus, Hoff. reflexivity. }
  set (A := inject_Z a) in *. set (O := inject_Z (Zsum (offs_of g css))) in *.
  unfold tailS. rewrite Hcs.
  split.
  - apply Qle_trans with (PI_ge ir (a + 2)); [|exact C1].
    unfold PI_ge, ir. rewrite Hint. rewrite (wsum_S_joint g), (wsum_I_joint g).
    apply wsum_le; auto. intros l Hl. apply ind_impl. intros Hle.
    apply Qle_bool_iff in Hle. apply Z.leb_le.
    destruct (int_score_error_coarse g bg css l Hg Hl) as [E0 [E1 _]]. rewrite <- HM in E1. fold O in E0, E1.
    rewrite Ht in Hle. unfold d in Hle.
    pose proof (c1_arith g _ O _ M A Hg Hle E1) as HA.
    rewrite Zle_Qle, inject_Z_plus. exact HA.
  - intros lu Hlu Hult.
    destruct (attain_srows_joint g bg css lu) as [lj [Hlj Elj]]; [exact Hlu|].
    destruct (int_score_error_coarse g bg css lj Hg Hlj) as [U0 [U1 _]]. rewrite <- HM in U1. fold O in U0, U1.
    rewrite Elj in U0, U1.
    set (u := Qsum lu) in *.
    set (Iu := Zsum (map (fun xc : Q * Z => snd xc) lj)) in *.
    assert (HIu : (Iu < a)%Z).
    { rewrite Ht in Hult. unfold d in Hult.
      pose proof (u_arith g u O (inject_Z Iu) M A Hg HM0 Hult U0) as HA. unfold A in HA.
      rewrite <- Zlt_Qlt in HA. exact HA. }
    assert (HIub : (Iu <= b)%Z).
    { apply C3; auto. unfold ir. rewrite Hint, (irows_jrows g).
      apply (attain_map (fun xc : Q * Z => snd xc)). exact Hlj. }
    apply Qle_trans with (PI_ge ir b); [exact C2|].
    unfold PI_ge, ir. rewrite Hint. rewrite (wsum_S_joint g), (wsum_I_joint g).
    apply wsum_le; auto. intros l Hl. apply ind_impl. intros Hle.
    apply Z.leb_le in Hle. apply Qle_bool_iff.
    destruct (int_score_error_coarse g bg css l Hg Hl) as [E0 [E1 _]]. fold O in E0.
    unfold d.
    apply (c2_arith g u _ O (inject_Z (Zsum (map (fun xc : Q * Z => snd xc) l))) (inject_Z Iu) M); auto.
    rewrite <- Zle_Qle. lia.
Qed.

Lemma lookup_score_with_rows (D : dist_fn (T:=Q)) G (bg : list Q) p mn mx o :
  lookup_score_with NumQ D G bg p mn mx = Ok o -> D G bg mn mx = Ok (ls_rows o).
Proof.
  intros Hl. unfold lookup_score_with in Hl. cbn [NumQ n_isnan] in Hl.
  apply rbind_ok in Hl. destruct Hl as [rowsq [Hd Hl]]. rewrite Hd. f_equal.
  destruct (length (last rowsq [])); [discriminate|].
  apply rbind_ok in Hl. destruct Hl as [[[riter sum] pvs] [_ Hl]].
  apply rbind_ok in Hl. destruct Hl as [[[[a ae] pvs'] exh] [_ Hl]].
  apply rbind_ok in Hl. destruct Hl as [pa [_ Hl]].
  apply rbind_ok in Hl. destruct Hl as [pe [_ Hl]].
  inversion Hl; subst o. reflexivity.
Qed.

(* ScoresIterator::next on an adequate window, hash maps visited in the orders [ords] *)
Theorem sc_next_ord_sound ords rows perm bg K g p win it :
  matrix_ok K rows bg -> (2 <= length rows)%nat -> length perm = length rows -> 0 < g -> 0 < p ->
  (fst win <= snd win + 1)%Z ->
  sc_next_with NumQ (distribution_ord NumQ ords) rows perm bg p g win = Ok it ->
  ords_ok ords (io_rows it) = true ->
  io_total_lt it = false -> (1 < length (last (io_rows it) []))%nat ->
  let M := inject_Z (Z.of_nat (length rows)) in
  let cs := perm_cells rows perm in
  let t := io_score it in
  let d := (M + 2) * g in
  io_gran it = g /\
  tailS cs bg (t + d) <= p /\
  (forall l, attain l (srows cs bg) -> Qsum l < t - d -> p <= tailS cs bg (Qsum l - d)).
Proof.
  intros Hok HM Hperm Hg Hp Hwin H Hords Hw1 Hw2 M cs t d. unfold sc_next_with in H.
  apply rbind_ok in H. destruct H as [G [Hrec H]].
  apply rbind_ok in H. destruct H as [o [Hlook H]].
  apply rbind_ok in H. destruct H as [osum [Hosum H]].
  destruct (negb _); [discriminate|].
  inversion H; subst it; clear H. cbn [io_gran io_score io_total_lt io_rows] in *. split; [reflexivity|].
  destruct (recompute_cells _ _ _ _ _ _ Hok Hrec) as [Hcells [Hmaxr HlenG]].
  destruct (matrix_ok_bg _ _ _ Hok) as [Hunit Hbl].
  pose proof (lookup_score_with_rows _ _ _ _ _ _ _ Hlook) as Hrows.
  assert (Hdist : dist_exact (irows (g_int G) bg) (fst win) (snd win) (last (ls_rows o) [])).
  { apply (distribution_ord_exact ords G bg _ _ (ls_rows o) (K - 1)%nat Hrows Hords); [lia|exact Hcells|exact Hmaxr|exact Hunit|exact Hbl|exact Hwin]. }
  apply sum_i64_ok in Hosum. rewrite Z.add_0_l in Hosum.
  unfold t. cbn [NumQ n_mul n_ofZ]. rewrite Hosum.
  exact (lookup_score_with_sound _ rows perm bg K g G p (fst win) (snd win) o Hok Hg Hperm Hrec Hlook Hdist
           (conj Hw1 Hw2) Hp).
Qed.

(* C13, one refinement step, for the matrix as given (statement of TfmLink.sc_step_bounds) *)
Theorem sc_next_ord_bounds ords rows perm bg K g p win it :
  matrix_ok K rows bg -> (2 <= length rows)%nat -> Permutation perm (seq 0 (length rows)) ->
  0 < g -> 0 < p -> (fst win <= snd win + 1)%Z ->
  sc_next_with NumQ (distribution_ord NumQ ords) rows perm bg p g win = Ok it ->
  ords_ok ords (io_rows it) = true ->
  io_total_lt it = false -> (1 < length (last (io_rows it) []))%nat ->
  let M := inject_Z (Z.of_nat (length rows)) in
  let t := io_score it in
  let d := (M + 2) * g in
  io_gran it = g /\
  Ptail rows bg (t + d) <= p /\
  (forall l, attain l (srows (sym_cells rows) bg) -> Qsum l < t - d -> p <= Ptail rows bg (Qsum l - d)).
Proof.
  intros Hok HM Hperm Hg Hp Hwin H Hords Hw1 Hw2 M t d.
  destruct (sc_next_ord_sound ords rows perm bg K g p win it Hok HM (perm_length _ _ Hperm) Hg Hp Hwin H Hords Hw1 Hw2)
    as [A [B C]].
  rewrite (Ptail_perm rows perm bg _ Hperm) in B. split; [exact A|]. split; [exact B|].
  exact (clause2_perm rows perm bg p _ _ Hperm C).
Qed.

(* ------------------------------------------------------------------ *)
(** * 6. The runs of the ord model *)

Lemma nth_tl {A} (l : list (list A)) j : nth (S j) l [] = nth j (tl l) [].
Proof. destruct l; [destruct j; reflexivity|reflexivity]. Qed.

Lemma nth_hd {A} (l : list (list A)) : nth 0 l [] = hd [] l.
Proof. destruct l; reflexivity. Qed.

Lemma pv_next_with_gran (D : dist_fn (T:=Q)) rows perm bg score g it :
  pv_next_with NumQ D rows perm bg score g = Ok it -> io_gran it = g.
Proof.
  unfold pv_next_with. intros H.
  apply rbind_ok in H. destruct H as [G [_ H]].
  apply rbind_ok in H. destruct H as [o [_ H]].
  inversion H; subst it. reflexivity.
Qed.

(* C12: every iteration of approximate_pvalue; step i visits its hash maps in the
   orders [nth i ordss []] *)
Theorem pv_run_ord_bounds : forall steps ordss rows perm bg K score g i it,
  matrix_ok K rows bg -> (2 <= length rows)%nat -> Permutation perm (seq 0 (length rows)) -> 0 < g ->
  nth_error (pv_run_ord NumQ steps ordss rows perm bg score g) i = Some (Ok it) ->
  ords_ok (nth i ordss []) (io_rows it) = true ->
  let M := inject_Z (Z.of_nat (length rows)) in
  let gi := io_gran it in
  0 < gi /\ gi <= g /\
  io_start it <= io_end it /\ 0 <= io_start it /\ io_end it <= 1 /\
  Ptail rows bg (score + (M + 1) * gi) <= io_start it /\
  io_end it <= Ptail rows bg (score - (M + 2) * gi).
Proof.
  intros steps ordss rows perm bg K score g i it Hok HM Hperm Hg Hn Hords M gi. subst gi.
  revert ordss g i Hg Hn Hords.
  induction steps as [|n IH]; intros ordss g i Hg Hn Hords; cbn [pv_run_ord] in Hn; [destruct i; discriminate|].
  rewrite (le_pos_false g Hg) in Hn.
  destruct (pv_next_with NumQ (distribution_ord NumQ (hd [] ordss)) rows perm bg score g) as [it0| | |] eqn:Enext;
    try (destruct i as [|[|i]]; discriminate).
  destruct i as [|i]; cbn [nth_error] in Hn.
  - inversion Hn; subst it0; clear Hn. rewrite nth_hd in Hords.
    destruct (pv_next_ord_bounds _ rows perm bg K g score it Hok HM Hperm Hg Enext Hords) as [E [H1 [H2 [H3 [H4 H5]]]]].
    fold M in H4, H5. rewrite E.
    split; [exact Hg|]. split; [lra|]. repeat split; assumption.
  - destruct (io_conv it0); [destruct i; discriminate|].
    destruct (div10_pos g Hg) as [D1 D2]. rewrite nth_tl in Hords.
    destruct (IH _ _ _ D1 Hn Hords) as [A1 [A2 A3]].
    split; [exact A1|]. split; [lra|exact A3].
Qed.

Theorem pv_run_ord_gran : forall steps ordss rows perm bg score g i it,
  nth_error (pv_run_ord NumQ steps ordss rows perm bg score g) i = Some (Ok it) ->
  io_gran it == g / pow10 i.
Proof.
  induction steps as [|n IH]; intros ordss rows perm bg score g i it H; cbn [pv_run_ord] in H.
  - destruct i; discriminate.
  - destruct (le NumQ g (n_zero NumQ)); [destruct i; discriminate|].
    destruct (pv_next_with NumQ (distribution_ord NumQ (hd [] ordss)) rows perm bg score g) as [it0| | |] eqn:Enext;
      try (destruct i as [|[|i]]; discriminate).
    destruct i as [|i]; cbn [nth_error] in H.
    + inversion H; subst it0. rewrite (pv_next_with_gran _ _ _ _ _ _ _ Enext).
      rewrite pow10_0. field.
    + destruct (io_conv it0); [destruct i; discriminate|].
      apply IH in H. rewrite H. cbn [NumQ n_div n_ten]. rewrite pow10_S.
      pose proof (pow10_pos i). field. lra.
Qed.

(* every table of the ord model is key-sorted, whatever the orders (any carrier) *)
Lemma fm_set_keys_gen {T} k v (m : fmap (T:=T)) j :
  In j (map fst (fm_set k v m)) <-> j = k \/ In j (map fst m).
Proof.
  induction m as [|[k' v'] r IH]; cbn [fm_set map fst In].
  - intuition.
  - destruct (Z.ltb_spec k k').
    + cbn [map fst In]. intuition.
    + destruct (Z.eqb_spec k k') as [->|Hne]; cbn [map fst In].
      * intuition.
      * rewrite IH. intuition.
Qed.

Lemma fm_set_ksorted {T} k v (m : fmap (T:=T)) : ksorted m -> ksorted (fm_set k v m).
Proof.
  unfold ksorted. induction m as [|[k' v'] r IH]; intros HS; cbn [fm_set].
  - cbn. constructor; constructor.
  - cbn [map fst] in HS. inversion HS as [|? ? HS' HF]; subst.
    destruct (Z.ltb_spec k k').
    + cbn [map fst]. constructor; [exact HS|].
      constructor; [auto|]. rewrite Forall_forall in *. intros x Hx. specialize (HF x Hx). lia.
    + destruct (Z.eqb_spec k k') as [->|Hne].
      * cbn [map fst]. constructor; assumption.
      * cbn [map fst]. constructor; [apply IH; exact HS'|].
        rewrite Forall_forall in *. intros x Hx.
        apply fm_set_keys_gen in Hx. destruct Hx as [->|Hx]; [lia|auto].
Qed.

Lemma dist_loop_ord_ksorted {T} (N : NumOps T) mn mx bg : forall rm ords cur bucket acc,
  ksorted cur -> Forall ksorted acc ->
  Forall ksorted (fst (fst (dist_loop_ord N mn mx bg rm ords cur bucket acc))) /\
  ksorted (snd (fst (dist_loop_ord N mn mx bg rm ords cur bucket acc))).
Proof.
  induction rm as [|[[irow mnext] rnext] r IH]; intros ords cur bucket acc Hc Ha.
  - cbn [dist_loop_ord fst snd]. auto.
  - cbn [dist_loop_ord].
    pose proof (step_row_ksorted N mn mx mnext rnext irow bg (reorder (hd (fm_keys cur) ords) cur) bucket) as Hn.
    destruct (step_row N mn mx mnext rnext irow bg (reorder (hd (fm_keys cur) ords) cur) bucket) as [nxt b].
    cbn [fst] in Hn. apply IH; [exact Hn|]. constructor; assumption.
Qed.

Theorem distribution_ord_ksorted : forall {T} (N : NumOps T) ords G bg mn mx rows,
  distribution_ord N ords G bg mn mx = Ok rows -> Forall ksorted rows.
Proof.
  intros T N ords G bg mn mx rows H. unfold distribution_ord in H.
  destruct (g_int G) as [|irow0 irows0]; [discriminate|].
  destruct (negb _); [discriminate|]. destruct (mx =? i64_max)%Z; [discriminate|].
  match type of H with context [dist_loop_ord N mn mx bg ?rm ords ?q0 ?z ?a] =>
    pose proof (dist_loop_ord_ksorted N mn mx bg rm ords q0 z a (init_row_ksorted N _ _ _ _) (Forall_nil _)) as Hd;
    destruct (dist_loop_ord N mn mx bg rm ords q0 z a) as [[A C] B] end.
  cbn [fst snd] in Hd. destruct Hd as [H1 H2]. inversion H; subst rows.
  apply Forall_app. split; [apply Forall_rev; exact H1|].
  constructor; [|constructor]. apply fm_set_ksorted. exact H2.
Qed.

(* alpha_e is never above alpha (keys of the table are increasing) *)
Lemma lookup_score_with_alpha_order (D : dist_fn (T:=Q)) G (bg : list Q) p mn mx o :
  lookup_score_with NumQ D G bg p mn mx = Ok o ->
  ksorted (last (ls_rows o) []) ->
  (ls_alpha_e o <= ls_alpha o)%Z.
Proof.
  intros Hlook Hsort.
  unfold lookup_score_with in Hlook. cbn [NumQ n_isnan] in Hlook.
  apply rbind_ok in Hlook. destruct Hlook as [rowsq [Hdistr Hlook]].
  set (lastm := last rowsq []) in *.
  destruct (length lastm) as [|top] eqn:Elen; [discriminate|].
  apply rbind_ok in Hlook. destruct Hlook as [[[riter sum] pvs] [Hloop Hlook]].
  apply rbind_ok in Hlook. destruct Hlook as [[[[a ae] pvs'] exh] [Hsel Hlook]].
  apply rbind_ok in Hlook. destruct Hlook as [pa [Hpa Hlook]].
  apply rbind_ok in Hlook. destruct Hlook as [pe [Hpe Hlook]].
  inversion Hlook; subst o; clear Hlook. cbn [ls_alpha ls_alpha_e ls_rows] in *. fold lastm in Hsort.
  unfold ksorted in Hsort.
  destruct (gt NumQ sum p).
  - apply rbind_ok in Hsel. destruct Hsel as [ae0 [Hae0 Hsel]].
    apply rbind_ok in Hsel. destruct Hsel as [a0 [Ha0 Hsel]]. inversion Hsel; subst.
    apply key_at_ok in Hae0. destruct Hae0 as [v1 H1]. apply key_at_ok in Ha0. destruct Ha0 as [v2 H2].
    assert (ae < a)%Z; [|lia].
    eapply (sorted_nth_lt (map fst lastm) Hsort riter (S riter)); eauto using nth_error_map_fst.
  - destruct riter as [|r'].
    + apply rbind_ok in Hsel. destruct Hsel as [a0 [Ha0 Hsel]]. inversion Hsel; subst. lia.
    + apply rbind_ok in Hsel. destruct Hsel as [a0 [Ha0 Hsel]].
      apply rbind_ok in Hsel. destruct Hsel as [ae0 [Hae0 Hsel]]. inversion Hsel; subst.
      apply key_at_ok in Hae0. destruct Hae0 as [v1 H1]. apply key_at_ok in Ha0. destruct Ha0 as [v2 H2].
      assert (ae < a)%Z; [|lia].
      eapply (sorted_nth_lt (map fst lastm) Hsort r' (S r')); eauto using nth_error_map_fst.
Qed.

Lemma Forall_last {A} (P : A -> Prop) l d : Forall P l -> P d -> P (last l d).
Proof.
  intros H Hd. induction H as [|x l Hx Hl IH]; [exact Hd|].
  destruct l as [|y l']; [exact Hx|]. exact IH.
Qed.

(* the window of the next step is never empty, whatever the orders *)
Lemma sc_next_ord_window ords rows perm bg K p g win it :
  matrix_ok K rows bg -> 0 < g ->
  sc_next_with NumQ (distribution_ord NumQ ords) rows perm bg p g win = Ok it ->
  (fst (io_win it) <= snd (io_win it))%Z.
Proof.
  intros Hok Hg H. unfold sc_next_with in H.
  apply rbind_ok in H. destruct H as [G [Hrec H]].
  apply rbind_ok in H. destruct H as [o [Hlook H]].
  apply rbind_ok in H. destruct H as [osum [Hosum H]].
  destruct (negb _); [discriminate|].
  inversion H; subst it; clear H. cbn [io_win fst snd].
  pose proof (recompute_emax_nonneg _ _ _ _ _ _ Hok Hg Hrec) as Em0.
  pose proof (ceil_half_pos _ Em0) as Hw.
  assert (Hw' : inject_Z 1 <= inject_Z (Qceiling (g_emax G + (1 # 2)))) by (rewrite <- Zle_Qle; exact Hw).
  change (inject_Z 1) with 1 in Hw'.
  pose proof (lookup_score_with_rows _ _ _ _ _ _ _ Hlook) as Hrows.
  assert (Hsort : ksorted (last (ls_rows o) [])).
  { apply Forall_last; [exact (distribution_ord_ksorted NumQ _ _ _ _ _ _ Hrows)|constructor]. }
  pose proof (lookup_score_with_alpha_order _ _ _ _ _ _ _ Hlook Hsort) as Hord.
  assert (Hord' : inject_Z (ls_alpha_e o) <= inject_Z (ls_alpha o)) by (rewrite <- Zle_Qle; exact Hord).
  assert (HM0 : 0 <= inject_Z (Z.of_nat (length rows))).
  { change 0 with (inject_Z 0). rewrite <- Zle_Qle. lia. }
  set (w := inject_Z (Qceiling (g_emax G + (1 # 2)))) in *.
  set (a := inject_Z (ls_alpha o)) in *. set (ae := inject_Z (ls_alpha_e o)) in *.
  set (m := inject_Z (Z.of_nat (length rows))) in *.
  change (Qfloor ((ae - w) * 10 - (10 - 1) * m) <= Qfloor ((a + w) * 10 + (10 - 1) * m))%Z.
  apply Qfloor_resp_le. nra.
Qed.

Lemma sc_next_with_gran (D : dist_fn (T:=Q)) rows perm bg p g win it :
  sc_next_with NumQ D rows perm bg p g win = Ok it -> io_gran it = g.
Proof.
  unfold sc_next_with. intros H.
  apply rbind_ok in H. destruct H as [G [_ H]].
  apply rbind_ok in H. destruct H as [o [_ H]].
  apply rbind_ok in H. destruct H as [osum [_ H]].
  destruct (negb _); [discriminate|].
  inversion H; subst it. reflexivity.
Qed.

(* C13: every iteration of approximate_score whose window is adequate; step i visits its
   hash maps in the orders [nth i ordss []] (only the orders of step i matter) *)
Theorem sc_run_ord_bounds : forall steps ordss rows perm bg K p g win i it,
  matrix_ok K rows bg -> (2 <= length rows)%nat -> Permutation perm (seq 0 (length rows)) ->
  0 < g -> 0 < p -> (fst win <= snd win + 1)%Z ->
  nth_error (sc_run_ord NumQ steps ordss rows perm bg p g win) i = Some (Ok it) ->
  ords_ok (nth i ordss []) (io_rows it) = true ->
  io_total_lt it = false -> (1 < length (last (io_rows it) []))%nat ->
  let M := inject_Z (Z.of_nat (length rows)) in
  let gi := io_gran it in
  let t := io_score it in
  let d := (M + 2) * gi in
  0 < gi /\ gi <= g /\
  Ptail rows bg (t + d) <= p /\
  (forall l, attain l (srows (sym_cells rows) bg) -> Qsum l < t - d -> p <= Ptail rows bg (Qsum l - d)).
Proof.
  intros steps ordss rows perm bg K p g win i it Hok HM Hperm Hg Hp Hwin Hn Hords Hw1 Hw2 M gi t d.
  subst gi t d.
  revert ordss g win i Hg Hwin Hn Hords.
  induction steps as [|n IH]; intros ordss g win i Hg Hwin Hn Hords; cbn [sc_run_ord] in Hn; [destruct i; discriminate|].
  rewrite (le_pos_false g Hg) in Hn.
  destruct (sc_next_with NumQ (distribution_ord NumQ (hd [] ordss)) rows perm bg p g win) as [it0| | |] eqn:Enext;
    try (destruct i as [|[|i]]; discriminate).
  destruct i as [|i]; cbn [nth_error] in Hn.
  - inversion Hn; subst it0; clear Hn. rewrite nth_hd in Hords.
    destruct (sc_next_ord_bounds _ rows perm bg K g p win it Hok HM Hperm Hg Hp Hwin Enext Hords Hw1 Hw2) as [E [H1 H2]].
    fold M in H1, H2. rewrite E.
    split; [exact Hg|]. split; [lra|]. split; assumption.
  - destruct (io_conv it0); [destruct i; discriminate|].
    destruct (div10_pos g Hg) as [D1 D2]. rewrite nth_tl in Hords.
    pose proof (sc_next_ord_window _ _ _ _ _ _ _ _ _ Hok Hg Enext) as Hwin'.
    assert (Hwin'' : (fst (io_win it0) <= snd (io_win it0) + 1)%Z) by lia.
    destruct (IH _ _ _ _ D1 Hwin'' Hn Hords) as [A1 [A2 A3]].
    split; [exact A1|]. split; [lra|exact A3].
Qed.

Theorem sc_run_ord_gran : forall steps ordss rows perm bg p g win i it,
  nth_error (sc_run_ord NumQ steps ordss rows perm bg p g win) i = Some (Ok it) ->
  io_gran it == g / pow10 i.
Proof.
  induction steps as [|n IH]; intros ordss rows perm bg p g win i it H; cbn [sc_run_ord] in H.
  - destruct i; discriminate.
  - destruct (le NumQ g (n_zero NumQ)); [destruct i; discriminate|].
    destruct (sc_next_with NumQ (distribution_ord NumQ (hd [] ordss)) rows perm bg p g win) as [it0| | |] eqn:Enext;
      try (destruct i as [|[|i]]; discriminate).
    destruct i as [|i]; cbn [nth_error] in H.
    + inversion H; subst it0. rewrite (sc_next_with_gran _ _ _ _ _ _ _ _ Enext).
      rewrite pow10_0. field.
    + destruct (io_conv it0); [destruct i; discriminate|].
      apply IH in H. rewrite H. cbn [NumQ n_div n_ten]. rewrite pow10_S.
      pose proof (pow10_pos i). field. lra.
Qed.

(* ------------------------------------------------------------------ *)
(** * Non-vacuity: a step with every row visited in decreasing key order *)

Definition ordex_rows : list (list Q) :=
  [[1; -1; 1 # 3; -2; -100]; [1 # 2; -(1 # 3); 0; -1; -100]; [1 # 4; 0; 1 # 7; -(1 # 4); -100]].
Definition ordex_bg : list Q := [1 # 2; 1 # 4; 1 # 8; 1 # 8; 0].
Definition ordex_perm : list nat := [0; 1; 2]%nat.
Definition ordex_ords : list (list Z) := [[30; 23]; [38; 36; 33; 30; 29]]%Z.

Example ord_nonvacuous :
  exists it,
    pv_next_with NumQ (distribution_ord NumQ ordex_ords) ordex_rows ordex_perm ordex_bg (1 # 3) (1 # 10) = Ok it /\
    ords_ok ordex_ords (io_rows it) = true /\
    map (fun r => rev (fm_keys r)) (removelast (io_rows it)) = ordex_ords /\
    0 < io_start it /\ io_start it < io_end it /\ io_end it < 1.
Proof.
  eexists. split; [vm_compute; reflexivity|].
  vm_compute. repeat split; intros; discriminate.
Qed.
