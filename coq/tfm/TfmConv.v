(* Convolution form of the exact score distribution.

   [enum_dy rows] (TfmModel.v) lists ALL K^M words; [conv_dy rows] computes the same
   distribution with equal scores merged: the table is kept sorted by score (strictly
   increasing w.r.t. [dy_cmp]); a row is added by shifting the table by every symbol of
   the row and merging the K sorted lists, summing the probabilities of equal scores.
   Entries of probability zero are kept (attainable scores matter for [below_dy]).

   Main results:
     conv_tail, conv_below  : [tail_dy] / [below_dy] agree on [conv_dy] and [enum_dy];
     c12_check_conv, c13_check_conv : the property checkers give the same verdict;
     conv_sorted            : the table is strictly increasing (no two equal scores). *)
From Coq Require Import ZArith QArith Qpower Qround List Bool Lia Lqa Setoid Morphisms Sorted.
From LMTfm Require Import TfmNum TfmModel TfmSpec TfmProofs TfmCheck.
Import ListNotations.
Open Scope Q_scope.

(* ------------------------------------------------------------------ *)
(** * 1. Executable definitions *)

(* merge of two tables sorted by score; equal scores are merged, probabilities summed *)
Fixpoint merge_dy (a : list (dy * dy)) : list (dy * dy) -> list (dy * dy) :=
  match a with
  | [] => fun b => b
  | sp1 :: a' =>
      fix merge_aux (b : list (dy * dy)) : list (dy * dy) :=
        match b with
        | [] => a
        | sp2 :: b' =>
            match dy_cmp (fst sp1) (fst sp2) with
            | Eq => (fst sp1, dy_add (snd sp1) (snd sp2)) :: merge_dy a' b'
            | Lt => sp1 :: merge_dy a' b
            | Gt => sp2 :: merge_aux b'
            end
        end
  end.

(* the table of the remaining rows shifted by one symbol (score, probability) *)
Definition shift_dy (xb : dy * dy) (e : list (dy * dy)) : list (dy * dy) :=
  map (fun sp => (dy_add (fst xb) (fst sp), dy_mul (snd xb) (snd sp))) e.

Definition add_row_dy (r : wrow) (e : list (dy * dy)) : list (dy * dy) :=
  fold_right (fun xb acc => merge_dy (shift_dy xb e) acc) [] r.

Fixpoint conv_dy (rows : list wrow) : list (dy * dy) :=
  match rows with
  | [] => [(dy0, dy1)]
  | r :: rest => add_row_dy r (conv_dy rest)
  end.

(* ------------------------------------------------------------------ *)
(** * 2. Unfolding equations of the merge *)

Lemma merge_nil_l b : merge_dy [] b = b.
Proof. reflexivity. Qed.

Lemma merge_nil_r a : merge_dy a [] = a.
Proof. destruct a; reflexivity. Qed.

Lemma merge_cons sp1 a sp2 b :
  merge_dy (sp1 :: a) (sp2 :: b) =
  match dy_cmp (fst sp1) (fst sp2) with
  | Eq => (fst sp1, dy_add (snd sp1) (snd sp2)) :: merge_dy a b
  | Lt => sp1 :: merge_dy a (sp2 :: b)
  | Gt => sp2 :: merge_dy (sp1 :: a) b
  end.
Proof. reflexivity. Qed.

Lemma enum_dy_cons r rest :
  enum_dy (r :: rest) = flat_map (fun xb => shift_dy xb (enum_dy rest)) r.
Proof. reflexivity. Qed.

Lemma dy_cmp_Eq a b : dy_cmp a b = Eq -> dy_toQ a == dy_toQ b.
Proof. rewrite dy_cmp_spec. intros H. apply Qeq_alt. exact H. Qed.

Lemma dy_cmp_Lt a b : dy_cmp a b = Lt <-> dy_toQ a < dy_toQ b.
Proof. rewrite dy_cmp_spec. symmetry. apply Qlt_alt. Qed.

Lemma dy_cmp_Gt a b : dy_cmp a b = Gt <-> dy_toQ b < dy_toQ a.
Proof. rewrite dy_cmp_spec. symmetry. apply Qgt_alt. Qed.

(* [dy_cmp] is compatible with adding the same number *)
Lemma dy_cmp_add c a b : dy_cmp (dy_add c a) (dy_add c b) = dy_cmp a b.
Proof.
  rewrite !dy_cmp_spec. rewrite !dy_toQ_add.
  destruct (Qcompare_spec (dy_toQ a) (dy_toQ b)) as [H|H|H].
  - apply Qeq_alt. rewrite H. reflexivity.
  - apply (proj1 (Qlt_alt _ _)). lra.
  - apply (proj1 (Qgt_alt _ _)). lra.
Qed.

(* ------------------------------------------------------------------ *)
(** * 3. The two observations of a table: tails and score values *)

(* the tail at a rational threshold *)
Definition tq (e : list (dy * dy)) (x : Q) : Q :=
  Qsum (map (fun sp => ind (Qle_bool x (dy_toQ (fst sp))) * dy_toQ (snd sp)) e).

(* q is (the rational value of) a score of the table *)
Definition sc (e : list (dy * dy)) (q : Q) : Prop :=
  exists sp, In sp e /\ dy_toQ (fst sp) == q.

Definition equiv (e1 e2 : list (dy * dy)) : Prop :=
  (forall x, tq e1 x == tq e2 x) /\ (forall q, sc e1 q <-> sc e2 q).

Lemma tq_nil x : tq [] x = 0.
Proof. reflexivity. Qed.

Lemma tq_cons sp e x :
  tq (sp :: e) x = ind (Qle_bool x (dy_toQ (fst sp))) * dy_toQ (snd sp) + tq e x.
Proof. reflexivity. Qed.

Lemma Qle_bool_ext x a y b : (x <= a <-> y <= b) -> Qle_bool x a = Qle_bool y b.
Proof.
  intros H. destruct (Qle_bool x a) eqn:E1, (Qle_bool y b) eqn:E2; try reflexivity.
  - apply Qle_bool_iff in E1. apply H in E1. apply Qle_bool_iff in E1. congruence.
  - apply Qle_bool_iff in E2. apply H in E2. apply Qle_bool_iff in E2. congruence.
Qed.

Lemma tq_comp e x y : x == y -> tq e x == tq e y.
Proof.
  intros H. unfold tq. apply Qsum_eq_map. intros sp _.
  rewrite (Qle_bool_ext x (dy_toQ (fst sp)) y (dy_toQ (fst sp))); [reflexivity|].
  rewrite H. reflexivity.
Qed.

Lemma tq_app e1 e2 x : tq (e1 ++ e2) x == tq e1 x + tq e2 x.
Proof. unfold tq. rewrite map_app, Qsum_app. reflexivity. Qed.

Lemma sc_nil q : sc [] q <-> False.
Proof. split; [intros [sp [[] _]]|intros []]. Qed.

Lemma sc_cons sp e q : sc (sp :: e) q <-> dy_toQ (fst sp) == q \/ sc e q.
Proof.
  split.
  - intros [sp' [[<-|Hi] He]]; [left; exact He|right; exists sp'; split; assumption].
  - intros [He|[sp' [Hi He]]].
    + exists sp. split; [left; reflexivity|exact He].
    + exists sp'. split; [right; exact Hi|exact He].
Qed.

Lemma sc_app e1 e2 q : sc (e1 ++ e2) q <-> sc e1 q \/ sc e2 q.
Proof.
  split.
  - intros [sp [Hi He]]. apply in_app_or in Hi. destruct Hi as [Hi|Hi];
      [left|right]; exists sp; split; assumption.
  - intros [[sp [Hi He]]|[sp [Hi He]]]; exists sp; (split; [apply in_or_app|exact He]);
      [left|right]; exact Hi.
Qed.

(* ------------------------------------------------------------------ *)
(** * 4. Merge, shift and add-row preserve the observations *)

Lemma tq_merge x : forall a b, tq (merge_dy a b) x == tq a x + tq b x.
Proof.
  induction a as [|sp1 a IHa]; intros b.
  - rewrite merge_nil_l, tq_nil. ring.
  - induction b as [|sp2 b IHb].
    + rewrite merge_nil_r, tq_nil. ring.
    + rewrite merge_cons. destruct (dy_cmp (fst sp1) (fst sp2)) eqn:E.
      * apply dy_cmp_Eq in E. rewrite !tq_cons. cbn [fst snd]. rewrite IHa.
        rewrite dy_toQ_add.
        rewrite (Qle_bool_ext x (dy_toQ (fst sp2)) x (dy_toQ (fst sp1)))
          by (rewrite E; reflexivity).
        ring.
      * rewrite (tq_cons sp1). rewrite IHa. rewrite (tq_cons sp1). ring.
      * rewrite (tq_cons sp2). rewrite IHb. rewrite (tq_cons sp2 b). ring.
Qed.

Lemma sc_merge q : forall a b, sc (merge_dy a b) q <-> sc a q \/ sc b q.
Proof.
  induction a as [|sp1 a IHa]; intros b.
  - rewrite merge_nil_l, sc_nil. tauto.
  - induction b as [|sp2 b IHb].
    + rewrite merge_nil_r, sc_nil. tauto.
    + rewrite merge_cons. destruct (dy_cmp (fst sp1) (fst sp2)) eqn:E.
      * apply dy_cmp_Eq in E. rewrite !sc_cons. cbn [fst]. rewrite IHa.
        assert (Hq : dy_toQ (fst sp1) == q <-> dy_toQ (fst sp2) == q)
          by (rewrite E; reflexivity).
        tauto.
      * rewrite (sc_cons sp1). rewrite IHa. rewrite (sc_cons sp1 a). tauto.
      * rewrite (sc_cons sp2). rewrite IHb. rewrite (sc_cons sp2 b). tauto.
Qed.

Lemma tq_shift xb e x :
  tq (shift_dy xb e) x == dy_toQ (snd xb) * tq e (x - dy_toQ (fst xb)).
Proof.
  unfold tq, shift_dy. rewrite map_map. rewrite <- Qsum_scale_map.
  apply Qsum_eq_map. intros sp _. cbn [fst snd]. rewrite dy_toQ_mul.
  rewrite (Qle_bool_ext x (dy_toQ (dy_add (fst xb) (fst sp)))
                        (x - dy_toQ (fst xb)) (dy_toQ (fst sp))).
  - ring.
  - rewrite dy_toQ_add. split; intros H; lra.
Qed.

Lemma sc_shift xb e q : sc (shift_dy xb e) q <-> sc e (q - dy_toQ (fst xb)).
Proof.
  unfold sc, shift_dy. split.
  - intros [sp [Hi He]]. apply in_map_iff in Hi. destruct Hi as [sp' [<- Hi]].
    cbn [fst] in He. rewrite dy_toQ_add in He. exists sp'. split; [exact Hi|lra].
  - intros [sp [Hi He]].
    exists (dy_add (fst xb) (fst sp), dy_mul (snd xb) (snd sp)). split.
    + apply in_map_iff. exists sp. split; [reflexivity|exact Hi].
    + cbn [fst]. rewrite dy_toQ_add. lra.
Qed.

Lemma tq_add_row r e x :
  tq (add_row_dy r e) x == Qsum (map (fun xb => tq (shift_dy xb e) x) r).
Proof.
  induction r as [|xb r IH]; cbn [add_row_dy fold_right map Qsum].
  - reflexivity.
  - fold (add_row_dy r e). rewrite tq_merge, IH. reflexivity.
Qed.

Lemma tq_flat_map (h : dy * dy -> list (dy * dy)) r x :
  tq (flat_map h r) x == Qsum (map (fun xb => tq (h xb) x) r).
Proof.
  induction r as [|xb r IH]; cbn [flat_map map Qsum].
  - reflexivity.
  - rewrite tq_app, IH. reflexivity.
Qed.

Lemma sc_add_row r e q :
  sc (add_row_dy r e) q <-> exists xb, In xb r /\ sc (shift_dy xb e) q.
Proof.
  induction r as [|xb r IH]; cbn [add_row_dy fold_right].
  - rewrite sc_nil. split; [intros []|intros [xb [[] _]]].
  - fold (add_row_dy r e). rewrite sc_merge, IH. split.
    + intros [H|[xb' [Hi H]]]; [exists xb; split; [left; reflexivity|exact H]|].
      exists xb'. split; [right; exact Hi|exact H].
    + intros [xb' [[<-|Hi] H]]; [left; exact H|]. right. exists xb'. split; assumption.
Qed.

Lemma sc_flat_map (h : dy * dy -> list (dy * dy)) r q :
  sc (flat_map h r) q <-> exists xb, In xb r /\ sc (h xb) q.
Proof.
  induction r as [|xb r IH]; cbn [flat_map].
  - rewrite sc_nil. split; [intros []|intros [xb [[] _]]].
  - rewrite sc_app, IH. split.
    + intros [H|[xb' [Hi H]]]; [exists xb; split; [left; reflexivity|exact H]|].
      exists xb'. split; [right; exact Hi|exact H].
    + intros [xb' [[<-|Hi] H]]; [left; exact H|]. right. exists xb'. split; assumption.
Qed.

Theorem conv_equiv : forall rows, equiv (conv_dy rows) (enum_dy rows).
Proof.
  induction rows as [|r rest [IH1 IH2]].
  - split; intros; reflexivity.
  - rewrite enum_dy_cons. cbn [conv_dy]. split.
    + intros x. rewrite tq_add_row, tq_flat_map. apply Qsum_eq_map. intros xb _.
      rewrite !tq_shift. rewrite IH1. reflexivity.
    + intros q. rewrite sc_add_row, sc_flat_map.
      split; intros [xb [Hi H]]; exists xb; (split; [exact Hi|]);
        rewrite sc_shift in *; apply IH2; exact H.
Qed.

(* ------------------------------------------------------------------ *)
(** * 5. [tail_dy] and [below_dy] respect the equivalence *)

Lemma tail_dy_tq e t : dy_toQ (tail_dy e t) == tq e (dy_toQ t).
Proof. unfold tail_dy. rewrite tail_dy_fold. rewrite dy_toQ_0. unfold tq. ring. Qed.

Lemma tail_dy_equiv e1 e2 t1 t2 :
  (forall x, tq e1 x == tq e2 x) -> dy_toQ t1 == dy_toQ t2 ->
  dy_toQ (tail_dy e1 t1) == dy_toQ (tail_dy e2 t2).
Proof.
  intros H Ht. rewrite !tail_dy_tq. rewrite H. apply tq_comp. exact Ht.
Qed.

Theorem conv_tail : forall rows t,
  dy_toQ (tail_dy (conv_dy rows) t) == dy_toQ (tail_dy (enum_dy rows) t).
Proof.
  intros rows t. apply tail_dy_equiv; [apply conv_equiv|reflexivity].
Qed.

(* [below_dy] in terms of the score values *)
Lemma below_dy_sc e t :
  match below_dy e t with
  | Some u => dy_toQ u < dy_toQ t /\ sc e (dy_toQ u) /\
              (forall q, sc e q -> q < dy_toQ t -> q <= dy_toQ u)
  | None => forall q, sc e q -> ~ q < dy_toQ t
  end.
Proof.
  rewrite below_dy_fold.
  assert (H0 : forall u0 : dy, None = Some u0 -> dy_toQ u0 < dy_toQ t)
    by (intros u0 E; discriminate E).
  assert (H := below_fold t e None H0).
  destruct (fold_left (below_step t) e None) as [u|].
  - destruct H as [H1 [H2 [_ H4]]]. split; [exact H1|]. split.
    + destruct H2 as [H2|[sp [Hi He]]]; [discriminate H2|]. subst u.
      exists sp. split; [exact Hi|reflexivity].
    + intros q [sp [Hi He]] Hlt. rewrite <- He in *. apply H4; assumption.
  - destruct H as [_ H]. intros q [sp [Hi He]] Hlt. rewrite <- He in Hlt.
    exact (H sp Hi Hlt).
Qed.

Lemma below_dy_equiv e1 e2 t1 t2 :
  (forall q, sc e1 q <-> sc e2 q) -> dy_toQ t1 == dy_toQ t2 ->
  match below_dy e1 t1, below_dy e2 t2 with
  | Some u, Some v => dy_toQ u == dy_toQ v
  | None, None => True
  | _, _ => False
  end.
Proof.
  intros H Ht. assert (B1 := below_dy_sc e1 t1). assert (B2 := below_dy_sc e2 t2).
  destruct (below_dy e1 t1) as [u|], (below_dy e2 t2) as [v|].
  - destruct B1 as [U1 [U2 U3]], B2 as [V1 [V2 V3]].
    assert (dy_toQ u <= dy_toQ v) by (apply V3; [apply H; exact U2|lra]).
    assert (dy_toQ v <= dy_toQ u) by (apply U3; [apply H; exact V2|lra]).
    lra.
  - destruct B1 as [U1 [U2 _]]. apply (B2 (dy_toQ u)); [apply H; exact U2|lra].
  - destruct B2 as [V1 [V2 _]]. apply (B1 (dy_toQ v)); [apply H; exact V2|lra].
  - exact I.
Qed.

Theorem conv_below : forall rows t,
  match below_dy (conv_dy rows) t, below_dy (enum_dy rows) t with
  | Some u, Some v => dy_toQ u == dy_toQ v
  | None, None => True
  | _, _ => False
  end.
Proof.
  intros rows t. apply below_dy_equiv; [apply conv_equiv|reflexivity].
Qed.

(* ------------------------------------------------------------------ *)
(** * 6. The checkers decide the same thing on the convolution *)

Lemma dy_leb_ext a a' b b' :
  dy_toQ a == dy_toQ a' -> dy_toQ b == dy_toQ b' -> dy_leb a b = dy_leb a' b'.
Proof.
  intros Ha Hb. rewrite !dy_leb_Qle_bool. apply Qle_bool_ext. rewrite Ha, Hb. reflexivity.
Qed.

Lemma c12_check_equiv tol m e1 e2 s g pmin pmax :
  equiv e1 e2 -> c12_check tol m e1 s g pmin pmax = c12_check tol m e2 s g pmin pmax.
Proof.
  intros [H _]. unfold c12_check.
  rewrite (dy_leb_ext (tail_dy e1 _) (tail_dy e2 (dy_add s (dy_mul (dy_ofZ (m + 1)) g)))
                      (dy_mul pmin tol) (dy_mul pmin tol));
    [|apply tail_dy_equiv; [exact H|reflexivity]|reflexivity].
  rewrite (dy_leb_ext pmax pmax (dy_mul (tail_dy e1 _) tol)
             (dy_mul (tail_dy e2 (dy_sub s (dy_mul (dy_ofZ (m + 2)) g))) tol));
    [reflexivity|reflexivity|].
  rewrite !dy_toQ_mul. rewrite (tail_dy_equiv e1 e2 _ _ H (Qeq_refl _)). reflexivity.
Qed.

Theorem c12_check_conv : forall tol m rows s g pmin pmax,
  c12_check tol m (conv_dy rows) s g pmin pmax = c12_check tol m (enum_dy rows) s g pmin pmax.
Proof. intros. apply c12_check_equiv. apply conv_equiv. Qed.

Lemma c13_check_equiv tol m e1 e2 p g t :
  equiv e1 e2 -> c13_check tol m e1 p g t = c13_check tol m e2 p g t.
Proof.
  intros [H1 H2]. unfold c13_check.
  set (d := dy_mul (dy_ofZ (m + 2)) g).
  rewrite (dy_leb_ext (tail_dy e1 (dy_add t d)) (tail_dy e2 (dy_add t d))
                      (dy_mul p tol) (dy_mul p tol));
    [|apply tail_dy_equiv; [exact H1|reflexivity]|reflexivity].
  destruct (negb (dy_leb (tail_dy e2 (dy_add t d)) (dy_mul p tol))); [reflexivity|].
  assert (B := below_dy_equiv e1 e2 (dy_sub t d) (dy_sub t d) H2 (Qeq_refl _)).
  destruct (below_dy e1 (dy_sub t d)) as [u|], (below_dy e2 (dy_sub t d)) as [v|];
    try contradiction; [|reflexivity].
  rewrite (dy_leb_ext p p (dy_mul (tail_dy e1 (dy_sub u d)) tol)
                          (dy_mul (tail_dy e2 (dy_sub v d)) tol));
    [reflexivity|reflexivity|].
  rewrite !dy_toQ_mul.
  rewrite (tail_dy_equiv e1 e2 (dy_sub u d) (dy_sub v d) H1); [reflexivity|].
  rewrite !dy_toQ_sub. rewrite B. reflexivity.
Qed.

Theorem c13_check_conv : forall tol m rows p g t,
  c13_check tol m (conv_dy rows) p g t = c13_check tol m (enum_dy rows) p g t.
Proof. intros. apply c13_check_equiv. apply conv_equiv. Qed.

(* ------------------------------------------------------------------ *)
(** * 7. The table is strictly increasing (equal scores are merged) *)

Definition lt_sc (a b : dy * dy) : Prop := dy_cmp (fst a) (fst b) = Lt.

Lemma HdRel_le x y l :
  dy_toQ (fst y) <= dy_toQ (fst x) -> HdRel lt_sc x l -> HdRel lt_sc y l.
Proof.
  intros H Hx. destruct Hx as [|z l Hz]; constructor.
  unfold lt_sc in *. apply dy_cmp_Lt. apply dy_cmp_Lt in Hz. lra.
Qed.

Lemma HdRel_merge x : forall a b,
  HdRel lt_sc x a -> HdRel lt_sc x b -> HdRel lt_sc x (merge_dy a b).
Proof.
  intros a b Ha Hb. destruct a as [|sp1 a]; [exact Hb|].
  destruct b as [|sp2 b]; [rewrite merge_nil_r; exact Ha|].
  rewrite merge_cons. inversion Ha; subst. inversion Hb; subst.
  destruct (dy_cmp (fst sp1) (fst sp2)); constructor; unfold lt_sc in *; cbn [fst]; assumption.
Qed.

Lemma Sorted_merge : forall a b,
  Sorted lt_sc a -> Sorted lt_sc b -> Sorted lt_sc (merge_dy a b).
Proof.
  induction a as [|sp1 a IHa]; intros b Ha Hb; [exact Hb|].
  induction b as [|sp2 b IHb]; [rewrite merge_nil_r; exact Ha|].
  rewrite merge_cons.
  assert (Ha' := Ha). assert (Hb' := Hb).
  inversion Ha' as [|? ? Sa Ra]; subst. inversion Hb' as [|? ? Sb Rb]; subst.
  destruct (dy_cmp (fst sp1) (fst sp2)) eqn:E.
  - apply dy_cmp_Eq in E. constructor; [apply IHa; assumption|].
    apply HdRel_merge.
    + apply (HdRel_le sp1); [cbn [fst]; lra|exact Ra].
    + apply (HdRel_le sp2); [cbn [fst]; lra|exact Rb].
  - constructor; [apply IHa; assumption|].
    apply HdRel_merge; [exact Ra|]. constructor. exact E.
  - constructor; [apply IHb; assumption|].
    apply HdRel_merge; [|exact Rb]. constructor. unfold lt_sc.
    apply dy_cmp_Lt. apply dy_cmp_Gt in E. exact E.
Qed.

Lemma Sorted_shift xb e : Sorted lt_sc e -> Sorted lt_sc (shift_dy xb e).
Proof.
  induction 1 as [|sp e Hs IH Hr]; cbn [shift_dy map]; constructor.
  - exact IH.
  - destruct Hr as [|sp' e' Hr]; cbn [map]; constructor.
    unfold lt_sc in *. cbn [fst]. rewrite dy_cmp_add. exact Hr.
Qed.

Lemma Sorted_add_row r e : Sorted lt_sc e -> Sorted lt_sc (add_row_dy r e).
Proof.
  intros H. induction r as [|xb r IH]; cbn [add_row_dy fold_right]; [constructor|].
  apply Sorted_merge; [apply Sorted_shift; exact H|exact IH].
Qed.

Theorem conv_sorted : forall rows, Sorted lt_sc (conv_dy rows).
Proof.
  induction rows as [|r rest IH]; cbn [conv_dy].
  - constructor; constructor.
  - apply Sorted_add_row. exact IH.
Qed.

(* ------------------------------------------------------------------ *)
(** * 8. Cross-check on a concrete matrix *)

Definition ex_rows : list wrow :=
  let q := (1, -2)%Z in
  [ [((1, 0), q); ((2, 0), q); ((1, 0), q); ((6, -1), q)];
    [((0, 0), q); ((4, -2), q); ((2, 0), q); ((-1, 0), q)];
    [((1, -1), q); ((1, -1), q); ((3, -1), q); ((0, 5), q)] ]%Z.

(* 64 words, 13 distinct scores *)
Example ex_length :
  (length (conv_dy ex_rows) = 13 /\ length (enum_dy ex_rows) = 64)%nat.
Proof. vm_compute. split; reflexivity. Qed.

(* the scores of the merged table (normalised rationals), strictly increasing *)
Example ex_scores :
  map (fun sp => Qred (dy_toQ (fst sp))) (conv_dy ex_rows) =
  [0; 1#2; 1; 3#2; 2; 5#2; 3; 7#2; 4; 9#2; 5; 11#2; 13#2].
Proof. vm_compute. reflexivity. Qed.

(* the probabilities (in 64ths) *)
Example ex_probs :
  map (fun sp => Qred (dy_toQ (snd sp) * 64)) (conv_dy ex_rows) =
  [2; 4; 3; 8; 4; 11; 4; 12; 2; 8; 1; 4; 1].
Proof. vm_compute. reflexivity. Qed.

Definition ex_thresholds : list dy :=
  [(-1, 0); (0, 0); (1, -2); (1, -1); (1, 0); (5, -2); (3, -1); (2, 0); (5, -1); (11, -2);
   (3, 0); (7, -1); (4, 0); (9, -1); (5, 0); (11, -1); (6, 0); (13, -1); (7, 0); (1, 3)]%Z.

Example ex_tail :
  forallb (fun t => match dy_cmp (tail_dy (conv_dy ex_rows) t) (tail_dy (enum_dy ex_rows) t) with
                    | Eq => true | _ => false end) ex_thresholds = true.
Proof. vm_compute. reflexivity. Qed.

Example ex_tail_values :
  map (fun t => Qred (dy_toQ (tail_dy (conv_dy ex_rows) t) * 64)) [(0, 0); (5, -1); (11, -2); (7, 0)]%Z
  = [64; 43; 32; 0].
Proof. vm_compute. reflexivity. Qed.

Example ex_below :
  map (fun t => option_map (fun u => Qred (dy_toQ u)) (below_dy (conv_dy ex_rows) t)) ex_thresholds =
  map (fun t => option_map (fun u => Qred (dy_toQ u)) (below_dy (enum_dy ex_rows) t)) ex_thresholds.
Proof. vm_compute. reflexivity. Qed.
