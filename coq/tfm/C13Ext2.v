(* Property C13, wave 3 of round 3 (independent review, notes/review-round3.md, C13-1/-2/-3, X6): TOTALITY of
   ScoresIterator::next and of approximate_score along its whole run (the structural panic sites 10 11 12 15 20 22
   are unreachable on the domain of the property; the i64 sites 13 14 21 23 24 33 34 through a closed bound and the
   window invariant of TfmWindow.v; site 31 through adequacy), the final threshold tied to the granularity of the
   iteration it comes from, and the "Hence" sentence of the property.  Statements only; proofs are `exact` of
   lemmas in TfmTotality / TfmWindow / TfmTotalRun / TfmHence / TfmDyadic. *)
From Coq Require Import ZArith QArith Qround Qabs List Bool Lia Lqa Permutation.
From LMBase Require Import Res ListX.
From LMTfm Require Import TfmNum TfmModel TfmSpec TfmProofs TfmScore TfmRun TfmTotal TfmLink TfmAdequate TfmOverflow TfmConverge
  TfmClosed TfmFinal TfmFinalProofs TfmTotality TfmWindow TfmTotalRun TfmHence TfmDyadic TfmReturns TfmCheck TfmRef TfmRefProofs.
From LMBase Require Import IEEE.
From Coq Require Import Reals.
From Flocq Require Import Core BinarySingleNaN.
Import ListNotations.
Open Scope Q_scope.

(* every result of next() / approximate_score() is Ok or Panic (any instance of the numbers) *)
Theorem C13_step_ok_or_panic : forall {T : Type} (N : NumOps T) rows perm bg p g win,
  match sc_next N rows perm bg p g win with Ok _ | Panic _ => True | _ => False end.
Proof. exact @okp_sc_next. Qed.

(* on the domain of the property: only the i64 sites and site 31 (`keys[riter + 1]`: the mass above the window exceeds p,
   C13_lookup_score_panic_31_iff) are reachable *)
Theorem C13_step_panic_sites : forall rows perm bg K p g win n,
  matrix_ok K rows bg -> (2 <= length rows)%nat -> Permutation perm (seq 0 (length rows)) -> g < 1 ->
  sc_next NumQ rows perm bg p g win = Panic n ->
  (n = 13 \/ n = 14 \/ n = 21 \/ n = 23 \/ n = 24 \/ n = 31 \/ n = 33)%nat.
Proof. exact sc_next_panic_sites. Qed.

(* one step on ANY window, under the bounds of C13_step_no_overflow: an Iteration, or the panic of site 31 *)
Theorem C13_score_step_total_or_31 : forall rows perm bg K p g win B,
  matrix_ok K rows bg -> (2 <= length rows)%nat -> Permutation perm (seq 0 (length rows)) ->
  0 < g -> g < 1 ->
  (0 <= B)%Z -> (2 * B <= i64_max)%Z -> (3 * Z.of_nat (length rows) * B <= i64_max)%Z ->
  cells_boundedQ B rows g ->
  (snd win < i64_max)%Z ->
  (i64_min + Z.of_nat (length rows) * B <= snd win + 1 <= i64_max - Z.of_nat (length rows) * B)%Z ->
  (exists it, sc_next NumQ rows perm bg p g win = Ok it) \/ sc_next NumQ rows perm bg p g win = Panic 31.
Proof. exact sc_next_total_or_31. Qed.

(* TOTALITY of the step that follows an adequate step (adequacy is the invariant of approximate_score: C13_adequacy_preserved) *)
Theorem C13_score_step_total : forall rows perm bg K p g win it B,
  matrix_ok K rows bg -> (2 <= length rows)%nat -> Permutation perm (seq 0 (length rows)) ->
  0 < g -> g < 1 -> 0 < p -> (fst win <= snd win + 1)%Z ->
  sc_next NumQ rows perm bg p g win = Ok it -> adequate it ->
  (0 <= B)%Z -> (2 * B <= i64_max)%Z -> (3 * Z.of_nat (length rows) * B <= i64_max)%Z ->
  cells_boundedQ B rows (g / 10) ->
  (snd (io_win it) < i64_max)%Z ->
  (i64_min + Z.of_nat (length rows) * B <= snd (io_win it) + 1 <= i64_max - Z.of_nat (length rows) * B)%Z ->
  exists it', sc_next NumQ rows perm bg p (g / 10) (io_win it) = Ok it'.
Proof. exact sc_next_total_after_adequate. Qed.

(* the window invariant: no i64 overflow anywhere along approximate_score(p), from a bound on the cells alone:
   |x| / 0.1 <= B0 for every symbol cell and (3 M B0 + 4 M) 10^(steps-1) <= 2^63 - 1 *)
Theorem C13_run_no_overflow : forall steps rows perm bg K p win B0 n,
  matrix_ok K rows bg -> (2 <= length rows)%nat -> length perm = length rows -> (0 <= B0)%Z ->
  cells_boundedQ B0 rows (1 # 10) ->
  score_window0 NumQ rows perm = Ok win ->
  ((3 * Z.of_nat (length perm) * B0 + 4 * Z.of_nat (length perm)) * 10 ^ (Z.of_nat steps - 1) <= i64_max)%Z ->
  In (Panic n) (sc_run NumQ steps rows perm bg p (1 # 10) win) ->
  (n <> 13 /\ n <> 14 /\ n <> 21 /\ n <> 23 /\ n <> 24 /\ n <> 33)%nat.
Proof. exact sc_run_no_overflow_closed. Qed.

(* TOTALITY of approximate_score(p), p in (0,1]: recompute(0.1), the initial window and each of the first [steps] calls
   of next() succeed (the run stops earlier only by convergence) *)
Theorem C13_approximate_score_total : forall steps rows perm bg K p B0,
  matrix_ok K rows bg -> (2 <= length rows)%nat -> Permutation perm (seq 0 (length rows)) ->
  0 < p -> p <= 1 -> (1 <= steps)%nat ->
  (0 <= B0)%Z -> cells_boundedQ B0 rows (1 # 10) ->
  ((3 * Z.of_nat (length rows) * B0 + 4 * Z.of_nat (length rows)) * 10 ^ (Z.of_nat steps - 1) <= i64_max)%Z ->
  exists win, score_window0 NumQ rows perm = Ok win /\
              Forall (fun r => exists it, r = Ok it) (sc_run NumQ steps rows perm bg p (1 # 10) win) /\
              sc_run NumQ steps rows perm bg p (1 # 10) win <> [].
Proof. exact approximate_score_total. Qed.

(* the threshold of the LAST iteration of a run (what score() returns when that iteration is converged), with the slack
   d = (M+2) * (granularity of that iteration) -- no window hypothesis *)
Theorem C13_score_final : forall steps rows perm bg K p win it,
  matrix_ok K rows bg -> (2 <= length rows)%nat -> Permutation perm (seq 0 (length rows)) ->
  0 < p -> p <= 1 ->
  score_window0 NumQ rows perm = Ok win ->
  last (sc_run NumQ steps rows perm bg p (1 # 10) win) (Panic 0) = Ok it ->
  let M := inject_Z (Z.of_nat (length rows)) in
  let gi := io_gran it in
  let t := io_score it in
  let d := (M + 2) * gi in
  0 < gi /\ gi <= 1 # 10 /\
  Ptail rows bg (t + d) <= p /\
  (forall l, attain l (srows (sym_cells rows) bg) -> Qsum l < t - d -> p <= Ptail rows bg (Qsum l - d)).
Proof. exact approximate_score_final. Qed.

(* THE PROPERTY for the value score(p) returns: it is the score of the last iteration of the run, that iteration is
   converged, its granularity is 10^-(number of calls of next()) and the two clauses hold with d = (M+2) times THAT
   granularity *)
Theorem C13_score_value_final : forall fuel rows perm bg K p t,
  matrix_ok K rows bg -> (2 <= length rows)%nat -> Permutation perm (seq 0 (length rows)) ->
  0 < p -> p <= 1 ->
  score_fuel NumQ fuel rows perm bg p = Ok t ->
  let M := inject_Z (Z.of_nat (length rows)) in
  exists win it i,
    score_window0 NumQ rows perm = Ok win /\
    let run := sc_run NumQ fuel rows perm bg p (1 # 10) win in
    length run = S i /\ nth_error run i = Some (Ok it) /\ io_conv it = true /\
    t = io_score it /\ io_gran it == (1 # 10) / pow10 i /\
    let d := (M + 2) * io_gran it in
    Ptail rows bg (t + d) <= p /\
    (forall l, attain l (srows (sym_cells rows) bg) -> Qsum l < t - d -> p <= Ptail rows bg (Qsum l - d)).
Proof. exact score_fuel_final. Qed.

(* "Hence the final threshold is, to within the final granularity, the smallest score whose exact p-value does not
   exceed p": what the two clauses imply for ANY t and d -- every attainable score whose exact p-value exceeds p lies
   below t + d, and every attainable score v whose p-value taken d below v is still smaller than p lies at or above
   t - d.  (A strict version of clause 2 is not a consequence of the property: clause 2 says "at least p".) *)
Theorem C13_threshold_sandwich : forall rows bg p t d,
  (forall b, In b bg -> 0 <= b) ->
  Ptail rows bg (t + d) <= p ->
  (forall l, attain l (srows (sym_cells rows) bg) -> Qsum l < t - d -> p <= Ptail rows bg (Qsum l - d)) ->
  forall l, attain l (srows (sym_cells rows) bg) ->
    (p < Ptail rows bg (Qsum l) -> Qsum l < t + d) /\
    (Ptail rows bg (Qsum l - d) < p -> t - d <= Qsum l).
Proof. exact threshold_sandwich. Qed.

(* ... for the value score(p) returns, with d = (M+2) 10^-(i+1), i+1 = the number of calls of next() *)
Theorem C13_score_hence : forall fuel rows perm bg K p t,
  matrix_ok K rows bg -> (2 <= length rows)%nat -> Permutation perm (seq 0 (length rows)) ->
  0 < p -> p <= 1 ->
  score_fuel NumQ fuel rows perm bg p = Ok t ->
  let M := inject_Z (Z.of_nat (length rows)) in
  exists i, (i < fuel)%nat /\
    let d := (M + 2) * ((1 # 10) / pow10 i) in
    forall l, attain l (srows (sym_cells rows) bg) ->
      (p < Ptail rows bg (Qsum l) -> Qsum l < t + d) /\
      (Ptail rows bg (Qsum l - d) < p -> t - d <= Qsum l).
Proof. exact score_fuel_hence. Qed.

(* ---------- totality for the binary64 instance ---------- *)

Theorem C13_step_panic_sites_any_instance : forall {T : Type} (N : NumOps T) rows perm bg p g win n,
  shape_ok N rows perm g ->
  sc_next N rows perm bg p g win = Panic n ->
  (n = 13 \/ n = 14 \/ n = 21 \/ n = 23 \/ n = 24 \/ n = 31 \/ n = 33)%nat.
Proof. exact @sc_next_panic_sites_gen. Qed.

(* binary64, under the bounds of C13Ext.C13_step_no_overflow_f64: an Iteration, or the panic of site 31 *)
Theorem C13_score_step_total_or_31_f64 : forall K (rows : list (list IEEE.F64.t)) perm bg p (g : binary_float 53 1024) win B,
  (2 <= K)%nat -> Forall (fun r => length r = K) rows -> (1 <= length rows)%nat ->
  Permutation perm (seq 0 (length rows)) ->
  lt NumF64 g (n_one NumF64) = true ->
  B2R g <> 0%R ->
  (0 <= B < 2 ^ 62)%Z ->
  generic_format radix2 (SpecFloat.fexp 53 1024) (IZR B) ->
  (3 * Z.of_nat (length perm) * B <= i64_max)%Z ->
  cells_boundedF64 B rows g ->
  (snd win < i64_max)%Z ->
  (i64_min + Z.of_nat (length perm) * B <= snd win + 1 <= i64_max - Z.of_nat (length perm) * B)%Z ->
  (exists it, sc_next NumF64 rows perm bg p g win = Ok it) \/ sc_next NumF64 rows perm bg p g win = Panic 31.
Proof. exact sc_next_total_or_31_F64. Qed.

(* ---------- convergence and termination at an integral granularity ---------- *)

(* there is NO convergence theorem from a separation of p from the attainable tail values alone: on this 3-row matrix
   p = 3/32 lies strictly between two attainable tails (7/64 and 5/64 are reported at every step), yet none of the first
   18 iterations is converged and the 19th overflows the i64 integer matrix (site 14): the words of real score 2 have three
   different integer scores at every granularity, closer than error_max *)
Theorem C13_tie_never_converges :
  score_window0 NumQ tie3_rows tie3_perm = Ok (0, 58)%Z /\
  run_shape (sc_run NumQ 30 tie3_rows tie3_perm tie_bg (3 # 32) (1 # 10) (0, 58)%Z)
  = repeat (inl false) 18 ++ [inr 14%nat].
Proof. exact tie_score_run_shape. Qed.

(* at a granularity where every symbol cell x has x / g integral, ScoresIterator::next ALWAYS reports `converged`
   (error_max = 0 and the two bracketing integer scores differ by at least 1), for every p *)
Theorem C13_converged_if_integral : forall rows perm bg K p g win it,
  matrix_ok K rows bg -> (2 <= length rows)%nat -> length perm = length rows -> 0 < g ->
  (fst win <= snd win + 1)%Z -> cells_integral rows g ->
  sc_next NumQ rows perm bg p g win = Ok it -> io_conv it = true.
Proof. exact sc_next_converged_integral. Qed.

(* ... and for M = 2 at every granularity (error_max < 1) *)
Theorem C13_converged_two_rows : forall rows perm bg K p g win it,
  matrix_ok K rows bg -> length rows = 2%nat -> length perm = 2%nat -> 0 < g ->
  (fst win <= snd win + 1)%Z ->
  sc_next NumQ rows perm bg p g win = Ok it -> io_conv it = true.
Proof. exact sc_next_converged_two_rows. Qed.

(* symbol cells multiples of 2^-e: approximate_score(p) makes at most max(e,1) calls of next(), for every p *)
Theorem C13_run_length_dyadic : forall steps rows perm bg K p e win,
  matrix_ok K rows bg -> (2 <= length rows)%nat -> length perm = length rows ->
  dyadic_cells e rows -> score_window0 NumQ rows perm = Ok win ->
  (length (sc_run NumQ steps rows perm bg p (1 # 10) win) <= Nat.max e 1)%nat.
Proof. exact sc_run_length_dyadic. Qed.

(* score(p) RETURNS a threshold (to which C13_score_value_final / C13_score_hence apply): dyadic cells with e fractional
   bits and the closed i64 bound for max(e,1) calls of next() *)
Theorem C13_score_returns_dyadic : forall fuel rows perm bg K p e B0,
  matrix_ok K rows bg -> (2 <= length rows)%nat -> Permutation perm (seq 0 (length rows)) ->
  0 < p -> p <= 1 ->
  dyadic_cells e rows ->
  let n := Nat.max e 1 in
  (0 <= B0)%Z -> cells_boundedQ B0 rows (1 # 10) ->
  ((3 * Z.of_nat (length rows) * B0 + 4 * Z.of_nat (length rows)) * 10 ^ (Z.of_nat n - 1) <= i64_max)%Z ->
  (n <= fuel)%nat ->
  exists t, score_fuel NumQ fuel rows perm bg p = Ok t.
Proof. exact score_returns_dyadic. Qed.

(* the exact reference rows of the check (see C12Ext2.C12_reference_rows / C12_reference_skips) *)
Theorem C13_reference_rows : forall mat bg rs,
  wrows_of mat bg = Some rs -> fst (last bg dy0) = 0%Z ->
  Forall (fun row => length row = length bg) mat /\
  exists css, Forall2 (fun row ds => exact_cells (removelast row) ds) mat css /\ rs = dy_rows css bg.
Proof. exact wrows_of_no_wildcard_mass. Qed.

(* ---------- statement pins ---------- *)
Check C13_approximate_score_total : forall steps rows perm bg K p B0,
  matrix_ok K rows bg -> (2 <= length rows)%nat -> Permutation perm (seq 0 (length rows)) ->
  0 < p -> p <= 1 -> (1 <= steps)%nat ->
  (0 <= B0)%Z -> cells_boundedQ B0 rows (1 # 10) ->
  ((3 * Z.of_nat (length rows) * B0 + 4 * Z.of_nat (length rows)) * 10 ^ (Z.of_nat steps - 1) <= i64_max)%Z ->
  exists win, score_window0 NumQ rows perm = Ok win /\
              Forall (fun r => exists it, r = Ok it) (sc_run NumQ steps rows perm bg p (1 # 10) win) /\
              sc_run NumQ steps rows perm bg p (1 # 10) win <> [].

(* ---------- non-vacuity ---------- *)
Definition ex2_rows : list (list Q) :=
  [[1; -1; 1 # 3; -2; -100]; [1 # 2; -(1 # 3); 0; -1; -100]; [1 # 4; 0; 1 # 7; -(1 # 4); -100]].

(* the closed bound of C13_approximate_score_total is satisfiable: |x| / 0.1 <= 20 on the example, 12 calls of next() *)
Example C13_total_nonvacuous :
  cells_boundedQ 20 ex2_rows (1 # 10) /\
  ((3 * Z.of_nat (length ex2_rows) * 20 + 4 * Z.of_nat (length ex2_rows)) * 10 ^ (Z.of_nat 12 - 1) <= i64_max)%Z.
Proof.
  split; [|vm_compute; discriminate].
  intros r x Hr Hx. cbn in Hr.
  repeat (destruct Hr as [<-|Hr]; [cbn in Hx; repeat (destruct Hx as [<-|Hx]; [vm_compute; discriminate|]); destruct Hx|]).
  destruct Hr.
Qed.

(* C13_score_returns_dyadic applies: cells in quarters (e = 2), |x| / 0.1 <= 10 *)
Example C13_returns_nonvacuous :
  exists t, score_fuel NumQ 7 dyad_rows dyad_perm tie_bg (15 # 128) = Ok t.
Proof.
  apply (score_returns_dyadic 7 dyad_rows dyad_perm tie_bg 5 (15 # 128) 2 10 dyad_matrix_ok).
  - simpl; lia.
  - unfold dyad_perm, dyad_rows. cbn [length seq]. apply Permutation_sym.
    apply (perm_trans (l' := [0; 2; 1]%nat)); [apply perm_skip; apply perm_swap|apply Permutation_refl].
  - reflexivity.
  - vm_compute. discriminate.
  - exact dyad_rows_dyadic.
  - lia.
  - intros r x Hr Hx. cbn in Hr.
    repeat (destruct Hr as [<-|Hr]; [cbn in Hx; repeat (destruct Hx as [<-|Hx]; [vm_compute; discriminate|]); destruct Hx|]).
    destruct Hr.
  - vm_compute. discriminate.
  - simpl; lia.
Qed.
