(* Integer-overflow panic sites of the TFM-PVALUE model (TfmModel.v) are unreachable
   under an explicit bound on the raw integer cells and on the lookup window.

   Sites: 13 (-min), 14 (int_matrix += offset), 21 (sum of offsets), 23 (suffix sums
   of max_score_rows), 24 (max + 1), 33 (iscore - offset), 34 (window sums).
   Everything up to the instance sections holds for an arbitrary [N : NumOps T], in
   particular for the binary64 instance that is replayed against the implementation. *)
From Coq Require Import ZArith QArith Qround Qabs List Bool Lia Lqa.
From LMBase Require Import Res ListX.
From LMTfm Require Import TfmNum TfmModel TfmSpec TfmProofs TfmTotal.
Import ListNotations.
Open Scope Z_scope.

(* ------------------------------------------------------------------ *)
(** * Plain integer facts *)

Lemma in_i64_iff z : in_i64 z = true <-> i64_min <= z <= i64_max.
Proof. unfold in_i64. rewrite andb_true_iff, !Z.leb_le. tauto. Qed.

(* every entry of the list lies in [lo, hi] *)
Definition zin (lo hi : Z) (l : list Z) : Prop := Forall (fun z => lo <= z <= hi) l.

Lemma zin_weaken lo hi lo' hi' l : lo' <= lo -> hi <= hi' -> zin lo hi l -> zin lo' hi' l.
Proof. intros H1 H2 H. eapply Forall_impl; [|exact H]. simpl. intros a Ha. lia. Qed.

Lemma zin_in lo hi l x : zin lo hi l -> In x l -> lo <= x <= hi.
Proof. intros H Hx. unfold zin in H. rewrite Forall_forall in H. auto. Qed.

Lemma Forall_map_intro {A B} (f : A -> B) (P : B -> Prop) l :
  Forall (fun x => P (f x)) l -> Forall P (map f l).
Proof. induction 1; simpl; constructor; auto. Qed.

Lemma Forall2_Forall_r {A B} (P : A -> Prop) (R : A -> B -> Prop) (Q : B -> Prop) l l' :
  (forall a b, P a -> R a b -> Q b) -> Forall P l -> Forall2 R l l' -> Forall Q l'.
Proof.
  intros H HP HR. revert HP. induction HR; intros HP; [constructor|].
  inversion HP; subst. constructor; eauto.
Qed.

Lemma Forall2_length {A B} (R : A -> B -> Prop) l l' : Forall2 R l l' -> length l = length l'.
Proof. induction 1; simpl; congruence. Qed.

Lemma zmin_from_bnd lo hi a l : lo <= a <= hi -> zin lo hi l -> lo <= zmin_from a l <= hi.
Proof.
  revert a; induction l as [|y r IH]; intros a Ha Hl; simpl; [lia|].
  inversion Hl; subst. apply IH; [lia|auto].
Qed.

Lemma zmax_from_bnd lo hi a l : lo <= a <= hi -> zin lo hi l -> lo <= zmax_from a l <= hi.
Proof.
  revert a; induction l as [|y r IH]; intros a Ha Hl; simpl; [lia|].
  inversion Hl; subst. apply IH; [lia|auto].
Qed.

Lemma zmin_list_bnd lo hi l z : zin lo hi l -> zmin_list l = Ok z -> lo <= z <= hi.
Proof.
  destruct l as [|a r]; simpl; intros Hl H; inversion H; subst.
  inversion Hl; subst. apply zmin_from_bnd; auto.
Qed.

Lemma zmax_list_bnd lo hi l z : zin lo hi l -> zmax_list l = Ok z -> lo <= z <= hi.
Proof.
  destruct l as [|a r]; simpl; intros Hl H; inversion H; subst.
  inversion Hl; subst. apply zmax_from_bnd; auto.
Qed.

(* ------------------------------------------------------------------ *)
(** * (C) checked sums: sites 21 and 34 *)

Lemma sum_i64_bnd site C l : forall acc a,
  zin (-C) C l -> - a <= acc <= a -> a + Z.of_nat (length l) * C <= i64_max ->
  exists z, sum_i64 site acc l = Ok z /\
            - (a + Z.of_nat (length l) * C) <= z <= a + Z.of_nat (length l) * C.
Proof.
  induction l as [|x r IH]; intros acc a Hl Ha Hb.
  - exists acc. simpl. split; [reflexivity|lia].
  - inversion Hl as [|x' r' Hx Hr]; subst.
    cbn [length] in *. rewrite Nat2Z.inj_succ, Z.mul_succ_l in *.
    set (k := Z.of_nat (length r) * C) in *.
    assert (Hk : 0 <= k) by (apply Z.mul_nonneg_nonneg; lia).
    cbn [sum_i64].
    assert (Hi : in_i64 (acc + x) = true).
    { apply in_i64_iff. unfold i64_min, i64_max in *. lia. }
    rewrite Hi.
    destruct (IH (acc + x) (a + C) Hr) as [z [Hz Hzb]]; [lia|fold k; lia|].
    exists z. split; [exact Hz|]. fold k in Hzb. lia.
Qed.

(* the checked sum from 0 of entries in [-C, C] does not overflow when length * C fits *)
Theorem sum_i64_no_overflow site l C :
  zin (-C) C l -> Z.of_nat (length l) * C <= i64_max ->
  exists z, sum_i64 site 0 l = Ok z /\
            - (Z.of_nat (length l) * C) <= z <= Z.of_nat (length l) * C.
Proof.
  intros Hl Hb. destruct (sum_i64_bnd site C l 0 0 Hl) as [z [Hz Hzb]]; [lia|lia|].
  exists z. split; [exact Hz|lia].
Qed.

Corollary sum_i64_never_panics site l C n :
  zin (-C) C l -> Z.of_nat (length l) * C <= i64_max -> sum_i64 site 0 l <> Panic n.
Proof.
  intros Hl Hb. destruct (sum_i64_no_overflow site l C Hl Hb) as [z [Hz _]]. congruence.
Qed.

(* ------------------------------------------------------------------ *)
(** * (B) suffix sums: site 23 *)

Lemma suffix_sums_bnd C l :
  zin 0 C l -> zin 0 (Z.of_nat (length l) * C) (suffix_sums l).
Proof.
  induction l as [|x r IH]; intros Hl.
  - simpl. constructor; [lia|constructor].
  - inversion Hl as [|x' r' Hx Hr]; subst. specialize (IH Hr).
    cbn [length suffix_sums]. rewrite Nat2Z.inj_succ, Z.mul_succ_l.
    set (k := Z.of_nat (length r) * C) in *.
    assert (Hk : 0 <= k) by (apply Z.mul_nonneg_nonneg; lia).
    set (s := suffix_sums r) in *.
    assert (Hh : 0 <= hd 0 s <= k).
    { destruct s as [|h t]; simpl; [lia|]. inversion IH; subst. assumption. }
    constructor; [lia|]. eapply zin_weaken; [| |exact IH]; lia.
Qed.

(* ------------------------------------------------------------------ *)
(** * Generic part *)

Section Overflow.
  Context {T : Type} (N : NumOps T).

  (* ---------------------------------------------------------------- *)
  (** ** offset_row: sites 13 and 14 *)

  Lemma offset_row_bnd B ir :
    0 <= B -> 2 * B <= i64_max -> zin (-B) B ir ->
    (forall n, offset_row ir = Panic n -> n = 12%nat) /\
    (forall off ir', offset_row ir = Ok (off, ir') -> - B <= off <= B /\ zin 0 (2 * B) ir').
  Proof.
    intros HB H2 Hin.
    destruct ir as [|a r].
    { split; [intros n H; inversion H; reflexivity|intros off ir' H; discriminate]. }
    unfold offset_row, zmin_list. cbn [rbind]. cbv zeta.
    destruct (zmin_from_le a r) as [Hm1 Hm2].
    assert (Hmb : - B <= zmin_from a r <= B).
    { inversion Hin; subst. apply zmin_from_bnd; auto. }
    set (m := zmin_from a r) in *. clearbody m.
    assert (Hall : zin 0 (2 * B) (map (fun x => x + - m) (a :: r))).
    { apply Forall_forall. intros z Hz. apply in_map_iff in Hz. destruct Hz as [x [<- Hx]].
      assert (m <= x) by (destruct Hx as [<-|Hx]; auto).
      pose proof (zin_in _ _ _ _ Hin Hx). lia. }
    destruct (Z.eqb_spec m i64_min) as [E|_].
    { exfalso. unfold i64_min, i64_max in *. lia. }
    assert (Hf : forallb in_i64 (map (fun x => x + - m) (a :: r)) = true).
    { apply forallb_forall. intros z Hz. apply in_i64_iff.
      pose proof (zin_in _ _ _ _ Hall Hz). unfold i64_min, i64_max in *. lia. }
    rewrite Hf. split.
    - intros n H; discriminate.
    - intros off ir' H. inversion H; subst. split; [lia|exact Hall].
  Qed.

  (* ---------------------------------------------------------------- *)
  (** ** (A) recompute *)

  Lemma permuted_rows_in (rows : list (list T)) perm prow :
    permuted_rows rows perm = Ok prow ->
    length prow = length perm /\ forall r, In r prow -> In r rows.
  Proof.
    unfold permuted_rows. intros H. apply rall_map_ok in H. split.
    - symmetry. eapply Forall2_length; eauto.
    - induction H as [|p r perm' prow' Hp _ IH]; intros r0 Hr; [destruct Hr|].
      destruct Hr as [<-|Hr]; [|auto].
      destruct (nth_error rows p) as [r'|] eqn:E; inversion Hp; subst.
      eapply nth_error_In; eauto.
  Qed.

  Lemma recompute_ok_inv rows perm g G :
    recompute N rows perm g = Ok G ->
    exists prow offs,
      permuted_rows rows perm = Ok prow /\
      rall (map offset_row (map (raw_int_row N g) prow)) = Ok offs /\
      g_gran G = g /\ g_int G = map snd offs /\ g_off G = map fst offs /\
      rall (map zmin_list (g_int G)) = Ok (g_minr G) /\
      rall (map zmax_list (g_int G)) = Ok (g_maxr G).
  Proof.
    unfold recompute. intros H.
    destruct (negb (lt N g (n_one N))); [discriminate|].
    apply rbind_ok in H. destruct H as [prow [Hp H]].
    apply rbind_ok in H. destruct H as [em [Hem H]].
    apply rbind_ok in H. destruct H as [offs [Hoffs H]].
    apply rbind_ok in H. destruct H as [minr [Hminr H]].
    apply rbind_ok in H. destruct H as [maxr [Hmaxr H]].
    inversion H; subst; clear H. cbn [g_gran g_int g_off g_minr g_maxr].
    exists prow, offs. repeat split; auto.
  Qed.

  (* the bound on the integer cells `(x / g).floor() as i64` before the offsets *)
  Definition raw_bounded (B : Z) (rows : list (list T)) (perm : list nat) (g : T) : Prop :=
    forall prow, permuted_rows rows perm = Ok prow ->
                 Forall (zin (- B) B) (map (raw_int_row N g) prow).

  (* ... follows from the bound on every symbol cell of the matrix *)
  Lemma raw_bounded_of_cells B rows perm g :
    (forall r x, In r rows -> In x (cells r) -> - B <= n_floorZ N (n_div N x g) <= B) ->
    raw_bounded B rows perm g.
  Proof.
    intros H prow Hp. destruct (permuted_rows_in _ _ _ Hp) as [_ Hin].
    apply Forall_map_intro. apply Forall_forall. intros r Hr.
    unfold raw_int_row. apply Forall_map_intro. apply Forall_forall. intros x Hx.
    apply (H r x); auto.
  Qed.

  Theorem recompute_no_overflow rows perm g B n :
    0 <= B -> 2 * B <= i64_max -> raw_bounded B rows perm g ->
    recompute N rows perm g = Panic n -> (n <> 13 /\ n <> 14)%nat.
  Proof.
    intros HB H2 Hraw. unfold recompute. destruct (negb _); [intros H; inversion H; lia|].
    intros H. apply rbind_panic in H. destruct H as [H|[prow [Hp H]]].
    { unfold permuted_rows in H. apply rall_panic in H. apply in_map_iff in H.
      destruct H as [q [H _]]. destruct (nth_error rows q); inversion H. lia. }
    specialize (Hraw prow Hp).
    apply rbind_panic in H. destruct H as [H|[em [_ H]]].
    { revert H. generalize (n_zero N). generalize (tl (combine prow (map (raw_int_row N g) prow))).
      induction l as [|[row ir] r IH]; intros acc H; cbn [error_max_from] in H; [discriminate|].
      apply rbind_panic in H. destruct H as [H|[e [_ H]]]; [|eauto].
      unfold row_max_err in H. destruct (row_errs _ _ _ _); inversion H. lia. }
    apply rbind_panic in H. destruct H as [H|[offs [_ H]]].
    { apply rall_panic in H. apply in_map_iff in H. destruct H as [ir [H Hir]].
      rewrite Forall_forall in Hraw. specialize (Hraw ir Hir).
      destruct (offset_row_bnd B ir HB H2 Hraw) as [Hpn _]. apply Hpn in H. lia. }
    apply rbind_panic in H. destruct H as [H|[minr [_ H]]].
    { apply rall_panic in H. apply in_map_iff in H. destruct H as [ir [H _]].
      destruct ir; inversion H. lia. }
    apply rbind_panic in H. destruct H as [H|[maxr [_ H]]]; [|discriminate].
    apply rall_panic in H. apply in_map_iff in H. destruct H as [ir [H _]].
    destruct ir; inversion H. lia.
  Qed.

  Theorem recompute_ok_bounds rows perm g B G :
    0 <= B -> 2 * B <= i64_max -> raw_bounded B rows perm g ->
    recompute N rows perm g = Ok G ->
    Forall (zin 0 (2 * B)) (g_int G) /\ zin (- B) B (g_off G) /\
    zin 0 (2 * B) (g_minr G) /\ zin 0 (2 * B) (g_maxr G) /\
    length (g_int G) = length perm /\ length (g_off G) = length perm /\
    length (g_minr G) = length perm /\ length (g_maxr G) = length perm.
  Proof.
    intros HB H2 Hraw H. apply recompute_ok_inv in H.
    destruct H as [prow [offs [Hp [Hoffs [_ [Hint [Hoff [Hmin Hmax]]]]]]]].
    specialize (Hraw prow Hp). destruct (permuted_rows_in _ _ _ Hp) as [Hlen _].
    apply rall_map_ok in Hoffs.
    assert (Hlo : length offs = length perm).
    { apply Forall2_length in Hoffs. rewrite map_length in Hoffs. lia. }
    assert (Ho : Forall (fun ob => - B <= fst ob <= B /\ zin 0 (2 * B) (snd ob)) offs).
    { eapply Forall2_Forall_r; [|exact Hraw|exact Hoffs].
      intros ir [off ir'] Hir Hr. simpl.
      destruct (offset_row_bnd B ir HB H2 Hir) as [_ Hok]. apply Hok. exact Hr. }
    assert (Hi : Forall (zin 0 (2 * B)) (g_int G)).
    { rewrite Hint. apply Forall_map_intro. eapply Forall_impl; [|exact Ho]. simpl. tauto. }
    apply rall_map_ok in Hmin. apply rall_map_ok in Hmax.
    split; [exact Hi|]. split.
    { rewrite Hoff. apply Forall_map_intro. eapply Forall_impl; [|exact Ho]. simpl. tauto. }
    split.
    { eapply Forall2_Forall_r; [|exact Hi|exact Hmin]. intros a b Ha Hab. simpl in Hab.
      eapply zmin_list_bnd; eauto. }
    split.
    { eapply Forall2_Forall_r; [|exact Hi|exact Hmax]. intros a b Ha Hab. simpl in Hab.
      eapply zmax_list_bnd; eauto. }
    apply Forall2_length in Hmin. apply Forall2_length in Hmax.
    rewrite Hint, Hoff in *. rewrite !map_length in *. lia.
  Qed.

  (* ---------------------------------------------------------------- *)
  (** ** (B) distribution: sites 23 and 24 *)

  Theorem distribution_no_23 G bg mn mx C :
    zin 0 C (g_maxr G) -> Z.of_nat (length (g_maxr G)) * C <= i64_max ->
    distribution N G bg mn mx <> Panic 23.
  Proof.
    intros Hm Hb. unfold distribution. destruct (g_int G) as [|irow0 irows]; [discriminate|].
    cbv zeta.
    assert (Hf : forallb in_i64 (suffix_sums (g_maxr G)) = true).
    { apply forallb_forall. intros z Hz. apply in_i64_iff.
      pose proof (zin_in _ _ _ _ (suffix_sums_bnd C _ Hm) Hz). unfold i64_min, i64_max in *. lia. }
    rewrite Hf. cbn [negb].
    destruct (mx =? i64_max); [discriminate|].
    destruct (dist_loop _ _ _ _ _ _ _ _) as [[acc cur] bucket]. discriminate.
  Qed.

  Theorem distribution_no_24 G bg mn mx :
    mx < i64_max -> distribution N G bg mn mx <> Panic 24.
  Proof.
    intros Hm. unfold distribution. destruct (g_int G) as [|irow0 irows]; [discriminate|].
    cbv zeta. destruct (negb _); [discriminate|].
    destruct (Z.eqb_spec mx i64_max) as [E|_]; [lia|].
    destruct (dist_loop _ _ _ _ _ _ _ _) as [[acc cur] bucket]. discriminate.
  Qed.

  (* ---------------------------------------------------------------- *)
  (** ** (D) PvaluesIterator::next *)

  (* the `max` of lookup_pvalue, as computed by the model *)
  Definition pv_hi_of (G : geom) (score : T) (osum : Z) : Z :=
    n_floorZ N (n_add N (n_add N (n_add N (n_div N score (g_gran G)) (n_ofZ N osum)) (g_emax G)) (n_one N)).

  Lemma lookup_pvalue_panic G bg score n :
    lookup_pvalue N G bg score = Panic n ->
    n = 20%nat \/ n = 25%nat \/
    sum_i64 21 0 (g_off G) = Panic n \/
    exists osum mn, sum_i64 21 0 (g_off G) = Ok osum /\
                    distribution N G bg mn (pv_hi_of G score osum) = Panic n.
  Proof.
    unfold lookup_pvalue. destruct (n_isnan N (g_gran G)); [intros H; inversion H; auto|].
    intros H. apply rbind_panic in H. destruct H as [H|[osum [Eo H]]]; [auto|].
    apply rbind_panic in H. destruct H as [H|[rowsq [Hd H]]].
    { right; right; right. exists osum. eexists. split; [exact Eo|exact H]. }
    revert H. cbv zeta. destruct (fm_get _ _); [destruct (walk_down _ _ _)|];
      intros H; inversion H; auto.
  Qed.

  Theorem pv_next_no_overflow rows perm bg score g B n :
    0 <= B -> 2 * B <= i64_max ->
    2 * Z.of_nat (length perm) * B <= i64_max ->
    raw_bounded B rows perm g ->
    (forall G osum, recompute N rows perm g = Ok G -> sum_i64 21 0 (g_off G) = Ok osum ->
                    pv_hi_of G score osum < i64_max) ->
    pv_next N rows perm bg score g = Panic n ->
    (n <> 13 /\ n <> 14 /\ n <> 21 /\ n <> 23 /\ n <> 24)%nat.
  Proof.
    intros HB H2 HM Hraw Hwin. unfold pv_next. intros H.
    apply rbind_panic in H. destruct H as [H|[G [HG H]]].
    { pose proof (recompute_panic N _ _ _ _ H).
      pose proof (recompute_no_overflow _ _ _ _ _ HB H2 Hraw H). lia. }
    apply rbind_panic in H. destruct H as [H|[o [_ H]]]; [|discriminate].
    destruct (recompute_ok_bounds _ _ _ _ _ HB H2 Hraw HG)
      as [Hint [Hoff [Hminr [Hmaxr [Li [Lo [Lmin Lmax]]]]]]].
    assert (HMB : Z.of_nat (length perm) * B <= i64_max).
    { assert (0 <= Z.of_nat (length perm) * B) by (apply Z.mul_nonneg_nonneg; lia). lia. }
    apply lookup_pvalue_panic in H.
    destruct H as [H|[H|[H|[osum [mn [Eo H]]]]]]; [lia|lia| |].
    - exfalso. revert H. apply (sum_i64_never_panics 21 _ B); [exact Hoff|]. rewrite Lo. exact HMB.
    - pose proof (distribution_panic N _ _ _ _ _ H) as Hc.
      assert (n <> 23%nat).
      { intros ->. revert H. apply (distribution_no_23 _ _ _ _ (2 * B)); [exact Hmaxr|].
        rewrite Lmax. lia. }
      assert (n <> 24%nat).
      { intros ->. revert H. apply distribution_no_24. apply (Hwin G osum HG Eo). }
      lia.
  Qed.

  (* ---------------------------------------------------------------- *)
  (** ** approximate_score: the initial window *)

  Theorem score_window0_no_overflow rows perm B n :
    0 <= B -> 2 * B <= i64_max ->
    2 * Z.of_nat (length perm) * B <= i64_max ->
    raw_bounded B rows perm (n_tenth N) ->
    (forall G, recompute N rows perm (n_tenth N) = Ok G ->
               i64_min <= n_ceilZ N (n_add N (g_emax G) (n_half N)) /\
               2 * Z.of_nat (length perm) * B + n_ceilZ N (n_add N (g_emax G) (n_half N)) <= i64_max) ->
    score_window0 N rows perm = Panic n -> (n <> 13 /\ n <> 14 /\ n <> 34)%nat.
  Proof.
    intros HB H2 HM Hraw Hc. unfold score_window0. intros H.
    apply rbind_panic in H. destruct H as [H|[G [HG H]]].
    { pose proof (recompute_panic N _ _ _ _ H).
      pose proof (recompute_no_overflow _ _ _ _ _ HB H2 Hraw H). lia. }
    exfalso.
    destruct (recompute_ok_bounds _ _ _ _ _ HB H2 Hraw HG)
      as [Hint [Hoff [Hminr [Hmaxr [Li [Lo [Lmin Lmax]]]]]]].
    destruct (Hc G HG) as [Hc1 Hc2].
    set (c := n_ceilZ N (n_add N (g_emax G) (n_half N))) in *.
    assert (HMB0 : 0 <= Z.of_nat (length perm) * B) by (apply Z.mul_nonneg_nonneg; lia).
    assert (HMB : Z.of_nat (length perm) * (2 * B) <= i64_max).
    { unfold i64_min, i64_max in *. lia. }
    destruct (sum_i64_no_overflow 34 (g_minr G) (2 * B)) as [smin [Es _]].
    { eapply zin_weaken; [| |exact Hminr]; lia. }
    { rewrite Lmin. exact HMB. }
    destruct (sum_i64_no_overflow 34 (g_maxr G) (2 * B)) as [smax [Ex Hxb]].
    { eapply zin_weaken; [| |exact Hmaxr]; lia. }
    { rewrite Lmax. exact HMB. }
    rewrite Es in H. cbn [rbind] in H. rewrite Ex in H. cbn [rbind] in H.
    pose proof (sum_i64_ok _ _ _ _ Ex) as Esum.
    assert (Hnn : 0 <= smax).
    { rewrite Esum. clear -Hmaxr. induction Hmaxr; simpl; lia. }
    rewrite Lmax in Hxb.
    assert (Hi : in_i64 (smax + c) = true).
    { apply in_i64_iff. unfold i64_min, i64_max in *. lia. }
    cbv zeta in H. fold c in H. rewrite Hi in H. discriminate.
  Qed.

End Overflow.

(* ------------------------------------------------------------------ *)
(** * Keys of the tables of [distribution]; ScoresIterator::next (site 33) *)

Section Keys.
  Context {T : Type} (N : NumOps T).

  Definition keysP (P : Z -> Prop) (m : fmap (T:=T)) : Prop :=
    forall j, In j (map fst m) -> P j.

  Lemma keysP_nil (P : Z -> Prop) : keysP P [].
  Proof. intros j []. Qed.

  Lemma keysP_impl (P Q : Z -> Prop) m : (forall j, P j -> Q j) -> keysP P m -> keysP Q m.
  Proof. intros H Hm j Hj. auto. Qed.

  Lemma fm_add_keys_gen k v (m : fmap (T:=T)) j :
    In j (map fst (fm_add N k v m)) -> j = k \/ In j (map fst m).
  Proof.
    induction m as [|[k' v'] r IH]; cbn [fm_add].
    - simpl. intuition.
    - destruct (Z.ltb_spec k k') as [Hlt|Hge].
      + simpl. intuition.
      + destruct (Z.eqb_spec k k') as [->|Hne].
        * simpl. intuition.
        * cbn [map fst In]. intros [E|Hin]; [auto|]. destruct (IH Hin); auto.
  Qed.

  Lemma fm_add_keysP (P : Z -> Prop) k v m : P k -> keysP P m -> keysP P (fm_add N k v m).
  Proof. intros Hk Hm j Hj. apply fm_add_keys_gen in Hj. destruct Hj as [->|Hj]; auto. Qed.

  Lemma init_row_keys (P : Z -> Prop) mn maxs1 irow (bg : list T) :
    (forall c, In c irow -> P c) -> keysP P (init_row N mn maxs1 irow bg).
  Proof.
    intros Hc. unfold init_row.
    assert (Hl : forall cb, In cb (combine irow bg) -> P (fst cb)).
    { intros [c b] Hin. apply in_combine_l in Hin. auto. }
    revert Hl. generalize (combine irow bg). generalize (keysP_nil P). generalize (@nil (Z * T)).
    intros m Hm l. revert m Hm. induction l as [|cb l IH]; intros m Hm Hl; cbn [fold_left]; [exact Hm|].
    apply IH; [|intros cb' Hin; apply Hl; right; exact Hin].
    destruct (_ >=? _); [|exact Hm]. apply fm_add_keysP; [apply Hl; left; reflexivity|exact Hm].
  Qed.

  Lemma step_cell_keys (P : Z -> Prop) mn mx mnext rnext key val (st : fmap (T:=T) * T) cb :
    keysP P (fst st) -> (key + fst cb <= mx -> P (key + fst cb)) ->
    keysP P (fst (step_cell N mn mx mnext rnext key val st cb)).
  Proof.
    intros Hst Hk. unfold step_cell. cbv zeta.
    destruct (_ >=? _); [|exact Hst].
    destruct (Z.gtb_spec (key + fst cb) mx) as [Hgt|Hle]; cbn [fst]; [exact Hst|].
    apply fm_add_keysP; auto.
  Qed.

  Lemma step_row_keys a C mn mx mnext rnext irow (bg : list T) cur bucket :
    zin 0 C irow -> keysP (fun j => 0 <= j <= a) cur ->
    keysP (fun j => 0 <= j <= a + C) (fst (step_row N mn mx mnext rnext irow bg cur bucket)).
  Proof.
    intros Hc Hcur. unfold step_row.
    set (Q := fun j => 0 <= j <= a + C).
    assert (Hl : forall cb, In cb (combine irow bg) -> 0 <= fst cb <= C).
    { intros [c b] Hin. apply in_combine_l in Hin. apply (zin_in _ _ _ _ Hc Hin). }
    revert Hl. generalize (combine irow bg). intros cells0 Hl.
    assert (Hin : forall key val l st, 0 <= key <= a ->
              (forall cb, In cb l -> 0 <= fst cb <= C) -> keysP Q (fst st) ->
              keysP Q (fst (fold_left (step_cell N mn mx mnext rnext key val) l st))).
    { intros key val l. induction l as [|cb l IH]; intros st Hk Hcb Hst; cbn [fold_left]; [exact Hst|].
      apply IH; [exact Hk|intros cb' Hi; apply Hcb; right; exact Hi|].
      apply step_cell_keys; [exact Hst|]. intros _. unfold Q.
      pose proof (Hcb cb (or_introl eq_refl)). lia. }
    assert (Hst0 : keysP Q (fst (@nil (Z * T), bucket))) by apply keysP_nil.
    revert Hst0. generalize (@nil (Z * T), bucket). revert Hcur.
    induction cur as [|kv cur IH]; intros Hcur st Hst; cbn [fold_left]; [exact Hst|].
    apply IH.
    - intros j Hj. apply Hcur. right. exact Hj.
    - apply Hin; [apply Hcur; left; reflexivity|exact Hl|exact Hst].
  Qed.

  Lemma dist_loop_keys mn mx (bg : list T) C : forall rm cur bucket acc a accf curf bf,
    0 <= C ->
    Forall (fun t => zin 0 C (fst (fst t))) rm ->
    keysP (fun j => 0 <= j <= a) cur ->
    dist_loop N mn mx bg rm cur bucket acc = (accf, curf, bf) ->
    keysP (fun j => 0 <= j <= a + Z.of_nat (length rm) * C) curf.
  Proof.
    induction rm as [|[[irow mnext] rnext] rm IH]; intros cur bucket acc a accf curf bf HC Hrm Hcur H.
    - cbn [dist_loop] in H. inversion H; subst. eapply keysP_impl; [|exact Hcur].
      simpl. intros j Hj. lia.
    - cbn [dist_loop] in H. inversion Hrm as [|t rm' Hrow Hrest]; subst. cbn [fst] in Hrow.
      pose proof (step_row_keys a C mn mx mnext rnext irow bg cur bucket Hrow Hcur) as Hnx.
      destruct (step_row N mn mx mnext rnext irow bg cur bucket) as [nxt b]. cbn [fst] in Hnx.
      specialize (IH nxt b (cur :: acc) (a + C) accf curf bf HC Hrest Hnx H).
      eapply keysP_impl; [|exact IH]. cbn beta. intros j Hj.
      cbn [length]. rewrite Nat2Z.inj_succ, Z.mul_succ_l. lia.
  Qed.

  (* keys of the last table: sums of cells in [0, M C], and the overflow key max + 1 *)
  Theorem distribution_last_keys G bg mn mx C rowsq :
    0 <= C -> Forall (zin 0 C) (g_int G) ->
    distribution N G bg mn mx = Ok rowsq ->
    forall j, In j (map fst (last rowsq [])) ->
              j = mx + 1 \/ 0 <= j <= Z.of_nat (length (g_int G)) * C.
  Proof.
    intros HC Hint. unfold distribution.
    destruct (g_int G) as [|irow0 irows] eqn:Eint; [discriminate|].
    cbv zeta. destruct (negb _); [discriminate|]. destruct (mx =? i64_max); [discriminate|].
    inversion Hint as [|x l Hr0 Hrs]; subst.
    set (rm := combine (combine irows _) _).
    assert (Hrm : Forall (fun t => zin 0 C (fst (fst t))) rm /\ (length rm <= length irows)%nat).
    { unfold rm. split.
      - apply Forall_forall. intros [[ir mnx] rn] Hin. cbn [fst].
        apply in_combine_l in Hin. apply in_combine_l in Hin.
        rewrite Forall_forall in Hrs. auto.
      - rewrite !combine_length. lia. }
    destruct Hrm as [Hrm Hlen]. clearbody rm.
    set (q0 := init_row N mn _ irow0 bg).
    assert (Hq0 : keysP (fun j => 0 <= j <= C) q0).
    { apply init_row_keys. intros c Hc. apply (zin_in _ _ _ _ Hr0 Hc). }
    clearbody q0.
    destruct (dist_loop N mn mx bg rm q0 (n_zero N) []) as [[acc cur] bucket] eqn:Ed.
    pose proof (dist_loop_keys mn mx bg C rm q0 (n_zero N) [] C acc cur bucket HC Hrm Hq0 Ed) as Hk.
    intros H; inversion H; subst rowsq. intros j Hj. rewrite last_last in Hj.
    apply fm_set_keys in Hj. destruct Hj as [->|Hj]; [left; reflexivity|right].
    specialize (Hk j Hj). cbn beta in Hk. cbn [length]. rewrite Nat2Z.inj_succ, Z.mul_succ_l.
    assert (Z.of_nat (length rm) * C <= Z.of_nat (length irows) * C).
    { apply Z.mul_le_mono_nonneg_r; lia. }
    lia.
  Qed.

  (* the key alpha returned by lookup_score is a key of the last table *)
  Lemma lookup_score_alpha_key G bg p mn mx o :
    lookup_score N G bg p mn mx = Ok o ->
    exists rowsq, distribution N G bg mn mx = Ok rowsq /\ In (ls_alpha o) (map fst (last rowsq [])).
  Proof.
    unfold lookup_score. destruct (n_isnan N (g_gran G)); [discriminate|].
    intros H. apply rbind_ok in H. destruct H as [rowsq [Hd H]].
    exists rowsq. split; [exact Hd|].
    set (lastm := last rowsq []) in *. clearbody lastm.
    destruct (length lastm) as [|top]; [discriminate|].
    apply rbind_ok in H. destruct H as [[[riter sum] pvs] [_ H]].
    apply rbind_ok in H. destruct H as [[[[a ae] pvs'] exh] [Hsel H]].
    assert (Ha : In a (map fst lastm)).
    { assert (Hk : forall i k, key_at lastm i 31 = Ok k -> In k (map fst lastm)).
      { intros i k Hk. apply key_at_Ok in Hk. destruct Hk as [kv [Hn <-]].
        apply in_map. eapply nth_error_In; eauto. }
      destruct (gt N sum p).
      - apply rbind_ok in Hsel. destruct Hsel as [ae0 [_ Hsel]].
        apply rbind_ok in Hsel. destruct Hsel as [a0 [Ha Hsel]].
        inversion Hsel; subst. eauto.
      - destruct riter as [|r].
        + apply rbind_ok in Hsel. destruct Hsel as [a0 [Ha Hsel]].
          inversion Hsel; subst. eauto.
        + apply rbind_ok in Hsel. destruct Hsel as [a0 [Ha Hsel]].
          apply rbind_ok in Hsel. destruct Hsel as [ae0 [_ Hsel]].
          inversion Hsel; subst. eauto. }
    apply rbind_ok in H. destruct H as [pa [_ H]].
    apply rbind_ok in H. destruct H as [pe [_ H]].
    inversion H; subst. cbn [ls_alpha]. exact Ha.
  Qed.

  (* ScoresIterator::next: the window [win] of the step is given *)
  Theorem sc_next_no_overflow rows perm bg p g win B n :
    0 <= B -> 2 * B <= i64_max ->
    3 * Z.of_nat (length perm) * B <= i64_max ->
    raw_bounded N B rows perm g ->
    snd win < i64_max ->
    i64_min + Z.of_nat (length perm) * B <= snd win + 1 <= i64_max - Z.of_nat (length perm) * B ->
    sc_next N rows perm bg p g win = Panic n ->
    (n <> 13 /\ n <> 14 /\ n <> 21 /\ n <> 23 /\ n <> 24 /\ n <> 33)%nat.
  Proof.
    intros HB H2 HM Hraw Hw Hw2. unfold sc_next. intros H.
    apply rbind_panic in H. destruct H as [H|[G [HG H]]].
    { pose proof (recompute_panic N _ _ _ _ H).
      pose proof (recompute_no_overflow N _ _ _ _ _ HB H2 Hraw H). lia. }
    destruct (recompute_ok_bounds N _ _ _ _ _ HB H2 Hraw HG)
      as [Hint [Hoff [Hminr [Hmaxr [Li [Lo [Lmin Lmax]]]]]]].
    assert (HMB0 : 0 <= Z.of_nat (length perm) * B) by (apply Z.mul_nonneg_nonneg; lia).
    apply rbind_panic in H. destruct H as [H|[o [Ho H]]].
    { apply lookup_score_panic_gen in H. destruct H as [[H _]|[H|[H _]]]; [lia| |lia].
      pose proof (distribution_panic N _ _ _ _ _ H) as Hc.
      assert (n <> 23%nat).
      { intros ->. revert H. apply (distribution_no_23 N _ _ _ _ (2 * B)); [exact Hmaxr|].
        rewrite Lmax. lia. }
      assert (n <> 24%nat).
      { intros ->. revert H. apply distribution_no_24. exact Hw. }
      lia. }
    cbv zeta in H.
    destruct (sum_i64_no_overflow 21 (g_off G) B Hoff) as [osum [Eo Hob]].
    { rewrite Lo. lia. }
    rewrite Lo in Hob.
    rewrite Eo in H. cbn [rbind] in H.
    apply lookup_score_alpha_key in Ho. destruct Ho as [rowsq [Hd Hk]].
    assert (H2B : 0 <= 2 * B) by lia.
    pose proof (distribution_last_keys G bg (fst win) (snd win) (2 * B) rowsq H2B Hint Hd _ Hk) as Hrange.
    rewrite Li in Hrange.
    assert (Hi : in_i64 (ls_alpha o - osum) = true).
    { apply in_i64_iff. unfold i64_min, i64_max in *. destruct Hrange as [E|Hr]; lia. }
    rewrite Hi in H. discriminate.
  Qed.

End Keys.

(* ------------------------------------------------------------------ *)
(** * (E) exact arithmetic *)

Open Scope Q_scope.

Lemma Qfloor_abs_bnd (q : Q) (B : Z) : Qabs q <= inject_Z B -> (- B <= Qfloor q <= B)%Z.
Proof.
  intros H. apply Qabs_Qle_condition in H. destruct H as [H1 H2]. split.
  - apply Z.le_trans with (Qfloor (inject_Z (- B))); [rewrite Qfloor_Z; lia|].
    apply Qfloor_resp_le. rewrite inject_Z_opp. exact H1.
  - apply Z.le_trans with (Qfloor (inject_Z B)); [|rewrite Qfloor_Z; lia].
    apply Qfloor_resp_le. exact H2.
Qed.

Lemma Qabs_div_pos x g : 0 < g -> Qabs (x / g) == Qabs x / g.
Proof.
  intros Hg. unfold Qdiv. rewrite Qabs_Qmult. rewrite (Qabs_pos (/ g)); [reflexivity|].
  apply Qlt_le_weak, Qinv_lt_0_compat. exact Hg.
Qed.

(* every symbol cell x of the matrix has |x| / g <= B *)
Definition cells_boundedQ (B : Z) (rows : list (list Q)) (g : Q) : Prop :=
  forall r x, In r rows -> In x (cells r) -> Qabs x / g <= inject_Z B.

Lemma raw_bounded_Q B rows perm g :
  0 < g -> cells_boundedQ B rows g -> raw_bounded NumQ B rows perm g.
Proof.
  intros Hg H. apply raw_bounded_of_cells. intros r x Hr Hx.
  cbn [NumQ n_floorZ n_div]. apply Qfloor_abs_bnd. rewrite Qabs_div_pos by exact Hg. eauto.
Qed.

Theorem recompute_no_overflow_Q rows perm g B n :
  (0 <= B)%Z -> (2 * B <= i64_max)%Z -> 0 < g -> cells_boundedQ B rows g ->
  recompute NumQ rows perm g = Panic n -> (n <> 13 /\ n <> 14)%nat.
Proof.
  intros HB H2 Hg Hc. apply (recompute_no_overflow NumQ _ _ _ B); auto. apply raw_bounded_Q; auto.
Qed.

Theorem pv_next_no_overflow_Q rows perm bg score g B n :
  (0 <= B)%Z -> (2 * B <= i64_max)%Z ->
  (2 * Z.of_nat (length perm) * B <= i64_max)%Z ->
  0 < g -> cells_boundedQ B rows g ->
  (forall G osum, recompute NumQ rows perm g = Ok G -> sum_i64 21 0 (g_off G) = Ok osum ->
                  (Qfloor (score / g + inject_Z osum + g_emax G + 1) < i64_max)%Z) ->
  pv_next NumQ rows perm bg score g = Panic n ->
  (n <> 13 /\ n <> 14 /\ n <> 21 /\ n <> 23 /\ n <> 24)%nat.
Proof.
  intros HB H2 HM Hg Hc Hw. apply (pv_next_no_overflow NumQ _ _ _ _ _ B); auto.
  - apply raw_bounded_Q; auto.
  - intros G osum HG Eo. specialize (Hw G osum HG Eo).
    apply recompute_ok_inv in HG. destruct HG as [prow [offs [_ [_ [Eg _]]]]].
    unfold pv_hi_of. cbn [NumQ n_floorZ n_add n_div n_ofZ n_one]. rewrite Eg. exact Hw.
Qed.

Theorem sc_next_no_overflow_Q rows perm bg p g win B n :
  (0 <= B)%Z -> (2 * B <= i64_max)%Z ->
  (3 * Z.of_nat (length perm) * B <= i64_max)%Z ->
  0 < g -> cells_boundedQ B rows g ->
  (snd win < i64_max)%Z ->
  (i64_min + Z.of_nat (length perm) * B <= snd win + 1 <= i64_max - Z.of_nat (length perm) * B)%Z ->
  sc_next NumQ rows perm bg p g win = Panic n ->
  (n <> 13 /\ n <> 14 /\ n <> 21 /\ n <> 23 /\ n <> 24 /\ n <> 33)%nat.
Proof.
  intros HB H2 HM Hg Hc Hw Hw2. apply (sc_next_no_overflow NumQ _ _ _ _ _ _ B); auto.
  apply raw_bounded_Q; auto.
Qed.

Theorem score_window0_no_overflow_Q rows perm B n :
  (0 <= B)%Z -> (2 * B <= i64_max)%Z ->
  (2 * Z.of_nat (length perm) * B <= i64_max)%Z ->
  cells_boundedQ B rows (1 # 10) ->
  (forall G, recompute NumQ rows perm (1 # 10) = Ok G ->
             (i64_min <= Qceiling (g_emax G + (1 # 2)) /\
              2 * Z.of_nat (length perm) * B + Qceiling (g_emax G + (1 # 2)) <= i64_max)%Z) ->
  score_window0 NumQ rows perm = Panic n -> (n <> 13 /\ n <> 14 /\ n <> 34)%nat.
Proof.
  intros HB H2 HM Hc Hw. apply (score_window0_no_overflow NumQ _ _ B); auto.
  apply raw_bounded_Q; [reflexivity|exact Hc].
Qed.

(* ------------------------------------------------------------------ *)
(** * (F) binary64: the raw integer cell from a bound on the real quotient *)

From Coq Require Import Reals Lra.
From Flocq Require Import Core BinarySingleNaN.
From LMBase Require Import IEEE.
Close Scope Q_scope.
Open Scope Z_scope.

Notation fexp64 := (SpecFloat.fexp 53 1024).

Lemma cast_sat_finite lo hi (y : F64.t) :
  BinarySingleNaN.is_finite y = true -> cast_sat 53 1024 lo hi y = Z.max lo (Z.min hi (Btrunc y)).
Proof. destruct y; simpl; intros H; try discriminate; reflexivity. Qed.

(* B must be a binary64 number (otherwise the rounded quotient can exceed it): any
   integer up to 2^53, or a power of two *)
Lemma f64_floor_div_bnd (x g : F64.t) (B : Z) :
  BinarySingleNaN.is_finite x = true -> B2R g <> 0%R ->
  0 <= B < 2 ^ 62 ->
  generic_format radix2 fexp64 (IZR B) ->
  (Rabs (B2R x / B2R g) <= IZR B)%R ->
  - B <= n_floorZ NumF64 (n_div NumF64 x g) <= B.
Proof.
  intros Fx Hg HB HfB Hq.
  cbn [NumF64 n_floorZ n_div].
  unfold F64.to_i64, F64.floor, F64.div, to_i64, ffloor, fdiv.
  pose proof (Bdiv_correct 53 1024 _ _ mode_NE x g Hg) as Hd.
  set (r := round radix2 fexp64 (round_mode mode_NE) (B2R x / B2R g)) in *.
  assert (Hr : (- IZR B <= r <= IZR B)%R).
  { apply Rabs_le_inv in Hq. destruct Hq as [Hq1 Hq2]. unfold r. split.
    - rewrite <- (round_generic radix2 fexp64 (round_mode mode_NE) (- IZR B)).
      + apply round_le; try typeclasses eauto. exact Hq1.
      + apply generic_format_opp. exact HfB.
    - rewrite <- (round_generic radix2 fexp64 (round_mode mode_NE) (IZR B)).
      + apply round_le; try typeclasses eauto. exact Hq2.
      + exact HfB. }
  assert (Hlt : (Rabs r < bpow radix2 1024)%R).
  { apply Rle_lt_trans with (IZR B); [apply Rabs_le; lra|].
    apply Rlt_le_trans with (bpow radix2 62).
    - rewrite <- (IZR_Zpower radix2 62) by lia. apply IZR_lt. change (Zpower radix2 62) with (2 ^ 62). lia.
    - apply bpow_le. lia. }
  rewrite (Rlt_bool_true _ _ Hlt) in Hd. destruct Hd as [Hd1 [Hd2 _]].
  set (q := Bdiv mode_NE x g) in *. clearbody q.
  destruct (Bnearbyint_correct 53 1024 _ mode_DN q) as [Hn1 [Hn2 _]].
  rewrite round_FIX_IZR in Hn1. cbn [round_mode] in Hn1.
  set (y := Bnearbyint mode_DN q) in *. clearbody y.
  rewrite Hd2, Fx in Hn2. rewrite Hd1 in Hn1.
  rewrite (cast_sat_finite _ _ y Hn2).
  pose proof (Btrunc_correct 53 1024 _ y) as Ht.
  rewrite round_FIX_IZR, Hn1, Ztrunc_IZR in Ht. apply eq_IZR in Ht. rewrite Ht.
  assert (Hk : - B <= Zfloor r <= B).
  { split.
    - apply Z.le_trans with (Zfloor (IZR (- B))); [rewrite Zfloor_IZR; lia|].
      apply Zfloor_le. rewrite opp_IZR. lra.
    - apply Z.le_trans with (Zfloor (IZR B)); [|rewrite Zfloor_IZR; lia].
      apply Zfloor_le. lra. }
  lia.
Qed.

Lemma generic_format64_small B : Z.abs B < 2 ^ 53 -> generic_format radix2 fexp64 (IZR B).
Proof.
  intros H. apply (generic_format_FLT radix2 (-1074) 53).
  apply (FLT_spec radix2 (-1074) 53 (IZR B) (Float radix2 B 0)).
  - unfold F2R. simpl. ring.
  - simpl. exact H.
  - simpl. lia.
Qed.

Lemma generic_format64_pow2 k : 0 <= k <= 1023 -> generic_format radix2 fexp64 (IZR (2 ^ k)).
Proof.
  intros H. change (2 ^ k) with (Zpower radix2 k). rewrite IZR_Zpower by lia.
  apply generic_format_bpow. unfold SpecFloat.fexp, FLT_exp, SpecFloat.emin. lia.
Qed.

(* every symbol cell is finite and its real quotient by the granularity is at most B *)
Definition cells_boundedF64 (B : Z) (rows : list (list F64.t)) (g : F64.t) : Prop :=
  forall r x, In r rows -> In x (cells r) ->
              BinarySingleNaN.is_finite x = true /\ (Rabs (B2R x / B2R g) <= IZR B)%R.

Lemma raw_bounded_F64 B rows perm g :
  B2R g <> 0%R -> 0 <= B < 2 ^ 62 -> generic_format radix2 fexp64 (IZR B) ->
  cells_boundedF64 B rows g -> raw_bounded NumF64 B rows perm g.
Proof.
  intros Hg HB HfB Hc. apply raw_bounded_of_cells. intros r x Hr Hx.
  destruct (Hc r x Hr Hx) as [Fx Hq]. apply f64_floor_div_bnd; auto.
Qed.

Lemma two_B_i64 B : 0 <= B < 2 ^ 62 -> 2 * B <= i64_max.
Proof. unfold i64_max. lia. Qed.

Theorem recompute_no_overflow_F64 rows perm g B n :
  B2R g <> 0%R -> 0 <= B < 2 ^ 62 -> generic_format radix2 fexp64 (IZR B) ->
  cells_boundedF64 B rows g ->
  recompute NumF64 rows perm g = Panic n -> (n <> 13 /\ n <> 14)%nat.
Proof.
  intros Hg HB HfB Hc. apply (recompute_no_overflow NumF64 _ _ _ B); [lia|apply two_B_i64; exact HB|].
  apply raw_bounded_F64; auto.
Qed.

Theorem pv_next_no_overflow_F64 rows perm bg score g B n :
  B2R g <> 0%R -> 0 <= B < 2 ^ 62 -> generic_format radix2 fexp64 (IZR B) ->
  2 * Z.of_nat (length perm) * B <= i64_max ->
  cells_boundedF64 B rows g ->
  (forall G osum, recompute NumF64 rows perm g = Ok G -> sum_i64 21 0 (g_off G) = Ok osum ->
                  pv_hi_of NumF64 G score osum < i64_max) ->
  pv_next NumF64 rows perm bg score g = Panic n ->
  (n <> 13 /\ n <> 14 /\ n <> 21 /\ n <> 23 /\ n <> 24)%nat.
Proof.
  intros Hg HB HfB HM Hc Hw.
  apply (pv_next_no_overflow NumF64 _ _ _ _ _ B); [lia|apply two_B_i64; exact HB|exact HM| |exact Hw].
  apply raw_bounded_F64; auto.
Qed.

Theorem sc_next_no_overflow_F64 rows perm bg p g win B n :
  B2R g <> 0%R -> 0 <= B < 2 ^ 62 -> generic_format radix2 fexp64 (IZR B) ->
  3 * Z.of_nat (length perm) * B <= i64_max ->
  cells_boundedF64 B rows g ->
  snd win < i64_max ->
  i64_min + Z.of_nat (length perm) * B <= snd win + 1 <= i64_max - Z.of_nat (length perm) * B ->
  sc_next NumF64 rows perm bg p g win = Panic n ->
  (n <> 13 /\ n <> 14 /\ n <> 21 /\ n <> 23 /\ n <> 24 /\ n <> 33)%nat.
Proof.
  intros Hg HB HfB HM Hc Hw Hw2.
  apply (sc_next_no_overflow NumF64 _ _ _ _ _ _ B); [lia|apply two_B_i64; exact HB|exact HM| |exact Hw|exact Hw2].
  apply raw_bounded_F64; auto.
Qed.

Lemma f64_tenth_nonzero : B2R f64_tenth <> 0%R.
Proof.
  remember f64_tenth as t eqn:E. vm_compute in E. subst t.
  unfold B2R. apply Rgt_not_eq. apply F2R_gt_0. simpl. lia.
Qed.

Theorem score_window0_no_overflow_F64 rows perm B n :
  0 <= B < 2 ^ 62 -> generic_format radix2 fexp64 (IZR B) ->
  2 * Z.of_nat (length perm) * B <= i64_max ->
  cells_boundedF64 B rows f64_tenth ->
  (forall G, recompute NumF64 rows perm f64_tenth = Ok G ->
             i64_min <= n_ceilZ NumF64 (n_add NumF64 (g_emax G) (n_half NumF64)) /\
             2 * Z.of_nat (length perm) * B + n_ceilZ NumF64 (n_add NumF64 (g_emax G) (n_half NumF64)) <= i64_max) ->
  score_window0 NumF64 rows perm = Panic n -> (n <> 13 /\ n <> 14 /\ n <> 34)%nat.
Proof.
  intros HB HfB HM Hc Hw.
  apply (score_window0_no_overflow NumF64 _ _ B); [lia|apply two_B_i64; exact HB|exact HM| |exact Hw].
  apply (raw_bounded_F64 B rows perm f64_tenth); auto. exact f64_tenth_nonzero.
Qed.
