(* Properties C12 / C13: the constants of lightmotif-tfmpvalue/src/lib.rs, regenerated on every run by
   translate/tfm_const.py into GenTfm.v, are the constants that the text of the model (TfmModel.v) uses --
   for the exact-rational instance of the theorems and (correctly rounded) for the binary64 instance that
   is replayed against the implementation.  By computation; an edited literal, loop bound or comparison
   operator of the source breaks these obligations before the replay runs. *)
From Coq Require Import ZArith QArith Qabs List Bool.
From LMBase Require Import Res ListX IEEE.
From LMTfm Require Import TfmNum TfmModel GenTfm.
Import ListNotations.
Open Scope Q_scope.

(* exact value of a finite binary64 number *)
Definition f64Q (x : F64.t) : Q := match f64_to_dy x with Some d => dy_toQ d | None => -1 end.

(* [x] is a binary64 number nearest to the decimal literal [q] (|x - q| <= half an ulp of x, ulp = 2^e) *)
Definition nearest (x : F64.t) (q : Q) (e : Z) : bool :=
  Qle_bool (Qabs (f64Q x - q)) (inject_Z 1 / inject_Z (2 ^ (1 - e))).

Definition source_constants_ok : bool :=
  (* PvaluesIterator / ScoresIterator { decay: 10.0, granularity: 0.1, target: 0.0 }, recompute(0.1) *)
  Qeq_bool gen_pv_decay (n_ten NumQ) && Qeq_bool gen_sc_decay (n_ten NumQ) &&
  Qeq_bool gen_pv_granularity (n_tenth NumQ) && Qeq_bool gen_sc_granularity (n_tenth NumQ) &&
  Qeq_bool gen_sc_recompute (n_tenth NumQ) &&
  Qeq_bool gen_pv_target (n_zero NumQ) && Qeq_bool gen_sc_target (n_zero NumQ) &&
  (* assert!(granularity < 1.0); (scaled +- error_max +- 1.0).floor(); .min(1.0) twice; decay - 1.0 *)
  Qeq_bool gen_rec_bound (n_one NumQ) && Qeq_bool gen_lp_margin_hi (n_one NumQ) &&
  Qeq_bool gen_lp_margin_lo (n_one NumQ) && Qeq_bool gen_lp_clip (n_one NumQ) &&
  Qeq_bool gen_sn_slack (n_one NumQ) && Nat.eqb gen_lp_clip_sites 2 &&
  (* (error_max + 0.5).ceil() in approximate_score and twice in ScoresIterator::next *)
  Qeq_bool gen_sc_w0_half (n_half NumQ) && Qeq_bool gen_sn_half (n_half NumQ) &&
  (* let mut sum = 0.0 (the repaired defect F11 started lookup_pvalue's sum elsewhere) *)
  Qeq_bool gen_lp_sum0 (n_zero NumQ) && Qeq_bool gen_ls_sum0 (n_zero NumQ) &&
  (* error_max summed `for i in 1..M` ([tl] in TfmModel.recompute); columns 0..K-1 ([cells] = removelast) *)
  Nat.eqb gen_rec_emax_first 1 && Nat.eqb gen_rec_cols_minus 1 &&
  (* lookup_score: `while riter > 0`, `if sum >= pvalue { break }`, `if sum > pvalue` ([ls_loop], [gt sum p]) *)
  gen_ls_guard_strict && negb gen_ls_break_strict && gen_ls_after_strict.

Theorem C12_source_constants : source_constants_ok = true.
Proof. vm_compute. reflexivity. Qed.

(* the binary64 instance: its constants are finite and nearest to the source's decimal literals *)
Definition source_constants_f64_ok : bool :=
  Qeq_bool (f64Q (n_ten NumF64)) gen_pv_decay && Qeq_bool (f64Q (n_one NumF64)) gen_rec_bound &&
  Qeq_bool (f64Q (n_half NumF64)) gen_sn_half && Qeq_bool (f64Q (n_zero NumF64)) gen_pv_target &&
  (* 0.1 is not a binary64 number: the model uses the nearest one, as rustc does (0.1 in [2^-4, 2^-3): ulp 2^-56) *)
  nearest (n_tenth NumF64) gen_pv_granularity (-56) && negb (Qeq_bool (f64Q (n_tenth NumF64)) gen_pv_granularity).

Theorem C12_source_constants_f64 : source_constants_f64_ok = true.
Proof. vm_compute. reflexivity. Qed.

(* non-vacuity of [nearest]: the neighbouring binary64 numbers of 0.1 are rejected *)
Example nearest_rejects_neighbours :
  nearest (F64.of_bits 4591870180066957721) gen_pv_granularity (-56) = false /\
  nearest (F64.of_bits 4591870180066957723) gen_pv_granularity (-56) = false.
Proof. vm_compute. split; reflexivity. Qed.
