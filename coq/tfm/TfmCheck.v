(* Soundness of the executable property checkers [c12_check] / [c13_check]
   (TfmModel.v), which run in exact dyadic arithmetic [dy] (TfmNum.v):
     1. dyadic arithmetic is exact w.r.t. [dy_toQ];
     2. the enumeration [enum_dy] computes the word sums [wsum] of TfmSpec.v
        ([tail_dy] = P(S >= t), [below_dy] = largest attainable score below t);
     3. a checker verdict 0 is equivalent to / implies the stated inequalities. *)
From Coq Require Import ZArith QArith Qpower Qround List Bool Lia Lqa Setoid Morphisms.
From LMTfm Require Import TfmNum TfmModel TfmSpec TfmProofs.
Import ListNotations.
Open Scope Q_scope.

(* ------------------------------------------------------------------ *)
(** * 1. Dyadic arithmetic is exact *)

Definition pow2Q (e : Z) : Q := 2 ^ e.

Lemma pow2Q_pos e : 0 < pow2Q e.
Proof. unfold pow2Q. apply Qpower_0_lt. reflexivity. Qed.

Lemma pow2Q_plus a b : pow2Q (a + b) == pow2Q a * pow2Q b.
Proof. unfold pow2Q. apply Qpower_plus. intro H; discriminate H. Qed.

Lemma pow2Q_0 : pow2Q 0 == 1.
Proof. reflexivity. Qed.

Lemma pow2Q_nonneg_Z n : (0 <= n)%Z -> inject_Z (2 ^ n) == pow2Q n.
Proof. intros H. unfold pow2Q. rewrite Zpower_Qpower by exact H. reflexivity. Qed.

Lemma dy_toQ_pow2 m e : dy_toQ (m, e) == inject_Z m * pow2Q e.
Proof.
  unfold dy_toQ; cbn [fst snd]. destruct e as [|p|p].
  - rewrite pow2Q_0. ring.
  - rewrite inject_Z_mult. rewrite pow2Q_nonneg_Z by lia. reflexivity.
  - rewrite Qmake_Qdiv. rewrite Pos2Z.inj_pow.
    rewrite pow2Q_nonneg_Z by lia.
    unfold Qdiv. apply Qmult_comp; [reflexivity|].
    unfold pow2Q. reflexivity.
Qed.

Lemma dy_toQ_pow2' a : dy_toQ a == inject_Z (fst a) * pow2Q (snd a).
Proof. destruct a as [m e]. apply dy_toQ_pow2. Qed.

Lemma shiftl_toQ m d e : (0 <= d)%Z -> inject_Z (Z.shiftl m d) * pow2Q e == inject_Z m * pow2Q (d + e).
Proof.
  intros H. rewrite Z.shiftl_mul_pow2 by exact H. rewrite inject_Z_mult.
  rewrite pow2Q_nonneg_Z by exact H. rewrite pow2Q_plus. ring.
Qed.

Lemma dy_align_toQ a b :
  let e := Z.min (snd a) (snd b) in
  inject_Z (fst (dy_align a b)) * pow2Q e == dy_toQ a /\
  inject_Z (snd (dy_align a b)) * pow2Q e == dy_toQ b.
Proof.
  destruct a as [ma ea], b as [mb eb]. unfold dy_align. cbn [fst snd].
  split; rewrite shiftl_toQ by lia; rewrite dy_toQ_pow2.
  - replace (ea - Z.min ea eb + Z.min ea eb)%Z with ea by lia. reflexivity.
  - replace (eb - Z.min ea eb + Z.min ea eb)%Z with eb by lia. reflexivity.
Qed.

Lemma dy_toQ_add a b : dy_toQ (dy_add a b) == dy_toQ a + dy_toQ b.
Proof.
  destruct (dy_align_toQ a b) as [Ha Hb]. unfold dy_add.
  destruct (dy_align a b) as [x y]. cbn [fst snd] in *.
  rewrite dy_toQ_pow2. rewrite inject_Z_plus. rewrite <- Ha, <- Hb. ring.
Qed.

Lemma dy_toQ_sub a b : dy_toQ (dy_sub a b) == dy_toQ a - dy_toQ b.
Proof.
  destruct (dy_align_toQ a b) as [Ha Hb]. unfold dy_sub.
  destruct (dy_align a b) as [x y]. cbn [fst snd] in *.
  rewrite dy_toQ_pow2. unfold Z.sub. rewrite inject_Z_plus, inject_Z_opp. rewrite <- Ha, <- Hb. ring.
Qed.

Lemma dy_toQ_mul a b : dy_toQ (dy_mul a b) == dy_toQ a * dy_toQ b.
Proof.
  unfold dy_mul. rewrite dy_toQ_pow2, (dy_toQ_pow2' a), (dy_toQ_pow2' b).
  rewrite inject_Z_mult, pow2Q_plus. ring.
Qed.

Lemma dy_toQ_ofZ z : dy_toQ (dy_ofZ z) == inject_Z z.
Proof. reflexivity. Qed.

Lemma dy_toQ_0 : dy_toQ dy0 == 0.
Proof. reflexivity. Qed.

Lemma dy_toQ_1 : dy_toQ dy1 == 1.
Proof. reflexivity. Qed.

Lemma Qcompare_inject_Z x y : Qcompare (inject_Z x) (inject_Z y) = Z.compare x y.
Proof. unfold Qcompare, inject_Z. cbn [Qnum Qden]. rewrite !Z.mul_1_r. reflexivity. Qed.

Lemma Qcompare_mult_r a b c : 0 < c -> Qcompare (a * c) (b * c) = Qcompare a b.
Proof.
  intros Hc. destruct (Qcompare_spec a b) as [H|H|H].
  - apply Qeq_alt. rewrite H. reflexivity.
  - apply Qlt_alt. apply Qmult_lt_compat_r; assumption.
  - apply Qgt_alt. apply Qmult_lt_compat_r; assumption.
Qed.

Lemma dy_cmp_spec a b : dy_cmp a b = Qcompare (dy_toQ a) (dy_toQ b).
Proof.
  destruct (dy_align_toQ a b) as [Ha Hb]. unfold dy_cmp.
  destruct (dy_align a b) as [x y]. cbn [fst snd] in *.
  rewrite <- Ha, <- Hb. rewrite Qcompare_mult_r by apply pow2Q_pos.
  symmetry. apply Qcompare_inject_Z.
Qed.

Lemma dy_leb_iff a b : dy_leb a b = true <-> dy_toQ a <= dy_toQ b.
Proof.
  unfold dy_leb. rewrite dy_cmp_spec. rewrite Qle_alt.
  destruct (dy_toQ a ?= dy_toQ b); split; intros H; try reflexivity; try discriminate; try congruence.
Qed.

Lemma dy_ltb_iff a b : dy_ltb a b = true <-> dy_toQ a < dy_toQ b.
Proof.
  unfold dy_ltb. rewrite dy_cmp_spec. rewrite Qlt_alt.
  destruct (dy_toQ a ?= dy_toQ b); split; intros H; try reflexivity; try discriminate.
Qed.

Lemma dy_leb_Qle_bool a b : dy_leb a b = Qle_bool (dy_toQ a) (dy_toQ b).
Proof.
  destruct (dy_leb a b) eqn:E1, (Qle_bool (dy_toQ a) (dy_toQ b)) eqn:E2; try reflexivity.
  - apply dy_leb_iff in E1. apply Qle_bool_iff in E1. congruence.
  - apply Qle_bool_iff in E2. apply dy_leb_iff in E2. congruence.
Qed.

(* ------------------------------------------------------------------ *)
(** * 2. The enumeration is the word sum *)

Definition qrows (rows : list wrow) : list (list (Q * Q)) :=
  map (map (fun xb => (dy_toQ (fst xb), dy_toQ (snd xb)))) rows.

(* the exact tail P(S >= x) *)
Definition T (rows : list wrow) (x : Q) : Q :=
  wsum (qrows rows) (fun l => ind (Qle_bool x (Qsum l))).

Lemma Qsum_flat_map {A B} (g : B -> Q) (h : A -> list B) l :
  Qsum (map g (flat_map h l)) == Qsum (map (fun a => Qsum (map g (h a))) l).
Proof.
  induction l as [|a r IH]; simpl; [reflexivity|].
  rewrite map_app, Qsum_app, IH. reflexivity.
Qed.

(* sum over the enumeration of F(score) * probability = word sum of F(sum of the word) *)
Lemma enum_dy_wsum rows : forall (F : Q -> Q), Proper (Qeq ==> Qeq) F ->
  Qsum (map (fun sp => F (dy_toQ (fst sp)) * dy_toQ (snd sp)) (enum_dy rows))
  == wsum (qrows rows) (fun l => F (Qsum l)).
Proof.
  induction rows as [|r rest IH]; intros F HF.
  - cbn [enum_dy qrows map wsum Qsum fst snd]. rewrite dy_toQ_0, dy_toQ_1. ring.
  - cbn [enum_dy qrows map wsum]. fold (qrows rest).
    rewrite Qsum_flat_map. rewrite map_map. apply Qsum_eq_map. intros xb _.
    cbn [fst snd]. rewrite map_map. cbn [fst snd].
    assert (HF' : Proper (Qeq ==> Qeq) (fun y => F (dy_toQ (fst xb) + y))).
    { intros y1 y2 Hy. apply HF. rewrite Hy. reflexivity. }
    rewrite <- (IH _ HF').
    rewrite <- Qsum_scale_map. apply Qsum_eq_map. intros sp _.
    rewrite dy_toQ_mul. rewrite (HF _ _ (dy_toQ_add (fst xb) (fst sp))). ring.
Qed.

Lemma tail_dy_fold e t : forall acc,
  dy_toQ (fold_left (fun acc sp => if dy_leb t (fst sp) then dy_add acc (snd sp) else acc) e acc)
  == dy_toQ acc + Qsum (map (fun sp => ind (Qle_bool (dy_toQ t) (dy_toQ (fst sp))) * dy_toQ (snd sp)) e).
Proof.
  induction e as [|sp r IH]; intros acc; cbn [fold_left map Qsum]; [ring|].
  rewrite IH. rewrite dy_leb_Qle_bool.
  destruct (Qle_bool (dy_toQ t) (dy_toQ (fst sp))); cbn [ind].
  - rewrite dy_toQ_add. ring.
  - ring.
Qed.

Lemma ind_Qle_bool_comp x : Proper (Qeq ==> Qeq) (fun y => ind (Qle_bool x y)).
Proof. intros y1 y2 Hy. rewrite Hy. reflexivity. Qed.

Lemma tail_dy_spec : forall rows t,
  dy_toQ (tail_dy (enum_dy rows) t)
  == wsum (qrows rows) (fun l => ind (Qle_bool (dy_toQ t) (Qsum l))).
Proof.
  intros rows t. unfold tail_dy. rewrite tail_dy_fold. rewrite dy_toQ_0.
  rewrite (enum_dy_wsum rows _ (ind_Qle_bool_comp (dy_toQ t))). ring.
Qed.

Lemma T_comp rows x y : x == y -> T rows x == T rows y.
Proof.
  intros H. unfold T. apply wsum_ext_in. intros l _. rewrite H. reflexivity.
Qed.

Lemma tail_dy_T rows t : dy_toQ (tail_dy (enum_dy rows) t) == T rows (dy_toQ t).
Proof. apply tail_dy_spec. Qed.

(* every enumerated score is the score of a word, and conversely *)
Lemma enum_dy_attain rows : forall sp, In sp (enum_dy rows) ->
  exists l, attain l (qrows rows) /\ Qsum l == dy_toQ (fst sp).
Proof.
  induction rows as [|r rest IH]; intros sp H.
  - cbn [enum_dy] in H. destruct H as [<-|[]]. exists []. split; [apply attain_nil|reflexivity].
  - cbn [enum_dy] in H. apply in_flat_map in H. destruct H as [xb [Hxb H]].
    apply in_map_iff in H. destruct H as [sp' [<- Hsp']].
    destruct (IH sp' Hsp') as [l [Hl El]].
    exists (dy_toQ (fst xb) :: l). split.
    + cbn [qrows map]. fold (qrows rest). constructor; [|exact Hl].
      rewrite map_map. cbn [fst]. apply in_map_iff. exists xb. split; [reflexivity|exact Hxb].
    + cbn [Qsum fst]. rewrite dy_toQ_add, El. reflexivity.
Qed.

Lemma attain_enum_dy rows : forall l, attain l (qrows rows) ->
  exists sp, In sp (enum_dy rows) /\ Qsum l == dy_toQ (fst sp).
Proof.
  induction rows as [|r rest IH]; intros l H.
  - inversion H; subst. exists (dy0, dy1). split; [left; reflexivity|reflexivity].
  - cbn [qrows map] in H. fold (qrows rest) in H. inversion H as [|a r' l' rs' Ha Hl']; subst.
    rewrite map_map in Ha. cbn [fst] in Ha. apply in_map_iff in Ha. destruct Ha as [xb [<- Hxb]].
    destruct (IH l' Hl') as [sp' [Hsp' El]].
    exists (dy_add (fst xb) (fst sp'), dy_mul (snd xb) (snd sp')). split.
    + cbn [enum_dy]. apply in_flat_map. exists xb. split; [exact Hxb|].
      apply in_map_iff. exists sp'. split; [reflexivity|exact Hsp'].
    + cbn [Qsum fst]. rewrite dy_toQ_add, El. reflexivity.
Qed.

Definition below_step (t : dy) (acc : option dy) (sp : dy * dy) : option dy :=
  if dy_ltb (fst sp) t then
    match acc with
    | None => Some (fst sp)
    | Some u => if dy_ltb u (fst sp) then Some (fst sp) else acc
    end
  else acc.

Lemma below_dy_fold e t : below_dy e t = fold_left (below_step t) e None.
Proof. reflexivity. Qed.

Lemma below_fold t e : forall acc,
  (forall u0, acc = Some u0 -> dy_toQ u0 < dy_toQ t) ->
  match fold_left (below_step t) e acc with
  | None => acc = None /\ forall sp, In sp e -> ~ dy_toQ (fst sp) < dy_toQ t
  | Some u => dy_toQ u < dy_toQ t /\ (acc = Some u \/ exists sp, In sp e /\ fst sp = u) /\
              (forall u0, acc = Some u0 -> dy_toQ u0 <= dy_toQ u) /\
              (forall sp, In sp e -> dy_toQ (fst sp) < dy_toQ t -> dy_toQ (fst sp) <= dy_toQ u)
  end.
Proof.
  induction e as [|sp r IH]; intros acc Hacc.
  - cbn [fold_left]. destruct acc as [u|].
    + split; [apply Hacc; reflexivity|]. split; [left; reflexivity|]. split.
      * intros u0 E. inversion E; subst. apply Qle_refl.
      * intros sp [].
    + split; [reflexivity|]. intros sp [].
  - cbn [fold_left].
    assert (Hacc' : forall u0, below_step t acc sp = Some u0 -> dy_toQ u0 < dy_toQ t).
    { unfold below_step. intros u0. destruct (dy_ltb (fst sp) t) eqn:E1.
      - apply dy_ltb_iff in E1. destruct acc as [u|].
        + destruct (dy_ltb u (fst sp)); intros E; inversion E; subst; auto.
        + intros E; inversion E; subst; auto.
      - apply Hacc. }
    specialize (IH _ Hacc').
    destruct (fold_left (below_step t) r (below_step t acc sp)) as [u|].
    + destruct IH as [H1 [H2 [H3 H4]]]. split; [exact H1|].
      unfold below_step in H2, H3.
      destruct (dy_ltb (fst sp) t) eqn:E1.
      * assert (L1 := proj1 (dy_ltb_iff _ _) E1).
        destruct acc as [ua|].
        -- destruct (dy_ltb ua (fst sp)) eqn:E2.
           ++ assert (L2 := proj1 (dy_ltb_iff _ _) E2).
              assert (L3 := H3 _ eq_refl).
              split; [|split].
              ** right. destruct H2 as [H2|[sp' [Hi He]]].
                 --- inversion H2; subst. exists sp. split; [left; reflexivity|reflexivity].
                 --- exists sp'. split; [right; exact Hi|exact He].
              ** intros u0 E; inversion E; subst. lra.
              ** intros sp' [<-|Hi] Hlt; [exact L3|apply H4; assumption].
           ++ assert (L2 : ~ dy_toQ ua < dy_toQ (fst sp)).
              { intros C. apply dy_ltb_iff in C. congruence. }
              assert (L3 := H3 _ eq_refl).
              split; [|split].
              ** destruct H2 as [H2|[sp' [Hi He]]]; [left; exact H2|].
                 right. exists sp'. split; [right; exact Hi|exact He].
              ** intros u0 E; inversion E; subst. exact L3.
              ** intros sp' [<-|Hi] Hlt; [lra|apply H4; assumption].
        -- assert (L3 := H3 _ eq_refl).
           split; [|split].
           ++ right. destruct H2 as [H2|[sp' [Hi He]]].
              ** inversion H2; subst. exists sp. split; [left; reflexivity|reflexivity].
              ** exists sp'. split; [right; exact Hi|exact He].
           ++ intros u0 E; discriminate E.
           ++ intros sp' [<-|Hi] Hlt; [exact L3|apply H4; assumption].
      * assert (L1 : ~ dy_toQ (fst sp) < dy_toQ t).
        { intros C. apply dy_ltb_iff in C. congruence. }
        split; [|split].
        -- destruct H2 as [H2|[sp' [Hi He]]]; [left; exact H2|].
           right. exists sp'. split; [right; exact Hi|exact He].
        -- exact H3.
        -- intros sp' [<-|Hi] Hlt; [contradiction|apply H4; assumption].
    + destruct IH as [H1 H2]. unfold below_step in H1.
      destruct (dy_ltb (fst sp) t) eqn:E1.
      * destruct acc as [ua|]; [destruct (dy_ltb ua (fst sp))|]; discriminate H1.
      * split; [exact H1|]. intros sp' [<-|Hi]; [|apply H2; exact Hi].
        intros C. apply dy_ltb_iff in C. congruence.
Qed.

Lemma below_dy_spec rows t :
  match below_dy (enum_dy rows) t with
  | Some u =>
      dy_toQ u < dy_toQ t /\
      (exists l, attain l (qrows rows) /\ Qsum l == dy_toQ u) /\
      (forall l, attain l (qrows rows) -> Qsum l < dy_toQ t -> Qsum l <= dy_toQ u)
  | None => forall l, attain l (qrows rows) -> ~ Qsum l < dy_toQ t
  end.
Proof.
  rewrite below_dy_fold.
  assert (H := below_fold t (enum_dy rows) None). 
  assert (H0 : forall u0 : dy, None = Some u0 -> dy_toQ u0 < dy_toQ t) by (intros u0 E; discriminate E).
  specialize (H H0).
  destruct (fold_left (below_step t) (enum_dy rows) None) as [u|].
  - destruct H as [H1 [H2 [_ H4]]]. split; [exact H1|]. split.
    + destruct H2 as [H2|[sp [Hi He]]]; [discriminate H2|]. subst u.
      apply enum_dy_attain. exact Hi.
    + intros l Hl Hlt. destruct (attain_enum_dy rows l Hl) as [sp [Hi He]].
      rewrite He in *. apply H4; assumption.
  - destruct H as [_ H]. intros l Hl Hlt.
    destruct (attain_enum_dy rows l Hl) as [sp [Hi He]]. rewrite He in Hlt.
    exact (H sp Hi Hlt).
Qed.

(* ------------------------------------------------------------------ *)
(** * 3. Soundness (and completeness) of the checkers *)

Lemma dy_leb_false_iff a b : dy_leb a b = false <-> ~ dy_toQ a <= dy_toQ b.
Proof.
  split.
  - intros H C. apply dy_leb_iff in C. congruence.
  - intros H. destruct (dy_leb a b) eqn:E; [|reflexivity]. apply dy_leb_iff in E. contradiction.
Qed.

Lemma c12_up_toQ m s g :
  dy_toQ (dy_add s (dy_mul (dy_ofZ (m + 1)) g)) == dy_toQ s + inject_Z (m + 1) * dy_toQ g.
Proof. rewrite dy_toQ_add, dy_toQ_mul, dy_toQ_ofZ. reflexivity. Qed.

Lemma c12_dn_toQ m s g :
  dy_toQ (dy_sub s (dy_mul (dy_ofZ (m + 2)) g)) == dy_toQ s - inject_Z (m + 2) * dy_toQ g.
Proof. rewrite dy_toQ_sub, dy_toQ_mul, dy_toQ_ofZ. reflexivity. Qed.

Lemma c12_check_iff : forall tol m rows s g pmin pmax,
  c12_check tol m (enum_dy rows) s g pmin pmax = 0%Z <->
  (let q := dy_toQ in
   q pmin <= q pmax /\ 0 <= q pmin /\ q pmax <= 1 /\
   T rows (q s + inject_Z (m + 1) * q g) <= q pmin * q tol /\
   q pmax <= T rows (q s - inject_Z (m + 2) * q g) * q tol).
Proof.
  intros tol m rows s g pmin pmax. cbv zeta. unfold c12_check.
  rewrite <- (T_comp rows _ _ (c12_up_toQ m s g)).
  rewrite <- (T_comp rows _ _ (c12_dn_toQ m s g)).
  rewrite <- !tail_dy_T. rewrite <- !dy_toQ_mul. rewrite <- dy_toQ_0.
  rewrite <- (dy_toQ_1) at 1.
  rewrite <- !dy_leb_iff.
  destruct (dy_leb pmin pmax); cbn [negb]; [|split; [discriminate|intros [H _]; discriminate H]].
  destruct (dy_leb dy0 pmin); cbn [negb]; [|split; [discriminate|intros [_ [H _]]; discriminate H]].
  destruct (dy_leb pmax dy1); cbn [negb];
    [|split; [discriminate|intros [_ [_ [H _]]]; discriminate H]].
  destruct (dy_leb _ (dy_mul pmin tol)); cbn [negb];
    [|split; [discriminate|intros [_ [_ [_ [H _]]]]; discriminate H]].
  destruct (dy_leb pmax _); cbn [negb];
    [|split; [discriminate|intros [_ [_ [_ [_ H]]]]; discriminate H]].
  split; auto.
Qed.

Lemma c12_check_sound : forall tol m rows s g pmin pmax,
  c12_check tol m (enum_dy rows) s g pmin pmax = 0%Z ->
  let q := dy_toQ in
  q pmin <= q pmax /\ 0 <= q pmin /\ q pmax <= 1 /\
  T rows (q s + inject_Z (m + 1) * q g) <= q pmin * q tol /\
  q pmax <= T rows (q s - inject_Z (m + 2) * q g) * q tol.
Proof. intros tol m rows s g pmin pmax H. apply c12_check_iff. exact H. Qed.

Lemma c12_check_complete : forall tol m rows s g pmin pmax,
  (let q := dy_toQ in
   q pmin <= q pmax /\ 0 <= q pmin /\ q pmax <= 1 /\
   T rows (q s + inject_Z (m + 1) * q g) <= q pmin * q tol /\
   q pmax <= T rows (q s - inject_Z (m + 2) * q g) * q tol) ->
  c12_check tol m (enum_dy rows) s g pmin pmax = 0%Z.
Proof. intros tol m rows s g pmin pmax H. apply c12_check_iff. exact H. Qed.

(* [below_max rows x u]: u is the largest attainable score strictly below x *)
Definition below_max (rows : list wrow) (x u : Q) : Prop :=
  u < x /\
  (exists l, attain l (qrows rows) /\ Qsum l == u) /\
  (forall l, attain l (qrows rows) -> Qsum l < x -> Qsum l <= u).

Lemma below_max_unique rows x u v : below_max rows x u -> below_max rows x v -> u == v.
Proof.
  intros [U1 [[lu [U2 U3]] U4]] [V1 [[lv [V2 V3]] V4]].
  assert (u <= v) by (rewrite <- U3; apply V4; [exact U2|rewrite U3; exact U1]).
  assert (v <= u) by (rewrite <- V3; apply U4; [exact V2|rewrite V3; exact V1]).
  lra.
Qed.

Lemma below_max_comp rows x y u : x == y -> below_max rows x u -> below_max rows y u.
Proof.
  intros E [H1 [H2 H3]]. split; [rewrite <- E; exact H1|]. split; [exact H2|].
  intros l Hl Hlt. apply H3; [exact Hl|rewrite E; exact Hlt].
Qed.

Lemma below_dy_max rows t :
  match below_dy (enum_dy rows) t with
  | Some u => below_max rows (dy_toQ t) (dy_toQ u)
  | None => forall u, ~ below_max rows (dy_toQ t) u
  end.
Proof.
  assert (H := below_dy_spec rows t). destruct (below_dy (enum_dy rows) t) as [u|].
  - exact H.
  - intros u [H1 [[l [H2 H3]] _]]. apply (H l H2). rewrite H3. exact H1.
Qed.

Lemma c13_d_toQ m g : dy_toQ (dy_mul (dy_ofZ (m + 2)) g) == inject_Z (m + 2) * dy_toQ g.
Proof. rewrite dy_toQ_mul, dy_toQ_ofZ. reflexivity. Qed.

(* the checker verdict 0 is exactly: the tail at t+d is at most p*tol, and for u the
   largest attainable score below t-d (if any) p <= P(S >= u-d) * tol *)
Lemma c13_check_iff : forall tol m rows p g t,
  c13_check tol m (enum_dy rows) p g t = 0%Z <->
  (let q := dy_toQ in let d := inject_Z (m + 2) * q g in
   T rows (q t + d) <= q p * q tol /\
   (forall u, below_max rows (q t - d) u -> q p <= T rows (u - d) * q tol)).
Proof.
  intros tol m rows p g t. cbv zeta. unfold c13_check.
  set (dd := dy_mul (dy_ofZ (m + 2)) g).
  assert (Ed : dy_toQ dd == inject_Z (m + 2) * dy_toQ g) by apply c13_d_toQ.
  set (d := inject_Z (m + 2) * dy_toQ g) in *. clearbody dd d.
  assert (E1 : dy_toQ (tail_dy (enum_dy rows) (dy_add t dd)) == T rows (dy_toQ t + d)).
  { rewrite tail_dy_T. apply T_comp. rewrite dy_toQ_add, Ed. reflexivity. }
  assert (E2 : forall u, dy_toQ (tail_dy (enum_dy rows) (dy_sub u dd)) == T rows (dy_toQ u - d)).
  { intros u. rewrite tail_dy_T. apply T_comp. rewrite dy_toQ_sub, Ed. reflexivity. }
  assert (E3 : dy_toQ (dy_sub t dd) == dy_toQ t - d).
  { rewrite dy_toQ_sub, Ed. reflexivity. }
  assert (B := below_dy_max rows (dy_sub t dd)).
  destruct (dy_leb (tail_dy (enum_dy rows) (dy_add t dd)) (dy_mul p tol)) eqn:L1; cbn [negb].
  - apply dy_leb_iff in L1. rewrite E1, dy_toQ_mul in L1.
    destruct (below_dy (enum_dy rows) (dy_sub t dd)) as [u0|].
    + apply (below_max_comp _ _ _ _ E3) in B.
      destruct (dy_leb p (dy_mul (tail_dy (enum_dy rows) (dy_sub u0 dd)) tol)) eqn:L2; cbn [negb].
      * apply dy_leb_iff in L2. rewrite dy_toQ_mul, E2 in L2.
        split; [|reflexivity]. intros _. split; [exact L1|].
        intros u Hu. assert (Eu := below_max_unique _ _ _ _ Hu B).
        rewrite (T_comp rows (u - d) (dy_toQ u0 - d)); [exact L2|].
        rewrite Eu. reflexivity.
      * apply dy_leb_false_iff in L2. rewrite dy_toQ_mul, E2 in L2.
        split; [discriminate|]. intros [_ H]. exfalso. apply L2. apply H. exact B.
    + split; [|reflexivity]. intros _. split; [exact L1|].
      intros u Hu. exfalso. apply (B u). apply (below_max_comp _ _ _ _ (Qeq_sym _ _ E3)).
      exact Hu.
  - apply dy_leb_false_iff in L1. rewrite E1, dy_toQ_mul in L1.
    split; [discriminate|]. intros [H _]. contradiction.
Qed.

Lemma c13_check_sound : forall tol m rows p g t,
  c13_check tol m (enum_dy rows) p g t = 0%Z ->
  let q := dy_toQ in let d := inject_Z (m + 2) * q g in
  T rows (q t + d) <= q p * q tol /\
  (forall l, attain l (qrows rows) -> Qsum l < q t - d ->
     exists u, u < q t - d /\ Qsum l <= u /\
               (exists l', attain l' (qrows rows) /\ Qsum l' == u) /\
               (forall l', attain l' (qrows rows) -> Qsum l' < q t - d -> Qsum l' <= u) /\
               q p <= T rows (u - d) * q tol).
Proof.
  intros tol m rows p g t H. cbv zeta.
  apply c13_check_iff in H. cbv zeta in H. destruct H as [H1 H2].
  split; [exact H1|]. intros l Hl Hlt.
  set (tt := dy_sub t (dy_mul (dy_ofZ (m + 2)) g)).
  assert (Ex : dy_toQ tt == dy_toQ t - inject_Z (m + 2) * dy_toQ g).
  { unfold tt. rewrite dy_toQ_sub, c13_d_toQ. reflexivity. }
  assert (S := below_dy_spec rows tt).
  destruct (below_dy (enum_dy rows) tt) as [u0|].
  - assert (B : below_max rows (dy_toQ t - inject_Z (m + 2) * dy_toQ g) (dy_toQ u0)).
    { apply (below_max_comp _ _ _ _ Ex). exact S. }
    exists (dy_toQ u0).
    destruct B as [B1 [B2 B3]]. split; [exact B1|]. split; [apply B3; assumption|].
    split; [exact B2|]. split; [exact B3|]. apply H2. split; [exact B1|]. split; [exact B2|exact B3].
  - exfalso. apply (S l Hl). rewrite Ex. exact Hlt.
Qed.

Lemma c13_check_complete : forall tol m rows p g t,
  (let q := dy_toQ in let d := inject_Z (m + 2) * q g in
   T rows (q t + d) <= q p * q tol /\
   (forall u, below_max rows (q t - d) u -> q p <= T rows (u - d) * q tol)) ->
  c13_check tol m (enum_dy rows) p g t = 0%Z.
Proof. intros tol m rows p g t H. apply c13_check_iff. exact H. Qed.

(* facts used by the clients: the word sums are over non-negative probabilities
   whenever the dyadic probabilities are *)
Lemma qrows_wf rows :
  (forall r, In r rows -> forall xb, In xb r -> dy_leb dy0 (snd xb) = true) -> wf_rows (qrows rows).
Proof.
  intros H r Hr ab Hab. unfold qrows in Hr. apply in_map_iff in Hr. destruct Hr as [r0 [<- Hr0]].
  apply in_map_iff in Hab. destruct Hab as [xb [<- Hxb]]. cbn [snd].
  rewrite <- dy_toQ_0. apply dy_leb_iff. apply (H r0 Hr0 xb Hxb).
Qed.

(* the exact tail is antitone in the threshold *)
Lemma T_antitone rows x y : wf_rows (qrows rows) -> x <= y -> T rows y <= T rows x.
Proof.
  intros W H. unfold T. apply wsum_le; [exact W|]. intros l _. apply ind_impl.
  rewrite !Qle_bool_iff. intros H1. lra.
Qed.

(* [below_dy_spec] as two implications *)
Lemma below_dy_Some rows t u : below_dy (enum_dy rows) t = Some u ->
  dy_toQ u < dy_toQ t /\
  (exists l, attain l (qrows rows) /\ Qsum l == dy_toQ u) /\
  (forall l, attain l (qrows rows) -> Qsum l < dy_toQ t -> Qsum l <= dy_toQ u).
Proof. intros H. assert (S := below_dy_spec rows t). rewrite H in S. exact S. Qed.

Lemma below_dy_None rows t : below_dy (enum_dy rows) t = None ->
  forall l, attain l (qrows rows) -> ~ Qsum l < dy_toQ t.
Proof. intros H. assert (S := below_dy_spec rows t). rewrite H in S. exact S. Qed.
