(* C12, clause "ordered range within [0,1]", for the COMPUTED binary64 values, with the
   "no NaN in the last table" premise of [pv_next_range_F64_bg] (TfmIEEE.v) DISCHARGED
   for strictly positive backgrounds:

     every frequency bg[0..K-2] of a symbol column is finite and > 0, and the wildcard
     frequency bg[K-1] is +0.0

   Then 1.0 - bg[K-1] = 1.0 exactly, every rest factor rest[i] is exactly 1.0, and every
   product formed by [distribution] is (non-negative value, +inf allowed) * (finite,
   strictly positive factor), which is never NaN: the only NaN source among non-negative
   operands is +inf * 0.  Sums of non-negative values are never NaN.  Hence every value of
   every table is non-negative (possibly +inf) and not NaN, and the reported range satisfies
   0 <= pmin <= pmax <= 1 without any hypothesis on the computed tables.

   The invariant of [distribution] is the asymmetric version of Section DistInv of
   TfmIEEE.v: table values and the bucket satisfy W, the frequencies paired with the
   integer cells of a row satisfy U, the rest factors satisfy R. *)
From Coq Require Import Reals ZArith List Bool Lia Lra Sorted.
From Flocq Require Import Core BinarySingleNaN.
From LMBase Require Import Res ListX IEEE.
From LMTfm Require Import TfmNum TfmModel TfmProofs TfmOverflow TfmIEEE.
Import ListNotations.
Local Open Scope Z_scope.

(* ------------------------------------------------------------------ *)
(** * 1. finite strictly positive binary64 values *)

Definition posfin (b : F64.t) : Prop := is_finite b = true /\ (0 < B2R b)%R.

Lemma posfin_nn : forall b, posfin b -> nn b.
Proof. intros b [Hf Hr]. apply nn_finite; [exact Hf|lra]. Qed.

(* shape of a finite strictly positive value *)
Lemma posfin_of_SF : forall (x : F64.t) m e, B2SF x = SpecFloat.S754_finite false m e -> posfin x.
Proof.
  intros x m e H. destruct x as [s|s| |s m' e' pf]; cbn in H; try discriminate.
  inversion H; subst. split; [reflexivity|]. cbn. apply F2R_gt_0. cbn. lia.
Qed.

Lemma posfin_one : posfin (F64.of_Z 1).
Proof. destruct f64_one_R as [F1 R1]. unfold f64_one in *. split; [exact F1|rewrite R1; lra]. Qed.

(* (non-negative, +inf allowed) * (finite, > 0) is non-negative: never NaN *)
Lemma mul_nn_posfin : forall a b, nn a -> posfin b -> nn (F64.mul a b).
Proof.
  intros a b Ha [Fb Rb].
  destruct (nn_cases a Ha) as [[Fa _]|Ea].
  - apply mul_nn_finite; [exact Ha|apply nn_finite; [exact Fb|lra]|exact Fa|exact Fb].
  - subst a. destruct b as [s|s| |s m e pf]; try discriminate.
    + exfalso. cbn in Rb. lra.
    + assert (s = false) as Es.
      { destruct s; [exfalso|reflexivity].
        pose proof (neg_sign_nonpos (B754_finite true m e pf) eq_refl eq_refl) as Hn. lra. }
      subst s. reflexivity.
Qed.

Lemma mul_one_r_nn : forall x, nn x -> nn (F64.mul x (F64.of_Z 1)).
Proof. intros x Hx. apply mul_nn_posfin; [exact Hx|exact posfin_one]. Qed.

(* 1.0 - (+0.0) = 1.0 and 1.0 * 1.0 = 1.0, exactly *)
Lemma sub_one_zero : F64.sub (F64.of_Z 1) F64.zero = F64.of_Z 1.
Proof. apply B2SF_inj. vm_compute. reflexivity. Qed.

Lemma mul_one_one : F64.mul (F64.of_Z 1) (F64.of_Z 1) = F64.of_Z 1.
Proof. apply B2SF_inj. vm_compute. reflexivity. Qed.

(* ------------------------------------------------------------------ *)
(** * 2. list facts *)

(* [combine irow bg] reaches only the first [length irow] frequencies *)
Lemma in_combine_firstn : forall {A B} (n : nat) (irow : list A) (bg : list B) cb,
  (length irow <= n)%nat -> In cb (combine irow bg) -> In (snd cb) (firstn n bg).
Proof.
  intros A B n irow. revert n. induction irow as [|a r IH]; intros n bg cb Hn Hin.
  - destruct Hin.
  - destruct bg as [|b bg']; [destruct Hin|].
    destruct n as [|n']; [cbn in Hn; lia|].
    cbn [combine] in Hin. cbn [firstn]. destruct Hin as [<-|Hin].
    + left. reflexivity.
    + right. apply (IH n' bg' cb); [cbn in Hn; lia|exact Hin].
Qed.

Lemma removelast_len : forall {A} (l : list A), length (removelast l) = (length l - 1)%nat.
Proof. intros A l. rewrite removelast_firstn_len, firstn_length. lia. Qed.

(* ------------------------------------------------------------------ *)
(** * 3. the asymmetric invariant scheme for [distribution] (any carrier) *)

Section DistInvA.
  Context {T : Type} (N : NumOps T).
  Variable W : T -> Prop.                  (* table values and the overflow bucket *)
  Variable U : T -> Prop.                  (* frequencies paired with the integer cells *)
  Variable R : T -> Prop.                  (* rest factors *)
  Variable P : fmap (T:=T) -> Prop.        (* property of tables *)
  Hypothesis W_zero : W (n_zero N).
  Hypothesis W_add : forall a b, W a -> W b -> W (n_add N a b).
  Hypothesis W_mulU : forall a b, W a -> U b -> W (n_mul N a b).
  Hypothesis W_mulR : forall a r, W a -> R r -> W (n_mul N a r).
  Hypothesis U_W : forall b, U b -> W b.
  Hypothesis P_nil : P [].
  Hypothesis P_add : forall k v m, W v -> P m -> P (fm_add N k v m).
  Hypothesis P_set : forall k v m, W v -> P m -> P (fm_set k v m).
  Hypothesis P_W : forall m kv, P m -> In kv m -> W (snd kv).

  Lemma init_row_invA : forall mn maxs1 irow bg,
    (forall cb, In cb (combine irow bg) -> U (snd cb)) ->
    P (init_row N mn maxs1 irow bg).
  Proof.
    intros mn maxs1 irow bg Hcb. unfold init_row.
    assert (forall (l : list (Z * T)) m0, (forall cb, In cb l -> U (snd cb)) -> P m0 ->
              P (fold_left (fun m cb => if (fst cb + maxs1 >=? mn) then fm_add N (fst cb) (snd cb) m else m) l m0)) as H.
    { induction l as [|cb l IH]; intros m0 Hl Hm; [exact Hm|]. cbn [fold_left].
      apply IH; [intros c Hc; apply Hl; right; exact Hc|].
      destruct (_ >=? _); [|exact Hm].
      apply P_add; [apply U_W; apply Hl; left; reflexivity|exact Hm]. }
    apply H; [exact Hcb|exact P_nil].
  Qed.

  Lemma step_cell_invA : forall mn mx mnext rnext key val st cb,
    R rnext -> W val -> U (snd cb) -> P (fst st) -> W (snd st) ->
    P (fst (step_cell N mn mx mnext rnext key val st cb)) /\
    W (snd (step_cell N mn mx mnext rnext key val st cb)).
  Proof.
    intros mn mx mnext rnext key val st cb Hr Hv Hb HP HV. unfold step_cell.
    destruct (_ >=? _); [|split; assumption].
    destruct (_ >? _); cbn [fst snd].
    - split; [exact HP|]. apply W_add; [exact HV|]. apply W_mulR; [|exact Hr].
      apply W_mulU; assumption.
    - split; [|exact HV]. apply P_add; [|exact HP]. apply W_mulU; assumption.
  Qed.

  Lemma step_row_invA : forall mn mx mnext rnext irow bg cur bucket,
    (forall cb, In cb (combine irow bg) -> U (snd cb)) -> R rnext -> P cur -> W bucket ->
    P (fst (step_row N mn mx mnext rnext irow bg cur bucket)) /\
    W (snd (step_row N mn mx mnext rnext irow bg cur bucket)).
  Proof.
    intros mn mx mnext rnext irow bg cur bucket Hcb Hr Hcur Hb. unfold step_row.
    assert (forall (l : list (Z * T)) key val st, (forall cb, In cb l -> U (snd cb)) ->
              W val -> P (fst st) -> W (snd st) ->
              P (fst (fold_left (step_cell N mn mx mnext rnext key val) l st)) /\
              W (snd (fold_left (step_cell N mn mx mnext rnext key val) l st))) as Hin.
    { induction l as [|cb l IH]; intros key val st Hl Hv H1 H2; [split; assumption|].
      cbn [fold_left].
      destruct (step_cell_invA mn mx mnext rnext key val st cb Hr Hv (Hl cb (or_introl eq_refl)) H1 H2) as [H3 H4].
      apply IH; auto. intros c Hc. apply Hl. right. exact Hc. }
    assert (forall (l : fmap (T:=T)) st, (forall kv, In kv l -> W (snd kv)) -> P (fst st) -> W (snd st) ->
              P (fst (fold_left (fun st kv => fold_left (step_cell N mn mx mnext rnext (fst kv) (snd kv)) (combine irow bg) st) l st)) /\
              W (snd (fold_left (fun st kv => fold_left (step_cell N mn mx mnext rnext (fst kv) (snd kv)) (combine irow bg) st) l st))) as Hout.
    { induction l as [|kv l IH]; intros st Hl H1 H2; [split; assumption|].
      cbn [fold_left].
      destruct (Hin (combine irow bg) (fst kv) (snd kv) st Hcb (Hl kv (or_introl eq_refl)) H1 H2) as [H3 H4].
      apply IH; auto. intros c Hc. apply Hl. right. exact Hc. }
    apply Hout; cbn [fst snd]; auto. intros kv Hkv. exact (P_W cur kv Hcur Hkv).
  Qed.

  Lemma dist_loop_invA : forall mn mx bg rm cur bucket acc,
    (forall x, In x rm ->
       (forall cb, In cb (combine (fst (fst x)) bg) -> U (snd cb)) /\ R (snd x)) ->
    P cur -> W bucket -> Forall P acc ->
    let '(acc', cur', b') := dist_loop N mn mx bg rm cur bucket acc in
    Forall P acc' /\ P cur' /\ W b'.
  Proof.
    intros mn mx bg rm. induction rm as [|[[irow mnext] rnext] r IH]; intros cur bucket acc Hrm Hc Hb Ha.
    - cbn [dist_loop]. auto.
    - cbn [dist_loop].
      destruct (Hrm (irow, mnext, rnext) (or_introl eq_refl)) as [Hu Hr]. cbn [fst snd] in Hu, Hr.
      pose proof (step_row_invA mn mx mnext rnext irow bg cur bucket Hu Hr Hc Hb) as Hs.
      destruct (step_row N mn mx mnext rnext irow bg cur bucket) as [nxt b]. cbn [fst snd] in Hs.
      destruct Hs as [Hn Hb'].
      apply IH; auto. intros x Hx. apply Hrm. right. exact Hx.
  Qed.

  Theorem distribution_invA : forall G bg mn mx rows,
    distribution N G bg mn mx = Ok rows ->
    (forall irow, In irow (g_int G) -> forall cb, In cb (combine irow bg) -> U (snd cb)) ->
    Forall R (rest_sums N (n_sub N (n_one N) (last bg (n_zero N))) (length (g_int G))) ->
    Forall P rows.
  Proof.
    intros G bg mn mx rows H Hfreq Hrest. revert H Hfreq Hrest. unfold distribution.
    destruct (g_int G) as [|irow0 irows]; intros H Hfreq Hrest; [discriminate|].
    destruct (negb _); [discriminate|]. destruct (mx =? i64_max); [discriminate|].
    set (mass := n_sub N (n_one N) (last bg (n_zero N))) in *.
    set (rest := rest_sums N mass (length (irow0 :: irows))) in *.
    set (maxs := suffix_sums (g_maxr G)) in *.
    set (rm := combine (combine irows (skipn 2 maxs)) (skipn 2 rest)) in *.
    pose proof (dist_loop_invA mn mx bg rm (init_row N mn (nth 1 maxs 0) irow0 bg) (n_zero N) []) as Hd.
    destruct (dist_loop N mn mx bg rm _ _ _) as [[acc cur] bucket].
    inversion H; subst rows; clear H.
    destruct Hd as [Ha [Hc Hb]].
    - intros [[irow mnext] rn] Hx. cbn [fst snd]. split.
      + apply Hfreq. right. apply in_combine_l in Hx. apply in_combine_l in Hx. exact Hx.
      + apply in_combine_r in Hx. apply in_skipn in Hx.
        rewrite Forall_forall in Hrest. apply Hrest. exact Hx.
    - apply init_row_invA. apply Hfreq. left. reflexivity.
    - exact W_zero.
    - constructor.
    - apply Forall_app. split.
      + apply Forall_rev. exact Ha.
      + constructor; [|constructor]. apply P_set; assumption.
  Qed.
End DistInvA.

(* ------------------------------------------------------------------ *)
(** * 4. binary64 instance: strictly positive symbol frequencies, wildcard frequency +0.0 *)

Definition tab_nn (m : list (Z * F64.t)) : Prop := forall kv, In kv m -> nn (snd kv).

Lemma fm_add_nn : forall k v m, nn v -> tab_nn m -> tab_nn (fm_add NumF64 k v m).
Proof.
  intros k v m Hv. unfold tab_nn.
  induction m as [|[k' v'] r IH]; intros Hm kv; cbn [fm_add NumF64 n_add n_zero].
  - intros [<-|[]]. cbn [snd]. apply add_nn; [apply nn_zero|exact Hv].
  - destruct (k <? k').
    + intros [<-|Hin]; [|apply Hm; exact Hin]. cbn [snd]. apply add_nn; [apply nn_zero|exact Hv].
    + destruct (k =? k').
      * intros [<-|Hin]; [|apply Hm; right; exact Hin]. cbn [snd].
        apply add_nn; [|exact Hv]. apply (Hm (k', v')). left; reflexivity.
      * intros [<-|Hin]; [apply Hm; left; reflexivity|].
        apply IH; [|exact Hin]. intros x Hx. apply Hm. right. exact Hx.
Qed.

Lemma fm_set_nn : forall k v (m : list (Z * F64.t)), nn v -> tab_nn m -> tab_nn (fm_set k v m).
Proof.
  intros k v m Hv. unfold tab_nn.
  induction m as [|[k' v'] r IH]; intros Hm kv; cbn [fm_set].
  - intros [<-|[]]. exact Hv.
  - destruct (k <? k').
    + intros [<-|Hin]; [exact Hv|apply Hm; exact Hin].
    + destruct (k =? k').
      * intros [<-|Hin]; [exact Hv|apply Hm; right; exact Hin].
      * intros [<-|Hin]; [apply Hm; left; reflexivity|].
        apply IH; [|exact Hin]. intros x Hx. apply Hm. right. exact Hx.
Qed.

(* with mass = 1.0 every rest factor is exactly 1.0 *)
Lemma rest_sums_one : forall n,
  Forall (fun r => r = F64.of_Z 1) (rest_sums NumF64 (F64.of_Z 1) n).
Proof.
  induction n as [|n IH]; cbn [rest_sums NumF64 n_one n_mul].
  - constructor; [reflexivity|constructor].
  - constructor; [|exact IH].
    destruct (rest_sums NumF64 (F64.of_Z 1) n) as [|x l]; cbn [hd]; [exact mul_one_one|].
    inversion IH as [|? ? Hx _]; subst. exact mul_one_one.
Qed.

(* every value of every table is non-negative and not NaN (+inf allowed) *)
Theorem distribution_nn_F64_pos : forall G bg mn mx rowsq n,
  distribution NumF64 G bg mn mx = Ok rowsq ->
  Forall posfin (firstn n bg) ->
  Forall (fun r => (length r <= n)%nat) (g_int G) ->
  last bg F64.zero = F64.zero ->
  Forall (fun m => forall kv, In kv m -> nn (snd kv)) rowsq.
Proof.
  intros G bg mn mx rowsq n H Hpos Hlen Hlast.
  change (Forall tab_nn rowsq).
  apply (distribution_invA NumF64 nn posfin posfin tab_nn nn_zero add_nn mul_nn_posfin mul_nn_posfin
           posfin_nn (fun kv (Hin : In kv []) => match Hin with end) fm_add_nn fm_set_nn
           (fun m kv (Hm : tab_nn m) Hin => Hm kv Hin) G bg mn mx rowsq H).
  - intros irow Hirow cb Hcb.
    rewrite Forall_forall in Hpos, Hlen. apply Hpos.
    apply (in_combine_firstn n irow bg cb); [apply Hlen; exact Hirow|exact Hcb].
  - cbn [NumF64 n_sub n_one n_zero]. rewrite Hlast, sub_one_zero.
    eapply Forall_impl; [|apply rest_sums_one]. intros r ->. exact posfin_one.
Qed.

Corollary distribution_no_nan_F64_pos : forall G bg mn mx rowsq n,
  distribution NumF64 G bg mn mx = Ok rowsq ->
  Forall posfin (firstn n bg) ->
  Forall (fun r => (length r <= n)%nat) (g_int G) ->
  last bg F64.zero = F64.zero ->
  forall m, In m rowsq -> forall kv, In kv m -> F64.is_nan (snd kv) = false.
Proof.
  intros G bg mn mx rowsq n H Hpos Hlen Hlast m Hm kv Hkv.
  pose proof (distribution_nn_F64_pos G bg mn mx rowsq n H Hpos Hlen Hlast) as HF.
  rewrite Forall_forall in HF. exact (nn_not_nan _ (HF m Hm kv Hkv)).
Qed.

(* ------------------------------------------------------------------ *)
(** * 5. the integer rows after [recompute] have K-1 cells *)

Lemma recompute_int_lengths : forall {T} (N : NumOps T) rows perm g G K,
  recompute N rows perm g = Ok G ->
  Forall (fun r => length r = K) rows ->
  Forall (fun r => length r = (K - 1)%nat) (g_int G).
Proof.
  intros T N rows perm g G K H Hrows.
  apply (recompute_ok_inv N) in H.
  destruct H as [prow [offs [Hp [Hoffs [_ [Hint _]]]]]].
  destruct (permuted_rows_in _ _ _ Hp) as [_ Hin].
  apply rall_map_ok in Hoffs. rewrite Hint.
  assert (Forall (fun ir => length ir = (K - 1)%nat) (map (raw_int_row N g) prow)) as Hraw.
  { apply Forall_forall. intros ir Hir. apply in_map_iff in Hir. destruct Hir as [row [<- Hrow]].
    unfold raw_int_row, cells. rewrite map_length, removelast_len.
    rewrite Forall_forall in Hrows. rewrite (Hrows row (Hin row Hrow)). reflexivity. }
  set (raws := map (raw_int_row N g) prow) in *. clearbody raws.
  clear Hint Hp Hin. revert Hraw.
  induction Hoffs as [|ir [off ir'] l l' Ho _ IH]; intros Hraw; cbn [map]; constructor.
  - inversion Hraw as [|? ? Hir _]; subst. apply offset_row_ok in Ho.
    destruct Ho as [_ [_ ->]]. cbn [snd]. rewrite map_length. exact Hir.
  - apply IH. inversion Hraw; assumption.
Qed.

(* ------------------------------------------------------------------ *)
(** * 6. the range of one refinement step, from the inputs alone *)

(* the NaN premise of [pv_next_range_F64_bg] holds (for every table, not only the last) *)
Theorem pv_next_no_nan_F64_pos : forall K rows perm bg score g it,
  pv_next NumF64 rows perm bg score g = Ok it ->
  Forall (fun r => length r = K) rows ->
  Forall posfin (firstn (K - 1) bg) ->
  last bg F64.zero = F64.zero ->
  forall m, In m (io_rows it) -> forall kv, In kv m -> nn (snd kv) /\ F64.is_nan (snd kv) = false.
Proof.
  intros K rows perm bg score g it H Hrows Hpos Hlast m Hm kv Hkv. unfold pv_next in H.
  apply rbind_ok in H. destruct H as [G [HG H]].
  apply rbind_ok in H. destruct H as [o [Ho H]].
  inversion H; subst it; clear H. cbn [io_rows] in Hm.
  destruct (lookup_pvalue_rows NumF64 G bg score o Ho) as (mn & mx & Hd).
  assert (Forall (fun r => (length r <= K - 1)%nat) (g_int G)) as Hlen.
  { eapply Forall_impl; [|exact (recompute_int_lengths NumF64 rows perm g G K HG Hrows)].
    cbn. intros r Hr. lia. }
  pose proof (distribution_nn_F64_pos G bg mn mx _ (K - 1)%nat Hd Hpos Hlen Hlast) as HF.
  rewrite Forall_forall in HF. pose proof (HF m Hm kv Hkv) as Hnn.
  split; [exact Hnn|exact (nn_not_nan _ Hnn)].
Qed.

(* MAIN: 0 <= pmin <= pmax <= 1 in binary64, no hypothesis on the computed tables *)
Theorem pv_next_range_F64_pos : forall K rows perm bg score g it,
  pv_next NumF64 rows perm bg score g = Ok it ->
  Forall (fun r => length r = K) rows ->
  Forall posfin (firstn (K - 1) bg) ->
  last bg F64.zero = F64.zero ->
  F64.le (io_start it) (io_end it) = true /\
  F64.le F64.zero (io_start it) = true /\
  F64.le (io_end it) (F64.of_Z 1) = true.
Proof.
  intros K rows perm bg score g it H Hrows Hpos Hlast.
  pose proof (pv_next_no_nan_F64_pos K rows perm bg score g it H Hrows Hpos Hlast) as Hall.
  apply (pv_next_range_F64 rows perm bg score g it H).
  - apply (last_P tab_nn); [|intros kv []].
    rewrite Forall_forall. intros m Hm kv Hkv. exact (proj1 (Hall m Hm kv Hkv)).
  - unfold pv_next in H.
    apply rbind_ok in H. destruct H as [G [HG H]].
    apply rbind_ok in H. destruct H as [o [Ho H]].
    inversion H; subst it; clear H. cbn [io_rows].
    destruct (lookup_pvalue_rows NumF64 G bg score o Ho) as (mn & mx & Hd).
    apply (last_P ksorted); [|constructor].
    exact (distribution_ksorted NumF64 G bg mn mx _ Hd).
Qed.

(* the same obtained literally from [pv_next_range_F64_bg] by discharging its NaN premise
   (this form keeps that theorem's hypothesis on all the frequencies, which the theorem
   above shows to be superfluous) *)
Corollary pv_next_range_F64_bg_pos : forall K rows perm bg score g it,
  pv_next NumF64 rows perm bg score g = Ok it ->
  Forall (fun r => length r = K) rows ->
  (1 <= K)%nat ->
  Forall posfin (firstn (K - 1) bg) ->
  (forall b, In b bg -> F64.le F64.zero b = true) ->
  last bg F64.zero = F64.zero ->
  F64.le (io_start it) (io_end it) = true /\
  F64.le F64.zero (io_start it) = true /\
  F64.le (io_end it) (F64.of_Z 1) = true.
Proof.
  intros K rows perm bg score g it H Hrows _ Hpos Hbg Hlast.
  apply (pv_next_range_F64_bg rows perm bg score g it H Hbg).
  - rewrite Hlast. vm_compute. reflexivity.
  - apply (last_P (fun m : list (Z * F64.t) => forall kv, In kv m -> F64.is_nan (snd kv) = false));
      [|intros kv []].
    rewrite Forall_forall. intros m Hm kv Hkv.
    exact (proj2 (pv_next_no_nan_F64_pos K rows perm bg score g it H Hrows Hpos Hlast m Hm kv Hkv)).
Qed.

(* ------------------------------------------------------------------ *)
(** * 7. non-vacuity: the uniform DNA background [0.25; 0.25; 0.25; 0.25; +0.0] *)

Definition f64_quarter : F64.t := F64.of_bits 4598175219545276416.   (* 0.25 = 0x3FD0000000000000 *)

Example f64_quarter_is_div : F64.div (F64.of_Z 1) (F64.of_Z 4) = f64_quarter.
Proof. apply B2SF_inj. vm_compute. reflexivity. Qed.

Lemma posfin_quarter : posfin f64_quarter.
Proof. apply (posfin_of_SF f64_quarter 4503599627370496%positive (-54)). vm_compute. reflexivity. Qed.

Definition bg_uniform_dna : list F64.t :=
  [f64_quarter; f64_quarter; f64_quarter; f64_quarter; F64.zero].

Example bg_uniform_dna_pos :
  Forall posfin (firstn (5 - 1) bg_uniform_dna) /\ last bg_uniform_dna F64.zero = F64.zero.
Proof.
  split; [|reflexivity].
  change (Forall posfin [f64_quarter; f64_quarter; f64_quarter; f64_quarter]).
  repeat (apply Forall_cons; [exact posfin_quarter|]). apply Forall_nil.
Qed.

(* hence, for every 5-column matrix and the uniform DNA background, every successful
   refinement step reports a range within [0,1] *)
Corollary pv_next_range_F64_uniform_dna : forall rows perm score g it,
  pv_next NumF64 rows perm bg_uniform_dna score g = Ok it ->
  Forall (fun r => length r = 5%nat) rows ->
  F64.le (io_start it) (io_end it) = true /\
  F64.le F64.zero (io_start it) = true /\
  F64.le (io_end it) (F64.of_Z 1) = true.
Proof.
  intros rows perm score g it H Hrows.
  destruct bg_uniform_dna_pos as [Hpos Hlast].
  exact (pv_next_range_F64_pos 5 rows perm bg_uniform_dna score g it H Hrows Hpos Hlast).
Qed.

(* the hypothesis "pv_next ... = Ok it" is satisfiable for this background: a 2 x 5 matrix,
   score 1.0, granularity 0.1 (computed in binary64) *)
Definition ieee2_ex_rows : list (list F64.t) :=
  [ [F64.of_Z 1; F64.of_Z (-1); F64.of_Z 0; F64.of_Z (-2); F64.of_Z 0];
    [F64.of_Z (-1); F64.of_Z 2; F64.of_Z (-1); F64.of_Z 0; F64.of_Z 0] ].

Example pv_next_uniform_dna_ok :
  match pv_next NumF64 ieee2_ex_rows [0%nat; 1%nat] bg_uniform_dna (F64.of_Z 1) f64_tenth with
  | Ok it => F64.le (io_start it) (io_end it) && F64.le F64.zero (io_start it)
             && F64.le (io_end it) (F64.of_Z 1) && F64.lt F64.zero (io_start it)
  | _ => false
  end = true.
Proof. vm_compute. reflexivity. Qed.
