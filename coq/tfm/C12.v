(* Property C12 -- TFM-PVALUE p-value ranges are consistent with the exact score
   distribution.  Only the property theorems (closed by [exact] of lemmas from
   TfmProofs / TfmDist / TfmPerm / TfmMain / TfmLink / TfmCheck), statement pins and
   non-vacuity examples.

   Setting (see TfmSpec.v, TfmLink.v): a matrix is a list of M rows of K rationals
   (K-1 symbol cells + the wildcard cell, last), [bg] the K background frequencies;
   [matrix_ok K rows bg]: K >= 2, every row has K cells, the K-1 symbol frequencies
   are non-negative and sum to 1, the wildcard frequency is 0 (no wildcard mass); the
   wildcard cells are arbitrary (the code no longer reads them).  [Ptail rows bg t] = P(S >= t) is the exact tail of the score S of a
   random background-distributed word: the sum over all words of the product of the
   symbol frequencies times [S(w) >= t].  The model ([pv_next], [pv_run] ... in
   TfmModel.v) is instantiated with exact rational arithmetic [NumQ]; the binary64
   instance of the same text is replayed bit-exactly against the implementation by
   the correspondence check. *)
From Coq Require Import ZArith QArith Qround List Bool Lia Lqa Sorted Permutation.
From LMBase Require Import Res ListX.
From LMTfm Require Import TfmNum TfmModel TfmSpec TfmProofs TfmScore TfmDist TfmPerm TfmMain TfmRun TfmTotal TfmLink TfmCheck TfmConv.
Import ListNotations.
Open Scope Q_scope.

(* Stage 2 of DESIGN 3/C12: the integer score I of a word and its real score S satisfy
   0 <= S/g + (sum of offsets) - I < error_max + 1 <= M, where error_max is the value
   computed by recompute() (summed from row 1, as in the code). *)
Theorem C12_int_score_error : forall rows perm bg K g G l,
  matrix_ok K rows bg -> 0 < g -> perm <> [] ->
  recompute NumQ rows perm g = Ok G ->
  let css := perm_cells rows perm in
  attain l (jrows g bg css) ->
  let S := Qsum (map (fun xc : Q * Z => fst xc) l) in
  let I := Zsum (map (fun xc : Q * Z => snd xc) l) in
  let O := Zsum (g_off G) in
  0 <= S / g + inject_Z O - inject_Z I /\
  S / g + inject_Z O - inject_Z I < g_emax G + 1 /\
  0 <= g_emax G /\ g_emax G + 1 <= inject_Z (Z.of_nat (length perm)).
Proof. exact int_score_error_fine. Qed.

(* Stage 3: the table computed by distribution(min, max) is the exact distribution of
   the integer score on [min, max] plus the mass above max (induction on the rows). *)
Theorem C12_dist_exact : forall (G : geom) (bg : list Q) mn mx rowsq n,
  distribution NumQ G bg mn mx = Ok rowsq ->
  (2 <= length (g_int G))%nat ->
  Forall (fun r => length r = n /\ forall c, In c r -> (0 <= c)%Z) (g_int G) ->
  g_maxr G = map zmax_of (g_int G) ->
  bg_mass n bg -> (n <= length bg)%nat -> (mn <= mx + 1)%Z ->
  dist_exact (irows (g_int G) bg) mn mx (last rowsq []).
Proof. exact distribution_exact. Qed.

(* ... and recompute() establishes the hypotheses of C12_dist_exact *)
Theorem C12_recompute_cells : forall rows perm (bg : list Q) K g G,
  matrix_ok K rows bg -> recompute NumQ rows perm g = Ok G ->
  Forall (fun r => length r = (K - 1)%nat /\ forall c, In c r -> (0 <= c)%Z) (g_int G) /\
  g_maxr G = map zmax_of (g_int G) /\ length (g_int G) = length perm.
Proof. exact recompute_cells. Qed.

(* Stage 1: lookup_pvalue on an exact table *)
Theorem C12_lookup_pvalue_sound : forall rows perm bg K g G score o,
  matrix_ok K rows bg -> 0 < g -> length perm = length rows ->
  recompute NumQ rows perm g = Ok G ->
  lookup_pvalue NumQ G bg score = Ok o ->
  dist_exact (irows (g_int G) bg) (pv_lo o) (pv_hi o) (last (pv_rows o) []) ->
  let M := inject_Z (Z.of_nat (length rows)) in
  let cs := perm_cells rows perm in
  pv_min o <= pv_max o /\ 0 <= pv_min o /\ pv_max o <= 1 /\
  tailS cs bg (score + (M + 1) * g) <= pv_min o /\
  pv_max o <= tailS cs bg (score - (M + 2) * g).
Proof. exact lookup_pvalue_sound. Qed.

(* The property, one refinement step (PvaluesIterator::next) at granularity g, for any
   matrix of width M >= 2, any background without wildcard mass, any score: the
   reported range is ordered, inside [0,1], and brackets the exact tail. *)
Theorem C12_pvalue_step_bounds : forall rows perm bg K g score it,
  matrix_ok K rows bg -> (2 <= length rows)%nat -> Permutation perm (seq 0 (length rows)) -> 0 < g ->
  pv_next NumQ rows perm bg score g = Ok it ->
  let M := inject_Z (Z.of_nat (length rows)) in
  io_gran it = g /\
  io_start it <= io_end it /\ 0 <= io_start it /\ io_end it <= 1 /\
  Ptail rows bg (score + (M + 1) * g) <= io_start it /\
  io_end it <= Ptail rows bg (score - (M + 2) * g).
Proof. exact pv_step_bounds. Qed.

(* Every Iteration of approximate_pvalue(score) (granularity 0.1, 0.01, ...; at most
   [steps] calls of next()) obeys the bounds at its own granularity. *)
Theorem C12_pvalue_run_bounds : forall steps rows perm bg K score g it,
  matrix_ok K rows bg -> (2 <= length rows)%nat -> Permutation perm (seq 0 (length rows)) -> 0 < g ->
  In (Ok it) (pv_run NumQ steps rows perm bg score g) ->
  let M := inject_Z (Z.of_nat (length rows)) in
  let gi := io_gran it in
  0 < gi /\ gi <= g /\
  io_start it <= io_end it /\ 0 <= io_start it /\ io_end it <= 1 /\
  Ptail rows bg (score + (M + 1) * gi) <= io_start it /\
  io_end it <= Ptail rows bg (score - (M + 2) * gi).
Proof. exact pv_run_bounds. Qed.

Theorem C12_granularity_decay : forall steps rows perm bg score g i it,
  nth_error (pv_run NumQ steps rows perm bg score g) i = Some (Ok it) ->
  io_gran it == g / pow10 i.
Proof. exact pv_run_gran. Qed.

(* Stage 4: the final p-value (TfmPvalue::pvalue returns the start of the range of the
   last, converged iteration) obeys the same bounds at the final granularity: its
   error is at most the probability mass of the scores within (M+2) g of s. *)
Theorem C12_pvalue_final_bounds : forall rows perm bg K score g steps it,
  matrix_ok K rows bg -> (2 <= length rows)%nat -> Permutation perm (seq 0 (length rows)) -> 0 < g ->
  last (pv_run NumQ steps rows perm bg score g) (Panic 0) = Ok it ->
  io_conv it = true ->
  let M := inject_Z (Z.of_nat (length rows)) in
  let pfinal := io_start it in
  let gi := io_gran it in
  0 < gi /\ gi <= g /\ pfinal == io_end it /\
  0 <= pfinal <= 1 /\
  Ptail rows bg (score + (M + 1) * gi) <= pfinal /\
  pfinal <= Ptail rows bg (score - (M + 2) * gi).
Proof. exact pvalue_final. Qed.

(* ... so its error is at most the probability mass of the scores within (M+2) g of s *)
Theorem C12_pvalue_final_error : forall rows perm bg K score g steps it,
  matrix_ok K rows bg -> (2 <= length rows)%nat -> Permutation perm (seq 0 (length rows)) -> 0 < g ->
  last (pv_run NumQ steps rows perm bg score g) (Panic 0) = Ok it ->
  io_conv it = true ->
  let M := inject_Z (Z.of_nat (length rows)) in
  let gi := io_gran it in
  let mass := Ptail rows bg (score - (M + 2) * gi) - Ptail rows bg (score + (M + 1) * gi) in
  0 <= mass /\ - mass <= io_start it - Ptail rows bg score <= mass.
Proof. exact pvalue_final_error. Qed.

(* the unwrap() / map indexing of lookup_pvalue (panic site 25 of the model) can never fail *)
Theorem C12_lookup_pvalue_never_panics_25 : forall G bg score, lookup_pvalue NumQ G bg score <> Panic 25.
Proof. exact lookup_pvalue_never_25. Qed.

(* the permutation test of the correspondence check implies the hypothesis of the theorems *)
Theorem C12_perm_ok_Permutation : forall mat perm,
  perm_ok mat perm = true -> Permutation perm (seq 0 (length mat)).
Proof. exact perm_ok_Permutation. Qed.

(* The extracted checker used on the implementation's observations decides exactly
   the five inequalities of the property (up to the stated relative tolerance [tol]
   on the reported binary64 sums), against the exact tail [T] = [tailS] (T_tailS). *)
Theorem C12_check_sound : forall tol m rows s g pmin pmax,
  c12_check tol m (enum_dy rows) s g pmin pmax = 0%Z <->
  (let q := dy_toQ in
   q pmin <= q pmax /\ 0 <= q pmin /\ q pmax <= 1 /\
   T rows (q s + inject_Z (m + 1) * q g) <= q pmin * q tol /\
   q pmax <= T rows (q s - inject_Z (m + 2) * q g) * q tol).
Proof. exact c12_check_iff. Qed.

Theorem C12_check_tail : forall cs bg x,
  T (dy_rows cs bg) x == tailS (map (map dy_toQ) cs) (map dy_toQ bg) x.
Proof. exact T_tailS. Qed.

(* For wide motifs the exact reference is computed by a convolution that merges equal scores
   ([conv_dy], linear merges of sorted tables) instead of enumerating all K^M words: the
   checker gives the same verdict on both. *)
Theorem C12_check_conv : forall tol m rows s g pmin pmax,
  c12_check tol m (conv_dy rows) s g pmin pmax = c12_check tol m (enum_dy rows) s g pmin pmax.
Proof. exact c12_check_conv. Qed.

(* ---------- statement pins ---------- *)
Check C12_pvalue_step_bounds : forall rows perm bg K g score it,
  matrix_ok K rows bg -> (2 <= length rows)%nat -> Permutation perm (seq 0 (length rows)) -> 0 < g ->
  pv_next NumQ rows perm bg score g = Ok it ->
  let M := inject_Z (Z.of_nat (length rows)) in
  io_gran it = g /\
  io_start it <= io_end it /\ 0 <= io_start it /\ io_end it <= 1 /\
  Ptail rows bg (score + (M + 1) * g) <= io_start it /\
  io_end it <= Ptail rows bg (score - (M + 2) * g).
Check C12_dist_exact : forall (G : geom) (bg : list Q) mn mx rowsq n,
  distribution NumQ G bg mn mx = Ok rowsq ->
  (2 <= length (g_int G))%nat ->
  Forall (fun r => length r = n /\ forall c, In c r -> (0 <= c)%Z) (g_int G) ->
  g_maxr G = map zmax_of (g_int G) ->
  bg_mass n bg -> (n <= length bg)%nat -> (mn <= mx + 1)%Z ->
  dist_exact (irows (g_int G) bg) mn mx (last rowsq []).

(* ---------- non-vacuity ---------- *)
Definition ex_rows : list (list Q) :=
  [[1; -1; 1 # 3; -2; -100]; [1 # 2; -(1 # 3); 0; -1; -100]; [1 # 4; 0; 1 # 7; -(1 # 4); -100]].
Definition ex_bg : list Q := [1 # 4; 1 # 4; 1 # 4; 1 # 4; 0].
Definition ex_bg2 : list Q := [1 # 2; 1 # 4; 1 # 8; 1 # 8; 0].
Definition ex_perm : list nat := [0; 1; 2]%nat.

Example ex_matrix_ok (bg : list Q) :
  length bg = 5%nat -> (forall b, In b bg -> 0 <= b) -> bg_unit 4 bg -> last bg 0 == 0 ->
  matrix_ok 5 ex_rows bg.
Proof.
  intros H1 H2 H3 H4. unfold matrix_ok. split; [lia|]. split; [repeat constructor|].
  split; [exact H1|]. split; [exact H2|]. split; [exact H3|exact H4].
Qed.

Example C12_nonvacuous_hyps :
  matrix_ok 5 ex_rows ex_bg /\ matrix_ok 5 ex_rows ex_bg2 /\
  Permutation ex_perm (seq 0 (length ex_rows)).
Proof.
  split; [|split].
  - apply ex_matrix_ok; [reflexivity| |reflexivity|reflexivity].
    intros b Hb. cbn in Hb. repeat (destruct Hb as [<-|Hb]; [discriminate|]). destruct Hb.
  - apply ex_matrix_ok; [reflexivity| |reflexivity|reflexivity].
    intros b Hb. cbn in Hb. repeat (destruct Hb as [<-|Hb]; [discriminate|]). destruct Hb.
  - apply Permutation_refl.
Qed.

(* two refinement steps on the example: both succeed, the first range is a proper
   interval strictly inside (0,1) (so the bounds of the theorem are not trivial) *)
Example C12_nonvacuous_run :
  exists it1 it2,
    pv_run NumQ 3 ex_rows ex_perm ex_bg2 (1 # 3) (1 # 10) = [Ok it1; Ok it2] /\
    0 < io_start it1 /\ io_start it1 < io_end it1 /\ io_end it1 < 1 /\
    io_gran it2 == 1 # 100 /\ io_conv it2 = true.
Proof.
  eexists. eexists. split; [vm_compute; reflexivity|].
  vm_compute. repeat split; intros; discriminate.
Qed.
