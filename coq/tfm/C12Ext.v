(* Property C12, round-3 extensions: theorems about the parts of TFM-PVALUE that the
   property theorems of C12.v leave open -- (a) no i64 overflow under an explicit bound,
   (b) convergence / termination of approximate_pvalue() / pvalue(), (c) the iteration order
   of the hash maps (the correspondence check replays the binary64 model in the order the
   implementation reports; in exact arithmetic the order is irrelevant), the reported range
   in binary64 itself, (d) backgrounds with wildcard mass.  Statements only; proofs are
   `exact` of lemmas in TfmOverflow / TfmClosed / TfmConverge / TfmIEEE / TfmOrdProofs / TfmMass. *)
From Coq Require Import Reals ZArith QArith Qround Qabs List Bool Lia Lqa Sorted Permutation.
From Flocq Require Import Core BinarySingleNaN.
From LMBase Require Import Res ListX IEEE.
From LMTfm Require Import TfmNum TfmModel TfmOrd TfmSpec TfmProofs TfmScore TfmDist TfmPerm TfmMain TfmRun TfmTotal TfmLink TfmCheck TfmConv TfmClause1 TfmAdequate TfmOverflow TfmConverge TfmIEEE TfmOrdProofs TfmClosed TfmMass TfmFinal TfmFinalProofs.
Import ListNotations.
Open Scope Q_scope.

(* ---------- (a) no overflow ---------- *)

(* One step of approximate_pvalue in exact arithmetic: if every symbol cell x has |x|/g <= B, the query has
   |score|/g <= B and (2M+1) B + M + 1 < 2^63 - 1, none of the i64 sites of recompute / distribution /
   lookup_pvalue (model panic sites 13 -min, 14 int_matrix += offset, 21 sum of offsets, 23 suffix sums of the
   row maxima, 24 max + 1) can overflow.  (Beyond the bound the sites are reachable: see tie_run_shape_30.) *)
Theorem C12_step_no_overflow :
  forall (rows : list (list Q)) (perm : list nat) (bg : list Q) (score g : Q) (B : Z) (n : nat),
  (0 <= B)%Z ->
  perm <> [] ->
  0 < g ->
  cells_boundedQ B rows g ->
  Qabs.Qabs score / g <= inject_Z B ->
  ((2 * Z.of_nat (length perm) + 1) * B + Z.of_nat (length perm) + 1 < i64_max)%Z ->
  pv_next NumQ rows perm bg score g = Panic n ->
  n <> 13%nat /\ n <> 14%nat /\ n <> 21%nat /\ n <> 23%nat /\ n <> 24%nat.
Proof. exact pv_next_no_overflow_closed. Qed.

(* the same for the binary64 instance that is replayed against the implementation (real quotients |x / g| <= B < 2^62,
   B representable; the window bound is kept as a hypothesis on the computed `max`) *)
Theorem C12_step_no_overflow_f64 :
  forall (rows : list (list IEEE.F64.t)) (perm : list nat) (bg : list IEEE.F64.t)
  (score : IEEE.F64.t) (g : BinarySingleNaN.binary_float 53 1024) (B : Z)
  (n : nat),
  B2R g <> Rdefinitions.IZR 0 ->
  (0 <= B < 2 ^ 62)%Z ->
  Generic_fmt.generic_format Zaux.radix2 fexp64 (Rdefinitions.IZR B) ->
  (2 * Z.of_nat (length perm) * B <= i64_max)%Z ->
  cells_boundedF64 B rows g ->
  (forall (G : geom) (osum : Z),
  recompute NumF64 rows perm g = Ok G ->
  sum_i64 21 0 (g_off G) = Ok osum -> (pv_hi_of NumF64 G score osum < i64_max)%Z) ->
  pv_next NumF64 rows perm bg score g = Panic n ->
  n <> 13%nat /\ n <> 14%nat /\ n <> 21%nat /\ n <> 23%nat /\ n <> 24%nat.
Proof. exact pv_next_no_overflow_F64. Qed.

(* recompute() alone, binary64: the saturating cast `as i64` is never reached and -min / += offset cannot overflow *)
Theorem C12_recompute_no_overflow_f64 :
  forall (rows : list (list IEEE.F64.t)) (perm : list nat) (g : BinarySingleNaN.binary_float 53 1024)
  (B : Z) (n : nat),
  B2R g <> Rdefinitions.IZR 0 ->
  (0 <= B < 2 ^ 62)%Z ->
  Generic_fmt.generic_format Zaux.radix2 fexp64 (Rdefinitions.IZR B) ->
  cells_boundedF64 B rows g -> recompute NumF64 rows perm g = Panic n -> n <> 13%nat /\ n <> 14%nat.
Proof. exact recompute_no_overflow_F64. Qed.

(* ---------- (b) convergence and termination ---------- *)

(* PvaluesIterator::next reports `converged` as soon as no attainable score S of the matrix has
   score - (M+1) g <= S < score + M g *)
Theorem C12_converged_if_isolated :
  forall (rows : list (list Q)) (perm : list nat) (bg : list Q) (K : nat) (g score : Q) (it : iter_out),
  matrix_ok K rows bg ->
  (2 <= length rows)%nat ->
  length perm = length rows ->
  0 < g ->
  pv_next NumQ rows perm bg score g = Ok it ->
  let M := inject_Z (Z.of_nat (length rows)) in
  let cs := perm_cells rows perm in
  (forall l : list Q, attain l (srows cs bg) -> ~ score - (M + 1) * g <= Qsum l < score + M * g) ->
  io_conv it = true.
Proof. exact pv_next_converged_if_isolated. Qed.

(* approximate_pvalue(score): the iteration of index i (granularity 10^-(i+1)) is the last one when the query is isolated at that granularity *)
Theorem C12_run_stops_at :
  forall (steps : nat) (rows : list (list Q)) (perm : list nat) (bg : list Q)
  (K : nat) (score : Q) (i : nat) (it : iter_out),
  matrix_ok K rows bg ->
  (2 <= length rows)%nat ->
  length perm = length rows ->
  nth_error (pv_run NumQ steps rows perm bg score (1 # 10)) i = Some (Ok it) ->
  let M := inject_Z (Z.of_nat (length rows)) in
  let cs := perm_cells rows perm in
  let gi := (1 # 10) / pow10 i in
  (forall l : list Q, attain l (srows cs bg) -> ~ score - (M + 1) * gi <= Qsum l < score + M * gi) ->
  length (pv_run NumQ steps rows perm bg score (1 # 10)) = S i.
Proof. exact pv_run_stops_at. Qed.

(* pvalue(score) terminates within i+1 calls of next() when every attainable score is at distance >= delta > (M+1) 10^-(i+1)
   from the query: the loop ends at granularity >= 10^-(i+1), its result is the (one-point) range of that last iteration
   (C12_pvalue_final_bounds) *)
Theorem C12_run_length_gap :
  forall (steps : nat) (rows : list (list Q)) (perm : list nat) (bg : list Q)
  (K : nat) (score delta : Q) (i : nat),
  matrix_ok K rows bg ->
  (2 <= length rows)%nat ->
  length perm = length rows ->
  let M := inject_Z (Z.of_nat (length rows)) in
  let cs := perm_cells rows perm in
  (forall l : list Q, attain l (srows cs bg) -> Qsum l <= score - delta \/ score + delta <= Qsum l) ->
  (M + 1) * ((1 # 10) / pow10 i) < delta -> (length (pv_run NumQ steps rows perm bg score (1 # 10)) <= S i)%nat.
Proof. exact pv_run_length_gap. Qed.

(* without a gap there is no bound: on this 2-row matrix the query 4/3 is the score of two words whose integer scores differ
   at every granularity; in exact arithmetic none of the first 18 iterations is converged and the 19th overflows the i64
   integer matrix (panic site 14).  (In binary64 the implementation converges on such queries at granularity ~1e-16, when
   x / g has no fractional bits left: replayed by the check, query kind `attfull`.) *)
Theorem C12_tie_never_converges :
  run_shape (pv_run NumQ 30 tie_rows tie_perm tie_bg tie_score (1 # 10)) =
  repeat (inl false) 18 ++ [inr 14%nat].
Proof. exact tie_run_shape_30. Qed.

(* ---------- (c) binary64 range; iteration order of the hash maps ---------- *)

(* the clause "ordered range within [0,1]" for the COMPUTED binary64 values (IEEE arithmetic itself, rounding included):
   non-negative background frequencies, wildcard frequency <= 1, no NaN in the last table *)
Theorem C12_range_in_unit_interval_f64 :
  forall (rows : list (list IEEE.F64.t)) (perm : list nat) (bg : list IEEE.F64.t)
  (score g : IEEE.F64.t) (it : iter_out),
  pv_next NumF64 rows perm bg score g = Ok it ->
  (forall b : IEEE.F64.t, In b bg -> IEEE.F64.le IEEE.F64.zero b = true) ->
  IEEE.F64.le (last bg IEEE.F64.zero) (IEEE.F64.of_Z 1) = true ->
  (forall kv : Z * IEEE.F64.t, In kv (last (io_rows it) []) -> IEEE.F64.is_nan (snd kv) = false) ->
  IEEE.F64.le (io_start it) (io_end it) = true /\
  IEEE.F64.le IEEE.F64.zero (io_start it) = true /\ IEEE.F64.le (io_end it) (IEEE.F64.of_Z 1) = true.
Proof. exact pv_next_range_F64_bg. Qed.

(* distribution() visiting its hash maps in ANY order (ords: permutations of the keys of the rows) computes the same tables
   as the key-order model of TfmModel.v: same keys, equal values (exact arithmetic) *)
Theorem C12_hash_order_irrelevant :
  forall (ords : list (list Z)) (G : geom) (bg : list Q) (mn mx : Z) (rows' : list fmap),
  distribution_ord NumQ ords G bg mn mx = Ok rows' ->
  ords_ok ords rows' = true ->
  exists rows : list fmap, distribution NumQ G bg mn mx = Ok rows /\ Forall2 fm_equiv rows rows'.
Proof. exact distribution_ord_equiv. Qed.

(* the order-parameterised model replayed by the correspondence check is the model of the theorems when no order is given
   (every instance of the numbers, binary64 included) *)
Theorem C12_ord_model_generalises :
  forall {T : Type} (N : NumOps T) (steps : nat) (rows : list (list T)) (perm : list nat)
  (bg : list T) (score g : T),
  pv_run_ord N steps [] rows perm bg score g = pv_run N steps rows perm bg score g.
Proof. exact @pv_run_ord_nil. Qed.

(* THE PROPERTY (one step) for the model that visits the hash maps in the orders reported by the implementation *)
Theorem C12_pvalue_step_bounds_any_order :
  forall (ords : list (list Z)) (rows : list (list Q)) (perm : list nat) (bg : list Q)
  (K : nat) (g score : Q) (it : iter_out),
  matrix_ok K rows bg ->
  (2 <= length rows)%nat ->
  Permutation perm (seq 0 (length rows)) ->
  0 < g ->
  pv_next_with NumQ (distribution_ord NumQ ords) rows perm bg score g = Ok it ->
  ords_ok ords (io_rows it) = true ->
  let M := inject_Z (Z.of_nat (length rows)) in
  io_gran it = g /\
  io_start it <= io_end it /\
  0 <= io_start it /\
  io_end it <= 1 /\
  Ptail rows bg (score + (M + 1) * g) <= io_start it /\ io_end it <= Ptail rows bg (score - (M + 2) * g).
Proof. exact pv_next_ord_bounds. Qed.

(* ... and for every iteration of the run *)
Theorem C12_pvalue_run_bounds_any_order :
  forall (steps : nat) (ordss : list (list (list Z))) (rows : list (list Q))
  (perm : list nat) (bg : list Q) (K : nat) (score g : Q) (i : nat) (it : iter_out),
  matrix_ok K rows bg ->
  (2 <= length rows)%nat ->
  Permutation perm (seq 0 (length rows)) ->
  0 < g ->
  nth_error (pv_run_ord NumQ steps ordss rows perm bg score g) i = Some (Ok it) ->
  ords_ok (nth i ordss []) (io_rows it) = true ->
  let M := inject_Z (Z.of_nat (length rows)) in
  let gi := io_gran it in
  0 < gi /\
  gi <= g /\
  io_start it <= io_end it /\
  0 <= io_start it /\
  io_end it <= 1 /\
  Ptail rows bg (score + (M + 1) * gi) <= io_start it /\
  io_end it <= Ptail rows bg (score - (M + 2) * gi).
Proof. exact pv_run_ord_bounds. Qed.

(* ---------- (d) wildcard mass ---------- *)

(* matrix_okm: as matrix_ok but the background may give the wildcard symbol any mass b_N in [0,1] (symbol frequencies sum to
   1 - b_N); Ptail is the tail over the words made of the K-1 symbols (the words through a -inf wildcard cell never reach a
   finite threshold) *)
Theorem C12_pvalue_step_bounds_wildcard_mass :
  forall (rows : list (list Q)) (perm : list nat) (bg : list Q) (K : nat) (g score : Q) (it : iter_out),
  matrix_okm K rows bg ->
  (2 <= length rows)%nat ->
  Permutation perm (seq 0 (length rows)) ->
  0 < g ->
  pv_next NumQ rows perm bg score g = Ok it ->
  let M := inject_Z (Z.of_nat (length rows)) in
  io_gran it = g /\
  io_start it <= io_end it /\
  0 <= io_start it /\
  io_end it <= 1 /\
  Ptail rows bg (score + (M + 1) * g) <= io_start it /\ io_end it <= Ptail rows bg (score - (M + 2) * g).
Proof. exact pv_step_bounds_m. Qed.

(* every iteration of approximate_pvalue, any wildcard mass *)
Theorem C12_pvalue_run_bounds_wildcard_mass :
  forall (steps : nat) (rows : list (list Q)) (perm : list nat) (bg : list Q)
  (K : nat) (score g : Q) (it : iter_out),
  matrix_okm K rows bg ->
  (2 <= length rows)%nat ->
  Permutation perm (seq 0 (length rows)) ->
  0 < g ->
  In (Ok it) (pv_run NumQ steps rows perm bg score g) ->
  let M := inject_Z (Z.of_nat (length rows)) in
  let gi := io_gran it in
  0 < gi /\
  gi <= g /\
  io_start it <= io_end it /\
  0 <= io_start it /\
  io_end it <= 1 /\
  Ptail rows bg (score + (M + 1) * gi) <= io_start it /\
  io_end it <= Ptail rows bg (score - (M + 2) * gi).
Proof. exact pv_run_bounds_m. Qed.

(* the final p-value, any wildcard mass *)
Theorem C12_pvalue_final_bounds_wildcard_mass :
  forall (rows : list (list Q)) (perm : list nat) (bg : list Q) (K : nat) (score g : Q)
  (steps : nat) (it : iter_out),
  matrix_okm K rows bg ->
  (2 <= length rows)%nat ->
  Permutation perm (seq 0 (length rows)) ->
  0 < g ->
  last (pv_run NumQ steps rows perm bg score g) (Panic 0) = Ok it ->
  io_conv it = true ->
  let M := inject_Z (Z.of_nat (length rows)) in
  let pfinal := io_start it in
  let gi := io_gran it in
  0 < gi /\
  gi <= g /\
  pfinal == io_end it /\
  0 <= pfinal <= 1 /\
  Ptail rows bg (score + (M + 1) * gi) <= pfinal <= Ptail rows bg (score - (M + 2) * gi).
Proof. exact pvalue_final_m. Qed.

(* against the tail over ALL K symbols (wildcard included) when the wildcard cells are so low that no word through them
   reaches score - (M+2) g: the finite form of "wildcard cells are -inf" *)
Theorem C12_pvalue_step_bounds_full_tail :
  forall (rows : list (list Q)) (perm : list nat) (bg : list Q) (K : nat) (g score : Q)
  (it : iter_out) (hi : Q),
  matrix_okm K rows bg ->
  (2 <= length rows)%nat ->
  Permutation perm (seq 0 (length rows)) ->
  0 < g ->
  pv_next NumQ rows perm bg score g = Ok it ->
  let M := inject_Z (Z.of_nat (length rows)) in
  (forall (r : list Q) (c : Q), In r rows -> In c r -> c <= hi) ->
  (forall r : list Q, In r rows -> last r 0 + (M - 1) * hi < score - (M + 2) * g) ->
  io_gran it = g /\
  io_start it <= io_end it /\
  0 <= io_start it /\
  io_end it <= 1 /\
  tailS rows bg (score + (M + 1) * g) <= io_start it /\ io_end it <= tailS rows bg (score - (M + 2) * g).
Proof. exact pv_step_bounds_full. Qed.

(* ---------- (b') the unbounded loop of pvalue() ---------- *)

(* pvalue(score) = `approximate_pvalue(score).last().unwrap()` + `assert!(it.converged)`, modelled with a fuel
   (TfmFinal.v).  The value it returns does not depend on the fuel: it is the value of the unbounded loop
   (any instance of the numbers, binary64 included). *)
Theorem C12_pvalue_fuel_independent : forall {T : Type} (N : NumOps T) fuel rows perm bg score p,
  pvalue_fuel N fuel rows perm bg score = Ok p -> pvalue_fuel N (S fuel) rows perm bg score = Ok p.
Proof. exact @pvalue_fuel_mono. Qed.

(* THE PROPERTY, last sentence: the final p-value obeys the bounds at the final granularity *)
Theorem C12_pvalue_bounds : forall fuel rows perm bg K score p,
  matrix_ok K rows bg -> (2 <= length rows)%nat -> Permutation perm (seq 0 (length rows)) ->
  pvalue_fuel NumQ fuel rows perm bg score = Ok p ->
  let M := inject_Z (Z.of_nat (length rows)) in
  exists gi, 0 < gi /\ gi <= 1 # 10 /\ 0 <= p <= 1 /\
    Ptail rows bg (score + (M + 1) * gi) <= p /\ p <= Ptail rows bg (score - (M + 2) * gi).
Proof. exact pvalue_fuel_bounds. Qed.

(* termination: every attainable score at distance >= delta > (M+1) 10^-(i+1) from the query: the loop makes at
   most i+1 calls of next() (granularity >= 10^-(i+1)) and pvalue() returns a value, unless its last call failed
   (a Panic site of the model) *)
Theorem C12_pvalue_terminates : forall fuel rows perm bg K score delta i,
  matrix_ok K rows bg -> (2 <= length rows)%nat -> length perm = length rows ->
  let M := inject_Z (Z.of_nat (length rows)) in
  let cs := perm_cells rows perm in
  (forall l, attain l (srows cs bg) -> Qsum l <= score - delta \/ score + delta <= Qsum l) ->
  (M + 1) * ((1 # 10) / pow10 i) < delta ->
  (i < fuel)%nat ->
  (length (pv_run NumQ fuel rows perm bg score (1 # 10)) <= S i)%nat /\
  ((exists p, pvalue_fuel NumQ fuel rows perm bg score = Ok p) \/
   (forall it, last (pv_run NumQ fuel rows perm bg score (1 # 10)) OutOfFuel <> Ok it)).
Proof. exact pvalue_fuel_terminates. Qed.

(* non-vacuity: on the example of C12.v pvalue(1/3) returns after two iterations *)
Example C12_pvalue_fuel_nonvacuous :
  exists p, pvalue_fuel NumQ 5 [[1; -1; 1 # 3; -2; -100]; [1 # 2; -(1 # 3); 0; -1; -100]; [1 # 4; 0; 1 # 7; -(1 # 4); -100]]
              [0; 1; 2]%nat [1 # 2; 1 # 4; 1 # 8; 1 # 8; 0] (1 # 3) = Ok p /\ 0 < p /\ p < 1.
Proof. eexists. split; [vm_compute; reflexivity|]. vm_compute. split; reflexivity. Qed.

(* ---------- non-vacuity ---------- *)

(* the closed bound is satisfiable: cells and query below 100 at granularity 10^-9 on a 3-row matrix *)
Example C12_no_overflow_nonvacuous :
  let rows := [[1; -1; 1 # 3; -2; -100]; [1 # 2; -(1 # 3); 0; -1; -100]; [1 # 4; 0; 1 # 7; -(1 # 4); -100]] in
  let g := 1 # 1000000000 in
  cells_boundedQ 100000000000 rows g /\ Qabs (1 # 3) / g <= inject_Z 100000000000 /\
  ((2 * Z.of_nat 3 + 1) * 100000000000 + Z.of_nat 3 + 1 < i64_max)%Z.
Proof.
  cbv zeta. split; [|split; [vm_compute; discriminate|vm_compute; reflexivity]].
  intros r x Hr Hx. cbn in Hr.
  repeat (destruct Hr as [<-|Hr]; [cbn in Hx; repeat (destruct Hx as [<-|Hx]; [vm_compute; discriminate|]); destruct Hx|]).
  destruct Hr.
Qed.

(* wildcard mass: matrix_okm holds where matrix_ok does not, and a run succeeds (TfmMass.exm_hyps, exm_pvalue_run) *)
Example C12_wildcard_mass_nonvacuous :
  matrix_okm 5 exm_rows exm_bg /\ ~ matrix_ok 5 exm_rows exm_bg.
Proof. destruct exm_hyps as [H1 [H2 _]]. split; assumption. Qed.
