(* pvalue() / score() RETURN a value (exact arithmetic): totality (TfmTotality / TfmTotalRun) + termination at an
   integral granularity (TfmDyadic).  For a matrix whose symbol cells (and, for pvalue(), the query) are multiples of
   2^-e -- every binary32 matrix is, for some e -- the refinement converges at the granularity 10^-n, n = max e 1,
   where every x / g is an integer; if the i64 bounds hold down to that granularity, the unbounded loop of
   pvalue() / score() ends after at most n calls of next() and returns a value (to which C12_pvalue_final /
   C13_score_value_final apply).  Without the i64 bound the loop runs into the overflow sites first
   (C12_tie_never_converges, tie_score_run_shape; known finding F35). *)
From Coq Require Import ZArith QArith Qround Qabs List Bool Lia Lqa Permutation.
From LMBase Require Import Res ListX.
From LMTfm Require Import TfmNum TfmModel TfmSpec TfmProofs TfmScore TfmRun TfmTotal TfmLink TfmAdequate
  TfmOverflow TfmConverge TfmClosed TfmFinal TfmFinalProofs TfmTotality TfmWindow TfmTotalRun TfmDyadic.
Import ListNotations.
Open Scope Q_scope.

Lemma all_ok_last {A} (l : list (res A)) d : all_ok l -> l <> [] -> exists a, last l d = Ok a.
Proof.
  intros Hl Hne. destruct (exists_last Hne) as [l' [x E]]. subst l. rewrite last_last.
  unfold all_ok in Hl. rewrite Forall_forall in Hl. apply Hl. apply in_or_app. right. left. reflexivity.
Qed.

Lemma pvalue_fuel_mono_le {T} (N : NumOps T) n fuel rows perm bg score p :
  (n <= fuel)%nat -> pvalue_fuel N n rows perm bg score = Ok p -> pvalue_fuel N fuel rows perm bg score = Ok p.
Proof. induction 1 as [|m Hm IH]; intros H; [exact H|]. apply pvalue_fuel_mono. apply IH. exact H. Qed.

Lemma score_fuel_mono_le {T} (N : NumOps T) n fuel rows perm bg p t :
  (n <= fuel)%nat -> score_fuel N n rows perm bg p = Ok t -> score_fuel N fuel rows perm bg p = Ok t.
Proof. induction 1 as [|m Hm IH]; intros H; [exact H|]. apply score_fuel_mono. apply IH. exact H. Qed.

Theorem pvalue_returns_dyadic : forall fuel rows perm bg K score e B,
  matrix_ok K rows bg -> (2 <= length rows)%nat -> Permutation perm (seq 0 (length rows)) ->
  dyadic_cells e rows -> dyadic_q e score ->
  let n := Nat.max e 1 in
  let gl := (1 # 10) / pow10 (n - 1) in
  cells_boundedQ B rows gl -> Qabs score / gl <= inject_Z B ->
  ((2 * Z.of_nat (length rows) + 1) * B + Z.of_nat (length rows) + 1 < i64_max)%Z ->
  (n <= fuel)%nat ->
  exists p, pvalue_fuel NumQ fuel rows perm bg score = Ok p.
Proof.
  intros fuel rows perm bg K score e B Hok HM Hperm Hdc Hds n gl Hc Hs Hbig Hfuel.
  pose proof (perm_length rows perm Hperm) as Hpl.
  assert (Hn : (1 <= n)%nat) by (unfold n; lia).
  pose proof (pv_run_total n rows perm bg K score B Hok HM Hperm Hc Hs Hbig) as Hall.
  destruct (pvalue_fuel_terminates_dyadic n rows perm bg K score e Hok HM Hpl Hdc Hds (le_n _)) as [[p Hp]|Hno].
  - exists p. apply (pvalue_fuel_mono_le NumQ n fuel); assumption.
  - exfalso. fold n in Hno.
    destruct n as [|m]; [lia|].
    destruct (all_ok_last _ OutOfFuel Hall (pv_run_nonempty m rows perm bg score (1 # 10) ltac:(reflexivity))) as [it Hit].
    exact (Hno it Hit).
Qed.

Theorem score_returns_dyadic : forall fuel rows perm bg K p e B0,
  matrix_ok K rows bg -> (2 <= length rows)%nat -> Permutation perm (seq 0 (length rows)) ->
  0 < p -> p <= 1 ->
  dyadic_cells e rows ->
  let n := Nat.max e 1 in
  (0 <= B0)%Z -> cells_boundedQ B0 rows (1 # 10) ->
  ((3 * Z.of_nat (length rows) * B0 + 4 * Z.of_nat (length rows)) * 10 ^ (Z.of_nat n - 1) <= i64_max)%Z ->
  (n <= fuel)%nat ->
  exists t, score_fuel NumQ fuel rows perm bg p = Ok t.
Proof.
  intros fuel rows perm bg K p e B0 Hok HM Hperm Hp Hp1 Hdc n HB Hc Hb Hfuel.
  pose proof (perm_length rows perm Hperm) as Hpl.
  assert (Hn : (1 <= n)%nat) by (unfold n; lia).
  destruct (approximate_score_total n rows perm bg K p B0 Hok HM Hperm Hp Hp1 Hn HB Hc Hb) as [win [Hw [Hall Hne]]].
  destruct (score_fuel_terminates_dyadic n rows perm bg K p e win Hok HM Hpl Hdc Hw (le_n _)) as [[t Ht]|Hno].
  - exists t. apply (score_fuel_mono_le NumQ n fuel); assumption.
  - exfalso. fold n in Hno. destruct (all_ok_last _ OutOfFuel Hall Hne) as [it Hit]. exact (Hno it Hit).
Qed.

(* the same for a query that is delta-separated from every attainable score (TfmFinalProofs.pvalue_fuel_terminates left
   "or the last call failed" open): with the i64 bound down to the granularity 10^-(i+1), pvalue() returns *)
Theorem pvalue_returns_gap : forall fuel rows perm bg K score delta i B,
  matrix_ok K rows bg -> (2 <= length rows)%nat -> Permutation perm (seq 0 (length rows)) ->
  let M := inject_Z (Z.of_nat (length rows)) in
  let cs := perm_cells rows perm in
  let gl := (1 # 10) / pow10 i in
  (forall l, attain l (srows cs bg) -> Qsum l <= score - delta \/ score + delta <= Qsum l) ->
  (M + 1) * gl < delta ->
  cells_boundedQ B rows gl -> Qabs score / gl <= inject_Z B ->
  ((2 * Z.of_nat (length rows) + 1) * B + Z.of_nat (length rows) + 1 < i64_max)%Z ->
  (i < fuel)%nat ->
  exists p, pvalue_fuel NumQ fuel rows perm bg score = Ok p.
Proof.
  intros fuel rows perm bg K score delta i B Hok HM Hperm M cs gl Hgap Hd Hc Hs Hbig Hfuel.
  pose proof (perm_length rows perm Hperm) as Hpl.
  assert (Hall : all_ok (pv_run NumQ (S i) rows perm bg score (1 # 10))).
  { apply (pv_run_total (S i) rows perm bg K score B Hok HM Hperm); replace (S i - 1)%nat with i by lia; assumption. }
  destruct (pvalue_fuel_terminates (S i) rows perm bg K score delta i Hok HM Hpl Hgap Hd (Nat.lt_succ_diag_r i))
    as [_ [[p Hp]|Hno]].
  - exists p. apply (pvalue_fuel_mono_le NumQ (S i) fuel); [lia|exact Hp].
  - exfalso.
    destruct (all_ok_last _ OutOfFuel Hall (pv_run_nonempty i rows perm bg score (1 # 10) ltac:(reflexivity))) as [it Hit].
    exact (Hno it Hit).
Qed.
