(* TFM-PVALUE model with the iteration order of the hash maps as an input.

   `TfmPvalue::distribution` iterates over `qvalues[pos - 1]` (an `IntMap<f64>` =
   `HashMap<i64, f64, IntHasherBuilder>`) in the unspecified iteration order of the hash
   map; TfmModel.v iterates in key order, which gives the same tables in exact arithmetic
   (TfmOrdProofs.v) but not the same binary64 sums.  Here the order in which the keys of
   every finished row are visited is a parameter ([ords]: one key list per row 0..M-2, as
   reported by the `verif-hooks` accessor `verif_state()`), so that the binary64 instance
   can be compared with the implementation bit for bit.  Everything else is the text of
   TfmModel.v, written once over the function that computes the tables ([D]):
   [lookup_pvalue_with (distribution N)] IS [lookup_pvalue N] (by conversion,
   TfmOrdProofs.v), and [distribution_ord N []] = [distribution N] (an exhausted order list
   means key order).

   Executable definitions only. *)
From Coq Require Import ZArith List Bool Lia.
From LMBase Require Import Res ListX IEEE.
From LMTfm Require Import TfmNum TfmModel.
Import ListNotations.
Open Scope Z_scope.

Section Ord.
  Context {T : Type} (N : NumOps T).

  (* the entries of [m] in the order [ord] of their keys *)
  Definition reorder (ord : list Z) (m : fmap (T:=T)) : fmap (T:=T) :=
    flat_map (fun k => match fm_get k m with Some v => [(k, v)] | None => [] end) ord.

  (* [ord] lists every key of [m] exactly once (the keys of [m] are distinct) *)
  Definition ord_ok (ord : list Z) (m : fmap (T:=T)) : bool :=
    (length ord =? length m)%nat && forallb (fun k => existsb (Z.eqb k) ord) (fm_keys m).

  (* [dist_loop] of TfmModel.v; the row [cur] is visited in the order [hd (keys of cur) ords] *)
  Fixpoint dist_loop_ord (mn mx : Z) (bg : list T) (rm : list (list Z * Z * T)) (ords : list (list Z))
           (cur : fmap (T:=T)) (bucket : T) (acc : list (fmap (T:=T))) : list (fmap (T:=T)) * fmap (T:=T) * T :=
    match rm with
    | [] => (acc, cur, bucket)
    | (irow, mnext, rnext) :: r =>
        let ord := hd (fm_keys cur) ords in
        let '(nxt, b) := step_row N mn mx mnext rnext irow bg (reorder ord cur) bucket in
        dist_loop_ord mn mx bg r (tl ords) nxt b (cur :: acc)
    end.

  Definition distribution_ord (ords : list (list Z)) (G : geom (T:=T)) (bg : list T) (mn mx : Z)
    : res (list (fmap (T:=T))) :=
    match g_int G with
    | [] => Panic 22
    | irow0 :: irows =>
        let maxs := suffix_sums (g_maxr G) in
        if negb (forallb in_i64 maxs) then Panic 23 else
        if mx =? i64_max then Panic 24 else
        let mass := n_sub N (n_one N) (last bg (n_zero N)) in
        let rest := rest_sums N mass (length (g_int G)) in
        let q0 := init_row N mn (nth 1 maxs 0) irow0 bg in
        let '(acc, cur, bucket) :=
          dist_loop_ord mn mx bg (combine (combine irows (skipn 2 maxs)) (skipn 2 rest)) ords q0 (n_zero N) [] in
        Ok (rev acc ++ [fm_set (mx + 1) bucket cur])
    end.

  (* every given order is a permutation of the keys of its row (rows 0 .. M-2 of the result) *)
  Fixpoint ords_ok (ords : list (list Z)) (rows : list (fmap (T:=T))) : bool :=
    match ords, rows with
    | [], _ => true
    | _ :: _, [] => false
    | _ :: _, [_] => false                  (* more orders than rows before the last one *)
    | o :: os, r :: rs => ord_ok o r && ords_ok os rs
    end.

  (* ---------- the text of TfmModel.v over the table function [D] ---------- *)

  Definition dist_fn := geom (T:=T) -> list T -> Z -> Z -> res (list (fmap (T:=T))).

  Definition lookup_pvalue_with (D : dist_fn) (G : geom (T:=T)) (bg : list T) (score : T) : res (pv_out (T:=T)) :=
    if n_isnan N (g_gran G) then Panic 20 else
    osum <- sum_i64 21 0 (g_off G) ;;
    let scaled := n_add N (n_div N score (g_gran G)) (n_ofZ N osum) in
    let avg := n_floorZ N scaled in
    let mx := n_floorZ N (n_add N (n_add N scaled (g_emax G)) (n_one N)) in
    let mn := n_floorZ N (n_sub N (n_sub N scaled (g_emax G)) (n_one N)) in
    rows <- D G bg mn mx ;;
    let lastm := last rows [] in
    let pvd := cum_desc N (n_zero N) (rev lastm) in
    let pva := rev pvd in
    let s := match find (fun kv => avg <=? fst kv) pva with Some kv => fst kv | None => mx + 1 end in
    match fm_get s pva with
    | None => Panic 25
    | Some pmin =>
        let thr := n_sub N (n_ofZ N s) (g_emax G) in
        match walk_down N thr (filter (fun kv => fst kv <=? s) pvd) with
        | None => Panic 25
        | Some kv =>
            Ok {| pv_min := clamp1 N pmin; pv_max := clamp1 N (snd kv); pv_avg := avg; pv_lo := mn; pv_hi := mx;
                  pv_s := s; pv_kmax := fst kv; pv_rows := rows |}
        end
    end.

  Definition lookup_score_with (D : dist_fn) (G : geom (T:=T)) (bg : list T) (p : T) (mn mx : Z)
    : res (ls_out (T:=T)) :=
    if n_isnan N (g_gran G) then Panic 20 else
    rows <- D G bg mn mx ;;
    let lastm := last rows [] in
    match length lastm with
    | O => Panic 30
    | S top =>
        st <- ls_loop N p lastm top (n_zero N) [] ;;
        let '(riter, sum, pvs) := st in
        r <- (if gt N sum p then
                ae <- key_at lastm riter 31 ;;
                a <- key_at lastm (S riter) 31 ;;
                Ok (a, ae, pvs, false)
              else
                match riter with
                | O =>
                    a <- key_at lastm 0 31 ;;
                    Ok (a, a, fm_set a sum pvs, true)
                | S r' =>
                    a <- key_at lastm riter 31 ;;
                    ae <- key_at lastm r' 31 ;;
                    let sum' := n_add N sum (match fm_get ae pvs with Some v => v | None => n_zero N end) in
                    Ok (a, ae, fm_set ae sum' pvs, false)
                end) ;;
        let '(a, ae, pvs', exh) := r in
        pa <- pv_at pvs' a ;;
        pe <- (if gt N (n_ofZ N (a - ae)) (g_emax G) then Ok pa else pv_at pvs' ae) ;;
        let q0 := match lastm with kv :: _ => snd kv | [] => n_zero N end in
        Ok {| ls_alpha := a; ls_alpha_e := ae; ls_start := pe; ls_end := pa;
              ls_exhausted := exh;
              ls_total_lt := exh && lt N (n_add N sum q0) p;
              ls_sum := sum; ls_rows := rows |}
    end.

  Definition pv_next_with (D : dist_fn) (rows : list (list T)) (perm : list nat) (bg : list T) (score g : T)
    : res (iter_out (T:=T)) :=
    G <- recompute N rows perm g ;;
    o <- lookup_pvalue_with D G bg score ;;
    Ok {| io_gran := g; io_start := pv_min o; io_end := pv_max o;
          io_conv := feq N (pv_min o) (pv_max o); io_score := score; io_geom := G;
          io_rows := pv_rows o; io_win := (pv_lo o, pv_hi o); io_key := pv_s o;
          io_exh := false; io_total_lt := false; io_sum := n_zero N |}.

  Definition sc_next_with (D : dist_fn) (rows : list (list T)) (perm : list nat) (bg : list T) (p g : T)
             (win : Z * Z) : res (iter_out (T:=T)) :=
    G <- recompute N rows perm g ;;
    o <- lookup_score_with D G bg p (fst win) (snd win) ;;
    let a := n_ofZ N (ls_alpha o) in
    let ae := n_ofZ N (ls_alpha_e o) in
    let w := n_ceil N (n_add N (g_emax G) (n_half N)) in
    let slack := n_mul N (n_sub N (n_ten N) (n_one N)) (n_ofZ N (Z.of_nat (length rows))) in
    let mn' := n_floorZ N (n_sub N (n_mul N (n_sub N ae w) (n_ten N)) slack) in
    let mx' := n_floorZ N (n_add N (n_mul N (n_add N a w) (n_ten N)) slack) in
    osum <- sum_i64 21 0 (g_off G) ;;
    if negb (in_i64 (ls_alpha o - osum)) then Panic 33 else
    Ok {| io_gran := g; io_start := ls_start o; io_end := ls_end o;
          io_conv := feq N (ls_start o) (ls_end o);
          io_score := n_mul N (n_ofZ N (ls_alpha o - osum)) g;
          io_geom := G; io_rows := ls_rows o; io_win := (mn', mx'); io_key := ls_alpha o;
          io_exh := ls_exhausted o; io_total_lt := ls_total_lt o; io_sum := ls_sum o |}.

  (* the runs: step i visits its hash maps in the orders [nth i ordss []] *)
  Fixpoint pv_run_ord (steps : nat) (ordss : list (list (list Z))) (rows : list (list T)) (perm : list nat)
           (bg : list T) (score g : T) : list (res (iter_out (T:=T))) :=
    match steps with
    | O => []
    | S n =>
        if le N g (n_zero N) then [] else
        match pv_next_with (distribution_ord (hd [] ordss)) rows perm bg score g with
        | Ok it => Ok it :: (if io_conv it then []
                             else pv_run_ord n (tl ordss) rows perm bg score (n_div N g (n_ten N)))
        | e => [e]
        end
    end.

  Fixpoint sc_run_ord (steps : nat) (ordss : list (list (list Z))) (rows : list (list T)) (perm : list nat)
           (bg : list T) (p g : T) (win : Z * Z) : list (res (iter_out (T:=T))) :=
    match steps with
    | O => []
    | S n =>
        if le N g (n_zero N) then [] else
        match sc_next_with (distribution_ord (hd [] ordss)) rows perm bg p g win with
        | Ok it => Ok it :: (if io_conv it then []
                             else sc_run_ord n (tl ordss) rows perm bg p (n_div N g (n_ten N)) (io_win it))
        | e => [e]
        end
    end.

End Ord.
