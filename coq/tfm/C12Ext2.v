(* Property C12, wave 3 of round 3 (independent review, notes/review-round3.md, C12-1/-2, X6): TOTALITY.
   The property says that every refinement step REPORTS a range; the theorems of C12.v / C12Ext.v have
   `pv_next ... = Ok it` as a premise.  Here: on the domain of the property (matrix_ok, M >= 2, perm a
   permutation of the row indices, 0 < g < 1) and under the closed i64 bound of C12_step_no_overflow, the
   model of PvaluesIterator::next returns an Iteration -- none of the panic sites 10 (assert g < 1), 11 / 12
   (unwrap on an empty row), 15 (permutation entry out of range), 20 (assert !g.is_nan()), 22 (M = 0),
   13 14 21 23 24 (i64 overflow), 25 (missing key) is reachable, and the model has no other failure mode.
   Then the value pvalue() returns, tied to the iteration it comes from.  Statements only; proofs are `exact`
   of lemmas in TfmTotality / TfmHence / TfmDyadic. *)
From Coq Require Import ZArith QArith Qround Qabs List Bool Lia Lqa Permutation.
From LMBase Require Import Res ListX.
From LMTfm Require Import TfmNum TfmModel TfmSpec TfmProofs TfmScore TfmRun TfmTotal TfmLink TfmOverflow TfmConverge TfmClosed
  TfmFinal TfmFinalProofs TfmTotality TfmHence TfmDyadic TfmWindow TfmTotalRun TfmReturns TfmCheck TfmRef TfmRefProofs TfmIEEE TfmIEEE2 TfmAnyBg.
From LMBase Require Import IEEE.
From Coq Require Import Reals.
From Flocq Require Import Core BinarySingleNaN.
Import ListNotations.
Open Scope Q_scope.

(* the model has no failure mode besides the numbered panic sites: every result of next() is Ok or Panic
   (any instance of the numbers, binary64 included) *)
Theorem C12_step_ok_or_panic : forall {T : Type} (N : NumOps T) rows perm bg score g,
  match pv_next N rows perm bg score g with Ok _ | Panic _ => True | _ => False end.
Proof. exact @okp_pv_next. Qed.

(* on the domain of the property only the i64 overflow sites are reachable at all *)
Theorem C12_step_panic_sites : forall rows perm bg K g score n,
  matrix_ok K rows bg -> (2 <= length rows)%nat -> Permutation perm (seq 0 (length rows)) -> g < 1 ->
  pv_next NumQ rows perm bg score g = Panic n ->
  (n = 13 \/ n = 14 \/ n = 21 \/ n = 23 \/ n = 24)%nat.
Proof. exact pv_next_panic_sites. Qed.

(* TOTALITY of one refinement step: every symbol cell x with |x| / g <= B, the query with |score| / g <= B and
   (2M+1) B + M + 1 < 2^63 - 1: PvaluesIterator::next returns an Iteration (to which C12_pvalue_step_bounds applies) *)
Theorem C12_pvalue_step_total : forall rows perm bg K g score B,
  matrix_ok K rows bg -> (2 <= length rows)%nat -> Permutation perm (seq 0 (length rows)) ->
  0 < g -> g < 1 ->
  cells_boundedQ B rows g -> Qabs score / g <= inject_Z B ->
  ((2 * Z.of_nat (length rows) + 1) * B + Z.of_nat (length rows) + 1 < i64_max)%Z ->
  exists it, pv_next NumQ rows perm bg score g = Ok it.
Proof. exact pv_next_total. Qed.

(* ... whatever the background: totality of next() does not depend on [bg] at all (any list of rationals: wildcard mass,
   zero or negative entries, not normalised); only the shape of the matrix (K >= 2 cells per row, M >= 1) matters *)
Theorem C12_pvalue_step_total_any_background : forall K rows perm bg g score B,
  (2 <= K)%nat -> Forall (fun r => length r = K) rows -> (1 <= length rows)%nat ->
  Permutation perm (seq 0 (length rows)) ->
  0 < g -> g < 1 ->
  cells_boundedQ B rows g -> Qabs score / g <= inject_Z B ->
  ((2 * Z.of_nat (length rows) + 1) * B + Z.of_nat (length rows) + 1 < i64_max)%Z ->
  exists it, pv_next NumQ rows perm bg score g = Ok it.
Proof. exact pv_next_total_any_bg. Qed.

(* TOTALITY along approximate_pvalue(score): the bounds at the granularity 10^-steps of the last of [steps] calls of
   next() make every call return an Iteration (the run stops earlier only by convergence) *)
Theorem C12_pvalue_run_total : forall steps rows perm bg K score B,
  matrix_ok K rows bg -> (2 <= length rows)%nat -> Permutation perm (seq 0 (length rows)) ->
  let gl := (1 # 10) / pow10 (steps - 1) in
  cells_boundedQ B rows gl -> Qabs score / gl <= inject_Z B ->
  ((2 * Z.of_nat (length rows) + 1) * B + Z.of_nat (length rows) + 1 < i64_max)%Z ->
  Forall (fun r => exists it, r = Ok it) (pv_run NumQ steps rows perm bg score (1 # 10)).
Proof. exact pv_run_total. Qed.

(* THE PROPERTY, last sentence, for the value pvalue() returns: it is the (one-point) range of the LAST iteration of
   the run, that iteration is converged, its granularity is 10^-(number of calls of next()), the bounds hold at THAT
   granularity and the error is at most the probability mass of the scores within (M+2) g of s *)
Theorem C12_pvalue_final : forall fuel rows perm bg K score p,
  matrix_ok K rows bg -> (2 <= length rows)%nat -> Permutation perm (seq 0 (length rows)) ->
  pvalue_fuel NumQ fuel rows perm bg score = Ok p ->
  let run := pv_run NumQ fuel rows perm bg score (1 # 10) in
  let M := inject_Z (Z.of_nat (length rows)) in
  exists it i,
    length run = S i /\ nth_error run i = Some (Ok it) /\ io_conv it = true /\
    p = io_start it /\ p == io_end it /\ io_gran it == (1 # 10) / pow10 i /\
    0 <= p <= 1 /\
    Ptail rows bg (score + (M + 1) * io_gran it) <= p /\ p <= Ptail rows bg (score - (M + 2) * io_gran it) /\
    (let mass := Ptail rows bg (score - (M + 2) * io_gran it) - Ptail rows bg (score + (M + 1) * io_gran it) in
     - mass <= p - Ptail rows bg score <= mass).
Proof. exact pvalue_fuel_final. Qed.

(* ---------- totality for the binary64 instance (the one replayed against the implementation) ---------- *)

(* [shape_ok N rows perm g]: g < 1 and not NaN, perm a non-empty list of row indices, every row has a symbol cell -- no
   condition on the background or on the values of the cells.  For ANY instance of the numbers only the i64 sites remain *)
Theorem C12_step_panic_sites_any_instance : forall {T : Type} (N : NumOps T) rows perm bg score g n,
  shape_ok N rows perm g ->
  pv_next N rows perm bg score g = Panic n ->
  (n = 13 \/ n = 14 \/ n = 21 \/ n = 23 \/ n = 24)%nat.
Proof. exact @pv_next_panic_sites_gen. Qed.

(* binary64: under the bounds of C12Ext.C12_step_no_overflow_f64, PvaluesIterator::next returns an Iteration, for every
   matrix with K >= 2 cells per row (cells may even be infinite or NaN), any background, any permutation *)
Theorem C12_pvalue_step_total_f64 : forall K (rows : list (list IEEE.F64.t)) perm bg score (g : binary_float 53 1024) B,
  (2 <= K)%nat -> Forall (fun r => length r = K) rows -> (1 <= length rows)%nat ->
  Permutation perm (seq 0 (length rows)) ->
  lt NumF64 g (n_one NumF64) = true ->
  B2R g <> 0%R ->
  (0 <= B < 2 ^ 62)%Z ->
  generic_format radix2 (SpecFloat.fexp 53 1024) (IZR B) ->
  (2 * Z.of_nat (length perm) * B <= i64_max)%Z ->
  cells_boundedF64 B rows g ->
  (forall (G : geom) (osum : Z),
     recompute NumF64 rows perm g = Ok G ->
     sum_i64 21 0 (g_off G) = Ok osum -> (pv_hi_of NumF64 G score osum < i64_max)%Z) ->
  exists it, pv_next NumF64 rows perm bg score g = Ok it.
Proof. exact pv_next_total_F64. Qed.

(* ---------- binary64: the clause "ordered range within [0,1]" without the no-NaN premise ---------- *)

(* C12Ext.C12_range_in_unit_interval_f64 assumes that the last table holds no NaN.  The only NaN source of the computation
   is +inf * 0 (an overflowed value times a zero frequency or a zero rest factor).  For a background whose K-1 symbol
   frequencies are finite and strictly positive ([posfin]) and whose wildcard frequency is +0.0 -- every uniform or
   non-uniform background without zero entries and without wildcard mass -- no table of the binary64 computation holds a
   NaN, whatever the matrix (huge, infinite or NaN cells included), and the premise is discharged *)
Theorem C12_tables_no_nan_f64_positive_bg : forall K rows perm bg score g it,
  pv_next NumF64 rows perm bg score g = Ok it ->
  Forall (fun r => length r = K) rows ->
  Forall posfin (firstn (K - 1) bg) ->
  last bg IEEE.F64.zero = IEEE.F64.zero ->
  forall m, In m (io_rows it) -> forall kv, In kv m -> nn (snd kv) /\ IEEE.F64.is_nan (snd kv) = false.
Proof. exact pv_next_no_nan_F64_pos. Qed.

Theorem C12_range_in_unit_interval_f64_positive_bg : forall K rows perm bg score g it,
  pv_next NumF64 rows perm bg score g = Ok it ->
  Forall (fun r => length r = K) rows ->
  Forall posfin (firstn (K - 1) bg) ->
  last bg IEEE.F64.zero = IEEE.F64.zero ->
  IEEE.F64.le (io_start it) (io_end it) = true /\ IEEE.F64.le IEEE.F64.zero (io_start it) = true /\
  IEEE.F64.le (io_end it) (IEEE.F64.of_Z 1) = true.
Proof. exact pv_next_range_F64_pos. Qed.

(* the uniform DNA background satisfies the hypotheses *)
Example C12_positive_bg_nonvacuous :
  Forall posfin (firstn (5 - 1) bg_uniform_dna) /\ last bg_uniform_dna IEEE.F64.zero = IEEE.F64.zero.
Proof. exact bg_uniform_dna_pos. Qed.

(* ---------- convergence and termination at an integral granularity ---------- *)

(* [cells_integral rows g]: every symbol cell x has x / g integral (then error_max = 0 and the integer score of a word is
   its real score / g + offsets EXACTLY).  At such a granularity next() reports `converged` unless an attainable score
   lies in (score - 2g, score - g]: exactly attainable queries and queries just above an attainable value converge --
   the cases C12_run_length_gap excludes. *)
Theorem C12_converged_if_integral : forall rows perm bg K g score it,
  matrix_ok K rows bg -> (2 <= length rows)%nat -> length perm = length rows -> 0 < g ->
  cells_integral rows g ->
  pv_next NumQ rows perm bg score g = Ok it ->
  let cs := perm_cells rows perm in
  (forall l, attain l (srows cs bg) -> ~ (score - 2 * g < Qsum l /\ Qsum l <= score - g)) ->
  io_conv it = true.
Proof. exact pv_next_converged_integral. Qed.

(* symbol cells and query multiples of 2^-e (every binary32 matrix and query are, for some e): approximate_pvalue makes at
   most max(e,1) calls of next(), the call of index max(e,1)-1 (granularity 10^-max(e,1)) is converged *)
Theorem C12_run_length_dyadic : forall steps rows perm bg K score e,
  matrix_ok K rows bg -> (2 <= length rows)%nat -> length perm = length rows ->
  dyadic_cells e rows -> dyadic_q e score ->
  (length (pv_run NumQ steps rows perm bg score (1 # 10)) <= Nat.max e 1)%nat.
Proof. exact pv_run_length_dyadic. Qed.

Theorem C12_run_converges_dyadic : forall steps rows perm bg K score e it,
  matrix_ok K rows bg -> (2 <= length rows)%nat -> length perm = length rows ->
  dyadic_cells e rows -> dyadic_q e score ->
  nth_error (pv_run NumQ steps rows perm bg score (1 # 10)) (Nat.max e 1 - 1) = Some (Ok it) ->
  io_conv it = true.
Proof. exact pv_run_converges_dyadic. Qed.

(* pvalue(score) RETURNS a value: dyadic cells and query with e fractional bits, the i64 bound down to the granularity
   10^-max(e,1): the unbounded loop ends after at most max(e,1) calls and the `assert!(it.converged)` holds.  (Without the
   i64 bound it does not: C12Ext.C12_tie_never_converges; for binary32 cells with many fractional bits the exact model
   reaches the overflow sites first -- known finding F35 -- while the binary64 code converges by rounding at ~1e-16.) *)
Theorem C12_pvalue_returns_dyadic : forall fuel rows perm bg K score e B,
  matrix_ok K rows bg -> (2 <= length rows)%nat -> Permutation perm (seq 0 (length rows)) ->
  dyadic_cells e rows -> dyadic_q e score ->
  let n := Nat.max e 1 in
  let gl := (1 # 10) / pow10 (n - 1) in
  cells_boundedQ B rows gl -> Qabs score / gl <= inject_Z B ->
  ((2 * Z.of_nat (length rows) + 1) * B + Z.of_nat (length rows) + 1 < i64_max)%Z ->
  (n <= fuel)%nat ->
  exists p, pvalue_fuel NumQ fuel rows perm bg score = Ok p.
Proof. exact pvalue_returns_dyadic. Qed.

(* ... and for a query at distance >= delta > (M+1) 10^-(i+1) from every attainable score (C12Ext.C12_pvalue_terminates left
   "or its last call failed" open): with the i64 bound down to that granularity pvalue() RETURNS after at most i+1 calls *)
Theorem C12_pvalue_returns_gap : forall fuel rows perm bg K score delta i B,
  matrix_ok K rows bg -> (2 <= length rows)%nat -> Permutation perm (seq 0 (length rows)) ->
  let M := inject_Z (Z.of_nat (length rows)) in
  let cs := perm_cells rows perm in
  let gl := (1 # 10) / pow10 i in
  (forall l, attain l (srows cs bg) -> Qsum l <= score - delta \/ score + delta <= Qsum l) ->
  (M + 1) * gl < delta ->
  cells_boundedQ B rows gl -> Qabs score / gl <= inject_Z B ->
  ((2 * Z.of_nat (length rows) + 1) * B + Z.of_nat (length rows) + 1 < i64_max)%Z ->
  (i < fuel)%nat ->
  exists p, pvalue_fuel NumQ fuel rows perm bg score = Ok p.
Proof. exact pvalue_returns_gap. Qed.

(* ---------- the exact reference of the check ---------- *)

(* The rows the driver hands to enum_dy / conv_dy and c12_check are computed by the extracted [wrows_of] (TfmRef.v) from the
   binary32 cells of the case.  Without wildcard mass they are [dy_rows] of the exact values of the symbol cells, for which
   C12_check_tail identifies the checker's tail with the [tailS] of the theorems; ... *)
Theorem C12_reference_rows : forall mat bg rs,
  wrows_of mat bg = Some rs -> fst (last bg dy0) = 0%Z ->
  Forall (fun row => length row = length bg) mat /\
  exists css, Forall2 (fun row ds => exact_cells (removelast row) ds) mat css /\ rs = dy_rows css bg.
Proof. exact wrows_of_no_wildcard_mass. Qed.

(* ... and the cases the check skips (verdict `OK skipped:outside-the-quantifier`) are exactly those with a non-finite
   symbol cell, a wildcard cell that is neither finite nor -inf, or a row whose length is not that of the background *)
Theorem C12_reference_skips : forall mat bg,
  wrows_of mat bg = None ->
  exists row, In row mat /\
    (length row <> length bg \/ row = [] \/
     (exists c, In c (removelast row) /\ f32_to_dy c = None) \/
     (f32_to_dy (last row F32.zero) = None /\ F32.is_neg_inf (last row F32.zero) = false)).
Proof. exact wrows_of_none. Qed.

(* ---------- statement pins ---------- *)
Check C12_pvalue_step_total : forall rows perm bg K g score B,
  matrix_ok K rows bg -> (2 <= length rows)%nat -> Permutation perm (seq 0 (length rows)) ->
  0 < g -> g < 1 ->
  cells_boundedQ B rows g -> Qabs score / g <= inject_Z B ->
  ((2 * Z.of_nat (length rows) + 1) * B + Z.of_nat (length rows) + 1 < i64_max)%Z ->
  exists it, pv_next NumQ rows perm bg score g = Ok it.

(* ---------- non-vacuity ---------- *)
Definition ex2_rows : list (list Q) :=
  [[1; -1; 1 # 3; -2; -100]; [1 # 2; -(1 # 3); 0; -1; -100]; [1 # 4; 0; 1 # 7; -(1 # 4); -100]].

(* the hypotheses of C12_pvalue_run_total are satisfiable for 9 calls of next() (granularity down to 10^-9) *)
Example C12_total_nonvacuous :
  let gl := (1 # 10) / pow10 (9 - 1) in
  cells_boundedQ 100000000000 ex2_rows gl /\ Qabs (1 # 3) / gl <= inject_Z 100000000000 /\
  ((2 * Z.of_nat (length ex2_rows) + 1) * 100000000000 + Z.of_nat (length ex2_rows) + 1 < i64_max)%Z.
Proof.
  cbv zeta. split; [|split; [vm_compute; discriminate|vm_compute; reflexivity]].
  intros r x Hr Hx. cbn in Hr.
  repeat (destruct Hr as [<-|Hr]; [cbn in Hx; repeat (destruct Hx as [<-|Hx]; [vm_compute; discriminate|]); destruct Hx|]).
  destruct Hr.
Qed.

(* the bound matters: beyond it the sites are reachable (C12Ext.C12_tie_never_converges ends in Panic 14) *)

(* C12_pvalue_returns_dyadic applies: cells in quarters (e = 2), query 1/4, |x| / 10^-2 <= 100 *)
Example C12_returns_nonvacuous :
  exists p, pvalue_fuel NumQ 7 dyad_rows dyad_perm tie_bg (1 # 4) = Ok p /\ 0 < p /\ p < 1.
Proof.
  destruct (pvalue_returns_dyadic 7 dyad_rows dyad_perm tie_bg 5 (1 # 4) 2 100 dyad_matrix_ok) as [p Hp].
  - simpl; lia.
  - unfold dyad_perm, dyad_rows. cbn [length seq]. apply Permutation_sym.
    apply (perm_trans (l' := [0; 2; 1]%nat)); [apply perm_skip; apply perm_swap|apply Permutation_refl].
  - exact dyad_rows_dyadic.
  - exists 1%Z. reflexivity.
  - intros r x Hr Hx. cbn in Hr.
    repeat (destruct Hr as [<-|Hr]; [cbn in Hx; repeat (destruct Hx as [<-|Hx]; [vm_compute; discriminate|]); destruct Hx|]).
    destruct Hr.
  - vm_compute. discriminate.
  - vm_compute. reflexivity.
  - simpl; lia.
  - exists p. split; [exact Hp|]. vm_compute in Hp. inversion Hp; subst p. split; reflexivity.
Qed.
