(* Closed-form "no i64 overflow along the whole run of approximate_score" (exact arithmetic).

   TfmOverflow.sc_next_no_overflow_Q excludes the overflow sites of ONE call of
   ScoresIterator::next from a bound B on |cell| / g and from bounds on the window
   the call works on.  Here the window is followed along the run:

     - the initial window (score_window0) has  1 <= max <= 2 M B0 + M,
     - a step at granularity g (bound B) that works on a window with 0 <= max returns a
       window with 0 <= max' and
           max' + 3 M <= Z.max (2 M (10 B) + 22 M) (10 (max + 3 M)),
       because the returned key alpha is a key of the last table: alpha = max + 1 or
       0 <= alpha <= 2 M B, and max' = 10 (alpha + w) + 9 M with 1 <= w <= M,
     - hence  max_i + 3 M <= (2 M B0 + 4 M) 10^i  at the step of index i, where the cells
       are bounded by B0 10^i, and the single inequality
           (3 M B0 + 4 M) 10^(steps - 1) <= i64_max
       excludes the sites 13, 14, 21, 23, 24, 33 for every call of the run. *)
From Coq Require Import ZArith QArith Qround Qabs List Bool Lia Lqa.
From LMBase Require Import Res ListX.
From LMTfm Require Import TfmNum TfmModel TfmSpec TfmProofs TfmTotal TfmMain TfmRun TfmAdequate
  TfmOverflow TfmClosed.
Import ListNotations.
Open Scope Q_scope.

(* ------------------------------------------------------------------ *)
(** * 1. The cell bound along the granularity schedule *)

Lemma cells_bounded_tenth B rows g :
  0 < g -> cells_boundedQ B rows g -> cells_boundedQ (10 * B) rows (g / 10).
Proof.
  intros Hg H r x Hr Hx. specialize (H r x Hr Hx).
  assert (E : Qabs x / (g / 10) == 10 * (Qabs x / g)) by (field; lra).
  rewrite E, inject_Z_mult. change (inject_Z 10) with 10. lra.
Qed.

Lemma cells_bounded_pow10 B0 rows i :
  cells_boundedQ B0 rows (1 # 10) ->
  cells_boundedQ (B0 * 10 ^ Z.of_nat i) rows ((1 # 10) / pow10 i).
Proof.
  intros H r x Hr Hx. specialize (H r x Hr Hx). pose proof (pow10_pos i) as Hp.
  assert (E : Qabs x / ((1 # 10) / pow10 i) == (Qabs x / (1 # 10)) * pow10 i) by (field; lra).
  rewrite E, inject_Z_mult. change (inject_Z (10 ^ Z.of_nat i)) with (pow10 i).
  apply Qmult_le_compat_r; [exact H|lra].
Qed.

(* ------------------------------------------------------------------ *)
(** * 2. Plain integer facts *)

Lemma zin_Zsum_nonneg C l :
  zin 0 C l -> (0 <= Zsum l <= Z.of_nat (length l) * C)%Z.
Proof.
  induction 1 as [|a l Ha Hl IH]; cbn [Zsum length]; [lia|].
  rewrite Nat2Z.inj_succ. lia.
Qed.

Lemma zmin_of_le_zmax_of l : (zmin_of l <= zmax_of l)%Z.
Proof.
  destruct l as [|a r]; simpl; [lia|].
  destruct (zmin_from_le a r) as [H1 _]. destruct (zmax_from_ge a r) as [H2 _]. lia.
Qed.

Lemma Zsum_min_le_max ints : (Zsum (map zmin_of ints) <= Zsum (map zmax_of ints))%Z.
Proof.
  induction ints as [|a r IH]; simpl; [lia|]. pose proof (zmin_of_le_zmax_of a). lia.
Qed.

(* the arithmetic of one re-centring *)
Lemma window_step_arith (M B s a w : Z) :
  (2 <= M)%Z -> (0 <= B)%Z -> (0 <= s)%Z -> (1 <= w <= M)%Z ->
  (a = s + 1 \/ 0 <= a <= M * (2 * B))%Z ->
  (0 <= 10 * (a + w) + 9 * M /\
   10 * (a + w) + 9 * M + 3 * M <= Z.max (2 * M * (10 * B) + 22 * M) (10 * (s + 3 * M)))%Z.
Proof.
  intros HM HB Hs Hw Ha.
  assert (E1 : (M * (2 * B) = 2 * (M * B))%Z) by ring.
  assert (E2 : (2 * M * (10 * B) = 20 * (M * B))%Z) by ring.
  assert (H0 : (0 <= M * B)%Z) by (apply Z.mul_nonneg_nonneg; lia).
  rewrite E1 in Ha. rewrite E2. set (MB := (M * B)%Z) in *. clearbody MB.
  destruct Ha as [Ha|Ha]; lia.
Qed.

(* 10^(n-1) with the convention 10^(-1) = 0 of Z.pow *)
Definition pw (n : nat) : Z := (10 ^ (Z.of_nat n - 1))%Z.

Lemma pw_S n : pw (S n) = (10 ^ Z.of_nat n)%Z.
Proof. unfold pw. f_equal. lia. Qed.

Lemma pw_S_pos n : (1 <= pw (S n))%Z.
Proof. rewrite pw_S. pose proof (Z.pow_pos_nonneg 10 (Z.of_nat n)). lia. Qed.

Lemma pw_step n : (10 * pw n <= pw (S n))%Z.
Proof.
  destruct n as [|m].
  - unfold pw. simpl. lia.
  - rewrite !pw_S. rewrite Nat2Z.inj_succ, Z.pow_succ_r by lia. lia.
Qed.

(* the closed bound at step i gives the closed bound of the remaining run *)
Lemma closed_bound_step (n : nat) (T MB X : Z) :
  (0 <= T + MB)%Z -> ((T + MB) * pw (S n) <= X)%Z ->
  ((10 * T + 10 * MB) * pw n <= X)%Z /\ (T + MB <= X)%Z.
Proof.
  intros H0 H. pose proof (pw_step n) as H1. pose proof (pw_S_pos n) as H2.
  set (a := pw (S n)) in *. set (b := pw n) in *. clearbody a b.
  set (S := (T + MB)%Z) in *.
  assert (E : ((10 * T + 10 * MB) * b = S * (10 * b))%Z) by (unfold S; ring).
  rewrite E. clearbody S. split; nia.
Qed.

(* the hypotheses of sc_next_no_overflow_Q from the invariant *)
Lemma step_hyps_arith (M B T s X : Z) :
  (2 <= M)%Z -> (0 <= B)%Z -> (0 <= s)%Z -> (s + 3 * M <= T)%Z -> (2 * M * B + 4 * M <= T)%Z ->
  (T + M * B <= X)%Z ->
  (2 * B <= X /\ 3 * M * B <= X /\ s < X /\ - X - 1 + M * B <= s + 1 /\ s + 1 <= X - M * B)%Z.
Proof.
  intros HM HB Hs HsT HT HX.
  assert (E1 : (2 * M * B = 2 * (M * B))%Z) by ring.
  assert (E2 : (3 * M * B = 3 * (M * B))%Z) by ring.
  assert (H0 : (2 * B <= M * B)%Z) by (apply Z.mul_le_mono_nonneg_r; lia).
  rewrite E1 in HT. rewrite E2. set (MB := (M * B)%Z) in *. clearbody MB. lia.
Qed.

(* ------------------------------------------------------------------ *)
(** * 3. The half-width  w = ceil(error_max + 1/2)  lies in [1, M] *)

Lemma ceil_emax_bounds rows perm g G :
  0 < g -> perm <> [] -> recompute NumQ rows perm g = Ok G ->
  (1 <= Qceiling (g_emax G + (1 # 2)) <= Z.of_nat (length perm))%Z.
Proof.
  intros Hg Hne Hrec. destruct (recompute_emax_le rows perm g G Hg Hne Hrec) as [Em0 Em1].
  split; [apply ceil_half_pos; exact Em0|].
  apply Z.le_trans with (Qceiling (inject_Z (Z.of_nat (length perm)))).
  - apply Qceiling_resp_le. lra.
  - rewrite Qceiling_Z. lia.
Qed.

(* ------------------------------------------------------------------ *)
(** * 4. One step: the window after the step *)

(* (the hypothesis matrix_ok of [sc_next_window_inv] below is not needed) *)
Theorem sc_next_window_inv_gen : forall rows perm bg p g win it B,
  (2 <= length rows)%nat -> length perm = length rows -> 0 < g -> (0 <= B)%Z -> (2 * B <= i64_max)%Z ->
  cells_boundedQ B rows g -> (0 <= snd win)%Z ->
  sc_next NumQ rows perm bg p g win = Ok it ->
  let M := Z.of_nat (length perm) in
  (0 <= snd (io_win it))%Z /\
  (snd (io_win it) + 3 * M <= Z.max (2 * M * (10 * B) + 22 * M) (10 * (snd win + 3 * M)))%Z.
Proof.
  intros rows perm bg p g win it B HM Hperm Hg HB H2 Hc Hw H M.
  destruct (sc_next_open _ _ _ _ _ _ _ H) as [G [o [Hrec [Hlook [_ [_ Ew]]]]]].
  assert (Hne : perm <> []) by (destruct perm; simpl in *; [lia|discriminate]).
  pose proof (ceil_emax_bounds rows perm g G Hg Hne Hrec) as Hwb. fold M in Hwb.
  destruct (recompute_ok_bounds NumQ rows perm g B G HB H2 (raw_bounded_Q B rows perm g Hg Hc) Hrec)
    as [Hint [_ [_ [_ [Li _]]]]].
  destruct (lookup_score_alpha_key NumQ _ _ _ _ _ _ Hlook) as [rowsq [Hd Hk]].
  assert (H2B : (0 <= 2 * B)%Z) by lia.
  pose proof (distribution_last_keys NumQ G bg (fst win) (snd win) (2 * B)%Z rowsq H2B Hint Hd _ Hk) as Hr.
  rewrite Li in Hr. fold M in Hr.
  rewrite Ew. cbn [fst snd]. rewrite <- Hperm. fold M.
  assert (HM2 : (2 <= M)%Z) by (unfold M; lia).
  apply (window_step_arith M B (snd win) (ls_alpha o) _ HM2 HB Hw Hwb Hr).
Qed.

Theorem sc_next_window_inv : forall rows perm bg K p g win it B,
  matrix_ok K rows bg -> (2 <= length rows)%nat -> length perm = length rows -> 0 < g ->
  (0 <= B)%Z -> (2 * B <= i64_max)%Z ->
  cells_boundedQ B rows g -> (0 <= snd win)%Z ->
  sc_next NumQ rows perm bg p g win = Ok it ->
  let M := Z.of_nat (length perm) in
  (0 <= snd (io_win it))%Z /\
  (snd (io_win it) + 3 * M <= Z.max (2 * M * (10 * B) + 22 * M) (10 * (snd win + 3 * M)))%Z.
Proof.
  intros rows perm bg K p g win it B _. apply sc_next_window_inv_gen.
Qed.

(* ------------------------------------------------------------------ *)
(** * 5. The initial window *)

Theorem score_window0_bounds : forall rows perm B0 win,
  (0 <= B0)%Z -> (2 * B0 <= i64_max)%Z -> perm <> [] -> cells_boundedQ B0 rows (1 # 10) ->
  score_window0 NumQ rows perm = Ok win ->
  (fst win <= snd win)%Z /\
  (1 <= snd win <= 2 * Z.of_nat (length perm) * B0 + Z.of_nat (length perm))%Z.
Proof.
  intros rows perm B0 win HB H2 Hne Hc Hwin. unfold score_window0 in Hwin.
  apply rbind_ok in Hwin. destruct Hwin as [G [Hrec Hwin]].
  apply rbind_ok in Hwin. destruct Hwin as [mn [Hmn Hwin]].
  apply rbind_ok in Hwin. destruct Hwin as [smax [Hsmax Hwin]].
  destruct (in_i64 _); [|discriminate]. inversion Hwin; subst win; clear Hwin.
  change (n_tenth NumQ) with (1 # 10) in Hrec.
  assert (Hg : 0 < 1 # 10) by reflexivity.
  pose proof (ceil_emax_bounds rows perm (1 # 10) G Hg Hne Hrec) as Hwb.
  change (n_ceilZ NumQ (n_add NumQ (g_emax G) (n_half NumQ))) with (Qceiling (g_emax G + (1 # 2))).
  set (c := Qceiling (g_emax G + (1 # 2))) in *. clearbody c.
  destruct (recompute_ok_bounds NumQ rows perm (1 # 10) B0 G HB H2
              (raw_bounded_Q B0 rows perm (1 # 10) Hg Hc) Hrec)
    as [_ [_ [_ [Hmaxr [_ [_ [_ Lmax]]]]]]].
  destruct (recompute_Q_geom _ _ _ _ Hrec) as [prow [_ [_ [_ [_ [_ [_ [Emin [Emax _]]]]]]]]].
  apply sum_i64_ok in Hmn. apply sum_i64_ok in Hsmax. rewrite Z.add_0_l in Hmn, Hsmax.
  pose proof (zin_Zsum_nonneg _ _ Hmaxr) as Hs. rewrite Lmax, <- Hsmax in Hs.
  pose proof (Zsum_min_le_max (g_int G)) as Hle. rewrite <- Emin, <- Emax, <- Hmn, <- Hsmax in Hle.
  cbn [fst snd].
  set (M := Z.of_nat (length perm)) in *.
  assert (E : (M * (2 * B0) = 2 * M * B0)%Z) by ring. rewrite E in Hs.
  set (MB := (2 * M * B0)%Z) in *. clearbody MB. lia.
Qed.

Theorem score_window0_no_overflow_closed : forall rows perm B0 n,
  (0 <= B0)%Z -> perm <> [] -> cells_boundedQ B0 rows (1 # 10) ->
  (2 * Z.of_nat (length perm) * B0 + Z.of_nat (length perm) <= i64_max)%Z ->
  score_window0 NumQ rows perm = Panic n -> (n <> 13 /\ n <> 14 /\ n <> 34)%nat.
Proof.
  intros rows perm B0 n HB Hne Hc Hbig.
  set (M := Z.of_nat (length perm)) in *.
  assert (HM1 : (1 <= M)%Z).
  { unfold M. destruct perm; [congruence|]. cbn [length]. lia. }
  assert (HMB : (0 <= M * B0)%Z) by (apply Z.mul_nonneg_nonneg; lia).
  assert (HMB' : (B0 <= M * B0)%Z) by nia.
  assert (E : (2 * M * B0 = 2 * (M * B0))%Z) by ring.
  assert (H2 : (2 * B0 <= i64_max)%Z) by lia.
  assert (H2M : (2 * M * B0 <= i64_max)%Z) by lia.
  apply (score_window0_no_overflow_Q rows perm B0 n HB H2 H2M Hc).
  intros G HG.
  assert (Hg : 0 < 1 # 10) by reflexivity.
  pose proof (ceil_emax_bounds rows perm (1 # 10) G Hg Hne HG) as Hwb. fold M in Hwb.
  unfold i64_min, i64_max in *. lia.
Qed.

(* ------------------------------------------------------------------ *)
(** * 6. The run *)

(* generalised over the start (g, win) of the remaining run: the cells are bounded by B at
   g, the window by T, and T dominates 2 M B + 4 M *)
Lemma sc_run_window_gen : forall steps rows perm bg p g win B T,
  (2 <= length rows)%nat -> length perm = length rows ->
  0 < g -> (0 <= B)%Z -> cells_boundedQ B rows g ->
  (0 <= snd win)%Z ->
  (snd win + 3 * Z.of_nat (length perm) <= T)%Z ->
  (2 * Z.of_nat (length perm) * B + 4 * Z.of_nat (length perm) <= T)%Z ->
  ((T + Z.of_nat (length perm) * B) * pw steps <= i64_max)%Z ->
  (forall n, In (Panic n) (sc_run NumQ steps rows perm bg p g win) ->
             (n <> 13 /\ n <> 14 /\ n <> 21 /\ n <> 23 /\ n <> 24 /\ n <> 33)%nat) /\
  (forall it, In (Ok it) (sc_run NumQ steps rows perm bg p g win) -> (0 <= snd (io_win it))%Z).
Proof.
  induction steps as [|k IH]; intros rows perm bg p g win B T HM Hperm Hg HB Hc Hw HwT HT Hbig.
  { cbn [sc_run]. split; intros x [] . }
  set (M := Z.of_nat (length perm)) in *.
  assert (HM2 : (2 <= M)%Z) by (unfold M; lia).
  assert (HMB0 : (0 <= M * B)%Z) by (apply Z.mul_nonneg_nonneg; lia).
  assert (HT0 : (0 <= T + M * B)%Z) by lia.
  destruct (closed_bound_step k T (M * B) i64_max HT0 Hbig) as [Hnext Hnow].
  destruct (step_hyps_arith M B T (snd win) i64_max HM2 HB Hw HwT HT Hnow) as [A1 [A2 [A3 [A4 A5]]]].
  cbn [sc_run]. rewrite (le_pos_false g Hg).
  destruct (sc_next NumQ rows perm bg p g win) as [it0|c|s|] eqn:Enext.
  - (* the step succeeded *)
    destruct (sc_next_window_inv_gen rows perm bg p g win it0 B HM Hperm Hg HB A1 Hc Hw Enext) as [W1 W2].
    fold M in W2.
    destruct (io_conv it0).
    + split.
      * intros n [Hn|[]]. discriminate.
      * intros it [Hi|[]]. inversion Hi; subst it. exact W1.
    + destruct (div10_pos g Hg) as [D1 _].
      pose proof (cells_bounded_tenth B rows g Hg Hc) as Hc'.
      assert (HB' : (0 <= 10 * B)%Z) by lia.
      assert (HwT' : (snd (io_win it0) + 3 * M <= 10 * T)%Z).
      { assert (E : (2 * M * (10 * B) = 10 * (2 * M * B))%Z) by ring.
        rewrite E in W2. set (MB2 := (2 * M * B)%Z) in *. clearbody MB2. lia. }
      assert (HT' : (2 * M * (10 * B) + 4 * M <= 10 * T)%Z).
      { assert (E : (2 * M * (10 * B) = 10 * (2 * M * B))%Z) by ring.
        rewrite E. set (MB2 := (2 * M * B)%Z) in *. clearbody MB2. lia. }
      assert (Hbig' : ((10 * T + M * (10 * B)) * pw k <= i64_max)%Z).
      { assert (E : (M * (10 * B) = 10 * (M * B))%Z) by ring. rewrite E. exact Hnext. }
      destruct (IH rows perm bg p (n_div NumQ g (n_ten NumQ)) (io_win it0) (10 * B)%Z (10 * T)%Z
                   HM Hperm D1 HB' Hc' W1 HwT' HT' Hbig') as [I1 I2].
      split.
      * intros n [Hn|Hn]; [discriminate|]. exact (I1 n Hn).
      * intros it [Hi|Hi]; [inversion Hi; subst it; exact W1|]. exact (I2 it Hi).
  - split; intros x [Hx|[]]; discriminate.
  - split.
    + intros n [Hn|[]]. inversion Hn; subst s.
      apply (sc_next_no_overflow_Q rows perm bg p g win B n HB A1 A2 Hg Hc A3); [|exact Enext].
      fold M. unfold i64_min, i64_max in *. lia.
    + intros it [Hi|[]]. discriminate.
  - split; intros x [Hx|[]]; discriminate.
Qed.

(* the start of approximate_score *)
Lemma sc_run_start_hyps rows perm B0 win steps :
  (2 <= length rows)%nat -> length perm = length rows -> (0 <= B0)%Z ->
  cells_boundedQ B0 rows (1 # 10) ->
  score_window0 NumQ rows perm = Ok win ->
  ((3 * Z.of_nat (length perm) * B0 + 4 * Z.of_nat (length perm)) * 10 ^ (Z.of_nat (S steps) - 1) <= i64_max)%Z ->
  let M := Z.of_nat (length perm) in
  let T := (2 * M * B0 + 4 * M)%Z in
  (0 <= snd win)%Z /\ (snd win + 3 * M <= T)%Z /\ ((T + M * B0) * pw (S steps) <= i64_max)%Z.
Proof.
  intros HM Hperm HB Hc Hwin Hbig M T. fold M in Hbig. fold (pw (S steps)) in Hbig.
  assert (Hne : perm <> []) by (destruct perm; simpl in *; [lia|discriminate]).
  assert (HM2 : (2 <= M)%Z) by (unfold M; lia).
  assert (HMB0 : (0 <= M * B0)%Z) by (apply Z.mul_nonneg_nonneg; lia).
  assert (H2B : (2 * B0 <= M * B0)%Z) by (apply Z.mul_le_mono_nonneg_r; lia).
  pose proof (pw_S_pos steps) as Hp.
  assert (E3 : (3 * M * B0 = 3 * (M * B0))%Z) by ring.
  assert (ET : (T + M * B0 = 3 * M * B0 + 4 * M)%Z) by (unfold T; ring).
  assert (H2 : (2 * B0 <= i64_max)%Z).
  { rewrite E3 in Hbig. set (MB := (M * B0)%Z) in *. clearbody MB.
    set (q := pw (S steps)) in *. clearbody q. nia. }
  destruct (score_window0_bounds rows perm B0 win HB H2 Hne Hc Hwin) as [_ [W1 W2]]. fold M in W2.
  split; [lia|]. split; [unfold T; lia|]. rewrite ET. exact Hbig.
Qed.

Theorem sc_run_no_overflow_closed : forall steps rows perm bg K p win B0 n,
  matrix_ok K rows bg -> (2 <= length rows)%nat -> length perm = length rows -> (0 <= B0)%Z ->
  cells_boundedQ B0 rows (1 # 10) ->
  score_window0 NumQ rows perm = Ok win ->
  ((3 * Z.of_nat (length perm) * B0 + 4 * Z.of_nat (length perm)) * 10 ^ (Z.of_nat steps - 1) <= i64_max)%Z ->
  In (Panic n) (sc_run NumQ steps rows perm bg p (1 # 10) win) ->
  (n <> 13 /\ n <> 14 /\ n <> 21 /\ n <> 23 /\ n <> 24 /\ n <> 33)%nat.
Proof.
  intros steps rows perm bg K p win B0 n _ HM Hperm HB Hc Hwin Hbig Hin.
  destruct steps as [|k]; [destruct Hin|].
  destruct (sc_run_start_hyps rows perm B0 win k HM Hperm HB Hc Hwin Hbig) as [S1 [S2 S3]].
  assert (Hg : 0 < 1 # 10) by reflexivity.
  destruct (sc_run_window_gen (S k) rows perm bg p (1 # 10) win B0 _ HM Hperm Hg HB Hc S1 S2 (Z.le_refl _) S3)
    as [I1 _].
  exact (I1 n Hin).
Qed.

(* every window produced along the run has a non-negative upper end *)
Theorem sc_run_windows_nonneg : forall steps rows perm bg K p win B0 it,
  matrix_ok K rows bg -> (2 <= length rows)%nat -> length perm = length rows -> (0 <= B0)%Z ->
  cells_boundedQ B0 rows (1 # 10) ->
  score_window0 NumQ rows perm = Ok win ->
  ((3 * Z.of_nat (length perm) * B0 + 4 * Z.of_nat (length perm)) * 10 ^ (Z.of_nat steps - 1) <= i64_max)%Z ->
  In (Ok it) (sc_run NumQ steps rows perm bg p (1 # 10) win) ->
  (0 <= snd (io_win it))%Z.
Proof.
  intros steps rows perm bg K p win B0 it _ HM Hperm HB Hc Hwin Hbig Hin.
  destruct steps as [|k]; [destruct Hin|].
  destruct (sc_run_start_hyps rows perm B0 win k HM Hperm HB Hc Hwin Hbig) as [S1 [S2 S3]].
  assert (Hg : 0 < 1 # 10) by reflexivity.
  destruct (sc_run_window_gen (S k) rows perm bg p (1 # 10) win B0 _ HM Hperm Hg HB Hc S1 S2 (Z.le_refl _) S3)
    as [_ I2].
  exact (I2 it Hin).
Qed.

(* ------------------------------------------------------------------ *)
(** * 7. The closed bound is satisfiable: M = 3 rows, |cell| <= 10 (B0 = 100), 12 steps *)

Example closed_bound_example :
  ((3 * 3 * 100 + 4 * 3) * 10 ^ (12 - 1) <= i64_max)%Z.
Proof. vm_compute. discriminate. Qed.
