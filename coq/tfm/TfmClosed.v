(* Closed-form no-overflow bound for one step of approximate_pvalue (exact arithmetic):
   the hypotheses of TfmOverflow.pv_next_no_overflow_Q that speak about intermediate values
   (the sum of the offsets, error_max) are discharged from a bound B on |cell| / g and on
   |score| / g alone:  (2 M + 1) B + M + 1 < 2^63 - 1  excludes every i64 overflow site of
   recompute / distribution / lookup_pvalue (13, 14, 21, 23, 24). *)
From Coq Require Import ZArith QArith Qround Qabs List Bool Lia Lqa.
From LMBase Require Import Res ListX.
From LMTfm Require Import TfmNum TfmModel TfmSpec TfmProofs TfmTotal TfmOverflow.
Import ListNotations.
Open Scope Q_scope.

Lemma zin_Zsum_bnd B l :
  zin (- B) B l -> (- (Z.of_nat (length l) * B) <= Zsum l <= Z.of_nat (length l) * B)%Z.
Proof.
  induction 1 as [|a l Ha Hl IH]; cbn [Zsum length]; [lia|].
  rewrite Nat2Z.inj_succ. lia.
Qed.

(* error_max is summed from row 1: at most M - 1 *)
Lemma recompute_emax_le rows perm g G :
  0 < g -> perm <> [] -> recompute NumQ rows perm g = Ok G ->
  0 <= g_emax G /\ g_emax G <= inject_Z (Z.of_nat (length perm)) - 1.
Proof.
  intros Hg Hperm Hrec.
  destruct (recompute_Q_geom _ _ _ _ Hrec) as [prow [Hp [_ [_ [_ [_ [Hne [_ [_ Hem]]]]]]]]].
  destruct (permuted_rows_spec _ _ _ Hp) as [Hplen _].
  rewrite combine_map_self, tl_map in Hem.
  apply error_max_from_Q in Hem; auto; [|apply Forall_tl; auto].
  destruct Hem as [Em0 [Em1 _]].
  destruct prow as [|r0 prest].
  { simpl in Hplen. destruct perm; [congruence|discriminate]. }
  cbn [tl] in Em1.
  assert (HL : inject_Z (Z.of_nat (length perm)) == inject_Z (Z.of_nat (length prest)) + 1).
  { rewrite <- Hplen. cbn [length]. rewrite Nat2Z.inj_succ. unfold Z.succ.
    rewrite inject_Z_plus. reflexivity. }
  split; [lra|rewrite HL; lra].
Qed.

Theorem pv_next_no_overflow_closed rows perm bg score g B n :
  (0 <= B)%Z -> perm <> [] -> 0 < g ->
  cells_boundedQ B rows g -> Qabs score / g <= inject_Z B ->
  ((2 * Z.of_nat (length perm) + 1) * B + Z.of_nat (length perm) + 1 < i64_max)%Z ->
  pv_next NumQ rows perm bg score g = Panic n ->
  (n <> 13 /\ n <> 14 /\ n <> 21 /\ n <> 23 /\ n <> 24)%nat.
Proof.
  intros HB Hperm Hg Hc Hs Hbig.
  set (M := Z.of_nat (length perm)) in *.
  assert (HM1 : (1 <= M)%Z).
  { unfold M. destruct perm; [congruence|]. cbn [length]. lia. }
  assert (HMB : (0 <= M * B)%Z) by (apply Z.mul_nonneg_nonneg; lia).
  assert (H2 : (2 * B <= i64_max)%Z) by nia.
  assert (H2M : (2 * M * B <= i64_max)%Z) by nia.
  apply (pv_next_no_overflow_Q rows perm bg score g B n HB H2 H2M Hg Hc).
  intros G osum HG Eo.
  destruct (recompute_emax_le rows perm g G Hg Hperm HG) as [Em0 Em1]. fold M in Em1.
  destruct (recompute_ok_bounds NumQ rows perm g B G HB H2 (raw_bounded_Q B rows perm g Hg Hc) HG)
    as [_ [Hoff [_ [_ [_ [Lo _]]]]]].
  apply sum_i64_ok in Eo. rewrite Z.add_0_l in Eo.
  pose proof (zin_Zsum_bnd B (g_off G) Hoff) as Hos. rewrite Lo in Hos. fold M in Hos. rewrite <- Eo in Hos.
  assert (Hsg : score / g <= inject_Z B).
  { eapply Qle_trans; [|exact Hs]. rewrite <- (Qabs_div_pos score g Hg). apply Qle_Qabs. }
  assert (Hle : score / g + inject_Z osum + g_emax G + 1 <= inject_Z (B + M * B + M)).
  { rewrite !inject_Z_plus.
    assert (inject_Z osum <= inject_Z (M * B)) by (rewrite <- Zle_Qle; lia). lra. }
  apply Qfloor_resp_le in Hle. rewrite Qfloor_Z in Hle. nia.
Qed.
