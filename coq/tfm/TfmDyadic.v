(* Convergence of TFM-PVALUE on matrices whose cells are multiples of the granularity
   (exact arithmetic).

   The granularity g is "integral for the matrix" when every symbol cell x has x / g an
   integer ([cells_integral]).  Then
     [recompute_emax_integral]      error_max == 0;
     [sc_next_converged_integral]   ScoresIterator::next always reports `converged`;
     [pv_next_converged_integral]   PvaluesIterator::next reports `converged` unless some
                                    attainable score S has score - 2 g < S <= score - g.
   A matrix and a query with at most e binary digits after the point ([dyadic_cells],
   [dyadic_q]) make g = 10^-n integral for n = max e 1 (10^n = 2^n 5^n), and no attainable
   score lies in that window; hence the runs of approximate_pvalue / approximate_score have
   at most n iterations ([pv_run_converges_dyadic], [pv_run_length_dyadic],
   [sc_run_converges_dyadic], [sc_run_length_dyadic]) and pvalue() / score() return with
   any fuel >= n ([pvalue_fuel_terminates_dyadic], [score_fuel_terminates_dyadic]). *)
From Coq Require Import ZArith QArith Qround List Bool Lia Lqa Sorted Permutation.
From LMBase Require Import Res ListX.
From LMTfm Require Import TfmNum TfmModel TfmSpec TfmProofs TfmScore TfmDist TfmPerm TfmMain TfmRun
  TfmAdequate TfmConverge TfmFinal TfmFinalProofs.
Import ListNotations.
Open Scope Q_scope.

(* ------------------------------------------------------------------ *)
(** * Integral granularities *)

Definition cells_integral (rows : list (list Q)) (g : Q) : Prop :=
  forall r x, In r rows -> In x (cells r) -> x / g == inject_Z (Qfloor (x / g)).

Lemma integral_of_Z (y : Q) (z : Z) : y == inject_Z z -> y == inject_Z (Qfloor y).
Proof. intros E. rewrite E at 2. rewrite Qfloor_Z. exact E. Qed.

Lemma cells_integral_ext rows g g' : g == g' -> cells_integral rows g -> cells_integral rows g'.
Proof.
  intros E H r x Hr Hx. specialize (H r x Hr Hx).
  apply (integral_of_Z _ (Qfloor (x / g))). rewrite <- E. exact H.
Qed.

(* ------------------------------------------------------------------ *)
(** * (A) error_max vanishes *)

Lemma max_by_pc_zero (acc : Q) (l : list Q) :
  acc == 0 -> (forall y, In y l -> y == 0) -> max_by_pc NumQ acc l == 0.
Proof.
  intros Ha Hl. destruct (max_by_pc_Q acc l) as [Hin _].
  destruct Hin as [<-|Hin]; [exact Ha|exact (Hl _ Hin)].
Qed.

Lemma error_max_from_zero g (rs : list (list Q)) : forall acc em,
  (forall r x, In r rs -> In x (cells r) -> cell_err g x == 0) ->
  error_max_from NumQ g acc (map (fun r => (r, raw_int_row NumQ g r)) rs) = Ok em ->
  em == acc.
Proof.
  induction rs as [|r rest IH]; intros acc em Hz H; cbn [map error_max_from] in H.
  - inversion H. reflexivity.
  - apply rbind_ok in H. destruct H as [e [He H]].
    assert (E0 : e == 0).
    { rewrite raw_int_row_Q in He. unfold row_max_err in He. rewrite row_errs_Q in He.
      destruct (cells r) as [|x0 cs] eqn:Ecs; [discriminate|].
      cbn [map] in He. inversion He; subst e; clear He.
      apply max_by_pc_zero.
      - apply (Hz r x0); [left; reflexivity|rewrite Ecs; left; reflexivity].
      - intros y Hy. apply in_map_iff in Hy. destruct Hy as [x [<- Hx]].
        apply (Hz r x); [left; reflexivity|rewrite Ecs; right; exact Hx]. }
    apply IH in H.
    + rewrite H. cbn [NumQ n_add]. rewrite E0. ring.
    + intros r' x Hr' Hx. apply (Hz r' x); [right; exact Hr'|exact Hx].
Qed.

Theorem recompute_emax_integral : forall rows perm g G,
  cells_integral rows g ->
  recompute NumQ rows perm g = Ok G -> g_emax G == 0.
Proof.
  intros rows perm g G Hint Hrec.
  destruct (recompute_Q_geom _ _ _ _ Hrec) as [prow [Hp [_ [_ [_ [_ [_ [_ [_ Hem]]]]]]]]].
  destruct (permuted_rows_spec _ _ _ Hp) as [_ [Hpin _]].
  rewrite combine_map_self, tl_map in Hem.
  apply error_max_from_zero in Hem; [exact Hem|].
  intros r x Hr Hx. unfold cell_err, qfl.
  assert (Hr' : In r rows).
  { rewrite Forall_forall in Hpin. apply Hpin. destruct prow as [|r0 pr]; [destruct Hr|right; exact Hr]. }
  rewrite <- (Hint r x Hr' Hx). ring.
Qed.

(* ------------------------------------------------------------------ *)
(** * (D) ScoresIterator::next at an integral granularity *)

(* alpha_e is strictly below alpha unless the window was exhausted *)
Lemma lookup_score_alpha_strict G (bg : list Q) p mn mx o ir :
  lookup_score NumQ G bg p mn mx = Ok o ->
  dist_exact ir mn mx (last (ls_rows o) []) ->
  (ls_alpha_e o < ls_alpha o)%Z \/ ls_exhausted o = true.
Proof.
  intros Hlook Hdist.
  unfold lookup_score in Hlook. cbn [NumQ n_isnan] in Hlook.
  apply rbind_ok in Hlook. destruct Hlook as [rowsq [Hdistr Hlook]].
  set (lastm := last rowsq []) in *.
  destruct (length lastm) as [|top] eqn:Elen; [discriminate|].
  apply rbind_ok in Hlook. destruct Hlook as [[[riter sum] pvs] [Hloop Hlook]].
  apply rbind_ok in Hlook. destruct Hlook as [[[[a ae] pvs'] exh] [Hsel Hlook]].
  apply rbind_ok in Hlook. destruct Hlook as [pa [Hpa Hlook]].
  apply rbind_ok in Hlook. destruct Hlook as [pe [Hpe Hlook]].
  inversion Hlook; subst o; clear Hlook. cbn [ls_alpha ls_alpha_e ls_rows ls_exhausted] in *.
  fold lastm in Hdist.
  destruct (dist_exact_keys _ _ _ _ Hdist) as [Hsort _].
  destruct (gt NumQ sum p).
  - apply rbind_ok in Hsel. destruct Hsel as [ae0 [Hae0 Hsel]].
    apply rbind_ok in Hsel. destruct Hsel as [a0 [Ha0 Hsel]]. inversion Hsel; subst.
    apply key_at_ok in Hae0. destruct Hae0 as [v1 H1]. apply key_at_ok in Ha0. destruct Ha0 as [v2 H2].
    left.
    eapply (sorted_nth_lt (map fst lastm) Hsort riter (S riter)); eauto using nth_error_map_fst.
  - destruct riter as [|r'].
    + apply rbind_ok in Hsel. destruct Hsel as [a0 [Ha0 Hsel]]. inversion Hsel; subst. right. reflexivity.
    + apply rbind_ok in Hsel. destruct Hsel as [a0 [Ha0 Hsel]].
      apply rbind_ok in Hsel. destruct Hsel as [ae0 [Hae0 Hsel]]. inversion Hsel; subst.
      apply key_at_ok in Hae0. destruct Hae0 as [v1 H1]. apply key_at_ok in Ha0. destruct Ha0 as [v2 H2].
      left.
      eapply (sorted_nth_lt (map fst lastm) Hsort r' (S r')); eauto using nth_error_map_fst.
Qed.

(* `if (alpha - alpha_e) as f64 > error_max`: with error_max < 1 the test always succeeds
   on two distinct keys, so every step of approximate_score is converged *)
Lemma sc_next_converged_small_emax : forall rows perm bg K p g win it,
  matrix_ok K rows bg -> (2 <= length rows)%nat -> length perm = length rows ->
  (fst win <= snd win + 1)%Z ->
  (forall G, recompute NumQ rows perm g = Ok G -> g_emax G < 1) ->
  sc_next NumQ rows perm bg p g win = Ok it -> io_conv it = true.
Proof.
  intros rows perm bg K p g win it Hok HM Hperm Hwin Hsmall H. unfold sc_next in H.
  apply rbind_ok in H. destruct H as [G [Hrec H]].
  apply rbind_ok in H. destruct H as [o [Hlook H]].
  apply rbind_ok in H. destruct H as [osum [_ H]].
  destruct (negb _); [discriminate|].
  inversion H; subst it; clear H. cbn [io_conv].
  pose proof (Hsmall G Hrec) as Em.
  destruct (recompute_cells _ _ _ _ _ _ Hok Hrec) as [Hcells [Hmaxr HlenG]].
  destruct (matrix_ok_bg _ _ _ Hok) as [Hunit Hbl].
  pose proof (lookup_score_rows _ _ _ _ _ _ Hlook) as Hrows.
  assert (Hdist : dist_exact (irows (g_int G) bg) (fst win) (snd win) (last (ls_rows o) [])).
  { apply (distribution_exact G bg _ _ (ls_rows o) (K - 1)%nat Hrows);
      [lia|exact Hcells|exact Hmaxr|exact Hunit|exact Hbl|exact Hwin]. }
  assert (E : ls_start o = ls_end o).
  { destruct (lookup_score_alpha_strict _ _ _ _ _ _ _ Hlook Hdist) as [Hlt|Hexh].
    - apply (lookup_score_gap_point G bg p _ _ o Hlook).
      apply Qlt_le_trans with 1; [exact Em|].
      change 1 with (inject_Z 1). rewrite <- Zle_Qle. lia.
    - exact (lookup_score_exhausted_point G bg p _ _ o Hlook Hexh). }
  rewrite E. apply feq_refl.
Qed.

(* At an integral granularity every step of approximate_score is converged: the two
   returned keys differ by at least 1 > error_max = 0 (or the window was exhausted).
   No hypothesis on p. *)
Theorem sc_next_converged_integral : forall rows perm bg K p g win it,
  matrix_ok K rows bg -> (2 <= length rows)%nat -> length perm = length rows -> 0 < g ->
  (fst win <= snd win + 1)%Z ->
  cells_integral rows g ->
  sc_next NumQ rows perm bg p g win = Ok it -> io_conv it = true.
Proof.
  intros rows perm bg K p g win it Hok HM Hperm Hg Hwin Hint H.
  apply (sc_next_converged_small_emax rows perm bg K p g win it Hok HM Hperm Hwin); [|exact H].
  intros G Hrec. rewrite (recompute_emax_integral rows perm g G Hint Hrec). reflexivity.
Qed.

(* The same for every matrix with two rows (error_max is the rounding error of one row,
   < 1): approximate_score on a 2-row matrix stops at its first iteration. *)
Theorem sc_next_converged_two_rows : forall rows perm bg K p g win it,
  matrix_ok K rows bg -> length rows = 2%nat -> length perm = 2%nat -> 0 < g ->
  (fst win <= snd win + 1)%Z ->
  sc_next NumQ rows perm bg p g win = Ok it -> io_conv it = true.
Proof.
  intros rows perm bg K p g win it Hok HM Hperm Hg Hwin H.
  apply (sc_next_converged_small_emax rows perm bg K p g win it Hok); [lia|lia|exact Hwin| |exact H].
  intros G Hrec.
  destruct (recompute_Q_geom _ _ _ _ Hrec) as [prow [Hp [_ [_ [_ [_ [Hne [_ [_ Hem]]]]]]]]].
  destruct (permuted_rows_spec _ _ _ Hp) as [Hplen _].
  destruct prow as [|r0 [|r1 [|r2 pr]]]; cbn [length] in Hplen; try lia.
  cbn [map combine tl error_max_from] in Hem.
  apply rbind_ok in Hem. destruct Hem as [e [He Hem]]. inversion Hem; subst; clear Hem.
  inversion Hne as [|? ? _ Hne']; subst. inversion Hne' as [|? ? Hne1 _]; subst.
  rewrite raw_int_row_Q in He.
  destruct (row_max_err_Q g r1 e Hg Hne1 He) as [_ [E1 _]].
  cbn [NumQ n_add]. lra.
Qed.

(* ------------------------------------------------------------------ *)
(** * (B) PvaluesIterator::next at an integral granularity *)

(* the cells of a word of the permuted matrix are cells of the matrix *)
Lemma attain_perm_cells rows perm (bg : list Q) : forall l,
  attain l (srows (perm_cells rows perm) bg) ->
  Forall (fun x => exists r, In r rows /\ In x (cells r)) l.
Proof.
  unfold perm_cells, srows. induction perm as [|p perm' IH]; intros l H; cbn [map] in H.
  - inversion H. constructor.
  - inversion H as [|x r l' rs' Hx Hrest]; subst. constructor; [|apply IH; exact Hrest].
    apply in_map_fst_combine in Hx.
    destruct (Nat.lt_ge_cases p (length rows)) as [Hlt|Hge].
    + exists (nth p rows []). split; [apply nth_In; exact Hlt|exact Hx].
    + rewrite (nth_overflow rows [] Hge) in Hx. destruct Hx.
Qed.

Lemma Qsum_integral (g : Q) (l : list Q) :
  ~ g == 0 -> Forall (fun x => exists z : Z, x / g == inject_Z z) l ->
  exists z : Z, Qsum l / g == inject_Z z.
Proof.
  intros Hg. induction 1 as [|x r [z Hz] _ [zr Hzr]]; cbn [Qsum].
  - exists 0%Z. unfold Qdiv. rewrite Qmult_0_l. reflexivity.
  - exists (z + zr)%Z. rewrite (Qdiv_plus_distr _ _ _ Hg), Hz, Hzr, inject_Z_plus. reflexivity.
Qed.

Lemma word_integral rows perm (bg : list Q) g l :
  0 < g -> cells_integral rows g ->
  attain l (srows (perm_cells rows perm) bg) ->
  exists z : Z, Qsum l / g == inject_Z z.
Proof.
  intros Hg Hint Hl. apply Qsum_integral; [lra|].
  pose proof (attain_perm_cells rows perm bg l Hl) as F.
  rewrite Forall_forall in F |- *. intros x Hx. destruct (F x Hx) as [r [Hr Hxr]].
  exists (Qfloor (x / g)). exact (Hint r x Hr Hxr).
Qed.

(* a word whose integer score k lies in [mn, avg) at an integral granularity has its
   real score in (score - 2 g, score - g] *)
Lemma integral_arith (g Sw score E : Q) (osum k avg mn z : Z) :
  0 < g -> E == 0 ->
  avg = Qfloor (score / g + inject_Z osum) ->
  mn = Qfloor (score / g + inject_Z osum - E - 1) ->
  (k < avg)%Z -> (mn <= k)%Z ->
  Sw / g == inject_Z z ->
  0 <= Sw / g + inject_Z osum - inject_Z k -> Sw / g + inject_Z osum - inject_Z k < E + 1 ->
  score - 2 * g < Sw /\ Sw <= score - g.
Proof.
  intros Hg HE Havg Hmn Hk1 Hk2 Hz H0 H1.
  pose proof (Qfloor_le (score / g + inject_Z osum)) as F1. rewrite <- Havg in F1.
  pose proof (Qlt_floor (score / g + inject_Z osum)) as F2. rewrite <- Havg in F2.
  pose proof (Qlt_floor (score / g + inject_Z osum - E - 1)) as F3. rewrite <- Hmn in F3.
  rewrite inject_Z_plus in F2, F3. change (inject_Z 1) with 1 in F2, F3.
  assert (E1 : Sw == Sw / g * g) by (field; lra).
  assert (E2 : score == score / g * g) by (field; lra).
  rewrite Hz in H0, H1.
  (* the integer z + osum - k lies in [0, 1) *)
  assert (Z0 : (0 <= z + osum - k)%Z).
  { rewrite Zle_Qle. rewrite inject_Z_minus, inject_Z_plus. exact H0. }
  assert (Z1 : (z + osum - k < 1)%Z).
  { rewrite Zlt_Qlt. rewrite inject_Z_minus, inject_Z_plus. change (inject_Z 1) with 1. lra. }
  (* avg - 1 < mn + 1 *)
  assert (Z2 : (avg - 1 < mn + 1)%Z).
  { rewrite Zlt_Qlt. rewrite inject_Z_minus, inject_Z_plus. change (inject_Z 1) with 1. lra. }
  assert (Ez : z = (avg - 1 - osum)%Z) by lia.
  assert (Ez' : inject_Z z == inject_Z avg - 1 - inject_Z osum).
  { rewrite Ez, !inject_Z_minus. reflexivity. }
  set (u := Sw / g) in *. set (v := score / g) in *.
  assert (A1 : u <= v - 1) by lra.
  assert (A2 : v - 2 < u) by lra.
  rewrite E1, E2. split; nra.
Qed.

Lemma lookup_pvalue_integral_point rows perm bg K g G score o :
  matrix_ok K rows bg -> (2 <= length rows)%nat -> length perm = length rows -> 0 < g ->
  cells_integral rows g ->
  recompute NumQ rows perm g = Ok G ->
  lookup_pvalue NumQ G bg score = Ok o ->
  let cs := perm_cells rows perm in
  (forall l, attain l (srows cs bg) -> ~ (score - 2 * g < Qsum l /\ Qsum l <= score - g)) ->
  pv_min o = pv_max o.
Proof.
  intros Hok HM Hperm Hg Hintg Hrec Hlook cs Hiso.
  assert (Hpne : perm <> []) by (intros E; rewrite E in Hperm; simpl in Hperm; lia).
  pose proof (recompute_emax_integral rows perm g G Hintg Hrec) as Em.
  destruct (recompute_cells _ _ _ _ _ _ Hok Hrec) as [Hcells [Hmaxr HlenG]].
  destruct (matrix_ok_bg _ _ _ Hok) as [Hunit Hbl].
  destruct (recompute_Q_geom _ _ _ _ Hrec) as [prow [Hp [Hgran [Hg1 [Hint [Hoff [Hne [_ [_ Hem]]]]]]]]].
  destruct (permuted_rows_spec _ _ _ Hp) as [Hplen [Hpin Hcs]].
  fold cs in Hcs. rewrite Hcs in Hint.
  assert (Em0 : 0 <= g_emax G) by (rewrite Em; lra).
  (* open the lookup *)
  unfold lookup_pvalue in Hlook. cbn [NumQ n_isnan n_add n_sub n_div n_ofZ n_floorZ n_one n_zero] in Hlook.
  apply rbind_ok in Hlook. destruct Hlook as [osum [Hosum Hlook]].
  apply rbind_ok in Hlook. destruct Hlook as [rowsq [Hd Hlook]].
  apply sum_i64_ok in Hosum. rewrite Z.add_0_l in Hosum.
  rewrite Hgran in Hlook, Hd.
  set (scaled := score / g + inject_Z osum) in *.
  set (avg := Qfloor scaled) in *.
  set (mx := Qfloor (scaled + g_emax G + 1)) in *.
  set (mn := Qfloor (scaled - g_emax G - 1)) in *.
  set (lastm := last rowsq []) in *.
  destruct (floor_window scaled (g_emax G) Em0) as [Hmnmx Havgmx].
  fold mn in Hmnmx. fold mx in Hmnmx, Havgmx. fold avg in Havgmx.
  assert (HlG : (2 <= length (g_int G))%nat) by lia.
  pose proof (distribution_exact G bg mn mx rowsq (K - 1)%nat Hd HlG Hcells Hmaxr Hunit Hbl Hmnmx) as Hdist.
  pose proof (distribution_keys_attainable G bg mn mx rowsq (K - 1)%nat Hd HlG Hcells Hmaxr Hunit Hbl Hmnmx) as Hatt.
  fold lastm in Hdist, Hatt.
  destruct (dist_exact_keys _ _ _ _ Hdist) as [Hsort _].
  destruct Hdist as [body [vb [Hl [_ [Hbody _]]]]].
  rewrite Hl, removelast_last in Hatt.
  assert (Hmax : forall k, In k (map fst lastm) -> (k <= mx + 1)%Z).
  { intros k Hk. rewrite Hl, map_app in Hk. apply in_app_or in Hk. destruct Hk as [Hk|[<-|[]]]; [|cbn [fst]; lia].
    apply in_map_iff in Hk. destruct Hk as [kv' [<- Hkv']]. destruct (Hbody _ Hkv') as [B _]. lia. }
  destruct (key_below_s lastm avg (mx + 1)%Z Hsort Hmax) as [Hsmx Hbelow].
  cbv zeta in Hsmx, Hbelow.
  destruct (fm_get _ _) as [pmin|] eqn:Hget; [|discriminate].
  destruct (walk_down _ _ _) as [kv|] eqn:Hwalk; [|discriminate].
  inversion Hlook; subst o; clear Hlook. cbn [pv_min pv_max].
  f_equal. symmetry.
  refine (table_one_point lastm _ _ pmin kv Hsort _ Hget Hwalk).
  (* no key below s *)
  intros k Hk Hks.
  pose proof (Hbelow k Hk Hks) as Hkavg.
  assert (Hkb : In k (map fst body)).
  { rewrite Hl, map_app in Hk. apply in_app_or in Hk. destruct Hk as [Hk|[E|[]]]; [exact Hk|cbn [fst] in E; lia]. }
  assert (Hkmn : (mn <= k)%Z).
  { apply in_map_iff in Hkb. destruct Hkb as [kv' [<- Hkv']]. destruct (Hbody _ Hkv') as [B _]. lia. }
  destruct (Hatt k Hkb) as [l [Hl1 Hl2]].
  rewrite Hint in Hl1. apply attain_irows_jrows in Hl1. destruct Hl1 as [lj [Hj1 Hj2]].
  destruct (int_score_error_fine rows perm bg K g G lj Hok Hg Hpne Hrec Hj1) as [E0 [E1 [E2 E3]]].
  rewrite Hj2, Hl2, <- Hosum in E0, E1.
  pose proof (attain_jrows_srows g bg cs lj Hj1) as Hw.
  apply (Hiso _ Hw).
  destruct (word_integral rows perm bg g _ Hg Hintg Hw) as [z Hz].
  exact (integral_arith g _ score (g_emax G) osum k avg mn z Hg Em eq_refl eq_refl Hkavg Hkmn Hz E0 E1).
Qed.

(* At an integral granularity a step of approximate_pvalue is converged unless some
   attainable score S lies in (score - 2 g, score - g]. *)
Theorem pv_next_converged_integral : forall rows perm bg K g score it,
  matrix_ok K rows bg -> (2 <= length rows)%nat -> length perm = length rows -> 0 < g ->
  cells_integral rows g ->
  pv_next NumQ rows perm bg score g = Ok it ->
  let cs := perm_cells rows perm in
  (forall l, attain l (srows cs bg) -> ~ (score - 2 * g < Qsum l /\ Qsum l <= score - g)) ->
  io_conv it = true.
Proof.
  intros rows perm bg K g score it Hok HM Hperm Hg Hintg H cs Hiso. unfold pv_next in H.
  apply rbind_ok in H. destruct H as [G [Hrec H]].
  apply rbind_ok in H. destruct H as [o [Hlook H]].
  inversion H; subst it; clear H. cbn [io_conv].
  rewrite (lookup_pvalue_integral_point rows perm bg K g G score o Hok HM Hperm Hg Hintg Hrec Hlook Hiso).
  apply feq_refl.
Qed.

(* ------------------------------------------------------------------ *)
(** * Dyadic matrices: 10^-n is integral for n >= the number of binary digits *)

(* x has at most e binary digits after the point *)
Definition dyadic_q (e : nat) (x : Q) : Prop :=
  exists z : Z, x * inject_Z (2 ^ Z.of_nat e) == inject_Z z.

Definition dyadic_cells (e : nat) (rows : list (list Q)) : Prop :=
  forall r x, In r rows -> In x (cells r) -> dyadic_q e x.

(* the granularity of the iteration of index n-1 of the run started at 1/10 is 10^-n *)
Lemma gran_inv n : (1 <= n)%nat -> (1 # 10) / pow10 (n - 1) == / pow10 n.
Proof.
  intros Hn. replace n with (S (n - 1)) at 2 by lia. rewrite pow10_S.
  pose proof (pow10_pos (n - 1)). field. lra.
Qed.

Lemma pow2_pos e : 0 < inject_Z (2 ^ Z.of_nat e).
Proof. change 0 with (inject_Z 0). rewrite <- Zlt_Qlt. apply Z.pow_pos_nonneg; lia. Qed.

Lemma pow_2_10 n : (1 <= n)%nat -> (2 * 2 ^ Z.of_nat n < 10 ^ Z.of_nat n)%Z.
Proof.
  induction n as [|n IH]; intros Hn; [lia|].
  destruct n as [|n'].
  - reflexivity.
  - rewrite Nat2Z.inj_succ. rewrite !Z.pow_succ_r by lia.
    assert (H : (2 * 2 ^ Z.of_nat (S n') < 10 ^ Z.of_nat (S n'))%Z) by (apply IH; lia).
    lia.
Qed.

Lemma pow10_split n e : (e <= n)%nat ->
  (10 ^ Z.of_nat n = 2 ^ Z.of_nat e * (2 ^ Z.of_nat (n - e) * 5 ^ Z.of_nat n))%Z.
Proof.
  intros Hle. rewrite Z.mul_assoc, <- Z.pow_add_r by lia.
  replace (Z.of_nat e + Z.of_nat (n - e))%Z with (Z.of_nat n) by lia.
  rewrite <- Z.pow_mul_l. reflexivity.
Qed.

Lemma dyadic_integral e n (x : Q) :
  (e <= n)%nat -> (1 <= n)%nat -> dyadic_q e x ->
  exists z : Z, x / ((1 # 10) / pow10 (n - 1)) == inject_Z z.
Proof.
  intros Hen Hn [z Hz].
  exists (z * (2 ^ Z.of_nat (n - e) * 5 ^ Z.of_nat n))%Z.
  rewrite (gran_inv n Hn). pose proof (pow10_pos n) as Hp.
  assert (E : x / / pow10 n == x * pow10 n) by (field; lra).
  rewrite E. unfold pow10. rewrite (pow10_split n e Hen).
  set (w := (2 ^ Z.of_nat (n - e) * 5 ^ Z.of_nat n)%Z).
  rewrite !inject_Z_mult, Qmult_assoc, Hz. reflexivity.
Qed.

Lemma dyadic_cells_integral e n rows :
  (e <= n)%nat -> (1 <= n)%nat -> dyadic_cells e rows ->
  cells_integral rows ((1 # 10) / pow10 (n - 1)).
Proof.
  intros Hen Hn Hd r x Hr Hx.
  destruct (dyadic_integral e n x Hen Hn (Hd r x Hr Hx)) as [z Hz].
  exact (integral_of_Z _ z Hz).
Qed.

Lemma dyadic_q_plus e x y : dyadic_q e x -> dyadic_q e y -> dyadic_q e (x + y).
Proof.
  intros [a Ha] [b Hb]. exists (a + b)%Z. rewrite inject_Z_plus, <- Ha, <- Hb. ring.
Qed.

Lemma dyadic_q_minus e x y : dyadic_q e x -> dyadic_q e y -> dyadic_q e (x - y).
Proof.
  intros [a Ha] [b Hb]. exists (a - b)%Z. rewrite inject_Z_minus, <- Ha, <- Hb. ring.
Qed.

Lemma dyadic_Qsum e l : Forall (dyadic_q e) l -> dyadic_q e (Qsum l).
Proof.
  induction 1 as [|x r Hx _ IH]; cbn [Qsum].
  - exists 0%Z. ring.
  - apply dyadic_q_plus; assumption.
Qed.

Lemma dyadic_word e rows perm (bg : list Q) l :
  dyadic_cells e rows -> attain l (srows (perm_cells rows perm) bg) -> dyadic_q e (Qsum l).
Proof.
  intros Hd Hl. apply dyadic_Qsum.
  pose proof (attain_perm_cells rows perm bg l Hl) as F.
  rewrite Forall_forall in F |- *. intros x Hx. destruct (F x Hx) as [r [Hr Hxr]].
  exact (Hd r x Hr Hxr).
Qed.

(* two numbers with e binary digits are equal or at least 2^-e apart; 2 * 10^-n < 2^-e *)
Lemma dyadic_no_gap e n (score S : Q) :
  (e <= n)%nat -> (1 <= n)%nat -> dyadic_q e score -> dyadic_q e S ->
  let g := (1 # 10) / pow10 (n - 1) in
  ~ (score - 2 * g < S /\ S <= score - g).
Proof.
  intros Hen Hn Hsc HS g [H1 H2].
  destruct (dyadic_q_minus e _ _ Hsc HS) as [z Hz].
  pose proof (pow2_pos e) as HP2. pose proof (pow10_pos n) as HP10.
  assert (Hg : g == / pow10 n) by (apply gran_inv; exact Hn).
  assert (Hgp : 0 < g) by (apply gran_pos).
  assert (Hg10 : g * pow10 n == 1) by (rewrite Hg; field; lra).
  assert (Hlt : 2 * inject_Z (2 ^ Z.of_nat e) < pow10 n).
  { unfold pow10. change 2 with (inject_Z 2) at 1. rewrite <- inject_Z_mult, <- Zlt_Qlt.
    pose proof (pow_2_10 n Hn).
    assert ((2 ^ Z.of_nat e <= 2 ^ Z.of_nat n)%Z) by (apply Z.pow_le_mono_r; lia). lia. }
  set (P2 := inject_Z (2 ^ Z.of_nat e)) in *. set (P10 := pow10 n) in *.
  set (d := score - S) in *.
  assert (Hd1 : g <= d) by (unfold d; lra).
  assert (Hd2 : d < 2 * g) by (unfold d; lra).
  (* z >= 1 *)
  assert (Hz0 : 0 < inject_Z z).
  { rewrite <- Hz. apply Qmult_lt_0_compat; lra. }
  change 0 with (inject_Z 0) in Hz0. rewrite <- Zlt_Qlt in Hz0.
  assert (Hz1 : 1 <= d * P2).
  { rewrite Hz. change 1 with (inject_Z 1). rewrite <- Zle_Qle. lia. }
  (* d * P10 < 2 *)
  assert (Hd3 : d * P10 < 2).
  { assert (d * P10 < 2 * g * P10) by (apply Qmult_lt_compat_r; lra).
    assert (2 * g * P10 == 2) by (rewrite <- Qmult_assoc, Hg10; ring). lra. }
  assert (Hd4 : d * (2 * P2) < d * P10) by (apply Qmult_lt_l; lra).
  lra.
Qed.

(* ------------------------------------------------------------------ *)
(** * (C) approximate_pvalue on a dyadic matrix and query *)

(* the element of index i of a run is a call of next() at granularity g / 10^i *)
Lemma pv_run_nth_next : forall steps rows perm bg score g i it,
  0 < g ->
  nth_error (pv_run NumQ steps rows perm bg score g) i = Some (Ok it) ->
  exists g', g' == g / pow10 i /\ 0 < g' /\ pv_next NumQ rows perm bg score g' = Ok it.
Proof.
  induction steps as [|n IH]; intros rows perm bg score g i it Hg H; cbn [pv_run] in H.
  - destruct i; discriminate.
  - rewrite (le_pos_false g Hg) in H.
    destruct (pv_next NumQ rows perm bg score g) as [it0| | |] eqn:Enext;
      try (destruct i as [|[|i]]; discriminate).
    destruct i as [|i]; cbn [nth_error] in H.
    + inversion H; subst it0. exists g. split; [rewrite pow10_0; field|]. split; [exact Hg|exact Enext].
    + destruct (io_conv it0); [destruct i; discriminate|].
      destruct (div10_pos g Hg) as [D1 _].
      destruct (IH _ _ _ _ _ _ _ D1 H) as [g' [E [Hg' Hn]]].
      exists g'. split; [|split; [exact Hg'|exact Hn]].
      rewrite E. cbn [NumQ n_div n_ten]. rewrite pow10_S. pose proof (pow10_pos i). field. lra.
Qed.

Lemma max1_facts e : (e <= Nat.max e 1)%nat /\ (1 <= Nat.max e 1)%nat.
Proof. lia. Qed.

(* `approximate_pvalue(score)` on a matrix and a query with at most e binary digits: the
   iteration of index max(e,1) - 1 (granularity 10^-max(e,1)) is converged *)
Theorem pv_run_converges_dyadic : forall steps rows perm bg K score e it,
  matrix_ok K rows bg -> (2 <= length rows)%nat -> length perm = length rows ->
  dyadic_cells e rows -> dyadic_q e score ->
  nth_error (pv_run NumQ steps rows perm bg score (1 # 10)) (Nat.max e 1 - 1) = Some (Ok it) ->
  io_conv it = true.
Proof.
  intros steps rows perm bg K score e it Hok HM Hperm Hdc Hds H.
  destruct (max1_facts e) as [Hen Hn]. set (n := Nat.max e 1) in *.
  destruct (pv_run_nth_next steps rows perm bg score (1 # 10) (n - 1) it ltac:(reflexivity) H)
    as [g' [E [Hg' Hnext]]].
  apply (pv_next_converged_integral rows perm bg K g' score it Hok HM Hperm Hg').
  - apply (cells_integral_ext rows ((1 # 10) / pow10 (n - 1))); [symmetry; exact E|].
    exact (dyadic_cells_integral e n rows Hen Hn Hdc).
  - exact Hnext.
  - intros l Hl. rewrite E.
    exact (dyadic_no_gap e n score (Qsum l) Hen Hn Hds (dyadic_word e rows perm bg l Hdc Hl)).
Qed.

(* ... hence the run has at most max(e,1) elements, whatever happens before *)
Theorem pv_run_length_dyadic : forall steps rows perm bg K score e,
  matrix_ok K rows bg -> (2 <= length rows)%nat -> length perm = length rows ->
  dyadic_cells e rows -> dyadic_q e score ->
  (length (pv_run NumQ steps rows perm bg score (1 # 10)) <= Nat.max e 1)%nat.
Proof.
  intros steps rows perm bg K score e Hok HM Hperm Hdc Hds.
  destruct (max1_facts e) as [_ Hn].
  set (run := pv_run NumQ steps rows perm bg score (1 # 10)).
  destruct (nth_error run (Nat.max e 1 - 1)) as [r|] eqn:E.
  - destruct (is_ok_dec r) as [[it ->]|Hno].
    + unfold run in *.
      rewrite (pv_run_stops steps rows perm bg score (1 # 10) _ it E
                 (pv_run_converges_dyadic steps rows perm bg K score e it Hok HM Hperm Hdc Hds E)). lia.
    + unfold run in *. rewrite (pv_run_nonok_last steps rows perm bg score (1 # 10) _ r E Hno). lia.
  - apply nth_error_None in E. lia.
Qed.

(* `pvalue(score)`: with any fuel >= max(e,1) the loop has returned a value, unless its last
   call of next() failed (a panic of the model) *)
Theorem pvalue_fuel_terminates_dyadic : forall fuel rows perm bg K score e,
  matrix_ok K rows bg -> (2 <= length rows)%nat -> length perm = length rows ->
  dyadic_cells e rows -> dyadic_q e score ->
  (Nat.max e 1 <= fuel)%nat ->
  (exists p, pvalue_fuel NumQ fuel rows perm bg score = Ok p) \/
  (forall it, last (pv_run NumQ fuel rows perm bg score (1 # 10)) OutOfFuel <> Ok it).
Proof.
  intros fuel rows perm bg K score e Hok HM Hperm Hdc Hds Hfuel.
  pose proof (pv_run_length_dyadic fuel rows perm bg K score e Hok HM Hperm Hdc Hds) as Hlen.
  destruct (max1_facts e) as [_ Hn].
  unfold pvalue_fuel, final_of_run. change (n_tenth NumQ) with (1 # 10).
  set (run := pv_run NumQ fuel rows perm bg score (1 # 10)) in *.
  destruct (last run OutOfFuel) as [it| | |] eqn:El; try (right; intros it' E; discriminate).
  left.
  assert (Hc : io_conv it = true).
  { destruct (Nat.lt_ge_cases (length run) fuel) as [Hlt|Hge].
    - apply (pv_run_short fuel rows perm bg score (1 # 10) it OutOfFuel); [reflexivity|exact Hlt|exact El].
    - assert (Hle : length run = S (Nat.max e 1 - 1)) by lia.
      assert (Hnth : nth_error run (Nat.max e 1 - 1) = Some (Ok it))
        by (rewrite <- El; apply last_nth_error; exact Hle).
      exact (pv_run_converges_dyadic fuel rows perm bg K score e it Hok HM Hperm Hdc Hds Hnth). }
  rewrite Hc. cbn [rbind]. eexists; reflexivity.
Qed.

(* ------------------------------------------------------------------ *)
(** * (D) approximate_score on a dyadic matrix *)

Lemma sc_run_nth_next : forall steps rows perm bg K p g win i it,
  matrix_ok K rows bg -> (2 <= length rows)%nat -> length perm = length rows -> 0 < g ->
  (fst win <= snd win + 1)%Z ->
  nth_error (sc_run NumQ steps rows perm bg p g win) i = Some (Ok it) ->
  exists g' win', g' == g / pow10 i /\ 0 < g' /\ (fst win' <= snd win' + 1)%Z /\
                  sc_next NumQ rows perm bg p g' win' = Ok it.
Proof.
  intros steps rows perm bg K p g win i it Hok HM Hperm. revert g win i.
  induction steps as [|n IH]; intros g win i Hg Hwin H; cbn [sc_run] in H.
  - destruct i; discriminate.
  - rewrite (le_pos_false g Hg) in H.
    destruct (sc_next NumQ rows perm bg p g win) as [it0| | |] eqn:Enext;
      try (destruct i as [|[|i]]; discriminate).
    destruct i as [|i]; cbn [nth_error] in H.
    + inversion H; subst it0. exists g, win. split; [rewrite pow10_0; field|].
      split; [exact Hg|]. split; [exact Hwin|exact Enext].
    + destruct (io_conv it0); [destruct i; discriminate|].
      destruct (div10_pos g Hg) as [D1 _].
      pose proof (sc_next_window _ _ _ _ _ _ _ _ Hok HM Hperm Hg Hwin Enext) as Hwin'.
      assert (Hwin'' : (fst (io_win it0) <= snd (io_win it0) + 1)%Z) by lia.
      destruct (IH _ _ _ D1 Hwin'' H) as [g' [win' [E [Hg' [Hw' Hn]]]]].
      exists g', win'. split; [|split; [exact Hg'|split; [exact Hw'|exact Hn]]].
      rewrite E. cbn [NumQ n_div n_ten]. rewrite pow10_S. pose proof (pow10_pos i). field. lra.
Qed.

Lemma sc_run_stops : forall steps rows perm bg p g win i it,
  nth_error (sc_run NumQ steps rows perm bg p g win) i = Some (Ok it) ->
  io_conv it = true ->
  length (sc_run NumQ steps rows perm bg p g win) = S i.
Proof.
  induction steps as [|n IH]; intros rows perm bg p g win i it H Hc; cbn [sc_run] in *.
  - destruct i; discriminate.
  - destruct (le NumQ g (n_zero NumQ)); [destruct i; discriminate|].
    destruct (sc_next NumQ rows perm bg p g win) as [it0| | |] eqn:Enext;
      try (destruct i as [|[|i]]; discriminate).
    destruct i as [|i]; cbn [nth_error] in H.
    + inversion H; subst it0. rewrite Hc. reflexivity.
    + destruct (io_conv it0); [destruct i; discriminate|].
      cbn [length]. f_equal. eapply IH; eauto.
Qed.

Lemma sc_run_nonok_last : forall steps rows perm bg p g win i e,
  nth_error (sc_run NumQ steps rows perm bg p g win) i = Some e ->
  (forall it, e <> Ok it) ->
  length (sc_run NumQ steps rows perm bg p g win) = S i.
Proof.
  induction steps as [|n IH]; intros rows perm bg p g win i e H Hno; cbn [sc_run] in *.
  - destruct i; discriminate.
  - destruct (le NumQ g (n_zero NumQ)); [destruct i; discriminate|].
    destruct (sc_next NumQ rows perm bg p g win) as [it0|c|c|] eqn:Enext.
    + destruct i as [|i]; cbn [nth_error] in H.
      * inversion H; subst e. exfalso. apply (Hno it0). reflexivity.
      * destruct (io_conv it0); [destruct i; discriminate|].
        cbn [length]. f_equal. eapply IH; eauto.
    + destruct i as [|[|i]]; try discriminate. reflexivity.
    + destruct i as [|[|i]]; try discriminate. reflexivity.
    + destruct i as [|[|i]]; try discriminate. reflexivity.
Qed.

(* the initial window of approximate_score is not empty *)
Lemma score_window0_ok rows perm (bg : list Q) K win :
  matrix_ok K rows bg ->
  score_window0 NumQ rows perm = Ok win -> (fst win <= snd win + 1)%Z.
Proof.
  intros Hok Hwin. unfold score_window0 in Hwin.
  apply rbind_ok in Hwin. destruct Hwin as [G [Hrec Hwin]].
  apply rbind_ok in Hwin. destruct Hwin as [mn [Hmn Hwin]].
  apply rbind_ok in Hwin. destruct Hwin as [smax [Hsmax Hwin]].
  destruct (in_i64 _); [|discriminate]. inversion Hwin; subst win; clear Hwin.
  change (n_tenth NumQ) with (1 # 10) in Hrec.
  assert (Hg : 0 < 1 # 10) by reflexivity.
  pose proof (recompute_emax_nonneg _ _ _ _ _ _ Hok Hg Hrec) as Em0.
  pose proof (ceil_half_pos _ Em0) as Hc.
  change (n_ceilZ NumQ (n_add NumQ (g_emax G) (n_half NumQ))) with (Qceiling (g_emax G + (1 # 2))).
  set (c := Qceiling (g_emax G + (1 # 2))) in *. clearbody c.
  cbn [fst snd].
  destruct (recompute_cells _ _ _ _ _ _ Hok Hrec) as [Hcells [Hmaxr HlenG]].
  destruct (matrix_ok_bg _ _ _ Hok) as [Hunit Hbl].
  destruct (recompute_Q_geom _ _ _ _ Hrec) as [prow [_ [_ [_ [_ [_ [_ [Hminr _]]]]]]]].
  assert (HK : (2 <= K)%nat) by (destruct Hok as [HK _]; exact HK).
  apply sum_i64_ok in Hmn. apply sum_i64_ok in Hsmax. rewrite Z.add_0_l in Hmn, Hsmax.
  rewrite Hminr in Hmn. rewrite Hmaxr in Hsmax.
  assert (Hlens : Forall (fun r : list Z => length r = (K - 1)%nat) (g_int G)).
  { eapply Forall_impl; [|exact Hcells]. intros r [Hr _]. exact Hr. }
  destruct (attain_exists (K - 1) (g_int G) bg ltac:(lia) Hbl Hlens) as [l0 Hl0].
  pose proof (attain_irows_bounds _ bg l0 Hl0) as Hb0. lia.
Qed.

(* `approximate_score(p)` on a matrix with at most e binary digits: the iteration of index
   max(e,1) - 1 is converged (no hypothesis on p) *)
Theorem sc_run_converges_dyadic : forall steps rows perm bg K p e win it,
  matrix_ok K rows bg -> (2 <= length rows)%nat -> length perm = length rows ->
  dyadic_cells e rows ->
  score_window0 NumQ rows perm = Ok win ->
  nth_error (sc_run NumQ steps rows perm bg p (1 # 10) win) (Nat.max e 1 - 1) = Some (Ok it) ->
  io_conv it = true.
Proof.
  intros steps rows perm bg K p e win it Hok HM Hperm Hdc Hwin H.
  destruct (max1_facts e) as [Hen Hn]. set (n := Nat.max e 1) in *.
  pose proof (score_window0_ok rows perm bg K win Hok Hwin) as Hw.
  destruct (sc_run_nth_next steps rows perm bg K p (1 # 10) win (n - 1) it Hok HM Hperm ltac:(reflexivity) Hw H)
    as [g' [win' [E [Hg' [Hw' Hnext]]]]].
  apply (sc_next_converged_integral rows perm bg K p g' win' it Hok HM Hperm Hg' Hw'); [|exact Hnext].
  apply (cells_integral_ext rows ((1 # 10) / pow10 (n - 1))); [symmetry; exact E|].
  exact (dyadic_cells_integral e n rows Hen Hn Hdc).
Qed.

Theorem sc_run_length_dyadic : forall steps rows perm bg K p e win,
  matrix_ok K rows bg -> (2 <= length rows)%nat -> length perm = length rows ->
  dyadic_cells e rows ->
  score_window0 NumQ rows perm = Ok win ->
  (length (sc_run NumQ steps rows perm bg p (1 # 10) win) <= Nat.max e 1)%nat.
Proof.
  intros steps rows perm bg K p e win Hok HM Hperm Hdc Hwin.
  destruct (max1_facts e) as [_ Hn].
  set (run := sc_run NumQ steps rows perm bg p (1 # 10) win).
  destruct (nth_error run (Nat.max e 1 - 1)) as [r|] eqn:E.
  - destruct (is_ok_dec r) as [[it ->]|Hno].
    + unfold run in *.
      rewrite (sc_run_stops steps rows perm bg p (1 # 10) win _ it E
                 (sc_run_converges_dyadic steps rows perm bg K p e win it Hok HM Hperm Hdc Hwin E)). lia.
    + unfold run in *. rewrite (sc_run_nonok_last steps rows perm bg p (1 # 10) win _ r E Hno). lia.
  - apply nth_error_None in E. lia.
Qed.

Lemma sc_run_nonempty n rows perm bg p g win : 0 < g -> sc_run NumQ (S n) rows perm bg p g win <> [].
Proof.
  intros Hg. cbn [sc_run]. rewrite (le_pos_false g Hg).
  destruct (sc_next NumQ rows perm bg p g win); discriminate.
Qed.

Lemma sc_run_short : forall fuel rows perm bg p g win it d,
  0 < g -> (length (sc_run NumQ fuel rows perm bg p g win) < fuel)%nat ->
  last (sc_run NumQ fuel rows perm bg p g win) d = Ok it -> io_conv it = true.
Proof.
  induction fuel as [|n IH]; intros rows perm bg p g win it d Hg Hlen Hl; [simpl in Hlen; lia|].
  cbn [sc_run] in Hlen, Hl. rewrite (le_pos_false g Hg) in Hlen, Hl.
  destruct (sc_next NumQ rows perm bg p g win) as [it0| | |] eqn:En; try (simpl in Hl; discriminate).
  destruct (io_conv it0) eqn:Ec0.
  - simpl in Hl. inversion Hl; subst it0. exact Ec0.
  - destruct (div10_pos g Hg) as [D1 _]. cbn [length] in Hlen.
    destruct n as [|n']; [lia|].
    pose proof (sc_run_nonempty n' rows perm bg p _ (io_win it0) D1) as Hne.
    rewrite (last_cons_ne (Ok it0) _ d d Hne) in Hl.
    apply (IH rows perm bg p _ (io_win it0) it d D1); [lia|exact Hl].
Qed.

(* `score(pvalue)`: with any fuel >= max(e,1) the loop has returned a value, unless its last
   call of next() failed *)
Theorem score_fuel_terminates_dyadic : forall fuel rows perm bg K p e win,
  matrix_ok K rows bg -> (2 <= length rows)%nat -> length perm = length rows ->
  dyadic_cells e rows ->
  score_window0 NumQ rows perm = Ok win ->
  (Nat.max e 1 <= fuel)%nat ->
  (exists t, score_fuel NumQ fuel rows perm bg p = Ok t) \/
  (forall it, last (sc_run NumQ fuel rows perm bg p (1 # 10) win) OutOfFuel <> Ok it).
Proof.
  intros fuel rows perm bg K p e win Hok HM Hperm Hdc Hwin Hfuel.
  pose proof (sc_run_length_dyadic fuel rows perm bg K p e win Hok HM Hperm Hdc Hwin) as Hlen.
  destruct (max1_facts e) as [_ Hn].
  unfold score_fuel. rewrite Hwin. cbn [rbind]. unfold final_of_run. change (n_tenth NumQ) with (1 # 10).
  set (run := sc_run NumQ fuel rows perm bg p (1 # 10) win) in *.
  destruct (last run OutOfFuel) as [it| | |] eqn:El; try (right; intros it' E; discriminate).
  left.
  assert (Hc : io_conv it = true).
  { destruct (Nat.lt_ge_cases (length run) fuel) as [Hlt|Hge].
    - apply (sc_run_short fuel rows perm bg p (1 # 10) win it OutOfFuel); [reflexivity|exact Hlt|exact El].
    - assert (Hle : length run = S (Nat.max e 1 - 1)) by lia.
      assert (Hnth : nth_error run (Nat.max e 1 - 1) = Some (Ok it))
        by (rewrite <- El; apply last_nth_error; exact Hle).
      exact (sc_run_converges_dyadic fuel rows perm bg K p e win it Hok HM Hperm Hdc Hwin Hnth). }
  rewrite Hc. cbn [rbind]. eexists; reflexivity.
Qed.

(* ------------------------------------------------------------------ *)
(** * Examples *)

(* The bounds are attained: cells and query with two binary digits, two iterations. *)
Definition dyad_rows : list (list Q) :=
  [[1 # 4; 3 # 4; 0; -1; -100]; [1 # 4; 1 # 2; 0; -1; -100]; [3 # 4; 1 # 4; 0; -1; -100]].
Definition dyad_perm : list nat := [0; 2; 1]%nat.      (* score ranges 7/4, 7/4, 3/2 *)

Lemma dyad_matrix_ok : matrix_ok 5 dyad_rows tie_bg.
Proof.
  unfold matrix_ok, dyad_rows, tie_bg. split; [lia|]. split; [repeat constructor|].
  split; [reflexivity|]. split.
  - intros b Hb. simpl in Hb. repeat (destruct Hb as [<-|Hb]; [discriminate|]). destruct Hb.
  - split; reflexivity.
Qed.

Lemma dyad_rows_dyadic : dyadic_cells 2 dyad_rows.
Proof.
  intros r x Hr Hx. unfold dyad_rows in Hr. simpl in Hr.
  assert (Hq : forall y, In y [1 # 4; 3 # 4; 0; -1; 1 # 2] -> dyadic_q 2 y).
  { intros y Hy. simpl in Hy.
    destruct Hy as [<-|[<-|[<-|[<-|[<-|[]]]]]];
      [exists 1%Z|exists 3%Z|exists 0%Z|exists (-4)%Z|exists 2%Z]; reflexivity. }
  destruct Hr as [<-|[<-|[<-|[]]]]; apply Hq; simpl in Hx |- *; tauto.
Qed.

Theorem dyad_pv_run_shape :
  run_shape (pv_run NumQ 8 dyad_rows dyad_perm tie_bg (1 # 4) (1 # 10)) = [inl false; inl true].
Proof. vm_compute. reflexivity. Qed.

Theorem dyad_sc_run_shape :
  score_window0 NumQ dyad_rows dyad_perm = Ok (0, 51)%Z /\
  run_shape (sc_run NumQ 8 dyad_rows dyad_perm tie_bg (15 # 128) (1 # 10) (0, 51)%Z) = [inl false; inl true].
Proof. vm_compute. split; reflexivity. Qed.

(* the theorems apply: two iterations at most, with any number of steps *)
Corollary dyad_pv_run_length : forall steps,
  (length (pv_run NumQ steps dyad_rows dyad_perm tie_bg (1 # 4) (1 # 10)) <= 2)%nat.
Proof.
  intros steps.
  apply (pv_run_length_dyadic steps dyad_rows dyad_perm tie_bg 5 (1 # 4) 2 dyad_matrix_ok);
    [simpl; lia|reflexivity|exact dyad_rows_dyadic|exists 1%Z; reflexivity].
Qed.

Corollary dyad_sc_run_length : forall steps p,
  (length (sc_run NumQ steps dyad_rows dyad_perm tie_bg p (1 # 10) (0, 51)%Z) <= 2)%nat.
Proof.
  intros steps p.
  apply (sc_run_length_dyadic steps dyad_rows dyad_perm tie_bg 5 p 2 (0, 51)%Z dyad_matrix_ok);
    [simpl; lia|reflexivity|exact dyad_rows_dyadic|exact (proj1 dyad_sc_run_shape)].
Qed.

(* Without integrality approximate_score need not converge.  By
   [sc_next_converged_two_rows] this needs three rows (on [tie_rows] every p converges at
   the first step).  Rows {2/3, 1, 0, -1}, {2/3, 1, 0, -1}, {1/3, 2/3, 0, -1} (in the order
   of the permutation), uniform background: the score 2 is attained by the words
   (2/3, 2/3, 2/3), (1, 2/3, 1/3), (2/3, 1, 1/3) and (1, 1, 0), whose integer scores at
   granularity 10^-k are 199..98, 199..99 (twice) and 200..00 (before offsets), and
   P(I >= 200..0) = 5/64 < p = 3/32 < 7/64 = P(I >= 199..9): at every step alpha = 200..0 and
   alpha_e = 199..9 differ by 1 <= error_max = 4/3, the key 199..8 keeps the window from
   being exhausted, and the reported range is [7/64, 5/64].  The exact run has 18
   unconverged iterations and then panics on the i64 overflow of the integer matrix
   (site 14): in exact arithmetic `score(3/32)` never returns on this matrix. *)
Definition tie3_rows : list (list Q) := tie_rows ++ [[2 # 3; 1; 0; -1; -100]].
Definition tie3_perm : list nat := [1; 2; 0]%nat.    (* score ranges 2, 2, 5/3 *)

Lemma tie3_matrix_ok : matrix_ok 5 tie3_rows tie_bg.
Proof.
  unfold matrix_ok, tie3_rows, tie_rows, tie_bg. split; [lia|]. split; [repeat constructor|].
  split; [reflexivity|]. split.
  - intros b Hb. simpl in Hb. repeat (destruct Hb as [<-|Hb]; [discriminate|]). destruct Hb.
  - split; reflexivity.
Qed.

Theorem tie_score_run_shape :
  score_window0 NumQ tie3_rows tie3_perm = Ok (0, 58)%Z /\
  run_shape (sc_run NumQ 30 tie3_rows tie3_perm tie_bg (3 # 32) (1 # 10) (0, 58)%Z)
  = repeat (inl false) 18 ++ [inr 14%nat].
Proof. vm_compute. split; reflexivity. Qed.

(* the reported ranges and thresholds of the first 12 iterations *)
Theorem tie_score_ranges_12 :
  map (fun r => match r with
                | Ok it => Some (Qred (io_start it), Qred (io_end it), Qred (io_score it))
                | _ => None end)
      (sc_run NumQ 12 tie3_rows tie3_perm tie_bg (3 # 32) (1 # 10) (0, 58)%Z)
  = repeat (Some (7 # 64, 5 # 64, 2)) 12.
Proof. vm_compute. reflexivity. Qed.
