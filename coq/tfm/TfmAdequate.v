(* Adequacy of the window is an invariant of the re-centring of ScoresIterator::next
   (exact arithmetic).

   A step at granularity g returns alpha_e <= alpha and moves to granularity g/10 on
   the window
       mn' = 10 (alpha_e - w) - 9 M,   mx' = 10 (alpha + w) + 9 M,
   w = ceil(error_max + 1/2) >= 1, M = number of rows.  A word of integer score I at g
   has an integer score I' at g/10 with -9 M <= I' - 10 I <= 9 M.  Hence when the step
   at g worked on an adequate window (the table has a body and its total mass reaches
   p), so does the step at g/10, and that step cannot panic at `keys[riter + 1]`
   (site 31).  With TfmRun.initial_window_ok this makes the soundness theorems of
   TfmRun.v / TfmLink.v unconditional for every iteration of `approximate_score`. *)
From Coq Require Import ZArith QArith Qround List Bool Lia Lqa Sorted Permutation.
From LMBase Require Import Res ListX.
From LMTfm Require Import TfmNum TfmModel TfmSpec TfmProofs TfmScore TfmDist TfmPerm TfmMain TfmRun TfmTotal TfmLink.
Import ListNotations.
Open Scope Q_scope.

(* ------------------------------------------------------------------ *)
(** * 1. Digits *)

Lemma digit_bounds (y : Q) : (0 <= Qfloor (10 * y) - 10 * Qfloor y <= 9)%Z.
Proof.
  pose proof (Qfloor_le y) as H1. pose proof (Qlt_floor y) as H2.
  pose proof (Qfloor_le (10 * y)) as H3. pose proof (Qlt_floor (10 * y)) as H4.
  rewrite inject_Z_plus in H2, H4. change (inject_Z 1) with 1 in *.
  set (a := Qfloor y) in *. set (b := Qfloor (10 * y)) in *.
  assert (A1 : inject_Z (10 * a) < inject_Z (b + 1)).
  { rewrite inject_Z_mult, inject_Z_plus. change (inject_Z 10) with 10. change (inject_Z 1) with 1. lra. }
  assert (A2 : inject_Z b < inject_Z (10 * a + 10)).
  { rewrite inject_Z_plus, inject_Z_mult. change (inject_Z 10) with 10. lra. }
  rewrite <- Zlt_Qlt in A1, A2. lia.
Qed.

Lemma zmin_from_glb m a l :
  (m <= a)%Z -> (forall x, In x l -> (m <= x)%Z) -> (m <= zmin_from a l)%Z.
Proof.
  revert a; induction l as [|y r IH]; intros a Ha H; simpl; [exact Ha|].
  apply IH.
  - assert (m <= y)%Z by (apply H; left; reflexivity). lia.
  - intros x Hx. apply H. right; exact Hx.
Qed.

Lemma zmin_of_glb m l :
  l <> [] -> (forall x, In x l -> (m <= x)%Z) -> (m <= zmin_of l)%Z.
Proof.
  destruct l as [|a r]; intros Hne H; [congruence|]. simpl.
  apply zmin_from_glb; [apply H; left; reflexivity|intros x Hx; apply H; right; exact Hx].
Qed.

Lemma zmin_from_in a l : zmin_from a l = a \/ In (zmin_from a l) l.
Proof.
  revert a; induction l as [|y r IH]; intros a; simpl; [left; reflexivity|].
  destruct (IH (Z.min a y)) as [E|Hin]; [|right; right; exact Hin].
  rewrite E. destruct (Z.min_spec a y) as [[_ E']|[_ E']]; rewrite E'; [left|right; left]; reflexivity.
Qed.

Lemma zmin_of_in l : l <> [] -> In (zmin_of l) l.
Proof.
  destruct l as [|a r]; intros Hne; [congruence|]. simpl.
  destruct (zmin_from_in a r) as [E|Hin]; [left; symmetry; exact E|right; exact Hin].
Qed.

(* minima of the scaled floors *)
Lemma zmin_scaled {A} (f f' : A -> Z) (l : list A) :
  (forall x, In x l -> (10 * f x <= f' x)%Z) ->
  (10 * zmin_of (map f l) <= zmin_of (map f' l))%Z.
Proof.
  intros H. destruct l as [|a r] eqn:E; [simpl; lia|]. rewrite <- E in *.
  apply zmin_of_glb; [rewrite E; discriminate|].
  intros z Hz. apply in_map_iff in Hz. destruct Hz as [x [<- Hx]].
  assert (zmin_of (map f l) <= f x)%Z by (apply zmin_of_le; apply in_map; exact Hx).
  specialize (H x Hx). lia.
Qed.

Lemma zmin_scaled_upper {A} (f f' : A -> Z) (l : list A) :
  (forall x, In x l -> (f' x <= 10 * f x + 9)%Z) ->
  (zmin_of (map f' l) <= 10 * zmin_of (map f l) + 9)%Z.
Proof.
  intros H. destruct l as [|a r] eqn:E; [simpl; lia|]. rewrite <- E in *.
  assert (Hne : map f l <> []) by (rewrite E; discriminate).
  pose proof (zmin_of_in _ Hne) as Hin. apply in_map_iff in Hin. destruct Hin as [x [Ex Hx]].
  assert (zmin_of (map f' l) <= f' x)%Z by (apply zmin_of_le; apply in_map; exact Hx).
  specialize (H x Hx). rewrite <- Ex. lia.
Qed.

Lemma div_tenth (g x : Q) : ~ g == 0 -> x / (g / 10) == 10 * (x / g).
Proof. intros Hg. field. exact Hg. Qed.

Lemma qfl_tenth (g x : Q) : ~ g == 0 -> qfl (g / 10) x = Qfloor (10 * (x / g)).
Proof. intros Hg. unfold qfl. apply Qfloor_comp. apply div_tenth. exact Hg. Qed.

(* ------------------------------------------------------------------ *)
(** * 2. Cells *)

Lemma off_tenth (g : Q) (cs : list Q) :
  ~ g == 0 -> (10 * off_of g cs - 9 <= off_of (g / 10) cs <= 10 * off_of g cs)%Z.
Proof.
  intros Hg. unfold off_of.
  assert (10 * zmin_of (map (qfl g) cs) <= zmin_of (map (qfl (g / 10)) cs))%Z.
  { apply zmin_scaled. intros x _. rewrite qfl_tenth by exact Hg. unfold qfl.
    pose proof (digit_bounds (x / g)) as D. lia. }
  assert (zmin_of (map (qfl (g / 10)) cs) <= 10 * zmin_of (map (qfl g) cs) + 9)%Z.
  { apply zmin_scaled_upper. intros x _. rewrite qfl_tenth by exact Hg. unfold qfl.
    pose proof (digit_bounds (x / g)) as D. lia. }
  lia.
Qed.

Lemma cell_tenth (g : Q) (cs : list Q) (x : Q) :
  ~ g == 0 ->
  (-9 <= (qfl (g / 10) x + off_of (g / 10) cs) - 10 * (qfl g x + off_of g cs) <= 9)%Z.
Proof.
  intros Hg. pose proof (off_tenth g cs Hg) as Ho.
  pose proof (digit_bounds (x / g)) as D.
  rewrite (qfl_tenth g x Hg). unfold qfl in *.
  set (a := Qfloor (x / g)) in *. set (b := Qfloor (10 * (x / g))) in *.
  set (o := off_of g cs) in *. set (o' := off_of (g / 10) cs) in *.
  lia.
Qed.

(* ------------------------------------------------------------------ *)
(** * 3. Words: the integer cells at two granularities, jointly *)

Definition tent : Type := ((Z * Z) * Q)%type.

Definition trow (g g' : Q) (bg : list Q) (cs : list Q) : list tent :=
  map (fun xb => (((qfl g (fst xb) + off_of g cs)%Z, (qfl g' (fst xb) + off_of g' cs)%Z), snd xb))
      (combine cs bg).

Definition trows (g g' : Q) (bg : list Q) (css : list (list Q)) : list (list tent) :=
  map (trow g g' bg) css.

Lemma irows_trows_fst g g' bg css :
  irows (ints_of g css) bg = map (map (fun ab : tent => (fst (fst ab), snd ab))) (trows g g' bg css).
Proof.
  unfold irows, trows, ints_of. rewrite !map_map. apply map_ext. intros cs. unfold trow.
  rewrite map_map. simpl. rewrite combine_map_l. reflexivity.
Qed.

Lemma irows_trows_snd g g' bg css :
  irows (ints_of g' css) bg = map (map (fun ab : tent => (snd (fst ab), snd ab))) (trows g g' bg css).
Proof.
  unfold irows, trows, ints_of. rewrite !map_map. apply map_ext. intros cs. unfold trow.
  rewrite map_map. simpl. rewrite combine_map_l. reflexivity.
Qed.

Lemma wsum_I_fst g g' bg css f :
  wsum (irows (ints_of g css) bg) f == wsum (trows g g' bg css) (fun l => f (map (fun cc => fst cc) l)).
Proof. rewrite (irows_trows_fst g g'). apply (wsum_map (fun cc : Z * Z => fst cc)). Qed.

Lemma wsum_I_snd g g' bg css f :
  wsum (irows (ints_of g' css) bg) f == wsum (trows g g' bg css) (fun l => f (map (fun cc => snd cc) l)).
Proof. rewrite (irows_trows_snd g g'). apply (wsum_map (fun cc : Z * Z => snd cc)). Qed.

Lemma wf_trows g g' bg css : (forall b, In b bg -> 0 <= b) -> wf_rows (trows g g' bg css).
Proof.
  intros H r Hr ab Hab. unfold trows in Hr. apply in_map_iff in Hr. destruct Hr as [cs [<- _]].
  unfold trow in Hab. apply in_map_iff in Hab. destruct Hab as [xb [<- Hxb]]. simpl.
  eapply in_combine_snd_nonneg; eauto.
Qed.

Lemma trow_cell g g' bg cs (cc : Z * Z) :
  In cc (map fst (trow g g' bg cs)) ->
  exists x, In x cs /\ fst cc = (qfl g x + off_of g cs)%Z /\ snd cc = (qfl g' x + off_of g' cs)%Z.
Proof.
  intros Hin. apply in_map_iff in Hin. destruct Hin as [e [He Hin]]. unfold trow in Hin.
  apply in_map_iff in Hin. destruct Hin as [xb [<- Hxb]]. cbn [fst snd] in He. subst cc.
  exists (fst xb). split; [|split; reflexivity].
  destruct xb as [x b]. apply in_combine_l in Hxb. exact Hxb.
Qed.

(* a word at g is the first projection of a joint word *)
Lemma attain_irows_joint g g' bg css l :
  attain l (irows (ints_of g css) bg) ->
  exists lt, attain lt (trows g g' bg css) /\ map (fun cc : Z * Z => fst cc) lt = l.
Proof.
  revert l; induction css as [|cs rest IH]; intros l H.
  - inversion H; subst. exists []. split; [constructor|reflexivity].
  - unfold attain in H. cbn [ints_of irows map] in H.
    inversion H as [|x r l' rs' Hx Hrest]; subst.
    destruct (IH _ Hrest) as [lt [A B]].
    apply in_map_iff in Hx. destruct Hx as [cb [E Hcb]].
    destruct cb as [c b]. cbn [fst] in E. subst c.
    (* the cell x comes from some real cell *)
    assert (Hex : exists y, In (y, b) (combine cs bg) /\ x = (qfl g y + off_of g cs)%Z).
    { clear -Hcb. revert bg Hcb. generalize (off_of g cs) as o. intros o.
      induction cs as [|y cs' IHc]; intros [|b0 bg'] Hcb; cbn [map combine] in Hcb; try destruct Hcb.
      - inversion H; subst. exists y. split; [left; reflexivity|reflexivity].
      - destruct (IHc _ H) as [y' [A1 A2]]. exists y'. split; [right; exact A1|exact A2]. }
    destruct Hex as [y [Hy Ex]].
    exists (((qfl g y + off_of g cs)%Z, (qfl g' y + off_of g' cs)%Z) :: lt). split.
    + constructor; [|exact A]. unfold trow. rewrite map_map. cbn [fst].
      apply in_map_iff. exists (y, b). split; [reflexivity|exact Hy].
    + cbn [map fst]. rewrite B, Ex. reflexivity.
Qed.

Lemma attain_joint_snd g g' bg css lt :
  attain lt (trows g g' bg css) ->
  attain (map (fun cc : Z * Z => snd cc) lt) (irows (ints_of g' css) bg).
Proof.
  intros H. rewrite (irows_trows_snd g g'). apply (attain_map (fun cc : Z * Z => snd cc)). exact H.
Qed.

Lemma attain_joint_fst g g' bg css lt :
  attain lt (trows g g' bg css) ->
  attain (map (fun cc : Z * Z => fst cc) lt) (irows (ints_of g css) bg).
Proof.
  intros H. rewrite (irows_trows_fst g g'). apply (attain_map (fun cc : Z * Z => fst cc)). exact H.
Qed.

(* |I' - 10 I| <= 9 M *)
Lemma word_tenth g bg (css : list (list Q)) :
  ~ g == 0 ->
  forall l, attain l (trows g (g / 10) bg css) ->
  (- 9 * Z.of_nat (length css)
   <= Zsum (map (fun cc : Z * Z => snd cc) l) - 10 * Zsum (map (fun cc : Z * Z => fst cc) l)
   <= 9 * Z.of_nat (length css))%Z.
Proof.
  intros Hg. induction css as [|cs rest IH]; intros l Hat.
  - inversion Hat; subst. cbn [map Zsum length]. lia.
  - unfold attain in Hat. cbn [trows map] in Hat.
    inversion Hat as [|cc tr l' rows' Hin Hrest]; subst.
    destruct (trow_cell _ _ _ _ _ Hin) as [x [Hx [E1 E2]]].
    pose proof (cell_tenth g cs x Hg) as C. rewrite <- E1, <- E2 in C.
    specialize (IH l' Hrest).
    cbn [map Zsum length]. rewrite Nat2Z.inj_succ.
    set (s1 := Zsum (map (fun cc : Z * Z => snd cc) l')) in *.
    set (s0 := Zsum (map (fun cc : Z * Z => fst cc) l')) in *.
    set (n := Z.of_nat (length rest)) in *. lia.
Qed.

(* ------------------------------------------------------------------ *)
(** * 4. The next window *)

Lemma next_window_bot (ae W M : Z) :
  Qfloor ((inject_Z ae - inject_Z W) * 10 - (10 - 1) * inject_Z M) = (10 * (ae - W) - 9 * M)%Z.
Proof.
  rewrite <- (Qfloor_Z (10 * (ae - W) - 9 * M)). apply Qfloor_comp.
  rewrite inject_Z_minus, !inject_Z_mult, inject_Z_minus.
  change (inject_Z 10) with 10. change (inject_Z 9) with 9. ring.
Qed.

Lemma next_window_top (a W M : Z) :
  Qfloor ((inject_Z a + inject_Z W) * 10 + (10 - 1) * inject_Z M) = (10 * (a + W) + 9 * M)%Z.
Proof.
  rewrite <- (Qfloor_Z (10 * (a + W) + 9 * M)). apply Qfloor_comp.
  rewrite inject_Z_plus, !inject_Z_mult, inject_Z_plus.
  change (inject_Z 10) with 10. change (inject_Z 9) with 9. ring.
Qed.

(* ------------------------------------------------------------------ *)
(** * 5. One adequate lookup *)

Lemma nth_error_body {A} (body : list A) z i x :
  nth_error (body ++ [z]) i = Some x -> (S i < length (body ++ [z]))%nat -> In x body.
Proof.
  intros Hn Hlt. rewrite app_length in Hlt. simpl in Hlt.
  rewrite nth_error_app1 in Hn by lia. eapply nth_error_In; eauto.
Qed.

(* what an adequate lookup says about alpha_e and alpha:
   the tail at alpha_e reaches p, the tail above alpha is at most p, and alpha_e is a
   key of the body of the table *)
Lemma lookup_score_facts G (bg : list Q) p mn mx o :
  lookup_score NumQ G bg p mn mx = Ok o ->
  dist_exact (irows (g_int G) bg) mn mx (last (ls_rows o) []) ->
  wf_rows (irows (g_int G) bg) -> 0 < p ->
  ls_total_lt o = false -> (1 < length (last (ls_rows o) []))%nat ->
  p <= PI_ge (irows (g_int G) bg) (ls_alpha_e o) /\
  PI_ge (irows (g_int G) bg) (ls_alpha o + 1) <= p /\
  In (ls_alpha_e o) (map fst (removelast (last (ls_rows o) []))).
Proof.
  intros Hlook Hdist W Hp Hw1 Hw2.
  unfold lookup_score in Hlook. cbn [NumQ n_isnan] in Hlook.
  apply rbind_ok in Hlook. destruct Hlook as [rowsq [Hdistr Hlook]].
  set (lastm := last rowsq []) in *.
  destruct (length lastm) as [|top] eqn:Elen; [discriminate|].
  apply rbind_ok in Hlook. destruct Hlook as [[[riter sum] pvs] [Hloop Hlook]].
  apply rbind_ok in Hlook. destruct Hlook as [[[[a ae] pvs'] exh] [Hsel Hlook]].
  apply rbind_ok in Hlook. destruct Hlook as [pa [Hpa Hlook]].
  apply rbind_ok in Hlook. destruct Hlook as [pe [Hpe Hlook]].
  inversion Hlook; subst o; clear Hlook. cbn [ls_alpha ls_alpha_e ls_total_lt ls_rows] in *.
  fold lastm in Hdist, Hw2 |- *.
  set (ir := irows (g_int G) bg) in *.
  assert (Hloop' :
    ((1 <= riter)%nat /\ sum == tailsum lastm riter /\ p <= sum /\
       ((S riter < length lastm)%nat -> tailsum lastm (S riter) < p))
    \/ (riter = 0%nat /\ sum == tailsum lastm 1 /\ ((1 < length lastm)%nat -> sum < p))).
  { destruct (ls_loop_spec p lastm top 0 [] riter sum pvs Hloop) as [[A1 [A2 [A3 [A4 A5]]]]|[B1 [B2 B3]]].
    - rewrite tailsum_beyond by lia. reflexivity.
    - intros Hc. lia.
    - left. repeat split; auto.
    - right. repeat split; auto. }
  destruct (dist_exact_keys _ _ _ _ Hdist) as [Hsort [Hrange [Hcomp Hlastkey]]].
  assert (Hmono : forall k, PI_ge ir (k + 1) <= PI_ge ir k) by (intros k; apply PI_ge_mono; auto; lia).
  destruct Hdist as [body [vb [Hl Hdist]]].
  assert (Hdist0 : dist_exact ir mn mx lastm) by (exists body, vb; split; [exact Hl|exact Hdist]).
  assert (Hbodyin : forall i kv, nth_error lastm i = Some kv -> (S i < length lastm)%nat ->
                                 In (fst kv) (map fst (removelast lastm))).
  { intros i kv Hn Hlt. rewrite Hl in Hn, Hlt |- *. rewrite removelast_last. apply in_map.
    eapply nth_error_body; eauto. }
  destruct (gt NumQ sum p) eqn:Hgt.
  - (* sum > p: alpha_e = keys[riter], alpha = keys[riter + 1] *)
    apply rbind_ok in Hsel. destruct Hsel as [ae0 [Hae0 Hsel]].
    apply rbind_ok in Hsel. destruct Hsel as [a0 [Ha0 Hsel]].
    inversion Hsel; subst a0 ae0 pvs' exh; clear Hsel.
    apply gtQ in Hgt. apply key_at_ok in Ha0. destruct Ha0 as [va Ha].
    apply key_at_ok in Hae0. destruct Hae0 as [vae Hae].
    assert (HSr : (S riter < length lastm)%nat) by (apply nth_error_Some; congruence).
    destruct Hloop' as [[L1 [L2 [L3 L4]]]|[R1 [R2 R3]]]; [|specialize (R3 Hw2); lra].
    specialize (L4 HSr).
    rewrite (tailsum_spec _ _ _ _ Hdist0 _ _ _ Ha) in L4.
    rewrite (tailsum_spec _ _ _ _ Hdist0 _ _ _ Hae) in L2.
    split; [lra|]. split; [specialize (Hmono a); lra|].
    exact (Hbodyin _ _ Hae HSr).
  - destruct riter as [|r'].
    + (* window bottom reached: alpha = alpha_e = keys[0] *)
      apply rbind_ok in Hsel. destruct Hsel as [a0 [Ha0 Hsel]].
      inversion Hsel; subst a0 ae pvs' exh; clear Hsel.
      apply key_at_ok in Ha0. destruct Ha0 as [va Ha].
      destruct Hloop' as [[L1 _]|[_ [R2 R3]]]; [lia|]. specialize (R3 Hw2).
      assert (Hq0 : match lastm with [] => 0 | kv :: _ => snd kv end = va).
      { destruct lastm as [|kv r]; [discriminate|]. simpl in Ha. inversion Ha; subst. reflexivity. }
      cbn [NumQ n_add n_zero] in Hw1. rewrite Hq0 in Hw1. simpl in Hw1.
      assert (Hge : p <= sum + va).
      { destruct (Qlt_le_dec (sum + va) p) as [Hc|?]; auto. apply ltQ in Hc. congruence. }
      pose proof (tailsum_nth _ _ _ _ Ha) as Et. rewrite (tailsum_spec _ _ _ _ Hdist0 _ _ _ Ha) in Et.
      destruct (nth_error lastm 1) as [[k1 v1]|] eqn:E1; [|apply nth_error_None in E1; lia].
      pose proof R2 as R2'. rewrite (tailsum_spec _ _ _ _ Hdist0 _ _ _ E1) in R2.
      assert (Ha1 : (a < k1)%Z).
      { eapply (sorted_nth_lt (map fst lastm) Hsort 0 1); eauto using nth_error_map_fst. }
      assert (Hk1le : (k1 <= mx + 1)%Z).
      { apply nth_error_In in E1. apply Hrange in E1. simpl in E1. lia. }
      assert (Hamn : (mn <= a)%Z).
      { apply nth_error_In in Ha. apply Hrange in Ha. simpl in Ha. lia. }
      split; [rewrite Et, <- R2'; lra|]. split.
      * apply Qle_trans with (PI_ge ir k1); [|lra].
        unfold PI_ge. apply wsum_le; auto. intros li Hat. apply ind_impl. intros Hle.
        apply Z.leb_le in Hle. apply Z.leb_le.
        destruct (Z.le_gt_cases (Zsum li) mx) as [Hin|Hout]; [|lia].
        assert (Hk : In (Zsum li) (map fst lastm)) by (apply Hcomp; auto; lia).
        eapply (sorted_nth_next (map fst lastm) Hsort 0 a k1); eauto using nth_error_map_fst. lia.
      * apply (Hbodyin _ _ Ha). exact Hw2.
    + (* sum == p at riter >= 1: alpha = keys[riter], alpha_e = keys[riter - 1] *)
      apply rbind_ok in Hsel. destruct Hsel as [a0 [Ha0 Hsel]].
      apply rbind_ok in Hsel. destruct Hsel as [ae0 [Hae0 Hsel]].
      inversion Hsel; subst a0 ae0 pvs' exh; clear Hsel.
      apply key_at_ok in Ha0. destruct Ha0 as [va Ha].
      apply key_at_ok in Hae0. destruct Hae0 as [vae Hae].
      destruct Hloop' as [[L1 [L2 [L3 L4]]]|[R1 _]]; [|discriminate].
      assert (Hle : sum <= p).
      { destruct (Qlt_le_dec p sum) as [Hc|?]; auto. apply gtQ in Hc. congruence. }
      rewrite (tailsum_spec _ _ _ _ Hdist0 _ _ _ Ha) in L2.
      assert (Hlt : (ae < a)%Z).
      { eapply (sorted_nth_lt (map fst lastm) Hsort r' (S r')); eauto using nth_error_map_fst. }
      assert (HSr : (S r' < length lastm)%nat) by (apply nth_error_Some; congruence).
      split; [|split].
      * apply Qle_trans with (PI_ge ir a); [lra|]. apply PI_ge_mono; auto. lia.
      * specialize (Hmono a). lra.
      * exact (Hbodyin _ _ Hae HSr).
Qed.

(* ------------------------------------------------------------------ *)
(** * 6. The table of the next step *)

Lemma next_table g bg (css : list (list Q)) p (ae a W : Z) lastm' :
  ~ g == 0 -> (forall b, In b bg -> 0 <= b) -> 0 < p ->
  let ir := irows (ints_of g css) bg in
  let ir' := irows (ints_of (g / 10) css) bg in
  let M := Z.of_nat (length css) in
  let mn' := (10 * (ae - W) - 9 * M)%Z in
  let mx' := (10 * (a + W) + 9 * M)%Z in
  (ae <= a)%Z -> (1 <= W)%Z ->
  p <= PI_ge ir ae ->
  PI_ge ir (a + 1) <= p ->
  (exists l0, attain l0 ir /\ Zsum l0 = ae) ->
  dist_exact ir' mn' mx' lastm' ->
  p <= tailsum lastm' 0 /\ (1 < length lastm')%nat /\ ~ first_exitQ p lastm'.
Proof.
  intros Hg Hbg Hp ir ir' M mn' mx' Hord HW Hi Hii [l0 [Hl0 El0]] Hdist.
  assert (WT : wf_rows (trows g (g / 10) bg css)) by (apply wf_trows; exact Hbg).
  pose proof Hdist as [body [vb [Hl [Hsort [Hbody [Hvb Hcomp]]]]]].
  assert (HM0 : (0 <= M)%Z) by (unfold M; lia).
  (* the image of the word of score alpha_e is a key of the body *)
  destruct (attain_irows_joint g (g / 10) bg css l0 Hl0) as [lt0 [Hlt0 Elt0]].
  pose proof (word_tenth g bg css Hg lt0 Hlt0) as Hw0. fold M in Hw0. rewrite Elt0, El0 in Hw0.
  pose proof (attain_joint_snd g (g / 10) bg css lt0 Hlt0) as Hat0. fold ir' in Hat0.
  set (I0 := Zsum (map (fun cc : Z * Z => snd cc) lt0)) in *.
  assert (Hk0 : In I0 (map fst body)).
  { apply Hcomp; [exact Hat0|]. unfold mn', mx'. lia. }
  destruct body as [|[k0 v0] body'] eqn:Ebody; [destruct Hk0|]. rewrite <- Ebody in *.
  assert (Hn0 : nth_error lastm' 0 = Some (k0, v0)) by (rewrite Hl, Ebody; reflexivity).
  assert (Hk0b : (mn' <= k0 <= mx')%Z).
  { destruct (Hbody (k0, v0)) as [B _]; [rewrite Ebody; left; reflexivity|exact B]. }
  assert (Hk0min : forall z, In z (map fst body) -> (k0 <= z)%Z).
  { intros z Hz. rewrite Ebody in Hz, Hsort. cbn [map fst] in Hz, Hsort. destruct Hz as [<-|Hz]; [lia|].
    pose proof (SSorted_lt_inv _ _ Hsort _ Hz). lia. }
  split; [|split].
  - (* total mass *)
    rewrite (tailsum_spec _ _ _ _ Hdist _ _ _ Hn0).
    apply Qle_trans with (PI_ge ir ae); [exact Hi|].
    unfold PI_ge, ir, ir'. rewrite (wsum_I_snd g (g / 10)), (wsum_I_fst g (g / 10)).
    apply wsum_le; [exact WT|]. intros l Hlw. apply ind_impl. intros H.
    apply Z.leb_le in H. apply Z.leb_le.
    pose proof (word_tenth g bg css Hg l Hlw) as Hw. fold M in Hw.
    pose proof (attain_joint_snd g (g / 10) bg css l Hlw) as Hat. fold ir' in Hat.
    set (I := Zsum (map (fun cc : Z * Z => fst cc) l)) in *.
    set (I' := Zsum (map (fun cc : Z * Z => snd cc) l)) in *.
    destruct (Z.le_gt_cases I' mx') as [Hin|Hout]; [|lia].
    apply Hk0min. apply Hcomp; [exact Hat|]. unfold mn'. lia.
  - rewrite Hl, Ebody, app_length. simpl. lia.
  - (* the overflow entry *)
    assert (Hvbp : vb <= p).
    { rewrite Hvb. apply Qle_trans with (PI_ge ir (a + 1)); [|exact Hii].
      unfold PI_gt, PI_ge, ir, ir'. rewrite (wsum_I_snd g (g / 10)), (wsum_I_fst g (g / 10)).
      apply wsum_le; [exact WT|]. intros l Hlw. apply ind_impl. intros H.
      apply Z.ltb_lt in H. apply Z.leb_le.
      pose proof (word_tenth g bg css Hg l Hlw) as Hw. fold M in Hw.
      unfold mx' in H. lia. }
    intros [[_ Hneg]|[_ [kb [vb' [Hlast Hlt]]]]]; [lra|].
    rewrite Hl, last_last in Hlast. inversion Hlast; subst kb vb'. lra.
Qed.

(* ------------------------------------------------------------------ *)
(** * 7. One step of ScoresIterator::next and the table of the following step *)

Definition adequate (it : iter_out (T:=Q)) : Prop :=
  io_total_lt it = false /\ (1 < length (last (io_rows it) []))%nat.

Lemma next_step_table rows perm bg K p g G G' mn mx o rowsq :
  matrix_ok K rows bg -> (2 <= length rows)%nat -> length perm = length rows ->
  0 < g -> 0 < p -> (mn <= mx + 1)%Z ->
  recompute NumQ rows perm g = Ok G ->
  lookup_score NumQ G bg p mn mx = Ok o ->
  ls_total_lt o = false -> (1 < length (last (ls_rows o) []))%nat ->
  recompute NumQ rows perm (g / 10) = Ok G' ->
  let W := Qceiling (g_emax G + (1 # 2)) in
  let M := Z.of_nat (length rows) in
  let mn' := (10 * (ls_alpha_e o - W) - 9 * M)%Z in
  let mx' := (10 * (ls_alpha o + W) + 9 * M)%Z in
  distribution NumQ G' bg mn' mx' = Ok rowsq ->
  (mn' <= mx')%Z /\
  p <= tailsum (last rowsq []) 0 /\ (1 < length (last rowsq []))%nat /\ ~ first_exitQ p (last rowsq []).
Proof.
  intros Hok HM Hperm Hg Hp Hwin Hrec Hlook Hw1 Hw2 Hrec' W M mn' mx' Hd.
  assert (Hg0 : ~ g == 0) by lra.
  destruct (recompute_cells _ _ _ _ _ _ Hok Hrec) as [Hcells [Hmaxr HlenG]].
  destruct (recompute_cells _ _ _ _ _ _ Hok Hrec') as [Hcells' [Hmaxr' HlenG']].
  destruct (matrix_ok_bg _ _ _ Hok) as [Hunit Hbl].
  pose proof (recompute_emax_nonneg _ _ _ _ _ _ Hok Hg Hrec) as Em0.
  pose proof (ceil_half_pos _ Em0) as HW. fold W in HW.
  destruct (recompute_Q_geom _ _ _ _ Hrec) as [prow [Hpr [_ [_ [Hint _]]]]].
  destruct (recompute_Q_geom _ _ _ _ Hrec') as [prow' [Hpr' [_ [_ [Hint' _]]]]].
  rewrite Hpr in Hpr'. inversion Hpr'; subst prow'; clear Hpr'.
  destruct (permuted_rows_spec _ _ _ Hpr) as [Hplen _].
  assert (Hbg : forall b, In b bg -> 0 <= b) by (destruct Hok as [_ [_ [_ [Hbg _]]]]; exact Hbg).
  set (css := map cells prow) in *.
  assert (HMc : M = Z.of_nat (length css)).
  { unfold M, css. rewrite map_length, Hplen, Hperm. reflexivity. }
  (* the table of the current step *)
  pose proof (lookup_score_rows _ _ _ _ _ _ Hlook) as Hrows.
  assert (Hdist : dist_exact (irows (g_int G) bg) mn mx (last (ls_rows o) [])).
  { apply (distribution_exact G bg _ _ (ls_rows o) (K - 1)%nat Hrows); [lia|exact Hcells|exact Hmaxr|exact Hunit|exact Hbl|exact Hwin]. }
  assert (Wf : wf_rows (irows (g_int G) bg)) by (apply wf_irows; exact Hbg).
  destruct (lookup_score_facts G bg p mn mx o Hlook Hdist Wf Hp Hw1 Hw2) as [Fi [Fii Fiii]].
  pose proof (lookup_score_alpha_order _ _ _ _ _ _ _ Hlook Hdist) as Hord.
  assert (Hatt : exists l0, attain l0 (irows (g_int G) bg) /\ Zsum l0 = ls_alpha_e o).
  { apply (distribution_keys_attainable G bg mn mx (ls_rows o) (K - 1)%nat Hrows); [lia|exact Hcells|exact Hmaxr|exact Hunit|exact Hbl|exact Hwin|exact Fiii]. }
  assert (Hwin' : (mn' <= mx')%Z) by (unfold mn', mx'; lia).
  split; [exact Hwin'|].
  assert (Hdist' : dist_exact (irows (g_int G') bg) mn' mx' (last rowsq [])).
  { apply (distribution_exact G' bg _ _ rowsq (K - 1)%nat Hd); [lia|exact Hcells'|exact Hmaxr'|exact Hunit|exact Hbl|lia]. }
  rewrite Hint in Fi, Fii, Hatt. rewrite Hint' in Hdist'.
  unfold mn', mx' in Hdist'. rewrite HMc in Hdist'.
  exact (next_table g bg css p (ls_alpha_e o) (ls_alpha o) W (last rowsq []) Hg0 Hbg Hp Hord HW Fi Fii Hatt Hdist').
Qed.

(* the parts of a successful step *)
Lemma sc_next_open rows perm (bg : list Q) p g win it :
  sc_next NumQ rows perm bg p g win = Ok it ->
  exists G o,
    recompute NumQ rows perm g = Ok G /\
    lookup_score NumQ G bg p (fst win) (snd win) = Ok o /\
    io_total_lt it = ls_total_lt o /\ io_rows it = ls_rows o /\
    io_win it = ((10 * (ls_alpha_e o - Qceiling (g_emax G + (1 # 2))) - 9 * Z.of_nat (length rows))%Z,
                 (10 * (ls_alpha o + Qceiling (g_emax G + (1 # 2))) + 9 * Z.of_nat (length rows))%Z).
Proof.
  intros H. unfold sc_next in H.
  apply rbind_ok in H. destruct H as [G [Hrec H]].
  apply rbind_ok in H. destruct H as [o [Hlook H]].
  apply rbind_ok in H. destruct H as [osum [Hosum H]].
  destruct (negb _); [discriminate|].
  inversion H; subst it; clear H. cbn [io_win io_total_lt io_rows].
  exists G, o. split; [exact Hrec|]. split; [exact Hlook|]. split; [reflexivity|]. split; [reflexivity|].
  f_equal.
  - exact (next_window_bot (ls_alpha_e o) (Qceiling (g_emax G + (1 # 2))) (Z.of_nat (length rows))).
  - exact (next_window_top (ls_alpha o) (Qceiling (g_emax G + (1 # 2))) (Z.of_nat (length rows))).
Qed.

(** T1: adequacy is preserved by the re-centring *)
Theorem sc_next_adequate_next : forall rows perm bg K p g win it it',
  matrix_ok K rows bg -> (2 <= length rows)%nat -> length perm = length rows ->
  0 < g -> 0 < p -> (fst win <= snd win + 1)%Z ->
  sc_next NumQ rows perm bg p g win = Ok it ->
  adequate it ->
  sc_next NumQ rows perm bg p (g / 10) (io_win it) = Ok it' ->
  adequate it'.
Proof.
  intros rows perm bg K p g win it it' Hok HM Hperm Hg Hp Hwin H [Ha1 Ha2] H'.
  destruct (sc_next_open _ _ _ _ _ _ _ H) as [G [o [Hrec [Hlook [Et [Er Ew]]]]]].
  destruct (sc_next_open _ _ _ _ _ _ _ H') as [G' [o' [Hrec' [Hlook' [Et' [Er' _]]]]]].
  rewrite Et in Ha1. rewrite Er in Ha2. rewrite Ew in Hlook'. cbn [fst snd] in Hlook'.
  pose proof (lookup_score_rows _ _ _ _ _ _ Hlook') as Hrows'.
  destruct (next_step_table rows perm bg K p g G G' (fst win) (snd win) o (ls_rows o')
              Hok HM Hperm Hg Hp Hwin Hrec Hlook Ha1 Ha2 Hrec' Hrows') as [_ [T1 [T2 _]]].
  unfold adequate. rewrite Et', Er'. split; [|exact T2].
  destruct (ls_total_lt o') eqn:E; [exfalso|reflexivity].
  pose proof (ls_total_lt_tailsum _ _ _ _ _ _ Hlook' E) as Hlt. lra.
Qed.

(** T2: the step that follows an adequate step does not reach `keys[riter + 1]` out of bounds *)
Theorem sc_next_no_panic31 : forall rows perm bg K p g win it,
  matrix_ok K rows bg -> (2 <= length rows)%nat -> length perm = length rows ->
  0 < g -> 0 < p -> (fst win <= snd win + 1)%Z ->
  sc_next NumQ rows perm bg p g win = Ok it ->
  adequate it ->
  sc_next NumQ rows perm bg p (g / 10) (io_win it) <> Panic 31.
Proof.
  intros rows perm bg K p g win it Hok HM Hperm Hg Hp Hwin H [Ha1 Ha2] Hpanic.
  destruct (sc_next_open _ _ _ _ _ _ _ H) as [G [o [Hrec [Hlook [Et [Er Ew]]]]]].
  rewrite Et in Ha1. rewrite Er in Ha2. rewrite Ew in Hpanic.
  unfold sc_next in Hpanic.
  apply rbind_panic in Hpanic. destruct Hpanic as [Hpanic|[G' [Hrec' Hpanic]]].
  { apply recompute_panic in Hpanic. lia. }
  apply rbind_panic in Hpanic. destruct Hpanic as [Hpanic|[o' [_ Hpanic]]].
  2:{ apply rbind_panic in Hpanic. destruct Hpanic as [Hpanic|[osum' [_ Hpanic]]].
      - apply sum_i64_panic in Hpanic. discriminate.
      - destruct (negb _); discriminate. }
  cbn [fst snd] in Hpanic.
  apply lookup_score_panic_sites in Hpanic.
  destruct Hpanic as [Hd|[_ [rowsq [Hd Hfe]]]].
  { apply distribution_panic in Hd. lia. }
  destruct (next_step_table rows perm bg K p g G G' (fst win) (snd win) o rowsq
              Hok HM Hperm Hg Hp Hwin Hrec Hlook Ha1 Ha2 Hrec' Hd) as [_ [_ [_ T3]]].
  exact (T3 Hfe).
Qed.

(* ------------------------------------------------------------------ *)
(** * 8. Runs *)

(** T3: if the first step of a run (when it succeeds) is adequate, every step is *)
Theorem sc_run_adequate : forall steps rows perm bg K p g win it,
  matrix_ok K rows bg -> (2 <= length rows)%nat -> length perm = length rows ->
  0 < g -> 0 < p -> (fst win <= snd win + 1)%Z ->
  (forall it0, sc_next NumQ rows perm bg p g win = Ok it0 -> adequate it0) ->
  In (Ok it) (sc_run NumQ steps rows perm bg p g win) ->
  adequate it.
Proof.
  intros steps rows perm bg K p g win it Hok HM Hperm Hg Hp. revert g win Hg.
  induction steps as [|n IH]; intros g win Hg Hwin Hfirst Hin; cbn [sc_run] in Hin; [destruct Hin|].
  rewrite (le_pos_false g Hg) in Hin.
  destruct (sc_next NumQ rows perm bg p g win) as [it0| | |] eqn:Enext;
    try (destruct Hin as [Hin|[]]; discriminate).
  pose proof (Hfirst it0 eq_refl) as Had0.
  destruct Hin as [Hin|Hin].
  - inversion Hin; subst it0. exact Had0.
  - destruct (io_conv it0); [destruct Hin|].
    destruct (div10_pos g Hg) as [D1 _]. cbn [NumQ n_div n_ten] in D1, Hin.
    pose proof (sc_next_window _ _ _ _ _ _ _ _ Hok HM Hperm Hg Hwin Enext) as Hwin'.
    apply (IH (g / 10) (io_win it0) D1 ltac:(lia)); [|exact Hin].
    intros it1 H1.
    exact (sc_next_adequate_next rows perm bg K p g win it0 it1 Hok HM Hperm Hg Hp Hwin Enext Had0 H1).
Qed.

(* along such a run, site 31 can only be reached by the first step *)
Theorem sc_run_no_panic31 : forall steps rows perm bg K p g win,
  matrix_ok K rows bg -> (2 <= length rows)%nat -> length perm = length rows ->
  0 < g -> 0 < p -> (fst win <= snd win + 1)%Z ->
  (forall it0, sc_next NumQ rows perm bg p g win = Ok it0 -> adequate it0) ->
  sc_next NumQ rows perm bg p g win <> Panic 31 ->
  ~ In (Panic 31) (sc_run NumQ steps rows perm bg p g win).
Proof.
  intros steps rows perm bg K p g win Hok HM Hperm Hg Hp. revert g win Hg.
  induction steps as [|n IH]; intros g win Hg Hwin Hfirst Hnp Hin; cbn [sc_run] in Hin; [destruct Hin|].
  rewrite (le_pos_false g Hg) in Hin.
  destruct (sc_next NumQ rows perm bg p g win) as [it0|c|s|] eqn:Enext;
    try (destruct Hin as [Hin|[]]; discriminate).
  - pose proof (Hfirst it0 eq_refl) as Had0.
    destruct Hin as [Hin|Hin]; [discriminate|].
    destruct (io_conv it0); [destruct Hin|].
    destruct (div10_pos g Hg) as [D1 _]. cbn [NumQ n_div n_ten] in D1, Hin.
    pose proof (sc_next_window _ _ _ _ _ _ _ _ Hok HM Hperm Hg Hwin Enext) as Hwin'.
    apply (IH (g / 10) (io_win it0) D1 ltac:(lia)); [| |exact Hin].
    + intros it1 H1.
      exact (sc_next_adequate_next rows perm bg K p g win it0 it1 Hok HM Hperm Hg Hp Hwin Enext Had0 H1).
    + exact (sc_next_no_panic31 rows perm bg K p g win it0 Hok HM Hperm Hg Hp Hwin Enext Had0).
  - destruct Hin as [Hin|[]]. inversion Hin; subst s. apply Hnp. reflexivity.
Qed.

(* the first step on the initial window of `approximate_score`: no word lies above it *)
Theorem sc_first_no_panic31 : forall rows perm bg K p win,
  matrix_ok K rows bg -> (2 <= length rows)%nat -> length perm = length rows ->
  0 <= p ->
  score_window0 NumQ rows perm = Ok win ->
  (fst win <= snd win + 1)%Z /\
  sc_next NumQ rows perm bg p (1 # 10) win <> Panic 31.
Proof.
  intros rows perm bg K p win Hok HM Hperm Hp Hwin.
  unfold score_window0 in Hwin.
  apply rbind_ok in Hwin. destruct Hwin as [G [Hrec Hwin]].
  apply rbind_ok in Hwin. destruct Hwin as [mn [Hmn Hwin]].
  apply rbind_ok in Hwin. destruct Hwin as [smax [Hsmax Hwin]].
  destruct (in_i64 _); [|discriminate]. inversion Hwin; subst win; clear Hwin.
  change (n_tenth NumQ) with (1 # 10) in Hrec.
  assert (Hg : 0 < 1 # 10) by reflexivity.
  pose proof (recompute_emax_nonneg _ _ _ _ _ _ Hok Hg Hrec) as Em0.
  pose proof (ceil_half_pos _ Em0) as Hc.
  change (n_ceilZ NumQ (n_add NumQ (g_emax G) (n_half NumQ))) with (Qceiling (g_emax G + (1 # 2))).
  set (c := Qceiling (g_emax G + (1 # 2))) in *. clearbody c.
  cbn [fst snd].
  destruct (recompute_cells _ _ _ _ _ _ Hok Hrec) as [Hcells [Hmaxr HlenG]].
  destruct (matrix_ok_bg _ _ _ Hok) as [Hunit Hbl].
  destruct (recompute_Q_geom _ _ _ _ Hrec) as [prow [_ [_ [_ [_ [_ [_ [Hminr _]]]]]]]].
  assert (HK : (2 <= K)%nat) by (destruct Hok as [HK _]; exact HK).
  assert (Hbg : forall b, In b bg -> 0 <= b) by (destruct Hok as [_ [_ [_ [Hbg _]]]]; exact Hbg).
  assert (Hbu : bg_unit (K - 1) bg) by (destruct Hok as [_ [_ [_ [_ [Hu _]]]]]; exact Hu).
  apply sum_i64_ok in Hmn. apply sum_i64_ok in Hsmax. rewrite Z.add_0_l in Hmn, Hsmax.
  rewrite Hminr in Hmn. rewrite Hmaxr in Hsmax.
  set (ir := irows (g_int G) bg) in *.
  assert (Hlens : Forall (fun r : list Z => length r = (K - 1)%nat) (g_int G)).
  { eapply Forall_impl; [|exact Hcells]. intros r [Hr _]. exact Hr. }
  assert (Hbnd : forall l, attain l ir -> (mn <= Zsum l <= smax)%Z).
  { intros l Hl. rewrite Hmn, Hsmax. apply (attain_irows_bounds _ bg). exact Hl. }
  destruct (attain_exists (K - 1) (g_int G) bg ltac:(lia) Hbl Hlens) as [l0 Hl0].
  fold ir in Hl0.
  pose proof (Hbnd _ Hl0) as Hb0.
  assert (Hw : (mn <= smax + c + 1)%Z) by lia.
  split; [exact Hw|].
  intros Hpanic. unfold sc_next in Hpanic.
  apply rbind_panic in Hpanic. destruct Hpanic as [Hpanic|[G' [Hrec' Hpanic]]].
  { apply recompute_panic in Hpanic. lia. }
  rewrite Hrec in Hrec'. inversion Hrec'; subst G'; clear Hrec'.
  apply rbind_panic in Hpanic. destruct Hpanic as [Hpanic|[o' [_ Hpanic]]].
  2:{ apply rbind_panic in Hpanic. destruct Hpanic as [Hpanic|[osum' [_ Hpanic]]].
      - apply sum_i64_panic in Hpanic. discriminate.
      - destruct (negb _); discriminate. }
  cbn [fst snd] in Hpanic.
  apply lookup_score_panic_sites in Hpanic.
  destruct Hpanic as [Hd|[_ [rowsq [Hd Hfe]]]].
  { apply distribution_panic in Hd. lia. }
  assert (Hdist : dist_exact ir mn (smax + c) (last rowsq [])).
  { apply (distribution_exact G bg _ _ rowsq (K - 1)%nat Hd); [lia|exact Hcells|exact Hmaxr|exact Hunit|exact Hbl|exact Hw]. }
  destruct Hdist as [body [vb [Hl [_ [_ [Hvb _]]]]]].
  destruct Hfe as [[_ Hneg]|[_ [kb [vb' [Hlast Hlt]]]]]; [lra|].
  rewrite Hl, last_last in Hlast. inversion Hlast; subst kb vb'; clear Hlast.
  rewrite Hvb in Hlt.
  assert (U : unit_rows ir) by (apply (unit_irows (K - 1)); auto).
  assert (E0 : PI_gt ir (smax + c) == 0).
  { unfold PI_gt. rewrite <- (wsum_const_unit ir U 0). apply wsum_ext_in. intros l Hl'.
    pose proof (Hbnd _ Hl') as Hb.
    destruct (Z.ltb_spec (smax + c) (Zsum l)); [lia|reflexivity]. }
  lra.
Qed.

(** every iteration of `approximate_score` works on an adequate window *)
Theorem approximate_score_adequate : forall steps rows perm bg K p win it,
  matrix_ok K rows bg -> (2 <= length rows)%nat -> length perm = length rows ->
  0 < p -> p <= 1 ->
  score_window0 NumQ rows perm = Ok win ->
  In (Ok it) (sc_run NumQ steps rows perm bg p (1 # 10) win) ->
  adequate it.
Proof.
  intros steps rows perm bg K p win it Hok HM Hperm Hp Hp1 Hwin Hin.
  destruct (sc_first_no_panic31 rows perm bg K p win Hok HM Hperm ltac:(lra) Hwin) as [Hw _].
  apply (sc_run_adequate steps rows perm bg K p (1 # 10) win it Hok HM Hperm ltac:(reflexivity) Hp Hw); [|exact Hin].
  intros it0 H0.
  destruct (initial_window_ok rows perm bg K p win it0 Hok HM Hperm Hp Hp1 Hwin H0) as [_ [A1 A2]].
  split; assumption.
Qed.

(** C13 for every iteration of `approximate_score`, without hypotheses on the windows *)
Theorem approximate_score_sound : forall steps rows perm bg K p win it,
  matrix_ok K rows bg -> (2 <= length rows)%nat -> length perm = length rows ->
  0 < p -> p <= 1 ->
  score_window0 NumQ rows perm = Ok win ->
  In (Ok it) (sc_run NumQ steps rows perm bg p (1 # 10) win) ->
  let M := inject_Z (Z.of_nat (length rows)) in
  let cs := perm_cells rows perm in
  let gi := io_gran it in
  let t := io_score it in
  let d := (M + 2) * gi in
  0 < gi /\ gi <= 1 # 10 /\
  tailS cs bg (t + d) <= p /\
  (forall l, attain l (srows cs bg) -> Qsum l < t - d -> p <= tailS cs bg (Qsum l - d)).
Proof.
  intros steps rows perm bg K p win it Hok HM Hperm Hp Hp1 Hwin Hin.
  destruct (sc_first_no_panic31 rows perm bg K p win Hok HM Hperm ltac:(lra) Hwin) as [Hw _].
  destruct (approximate_score_adequate steps rows perm bg K p win it Hok HM Hperm Hp Hp1 Hwin Hin) as [A1 A2].
  exact (sc_run_sound steps rows perm bg K p (1 # 10) win it Hok HM Hperm ltac:(reflexivity) Hp Hw Hin A1 A2).
Qed.

(** `approximate_score` in exact arithmetic never reaches `keys[riter + 1]` out of bounds *)
Theorem approximate_score_no_panic31 : forall steps rows perm bg K p win,
  matrix_ok K rows bg -> (2 <= length rows)%nat -> length perm = length rows ->
  0 < p -> p <= 1 ->
  score_window0 NumQ rows perm = Ok win ->
  ~ In (Panic 31) (sc_run NumQ steps rows perm bg p (1 # 10) win).
Proof.
  intros steps rows perm bg K p win Hok HM Hperm Hp Hp1 Hwin.
  destruct (sc_first_no_panic31 rows perm bg K p win Hok HM Hperm ltac:(lra) Hwin) as [Hw Hfirst].
  apply (sc_run_no_panic31 steps rows perm bg K p (1 # 10) win Hok HM Hperm ltac:(reflexivity) Hp Hw); [|exact Hfirst].
  intros it0 H0.
  destruct (initial_window_ok rows perm bg K p win it0 Hok HM Hperm Hp Hp1 Hwin H0) as [_ [A1 A2]].
  split; assumption.
Qed.

(* ------------------------------------------------------------------ *)
(** * 9. The matrix as given *)

(** T4: C13 for every iteration of `approximate_score`, for the matrix as given *)
Theorem approximate_score_bounds : forall steps rows perm bg K p win it,
  matrix_ok K rows bg -> (2 <= length rows)%nat -> Permutation perm (seq 0 (length rows)) ->
  0 < p -> p <= 1 ->
  score_window0 NumQ rows perm = Ok win ->
  In (Ok it) (sc_run NumQ steps rows perm bg p (1 # 10) win) ->
  let M := inject_Z (Z.of_nat (length rows)) in
  let gi := io_gran it in
  let t := io_score it in
  let d := (M + 2) * gi in
  0 < gi /\ gi <= 1 # 10 /\
  Ptail rows bg (t + d) <= p /\
  (forall l, attain l (srows (sym_cells rows) bg) -> Qsum l < t - d -> p <= Ptail rows bg (Qsum l - d)).
Proof.
  intros steps rows perm bg K p win it Hok HM Hperm Hp Hp1 Hwin Hin.
  pose proof (perm_length _ _ Hperm) as Hlen.
  destruct (sc_first_no_panic31 rows perm bg K p win Hok HM Hlen ltac:(lra) Hwin) as [Hw _].
  destruct (approximate_score_adequate steps rows perm bg K p win it Hok HM Hlen Hp Hp1 Hwin Hin) as [A1 A2].
  exact (sc_run_bounds steps rows perm bg K p (1 # 10) win it Hok HM Hperm ltac:(reflexivity) Hp Hw Hin A1 A2).
Qed.

(* the final threshold (TfmPvalue::score = score of the last iteration) *)
Theorem approximate_score_final : forall steps rows perm bg K p win it,
  matrix_ok K rows bg -> (2 <= length rows)%nat -> Permutation perm (seq 0 (length rows)) ->
  0 < p -> p <= 1 ->
  score_window0 NumQ rows perm = Ok win ->
  last (sc_run NumQ steps rows perm bg p (1 # 10) win) (Panic 0) = Ok it ->
  let M := inject_Z (Z.of_nat (length rows)) in
  let gi := io_gran it in
  let t := io_score it in
  let d := (M + 2) * gi in
  0 < gi /\ gi <= 1 # 10 /\
  Ptail rows bg (t + d) <= p /\
  (forall l, attain l (srows (sym_cells rows) bg) -> Qsum l < t - d -> p <= Ptail rows bg (Qsum l - d)).
Proof.
  intros steps rows perm bg K p win it Hok HM Hperm Hp Hp1 Hwin Hlast.
  apply (approximate_score_bounds steps rows perm bg K p win it Hok HM Hperm Hp Hp1 Hwin).
  apply (last_In _ (Panic 0)); [exact Hlast|discriminate].
Qed.
