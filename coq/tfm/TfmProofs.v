(* Lemmas for the TFM-PVALUE theorems (exact rational arithmetic). *)
From Coq Require Import ZArith QArith Qround List Bool Lia Lqa Sorted Setoid Morphisms.
From LMBase Require Import Res ListX.
From LMTfm Require Import TfmNum TfmModel TfmSpec.
Import ListNotations.
Open Scope Q_scope.

(* ------------------------------------------------------------------ *)
(** * Finite sums of rationals *)

Lemma Qmult_le_l_weak (c a b : Q) : 0 <= c -> a <= b -> c * a <= c * b.
Proof. intros. nra. Qed.

Lemma Qsum_nonneg l : (forall x, In x l -> 0 <= x) -> 0 <= Qsum l.
Proof.
  induction l as [|x r IH]; intros H; simpl; [lra|].
  assert (0 <= x) by (apply H; left; auto).
  assert (0 <= Qsum r) by (apply IH; intros; apply H; right; auto). lra.
Qed.

Lemma Qsum_le_map {A} (f g : A -> Q) l :
  (forall a, In a l -> f a <= g a) -> Qsum (map f l) <= Qsum (map g l).
Proof.
  induction l as [|x r IH]; intros H; simpl; [lra|].
  assert (f x <= g x) by (apply H; left; auto).
  assert (Qsum (map f r) <= Qsum (map g r)) by (apply IH; intros; apply H; right; auto). lra.
Qed.

Lemma Qsum_eq_map {A} (f g : A -> Q) l :
  (forall a, In a l -> f a == g a) -> Qsum (map f l) == Qsum (map g l).
Proof.
  induction l as [|x r IH]; intros H; simpl; [reflexivity|].
  rewrite (H x) by (left; auto). rewrite IH by (intros; apply H; right; auto). reflexivity.
Qed.

Lemma Qsum_plus_map {A} (f g : A -> Q) l :
  Qsum (map (fun a => f a + g a) l) == Qsum (map f l) + Qsum (map g l).
Proof. induction l as [|x r IH]; simpl; [lra|]. rewrite IH. lra. Qed.

Lemma Qsum_scale_map {A} (c : Q) (f : A -> Q) l :
  Qsum (map (fun a => c * f a) l) == c * Qsum (map f l).
Proof. induction l as [|x r IH]; simpl; [lra|]. rewrite IH. lra. Qed.

Lemma Qsum_app l1 l2 : Qsum (l1 ++ l2) == Qsum l1 + Qsum l2.
Proof. induction l1 as [|x r IH]; simpl; [lra|]. rewrite IH. lra. Qed.

Lemma Zsum_app l1 l2 : Zsum (l1 ++ l2) = (Zsum l1 + Zsum l2)%Z.
Proof. induction l1 as [|x r IH]; simpl; [lia|]. rewrite IH. lia. Qed.

Lemma ind_nonneg b : 0 <= ind b.
Proof. destruct b; simpl; lra. Qed.

Lemma ind_le_1 b : ind b <= 1.
Proof. destruct b; simpl; lra. Qed.

Lemma ind_impl (a b : bool) : (a = true -> b = true) -> ind a <= ind b.
Proof. destruct a, b; simpl; intros H; try lra; discriminate (H eq_refl). Qed.

(* ------------------------------------------------------------------ *)
(** * Weighted sums over words *)

Definition wf_rows {A} (rows : list (list (A * Q))) : Prop :=
  forall r, In r rows -> forall ab, In ab r -> 0 <= snd ab.

Lemma wf_rows_cons {A} (r : list (A * Q)) rows :
  wf_rows (r :: rows) -> (forall ab, In ab r -> 0 <= snd ab) /\ wf_rows rows.
Proof.
  intros H; split.
  - intros ab Hab. apply (H r); [left; auto|auto].
  - intros r' Hr'. apply H. right; auto.
Qed.

Lemma attain_nil {A} : @attain A [] [].
Proof. constructor. Qed.

Lemma attain_cons {A} (ab : A * Q) (r : list (A * Q)) l rows :
  In ab r -> attain l rows -> attain (fst ab :: l) (r :: rows).
Proof. intros H1 H2. constructor; [apply in_map; auto|auto]. Qed.

Lemma wsum_ext_in {A} (rows : list (list (A * Q))) :
  forall f g, (forall l, attain l rows -> f l == g l) -> wsum rows f == wsum rows g.
Proof.
  induction rows as [|r rest IH]; intros f g H; simpl.
  - apply H. apply attain_nil.
  - apply Qsum_eq_map. intros ab Hab.
    apply Qmult_comp; [reflexivity|]. apply IH. intros l Hl. apply H. apply attain_cons; auto.
Qed.

Lemma wsum_nonneg {A} (rows : list (list (A * Q))) :
  wf_rows rows -> forall f, (forall l, attain l rows -> 0 <= f l) -> 0 <= wsum rows f.
Proof.
  induction rows as [|r rest IH]; intros W f H; simpl.
  - apply H. apply attain_nil.
  - destruct (wf_rows_cons _ _ W) as [Wr Wrest].
    apply Qsum_nonneg. intros x Hx. apply in_map_iff in Hx. destruct Hx as [ab [<- Hab]].
    apply Qmult_le_0_compat; [apply Wr; auto|].
    apply IH; auto. intros l Hl. apply H. apply attain_cons; auto.
Qed.

Lemma wsum_le {A} (rows : list (list (A * Q))) :
  wf_rows rows -> forall f g, (forall l, attain l rows -> f l <= g l) -> wsum rows f <= wsum rows g.
Proof.
  induction rows as [|r rest IH]; intros W f g H; simpl.
  - apply H. apply attain_nil.
  - destruct (wf_rows_cons _ _ W) as [Wr Wrest].
    apply Qsum_le_map. intros ab Hab.
    apply Qmult_le_l_weak; [apply Wr; auto|].
    apply IH; auto. intros l Hl. apply H. apply attain_cons; auto.
Qed.

Lemma wsum_plus {A} (rows : list (list (A * Q))) :
  forall f g, wsum rows (fun l => f l + g l) == wsum rows f + wsum rows g.
Proof.
  induction rows as [|r rest IH]; intros f g; simpl; [reflexivity|].
  rewrite <- Qsum_plus_map. apply Qsum_eq_map. intros ab _.
  rewrite (IH (fun l => f (fst ab :: l)) (fun l => g (fst ab :: l))). lra.
Qed.

Lemma wsum_scale {A} (rows : list (list (A * Q))) :
  forall c f, wsum rows (fun l => c * f l) == c * wsum rows f.
Proof.
  induction rows as [|r rest IH]; intros c f; simpl; [reflexivity|].
  rewrite <- Qsum_scale_map. apply Qsum_eq_map. intros ab _.
  rewrite (IH c (fun l => f (fst ab :: l))). lra.
Qed.

(* total mass *)
Definition unit_rows {A} (rows : list (list (A * Q))) : Prop :=
  forall r, In r rows -> Qsum (map snd r) == 1.

Lemma wsum_const_unit {A} (rows : list (list (A * Q))) :
  unit_rows rows -> forall c, wsum rows (fun _ => c) == c.
Proof.
  induction rows as [|r rest IH]; intros U c; simpl; [reflexivity|].
  assert (E : Qsum (map (fun ab : A * Q => snd ab * wsum rest (fun _ => c)) r)
              == Qsum (map (fun ab : A * Q => c * snd ab) r)).
  { apply Qsum_eq_map. intros ab _. rewrite IH; [lra|]. intros r' Hr'. apply U. right; auto. }
  rewrite E.
  rewrite (Qsum_scale_map c (fun ab : A * Q => snd ab) r).
  change (map (fun ab : A * Q => snd ab) r) with (map (@snd A Q) r).
  rewrite (U r) by (left; auto). lra.
Qed.

(* change of the value type *)
Lemma wsum_map {A B} (h : A -> B) (rows : list (list (A * Q))) :
  forall f, wsum (map (map (fun ab => (h (fst ab), snd ab))) rows) f == wsum rows (fun l => f (map h l)).
Proof.
  induction rows as [|r rest IH]; intros f; simpl; [reflexivity|].
  rewrite map_map. apply Qsum_eq_map. intros ab _. simpl.
  apply Qmult_comp; [reflexivity|]. rewrite IH. reflexivity.
Qed.

(* ------------------------------------------------------------------ *)
(** * Small tools: the result monad, integer minima *)

Lemma rall_ok {A} (l : list (res A)) l' :
  rall l = Ok l' -> Forall2 (fun x a => x = Ok a) l l'.
Proof.
  revert l'; induction l as [|x r IH]; intros l' H; simpl in H.
  - inversion H; subst. constructor.
  - apply rbind_ok in H. destruct H as [a [Ha H]].
    apply rbind_ok in H. destruct H as [t [Ht H]]. inversion H; subst.
    constructor; auto.
Qed.

Lemma rall_map_ok {A B} (f : A -> res B) l l' :
  rall (map f l) = Ok l' -> Forall2 (fun a b => f a = Ok b) l l'.
Proof.
  revert l'; induction l as [|x r IH]; intros l' H; simpl in H.
  - inversion H; subst. constructor.
  - apply rbind_ok in H. destruct H as [a [Ha H]].
    apply rbind_ok in H. destruct H as [t [Ht H]]. inversion H; subst.
    constructor; auto.
Qed.

Lemma Forall2_impl {A B} (P Q : A -> B -> Prop) l l' :
  (forall a b, P a b -> Q a b) -> Forall2 P l l' -> Forall2 Q l l'.
Proof. intros H; induction 1; constructor; auto. Qed.

Lemma Forall2_map_eq {A B} (f : A -> B) l l' :
  Forall2 (fun a b => f a = b) l l' -> l' = map f l.
Proof. induction 1; simpl; congruence. Qed.

Definition zmin_of (l : list Z) : Z := match l with [] => 0%Z | x :: r => zmin_from x r end.
Definition zmax_of (l : list Z) : Z := match l with [] => 0%Z | x :: r => zmax_from x r end.

Lemma zmin_from_le a l : (zmin_from a l <= a)%Z /\ (forall x, In x l -> (zmin_from a l <= x)%Z).
Proof.
  revert a; induction l as [|y r IH]; intros a; simpl.
  - split; [lia|intros x []].
  - destruct (IH (Z.min a y)) as [H1 H2]. split; [lia|].
    intros x [<-|Hx]; [lia|auto].
Qed.

Lemma zmax_from_ge a l : (a <= zmax_from a l)%Z /\ (forall x, In x l -> (x <= zmax_from a l)%Z).
Proof.
  revert a; induction l as [|y r IH]; intros a; simpl.
  - split; [lia|intros x []].
  - destruct (IH (Z.max a y)) as [H1 H2]. split; [lia|].
    intros x [<-|Hx]; [lia|auto].
Qed.

Lemma zmin_of_le l x : In x l -> (zmin_of l <= x)%Z.
Proof.
  destruct l as [|a r]; intros H; [destruct H|]. simpl.
  destruct (zmin_from_le a r) as [H1 H2]. destruct H as [<-|H]; auto.
Qed.

Lemma zmax_of_ge l x : In x l -> (x <= zmax_of l)%Z.
Proof.
  destruct l as [|a r]; intros H; [destruct H|]. simpl.
  destruct (zmax_from_ge a r) as [H1 H2]. destruct H as [<-|H]; auto.
Qed.

Lemma sum_i64_ok site acc l z : sum_i64 site acc l = Ok z -> z = (acc + Zsum l)%Z.
Proof.
  revert acc; induction l as [|x r IH]; intros acc H; simpl in *.
  - inversion H. lia.
  - destruct (in_i64 (acc + x)); [|discriminate]. apply IH in H. lia.
Qed.

(* ------------------------------------------------------------------ *)
(** * recompute in exact arithmetic *)

Definition qfl (g x : Q) : Z := Qfloor (x / g).
Definition off_of (g : Q) (cs : list Q) : Z := (- zmin_of (map (qfl g) cs))%Z.
Definition ints_of (g : Q) (css : list (list Q)) : list (list Z) :=
  map (fun cs => map (fun x => (qfl g x + off_of g cs)%Z) cs) css.
Definition offs_of (g : Q) (css : list (list Q)) : list Z := map (off_of g) css.

Lemma offset_row_ok ir off ir' :
  offset_row ir = Ok (off, ir') ->
  ir <> [] /\ off = (- zmin_of ir)%Z /\ ir' = map (fun x => (x + off)%Z) ir.
Proof.
  unfold offset_row, zmin_list. destruct ir as [|a r]; [discriminate|].
  cbn [rbind]. change (zmin_of (a :: r)) with (zmin_from a r).
  destruct (zmin_from a r =? i64_min)%Z; [discriminate|].
  destruct (forallb _ _); [|discriminate]. intros H; inversion H; subst.
  repeat split; congruence.
Qed.

Lemma zmin_list_ok l z : zmin_list l = Ok z -> l <> [] /\ z = zmin_of l.
Proof. destruct l; simpl; intros H; inversion H; split; congruence. Qed.

Lemma zmax_list_ok l z : zmax_list l = Ok z -> l <> [] /\ z = zmax_of l.
Proof. destruct l; simpl; intros H; inversion H; split; congruence. Qed.

Lemma raw_int_row_Q g r : raw_int_row NumQ g r = map (qfl g) (cells r).
Proof. reflexivity. Qed.

Lemma recompute_Q_geom rows perm g G :
  recompute NumQ rows perm g = Ok G ->
  exists prow,
    permuted_rows rows perm = Ok prow /\
    g_gran G = g /\ g < 1 /\
    g_int G = ints_of g (map cells prow) /\
    g_off G = offs_of g (map cells prow) /\
    Forall (fun r => cells r <> []) prow /\
    g_minr G = map zmin_of (g_int G) /\
    g_maxr G = map zmax_of (g_int G) /\
    error_max_from NumQ g 0 (tl (combine prow (map (raw_int_row NumQ g) prow))) = Ok (g_emax G).
Proof.
  unfold recompute. intros H.
  destruct (lt NumQ g (n_one NumQ)) eqn:Hlt; [|discriminate]. simpl in H.
  apply rbind_ok in H. destruct H as [prow [Hp H]].
  apply rbind_ok in H. destruct H as [em [Hem H]].
  apply rbind_ok in H. destruct H as [offs [Hoffs H]].
  apply rbind_ok in H. destruct H as [minr [Hminr H]].
  apply rbind_ok in H. destruct H as [maxr [Hmaxr H]].
  inversion H; subst; clear H. simpl.
  exists prow. split; [auto|]. split; [auto|].
  split. { unfold lt in Hlt. simpl in Hlt. unfold Qcmp_opt in Hlt.
           destruct (Qcompare g 1) eqn:E; try discriminate. apply Qlt_alt. auto. }
  rewrite map_map in Hoffs. apply rall_map_ok in Hoffs.
  assert (Hrows : Forall2 (fun r ob => cells r <> [] /\ fst ob = off_of g (cells r) /\
                             snd ob = map (fun x => (qfl g x + off_of g (cells r))%Z) (cells r)) prow offs).
  { eapply Forall2_impl; [|exact Hoffs]. intros r [off ir'] Hr. simpl in Hr.
    apply offset_row_ok in Hr. destruct Hr as [Hne [Hoff Hir]]. rewrite raw_int_row_Q in *.
    simpl. split; [|split].
    - intros E. apply Hne. rewrite E. reflexivity.
    - unfold off_of. auto.
    - rewrite Hir, map_map. unfold off_of. rewrite <- Hoff. reflexivity. }
  assert (Hint : map snd offs = ints_of g (map cells prow)).
  { unfold ints_of. rewrite map_map. clear -Hrows. induction Hrows; simpl; [auto|].
    destruct H as [_ [_ H]]. rewrite H, IHHrows. reflexivity. }
  assert (Hoff : map fst offs = offs_of g (map cells prow)).
  { unfold offs_of. rewrite map_map. clear -Hrows. induction Hrows; simpl; [auto|].
    destruct H as [_ [H _]]. rewrite H, IHHrows. reflexivity. }
  split; [auto|]. split; [auto|].
  split. { clear -Hrows. induction Hrows; constructor; [tauto|auto]. }
  apply rall_map_ok in Hminr. apply rall_map_ok in Hmaxr.
  split. { apply Forall2_map_eq. eapply Forall2_impl; [|exact Hminr]. intros a b Hab. simpl in Hab.
           apply zmin_list_ok in Hab. symmetry; tauto. }
  split. { apply Forall2_map_eq. eapply Forall2_impl; [|exact Hmaxr]. intros a b Hab. simpl in Hab.
           apply zmax_list_ok in Hab. symmetry; tauto. }
  exact Hem.
Qed.

(* ------------------------------------------------------------------ *)
(** * Joint rows: real cell, integer cell, probability *)

Definition jent : Type := ((Q * Z) * Q)%type.

Definition jrow (g : Q) (bg : list Q) (cs : list Q) : list jent :=
  map (fun xb => ((fst xb, (qfl g (fst xb) + off_of g cs)%Z), snd xb)) (combine cs bg).

Definition jrows (g : Q) (bg : list Q) (css : list (list Q)) : list (list jent) :=
  map (jrow g bg) css.

Lemma combine_map_l {A B C} (f : A -> C) (l : list A) (l' : list B) :
  combine (map f l) l' = map (fun ab => (f (fst ab), snd ab)) (combine l l').
Proof.
  revert l'; induction l as [|a r IH]; intros [|b r']; simpl; auto. rewrite IH. reflexivity.
Qed.

Lemma srows_jrows g bg css :
  srows css bg = map (map (fun ab : jent => (fst (fst ab), snd ab))) (jrows g bg css).
Proof.
  unfold srows, jrows. rewrite map_map. apply map_ext. intros cs. unfold jrow.
  rewrite map_map. simpl. rewrite <- (map_id (combine cs bg)) at 1. apply map_ext. intros [a b]; reflexivity.
Qed.

Lemma irows_jrows g bg css :
  irows (ints_of g css) bg = map (map (fun ab : jent => (snd (fst ab), snd ab))) (jrows g bg css).
Proof.
  unfold irows, jrows, ints_of. rewrite !map_map. apply map_ext. intros cs. unfold jrow.
  rewrite map_map. simpl. rewrite combine_map_l. reflexivity.
Qed.

Lemma wsum_S_joint g bg css f :
  wsum (srows css bg) f == wsum (jrows g bg css) (fun l => f (map (fun xc => fst xc) l)).
Proof. rewrite (srows_jrows g). apply (wsum_map (fun xc : Q * Z => fst xc)). Qed.

Lemma wsum_I_joint g bg css f :
  wsum (irows (ints_of g css) bg) f == wsum (jrows g bg css) (fun l => f (map (fun xc => snd xc) l)).
Proof. rewrite (irows_jrows g). apply (wsum_map (fun xc : Q * Z => snd xc)). Qed.

Lemma in_combine_snd_nonneg {A} (cs : list A) (bg : list Q) ab :
  (forall b, In b bg -> 0 <= b) -> In ab (combine cs bg) -> 0 <= snd ab.
Proof. intros H Hin. destruct ab as [a b]. apply in_combine_r in Hin. apply H. auto. Qed.

Lemma wf_jrows g bg css : (forall b, In b bg -> 0 <= b) -> wf_rows (jrows g bg css).
Proof.
  intros H r Hr ab Hab. unfold jrows in Hr. apply in_map_iff in Hr. destruct Hr as [cs [<- _]].
  unfold jrow in Hab. apply in_map_iff in Hab. destruct Hab as [xb [<- Hxb]]. simpl.
  eapply in_combine_snd_nonneg; eauto.
Qed.

Lemma wf_irows ints bg : (forall b, In b bg -> 0 <= b) -> wf_rows (irows ints bg).
Proof.
  intros H r Hr ab Hab. unfold irows in Hr. apply in_map_iff in Hr. destruct Hr as [cs [<- _]].
  eapply in_combine_snd_nonneg; eauto.
Qed.

(* the first N background frequencies sum to one, every row has N cells *)
Definition bg_unit (n : nat) (bg : list Q) : Prop := Qsum (firstn n bg) == 1.

Lemma map_snd_combine_firstn {A} (cs : list A) (bg : list Q) :
  (length cs <= length bg)%nat -> map snd (combine cs bg) = firstn (length cs) bg.
Proof.
  revert bg; induction cs as [|a r IH]; intros [|b bg] H; simpl in *; auto; try lia.
  rewrite IH by lia. reflexivity.
Qed.

Lemma unit_irows n ints bg :
  bg_unit n bg -> (n <= length bg)%nat -> Forall (fun r => length r = n) ints -> unit_rows (irows ints bg).
Proof.
  intros U Hn F r Hr. unfold irows in Hr. apply in_map_iff in Hr. destruct Hr as [cs [<- Hcs]].
  rewrite Forall_forall in F. specialize (F _ Hcs).
  rewrite map_snd_combine_firstn by lia. rewrite F. exact U.
Qed.

(* ------------------------------------------------------------------ *)
(** * The integer score of a word and its rounding error *)

Lemma qfl_bounds g x : 0 < g -> 0 <= x / g - inject_Z (qfl g x) /\ x / g - inject_Z (qfl g x) < 1.
Proof.
  intros Hg. unfold qfl. set (q := x / g). pose proof (Qfloor_le q) as H1. pose proof (Qlt_floor q) as H2.
  rewrite inject_Z_plus in H2. change (inject_Z 1) with 1 in H2.
  set (f := inject_Z (Qfloor q)) in *. split; lra.
Qed.

Lemma Qdiv_plus_distr (a b g : Q) : ~ g == 0 -> (a + b) / g == a / g + b / g.
Proof. intros. field. auto. Qed.

(* S/g + sum of offsets - I lies in [0, M) for every word *)
Lemma int_score_error_coarse g bg css l :
  0 < g -> attain l (jrows g bg css) ->
  let S := Qsum (map (fun xc : Q * Z => fst xc) l) in
  let I := Zsum (map (fun xc : Q * Z => snd xc) l) in
  0 <= S / g + inject_Z (Zsum (offs_of g css)) - inject_Z I /\
  S / g + inject_Z (Zsum (offs_of g css)) - inject_Z I <= inject_Z (Z.of_nat (length css)) /\
  (css <> [] -> S / g + inject_Z (Zsum (offs_of g css)) - inject_Z I < inject_Z (Z.of_nat (length css))).
Proof.
  intros Hg. revert l. induction css as [|cs rest IH]; intros l Hat; simpl.
  - inversion Hat; subst. simpl. unfold Qdiv. rewrite Qmult_0_l. change (inject_Z 0) with 0.
    split; [lra|]. split; [lra|]. intros E; congruence.
  - inversion Hat as [|xc r l' rows' Hin Hrest]; subst. simpl.
    specialize (IH l' Hrest). simpl in IH. destruct IH as [IH1 [IH2 IH3]].
    apply in_map_iff in Hin. destruct Hin as [e [He Hin]]. unfold jrow in Hin.
    apply in_map_iff in Hin. destruct Hin as [xb [<- Hxb]]. simpl in He. subst xc. simpl.
    destruct (qfl_bounds g (fst xb) Hg) as [B1 B2].
    assert (Hg0 : ~ g == 0) by lra.
    rewrite (Qdiv_plus_distr _ _ _ Hg0).
    rewrite !inject_Z_plus. rewrite Zpos_P_of_succ_nat. unfold Z.succ. rewrite inject_Z_plus.
    change (inject_Z 1) with 1.
    set (S' := Qsum (map (fun xc : Q * Z => fst xc) l')) in *.
    set (I' := inject_Z (Zsum (map (fun xc : Q * Z => snd xc) l'))) in *.
    set (O' := inject_Z (Zsum (offs_of g rest))) in *.
    set (o := inject_Z (off_of g cs)) in *.
    set (f := inject_Z (qfl g (fst xb))) in *.
    set (n := inject_Z (Z.of_nat (length rest))) in *.
    split; [lra|]. split; [lra|]. intros _. lra.
Qed.

(* integer cells are non-negative *)
Lemma jrow_cell_nonneg g bg cs e : In e (jrow g bg cs) -> (0 <= snd (fst e))%Z.
Proof.
  unfold jrow. intros H. apply in_map_iff in H. destruct H as [xb [<- Hxb]]. simpl.
  unfold off_of. assert (In (qfl g (fst xb)) (map (qfl g) cs)).
  { apply in_map. destruct xb as [x b]. apply in_combine_l in Hxb. auto. }
  pose proof (zmin_of_le _ _ H). lia.
Qed.

(* ------------------------------------------------------------------ *)
(** * error_max *)

Lemma max_by_pc_Q acc l :
  In (max_by_pc NumQ acc l) (acc :: l) /\ forall y, In y (acc :: l) -> y <= max_by_pc NumQ acc l.
Proof.
  revert acc; induction l as [|y r IH]; intros acc; simpl.
  - split; [left; auto|]. intros z [<-|[]]. lra.
  - unfold Qcmp_opt. destruct (Qcompare acc y) eqn:E.
    + apply Qeq_alt in E. destruct (IH y) as [H1 H2]. split.
      * simpl in H1. tauto.
      * intros z [<-|[<-|Hz]].
        -- rewrite E. apply H2. left; auto.
        -- apply H2. left; auto.
        -- apply H2. right; auto.
    + apply Qlt_alt in E. destruct (IH y) as [H1 H2]. split.
      * simpl in H1. tauto.
      * intros z [<-|[<-|Hz]].
        -- assert (y <= max_by_pc NumQ y r) by (apply H2; left; auto). lra.
        -- apply H2. left; auto.
        -- apply H2. right; auto.
    + apply Qgt_alt in E. destruct (IH acc) as [H1 H2]. split.
      * simpl in H1. simpl. tauto.
      * intros z [<-|[<-|Hz]].
        -- apply H2. left; auto.
        -- assert (acc <= max_by_pc NumQ acc r) by (apply H2; left; auto). lra.
        -- apply H2. right; auto.
Qed.

Lemma combine_app_eq {A B} (l1 l2 : list A) (l1' l2' : list B) :
  length l1 = length l1' -> combine (l1 ++ l2) (l1' ++ l2') = combine l1 l1' ++ combine l2 l2'.
Proof.
  revert l1'; induction l1 as [|a r IH]; intros [|b r'] H; simpl in *; try discriminate; auto.
  rewrite IH by lia. reflexivity.
Qed.

Lemma combine_map_self {A B} (f : A -> B) (l : list A) :
  combine l (map f l) = map (fun a => (a, f a)) l.
Proof. induction l as [|a r IH]; simpl; auto. rewrite IH. reflexivity. Qed.

Definition cell_err (g x : Q) : Q := x / g - inject_Z (qfl g x).

Lemma row_errs_Q g row :
  row_errs NumQ g row (map (qfl g) (cells row)) = map (cell_err g) (cells row).
Proof.
  unfold row_errs. rewrite combine_map_self, map_map. reflexivity.
Qed.

Lemma row_max_err_Q g row e :
  0 < g -> cells row <> [] ->
  row_max_err NumQ g row (map (qfl g) (cells row)) = Ok e ->
  0 <= e /\ e < 1 /\ forall x, In x (cells row) -> cell_err g x <= e.
Proof.
  intros Hg Hne. unfold row_max_err. rewrite row_errs_Q.
  destruct (cells row) as [|x0 cs] eqn:Ecs; [congruence|]. simpl.
  intros H; inversion H; subst; clear H.
  set (l := map (cell_err g) cs).
  destruct (max_by_pc_Q (cell_err g x0) l) as [H1 H2].
  assert (Hall : forall y, In y (cell_err g x0 :: l) -> y < 1).
  { intros y [<-|Hy].
    - apply qfl_bounds; auto.
    - unfold l in Hy. apply in_map_iff in Hy. destruct Hy as [x [<- _]]. apply qfl_bounds; auto. }
  split; [|split].
  - assert (cell_err g x0 <= max_by_pc NumQ (cell_err g x0) l) by (apply H2; left; auto).
    destruct (qfl_bounds g x0 Hg). unfold cell_err in *. lra.
  - apply Hall. exact H1.
  - intros x [<-|Hx].
    + apply H2. left; auto.
    + apply H2. right. unfold l. apply in_map. auto.
Qed.

(* sum of the per-row maxima *)
Lemma error_max_from_Q g acc (rs : list (list Q)) em :
  0 < g ->
  Forall (fun r => cells r <> []) rs ->
  error_max_from NumQ g acc (map (fun r => (r, raw_int_row NumQ g r)) rs) = Ok em ->
  acc <= em /\ em <= acc + inject_Z (Z.of_nat (length rs)) /\
  exists es, Forall2 (fun r e => forall x, In x (cells r) -> cell_err g x <= e) rs es /\ em == acc + Qsum es.
Proof.
  intros Hg. revert acc. induction rs as [|r rest IH]; intros acc F H; simpl in H.
  - inversion H; subst. simpl. change (inject_Z 0) with 0. split; [lra|]. split; [lra|].
    exists []. split; [constructor|simpl; lra].
  - apply rbind_ok in H. destruct H as [e [He H]].
    inversion F as [|? ? Hne Frest]; subst.
    rewrite raw_int_row_Q in He. apply row_max_err_Q in He; auto. destruct He as [E0 [E1 E2]].
    apply IH in H; auto. simpl in H. destruct H as [H1 [H2 [es [H3 H4]]]].
    simpl length. rewrite Nat2Z.inj_succ. unfold Z.succ. rewrite inject_Z_plus. change (inject_Z 1) with 1.
    split; [lra|]. split; [lra|].
    exists (e :: es). split; [constructor; auto|]. simpl. rewrite H4. lra.
Qed.

(* ------------------------------------------------------------------ *)
(** * Sorted key lists *)

Lemma SSorted_app {A} (R : A -> A -> Prop) l1 l2 :
  StronglySorted R l1 -> StronglySorted R l2 -> (forall x y, In x l1 -> In y l2 -> R x y) ->
  StronglySorted R (l1 ++ l2).
Proof.
  induction l1 as [|a r IH]; intros S1 S2 H; simpl; auto.
  inversion S1; subst. constructor.
  - apply IH; auto. intros; apply H; auto. right; auto.
  - apply Forall_app. split; auto. rewrite Forall_forall. intros y Hy. apply H; auto. left; auto.
Qed.

Lemma SSorted_rev {A} (R : A -> A -> Prop) l :
  StronglySorted R l -> StronglySorted (fun a b => R b a) (rev l).
Proof.
  induction 1 as [|a l S IH F]; simpl; [constructor|].
  apply SSorted_app; auto.
  - constructor; constructor.
  - intros x y Hx [<-|[]]. rewrite Forall_forall in F. apply F. apply in_rev. auto.
Qed.

Lemma SSorted_lt_inv a l : StronglySorted Z.lt (a :: l) -> forall x, In x l -> (a < x)%Z.
Proof. intros H. inversion H; subst. rewrite Forall_forall in H3. auto. Qed.

Lemma SSorted_gt_inv a l : StronglySorted (fun x y => (y < x)%Z) (a :: l) -> forall x, In x l -> (x < a)%Z.
Proof. intros H. inversion H; subst. rewrite Forall_forall in H3. auto. Qed.

(* ------------------------------------------------------------------ *)
(** * Finite maps *)

Lemma fm_get_in {T} k (m : list (Z * T)) v : fm_get k m = Some v -> In (k, v) m.
Proof.
  induction m as [|[k' v'] r IH]; simpl; [discriminate|].
  destruct (Z.eqb_spec k k') as [->|Hne]; intros H.
  - inversion H; subst. left; auto.
  - right; auto.
Qed.

Lemma cum_desc_keys sum (d : fmap (T:=Q)) : map fst (cum_desc NumQ sum d) = map fst d.
Proof. revert sum; induction d as [|[k v] r IH]; intros sum; simpl; auto. rewrite IH. reflexivity. Qed.

Lemma walk_down_in thr (d : fmap (T:=Q)) kv : walk_down NumQ thr d = Some kv -> In kv d.
Proof.
  induction d as [|a r IH]; simpl; [discriminate|].
  destruct r as [|b r'].
  - intros H; inversion H; left; auto.
  - destruct (ge NumQ _ thr); intros H.
    + right. apply IH. exact H.
    + inversion H. left; auto.
Qed.

Lemma find_sorted_min avg (l : list (Z * Q)) kv :
  StronglySorted Z.lt (map fst l) ->
  find (fun kv => (avg <=? fst kv)%Z) l = Some kv ->
  In kv l /\ (avg <= fst kv)%Z /\ forall kv', In kv' l -> (avg <= fst kv')%Z -> (fst kv <= fst kv')%Z.
Proof.
  induction l as [|a r IH]; simpl; [discriminate|]. intros S.
  destruct (Z.leb_spec avg (fst a)) as [Ha|Ha]; intros H.
  - inversion H; subst. split; [left; auto|]. split; [auto|].
    intros kv' [<-|Hin] _; [lia|].
    assert (fst kv < fst kv')%Z by (eapply SSorted_lt_inv; [exact S|apply in_map; auto]). lia.
  - inversion S; subst. destruct (IH H2 H) as [I1 [I2 I3]].
    split; [right; auto|]. split; [auto|].
    intros kv' [<-|Hin] Hle; [lia|auto].
Qed.

(* ------------------------------------------------------------------ *)
(** * Distribution of the integer score *)

Lemma PI_ge_mono ir k1 k2 : wf_rows ir -> (k1 <= k2)%Z -> PI_ge ir k2 <= PI_ge ir k1.
Proof.
  intros W H. unfold PI_ge. apply wsum_le; auto. intros l _. apply ind_impl.
  intros E. apply Z.leb_le in E. apply Z.leb_le. lia.
Qed.

Lemma PI_ge_le_1 ir k : wf_rows ir -> unit_rows ir -> PI_ge ir k <= 1.
Proof.
  intros W U. unfold PI_ge. rewrite <- (wsum_const_unit ir U 1).
  apply wsum_le; auto. intros l _. apply ind_le_1.
Qed.

Lemma PI_ge_nonneg ir k : wf_rows ir -> 0 <= PI_ge ir k.
Proof. intros W. unfold PI_ge. apply wsum_nonneg; auto. intros l _. apply ind_nonneg. Qed.

Lemma PI_gt_ge ir k : PI_gt ir k == PI_ge ir (k + 1).
Proof.
  unfold PI_gt, PI_ge. apply wsum_ext_in. intros l _.
  destruct (Z.ltb_spec k (Zsum l)), (Z.leb_spec (k + 1) (Zsum l)); simpl; try lra; lia.
Qed.

(* cumulative sums from the top are the tails of the integer score *)
Lemma cum_desc_spec ir mn :
  forall (desc : fmap (T:=Q)) sum kprev,
    StronglySorted (fun x y => (y < x)%Z) (map fst desc) ->
    (forall kv, In kv desc -> (mn <= fst kv < kprev)%Z /\ snd kv == PI_eq ir (fst kv)) ->
    sum == PI_ge ir kprev ->
    (forall l, attain l ir -> (mn <= Zsum l < kprev)%Z -> In (Zsum l) (map fst desc)) ->
    forall kc, In kc (cum_desc NumQ sum desc) -> snd kc == PI_ge ir (fst kc).
Proof.
  induction desc as [|[k v] r IH]; intros sum kprev S V Hs C kc Hin; simpl in Hin; [destruct Hin|].
  assert (Hk : (mn <= k < kprev)%Z /\ v == PI_eq ir k) by (apply (V (k, v)); left; auto).
  destruct Hk as [Hk Hv].
  assert (Hs' : sum + v == PI_ge ir k).
  { rewrite Hs, Hv. unfold PI_ge, PI_eq. rewrite <- wsum_plus. apply wsum_ext_in. intros l Hl.
    destruct (Z.leb_spec kprev (Zsum l)), (Z.eqb_spec (Zsum l) k), (Z.leb_spec k (Zsum l));
      simpl; try lra; try lia.
    exfalso. assert (Hin' : In (Zsum l) (map fst ((k, v) :: r))) by (apply C; auto; lia).
    simpl in Hin'. destruct Hin' as [E|Hin']; [lia|].
    simpl in S. pose proof (SSorted_gt_inv _ _ S _ Hin'). lia. }
  destruct Hin as [<-|Hin]; [exact Hs'|].
  simpl in S. inversion S; subst.
  eapply (IH (n_add NumQ sum v) k); eauto.
  - intros kv Hkv. destruct (V kv) as [V1 V2]; [right; auto|]. split; auto.
    assert (fst kv < k)%Z by (eapply SSorted_gt_inv; [exact S|apply in_map; auto]). lia.
  - intros l Hl Hr. assert (Hin' : In (Zsum l) (map fst ((k, v) :: r))) by (apply C; auto; lia).
    simpl in Hin'. destruct Hin' as [E|Hin']; [lia|auto].
Qed.

(* ------------------------------------------------------------------ *)
(** * lookup_pvalue on an exact table *)

Lemma in_rev1 {A} (l : list A) x : In x (rev l) -> In x l.
Proof. intros H. apply in_rev in H. auto. Qed.
Lemma in_rev2 {A} (l : list A) x : In x l -> In x (rev l).
Proof. intros H. apply in_rev. rewrite rev_involutive. auto. Qed.

Lemma pv_table_sound ir mn mx avg thr (lastm : fmap (T:=Q)) :
  wf_rows ir -> dist_exact ir mn mx lastm -> (mn <= avg)%Z -> (mn <= mx + 1)%Z ->
  let pvd := cum_desc NumQ 0 (rev lastm) in
  let pva := rev pvd in
  let s := match find (fun kv => (avg <=? fst kv)%Z) pva with Some kv => fst kv | None => (mx + 1)%Z end in
  forall pmin kv,
    fm_get s pva = Some pmin ->
    walk_down NumQ thr (filter (fun kv => (fst kv <=? s)%Z) pvd) = Some kv ->
    pmin == PI_ge ir s /\ snd kv == PI_ge ir (fst kv) /\ (mn <= fst kv <= s)%Z /\
    (forall l, attain l ir -> (avg <= Zsum l)%Z -> (s <= Zsum l)%Z).
Proof.
  intros W [body [vb [Hl [Hsort [Hbody [Hvb Hcomp]]]]]] Hmn Hmx pvd pva s pmin kv Hget Hwalk.
  (* every cumulative sum is a tail *)
  assert (Hrev : rev lastm = ((mx + 1)%Z, vb) :: rev body).
  { rewrite Hl, rev_app_distr. reflexivity. }
  assert (Hpvd : forall kc, In kc pvd -> snd kc == PI_ge ir (fst kc)).
  { unfold pvd. rewrite Hrev. simpl. intros kc [<-|Hin].
    - simpl. rewrite Hvb, PI_gt_ge. lra.
    - eapply (cum_desc_spec ir mn (rev body) (0 + vb) (mx + 1)%Z); eauto.
      + rewrite map_rev. apply (SSorted_rev Z.lt). exact Hsort.
      + intros kv' Hkv'. apply in_rev1 in Hkv'. destruct (Hbody _ Hkv') as [B1 B2]. split; [lia|auto].
      + rewrite Hvb, PI_gt_ge. lra.
      + intros l Hat Hr. rewrite map_rev. apply in_rev2. apply Hcomp; auto. lia. }
  (* keys *)
  assert (Hkeys : map fst pva = map fst body ++ [(mx + 1)%Z]).
  { unfold pva, pvd. rewrite map_rev, cum_desc_keys, map_rev, rev_involutive, Hl, map_app. reflexivity. }
  assert (Hbk : forall k, In k (map fst body) -> (mn <= k <= mx)%Z).
  { intros k Hk. apply in_map_iff in Hk. destruct Hk as [kv' [<- Hkv']]. apply Hbody; auto. }
  assert (Hsorted : StronglySorted Z.lt (map fst pva)).
  { rewrite Hkeys. apply SSorted_app; auto.
    - constructor; constructor.
    - intros x y Hx [<-|[]]. apply Hbk in Hx. lia. }
  assert (Hrange : forall kc, In kc pva -> (mn <= fst kc <= mx + 1)%Z).
  { intros kc Hkc. assert (In (fst kc) (map fst pva)) by (apply in_map; auto).
    rewrite Hkeys in H. apply in_app_or in H. destruct H as [H|[<-|[]]]; [apply Hbk in H|]; lia. }
  assert (Hs : (mn <= s <= mx + 1)%Z /\
               forall kv', In kv' pva -> (avg <= fst kv')%Z -> (s <= fst kv')%Z).
  { unfold s. destruct (find _ pva) as [kv0|] eqn:Ef.
    - destruct (find_sorted_min avg pva kv0 Hsorted Ef) as [F1 [F2 F3]]. split; auto.
    - split; [lia|]. intros kv' Hin Hle. pose proof (find_none _ _ Ef kv' Hin) as Hf. simpl in Hf.
      apply Z.leb_gt in Hf. lia. }
  destruct Hs as [Hs1 Hs2].
  apply fm_get_in in Hget. apply walk_down_in in Hwalk. apply filter_In in Hwalk.
  destruct Hwalk as [Hw1 Hw2]. apply Z.leb_le in Hw2.
  split; [|split; [|split]].
  - apply (Hpvd (s, pmin)). apply in_rev1. exact Hget.
  - apply Hpvd; auto.
  - assert (In kv pva) by (apply in_rev2; auto). apply Hrange in H. lia.
  - intros l Hat Havg. destruct (Z.leb_spec (Zsum l) mx) as [Hle|Hgt]; [|lia].
    assert (Hin : In (Zsum l) (map fst body)) by (apply Hcomp; auto; lia).
    assert (Hin' : In (Zsum l) (map fst pva)) by (rewrite Hkeys; apply in_or_app; left; auto).
    apply in_map_iff in Hin'. destruct Hin' as [kv' [E Hkv']]. rewrite <- E. apply Hs2; auto. lia.
Qed.

(* ------------------------------------------------------------------ *)
(** * lookup_pvalue_sound *)

Definition matrix_ok (K : nat) (rows : list (list Q)) (bg : list Q) : Prop :=
  (2 <= K)%nat /\ Forall (fun r => length r = K) rows /\ length bg = K /\
  (forall b, In b bg -> 0 <= b) /\ bg_unit (K - 1) bg /\
  last bg 0 == 0.

Lemma permuted_rows_spec (rows : list (list Q)) perm prow :
  permuted_rows rows perm = Ok prow ->
  length prow = length perm /\ Forall (fun r => In r rows) prow /\
  map cells prow = perm_cells rows perm.
Proof.
  unfold permuted_rows. intros H. apply rall_map_ok in H.
  induction H as [|p r perm' prow' Hp Hrest IH]; simpl.
  - repeat split; constructor.
  - destruct IH as [I1 [I2 I3]]. destruct (nth_error rows p) as [r'|] eqn:E; [|discriminate].
    inversion Hp; subst. split; [lia|]. split.
    + constructor; auto. eapply nth_error_In; eauto.
    + unfold perm_cells in *. simpl. rewrite I3. f_equal. unfold cells.
      rewrite (nth_error_nth _ _ _ E). reflexivity.
Qed.

Lemma cells_length (r : list Q) K : length r = K -> length (cells r) = (K - 1)%nat.
Proof.
  intros H. unfold cells. destruct r as [|a r'] using rev_ind; [simpl in *; lia|].
  rewrite removelast_last. rewrite app_length in H. simpl in H. lia.
Qed.

Lemma up_arith (g S O I M score : Q) :
  0 < g -> score + (M + 1) * g <= S -> 0 <= S / g + O - I -> S / g + O - I <= M ->
  score / g + O + 1 <= I.
Proof.
  intros Hg H1 H2 H3.
  assert (E : (score + (M + 1) * g) / g == score / g + (M + 1)) by (field; lra).
  assert (H4 : (score + (M + 1) * g) / g <= S / g).
  { unfold Qdiv. apply Qmult_le_compat_r; auto. apply Qlt_le_weak. apply Qinv_lt_0_compat; auto. }
  rewrite E in H4. lra.
Qed.

Lemma dn_arith (g S O I M score em : Q) (mn : Z) :
  0 < g -> mn = Qfloor (score / g + O - em - 1) -> inject_Z mn <= I -> em <= M ->
  0 <= S / g + O - I -> score - (M + 2) * g <= S.
Proof.
  intros Hg Hmn H1 H2 H3.
  pose proof (Qlt_floor (score / g + O - em - 1)) as F. rewrite <- Hmn in F.
  rewrite inject_Z_plus in F. change (inject_Z 1) with 1 in F.
  assert (H4 : score / g - (M + 2) <= S / g) by lra.
  assert (E1 : S / g * g == S) by (field; lra).
  assert (E2 : score / g * g == score) by (field; lra).
  set (u := S / g) in *. set (v := score / g) in *. nra.
Qed.

Lemma attain_map {A B} (h : A -> B) (l : list A) (rows : list (list (A * Q))) :
  attain l rows -> attain (map h l) (map (map (fun ab => (h (fst ab), snd ab))) rows).
Proof.
  induction 1 as [|a r l' rows' Hin Hrest IH]; simpl; constructor; auto.
  rewrite map_map. simpl. apply in_map_iff in Hin. destruct Hin as [ab [<- Hab]].
  apply in_map_iff. exists ab. auto.
Qed.

Lemma tl_map {A B} (f : A -> B) l : tl (map f l) = map f (tl l).
Proof. destruct l; reflexivity. Qed.

Lemma Forall_tl {A} (P : A -> Prop) l : Forall P l -> Forall P (tl l).
Proof. destruct 1; simpl; auto. Qed.

Theorem lookup_pvalue_sound rows perm bg K g G score o :
  matrix_ok K rows bg -> 0 < g -> length perm = length rows ->
  recompute NumQ rows perm g = Ok G ->
  lookup_pvalue NumQ G bg score = Ok o ->
  dist_exact (irows (g_int G) bg) (pv_lo o) (pv_hi o) (last (pv_rows o) []) ->
  let M := inject_Z (Z.of_nat (length rows)) in
  let cs := perm_cells rows perm in
  pv_min o <= pv_max o /\ 0 <= pv_min o /\ pv_max o <= 1 /\
  tailS cs bg (score + (M + 1) * g) <= pv_min o /\
  pv_max o <= tailS cs bg (score - (M + 2) * g).
Proof.
  intros [HK [Hlen [Hbgl [Hbg [Hunit Hwild]]]]] Hg Hperm Hrec Hlook Hdist M cs.
  destruct (recompute_Q_geom _ _ _ _ Hrec) as [prow [Hp [Hgran [Hg1 [Hint [Hoff [Hne [_ [_ Hem]]]]]]]]].
  destruct (permuted_rows_spec _ _ _ Hp) as [Hplen [Hpin Hcells]].
  set (css := map cells prow) in *.
  assert (Hcs : cs = css) by (unfold cs; symmetry; exact Hcells).
  (* error_max bounds *)
  rewrite combine_map_self, tl_map in Hem.
  apply error_max_from_Q in Hem; auto; [|apply Forall_tl; auto].
  destruct Hem as [Em0 [Em1 _]].
  assert (EmM : g_emax G <= M).
  { unfold M. rewrite <- Hperm, <- Hplen.
    assert (inject_Z (Z.of_nat (length (tl prow))) <= inject_Z (Z.of_nat (length prow))).
    { rewrite <- Zle_Qle. destruct prow; simpl; lia. }
    lra. }
  (* unfold the lookup *)
  unfold lookup_pvalue in Hlook. cbn [NumQ n_isnan n_add n_sub n_div n_ofZ n_floorZ n_one n_zero] in Hlook.
  apply rbind_ok in Hlook. destruct Hlook as [osum [Hosum Hlook]].
  apply rbind_ok in Hlook. destruct Hlook as [rows_t [Hrows_t Hlook]].
  apply sum_i64_ok in Hosum. rewrite Z.add_0_l in Hosum.
  rewrite Hgran in Hlook.
  set (scaled := score / g + inject_Z osum) in *.
  set (avg := Qfloor scaled) in *.
  set (mx := Qfloor (scaled + g_emax G + 1)) in *.
  set (mn := Qfloor (scaled - g_emax G - 1)) in *.
  set (lastm := last rows_t []) in *.
  destruct (fm_get _ _) as [pmin|] eqn:Hget; [|discriminate].
  destruct (walk_down _ _ _) as [kv|] eqn:Hwalk; [|discriminate].
  inversion Hlook; subst o; clear Hlook. simpl in *.
  fold mx in Hdist. fold mn in Hdist. fold lastm in Hdist.
  set (ir := irows (g_int G) bg) in *.
  assert (W : wf_rows ir) by (apply wf_irows; auto).
  assert (U : unit_rows ir).
  { apply (unit_irows (K - 1)); auto; [lia|]. rewrite Hint. unfold ints_of. rewrite Forall_forall.
    intros r Hr. apply in_map_iff in Hr. destruct Hr as [c [<- Hc]]. rewrite map_length.
    unfold css in Hc. apply in_map_iff in Hc. destruct Hc as [r0 [<- Hr0]]. apply cells_length.
    rewrite Forall_forall in Hlen, Hpin. apply Hlen. apply Hpin. auto. }
  assert (Hmnavg : (mn <= avg)%Z) by (apply (Qfloor_resp_le (scaled - g_emax G - 1) scaled); lra).
  assert (Havgmx : (avg <= mx)%Z) by (apply (Qfloor_resp_le scaled (scaled + g_emax G + 1)); lra).
  destruct (pv_table_sound ir mn mx avg _ lastm W Hdist Hmnavg ltac:(lia) pmin kv Hget Hwalk)
    as [Hpmin [Hpmax [Hkv Hs]]].
  set (s := match find (fun kv0 : Z * Q => (avg <=? fst kv0)%Z) (rev (cum_desc NumQ 0 (rev lastm))) with
            | Some kv0 => fst kv0 | None => (mx + 1)%Z end) in *.
  assert (Hc1 : forall x, x <= 1 -> clamp1 NumQ x = x).
  { intros x Hx. unfold clamp1, gt. cbn [NumQ n_cmp n_one]. unfold Qcmp_opt.
    destruct (Qcompare x 1) eqn:Ec; try reflexivity. apply Qgt_alt in Ec. lra. }
  rewrite (Hc1 pmin) by (rewrite Hpmin; apply PI_ge_le_1; auto).
  rewrite (Hc1 (snd kv)) by (rewrite Hpmax; apply PI_ge_le_1; auto).
  rewrite Hpmin, Hpmax.
  split. { apply PI_ge_mono; auto. lia. }
  split. { apply PI_ge_nonneg; auto. }
  split. { apply PI_ge_le_1; auto. }
  (* the two brackets, through the joint rows *)
  assert (WJ : wf_rows (jrows g bg css)) by (apply wf_jrows; auto).
  assert (Hosum' : osum = Zsum (offs_of g css)) by (rewrite Hosum, Hoff; reflexivity).
  assert (HM : M = inject_Z (Z.of_nat (length css))).
  { unfold M, css. rewrite map_length, Hplen, Hperm. reflexivity. }
  unfold tailS. rewrite Hcs. unfold PI_ge, ir. rewrite Hint.
  rewrite !(wsum_S_joint g), !(wsum_I_joint g).
  split.
  - apply wsum_le; auto. intros l Hl. apply ind_impl. intros Hle.
    apply Qle_bool_iff in Hle. apply Z.leb_le.
    destruct (int_score_error_coarse g bg css l Hg Hl) as [E0 [E1 _]]. rewrite <- HM, <- Hosum' in *.
    apply Hs.
    + unfold ir. rewrite Hint, (irows_jrows g). apply (attain_map (fun xc : Q * Z => snd xc)). exact Hl.
    + pose proof (up_arith g _ _ _ M score Hg Hle E0 E1) as HA. fold scaled in HA.
      assert (HF : inject_Z avg <= scaled) by exact (Qfloor_le scaled).
      rewrite Zle_Qle. apply Qle_trans with scaled; [exact HF|].
      apply Qle_trans with (scaled + 1); [|exact HA].
      rewrite <- (Qplus_0_r scaled) at 1. apply Qplus_le_r. discriminate.
  - apply Qle_trans with (wsum (jrows g bg css) (fun l => ind (mn <=? Zsum (map (fun xc : Q * Z => snd xc) l))%Z)).
    + apply wsum_le; auto. intros l _. apply ind_impl. intros E. apply Z.leb_le in E. apply Z.leb_le. lia.
    + apply wsum_le; auto. intros l Hl. apply ind_impl. intros Hle. apply Z.leb_le in Hle.
      apply Qle_bool_iff.
      destruct (int_score_error_coarse g bg css l Hg Hl) as [E0 [E1 _]]. rewrite <- HM, <- Hosum' in *.
      apply (dn_arith g _ (inject_Z osum) (inject_Z (Zsum (map (fun xc : Q * Z => snd xc) l))) M score (g_emax G) mn); auto.
      rewrite <- Zle_Qle. exact Hle.
Qed.
