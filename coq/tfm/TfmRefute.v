(* Finding F13 -- a machine-checked counter-example: the TFM-PVALUE score iterator
   (`ScoresIterator::next`, lightmotif-tfmpvalue/src/lib.rs) can return a wrong
   threshold when the re-centred window of a refinement step misses the answer.

   Witness (M = 3 rows, K = 5, uniform background 1/4, no wildcard mass; every entry
   is dyadic, hence exactly representable in f32; wildcard cells -100, -inf in the code):

              A       C       T       G      N
     row 0  13/8     3/2    23/16   -5/8   -100      (range 9/4)
     row 1   1/2    -5/8    -5/8    -5/8   -100      (range 9/8)
     row 2   1/2    -1/8    -1/8    -1/8   -100      (range 5/8)

   p = 5/128 = 0.0390625, permutation [0;1;2] (ranges already non-increasing),
   two calls of next().  The three best words and their exact scores:
       T = (13/8, 1/2, 1/2) = 2.625    U = (3/2, 1/2, 1/2) = 2.5
       C = (23/16, 1/2, 1/2) = 2.4375     (next best: 2)
   each of probability 1/64, so P(S >= 2.4375) = 3/64 >= p > 2/64 = P(S >= 2.5): the
   exact threshold for p lies at C.

   step 0, g = 0.1:  integer matrix 23,22,21,0 / 12,0,0,0 / 7,0,0,0, offsets 7,7,2,
     error_max = 3/2, window (0, 44).  I(T) = 42, I(U) = 41, I(C) = 40; the cumulative
     sums are 1/64, 2/64, 3/64 > p, hence alpha = 41, alpha_e = 40, reported score
     (41 - 16) * 0.1 = 2.5, range 3/64 .. 2/64 (not converged; alpha - alpha_e = 1 <= 3/2).
     New window: 10 * (41 -+ ceil(3/2 + 1/2)) = (390, 430).
   step 1, g = 0.01: integer matrix 225,213,206,0 / 113,0,0,0 / 63,0,0,0, offsets
     63,63,13.  I'(T) = 401 but I'(U) = 389 = 10 * 41 - 21 (the three row minima have
     fractional parts .75 at g = 0.1: each offset drops by 7 below ten times the old
     one), I'(C) = 382: U and C -- and with them the answer -- lie BELOW the window.
     distribution(390, 430) yields the table {401: 1/64, 431: 0}; the loop of
     lookup_score runs to the bottom with sum = 0 < p, even sum + q[401] = 1/64 < p
     (io_total_lt), and returns alpha = alpha_e = 401: score (401 - 139) * 0.01 = 2.62,
     "converged".
   With d = (M+2) g = 0.05: the attainable score u = 2.5 (word U) is < 2.62 - 0.05
   = 2.57, but P(S >= u - d) = P(S >= 2.45) = 2/64 = 1/32 < p = 5/128: the second
   clause of the step property (TfmMain.sc_next_sound) fails; the returned threshold
   2.62 is too high (the exact one is 2.4375).

   The same input fails on the Rust implementation (f32 matrix / f64 arithmetic): same
   integer matrices, window 390:430, alpha 401, score 2.62; harness line
     w1 M=3 mk=coarse bgk=uni qk=round nt=0 steps=4 mat=1070596096,1069547520,1069023232,3206545408,4286578688/1056964608,3206545408,3206545408,3206545408,4286578688/1056964608,3187671040,3187671040,3187671040,4286578688 bg=1048576000,1048576000,1048576000,1048576000,0 q=4585790320570007552
   verdict of the checker: PROPFAIL c13 step=1 clause=2 g=0.01 p=0.0390625 t=2.62 window-exhausted.

   Everything below is closed by [vm_compute] on the real model functions
   ([sc_run NumQ], [score_window0 NumQ], [sc_next NumQ], [tailS]); the whole file
   compiles in 5-11 s wall (coqc 8.16.1). *)
From Coq Require Import ZArith QArith Qminmax Qround List Bool Lia Lqa Sorted Permutation.
From LMBase Require Import Res ListX.
From LMTfm Require Import TfmNum TfmModel TfmSpec TfmProofs TfmScore TfmDist TfmPerm TfmMain.
Import ListNotations.
Open Scope Q_scope.

(* score range of a row: max - min over the symbol cells (the sort key of `TfmPvalue::new`) *)
Definition qrange (row : list Q) : Q :=
  match removelast row with
  | [] => 0
  | x :: r => fold_left Qmax r x - fold_left Qmin r x
  end.

(* the rows taken along [perm] have non-increasing ranges *)
Definition range_sorted (rows : list (list Q)) (perm : list nat) : Prop :=
  Sorted (fun a b => qrange (nth b rows []) <= qrange (nth a rows [])) perm.

(* ---------- the witness ---------- *)

Definition w_rows : list (list Q) :=
  [ [ 13#8;  3#2; 23#16; -5#8; -100 ];
    [  1#2; -5#8;  -5#8; -5#8; -100 ];
    [  1#2; -1#8;  -1#8; -1#8; -100 ] ].
Definition w_perm : list nat := [0; 1; 2]%nat.
Definition w_bg : list Q := [1#4; 1#4; 1#4; 1#4; 0].
Definition w_p : Q := 5#128.
Definition w_steps : nat := 2.
Definition w_win0 : Z * Z := (0, 44)%Z.          (* initial window of approximate_score *)
Definition w_win1 : Z * Z := (390, 430)%Z.       (* window handed to the second call of next() *)
Definition w_word : list Q := [3#2; 1#2; 1#2].   (* the word U, score 5/2 *)

(* ---------- small closing tactics ---------- *)

Ltac qcmp := vm_compute; solve [reflexivity | discriminate].

Lemma w_matrix_ok : matrix_ok 5 w_rows w_bg.
Proof.
  unfold matrix_ok.
  split; [lia|].
  split; [repeat constructor|].
  split; [reflexivity|].
  split; [|split].
  - intros b Hb. cbn in Hb.
    repeat (destruct Hb as [<-|Hb]; [qcmp|]). contradiction.
  - qcmp.
  - repeat constructor; qcmp.
Qed.

Lemma w_range_sorted : range_sorted w_rows w_perm.
Proof. unfold range_sorted, w_perm. repeat constructor; qcmp. Qed.

Lemma w_attain : attain w_word (srows (perm_cells w_rows w_perm) w_bg).
Proof.
  unfold attain. vm_compute.
  repeat (constructor; [intuition|]). constructor.
Qed.

(* ---------- the refutation ---------- *)

(* The witness satisfies every precondition of the C13 step property, the second
   element of the run (granularity 1/100) has [io_total_lt = true] -- lookup_score ran
   through its whole window without reaching p -- and it violates the second clause:
   the attainable score u = Qsum w_word = 5/2 lies more than d below the returned
   threshold although P(S >= u - d) < p. *)
Theorem C13_window_refuted :
  matrix_ok 5 w_rows w_bg /\ (2 <= length w_rows)%nat /\
  Permutation w_perm (seq 0 (length w_rows)) /\ range_sorted w_rows w_perm /\
  0 < w_p < 1 /\
  score_window0 NumQ w_rows w_perm = Ok w_win0 /\
  exists it : @iter_out Q,
    nth_error (sc_run NumQ w_steps w_rows w_perm w_bg w_p (1#10) w_win0) 1 = Some (Ok it) /\
    io_total_lt it = true /\
    (1 < length (last (io_rows it) []))%nat /\
    let M := inject_Z (Z.of_nat (length w_rows)) in
    let cs := perm_cells w_rows w_perm in
    let d := (M + 2) * io_gran it in
    attain w_word (srows cs w_bg) /\
    Qsum w_word < io_score it - d /\
    tailS cs w_bg (Qsum w_word - d) < w_p.
Proof.
  split; [exact w_matrix_ok|].
  split; [vm_compute; lia|].
  split; [apply Permutation_refl|].
  split; [exact w_range_sorted|].
  split; [split; qcmp|].
  split; [vm_compute; reflexivity|].
  eexists. split; [vm_compute; reflexivity|].
  split; [vm_compute; reflexivity|].
  split; [vm_compute; lia|].
  cbv zeta.
  split; [exact w_attain|].
  split; qcmp.
Qed.

(* The same step seen through [sc_next], with the concrete values: every hypothesis of
   TfmMain.sc_next_sound holds except [io_total_lt it = false], and its conclusion
   (third clause) is false.  The returned threshold is 131/50 = 2.62, the window
   (390, 430) is the one computed by the first call. *)
Theorem C13_window_refuted_step :
  exists it0 it : @iter_out Q,
    sc_next NumQ w_rows w_perm w_bg w_p (1#10) w_win0 = Ok it0 /\
    io_total_lt it0 = false /\ io_conv it0 = false /\ io_win it0 = w_win1 /\
    io_score it0 == 5#2 /\
    (fst w_win1 <= snd w_win1 + 1)%Z /\
    sc_next NumQ w_rows w_perm w_bg w_p (1#100) w_win1 = Ok it /\
    io_total_lt it = true /\ io_conv it = true /\
    (1 < length (last (io_rows it) []))%nat /\
    io_key it = 401%Z /\ io_score it == 131#50 /\
    let M := inject_Z (Z.of_nat (length w_rows)) in
    let cs := perm_cells w_rows w_perm in
    let t := io_score it in
    let d := (M + 2) * (1#100) in
    tailS cs w_bg (Qsum w_word - d) == 1#32 /\
    ~ (forall l, attain l (srows cs w_bg) -> Qsum l < t - d -> w_p <= tailS cs w_bg (Qsum l - d)).
Proof.
  eexists. eexists.
  split; [vm_compute; reflexivity|].
  split; [vm_compute; reflexivity|].
  split; [vm_compute; reflexivity|].
  split; [vm_compute; reflexivity|].
  split; [qcmp|].
  split; [vm_compute; discriminate|].
  split; [vm_compute; reflexivity|].
  split; [vm_compute; reflexivity|].
  split; [vm_compute; reflexivity|].
  split; [vm_compute; lia|].
  split; [vm_compute; reflexivity|].
  split; [qcmp|].
  cbv zeta.
  split; [qcmp|].
  intros H. specialize (H w_word w_attain).
  revert H. vm_compute. intros H. apply H; reflexivity.
Qed.

Print Assumptions C13_window_refuted.
Print Assumptions C13_window_refuted_step.
