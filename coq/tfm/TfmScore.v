(* lookup_score on an exact table (property C13): lemmas.

   [lookup_score_sound]: when the last Q-value row is the exact distribution of the
   integer score on the window ([dist_exact]) and the window is adequate ([WindowOK]:
   it contains an attainable integer score and the cumulative sum reaches p inside
   it), the returned threshold t = (alpha - sum of offsets) * g brackets the exact
   p-value threshold within d = (M+2) g. *)
From Coq Require Import ZArith QArith Qround List Bool Lia Lqa Sorted.
From LMBase Require Import Res ListX.
From LMTfm Require Import TfmNum TfmModel TfmSpec TfmProofs.
Import ListNotations.
Open Scope Q_scope.

(* ------------------------------------------------------------------ *)
(** * Comparisons of the exact instance *)

Lemma geQ a b : ge NumQ a b = true <-> b <= a.
Proof.
  unfold ge. cbn [NumQ n_cmp]. unfold Qcmp_opt. destruct (Qcompare a b) eqn:E.
  - apply Qeq_alt in E. split; [intros _; lra|auto].
  - apply Qlt_alt in E. split; [discriminate|lra].
  - apply Qgt_alt in E. split; [intros _; lra|auto].
Qed.

Lemma gtQ a b : gt NumQ a b = true <-> b < a.
Proof.
  unfold gt. cbn [NumQ n_cmp]. unfold Qcmp_opt. destruct (Qcompare a b) eqn:E.
  - apply Qeq_alt in E. split; [discriminate|lra].
  - apply Qlt_alt in E. split; [discriminate|lra].
  - apply Qgt_alt in E. split; [intros _; lra|auto].
Qed.

Lemma ltQ a b : lt NumQ a b = true <-> a < b.
Proof.
  unfold lt. cbn [NumQ n_cmp]. unfold Qcmp_opt. destruct (Qcompare a b) eqn:E.
  - apply Qeq_alt in E. split; [discriminate|lra].
  - apply Qlt_alt in E. split; [auto|auto].
  - apply Qgt_alt in E. split; [discriminate|lra].
Qed.

(* ------------------------------------------------------------------ *)
(** * Tail sums of a table *)

Definition tailsum (l : list (Z * Q)) (i : nat) : Q := Qsum (map snd (skipn i l)).

Lemma tailsum_nth l i k q : nth_error l i = Some (k, q) -> tailsum l i == q + tailsum l (S i).
Proof.
  unfold tailsum. revert i; induction l as [|a r IH]; intros [|i] H; simpl in H; try discriminate.
  - inversion H; subst. simpl. reflexivity.
  - apply IH in H. exact H.
Qed.

Lemma tailsum_beyond l i : (length l <= i)%nat -> tailsum l i == 0.
Proof. intros H. unfold tailsum. rewrite skipn_all2 by lia. reflexivity. Qed.

(* the loop of lookup_score *)
Lemma ls_loop_spec p (lastm : list (Z * Q)) : forall riter sum pvs r' sum' pvs',
  ls_loop NumQ p lastm riter sum pvs = Ok (r', sum', pvs') ->
  sum == tailsum lastm (S riter) ->
  ((S riter < length lastm)%nat -> sum < p) ->
  ((1 <= r')%nat /\ (r' <= riter)%nat /\ sum' == tailsum lastm r' /\ p <= sum' /\
     ((S r' < length lastm)%nat -> tailsum lastm (S r') < p))
  \/ (r' = 0%nat /\ sum' == tailsum lastm 1 /\ ((1 < length lastm)%nat -> sum' < p)).
Proof.
  induction riter as [|r IH]; intros sum pvs r' sum' pvs' H Hs Hlt; cbn [ls_loop] in H.
  - inversion H; subst. right. split; [reflexivity|]. split; [exact Hs|exact Hlt].
  - destruct (nth_error lastm (S r)) as [[k q]|] eqn:En; [|discriminate].
    cbn [NumQ n_add] in H.
    pose proof (tailsum_nth _ _ _ _ En) as Et.
    destruct (ge NumQ (sum + q) p) eqn:Eg.
    + inversion H; subst. apply geQ in Eg. left.
      split; [lia|]. split; [lia|]. split; [rewrite Et, Hs; lra|]. split; [auto|].
      intros Hl. rewrite <- Hs. auto.
    + assert (Hnp : sum + q < p).
      { destruct (Qlt_le_dec (sum + q) p) as [?|Hc]; auto. apply geQ in Hc. congruence. }
      destruct (IH _ _ _ _ _ H) as [[A1 [A2 [A3 [A4 A5]]]]|[B1 [B2 B3]]].
      * rewrite Et, Hs. lra.
      * intros _. exact Hnp.
      * left. repeat split; auto.
      * right. repeat split; auto.
Qed.

(* ------------------------------------------------------------------ *)
(** * Sorted tables *)

Lemma SSorted_app_inv {A} (R : A -> A -> Prop) l1 l2 :
  StronglySorted R (l1 ++ l2) ->
  StronglySorted R l1 /\ StronglySorted R l2 /\ (forall x y, In x l1 -> In y l2 -> R x y).
Proof.
  induction l1 as [|a r IH]; simpl; intros H.
  - split; [constructor|]. split; [auto|]. intros x y [].
  - inversion H as [|? ? S F]; subst. destruct (IH S) as [I1 [I2 I3]].
    rewrite Forall_forall in F. split.
    + constructor; auto. rewrite Forall_forall. intros x Hx. apply F. apply in_or_app; auto.
    + split; [auto|]. intros x y [<-|Hx] Hy; [apply F; apply in_or_app; auto|auto].
Qed.

Lemma snoc_decomp {A} (body : list A) z j a :
  nth_error (body ++ [z]) j = Some a ->
  exists pre body', body = pre ++ body' /\ length pre = j /\
                    skipn j (body ++ [z]) = body' ++ [z] /\ hd z (body' ++ [z]) = a.
Proof.
  revert j; induction body as [|b bs IH]; intros [|j] H; simpl in H.
  - inversion H; subst. exists [], []. auto.
  - destruct j; discriminate.
  - inversion H; subst. exists [], (a :: bs). auto.
  - destruct (IH _ H) as [pre [body' [E1 [E2 [E3 E4]]]]].
    exists (b :: pre), body'. simpl. subst bs. repeat split; auto.
Qed.

(* sums over a suffix of an exact table are tails of the integer score *)
Lemma suffix_tail ir mn mx body vb :
  StronglySorted Z.lt (map fst body) ->
  (forall kv, In kv body -> (mn <= fst kv <= mx)%Z /\ snd kv == PI_eq ir (fst kv)) ->
  vb == PI_gt ir mx ->
  (forall l, attain l ir -> (mn <= Zsum l <= mx)%Z -> In (Zsum l) (map fst body)) ->
  forall body' pre, body = pre ++ body' ->
    Qsum (map snd (body' ++ [((mx + 1)%Z, vb)])) == PI_ge ir (fst (hd ((mx + 1)%Z, vb) (body' ++ [((mx + 1)%Z, vb)]))).
Proof.
  intros Hsort Hbody Hvb Hcomp. induction body' as [|[k v] b'' IH]; intros pre E.
  - simpl. rewrite Hvb, PI_gt_ge. lra.
  - cbn [app map Qsum hd fst snd].
    assert (E' : body = (pre ++ [(k, v)]) ++ b'') by (rewrite <- app_assoc; exact E).
    rewrite (IH _ E').
    set (k' := fst (hd ((mx + 1)%Z, vb) (b'' ++ [((mx + 1)%Z, vb)]))).
    assert (Hin : In (k, v) body) by (rewrite E; apply in_or_app; right; left; auto).
    destruct (Hbody _ Hin) as [Hk Hv]. simpl in Hk, Hv. rewrite Hv.
    (* k' is the next key *)
    assert (Hk' : (k < k' <= mx + 1)%Z /\ forall z, In z (map fst b'') -> (k' <= z)%Z).
    { unfold k'. destruct b'' as [|[k2 v2] b3]; simpl.
      - split; [lia|]. intros z [].
      - rewrite E, map_app in Hsort. apply SSorted_app_inv in Hsort. destruct Hsort as [_ [S2 _]].
        simpl in S2. assert (In (k2, v2) body) by (rewrite E; apply in_or_app; right; right; left; auto).
        destruct (Hbody _ H) as [Hk2 _]. simpl in Hk2.
        pose proof (SSorted_lt_inv _ _ S2 k2 (or_introl eq_refl)) as L1.
        split; [lia|]. intros z [<-|Hz]; [lia|].
        inversion S2 as [|? ? S3 _]; subst.
        pose proof (SSorted_lt_inv _ _ S3 z Hz). lia. }
    destruct Hk' as [Hk1 Hk2].
    unfold PI_ge, PI_eq. rewrite <- wsum_plus. apply wsum_ext_in. intros l Hl.
    destruct (Z.leb_spec k (Zsum l)), (Z.eqb_spec (Zsum l) k), (Z.leb_spec k' (Zsum l));
      simpl; try lra; try lia.
    exfalso.
    assert (Hz : In (Zsum l) (map fst body)) by (apply Hcomp; auto; lia).
    rewrite E, map_app in Hz. apply in_app_or in Hz. destruct Hz as [Hz|Hz].
    + rewrite E, map_app in Hsort. apply SSorted_app_inv in Hsort. destruct Hsort as [_ [_ S3]].
      assert (Zsum l < k)%Z by (apply S3; [exact Hz|left; reflexivity]). lia.
    + simpl in Hz. destruct Hz as [Hz|Hz]; [lia|]. apply Hk2 in Hz. lia.
Qed.

Lemma tailsum_spec ir mn mx lastm :
  dist_exact ir mn mx lastm ->
  forall j k v, nth_error lastm j = Some (k, v) -> tailsum lastm j == PI_ge ir k.
Proof.
  intros [body [vb [Hl [Hsort [Hbody [Hvb Hcomp]]]]]] j k v Hn. subst lastm.
  destruct (snoc_decomp _ _ _ _ Hn) as [pre [body' [E1 [E2 [E3 E4]]]]].
  unfold tailsum. rewrite E3.
  rewrite (suffix_tail ir mn mx body vb Hsort Hbody Hvb Hcomp body' pre E1). rewrite E4. reflexivity.
Qed.

(* keys of an exact table: strictly increasing with the index; between two
   consecutive keys there is no attainable integer score of the window *)
Lemma dist_exact_keys ir mn mx lastm :
  dist_exact ir mn mx lastm ->
  StronglySorted Z.lt (map fst lastm) /\
  (forall kv, In kv lastm -> (mn <= fst kv <= mx)%Z \/ fst kv = (mx + 1)%Z) /\
  (forall l, attain l ir -> (mn <= Zsum l)%Z -> (Zsum l <= mx)%Z -> In (Zsum l) (map fst lastm)) /\
  In (mx + 1)%Z (map fst lastm).
Proof.
  intros [body [vb [Hl [Hsort [Hbody [Hvb Hcomp]]]]]]. subst lastm. split; [|split; [|split]].
  - rewrite map_app. apply SSorted_app; auto.
    + constructor; constructor.
    + intros x y Hx [<-|[]]. apply in_map_iff in Hx. destruct Hx as [kv [<- Hkv]].
      destruct (Hbody _ Hkv) as [B _]. simpl. lia.
  - intros kv Hin. apply in_app_or in Hin. destruct Hin as [Hin|[<-|[]]]; [|right; reflexivity].
    left. apply Hbody. auto.
  - intros l Hat H1 H2. rewrite map_app. apply in_or_app. left. apply Hcomp; auto.
  - rewrite map_app. apply in_or_app. right. left. reflexivity.
Qed.

Lemma sorted_nth_lt (l : list Z) : StronglySorted Z.lt l ->
  forall i j a b, nth_error l i = Some a -> nth_error l j = Some b -> (i < j)%nat -> (a < b)%Z.
Proof.
  induction 1 as [|x l HS IH F]; intros i j a b Hi Hj Hlt.
  - destruct i; discriminate.
  - destruct j as [|j]; [lia|]. simpl in Hj. destruct i as [|i]; simpl in Hi.
    + inversion Hi; subst. rewrite Forall_forall in F. apply F. eapply nth_error_In; eauto.
    + eapply IH; eauto. lia.
Qed.

(* a key strictly below the key at index S i is at most the key at index i *)
Lemma sorted_nth_adjacent (l : list Z) : StronglySorted Z.lt l ->
  forall i a b z, nth_error l i = Some a -> nth_error l (S i) = Some b -> In z l -> (z < b)%Z -> (z <= a)%Z.
Proof.
  intros HS i a b z Hi Hsi Hz Hlt. apply In_nth_error in Hz. destruct Hz as [j Hj].
  destruct (Nat.lt_ge_cases i j) as [Hij|Hij]; [|destruct (Nat.eq_dec i j) as [->|Hne]].
  - destruct (Nat.eq_dec j (S i)) as [->|Hne].
    + rewrite Hsi in Hj. inversion Hj. lia.
    + assert (b < z)%Z by (eapply (sorted_nth_lt l HS (S i) j); eauto; lia). lia.
  - rewrite Hi in Hj. inversion Hj. lia.
  - assert (z < a)%Z by (eapply (sorted_nth_lt l HS j i); eauto; lia). lia.
Qed.

(* a key strictly above the key at index i is at least the key at index S i *)
Lemma sorted_nth_next (l : list Z) : StronglySorted Z.lt l ->
  forall i a b z, nth_error l i = Some a -> nth_error l (S i) = Some b -> In z l -> (a < z)%Z -> (b <= z)%Z.
Proof.
  intros HS i a b z Hi Hsi Hz Hlt. apply In_nth_error in Hz. destruct Hz as [j Hj].
  destruct (Nat.lt_ge_cases i j) as [Hij|Hij]; [|destruct (Nat.eq_dec i j) as [->|Hne]].
  - destruct (Nat.eq_dec j (S i)) as [->|Hne].
    + rewrite Hsi in Hj. inversion Hj. lia.
    + assert (b < z)%Z by (eapply (sorted_nth_lt l HS (S i) j); eauto; lia). lia.
  - rewrite Hi in Hj. inversion Hj. lia.
  - assert (z < a)%Z by (eapply (sorted_nth_lt l HS j i); eauto; lia). lia.
Qed.

(* ------------------------------------------------------------------ *)
(** * Words of the real matrix and of the joint rows *)

Lemma attain_srows_joint g bg css l :
  attain l (srows css bg) ->
  exists lj, attain lj (jrows g bg css) /\ map (fun xc : Q * Z => fst xc) lj = l.
Proof.
  revert l; induction css as [|cs rest IH]; intros l H.
  - inversion H; subst. exists []. split; [constructor|reflexivity].
  - simpl in H. inversion H as [|x r l' rs' Hx Hrest]; subst.
    destruct (IH _ Hrest) as [lj [A B]].
    apply in_map_iff in Hx. destruct Hx as [xb [E Hxb]].
    exists ((fst xb, (qfl g (fst xb) + off_of g cs)%Z) :: lj). split.
    + constructor; auto. unfold jrow. rewrite map_map. simpl. apply in_map_iff. exists xb. auto.
    + simpl. rewrite B, E. reflexivity.
Qed.

Lemma inject_Z_minus a b : inject_Z (a - b) == inject_Z a - inject_Z b.
Proof. unfold Z.sub. rewrite inject_Z_plus, inject_Z_opp. lra. Qed.

Lemma c1_arith (g S O I M A : Q) :
  0 < g -> (A - O) * g + (M + 2) * g <= S -> S / g + O - I <= M -> A + 2 <= I.
Proof.
  intros Hg H1 H2.
  assert (E : ((A - O) * g + (M + 2) * g) / g == A - O + M + 2) by (field; lra).
  assert (H3 : ((A - O) * g + (M + 2) * g) / g <= S / g).
  { unfold Qdiv. apply Qmult_le_compat_r; auto. apply Qlt_le_weak. apply Qinv_lt_0_compat; auto. }
  rewrite E in H3. lra.
Qed.

Lemma u_arith (g u O Iu M A : Q) :
  0 < g -> 0 <= M -> u < (A - O) * g - (M + 2) * g -> 0 <= u / g + O - Iu -> Iu < A.
Proof.
  intros Hg HM H1 H2.
  assert (E : ((A - O) * g - (M + 2) * g) / g == A - O - M - 2) by (field; lra).
  assert (H3 : u / g < ((A - O) * g - (M + 2) * g) / g).
  { unfold Qdiv. apply Qmult_lt_compat_r; auto. apply Qinv_lt_0_compat; auto. }
  rewrite E in H3. lra.
Qed.

Lemma c2_arith (g u S O I Iu M : Q) :
  0 < g -> Iu <= I -> u / g + O - Iu <= M -> 0 <= S / g + O - I -> u - (M + 2) * g <= S.
Proof.
  intros Hg H1 H2 H3.
  assert (H4 : u / g - M <= S / g) by lra.
  assert (E1 : S / g * g == S) by (field; lra).
  assert (E2 : u / g * g == u) by (field; lra).
  set (a := S / g) in *. set (b := u / g) in *. nra.
Qed.

Lemma c2b_arith (g u S O I M A : Q) :
  0 < g -> 0 <= M -> A <= I -> 0 <= S / g + O - I -> u < (A - O) * g - (M + 2) * g -> u - (M + 2) * g <= S.
Proof.
  intros Hg HM H1 H2 H3.
  assert (E1 : S / g * g == S) by (field; lra).
  set (a := S / g) in *. nra.
Qed.

Lemma key_at_ok (lastm : fmap (T:=Q)) i site k :
  key_at lastm i site = Ok k -> exists v, nth_error lastm i = Some (k, v).
Proof.
  unfold key_at. destruct (nth_error lastm i) as [[k' v]|]; [|discriminate].
  intros H; inversion H; subst. exists v. reflexivity.
Qed.

Lemma nth_error_map_fst {A B} (l : list (A * B)) i k v :
  nth_error l i = Some (k, v) -> nth_error (map fst l) i = Some k.
Proof. intros H. rewrite nth_error_map, H. reflexivity. Qed.

(* integer-level content of lookup_score: the returned key [a] has tail <= p two
   units above it, and some key b at or below every attainable score < a has tail >= p *)
Lemma ls_core ir mn mx (lastm : fmap (T:=Q)) p riter sum a exh :
  dist_exact ir mn mx lastm -> wf_rows ir -> 0 < p -> (1 < length lastm)%nat ->
  (((1 <= riter)%nat /\ sum == tailsum lastm riter /\ p <= sum /\
      ((S riter < length lastm)%nat -> tailsum lastm (S riter) < p))
   \/ (riter = 0%nat /\ sum == tailsum lastm 1 /\ ((1 < length lastm)%nat -> sum < p))) ->
  ((gt NumQ sum p = true /\ key_at lastm (S riter) 31 = Ok a /\ exh = false /\
      exists ae, key_at lastm riter 31 = Ok ae)
   \/ (gt NumQ sum p = false /\ riter = 0%nat /\ key_at lastm 0 31 = Ok a /\ exh = true)
   \/ (gt NumQ sum p = false /\ riter <> 0%nat /\ key_at lastm riter 31 = Ok a /\ exh = false)) ->
  exh && lt NumQ (sum + match lastm with [] => 0 | kv :: _ => snd kv end) p = false ->
  PI_ge ir (a + 2) <= p /\
  exists b, p <= PI_ge ir b /\ forall li, attain li ir -> (Zsum li < a)%Z -> (Zsum li <= b)%Z.
Proof.
  intros Hdist W Hp Hlen Hloop Hsel Htot.
  destruct (dist_exact_keys _ _ _ _ Hdist) as [Hsort [Hrange [Hcomp Hlastkey]]].
  assert (Hmono : forall k, PI_ge ir (k + 2) <= PI_ge ir k) by (intros k; apply PI_ge_mono; auto; lia).
  assert (Hkeyle : forall i k v, nth_error lastm i = Some (k, v) -> (k <= mx + 1)%Z).
  { intros i k v Hn. apply nth_error_In in Hn. apply Hrange in Hn. simpl in Hn. lia. }
  destruct Hsel as [[Hgt [Ha [Hexh [ae Hae]]]]|[[Hgt [Hr0 [Ha Hexh]]]|[Hgt [Hr0 [Ha Hexh]]]]].
  - (* sum > p: alpha = keys[riter+1], alpha_e = keys[riter] *)
    apply gtQ in Hgt. apply key_at_ok in Ha. destruct Ha as [va Ha].
    apply key_at_ok in Hae. destruct Hae as [vae Hae].
    assert (HSr : (S riter < length lastm)%nat) by (apply nth_error_Some; congruence).
    destruct Hloop as [[L1 [L2 [L3 L4]]]|[R1 [R2 R3]]]; [|specialize (R3 Hlen); lra].
    specialize (L4 HSr).
    rewrite (tailsum_spec _ _ _ _ Hdist _ _ _ Ha) in L4.
    rewrite (tailsum_spec _ _ _ _ Hdist _ _ _ Hae) in L2.
    split; [specialize (Hmono a); lra|].
    exists ae. split; [lra|].
    intros li Hat Hlt.
    pose proof (Hkeyle _ _ _ Ha) as Hale.
    assert (Haelt : (ae < a)%Z).
    { eapply (sorted_nth_lt (map fst lastm) Hsort riter (S riter)); eauto using nth_error_map_fst. }
    assert (Haemn : (mn <= ae)%Z).
    { apply nth_error_In in Hae. apply Hrange in Hae. simpl in Hae. lia. }
    destruct (Z.lt_ge_cases (Zsum li) mn) as [Hlow|Hin]; [lia|].
    assert (Hk : In (Zsum li) (map fst lastm)) by (apply Hcomp; auto; lia).
    eapply (sorted_nth_adjacent (map fst lastm) Hsort riter ae a); eauto using nth_error_map_fst.
  - (* window bottom reached: alpha = keys[0] *)
    subst riter exh. apply key_at_ok in Ha. destruct Ha as [va Ha].
    destruct Hloop as [[L1 _]|[_ [R2 R3]]]; [lia|]. specialize (R3 Hlen).
    assert (Hq0 : match lastm with [] => 0 | kv :: _ => snd kv end = va).
    { destruct lastm as [|kv r]; [discriminate|]. simpl in Ha. inversion Ha; subst. reflexivity. }
    rewrite Hq0 in Htot. simpl in Htot.
    assert (Hge : p <= sum + va).
    { destruct (Qlt_le_dec (sum + va) p) as [Hc|?]; auto. apply ltQ in Hc. congruence. }
    pose proof (tailsum_nth _ _ _ _ Ha) as Et. rewrite (tailsum_spec _ _ _ _ Hdist _ _ _ Ha) in Et.
    destruct (nth_error lastm 1) as [[k1 v1]|] eqn:E1; [|apply nth_error_None in E1; lia].
    pose proof R2 as R2'. rewrite (tailsum_spec _ _ _ _ Hdist _ _ _ E1) in R2.
    assert (Ha1 : (a < k1)%Z).
    { eapply (sorted_nth_lt (map fst lastm) Hsort 0 1); eauto using nth_error_map_fst. }
    pose proof (Hkeyle _ _ _ E1) as Hk1le.
    assert (Hamn : (mn <= a)%Z).
    { apply nth_error_In in Ha. apply Hrange in Ha. simpl in Ha. lia. }
    split.
    + apply Qle_trans with (PI_ge ir k1); [|lra].
      unfold PI_ge. apply wsum_le; auto. intros li Hat. apply ind_impl. intros Hle.
      apply Z.leb_le in Hle. apply Z.leb_le.
      destruct (Z.le_gt_cases (Zsum li) mx) as [Hin|Hout]; [|lia].
      assert (Hk : In (Zsum li) (map fst lastm)) by (apply Hcomp; auto; lia).
      eapply (sorted_nth_next (map fst lastm) Hsort 0 a k1); eauto using nth_error_map_fst. lia.
    + exists a. split; [rewrite Et, <- R2'; lra|]. intros; lia.
  - (* sum == p at riter >= 1: alpha = keys[riter] *)
    apply key_at_ok in Ha. destruct Ha as [va Ha].
    destruct Hloop as [[L1 [L2 [L3 L4]]]|[R1 _]]; [|lia].
    assert (Hle : sum <= p).
    { destruct (Qlt_le_dec p sum) as [Hc|?]; auto. apply gtQ in Hc. congruence. }
    rewrite (tailsum_spec _ _ _ _ Hdist _ _ _ Ha) in L2.
    split; [specialize (Hmono a); lra|].
    exists a. split; [lra|]. intros; lia.
Qed.

Definition WindowOK (o : ls_out (T:=Q)) : Prop :=
  ls_total_lt o = false /\ (1 < length (last (ls_rows o) []))%nat.

Theorem lookup_score_sound rows perm bg K g G p mn mx o :
  matrix_ok K rows bg -> 0 < g -> length perm = length rows ->
  recompute NumQ rows perm g = Ok G ->
  lookup_score NumQ G bg p mn mx = Ok o ->
  dist_exact (irows (g_int G) bg) mn mx (last (ls_rows o) []) ->
  WindowOK o -> 0 < p ->
  let M := inject_Z (Z.of_nat (length rows)) in
  let cs := perm_cells rows perm in
  let t := inject_Z (ls_alpha o - Zsum (g_off G)) * g in
  let d := (M + 2) * g in
  tailS cs bg (t + d) <= p /\
  (forall l, attain l (srows cs bg) -> Qsum l < t - d -> p <= tailS cs bg (Qsum l - d)).
Proof.
  intros [HK [Hlen [Hbgl [Hbg [Hunit Hwild]]]]] Hg Hperm Hrec Hlook Hdist [Hw1 Hw2] Hp M cs t d.
  destruct (recompute_Q_geom _ _ _ _ Hrec) as [prow [Hpr [Hgran [Hg1 [Hint [Hoff [Hne _]]]]]]].
  destruct (permuted_rows_spec _ _ _ Hpr) as [Hplen [Hpin Hcells]].
  set (css := map cells prow) in *.
  assert (Hcs : cs = css) by (unfold cs; symmetry; exact Hcells).
  unfold lookup_score in Hlook. cbn [NumQ n_isnan] in Hlook.
  apply rbind_ok in Hlook. destruct Hlook as [rowsq [Hdistr Hlook]].
  set (lastm := last rowsq []) in *.
  destruct (length lastm) as [|top] eqn:Elen; [discriminate|].
  apply rbind_ok in Hlook. destruct Hlook as [[[riter sum] pvs] [Hloop Hlook]].
  apply rbind_ok in Hlook. destruct Hlook as [[[[a ae] pvs'] exh] [Hsel Hlook]].
  apply rbind_ok in Hlook. destruct Hlook as [pa [Hpa Hlook]].
  apply rbind_ok in Hlook. destruct Hlook as [pe [Hpe Hlook]].
  inversion Hlook; subst o; clear Hlook. cbn [ls_alpha ls_total_lt ls_rows] in *.
  fold lastm in Hdist, Hw2.
  set (ir := irows (g_int G) bg) in *.
  assert (W : wf_rows ir) by (apply wf_irows; auto).
  (* the loop *)
  assert (Hloop' :
    ((1 <= riter)%nat /\ sum == tailsum lastm riter /\ p <= sum /\
       ((S riter < length lastm)%nat -> tailsum lastm (S riter) < p))
    \/ (riter = 0%nat /\ sum == tailsum lastm 1 /\ ((1 < length lastm)%nat -> sum < p))).
  { destruct (ls_loop_spec p lastm top 0 [] riter sum pvs Hloop) as [[A1 [A2 [A3 [A4 A5]]]]|[B1 [B2 B3]]].
    - rewrite tailsum_beyond by lia. reflexivity.
    - intros Hc. lia.
    - left. repeat split; auto.
    - right. repeat split; auto. }
  (* the choice of alpha *)
  assert (Hsel' :
    (gt NumQ sum p = true /\ key_at lastm (S riter) 31 = Ok a /\ exh = false /\
       exists ae0, key_at lastm riter 31 = Ok ae0)
    \/ (gt NumQ sum p = false /\ riter = 0%nat /\ key_at lastm 0 31 = Ok a /\ exh = true)
    \/ (gt NumQ sum p = false /\ riter <> 0%nat /\ key_at lastm riter 31 = Ok a /\ exh = false)).
  { destruct (gt NumQ sum p) eqn:Hgt.
    - apply rbind_ok in Hsel. destruct Hsel as [ae0 [Hae0 Hsel]].
      apply rbind_ok in Hsel. destruct Hsel as [a0 [Ha0 Hsel]].
      inversion Hsel; subst. left. repeat split; auto. exists ae; auto.
    - destruct riter as [|r'].
      + apply rbind_ok in Hsel. destruct Hsel as [a0 [Ha0 Hsel]].
        inversion Hsel; subst. right; left. repeat split; auto.
      + apply rbind_ok in Hsel. destruct Hsel as [a0 [Ha0 Hsel]].
        apply rbind_ok in Hsel. destruct Hsel as [ae0 [Hae0 Hsel]].
        inversion Hsel; subst. right; right. repeat split; auto. }
  cbn [NumQ n_add n_zero] in Hw1.
  destruct (ls_core ir mn mx lastm p riter sum a exh Hdist W Hp Hw2 Hloop' Hsel' Hw1) as [C1 [b [C2 C3]]].
  (* from integer scores to real scores *)
  assert (WJ : wf_rows (jrows g bg css)) by (apply wf_jrows; auto).
  assert (HM : M = inject_Z (Z.of_nat (length css))).
  { unfold M, css. rewrite map_length, Hplen, Hperm. reflexivity. }
  assert (HM0 : 0 <= M).
  { unfold M. change 0 with (inject_Z 0). rewrite <- Zle_Qle. lia. }
  assert (Ht : t == (inject_Z a - inject_Z (Zsum (offs_of g css))) * g).
  { unfold t. rewrite inject_Z_minus, Hoff. reflexivity. }
  set (A := inject_Z a) in *. set (O := inject_Z (Zsum (offs_of g css))) in *.
  unfold tailS. rewrite Hcs.
  split.
  - apply Qle_trans with (PI_ge ir (a + 2)); [|exact C1].
    unfold PI_ge, ir. rewrite Hint. rewrite (wsum_S_joint g), (wsum_I_joint g).
    apply wsum_le; auto. intros l Hl. apply ind_impl. intros Hle.
    apply Qle_bool_iff in Hle. apply Z.leb_le.
    destruct (int_score_error_coarse g bg css l Hg Hl) as [E0 [E1 _]]. rewrite <- HM in E1. fold O in E0, E1.
    rewrite Ht in Hle. unfold d in Hle.
    pose proof (c1_arith g _ O _ M A Hg Hle E1) as HA.
    rewrite Zle_Qle, inject_Z_plus. exact HA.
  - intros lu Hlu Hult.
    destruct (attain_srows_joint g bg css lu) as [lj [Hlj Elj]]; [exact Hlu|].
    destruct (int_score_error_coarse g bg css lj Hg Hlj) as [U0 [U1 _]]. rewrite <- HM in U1. fold O in U0, U1.
    rewrite Elj in U0, U1.
    set (u := Qsum lu) in *.
    set (Iu := Zsum (map (fun xc : Q * Z => snd xc) lj)) in *.
    assert (HIu : (Iu < a)%Z).
    { rewrite Ht in Hult. unfold d in Hult.
      pose proof (u_arith g u O (inject_Z Iu) M A Hg HM0 Hult U0) as HA. unfold A in HA.
      rewrite <- Zlt_Qlt in HA. exact HA. }
    assert (HIub : (Iu <= b)%Z).
    { apply C3; auto. unfold ir. rewrite Hint, (irows_jrows g).
      apply (attain_map (fun xc : Q * Z => snd xc)). exact Hlj. }
    apply Qle_trans with (PI_ge ir b); [exact C2|].
    unfold PI_ge, ir. rewrite Hint. rewrite (wsum_S_joint g), (wsum_I_joint g).
    apply wsum_le; auto. intros l Hl. apply ind_impl. intros Hle.
    apply Z.leb_le in Hle. apply Qle_bool_iff.
    destruct (int_score_error_coarse g bg css l Hg Hl) as [E0 [E1 _]]. fold O in E0.
    unfold d.
    apply (c2_arith g u _ O (inject_Z (Zsum (map (fun xc : Q * Z => snd xc) l))) (inject_Z Iu) M); auto.
    rewrite <- Zle_Qle. lia.
Qed.

(* alpha_e is never above alpha (keys of the table are increasing) *)
Lemma lookup_score_alpha_order G (bg : list Q) p mn mx o ir :
  lookup_score NumQ G bg p mn mx = Ok o ->
  dist_exact ir mn mx (last (ls_rows o) []) ->
  (ls_alpha_e o <= ls_alpha o)%Z.
Proof.
  intros Hlook Hdist.
  unfold lookup_score in Hlook. cbn [NumQ n_isnan] in Hlook.
  apply rbind_ok in Hlook. destruct Hlook as [rowsq [Hdistr Hlook]].
  set (lastm := last rowsq []) in *.
  destruct (length lastm) as [|top] eqn:Elen; [discriminate|].
  apply rbind_ok in Hlook. destruct Hlook as [[[riter sum] pvs] [Hloop Hlook]].
  apply rbind_ok in Hlook. destruct Hlook as [[[[a ae] pvs'] exh] [Hsel Hlook]].
  apply rbind_ok in Hlook. destruct Hlook as [pa [Hpa Hlook]].
  apply rbind_ok in Hlook. destruct Hlook as [pe [Hpe Hlook]].
  inversion Hlook; subst o; clear Hlook. cbn [ls_alpha ls_alpha_e ls_rows] in *. fold lastm in Hdist.
  destruct (dist_exact_keys _ _ _ _ Hdist) as [Hsort _].
  destruct (gt NumQ sum p).
  - apply rbind_ok in Hsel. destruct Hsel as [ae0 [Hae0 Hsel]].
    apply rbind_ok in Hsel. destruct Hsel as [a0 [Ha0 Hsel]]. inversion Hsel; subst.
    apply key_at_ok in Hae0. destruct Hae0 as [v1 H1]. apply key_at_ok in Ha0. destruct Ha0 as [v2 H2].
    assert (ae < a)%Z; [|lia].
    eapply (sorted_nth_lt (map fst lastm) Hsort riter (S riter)); eauto using nth_error_map_fst.
  - destruct riter as [|r'].
    + apply rbind_ok in Hsel. destruct Hsel as [a0 [Ha0 Hsel]]. inversion Hsel; subst. lia.
    + apply rbind_ok in Hsel. destruct Hsel as [a0 [Ha0 Hsel]].
      apply rbind_ok in Hsel. destruct Hsel as [ae0 [Hae0 Hsel]]. inversion Hsel; subst.
      apply key_at_ok in Hae0. destruct Hae0 as [v1 H1]. apply key_at_ok in Ha0. destruct Ha0 as [v2 H2].
      assert (ae < a)%Z; [|lia].
      eapply (sorted_nth_lt (map fst lastm) Hsort r' (S r')); eauto using nth_error_map_fst.
Qed.
