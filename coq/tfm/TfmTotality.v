(* Totality of the refinement steps of TFM-PVALUE (review of round 3, C12-1 / C13-1 / X6):
   the property says that every step REPORTS a range / RETURNS a threshold; the theorems of
   C12.v / C13.v have `... = Ok it` as a premise.  This file shows that on the domain of the
   property (matrix_ok, M >= 2, perm a permutation of 0..M, 0 < g < 1) plus the explicit
   i64 bounds of TfmOverflow / TfmClosed / TfmWindow the model returns [Ok]:

     - the model never returns [Err] / [OutOfFuel] ([okp]: every result is Ok or Panic);
     - the structural panic sites 10 (assert g < 1), 11 / 12 (unwrap on an empty row),
       15 (permutation entry out of range), 20 (assert !g.is_nan()), 22 (M = 0) are
       unreachable on that domain;
     - the i64 sites 13 14 21 23 24 33 34 are unreachable under the bounds (existing theorems);
     - site 25 never (TfmTotal), sites 30 32 never, site 31 not along approximate_score
       (TfmAdequate).                                                                      *)
From Coq Require Import ZArith QArith Qround Qabs List Bool Lia Lqa Permutation.
From LMBase Require Import Res ListX.
From LMTfm Require Import TfmNum TfmModel TfmSpec TfmProofs TfmScore TfmDist TfmPerm TfmMain TfmRun
  TfmTotal TfmLink TfmAdequate TfmOverflow TfmConverge TfmClosed.
Import ListNotations.
Open Scope Z_scope.

(* ------------------------------------------------------------------ *)
(** * Results are Ok or Panic *)

Definition okp {A} (r : res A) : Prop := match r with Ok _ | Panic _ => True | _ => False end.

Lemma okp_cases {A} (r : res A) : okp r -> (exists a, r = Ok a) \/ (exists n, r = Panic n).
Proof. destruct r; simpl; intros H; try contradiction; eauto. Qed.

Lemma okp_bind {A B} (e : res A) (k : A -> res B) :
  okp e -> (forall a, e = Ok a -> okp (k a)) -> okp (rbind e k).
Proof. destruct e; simpl; intros H Hk; try contradiction; auto. Qed.

Lemma okp_rall {A} (l : list (res A)) : Forall okp l -> okp (rall l).
Proof.
  induction 1 as [|x r Hx Hr IH]; simpl; [exact I|].
  apply okp_bind; [exact Hx|]. intros a _. apply okp_bind; [exact IH|]. intros t _. exact I.
Qed.

Lemma okp_rall_map {A B} (f : A -> res B) l : (forall a, okp (f a)) -> okp (rall (map f l)).
Proof. intros H. apply okp_rall. apply Forall_forall. intros x Hx. apply in_map_iff in Hx. destruct Hx as [a [<- _]]. apply H. Qed.

Lemma okp_sum_i64 site acc l : okp (sum_i64 site acc l).
Proof. revert acc; induction l as [|x r IH]; intros acc; simpl; [exact I|]. destruct (in_i64 _); [apply IH|exact I]. Qed.

Lemma okp_zmin_list l : okp (zmin_list l).
Proof. destruct l; exact I. Qed.
Lemma okp_zmax_list l : okp (zmax_list l).
Proof. destruct l; exact I. Qed.

Section Shape.
  Context {T : Type} (N : NumOps T).

  Lemma okp_offset_row ir : okp (offset_row ir).
  Proof.
    unfold offset_row. apply okp_bind; [apply okp_zmin_list|]. intros mn _.
    destruct (mn =? i64_min); [exact I|]. cbv zeta. destruct (forallb _ _); exact I.
  Qed.

  Lemma okp_error_max_from g l : forall acc, okp (error_max_from N g acc l).
  Proof.
    induction l as [|[row ir] r IH]; intros acc; cbn [error_max_from]; [exact I|].
    apply okp_bind; [|intros e _; apply IH]. unfold row_max_err. destruct (row_errs _ _ _ _); exact I.
  Qed.

  Lemma okp_recompute rows perm g : okp (recompute N rows perm g).
  Proof.
    unfold recompute. destruct (negb _); [exact I|].
    apply okp_bind.
    { unfold permuted_rows. apply okp_rall_map. intros p. destruct (nth_error rows p); exact I. }
    intros prow _. apply okp_bind; [apply okp_error_max_from|]. intros em _.
    apply okp_bind; [apply okp_rall_map; apply okp_offset_row|]. intros offs _.
    apply okp_bind; [apply okp_rall_map; apply okp_zmin_list|]. intros minr _.
    apply okp_bind; [apply okp_rall_map; apply okp_zmax_list|]. intros maxr _. exact I.
  Qed.

  Lemma okp_distribution G bg mn mx : okp (distribution N G bg mn mx).
  Proof.
    unfold distribution. destruct (g_int G); [exact I|]. cbv zeta.
    destruct (negb _); [exact I|]. destruct (mx =? i64_max); [exact I|].
    destruct (dist_loop _ _ _ _ _ _ _ _) as [[acc cur] bucket]. exact I.
  Qed.

  Lemma okp_lookup_pvalue G bg score : okp (lookup_pvalue N G bg score).
  Proof.
    unfold lookup_pvalue. destruct (n_isnan N _); [exact I|].
    apply okp_bind; [apply okp_sum_i64|]. intros osum _.
    apply okp_bind; [apply okp_distribution|]. intros rowsq _. cbv zeta.
    destruct (fm_get _ _); [|exact I]. destruct (walk_down _ _ _); exact I.
  Qed.

  Lemma okp_pv_next rows perm bg score g : okp (pv_next N rows perm bg score g).
  Proof.
    unfold pv_next. apply okp_bind; [apply okp_recompute|]. intros G _.
    apply okp_bind; [apply okp_lookup_pvalue|]. intros o _. exact I.
  Qed.

  Lemma okp_ls_loop p lastm : forall riter sum pvs, okp (ls_loop N p lastm riter sum pvs).
  Proof.
    induction riter as [|r IH]; intros sum pvs; cbn [ls_loop]; [exact I|].
    destruct (nth_error lastm (S r)) as [[k q]|]; [|exact I].
    destruct (ge N _ p); [exact I|apply IH].
  Qed.

  Lemma okp_key_at (lastm : fmap (T:=T)) i site : okp (key_at lastm i site).
  Proof. unfold key_at. destruct (nth_error lastm i); exact I. Qed.

  Lemma okp_pv_at (pvs : fmap (T:=T)) k : okp (pv_at pvs k).
  Proof. unfold pv_at. destruct (fm_get k pvs); exact I. Qed.

  Lemma okp_lookup_score G bg p mn mx : okp (lookup_score N G bg p mn mx).
  Proof.
    unfold lookup_score. destruct (n_isnan N _); [exact I|].
    apply okp_bind; [apply okp_distribution|]. intros rowsq _. cbv zeta.
    destruct (length (last rowsq [])) as [|top]; [exact I|].
    apply okp_bind; [apply okp_ls_loop|]. intros [[riter sum] pvs] _.
    apply okp_bind.
    { destruct (gt N sum p).
      - apply okp_bind; [apply okp_key_at|]. intros ae _. apply okp_bind; [apply okp_key_at|]. intros a _. exact I.
      - destruct riter as [|r'].
        + apply okp_bind; [apply okp_key_at|]. intros a _. exact I.
        + apply okp_bind; [apply okp_key_at|]. intros a _. apply okp_bind; [apply okp_key_at|]. intros ae _. exact I. }
    intros [[[a ae] pvs'] exh] _.
    apply okp_bind; [apply okp_pv_at|]. intros pa _.
    apply okp_bind; [destruct (gt N _ _); [exact I|apply okp_pv_at]|]. intros pe _. exact I.
  Qed.

  Lemma okp_sc_next rows perm bg p g win : okp (sc_next N rows perm bg p g win).
  Proof.
    unfold sc_next. apply okp_bind; [apply okp_recompute|]. intros G _.
    apply okp_bind; [apply okp_lookup_score|]. intros o _. cbv zeta.
    apply okp_bind; [apply okp_sum_i64|]. intros osum _. destruct (negb _); exact I.
  Qed.

  Lemma okp_score_window0 rows perm : okp (score_window0 N rows perm).
  Proof.
    unfold score_window0. apply okp_bind; [apply okp_recompute|]. intros G _.
    apply okp_bind; [apply okp_sum_i64|]. intros mn _.
    apply okp_bind; [apply okp_sum_i64|]. intros smax _. cbv zeta. destruct (in_i64 _); exact I.
  Qed.

  Lemma okp_pv_run : forall steps rows perm bg score g, Forall okp (pv_run N steps rows perm bg score g).
  Proof.
    induction steps as [|n IH]; intros rows perm bg score g; cbn [pv_run]; [constructor|].
    destruct (le N g (n_zero N)); [constructor|].
    pose proof (okp_pv_next rows perm bg score g) as H.
    destruct (pv_next N rows perm bg score g) as [it|c|s|]; try contradiction.
    - constructor; [exact I|]. destruct (io_conv it); [constructor|apply IH].
    - constructor; [exact I|constructor].
  Qed.

  Lemma okp_sc_run : forall steps rows perm bg p g win, Forall okp (sc_run N steps rows perm bg p g win).
  Proof.
    induction steps as [|n IH]; intros rows perm bg p g win; cbn [sc_run]; [constructor|].
    destruct (le N g (n_zero N)); [constructor|].
    pose proof (okp_sc_next rows perm bg p g win) as H.
    destruct (sc_next N rows perm bg p g win) as [it|c|s|]; try contradiction.
    - constructor; [exact I|]. destruct (io_conv it); [constructor|apply IH].
    - constructor; [exact I|constructor].
  Qed.

  (* ---------------------------------------------------------------- *)
  (** * recompute: the structural sites 10, 11, 12, 15 *)

  Lemma offset_row_ok_nonempty ir off ir' : offset_row ir = Ok (off, ir') -> ir <> [] -> ir' <> [].
  Proof.
    unfold offset_row. intros H Hne. apply rbind_ok in H. destruct H as [mn [_ H]].
    destruct (mn =? i64_min); [discriminate|]. cbv zeta in H. destruct (forallb _ _); [|discriminate].
    inversion H; subst. destruct ir; [congruence|discriminate].
  Qed.

  Lemma raw_int_row_nonempty g (row : list T) : cells row <> [] -> raw_int_row N g row <> [].
  Proof. unfold raw_int_row. destruct (cells row); [congruence|discriminate]. Qed.

  Lemma row_errs_nonempty g (row : list T) : cells row <> [] -> row_errs N g row (raw_int_row N g row) <> [].
  Proof.
    unfold row_errs, raw_int_row. rewrite combine_map_self. destruct (cells row); [congruence|discriminate].
  Qed.

  (* On a matrix whose rows have at least one symbol cell, with every permutation entry a row index
     and granularity < 1, recompute() can only fail at the i64 sites 13 (-min) and 14 (+= offset). *)
  Theorem recompute_panic_structural rows perm g n :
    lt N g (n_one N) = true ->
    Forall (fun p => (p < length rows)%nat) perm ->
    (forall r, In r rows -> cells r <> []) ->
    recompute N rows perm g = Panic n -> (n = 13 \/ n = 14)%nat.
  Proof.
    intros Hlt Hperm Hcells. unfold recompute. rewrite Hlt. cbn [negb].
    intros H. apply rbind_panic in H. destruct H as [H|[prow [Hp H]]].
    { exfalso. unfold permuted_rows in H. apply rall_panic in H. apply in_map_iff in H.
      destruct H as [q [H Hq]]. rewrite Forall_forall in Hperm. specialize (Hperm q Hq).
      destruct (nth_error rows q) eqn:E; [discriminate|]. apply nth_error_None in E. lia. }
    destruct (permuted_rows_in _ _ _ Hp) as [_ Hin].
    assert (Hpc : forall r, In r prow -> cells r <> []) by (intros r Hr; apply Hcells, Hin, Hr).
    apply rbind_panic in H. destruct H as [H|[em [_ H]]].
    { exfalso. rewrite combine_map_self in H.
      assert (Hl : Forall (fun ri : list T * list Z => snd ri = raw_int_row N g (fst ri) /\ cells (fst ri) <> [])
                          (tl (map (fun a => (a, raw_int_row N g a)) prow))).
      { rewrite tl_map. apply Forall_forall. intros ri Hri. apply in_map_iff in Hri.
        destruct Hri as [a [<- Ha]]. cbn [fst snd]. split; [reflexivity|]. apply Hpc.
        destruct prow; [destruct Ha|right; exact Ha]. }
      revert H Hl. generalize (n_zero N). generalize (tl (map (fun a => (a, raw_int_row N g a)) prow)).
      induction l as [|[row ir] r IH]; intros acc H Hl; cbn [error_max_from] in H; [discriminate|].
      inversion Hl as [|x y [Hir Hne] Hrest]; subst. cbn [fst snd] in Hir, Hne.
      apply rbind_panic in H. destruct H as [H|[e [_ H]]]; [|eauto].
      unfold row_max_err in H. subst ir.
      pose proof (row_errs_nonempty g row Hne) as Hre. destruct (row_errs _ _ _ _); [congruence|discriminate]. }
    assert (Hraw : forall ir, In ir (map (raw_int_row N g) prow) -> ir <> []).
    { intros ir Hir. apply in_map_iff in Hir. destruct Hir as [a [<- Ha]]. apply raw_int_row_nonempty. auto. }
    apply rbind_panic in H. destruct H as [H|[offs [Hoffs H]]].
    { apply rall_panic in H. apply in_map_iff in H. destruct H as [ir [H Hir]].
      specialize (Hraw ir Hir). unfold offset_row in H.
      apply rbind_panic in H. destruct H as [H|[m [_ H]]].
      - destruct ir; [congruence|discriminate].
      - destruct (m =? i64_min); [inversion H; lia|]. cbv zeta in H. destruct (forallb _ _); inversion H. lia. }
    assert (Hints : forall ir', In ir' (map snd offs) -> ir' <> []).
    { apply rall_map_ok in Hoffs. intros ir' Hi. apply in_map_iff in Hi. destruct Hi as [[off ir''] [<- Hob]].
      cbn [snd]. clear H. induction Hoffs as [|ir ob l l' Hh Ht IH]; [destruct Hob|].
      destruct Hob as [->|Hob].
      - eapply offset_row_ok_nonempty; [exact Hh|]. apply Hraw. left; reflexivity.
      - apply IH; [|exact Hob]. intros ir0 H0. apply Hraw. right; exact H0. }
    apply rbind_panic in H. destruct H as [H|[minr [_ H]]].
    { exfalso. apply rall_panic in H. apply in_map_iff in H. destruct H as [ir [H Hir]].
      specialize (Hints ir Hir). destruct ir; [congruence|discriminate]. }
    apply rbind_panic in H. destruct H as [H|[maxr [_ H]]]; [|discriminate].
    exfalso. apply rall_panic in H. apply in_map_iff in H. destruct H as [ir [H Hir]].
    specialize (Hints ir Hir). destruct ir; [congruence|discriminate].
  Qed.

  Lemma recompute_ok_length rows perm g G : recompute N rows perm g = Ok G -> length (g_int G) = length perm.
  Proof.
    intros H. apply (recompute_ok_inv N) in H. destruct H as [prow [offs [Hp [Hoffs [_ [Hint _]]]]]].
    destruct (permuted_rows_in _ _ _ Hp) as [Hlen _]. apply rall_map_ok in Hoffs.
    apply Forall2_length in Hoffs. rewrite Hint, !map_length in *. lia.
  Qed.

  Lemma distribution_panic_22 G bg mn mx : distribution N G bg mn mx = Panic 22 -> g_int G = [].
  Proof.
    unfold distribution. destruct (g_int G); [reflexivity|]. cbv zeta.
    destruct (negb _); [discriminate|]. destruct (mx =? i64_max); [discriminate|].
    destruct (dist_loop _ _ _ _ _ _ _ _) as [[acc cur] bucket]. discriminate.
  Qed.

End Shape.

(* ------------------------------------------------------------------ *)
(** * Exact arithmetic: the domain of the property *)

Open Scope Q_scope.

Definition all_ok {A} (l : list (res A)) : Prop := Forall (fun r => exists a, r = Ok a) l.

(* the structural hypotheses of [recompute_panic_structural] on the domain of the property *)
Lemma matrix_ok_cells K rows (bg : list Q) : matrix_ok K rows bg -> forall r, In r rows -> cells r <> [].
Proof.
  intros [HK [Hlen _]] r Hr. rewrite Forall_forall in Hlen. specialize (Hlen r Hr).
  unfold cells. destruct r as [|a [|b r']]; cbn [length] in Hlen; [lia|lia|]. cbn [removelast]. discriminate.
Qed.

Lemma perm_in_range (n : nat) perm : Permutation perm (seq 0 n) -> Forall (fun p => (p < n)%nat) perm.
Proof.
  intros H. apply Forall_forall. intros p Hp. apply (Permutation_in _ H) in Hp. apply in_seq in Hp. lia.
Qed.

Lemma perm_nonempty (rows : list (list Q)) (perm : list nat) : (2 <= length rows)%nat -> length perm = length rows -> perm <> [].
Proof. intros HM Hl E. rewrite E in Hl. simpl in Hl. lia. Qed.

(* sites of recompute on the domain *)
Lemma recompute_Q_sites rows perm bg K g n :
  matrix_ok K rows bg -> Permutation perm (seq 0 (length rows)) -> g < 1 ->
  recompute NumQ rows perm g = Panic n -> (n = 13 \/ n = 14)%nat.
Proof.
  intros Hok Hperm Hg1. apply recompute_panic_structural.
  - apply ltQ. exact Hg1.
  - apply perm_in_range. exact Hperm.
  - apply (matrix_ok_cells K rows bg Hok).
Qed.

(* PvaluesIterator::next: the only reachable panic sites are the i64 overflows *)
Theorem pv_next_panic_sites rows perm bg K g score n :
  matrix_ok K rows bg -> (2 <= length rows)%nat -> Permutation perm (seq 0 (length rows)) -> g < 1 ->
  pv_next NumQ rows perm bg score g = Panic n ->
  (n = 13 \/ n = 14 \/ n = 21 \/ n = 23 \/ n = 24)%nat.
Proof.
  intros Hok HM Hperm Hg1 H.
  pose proof (pv_next_panics _ _ _ _ _ _ H) as H25.
  unfold pv_next in H. apply rbind_panic in H. destruct H as [H|[G [HG H]]].
  { pose proof (recompute_Q_sites _ _ _ _ _ _ Hok Hperm Hg1 H). lia. }
  apply rbind_panic in H. destruct H as [H|[o [_ H]]]; [|discriminate].
  unfold lookup_pvalue in H. cbn [NumQ n_isnan] in H.
  apply rbind_panic in H. destruct H as [H|[osum [_ H]]].
  { apply sum_i64_panic in H. lia. }
  apply rbind_panic in H. destruct H as [H|[rowsq [_ H]]].
  { pose proof (distribution_panic NumQ _ _ _ _ _ H) as Hc.
    destruct Hc as [->|Hc]; [|lia]. exfalso.
    apply distribution_panic_22 in H. pose proof (recompute_ok_length NumQ _ _ _ _ HG) as Hl.
    rewrite H in Hl. simpl in Hl. pose proof (perm_length rows perm Hperm). lia. }
  exfalso. revert H. cbv zeta. destruct (fm_get _ _); [destruct (walk_down _ _ _)|];
    intros H; inversion H; subst; congruence.
Qed.

(* TOTALITY of one refinement step of approximate_pvalue: on the domain of the property and under the
   closed i64 bound, PvaluesIterator::next returns an Iteration *)
Theorem pv_next_total rows perm bg K g score B :
  matrix_ok K rows bg -> (2 <= length rows)%nat -> Permutation perm (seq 0 (length rows)) ->
  0 < g -> g < 1 ->
  cells_boundedQ B rows g -> Qabs score / g <= inject_Z B ->
  ((2 * Z.of_nat (length rows) + 1) * B + Z.of_nat (length rows) + 1 < i64_max)%Z ->
  exists it, pv_next NumQ rows perm bg score g = Ok it.
Proof.
  intros Hok HM Hperm Hg Hg1 Hc Hs Hbig.
  pose proof (perm_length rows perm Hperm) as Hpl.
  destruct (okp_cases _ (okp_pv_next NumQ rows perm bg score g)) as [Hit|[n Hn]]; [exact Hit|exfalso].
  assert (HB : (0 <= B)%Z).
  { rewrite Zle_Qle. eapply Qle_trans; [|exact Hs]. apply Qle_shift_div_l; [exact Hg|].
    rewrite Qmult_0_l. apply Qabs_nonneg. }
  pose proof (pv_next_panic_sites _ _ _ _ _ _ _ Hok HM Hperm Hg1 Hn) as Hsites.
  rewrite <- Hpl in Hbig.
  pose proof (pv_next_no_overflow_closed rows perm bg score g B n HB (perm_nonempty rows perm HM Hpl) Hg Hc Hs Hbig Hn).
  lia.
Qed.

(* coarser granularities inherit the bounds *)
Lemma abs_div_coarser x g g' : 0 < g -> g <= g' -> Qabs x / g' <= Qabs x / g.
Proof.
  intros Hg Hgg. assert (Hg' : 0 < g') by lra.
  pose proof (Qabs_nonneg x) as Ha. set (a := Qabs x) in *. clearbody a.
  apply Qle_shift_div_r; [exact Hg'|].
  assert (Hq : 0 <= a / g) by (apply Qle_shift_div_l; [exact Hg|lra]).
  assert (Ea : a == a / g * g) by (field; lra).
  set (q := a / g) in *. clearbody q. nra.
Qed.

Lemma cells_bounded_coarser B rows g g' : 0 < g -> g <= g' -> cells_boundedQ B rows g -> cells_boundedQ B rows g'.
Proof.
  intros Hg Hgg H r x Hr Hx. eapply Qle_trans; [|exact (H r x Hr Hx)]. apply abs_div_coarser; assumption.
Qed.

(* TOTALITY along the run: if the bounds hold at a granularity gl with gl * 10^steps <= 10 g (gl is at most
   the granularity of the last of [steps] calls), every call of next() returns an Iteration *)
Theorem pv_run_total_gen : forall steps rows perm bg K score g gl B,
  matrix_ok K rows bg -> (2 <= length rows)%nat -> Permutation perm (seq 0 (length rows)) ->
  0 < gl -> g < 1 -> gl * pow10 steps <= 10 * g ->
  cells_boundedQ B rows gl -> Qabs score / gl <= inject_Z B ->
  ((2 * Z.of_nat (length rows) + 1) * B + Z.of_nat (length rows) + 1 < i64_max)%Z ->
  all_ok (pv_run NumQ steps rows perm bg score g).
Proof.
  induction steps as [|n IH]; intros rows perm bg K score g gl B Hok HM Hperm Hgl Hg1 Hrel Hc Hs Hbig;
    cbn [pv_run]; [constructor|].
  pose proof (pow10_pos n) as Hpn. rewrite pow10_S in Hrel.
  assert (Hp1 : 1 <= pow10 n).
  { unfold pow10. change 1 with (inject_Z 1). rewrite <- Zle_Qle.
    assert (0 < 10 ^ Z.of_nat n)%Z by (apply Z.pow_pos_nonneg; lia). lia. }
  assert (Hglg : gl <= g) by nra.
  assert (Hg : 0 < g) by lra.
  rewrite (le_pos_false g Hg).
  destruct (pv_next_total rows perm bg K g score B Hok HM Hperm Hg Hg1) as [it Hit]; auto.
  { apply (cells_bounded_coarser B rows gl g); auto. }
  { eapply Qle_trans; [apply (abs_div_coarser score gl g); auto|exact Hs]. }
  rewrite Hit. constructor; [eauto|].
  destruct (io_conv it); [constructor|].
  destruct (div10_pos g Hg) as [Hd0 Hd1].
  apply (IH rows perm bg K score _ gl B); auto.
  - cbn [NumQ n_div n_ten] in *. lra.
  - cbn [NumQ n_div n_ten]. field_simplify. nra.
Qed.

(* approximate_pvalue(score), [steps] calls of next(): the bounds are asked at the granularity
   10^-steps of the last call *)
Theorem pv_run_total : forall steps rows perm bg K score B,
  matrix_ok K rows bg -> (2 <= length rows)%nat -> Permutation perm (seq 0 (length rows)) ->
  let gl := (1 # 10) / pow10 (steps - 1) in
  cells_boundedQ B rows gl -> Qabs score / gl <= inject_Z B ->
  ((2 * Z.of_nat (length rows) + 1) * B + Z.of_nat (length rows) + 1 < i64_max)%Z ->
  all_ok (pv_run NumQ steps rows perm bg score (1 # 10)).
Proof.
  intros steps rows perm bg K score B Hok HM Hperm gl Hc Hs Hbig.
  destruct steps as [|n]; [constructor|].
  apply (pv_run_total_gen (S n) rows perm bg K score (1 # 10) gl B); auto.
  - apply gran_pos.
  - reflexivity.
  - unfold gl. replace (S n - 1)%nat with n by lia. rewrite pow10_S.
    pose proof (pow10_pos n). field_simplify; [|lra]. lra.
Qed.

(* ------------------------------------------------------------------ *)
(** * approximate_score *)

(* ScoresIterator::next on the domain: the i64 sites and site 31 (`keys[riter + 1]`: the mass above the
   window exceeds p, see TfmTotal.lookup_score_panic_31_iff) are the only reachable panic sites *)
Theorem sc_next_panic_sites rows perm bg K p g win n :
  matrix_ok K rows bg -> (2 <= length rows)%nat -> Permutation perm (seq 0 (length rows)) -> g < 1 ->
  sc_next NumQ rows perm bg p g win = Panic n ->
  (n = 13 \/ n = 14 \/ n = 21 \/ n = 23 \/ n = 24 \/ n = 31 \/ n = 33)%nat.
Proof.
  intros Hok HM Hperm Hg1 H.
  unfold sc_next in H. apply rbind_panic in H. destruct H as [H|[G [HG H]]].
  { pose proof (recompute_Q_sites _ _ _ _ _ _ Hok Hperm Hg1 H). lia. }
  apply rbind_panic in H. destruct H as [H|[o [_ H]]].
  { apply lookup_score_panic_sites in H. destruct H as [H|[-> _]]; [|lia].
    pose proof (distribution_panic NumQ _ _ _ _ _ H) as Hc.
    destruct Hc as [->|Hc]; [|lia]. exfalso.
    apply distribution_panic_22 in H. pose proof (recompute_ok_length NumQ _ _ _ _ HG) as Hl.
    rewrite H in Hl. simpl in Hl. pose proof (perm_length rows perm Hperm). lia. }
  cbv zeta in H. apply rbind_panic in H. destruct H as [H|[osum [_ H]]].
  { apply sum_i64_panic in H. lia. }
  destruct (negb _); inversion H. lia.
Qed.

(* approximate_score(): recompute(0.1) and the initial window *)
Theorem score_window0_panic_sites rows perm bg K n :
  matrix_ok K rows bg -> Permutation perm (seq 0 (length rows)) ->
  score_window0 NumQ rows perm = Panic n -> (n = 13 \/ n = 14 \/ n = 34)%nat.
Proof.
  intros Hok Hperm H. unfold score_window0 in H.
  apply rbind_panic in H. destruct H as [H|[G [_ H]]].
  { assert (Hg1 : n_tenth NumQ < 1) by reflexivity.
    pose proof (recompute_Q_sites _ _ _ _ _ _ Hok Hperm Hg1 H). lia. }
  apply rbind_panic in H. destruct H as [H|[mn [_ H]]].
  { apply sum_i64_panic in H. lia. }
  apply rbind_panic in H. destruct H as [H|[smax [_ H]]].
  { apply sum_i64_panic in H. lia. }
  cbv zeta in H. destruct (in_i64 _); inversion H. lia.
Qed.

(* every panic along the run of approximate_score is at one of those sites *)
Theorem sc_run_panic_sites : forall steps rows perm bg K p g win n,
  matrix_ok K rows bg -> (2 <= length rows)%nat -> Permutation perm (seq 0 (length rows)) ->
  0 < g -> g < 1 ->
  In (Panic n) (sc_run NumQ steps rows perm bg p g win) ->
  (n = 13 \/ n = 14 \/ n = 21 \/ n = 23 \/ n = 24 \/ n = 31 \/ n = 33)%nat.
Proof.
  induction steps as [|k IH]; intros rows perm bg K p g win n Hok HM Hperm Hg Hg1 Hin; cbn [sc_run] in Hin; [destruct Hin|].
  rewrite (le_pos_false g Hg) in Hin.
  destruct (sc_next NumQ rows perm bg p g win) as [it|c|s|] eqn:E.
  - destruct Hin as [Hin|Hin]; [discriminate|]. destruct (io_conv it); [destruct Hin|].
    destruct (div10_pos g Hg) as [Hd0 Hd1].
    apply (IH rows perm bg K p (n_div NumQ g (n_ten NumQ)) (io_win it) n); auto. lra.
  - destruct Hin as [Hin|[]]; discriminate.
  - destruct Hin as [Hin|[]]. inversion Hin; subst s.
    apply (sc_next_panic_sites rows perm bg K p g win n); auto.
  - destruct Hin as [Hin|[]]; discriminate.
Qed.

Theorem pv_run_panic_sites : forall steps rows perm bg K score g n,
  matrix_ok K rows bg -> (2 <= length rows)%nat -> Permutation perm (seq 0 (length rows)) ->
  0 < g -> g < 1 ->
  In (Panic n) (pv_run NumQ steps rows perm bg score g) ->
  (n = 13 \/ n = 14 \/ n = 21 \/ n = 23 \/ n = 24)%nat.
Proof.
  induction steps as [|k IH]; intros rows perm bg K score g n Hok HM Hperm Hg Hg1 Hin; cbn [pv_run] in Hin; [destruct Hin|].
  rewrite (le_pos_false g Hg) in Hin.
  destruct (pv_next NumQ rows perm bg score g) as [it|c|s|] eqn:E.
  - destruct Hin as [Hin|Hin]; [discriminate|]. destruct (io_conv it); [destruct Hin|].
    destruct (div10_pos g Hg) as [Hd0 Hd1].
    apply (IH rows perm bg K score (n_div NumQ g (n_ten NumQ)) n); auto. lra.
  - destruct Hin as [Hin|[]]; discriminate.
  - destruct Hin as [Hin|[]]. inversion Hin; subst s.
    apply (pv_next_panic_sites rows perm bg K g score n); auto.
  - destruct Hin as [Hin|[]]; discriminate.
Qed.

(* an all-Ok-or-Panic list without panics is all Ok *)
Lemma all_ok_of_no_panic {A} (l : list (res A)) :
  Forall okp l -> (forall n, ~ In (Panic n) l) -> all_ok l.
Proof.
  intros Hl Hn. apply Forall_forall. intros r Hr. rewrite Forall_forall in Hl.
  destruct (okp_cases r (Hl r Hr)) as [Ha|[n En]]; [exact Ha|]. subst r. exfalso. exact (Hn n Hr).
Qed.

(* ------------------------------------------------------------------ *)
(** * Any instance of the numbers (binary64 included) *)

Section AnyNum.
  Context {T : Type} (N : NumOps T).

  (* the domain, without any reference to the background: granularity below 1 and not NaN, a non-empty permutation
     of row indices, at least one symbol cell per row *)
  Definition shape_ok (rows : list (list T)) (perm : list nat) (g : T) : Prop :=
    lt N g (n_one N) = true /\ n_isnan N g = false /\
    Forall (fun p => (p < length rows)%nat) perm /\ perm <> [] /\
    (forall r, In r rows -> cells r <> []).

  Lemma recompute_gran rows perm g G : recompute N rows perm g = Ok G -> g_gran G = g.
  Proof. intros H. apply (recompute_ok_inv N) in H. destruct H as [prow [offs [_ [_ [Hg _]]]]]. exact Hg. Qed.

  Theorem pv_next_panic_sites_gen rows perm bg score g n :
    shape_ok rows perm g ->
    pv_next N rows perm bg score g = Panic n ->
    (n = 13 \/ n = 14 \/ n = 21 \/ n = 23 \/ n = 24)%nat.
  Proof.
    intros [Hlt [Hnan [Hperm [Hne Hcells]]]] H.
    pose proof (pv_next_panics_gen N _ _ _ _ _ _ H) as H25.
    unfold pv_next in H. apply rbind_panic in H. destruct H as [H|[G [HG H]]].
    { pose proof (recompute_panic_structural N _ _ _ _ Hlt Hperm Hcells H). lia. }
    apply rbind_panic in H. destruct H as [H|[o [_ H]]]; [|discriminate].
    unfold lookup_pvalue in H. rewrite (recompute_gran _ _ _ _ HG), Hnan in H.
    apply rbind_panic in H. destruct H as [H|[osum [_ H]]].
    { apply sum_i64_panic in H. lia. }
    apply rbind_panic in H. destruct H as [H|[rowsq [_ H]]].
    { pose proof (distribution_panic N _ _ _ _ _ H) as Hc.
      destruct Hc as [->|Hc]; [|lia]. exfalso.
      apply distribution_panic_22 in H. pose proof (recompute_ok_length N _ _ _ _ HG) as Hl.
      rewrite H in Hl. simpl in Hl. destruct perm; [congruence|discriminate]. }
    exfalso. revert H. cbv zeta. destruct (fm_get _ _); [destruct (walk_down _ _ _)|];
      intros H; inversion H; subst; congruence.
  Qed.

  Theorem sc_next_panic_sites_gen rows perm bg p g win n :
    shape_ok rows perm g ->
    sc_next N rows perm bg p g win = Panic n ->
    (n = 13 \/ n = 14 \/ n = 21 \/ n = 23 \/ n = 24 \/ n = 31 \/ n = 33)%nat.
  Proof.
    intros [Hlt [Hnan [Hperm [Hne Hcells]]]] H.
    unfold sc_next in H. apply rbind_panic in H. destruct H as [H|[G [HG H]]].
    { pose proof (recompute_panic_structural N _ _ _ _ Hlt Hperm Hcells H). lia. }
    apply rbind_panic in H. destruct H as [H|[o [_ H]]].
    { apply (lookup_score_panic_gen N) in H. destruct H as [[_ H]|[H|[-> _]]]; [| |lia].
      - rewrite (recompute_gran _ _ _ _ HG) in H. congruence.
      - pose proof (distribution_panic N _ _ _ _ _ H) as Hc.
        destruct Hc as [->|Hc]; [|lia]. exfalso.
        apply distribution_panic_22 in H. pose proof (recompute_ok_length N _ _ _ _ HG) as Hl.
        rewrite H in Hl. simpl in Hl. destruct perm; [congruence|discriminate]. }
    cbv zeta in H. apply rbind_panic in H. destruct H as [H|[osum [_ H]]].
    { apply sum_i64_panic in H. lia. }
    destruct (negb _); inversion H. lia.
  Qed.

  Theorem score_window0_panic_sites_gen rows perm n :
    shape_ok rows perm (n_tenth N) ->
    score_window0 N rows perm = Panic n -> (n = 13 \/ n = 14 \/ n = 34)%nat.
  Proof.
    intros [Hlt [Hnan [Hperm [Hne Hcells]]]] H. unfold score_window0 in H.
    apply rbind_panic in H. destruct H as [H|[G [_ H]]].
    { pose proof (recompute_panic_structural N _ _ _ _ Hlt Hperm Hcells H). lia. }
    apply rbind_panic in H. destruct H as [H|[mn [_ H]]].
    { apply sum_i64_panic in H. lia. }
    apply rbind_panic in H. destruct H as [H|[smax [_ H]]].
    { apply sum_i64_panic in H. lia. }
    cbv zeta in H. destruct (in_i64 _); inversion H. lia.
  Qed.
End AnyNum.

(* ------------------------------------------------------------------ *)
(** * binary64: the instance replayed against the implementation *)

From Coq Require Import Reals.
From Flocq Require Import Core BinarySingleNaN.
From LMBase Require Import IEEE.

(* every binary32 matrix with K >= 2 cells per row, any permutation of its row indices, a granularity below 1 *)
Lemma shape_ok_F64 K (rows : list (list F64.t)) perm (g : F64.t) :
  (2 <= K)%nat -> Forall (fun r => length r = K) rows -> (1 <= length rows)%nat ->
  Permutation perm (seq 0 (length rows)) ->
  lt NumF64 g (n_one NumF64) = true ->
  shape_ok NumF64 rows perm g.
Proof.
  intros HK Hlen HM Hperm Hlt. split; [exact Hlt|]. split.
  { unfold lt in Hlt. cbn [NumF64 n_cmp n_isnan n_one] in *. destruct g; try reflexivity. discriminate. }
  split; [apply perm_in_range; exact Hperm|]. split.
  { intros E. subst perm. apply Permutation_nil in Hperm. destruct rows; [simpl in HM; lia|discriminate]. }
  intros r Hr. rewrite Forall_forall in Hlen. specialize (Hlen r Hr).
  unfold cells. destruct r as [|a [|b r']]; cbn [length] in Hlen; [lia|lia|]. cbn [removelast]. discriminate.
Qed.

(* TOTALITY of PvaluesIterator::next for the binary64 instance, under the hypotheses of TfmOverflow.pv_next_no_overflow_F64 *)
Theorem pv_next_total_F64 : forall K (rows : list (list F64.t)) perm bg score (g : binary_float 53 1024) B,
  (2 <= K)%nat -> Forall (fun r => length r = K) rows -> (1 <= length rows)%nat ->
  Permutation perm (seq 0 (length rows)) ->
  lt NumF64 g (n_one NumF64) = true ->
  B2R g <> 0%R ->
  (0 <= B < 2 ^ 62)%Z ->
  generic_format radix2 (SpecFloat.fexp 53 1024) (IZR B) ->
  (2 * Z.of_nat (length perm) * B <= i64_max)%Z ->
  cells_boundedF64 B rows g ->
  (forall (G : geom) (osum : Z),
     recompute NumF64 rows perm g = Ok G ->
     sum_i64 21 0 (g_off G) = Ok osum -> (pv_hi_of NumF64 G score osum < i64_max)%Z) ->
  exists it, pv_next NumF64 rows perm bg score g = Ok it.
Proof.
  intros K rows perm bg score g B HK Hlen HM Hperm Hlt Hg0 HB Hfmt H2M Hc Hwin.
  destruct (okp_cases _ (okp_pv_next NumF64 rows perm bg score g)) as [Hit|[n Hn]]; [exact Hit|exfalso].
  pose proof (pv_next_panic_sites_gen NumF64 rows perm bg score g n
                (shape_ok_F64 K rows perm g HK Hlen HM Hperm Hlt) Hn) as Hs.
  pose proof (pv_next_no_overflow_F64 rows perm bg score g B n Hg0 HB Hfmt H2M Hc Hwin Hn). lia.
Qed.

(* ScoresIterator::next, binary64: an Iteration, or the panic of site 31 *)
Theorem sc_next_total_or_31_F64 : forall K (rows : list (list F64.t)) perm bg p (g : binary_float 53 1024) win B,
  (2 <= K)%nat -> Forall (fun r => length r = K) rows -> (1 <= length rows)%nat ->
  Permutation perm (seq 0 (length rows)) ->
  lt NumF64 g (n_one NumF64) = true ->
  B2R g <> 0%R ->
  (0 <= B < 2 ^ 62)%Z ->
  generic_format radix2 (SpecFloat.fexp 53 1024) (IZR B) ->
  (3 * Z.of_nat (length perm) * B <= i64_max)%Z ->
  cells_boundedF64 B rows g ->
  (snd win < i64_max)%Z ->
  (i64_min + Z.of_nat (length perm) * B <= snd win + 1 <= i64_max - Z.of_nat (length perm) * B)%Z ->
  (exists it, sc_next NumF64 rows perm bg p g win = Ok it) \/ sc_next NumF64 rows perm bg p g win = Panic 31.
Proof.
  intros K rows perm bg p g win B HK Hlen HM Hperm Hlt Hg0 HB Hfmt H3M Hc Hw Hw2.
  destruct (okp_cases _ (okp_sc_next NumF64 rows perm bg p g win)) as [Hit|[n Hn]]; [left; exact Hit|right].
  pose proof (sc_next_panic_sites_gen NumF64 rows perm bg p g win n
                (shape_ok_F64 K rows perm g HK Hlen HM Hperm Hlt) Hn) as Hs.
  pose proof (sc_next_no_overflow_F64 rows perm bg p g win B n Hg0 HB Hfmt H3M Hc Hw Hw2 Hn).
  assert (n = 31%nat) by lia. subst n. exact Hn.
Qed.
