(* Specification-level definitions for the TFM-PVALUE theorems (exact arithmetic):
   the exact distribution of the real score S and of the integer score I of a random
   background-distributed word, as weighted sums over all choices of one symbol per
   row.  Definitions only. *)
From Coq Require Import ZArith QArith Qround List Bool Sorted.
From LMBase Require Import Res.
From LMTfm Require Import TfmNum TfmModel.
Import ListNotations.
Open Scope Q_scope.

Fixpoint Qsum (l : list Q) : Q :=
  match l with [] => 0 | x :: r => x + Qsum r end.

Fixpoint Zsum (l : list Z) : Z :=
  match l with [] => 0%Z | x :: r => (x + Zsum r)%Z end.

Definition ind (b : bool) : Q := if b then 1 else 0.

(* A row is a list of (value, probability) entries, one per symbol.
   [wsum rows f] = sum over all words (one entry per row) of
   (product of the probabilities) * f (values of the word). *)
Fixpoint wsum {A : Type} (rows : list (list (A * Q))) (f : list A -> Q) : Q :=
  match rows with
  | [] => f []
  | r :: rest => Qsum (map (fun ab => snd ab * wsum rest (fun l => f (fst ab :: l))) r)
  end.

(* [attain l rows]: l picks one value in every row *)
Definition attain {A : Type} (l : list A) (rows : list (list (A * Q))) : Prop :=
  Forall2 (fun a r => In a (map fst r)) l rows.

(* rows of the real-valued matrix: non-wildcard cells paired with their background frequency *)
Definition srows (cs : list (list Q)) (bg : list Q) : list (list (Q * Q)) :=
  map (fun r => combine r bg) cs.

(* rows of the integer matrix *)
Definition irows (ints : list (list Z)) (bg : list Q) : list (list (Z * Q)) :=
  map (fun r => combine r bg) ints.

(* P(S >= t): exact tail of the score of a random word *)
Definition tailS (cs : list (list Q)) (bg : list Q) (t : Q) : Q :=
  wsum (srows cs bg) (fun l => ind (Qle_bool t (Qsum l))).

(* exact distribution of the integer score *)
Definition PI_eq (ir : list (list (Z * Q))) (k : Z) : Q := wsum ir (fun l => ind (Zsum l =? k)%Z).
Definition PI_ge (ir : list (list (Z * Q))) (k : Z) : Q := wsum ir (fun l => ind (k <=? Zsum l)%Z).
Definition PI_gt (ir : list (list (Z * Q))) (k : Z) : Q := wsum ir (fun l => ind (k <? Zsum l)%Z).

(* [dist_exact ir mn mx lastm]: the last Q-value map after distribution(mn, mx) is the
   exact distribution of the integer score on [mn, mx], plus the total mass above mx
   under the key mx+1; every attainable integer score of the window is a key. *)
Definition dist_exact (ir : list (list (Z * Q))) (mn mx : Z) (lastm : list (Z * Q)) : Prop :=
  exists body vb,
    lastm = body ++ [((mx + 1)%Z, vb)] /\
    StronglySorted Z.lt (map fst body) /\
    (forall kv, In kv body -> (mn <= fst kv <= mx)%Z /\ snd kv == PI_eq ir (fst kv)) /\
    vb == PI_gt ir mx /\
    (forall l, attain l ir -> (mn <= Zsum l <= mx)%Z -> In (Zsum l) (map fst body)).

(* the non-wildcard cells of the permuted matrix *)
Definition perm_cells (rows : list (list Q)) (perm : list nat) : list (list Q) :=
  map (fun p => removelast (nth p rows [])) perm.

(* wildcard cells of the matrix *)
Definition wild_cells (rows : list (list Q)) : list Q := map (fun r => last r 0) rows.
