(* What [wrows_of] (TfmRef.v) hands to the property checkers: the exact values of the symbol cells paired with their
   background frequencies -- [dy_rows] of TfmLink.v, whose checker tail is the [tailS] of the theorems (T_tailS) --
   plus, only when the wildcard frequency is not zero AND the wildcard cell is finite, the wildcard entry. *)
From Coq Require Import ZArith QArith List Bool Lia.
From LMBase Require Import Res ListX IEEE.
From LMTfm Require Import TfmNum TfmModel TfmSpec TfmCheck TfmLink TfmRef.
Import ListNotations.

Definition exact_cells (cs : list F32.t) (ds : list dy) : Prop := Forall2 (fun c d => f32_to_dy c = Some d) cs ds.

Lemma wrow_of_spec : forall row bg r,
  wrow_of row bg = Some r ->
  length row = length bg /\ row <> [] /\
  exists ds, exact_cells (removelast row) ds /\
    (* no wildcard entry: no wildcard mass, or a -inf wildcard cell *)
    ((fst (last bg dy0) = 0%Z \/ f32_to_dy (last row F32.zero) = None) -> r = combine ds bg) /\
    (* wildcard entry: wildcard mass and a finite wildcard cell *)
    (forall dw, f32_to_dy (last row F32.zero) = Some dw -> fst (last bg dy0) <> 0%Z -> r = combine (ds ++ [dw]) bg) /\
    (f32_to_dy (last row F32.zero) = None -> F32.is_neg_inf (last row F32.zero) = true).
Proof.
  induction row as [|c cs IH]; intros bg r H; [discriminate|].
  destruct cs as [|c' cs].
  - (* the wildcard cell *)
    destruct bg as [|b [|b' bs]]; cbn [wrow_of] in H; try discriminate.
    2:{ destruct (f32_to_dy c); discriminate. }
    split; [reflexivity|]. split; [discriminate|]. exists []. cbn [removelast last].
    split; [constructor|].
    destruct (f32_to_dy c) as [d|] eqn:Ec.
    + inversion H; subst r; clear H. split; [|split].
      * intros [E|E]; [rewrite E; reflexivity|discriminate].
      * intros dw Edw Hne. inversion Edw; subst dw. destruct (Z.eqb_spec (fst b) 0); [contradiction|reflexivity].
      * discriminate.
    + destruct (F32.is_neg_inf c) eqn:En; [|discriminate]. inversion H; subst r; clear H. split; [|split].
      * intros _. reflexivity.
      * intros dw Edw. discriminate.
      * intros _. reflexivity.
  - destruct bg as [|b bs]; [cbn [wrow_of] in H; discriminate|].
    assert (H' : match f32_to_dy c with
                 | Some d => match wrow_of (c' :: cs) bs with Some r0 => Some ((d, b) :: r0) | None => None end
                 | None => None end = Some r).
    { destruct bs; exact H. }
    clear H. destruct (f32_to_dy c) as [d|] eqn:Ec; [|discriminate].
    destruct (wrow_of (c' :: cs) bs) as [r0|] eqn:Er; [|discriminate]. inversion H'; subst r; clear H'.
    destruct (IH bs r0 Er) as [Hlen [_ [ds [Hds [Hno [Hw Hinf]]]]]].
    split; [cbn [length] in *; lia|]. split; [discriminate|].
    assert (Hbs : bs <> []) by (destruct bs; [discriminate|discriminate]).
    assert (Elb : last (b :: bs) dy0 = last bs dy0) by (destruct bs; [congruence|reflexivity]).
    assert (Elr : last (c :: c' :: cs) F32.zero = last (c' :: cs) F32.zero) by reflexivity.
    rewrite Elb, Elr.
    exists (d :: ds). split.
    { change (removelast (c :: c' :: cs)) with (c :: removelast (c' :: cs)). constructor; assumption. }
    split; [|split].
    + intros Hc. rewrite (Hno Hc). reflexivity.
    + intros dw Edw Hne. rewrite (Hw dw Edw Hne). reflexivity.
    + exact Hinf.
Qed.

Lemma wrows_of_Forall2 : forall mat bg rs,
  wrows_of mat bg = Some rs -> Forall2 (fun row r => wrow_of row bg = Some r) mat rs.
Proof.
  induction mat as [|row rest IH]; intros bg rs H; cbn [wrows_of] in H.
  - inversion H; constructor.
  - destruct (wrow_of row bg) as [r|] eqn:Er; [|discriminate].
    destruct (wrows_of rest bg) as [rs'|] eqn:Ers; [|discriminate]. inversion H; subst rs. constructor; auto.
Qed.

(* Without wildcard mass the reference rows are [dy_rows] of the exact symbol cells: the checker's tail [T] on them is
   the exact tail [tailS] of the theorems (TfmLink.T_tailS), for every matrix the check does not skip *)
Theorem wrows_of_no_wildcard_mass : forall mat bg rs,
  wrows_of mat bg = Some rs -> fst (last bg dy0) = 0%Z ->
  Forall (fun row => length row = length bg) mat /\
  exists css, Forall2 (fun row ds => exact_cells (removelast row) ds) mat css /\ rs = dy_rows css bg.
Proof.
  intros mat bg rs H Hw. apply wrows_of_Forall2 in H.
  induction H as [|row r mat' rs' Hr _ IH].
  - split; [constructor|]. exists []. split; [constructor|reflexivity].
  - destruct IH as [Hlen [css [Hcss Ers]]].
    destruct (wrow_of_spec row bg r Hr) as [Hl [_ [ds [Hds [Hno _]]]]].
    split; [constructor; assumption|].
    exists (ds :: css). split; [constructor; assumption|].
    unfold dy_rows in *. cbn [map]. rewrite (Hno (or_introl Hw)), Ers. reflexivity.
Qed.

(* the cases the check skips are exactly those outside the quantifier: some symbol cell is not finite, a wildcard cell
   is neither finite nor -inf, or a row does not have one cell per background frequency *)
Theorem wrows_of_none : forall mat bg,
  wrows_of mat bg = None ->
  exists row, In row mat /\
    (length row <> length bg \/ row = [] \/
     (exists c, In c (removelast row) /\ f32_to_dy c = None) \/
     (f32_to_dy (last row F32.zero) = None /\ F32.is_neg_inf (last row F32.zero) = false)).
Proof.
  induction mat as [|row rest IH]; intros bg H; cbn [wrows_of] in H; [discriminate|].
  destruct (wrow_of row bg) as [r|] eqn:Er.
  - destruct (wrows_of rest bg) as [rs'|] eqn:Ers; [discriminate|].
    destruct (IH bg Ers) as [row' [Hin Hc]]. exists row'. split; [right; exact Hin|exact Hc].
  - exists row. split; [left; reflexivity|]. clear H IH.
    revert bg Er. induction row as [|c cs IHr]; intros bg Er; [right; left; reflexivity|].
    destruct cs as [|c' cs].
    + destruct bg as [|b [|b' bs]]; [left; discriminate| |left; discriminate].
      cbn [wrow_of] in Er. cbn [last removelast].
      destruct (f32_to_dy c) eqn:Ec; [discriminate|].
      destruct (F32.is_neg_inf c) eqn:En; [discriminate|]. right; right; right. auto.
    + destruct bg as [|b bs]; [left; discriminate|].
      assert (E' : match f32_to_dy c with
                   | Some d => match wrow_of (c' :: cs) bs with Some r0 => Some ((d, b) :: r0) | None => None end
                   | None => None end = None).
      { destruct bs; exact Er. }
      destruct (f32_to_dy c) as [d|] eqn:Ec.
      * destruct (wrow_of (c' :: cs) bs) eqn:Er'; [discriminate|].
        destruct (IHr bs Er') as [Hl|[Hn|[[x [Hx Ex]]|Hlast]]].
        -- left. cbn [length] in *. lia.
        -- discriminate.
        -- right; right; left. exists x. split; [|exact Ex].
           change (removelast (c :: c' :: cs)) with (c :: removelast (c' :: cs)). right; exact Hx.
        -- right; right; right. exact Hlast.
      * right; right; left. exists c. split; [|exact Ec].
        change (removelast (c :: c' :: cs)) with (c :: removelast (c' :: cs)). left; reflexivity.
Qed.
