(* Property C13, round-3 extensions (see C12Ext.v): no i64 overflow, convergence of
   ScoresIterator::next, iteration order of the hash maps, wildcard mass. *)
From Coq Require Import Reals ZArith QArith Qround Qabs List Bool Lia Lqa Sorted Permutation.
From Flocq Require Import Core BinarySingleNaN.
From LMBase Require Import Res ListX IEEE.
From LMTfm Require Import TfmNum TfmModel TfmOrd TfmSpec TfmProofs TfmScore TfmDist TfmPerm TfmMain TfmRun TfmTotal TfmLink TfmCheck TfmConv TfmClause1 TfmAdequate TfmOverflow TfmConverge TfmIEEE TfmOrdProofs TfmClosed TfmMass TfmFinal TfmFinalProofs.
Import ListNotations.
Open Scope Q_scope.

(* ---------- (a) no overflow ---------- *)

(* One step of approximate_score in exact arithmetic: |x|/g <= B for every symbol cell, 3 M B <= 2^63 - 1 and a window whose
   upper end is at least M B away from the ends of the i64 range: none of the i64 sites (13, 14, 21, 23, 24 and 33 =
   iscore - offset) can overflow *)
Theorem C13_step_no_overflow :
  forall (rows : list (list Q)) (perm : list nat) (bg : list Q) (p g : Q) (win : Z * Z)
  (B : Z) (n : nat),
  (0 <= B)%Z ->
  (2 * B <= i64_max)%Z ->
  (3 * Z.of_nat (length perm) * B <= i64_max)%Z ->
  0 < g ->
  cells_boundedQ B rows g ->
  (snd win < i64_max)%Z ->
  (i64_min + Z.of_nat (length perm) * B <= snd win + 1 <= i64_max - Z.of_nat (length perm) * B)%Z ->
  sc_next NumQ rows perm bg p g win = Panic n ->
  n <> 13%nat /\ n <> 14%nat /\ n <> 21%nat /\ n <> 23%nat /\ n <> 24%nat /\ n <> 33%nat.
Proof. exact sc_next_no_overflow_Q. Qed.

(* the same for the binary64 instance replayed against the implementation *)
Theorem C13_step_no_overflow_f64 :
  forall (rows : list (list IEEE.F64.t)) (perm : list nat) (bg : list IEEE.F64.t)
  (p : IEEE.F64.t) (g : BinarySingleNaN.binary_float 53 1024) (win : Z * Z)
  (B : Z) (n : nat),
  B2R g <> Rdefinitions.IZR 0 ->
  (0 <= B < 2 ^ 62)%Z ->
  Generic_fmt.generic_format Zaux.radix2 fexp64 (Rdefinitions.IZR B) ->
  (3 * Z.of_nat (length perm) * B <= i64_max)%Z ->
  cells_boundedF64 B rows g ->
  (snd win < i64_max)%Z ->
  (i64_min + Z.of_nat (length perm) * B <= snd win + 1 <= i64_max - Z.of_nat (length perm) * B)%Z ->
  sc_next NumF64 rows perm bg p g win = Panic n ->
  n <> 13%nat /\ n <> 14%nat /\ n <> 21%nat /\ n <> 23%nat /\ n <> 24%nat /\ n <> 33%nat.
Proof. exact sc_next_no_overflow_F64. Qed.

(* approximate_score: the initial window (site 34: sums of the row minima / maxima) *)
Theorem C13_initial_window_no_overflow :
  forall (rows : list (list Q)) (perm : list nat) (B : Z) (n : nat),
  (0 <= B)%Z ->
  (2 * B <= i64_max)%Z ->
  (2 * Z.of_nat (length perm) * B <= i64_max)%Z ->
  cells_boundedQ B rows (1 # 10) ->
  (forall G : geom,
  recompute NumQ rows perm (1 # 10) = Ok G ->
  (i64_min <= Qceiling (g_emax G + (1 # 2)))%Z /\
  (2 * Z.of_nat (length perm) * B + Qceiling (g_emax G + (1 # 2)) <= i64_max)%Z) ->
  score_window0 NumQ rows perm = Panic n -> n <> 13%nat /\ n <> 14%nat /\ n <> 34%nat.
Proof. exact score_window0_no_overflow_Q. Qed.

(* ---------- (b) convergence ---------- *)

(* ScoresIterator::next reports `converged` when the two bracketing integer scores are more than error_max apart *)
Theorem C13_converged_if_gap :
  forall (rows : list (list Q)) (perm : list nat) (bg : list Q) (p g : Q) (win : Z * Z) (it : iter_out),
  sc_next NumQ rows perm bg p g win = Ok it ->
  exists o : ls_out,
  lookup_score NumQ (io_geom it) bg p (fst win) (snd win) = Ok o /\
  io_key it = ls_alpha o /\
  (g_emax (io_geom it) < inject_Z (ls_alpha o - ls_alpha_e o) -> io_conv it = true).
Proof. exact sc_next_converged_if_gap'. Qed.

(* ... and when the window is exhausted (alpha = alpha_e = smallest key) *)
Theorem C13_exhausted_converged :
  forall (rows : list (list Q)) (perm : list nat) (bg : list Q) (p g : Q) (win : Z * Z) (it : iter_out),
  sc_next NumQ rows perm bg p g win = Ok it -> io_exh it = true -> io_conv it = true.
Proof. exact sc_next_exhausted_converged. Qed.

(* ---------- (c) iteration order of the hash maps ---------- *)

(* the order-parameterised model replayed by the correspondence check is the model of the theorems when no order is given *)
Theorem C13_ord_model_generalises :
  forall {T : Type} (N : NumOps T) (steps : nat) (rows : list (list T)) (perm : list nat)
  (bg : list T) (p g : T) (win : Z * Z),
  sc_run_ord N steps [] rows perm bg p g win = sc_run N steps rows perm bg p g win.
Proof. exact @sc_run_ord_nil. Qed.

(* THE PROPERTY (one step, adequate window) for the model that visits the hash maps in the reported orders *)
Theorem C13_score_step_bounds_any_order :
  forall (ords : list (list Z)) (rows : list (list Q)) (perm : list nat) (bg : list Q)
  (K : nat) (g p : Q) (win : Z * Z) (it : iter_out),
  matrix_ok K rows bg ->
  (2 <= length rows)%nat ->
  Permutation perm (seq 0 (length rows)) ->
  0 < g ->
  0 < p ->
  (fst win <= snd win + 1)%Z ->
  sc_next_with NumQ (distribution_ord NumQ ords) rows perm bg p g win = Ok it ->
  ords_ok ords (io_rows it) = true ->
  io_total_lt it = false ->
  (1 < length (last (io_rows it) []))%nat ->
  let M := inject_Z (Z.of_nat (length rows)) in
  let t := io_score it in
  let d := (M + 2) * g in
  io_gran it = g /\
  Ptail rows bg (t + d) <= p /\
  (forall l : list Q,
  attain l (srows (sym_cells rows) bg) -> Qsum l < t - d -> p <= Ptail rows bg (Qsum l - d)).
Proof. exact sc_next_ord_bounds. Qed.

(* ... and along the run *)
Theorem C13_score_run_bounds_any_order :
  forall (steps : nat) (ordss : list (list (list Z))) (rows : list (list Q))
  (perm : list nat) (bg : list Q) (K : nat) (p g : Q) (win : Z * Z) (i : nat)
  (it : iter_out),
  matrix_ok K rows bg ->
  (2 <= length rows)%nat ->
  Permutation perm (seq 0 (length rows)) ->
  0 < g ->
  0 < p ->
  (fst win <= snd win + 1)%Z ->
  nth_error (sc_run_ord NumQ steps ordss rows perm bg p g win) i = Some (Ok it) ->
  ords_ok (nth i ordss []) (io_rows it) = true ->
  io_total_lt it = false ->
  (1 < length (last (io_rows it) []))%nat ->
  let M := inject_Z (Z.of_nat (length rows)) in
  let gi := io_gran it in
  let t := io_score it in
  let d := (M + 2) * gi in
  0 < gi /\
  gi <= g /\
  Ptail rows bg (t + d) <= p /\
  (forall l : list Q,
  attain l (srows (sym_cells rows) bg) -> Qsum l < t - d -> p <= Ptail rows bg (Qsum l - d)).
Proof. exact sc_run_ord_bounds. Qed.

(* ---------- (d) wildcard mass ---------- *)

(* one step, any wildcard mass (matrix_okm, see C12Ext.v) *)
Theorem C13_score_step_bounds_wildcard_mass :
  forall (rows : list (list Q)) (perm : list nat) (bg : list Q) (K : nat) (g p : Q)
  (win : Z * Z) (it : iter_out),
  matrix_okm K rows bg ->
  (2 <= length rows)%nat ->
  Permutation perm (seq 0 (length rows)) ->
  0 < g ->
  0 < p ->
  (fst win <= snd win + 1)%Z ->
  sc_next NumQ rows perm bg p g win = Ok it ->
  io_total_lt it = false ->
  (1 < length (last (io_rows it) []))%nat ->
  let M := inject_Z (Z.of_nat (length rows)) in
  let t := io_score it in
  let d := (M + 2) * g in
  io_gran it = g /\
  Ptail rows bg (t + d) <= p /\
  (forall l : list Q,
  attain l (srows (sym_cells rows) bg) -> Qsum l < t - d -> p <= Ptail rows bg (Qsum l - d)).
Proof. exact sc_step_bounds_m. Qed.

(* THE PROPERTY for approximate_score(p) with wildcard mass: p must not exceed the total mass (1 - b_N)^M of the symbol words
   (for a larger p no threshold has tail >= p; TfmMass.exm_score_mass_needed shows the bound is tight) *)
Theorem C13_approximate_score_bounds_wildcard_mass :
  forall (steps : nat) (rows : list (list Q)) (perm : list nat) (bg : list Q)
  (K : nat) (p : Q) (win : Z * Z) (it : iter_out),
  matrix_okm K rows bg ->
  (2 <= length rows)%nat ->
  Permutation perm (seq 0 (length rows)) ->
  0 < p ->
  p <= Qpow_nat (1 - last bg 0) (length rows) ->
  score_window0 NumQ rows perm = Ok win ->
  In (Ok it) (sc_run NumQ steps rows perm bg p (1 # 10) win) ->
  let M := inject_Z (Z.of_nat (length rows)) in
  let gi := io_gran it in
  let t := io_score it in
  let d := (M + 2) * gi in
  0 < gi /\
  gi <= (1 # 10) /\
  Ptail rows bg (t + d) <= p /\
  (forall l : list Q,
  attain l (srows (sym_cells rows) bg) -> Qsum l < t - d -> p <= Ptail rows bg (Qsum l - d)).
Proof. exact approximate_score_bounds_m. Qed.

(* ... and no out-of-bounds keys[riter + 1] *)
Theorem C13_approximate_score_no_panic31_wildcard_mass :
  forall (steps : nat) (rows : list (list Q)) (perm : list nat) (bg : list Q)
  (K : nat) (p : Q) (win : Z * Z),
  matrix_okm K rows bg ->
  (2 <= length rows)%nat ->
  length perm = length rows ->
  0 < p ->
  p <= Qpow_nat (1 - last bg 0) (length rows) ->
  score_window0 NumQ rows perm = Ok win -> ~ In (Panic 31) (sc_run NumQ steps rows perm bg p (1 # 10) win).
Proof. exact approximate_score_no_panic31_m. Qed.

(* ---------- (b') the unbounded loop of score() ---------- *)

(* score(p) = `approximate_score(p).last().unwrap()` + `assert!(it.converged)` with a fuel (TfmFinal.v): the value
   does not depend on the fuel *)
Theorem C13_score_fuel_independent : forall {T : Type} (N : NumOps T) fuel rows perm bg p t,
  score_fuel N fuel rows perm bg p = Ok t -> score_fuel N (S fuel) rows perm bg p = Ok t.
Proof. exact @score_fuel_mono. Qed.

(* THE PROPERTY, last sentence: the final threshold *)
Theorem C13_score_bounds : forall fuel rows perm bg K p t,
  matrix_ok K rows bg -> (2 <= length rows)%nat -> Permutation perm (seq 0 (length rows)) ->
  0 < p -> p <= 1 ->
  score_fuel NumQ fuel rows perm bg p = Ok t ->
  let M := inject_Z (Z.of_nat (length rows)) in
  exists gi, 0 < gi /\ gi <= 1 # 10 /\
    let d := (M + 2) * gi in
    Ptail rows bg (t + d) <= p /\
    (forall l, attain l (srows (sym_cells rows) bg) -> Qsum l < t - d -> p <= Ptail rows bg (Qsum l - d)).
Proof. exact score_fuel_bounds. Qed.

Example C13_score_fuel_nonvacuous :
  exists t, score_fuel NumQ 5 [[1; -1; 1 # 3; -2; -100]; [1 # 2; -(1 # 3); 0; -1; -100]; [1 # 4; 0; 1 # 7; -(1 # 4); -100]]
              [0; 1; 2]%nat [1 # 2; 1 # 4; 1 # 8; 1 # 8; 0] (1 # 3) = Ok t /\ t == 27 # 25.
Proof. eexists. split; [vm_compute; reflexivity|]. reflexivity. Qed.

(* ---------- non-vacuity ---------- *)
Example C13_wildcard_mass_nonvacuous :
  matrix_okm 5 exm_rows exm_bg /\ Qpow_nat (1 - last exm_bg 0) 3 == 27 # 64.
Proof. destruct exm_hyps as [H1 [_ [_ H4]]]. split; assumption. Qed.
