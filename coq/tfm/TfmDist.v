(* distribution(min, max) computes the exact distribution of the integer score on the
   window (property C12/C13, obligation [dist_exact]): lemmas.

   The table of one row is read as a finite measure on Z ([meas m psi] = sum of
   value * psi key); the invariant of the row loop says that this measure is the
   law of the integer score of the prefix rows restricted to the prefixes that can
   still reach [min] and have not exceeded [max], and that the overflow bucket is
   the mass of the prefixes above [max]. *)
From Coq Require Import ZArith QArith Qround List Bool Lia Lqa Sorted.
From LMBase Require Import Res ListX.
From LMTfm Require Import TfmNum TfmModel TfmSpec TfmProofs.
Import ListNotations.
Open Scope Q_scope.

(* ------------------------------------------------------------------ *)
(** * Finite sums *)

Lemma Qsum_zero_map {A} (f : A -> Q) l : (forall x, In x l -> f x == 0) -> Qsum (map f l) == 0.
Proof.
  induction l as [|a r IH]; intros H; simpl; [reflexivity|].
  rewrite (H a) by (left; auto). rewrite IH; [lra|]. intros x Hx. apply H. right; auto.
Qed.

(* ------------------------------------------------------------------ *)
(** * Tables as measures *)

Definition meas (m : list (Z * Q)) (psi : Z -> Q) : Q :=
  Qsum (map (fun kv => snd kv * psi (fst kv)) m).

Definition keys (m : list (Z * Q)) : list Z := map fst m.

Definition sorted (m : list (Z * Q)) : Prop := StronglySorted Z.lt (keys m).

Lemma meas_ext m psi psi' : (forall k, In k (keys m) -> psi k == psi' k) -> meas m psi == meas m psi'.
Proof.
  intros H. unfold meas. apply Qsum_eq_map. intros kv Hkv.
  rewrite (H (fst kv)); [reflexivity|]. unfold keys. apply in_map. auto.
Qed.

Lemma meas_zero m psi : (forall k, In k (keys m) -> psi k == 0) -> meas m psi == 0.
Proof.
  intros H. unfold meas. apply Qsum_zero_map. intros kv Hkv.
  rewrite (H (fst kv)); [lra|]. unfold keys. apply in_map. auto.
Qed.

Lemma meas_fm_add k v m psi : meas (fm_add NumQ k v m) psi == meas m psi + v * psi k.
Proof.
  unfold meas. induction m as [|[k' v'] r IH]; cbn [fm_add NumQ n_add n_zero map Qsum fst snd].
  - lra.
  - destruct (Z.ltb_spec k k').
    + cbn [map Qsum fst snd]. lra.
    + destruct (Z.eqb_spec k k') as [->|Hne].
      * cbn [map Qsum fst snd]. lra.
      * cbn [map Qsum fst snd]. rewrite IH. lra.
Qed.

Lemma fm_add_keys k v m j : In j (keys (fm_add NumQ k v m)) <-> j = k \/ In j (keys m).
Proof.
  unfold keys. induction m as [|[k' v'] r IH]; cbn [fm_add map fst In].
  - intuition.
  - destruct (Z.ltb_spec k k').
    + cbn [map fst In]. intuition.
    + destruct (Z.eqb_spec k k') as [->|Hne]; cbn [map fst In].
      * intuition.
      * rewrite IH. intuition.
Qed.

Lemma fm_add_sorted k v m : sorted m -> sorted (fm_add NumQ k v m).
Proof.
  unfold sorted. induction m as [|[k' v'] r IH]; intros HS; cbn [fm_add].
  - cbn. constructor; constructor.
  - cbn [keys map fst] in HS. inversion HS as [|? ? HS' HF]; subst.
    destruct (Z.ltb_spec k k').
    + cbn [keys map fst]. constructor; [exact HS|].
      constructor; [auto|]. rewrite Forall_forall in *. intros x Hx. specialize (HF x Hx). lia.
    + destruct (Z.eqb_spec k k') as [->|Hne].
      * cbn [keys map fst]. exact HS.
      * cbn [keys map fst]. constructor; [apply IH; exact HS'|].
        rewrite Forall_forall in *. intros x Hx.
        change (map fst (fm_add NumQ k v r)) with (keys (fm_add NumQ k v r)) in Hx.
        apply fm_add_keys in Hx. destruct Hx as [->|Hx]; [lia|apply HF; exact Hx].
Qed.

(* the value stored under a key of a sorted table *)
Lemma meas_point m k v :
  sorted m -> In (k, v) m -> meas m (fun j => ind (j =? k)%Z) == v.
Proof.
  unfold sorted, meas. induction m as [|[k' v'] r IH]; intros HS Hin; [destruct Hin|].
  cbn [keys map fst] in HS. inversion HS as [|? ? HS' HF]; subst. rewrite Forall_forall in HF.
  cbn [map Qsum fst snd]. destruct Hin as [E|Hin].
  - inversion E; subst. rewrite Z.eqb_refl. simpl ind.
    rewrite Qsum_zero_map; [lra|]. intros [k2 v2] H2. simpl.
    assert (k < k2)%Z by (apply HF; apply in_map_iff; exists (k2, v2); auto).
    destruct (Z.eqb_spec k2 k); [lia|]. simpl. lra.
  - assert (k' < k)%Z by (apply HF; apply in_map_iff; exists (k, v); auto).
    destruct (Z.eqb_spec k' k); [lia|]. simpl ind. rewrite (IH HS' Hin). lra.
Qed.

(* insert(max+1, bucket) into a table whose keys are all <= max *)
Lemma fm_set_snoc k v (m : list (Z * Q)) :
  (forall j, In j (keys m) -> (j < k)%Z) -> fm_set k v m = m ++ [(k, v)].
Proof.
  induction m as [|[k' v'] r IH]; intros H; cbn [fm_set app]; [reflexivity|].
  assert (k' < k)%Z by (apply H; left; reflexivity).
  destruct (Z.ltb_spec k k'); [lia|]. destruct (Z.eqb_spec k k'); [lia|].
  rewrite IH; [reflexivity|]. intros j Hj. apply H. right; auto.
Qed.

(* ------------------------------------------------------------------ *)
(** * Words: appending a row *)

Definition push (r : list (Z * Q)) (Psi : Z -> Q) (k : Z) : Q :=
  Qsum (map (fun cb => snd cb * Psi (k + fst cb)%Z) r).

Lemma push_ext r Psi Psi' k :
  (forall cb, In cb r -> Psi (k + fst cb)%Z == Psi' (k + fst cb)%Z) -> push r Psi k == push r Psi' k.
Proof.
  intros H. unfold push. apply Qsum_eq_map. intros cb Hcb. rewrite (H cb Hcb). reflexivity.
Qed.

Lemma wsum_snoc {A} (P : list (list (A * Q))) (r : list (A * Q)) :
  forall f, wsum (P ++ [r]) f == wsum P (fun l => Qsum (map (fun ab => snd ab * f (l ++ [fst ab])) r)).
Proof.
  induction P as [|p P' IH]; intros f.
  - cbn [app wsum]. reflexivity.
  - cbn [app wsum]. apply Qsum_eq_map. intros ab _. apply Qmult_comp; [reflexivity|].
    rewrite IH. reflexivity.
Qed.

Lemma wsum_push (P : list (list (Z * Q))) r (Phi : Z -> Q) :
  wsum (P ++ [r]) (fun l => Phi (Zsum l)) == wsum P (fun l => push r Phi (Zsum l)).
Proof.
  rewrite wsum_snoc. apply wsum_ext_in. intros l _. unfold push.
  apply Qsum_eq_map. intros cb _. rewrite Zsum_app. cbn [Zsum]. rewrite Z.add_0_r. reflexivity.
Qed.

Lemma attain_snoc_inv {A} (P : list (list (A * Q))) r l' :
  attain l' (P ++ [r]) -> exists l c, l' = l ++ [c] /\ attain l P /\ In c (map fst r).
Proof.
  unfold attain. intros H. apply Forall2_app_inv_r in H.
  destruct H as [l [lc [H1 [H2 E]]]]. inversion H2 as [|c ? ? ? Hc Hn]; subst. inversion Hn; subst.
  exists l, c. auto.
Qed.

Lemma attain_snoc {A} (P : list (list (A * Q))) r l c :
  attain l P -> In c (map fst r) -> attain (l ++ [c]) (P ++ [r]).
Proof. unfold attain. intros H1 H2. apply Forall2_app; auto. Qed.

(* ------------------------------------------------------------------ *)
(** * One row of the forward propagation *)

Section Step.
  Variables (mn mx mnext : Z) (Rn : Q).

  (* the prefix can still reach min and has not exceeded max / has exceeded max *)
  Definition condn (j : Z) : bool := (mn <=? j + mnext)%Z && (j <=? mx)%Z.
  Definition condb (j : Z) : bool := (mn <=? j + mnext)%Z && (mx <? j)%Z.

  Lemma step_cell_cases k v (m : fmap (T:=Q)) b c bq :
    step_cell NumQ mn mx mnext Rn k v (m, b) (c, bq) =
    if condn (k + c) then (fm_add NumQ (k + c)%Z (v * bq) m, b)
    else if condb (k + c) then (m, b + v * bq * Rn) else (m, b).
  Proof.
    unfold step_cell, condn, condb. cbn [fst snd NumQ n_mul n_add].
    rewrite Z.geb_leb, Z.gtb_ltb.
    destruct (Z.leb_spec mn (k + c + mnext)); cbn [andb]; [|reflexivity].
    destruct (Z.ltb_spec mx (k + c)), (Z.leb_spec (k + c) mx); try lia; reflexivity.
  Qed.

  Lemma cells_fold k v r : forall (m : fmap (T:=Q)) b m' b',
    fold_left (step_cell NumQ mn mx mnext Rn k v) r (m, b) = (m', b') ->
    (forall psi, meas m' psi == meas m psi + v * push r (fun j => ind (condn j) * psi j) k) /\
    b' == b + v * push r (fun j => ind (condb j)) k * Rn /\
    (sorted m -> sorted m') /\
    (forall j, In j (keys m') <->
               In j (keys m) \/ exists cb, In cb r /\ j = (k + fst cb)%Z /\ condn j = true).
  Proof.
    induction r as [|[c bq] r' IH]; intros m b m' b' H; cbn [fold_left] in H.
    - inversion H; subst. unfold push. cbn [map Qsum]. split; [intros; lra|]. split; [lra|].
      split; [auto|]. intros j. split; [auto|]. intros [Hj|[cb [[] _]]]. exact Hj.
    - rewrite step_cell_cases in H.
      assert (Hexcl : condn (k + c) = true -> condb (k + c) = false).
      { unfold condn, condb. intros E. apply andb_true_iff in E. destruct E as [_ E].
        apply Z.leb_le in E. destruct (Z.ltb_spec mx (k + c)); [lia|]. apply andb_false_r. }
      destruct (condn (k + c)) eqn:En.
      + specialize (Hexcl eq_refl).
        destruct (IH _ _ _ _ H) as [I1 [I2 [I3 I4]]].
        split; [|split; [|split]].
        * intros psi. rewrite I1, meas_fm_add. unfold push at 2. cbn [map Qsum fst snd].
          rewrite En. unfold push. simpl ind. lra.
        * rewrite I2. unfold push. cbn [map Qsum fst snd]. rewrite Hexcl. simpl ind. lra.
        * intros Hs. apply I3. apply fm_add_sorted. exact Hs.
        * intros j. rewrite I4, fm_add_keys. split.
          -- intros [[->|Hj]|[cb [Hcb Hr]]].
             ++ right. exists (c, bq). split; [left; auto|]. split; [reflexivity|exact En].
             ++ left; auto.
             ++ right. exists cb. split; [right; auto|exact Hr].
          -- intros [Hj|[cb [[<-|Hcb] [Hj Hc]]]].
             ++ left; right; auto.
             ++ left; left. exact Hj.
             ++ right. exists cb. auto.
      + assert (Hkeys : forall j (X : Prop), (In j (keys m) \/ X) ->
                  In j (keys m) \/ X) by auto.
        destruct (condb (k + c)) eqn:Eb;
          destruct (IH _ _ _ _ H) as [I1 [I2 [I3 I4]]];
          (split; [|split; [|split]]);
          [ intros psi; rewrite I1; unfold push at 2; cbn [map Qsum fst snd]; rewrite En;
            unfold push; simpl ind; lra
          | rewrite I2; unfold push; cbn [map Qsum fst snd]; rewrite Eb; simpl ind; lra
          | exact I3
          | | intros psi; rewrite I1; unfold push at 2; cbn [map Qsum fst snd]; rewrite En;
            unfold push; simpl ind; lra
          | rewrite I2; unfold push; cbn [map Qsum fst snd]; rewrite Eb; simpl ind; lra
          | exact I3
          | ];
          (intros j; rewrite I4; split;
           [ intros [Hj|[cb [Hcb Hr]]]; [left; auto|]; right; exists cb; split; [right; auto|exact Hr]
           | intros [Hj|[cb [[<-|Hcb] [Hj Hc]]]]; [left; auto| |right; exists cb; auto];
             cbn [fst] in Hj; subst j; congruence ]).
  Qed.

  Lemma meas_cons k v m F : meas ((k, v) :: m) F == v * F k + meas m F.
  Proof. unfold meas. cbn [map Qsum fst snd]. reflexivity. Qed.

  Lemma rows_fold r : forall cur (m : fmap (T:=Q)) b m' b',
    fold_left (fun st kv => fold_left (step_cell NumQ mn mx mnext Rn (fst kv) (snd kv)) r st) cur (m, b)
      = (m', b') ->
    (forall psi, meas m' psi == meas m psi + meas cur (push r (fun j => ind (condn j) * psi j))) /\
    b' == b + meas cur (push r (fun j => ind (condb j))) * Rn /\
    (sorted m -> sorted m') /\
    (forall j, In j (keys m') <->
               In j (keys m) \/
               exists kv cb, In kv cur /\ In cb r /\ j = (fst kv + fst cb)%Z /\ condn j = true).
  Proof.
    induction cur as [|[k v] cur' IH]; intros m b m' b' H; cbn [fold_left] in H.
    - inversion H; subst. split; [intros psi; unfold meas; cbn [map Qsum]; lra|].
      split; [unfold meas; cbn [map Qsum]; lra|]. split; [auto|]. intros j. split; [auto|]. intros [Hj|[kv [cb [[] _]]]]. exact Hj.
    - cbn [fst snd] in H.
      destruct (fold_left (step_cell NumQ mn mx mnext Rn k v) r (m, b)) as [m1 b1] eqn:E1.
      destruct (cells_fold _ _ _ _ _ _ _ E1) as [C1 [C2 [C3 C4]]].
      destruct (IH _ _ _ _ H) as [I1 [I2 [I3 I4]]].
      split; [|split; [|split]].
      + intros psi. rewrite I1, C1, meas_cons. lra.
      + rewrite I2, C2, meas_cons. lra.
      + auto.
      + intros j. rewrite I4, C4. split.
        * intros [[Hj|[cb [Hcb Hr]]]|[kv [cb [Hkv Hr]]]].
          -- left; auto.
          -- right. exists (k, v), cb. split; [left; auto|]. split; [auto|exact Hr].
          -- right. exists kv, cb. split; [right; auto|exact Hr].
        * intros [Hj|[kv [cb [[<-|Hkv] Hr]]]].
          -- left; left; auto.
          -- left; right. exists cb. cbn [fst] in Hr. exact Hr.
          -- right. exists kv, cb. auto.
  Qed.

End Step.

(* ------------------------------------------------------------------ *)
(** * The invariant of the row loop *)

Lemma wsum_zero {A} (P : list (list (A * Q))) : wsum P (fun _ => 0) == 0.
Proof.
  induction P as [|p P' IH]; cbn [wsum]; [reflexivity|].
  apply Qsum_zero_map. intros ab _. rewrite IH. lra.
Qed.

Section Inv.
  Variables (mn mx : Z) (mass : Q).
  Hypothesis Hwin : (mn <= mx + 1)%Z.

  Definition condP (first : bool) (mnext k : Z) : bool :=
    (mn <=? k + mnext)%Z && (first || (k <=? mx)%Z).

  (* [R] = rest[pos+1]: the total probability of the symbol words of the remaining rows *)
  Definition Inv (first : bool) (P : list (list (Z * Q))) (mnext : Z) (R : Q) (cur : list (Z * Q)) (bucket : Q)
    : Prop :=
    sorted cur /\
    (forall k, In k (keys cur) -> condP first mnext k = true) /\
    (forall psi, meas cur psi == wsum P (fun l => ind (condP first mnext (Zsum l)) * psi (Zsum l))) /\
    (forall l, attain l P -> condP first mnext (Zsum l) = true -> In (Zsum l) (keys cur)) /\
    bucket == (if first then 0 else PI_gt P mx * R) /\
    (forall k, In k (keys cur) -> exists l, attain l P /\ Zsum l = k).

  Lemma condn_condP mnext' j : condn mn mx mnext' j = condP false mnext' j.
  Proof. reflexivity. Qed.

  (* a prefix that satisfies the condition after a row satisfied it before the row *)
  Lemma cond_back first mnext mnext' I c :
    (0 <= c)%Z -> (c + mnext' <= mnext)%Z ->
    condn mn mx mnext' (I + c) = true -> condP first mnext I = true.
  Proof.
    unfold condn, condP. intros H0 H1 H. apply andb_true_iff in H. destruct H as [A B].
    apply Z.leb_le in A. apply Z.leb_le in B. apply andb_true_iff. split.
    - apply Z.leb_le. lia.
    - apply orb_true_iff. right. apply Z.leb_le. lia.
  Qed.

  Lemma bucket_term first mnext mnext' I c :
    (0 <= mnext')%Z -> (0 <= c)%Z -> (c + mnext' <= mnext)%Z ->
    ind (mx <? I + c)%Z ==
    ind (condP first mnext I) * ind (condb mn mx mnext' (I + c))
    + (if first then 0 else ind (mx <? I)%Z).
  Proof.
    intros H0 H1 H2. unfold condP, condb.
    destruct (Z.ltb_spec mx (I + c)), (Z.leb_spec mn (I + mnext)), (Z.leb_spec I mx),
      (Z.leb_spec mn (I + c + mnext')), (Z.ltb_spec mx I), first; cbn [andb orb ind]; try lra; lia.
  Qed.

  Lemma step_inv first P mnext R cur bucket irow (bg : list Q) mnext' R' nxt b' :
    Inv first P mnext R cur bucket ->
    (0 <= mnext')%Z ->
    (forall c, In c irow -> (0 <= c)%Z /\ (c + mnext' <= mnext)%Z) ->
    Qsum (map snd (combine irow bg)) == mass -> R == R' * mass ->
    step_row NumQ mn mx mnext' R' irow bg cur bucket = (nxt, b') ->
    Inv false (P ++ [combine irow bg]) mnext' R' nxt b'.
  Proof.
    intros [V1 [V2 [V3 [V4 [V5 V6]]]]] Hm' Hcells Hunit HR Hstep.
    set (r := combine irow bg) in *.
    assert (Hr : forall cb, In cb r -> (0 <= fst cb)%Z /\ (fst cb + mnext' <= mnext)%Z).
    { intros [c b] Hcb. apply Hcells. unfold r in Hcb. apply in_combine_l in Hcb. exact Hcb. }
    unfold step_row in Hstep. fold r in Hstep.
    destruct (rows_fold mn mx mnext' R' r cur [] bucket nxt b' Hstep) as [F1 [F2 [F3 F4]]].
    split; [|split; [|split; [|split; [|split]]]].
    - apply F3. constructor.
    - intros j Hj. apply F4 in Hj. destruct Hj as [[]|[kv [cb [_ [_ [_ Hc]]]]]].
      rewrite <- condn_condP. exact Hc.
    - intros psi. rewrite F1. unfold meas at 1. cbn [map Qsum]. rewrite Qplus_0_l.
      rewrite V3.
      rewrite (wsum_push P r (fun j => ind (condP false mnext' j) * psi j)).
      apply wsum_ext_in. intros l _. set (I := Zsum l).
      destruct (condP first mnext I) eqn:Ec; simpl ind.
      + rewrite Qmult_1_l. apply push_ext. intros cb _. rewrite condn_condP. reflexivity.
      + rewrite Qmult_0_l. symmetry. unfold push. apply Qsum_zero_map. intros cb Hcb.
        destruct (Hr cb Hcb) as [R1 R2].
        destruct (condP false mnext' (I + fst cb)) eqn:E2.
        * rewrite <- condn_condP in E2. rewrite (cond_back first mnext mnext' I (fst cb) R1 R2 E2) in Ec.
          discriminate.
        * simpl ind. lra.
    - intros l' Hat Hc. apply attain_snoc_inv in Hat. destruct Hat as [l [c [-> [Hl Hcin]]]].
      rewrite Zsum_app in *. cbn [Zsum] in *. rewrite Z.add_0_r in *.
      apply in_map_iff in Hcin. destruct Hcin as [cb [<- Hcb]].
      destruct (Hr cb Hcb) as [R1 R2].
      rewrite <- condn_condP in Hc.
      pose proof (cond_back first mnext mnext' (Zsum l) (fst cb) R1 R2 Hc) as Hback.
      pose proof (V4 l Hl Hback) as Hkey. unfold keys in Hkey. apply in_map_iff in Hkey.
      destruct Hkey as [kv [Ek Hkv]].
      apply F4. right. exists kv, cb. rewrite Ek. auto.
    - rewrite F2, V3.
      unfold PI_gt. rewrite (wsum_push P r (fun j => ind (mx <? j)%Z)).
      assert (E : forall l, attain l P ->
                push r (fun j => ind (mx <? j)%Z) (Zsum l) ==
                ind (condP first mnext (Zsum l)) * push r (fun j => ind (condb mn mx mnext' j)) (Zsum l)
                + (if first then 0 else mass * ind (mx <? Zsum l)%Z)).
      { intros l _. set (I := Zsum l). unfold push.
        rewrite <- (Qsum_scale_map (ind (condP first mnext I))).
        assert (E1 : (if first then 0 else mass * ind (mx <? I)%Z) ==
                     Qsum (map (fun cb : Z * Q => snd cb * (if first then 0 else ind (mx <? I)%Z)) r)).
        { rewrite (Qsum_eq_map _ (fun cb : Z * Q => (if first then 0 else ind (mx <? I)%Z) * snd cb));
            [|intros; lra].
          rewrite Qsum_scale_map. change (fun cb : Z * Q => snd cb) with (@snd Z Q). rewrite Hunit.
          destruct first; lra. }
        rewrite E1. rewrite <- Qsum_plus_map. apply Qsum_eq_map. intros cb Hcb.
        destruct (Hr cb Hcb) as [R1 R2].
        rewrite (bucket_term first mnext mnext' I (fst cb) Hm' R1 R2). lra. }
      rewrite (wsum_ext_in P _ _ E). rewrite wsum_plus. rewrite V5.
      destruct first.
      + rewrite wsum_zero. lra.
      + rewrite wsum_scale. unfold PI_gt. rewrite HR. lra.
    - intros j Hj. apply F4 in Hj. destruct Hj as [[]|[kv [cb [Hkv [Hcb [-> _]]]]]].
      assert (Hk : In (fst kv) (keys cur)) by (unfold keys; apply in_map; exact Hkv).
      destruct (V6 _ Hk) as [l [Hl El]].
      exists (l ++ [fst cb]). split.
      + apply attain_snoc; auto. apply in_map. exact Hcb.
      + rewrite Zsum_app. cbn [Zsum]. lia.
  Qed.

  (* the rows still to be processed, paired with the suffix maxima and the rest factors *)
  Fixpoint chain (mnext : Z) (R : Q) (rm : list (list Z * Z * Q)) : Prop :=
    match rm with
    | [] => mnext = 0%Z /\ R == 1
    | (irow, m', R') :: r =>
        (0 <= m')%Z /\ (forall c, In c irow -> (0 <= c)%Z /\ (c + m' <= mnext)%Z) /\
        R == R' * mass /\ chain m' R' r
    end.

  Lemma dist_loop_inv (bg : list Q) : forall rm first P mnext R cur bucket acc acc' cur' b',
    Inv first P mnext R cur bucket -> chain mnext R rm ->
    (forall x, In x rm -> Qsum (map snd (combine (fst (fst x)) bg)) == mass) ->
    dist_loop NumQ mn mx bg rm cur bucket acc = (acc', cur', b') ->
    exists R1, R1 == 1 /\
    Inv (first && match rm with [] => true | _ => false end)
        (P ++ map (fun x => combine (fst (fst x)) bg) rm) 0 R1 cur' b'.
  Proof.
    induction rm as [|[[irow m'] R'] r IH]; intros first P mnext R cur bucket acc acc' cur' b' HI Hch Hu H;
      cbn [dist_loop] in H.
    - inversion H; subst. cbn [chain] in Hch. destruct Hch as [-> HR1]. exists R. split; [exact HR1|].
      cbn [map]. rewrite app_nil_r, andb_true_r. exact HI.
    - destruct (step_row NumQ mn mx m' R' irow bg cur bucket) as [nxt b] eqn:Es.
      cbn [chain] in Hch. destruct Hch as [C1 [C2 [C3 C4]]].
      assert (HI' : Inv false (P ++ [combine irow bg]) m' R' nxt b).
      { eapply step_inv; eauto. apply (Hu (irow, m', R')). left; reflexivity. }
      destruct (IH false _ _ _ _ _ _ _ _ _ HI' C4 (fun x Hx => Hu x (or_intror Hx)) H) as [R1 [HR1 IH']].
      exists R1. split; [exact HR1|].
      cbn [andb] in IH'. rewrite andb_false_r. cbn [map fst]. rewrite <- app_assoc in IH'. exact IH'.
  Qed.

  (* the first row *)
  Lemma init_fold maxs1 r : forall (m : fmap (T:=Q)),
    let m' := fold_left (fun m cb => if (fst cb + maxs1 >=? mn)%Z then fm_add NumQ (fst cb) (snd cb) m else m) r m in
    (forall psi, meas m' psi ==
                 meas m psi + Qsum (map (fun cb => snd cb * (ind (mn <=? fst cb + maxs1)%Z * psi (fst cb))) r)) /\
    (sorted m -> sorted m') /\
    (forall j, In j (keys m') <->
               In j (keys m) \/ exists cb, In cb r /\ j = fst cb /\ (mn <=? j + maxs1)%Z = true).
  Proof.
    induction r as [|[c b] r' IH]; intros m; cbn [fold_left].
    - cbn [map Qsum]. split; [intros; lra|]. split; [auto|]. intros j. split; [auto|].
      intros [Hj|[cb [[] _]]]. exact Hj.
    - cbn [fst snd]. rewrite Z.geb_leb.
      destruct (mn <=? c + maxs1)%Z eqn:E.
      + destruct (IH (fm_add NumQ c b m)) as [I1 [I2 I3]]. split; [|split].
        * intros psi. rewrite I1, meas_fm_add. cbn [map Qsum fst snd]. rewrite E. simpl ind. lra.
        * intros Hs. apply I2. apply fm_add_sorted. exact Hs.
        * intros j. rewrite I3, fm_add_keys. split.
          -- intros [[->|Hj]|[cb [Hcb Hr]]].
             ++ right. exists (c, b). split; [left; auto|]. split; [reflexivity|exact E].
             ++ left; auto.
             ++ right. exists cb. split; [right; auto|exact Hr].
          -- intros [Hj|[cb [[<-|Hcb] [Hj Hc]]]].
             ++ left; right; auto.
             ++ left; left. exact Hj.
             ++ right. exists cb. auto.
      + destruct (IH m) as [I1 [I2 I3]]. split; [|split].
        * intros psi. rewrite I1. cbn [map Qsum fst snd]. rewrite E. simpl ind. lra.
        * exact I2.
        * intros j. rewrite I3. split.
          -- intros [Hj|[cb [Hcb Hr]]]; [left; auto|]. right. exists cb. split; [right; auto|exact Hr].
          -- intros [Hj|[cb [[<-|Hcb] [Hj Hc]]]]; [left; auto| |right; exists cb; auto].
             cbn [fst] in Hj. subst j. congruence.
  Qed.

  Lemma init_row_inv maxs1 R irow0 (bg : list Q) :
    Inv true [combine irow0 bg] maxs1 R (init_row NumQ mn maxs1 irow0 bg) 0.
  Proof.
    unfold init_row. set (r := combine irow0 bg).
    destruct (init_fold maxs1 r []) as [F1 [F2 F3]].
    assert (HcP : forall k, condP true maxs1 k = (mn <=? k + maxs1)%Z).
    { intros k. unfold condP. cbn [orb]. apply andb_true_r. }
    split; [|split; [|split; [|split; [|split]]]].
    - apply F2. constructor.
    - intros k Hk. apply F3 in Hk. destruct Hk as [[]|[cb [_ [_ Hc]]]]. rewrite HcP. exact Hc.
    - intros psi. rewrite F1. unfold meas at 1. cbn [map Qsum wsum]. rewrite Qplus_0_l.
      apply Qsum_eq_map. intros cb _. cbn [Zsum]. rewrite Z.add_0_r, HcP. reflexivity.
    - intros l Hat Hc. unfold attain in Hat. inversion Hat as [|c ? ? ? Hcin Hn]; subst. inversion Hn; subst.
      cbn [Zsum] in *. rewrite Z.add_0_r in *. apply F3. right.
      apply in_map_iff in Hcin. destruct Hcin as [cb [<- Hcb]]. exists cb. rewrite HcP in Hc. auto.
    - reflexivity.
    - intros k Hk. apply F3 in Hk. destruct Hk as [[]|[cb [Hcb [-> _]]]].
      exists [fst cb]. split.
      + constructor; [apply in_map; exact Hcb|constructor].
      + cbn [Zsum]. lia.
  Qed.

  (* the final table *)
  Lemma inv_dist_exact ir R cur bucket :
    R == 1 -> Inv false ir 0 R cur bucket ->
    dist_exact ir mn mx (fm_set (mx + 1)%Z bucket cur) /\
    (forall k, In k (keys cur) -> exists l, attain l ir /\ Zsum l = k) /\
    fm_set (mx + 1)%Z bucket cur = cur ++ [((mx + 1)%Z, bucket)].
  Proof.
    intros HR [V1 [V2 [V3 [V4 [V5 V6]]]]].
    assert (Hk : forall k, In k (keys cur) -> (mn <= k <= mx)%Z).
    { intros k Hk. apply V2 in Hk. unfold condP in Hk. cbn [orb] in Hk. apply andb_true_iff in Hk.
      destruct Hk as [A B]. apply Z.leb_le in A. apply Z.leb_le in B. lia. }
    split; [|split; [exact V6|apply fm_set_snoc; intros j Hj; apply Hk in Hj; lia]].
    exists cur, bucket. split; [|split; [|split; [|split]]].
    - apply fm_set_snoc. intros j Hj. apply Hk in Hj. lia.
    - exact V1.
    - intros [k v] Hkv. cbn [fst snd].
      assert (Hin : In k (keys cur)) by (unfold keys; apply in_map_iff; exists (k, v); auto).
      split; [apply Hk; exact Hin|].
      rewrite <- (meas_point cur k v V1 Hkv). rewrite V3. unfold PI_eq. apply wsum_ext_in. intros l _.
      destruct (Z.eqb_spec (Zsum l) k) as [->|Hne]; simpl ind.
      + rewrite (V2 k Hin). simpl ind. lra.
      + lra.
    - rewrite V5, HR. lra.
    - intros l Hat Hr. apply (V4 l Hat). unfold condP. cbn [orb]. apply andb_true_iff. split; apply Z.leb_le; lia.
  Qed.

End Inv.

(* ------------------------------------------------------------------ *)
(** * distribution(min, max) *)

Lemma suffix_sums_cons l : exists s t, suffix_sums l = s :: t /\ length t = length l.
Proof.
  induction l as [|x r [s [t [E L]]]]; cbn [suffix_sums].
  - exists 0%Z, []. auto.
  - rewrite E. cbn [hd]. exists (x + s)%Z, (s :: t). split; [reflexivity|]. cbn [length]. lia.
Qed.

Lemma rest_sums_cons mass n : exists s t, rest_sums NumQ mass n = s :: t /\ length t = n.
Proof.
  induction n as [|k [s [t [E L]]]]; cbn [rest_sums].
  - exists 1, []. auto.
  - rewrite E. cbn [hd]. exists (s * mass), (s :: t). split; [reflexivity|]. cbn [length]. lia.
Qed.

Lemma suffix_sums_nonneg l : (forall x, In x l -> (0 <= x)%Z) -> (0 <= hd 0%Z (suffix_sums l))%Z.
Proof.
  induction l as [|x r IH]; intros H; cbn [suffix_sums hd]; [lia|].
  assert (0 <= x)%Z by (apply H; left; auto).
  assert (0 <= hd 0%Z (suffix_sums r))%Z by (apply IH; intros; apply H; right; auto). lia.
Qed.

Lemma zmax_of_nonneg r : (forall c, In c r -> (0 <= c)%Z) -> (0 <= zmax_of r)%Z.
Proof.
  destruct r as [|a r']; intros H; cbn [zmax_of]; [lia|].
  assert (0 <= a)%Z by (apply H; left; auto). destruct (zmax_from_ge a r'). lia.
Qed.

Lemma chain_suffix mass (irows : list (list Z)) :
  Forall (fun r => forall c, In c r -> (0 <= c)%Z) irows ->
  chain mass (hd 0%Z (suffix_sums (map zmax_of irows))) (hd 1 (rest_sums NumQ mass (length irows)))
        (combine (combine irows (tl (suffix_sums (map zmax_of irows))))
                 (tl (rest_sums NumQ mass (length irows)))).
Proof.
  induction irows as [|irow rest IH]; intros F; cbn [map suffix_sums rest_sums length hd tl combine chain].
  - split; reflexivity.
  - inversion F as [|? ? F1 F2]; subst.
    destruct (suffix_sums_cons (map zmax_of rest)) as [s [t [E L]]].
    destruct (rest_sums_cons mass (length rest)) as [s' [t' [E' L']]].
    specialize (IH F2). rewrite E, E' in *. cbn [hd tl combine chain NumQ n_mul n_one] in *.
    split; [|split; [|split]].
    + pose proof (suffix_sums_nonneg (map zmax_of rest)) as N. rewrite E in N. cbn [hd] in N. apply N.
      intros x Hx. apply in_map_iff in Hx. destruct Hx as [r0 [<- Hr0]]. apply zmax_of_nonneg.
      rewrite Forall_forall in F2. apply F2. exact Hr0.
    + intros c Hc. split; [apply F1; exact Hc|]. pose proof (zmax_of_ge irow c Hc) as Hz.
      apply Z.add_le_mono_r. exact Hz.
    + reflexivity.
    + exact IH.
Qed.

(* the K-1 symbol frequencies sum to 1 - (wildcard frequency): the total probability of
   the symbols of one row as the code computes it *)
Definition bg_mass (n : nat) (bg : list Q) : Prop := Qsum (firstn n bg) == 1 - last bg 0.

Theorem distribution_exact_keys (G : geom) (bg : list Q) mn mx rowsq n :
  distribution NumQ G bg mn mx = Ok rowsq ->
  (2 <= length (g_int G))%nat ->
  Forall (fun r => length r = n /\ forall c, In c r -> (0 <= c)%Z) (g_int G) ->
  g_maxr G = map zmax_of (g_int G) ->
  bg_mass n bg -> (n <= length bg)%nat -> (mn <= mx + 1)%Z ->
  dist_exact (irows (g_int G) bg) mn mx (last rowsq []) /\
  (forall k, In k (map fst (removelast (last rowsq []))) ->
             exists l, attain l (irows (g_int G) bg) /\ Zsum l = k).
Proof.
  intros H Hlen Hcells Hmaxr Hunit Hn Hwin. unfold distribution in H.
  destruct (g_int G) as [|irow0 irows0] eqn:Eint; [discriminate|].
  rewrite Hmaxr in H. cbn [map suffix_sums length rest_sums] in H.
  destruct (suffix_sums_cons (map zmax_of irows0)) as [s [t [E L]]].
  set (mass := n_sub NumQ (n_one NumQ) (last bg (n_zero NumQ))) in *.
  destruct (rest_sums_cons mass (length irows0)) as [s' [t' [E' L']]].
  rewrite E, E' in H. cbn [hd] in H.
  destruct (negb _); [discriminate|]. destruct (mx =? i64_max)%Z; [discriminate|].
  cbn [nth skipn] in H.
  destruct (dist_loop NumQ mn mx bg (combine (combine irows0 t) t') (init_row NumQ mn s irow0 bg) (n_zero NumQ) [])
    as [[acc cur] bucket] eqn:Eloop.
  inversion H; subst rowsq; clear H. rewrite last_last.
  inversion Hcells as [|? ? [Hl0 Hc0] Hrest]; subst.
  assert (Hnn : Forall (fun r => forall c, In c r -> (0 <= c)%Z) irows0).
  { rewrite Forall_forall in *. intros r Hr. apply Hrest. exact Hr. }
  pose proof (chain_suffix mass irows0 Hnn) as Hch. rewrite E, E' in Hch. cbn [hd tl] in Hch.
  pose proof (init_row_inv mn mx s s' irow0 bg) as HI0.
  assert (Hmass : mass == 1 - last bg 0) by reflexivity.
  assert (Hu : forall x, In x (combine (combine irows0 t) t') ->
                         Qsum (map snd (combine (fst (fst x)) bg)) == mass).
  { intros [[r m'] R'] Hx. apply in_combine_l in Hx. apply in_combine_l in Hx. cbn [fst]. rewrite Forall_forall in Hrest.
    destruct (Hrest r Hx) as [Hlr _]. rewrite map_snd_combine_firstn by lia. rewrite Hlr, Hmass. exact Hunit. }
  cbn [n_zero NumQ] in Eloop.
  destruct (dist_loop_inv mn mx mass Hwin bg _ _ _ _ _ _ _ _ _ _ _ HI0 Hch Hu Eloop) as [R1 [HR1 HI]].
  rewrite map_length in L.
  assert (Hflag : match combine (combine irows0 t) t' with [] => true | _ :: _ => false end = false).
  { destruct irows0 as [|r1 rs]; [cbn [length] in Hlen; lia|]. destruct t; [cbn [length] in L; lia|].
    destruct t'; [cbn [length] in L'; lia|]. reflexivity. }
  rewrite Hflag in HI. cbn [andb] in HI.
  assert (Hrows : [combine irow0 bg] ++ map (fun x : list Z * Z * Q => combine (fst (fst x)) bg)
                                            (combine (combine irows0 t) t')
                  = irows (irow0 :: irows0) bg).
  { unfold irows. cbn [map app]. f_equal.
    rewrite <- (map_map (fun x : list Z * Z * Q => fst (fst x)) (fun r => combine r bg)). f_equal.
    clear -L L'. revert t t' L L'. induction irows0 as [|a r IH]; intros [|b t] [|b' t'] L L';
      cbn [length] in L, L'; try lia; cbn; auto.
    f_equal. apply IH; lia. }
  rewrite Hrows in HI.
  destruct (inv_dist_exact mn mx (irows (irow0 :: irows0) bg) R1 cur bucket HR1 HI) as [D1 [D2 D3]].
  split; [exact D1|].
  intros k Hk. apply D2. rewrite D3, removelast_last in Hk. exact Hk.
Qed.

Theorem distribution_exact (G : geom) (bg : list Q) mn mx rowsq n :
  distribution NumQ G bg mn mx = Ok rowsq ->
  (2 <= length (g_int G))%nat ->
  Forall (fun r => length r = n /\ forall c, In c r -> (0 <= c)%Z) (g_int G) ->
  g_maxr G = map zmax_of (g_int G) ->
  bg_mass n bg -> (n <= length bg)%nat -> (mn <= mx + 1)%Z ->
  dist_exact (irows (g_int G) bg) mn mx (last rowsq []).
Proof.
  intros H1 H2 H3 H4 H5 H6 H7.
  exact (proj1 (distribution_exact_keys G bg mn mx rowsq n H1 H2 H3 H4 H5 H6 H7)).
Qed.

(* every key of the table except the overflow key is the integer score of some word *)
Theorem distribution_keys_attainable (G : geom) (bg : list Q) mn mx rowsq n :
  distribution NumQ G bg mn mx = Ok rowsq ->
  (2 <= length (g_int G))%nat ->
  Forall (fun r => length r = n /\ forall c, In c r -> (0 <= c)%Z) (g_int G) ->
  g_maxr G = map zmax_of (g_int G) ->
  bg_mass n bg -> (n <= length bg)%nat -> (mn <= mx + 1)%Z ->
  forall k, In k (map fst (removelast (last rowsq []))) ->
            exists l, attain l (irows (g_int G) bg) /\ Zsum l = k.
Proof.
  intros H1 H2 H3 H4 H5 H6 H7.
  exact (proj2 (distribution_exact_keys G bg mn mx rowsq n H1 H2 H3 H4 H5 H6 H7)).
Qed.
