(* Extraction of the executable TFM-PVALUE model (binary64 instance), of the exact
   dyadic enumeration and of the property checkers for the correspondence check.
   Only ExtrOcamlBasic is used: nat, Z, positive stay the extracted inductive types. *)
From Coq Require Import List ZArith Extraction ExtrOcamlBasic.
From LMBase Require Import Res ListX IEEE.
From LMTfm Require Import TfmNum TfmModel TfmOrd TfmFinal TfmRef TfmConv.

Definition f64_pv_run := @pv_run F64.t NumF64.
Definition f64_sc_run := @sc_run F64.t NumF64.
(* the same runs with the iteration order of the hash maps given per step and per row
   (TfmOrd.v; an empty order list = key order: pv_run_ord_nil / sc_run_ord_nil) *)
Definition f64_pv_run_ord := @pv_run_ord F64.t NumF64.
Definition f64_sc_run_ord := @sc_run_ord F64.t NumF64.
Definition f64_ords_ok := @ords_ok F64.t.
(* pvalue() / score() on a run: the last iteration when converged (TfmFinal.v) *)
Definition f64_final_of_run := @final_of_run F64.t.
Definition f64_window0 := @score_window0 F64.t NumF64.
Definition f64_recompute := @recompute F64.t NumF64.
Definition f64_lookup_score := @lookup_score F64.t NumF64.
Definition f64_ls_flags := @ls_flags F64.t NumF64.
Definition f64_tenth_c := f64_tenth.
Definition f64_ten_c : F64.t := F64.of_Z 10.
Definition f32_of_bits := F32.of_bits.
Definition f64_of_bits := F64.of_bits.
Definition f64_to_bits := F64.to_bits.
Definition f64_of_f32 := F64.of_f32.
Definition f64_div := F64.div.
Definition f32_is_neg_inf := F32.is_neg_inf.

Extraction Language OCaml.
Extraction "tfm_model.ml"
  f64_pv_run f64_sc_run f64_pv_run_ord f64_sc_run_ord f64_ords_ok f64_final_of_run f64_window0 f64_recompute f64_lookup_score f64_ls_flags f64_tenth_c f64_ten_c
  f32_of_bits f64_of_bits f64_to_bits f64_of_f32 f64_div f32_is_neg_inf
  f64_to_dy f32_to_dy dy_add dy_sub dy_mul dy_leb dy_ltb dy_ofZ
  perm_ok perm_stable new_panics wrows_of enum_dy conv_dy tail_dy below_dy c12_check c13_check tol_bg
  Z.add Z.mul Z.eqb Z.of_nat Z.to_nat.
