(* C12, clause "ordered range within [0,1]", for the COMPUTED binary64 values:
   the range pmin..=pmax reported by one refinement step of TFM-PVALUE satisfies
   0 <= pmin <= pmax <= 1 in IEEE arithmetic itself (model instance NumF64), for every
   last table whose values are non-negative (and not NaN; +infinity allowed) and whose
   keys increase.  From Flocq: rounding to nearest is monotone and keeps representable
   numbers, so a <= fl(a + b) whenever 0 <= a, 0 <= b (fl(a + b) = +inf on overflow). *)
From Coq Require Import Reals ZArith List Bool Lia Lra Sorted.
From Flocq Require Import Core BinarySingleNaN.
From LMBase Require Import Res ListX IEEE.
From LMTfm Require Import TfmNum TfmModel.
Import ListNotations.
Local Open Scope Z_scope.

Notation is_finite := (@BinarySingleNaN.is_finite 53 1024).
Notation is_nan := (@BinarySingleNaN.is_nan 53 1024).
Notation B2R := (@BinarySingleNaN.B2R 53 1024).
Notation Bsign := (@BinarySingleNaN.Bsign 53 1024).
Notation pinf := (@BinarySingleNaN.B754_infinity 53 1024 false).

(* ------------------------------------------------------------------ *)
(** * 1. binary64 facts *)

(* non-negative and not NaN (-0.0 and +infinity included) *)
Definition nn (x : F64.t) : Prop := F64.le F64.zero x = true.

Definition f64_one : F64.t := F64.of_Z 1.

Lemma f64_one_Bone : f64_one = Bone.
Proof. apply B2SF_inj. vm_compute. reflexivity. Qed.

Lemma f64_one_R : is_finite f64_one = true /\ B2R f64_one = 1%R.
Proof. rewrite f64_one_Bone. split; [apply is_finite_Bone|apply Bone_correct]. Qed.

Lemma finite_not_nan : forall x : F64.t, is_finite x = true -> is_nan x = false.
Proof. intros x H. destruct x; simpl in *; congruence. Qed.

Lemma neg_sign_nonpos : forall x : F64.t, is_finite x = true -> Bsign x = true -> (B2R x <= 0)%R.
Proof.
  intros x Hf Hs. destruct x as [s|s| |s m e pf]; simpl in *; try discriminate; try lra.
  subst s. apply Rlt_le. apply F2R_lt_0. simpl. lia.
Qed.

Lemma le_finite_R : forall a b : F64.t, is_finite a = true -> is_finite b = true ->
  (F64.le a b = true <-> (B2R a <= B2R b)%R).
Proof.
  intros a b Ha Hb. unfold F64.le, fle, fcmp. rewrite (Bcompare_correct _ _ a b Ha Hb).
  destruct (Rcompare_spec (B2R a) (B2R b)); split; intros; try reflexivity; try discriminate; lra.
Qed.

(* the two shapes of a non-negative value *)
Lemma nn_cases : forall x, nn x -> (is_finite x = true /\ (0 <= B2R x)%R) \/ x = pinf.
Proof.
  intros x H. destruct x as [s|s| |s m e pf].
  - left. split; [reflexivity|simpl; lra].
  - destruct s; [vm_compute in H; discriminate|right; reflexivity].
  - vm_compute in H. discriminate.
  - left. split; [reflexivity|].
    apply (le_finite_R F64.zero (B754_finite s m e pf)) in H; [|reflexivity|reflexivity].
    exact H.
Qed.

Lemma nn_finite : forall x : F64.t, is_finite x = true -> (0 <= B2R x)%R -> nn x.
Proof. intros x Hf H. apply (le_finite_R F64.zero x); [reflexivity|exact Hf|exact H]. Qed.

Lemma nn_pinf : nn pinf.
Proof. vm_compute. reflexivity. Qed.

Lemma nn_zero : nn F64.zero.
Proof. vm_compute. reflexivity. Qed.

Lemma nn_one : nn (F64.of_Z 1).
Proof. vm_compute. reflexivity. Qed.

Lemma nn_not_nan : forall x, nn x -> is_nan x = false.
Proof. intros x H. destruct (nn_cases x H) as [[Hf _]| ->]; [apply finite_not_nan, Hf|reflexivity]. Qed.

Lemma le_pinf_r : forall a, is_nan a = false -> F64.le a pinf = true.
Proof. intros a H. destruct a as [s|[|]| |s m e pf]; try reflexivity; discriminate. Qed.

Lemma le_pinf_l : forall c, F64.le pinf c = true -> c = pinf.
Proof. intros c H. destruct c as [s|[|]| |s m e pf]; try reflexivity; vm_compute in H; discriminate. Qed.

Lemma le_refl_nn : forall a, nn a -> F64.le a a = true.
Proof.
  intros a H. destruct (nn_cases a H) as [[Hf _]| ->]; [|reflexivity].
  apply le_finite_R; auto. lra.
Qed.

(* F64.le is transitive on non-negative values *)
Lemma le_trans_nn : forall a b c, nn a -> nn b -> nn c ->
  F64.le a b = true -> F64.le b c = true -> F64.le a c = true.
Proof.
  intros a b c Ha Hb Hc Hab Hbc.
  destruct (nn_cases c Hc) as [[Fc _]| ->]; [|apply le_pinf_r, nn_not_nan, Ha].
  destruct (nn_cases b Hb) as [[Fb _]| ->]; [|apply le_pinf_l in Hbc; subst c; discriminate].
  destruct (nn_cases a Ha) as [[Fa _]| ->]; [|apply le_pinf_l in Hab; subst b; discriminate].
  apply le_finite_R in Hab; auto. apply le_finite_R in Hbc; auto. apply le_finite_R; auto. lra.
Qed.

(* a <= fl(a + b) and fl(a + b) is again non-negative *)
Lemma add_ge_l : forall a b, nn a -> nn b ->
  F64.le a (F64.add a b) = true /\ nn (F64.add a b).
Proof.
  intros a b Ha Hb.
  destruct (nn_cases a Ha) as [[Fa Ra]| ->].
  2:{ destruct (nn_cases b Hb) as [[Fb _]| ->].
      - assert (F64.add pinf b = pinf) as E.
        { destruct b as [s|s| |s m e pf]; try discriminate; reflexivity. }
        rewrite E. split; reflexivity.
      - split; reflexivity. }
  destruct (nn_cases b Hb) as [[Fb Rb]| ->].
  2:{ assert (F64.add a pinf = pinf) as E.
      { destruct a as [s|s| |s m e pf]; try discriminate; reflexivity. }
      rewrite E. split; [apply le_pinf_r, finite_not_nan, Fa|apply nn_pinf]. }
  unfold F64.add, fadd.
  pose proof (Bplus_correct 53 1024 _ _ mode_NE a b Fa Fb) as Hplus.
  set (sm := Bplus mode_NE a b) in *.
  destruct (Rlt_bool (Rabs (round radix2 (SpecFloat.fexp 53 1024) (round_mode mode_NE) (B2R a + B2R b))) (bpow radix2 1024)) eqn:Eov.
  - destruct Hplus as (HR & HF & _).
    assert (B2R a <= B2R sm)%R as HaS.
    { rewrite HR. apply round_ge_generic; [apply fexp_correct; reflexivity|apply valid_rnd_N|apply generic_format_B2R|lra]. }
    split.
    + apply le_finite_R; auto.
    + apply nn_finite; auto. lra.
  - destruct Hplus as (HSF & Hsign).
    assert (Bsign a = false) as Hsa.
    { destruct (Bsign a) eqn:Es; [exfalso|reflexivity].
      pose proof (neg_sign_nonpos a Fa Es) as Ha0. symmetry in Hsign.
      pose proof (neg_sign_nonpos b Fb Hsign) as Hb0.
      assert (B2R a + B2R b = 0)%R as E0 by lra. rewrite E0, round_0, Rabs_R0 in Eov by apply valid_rnd_N.
      rewrite Rlt_bool_true in Eov; [discriminate|apply bpow_gt_0]. }
    rewrite Hsa in HSF.
    assert (sm = pinf) as ES.
    { apply B2SF_inj. rewrite HSF. reflexivity. }
    rewrite ES. split; [apply le_pinf_r, finite_not_nan, Fa|apply nn_pinf].
Qed.

(* ------------------------------------------------------------------ *)
(** * 2. the reverse cumulative sums never decrease *)

Definition vle (a b : Z * F64.t) : Prop := F64.le (snd a) (snd b) = true.

Lemma cum_desc_keys_gen : forall {T} (N : NumOps T) sum (d : fmap (T:=T)),
  map fst (cum_desc N sum d) = map fst d.
Proof.
  intros T N sum d. revert sum; induction d as [|[k v] r IH]; intros sum; simpl; auto.
  rewrite IH. reflexivity.
Qed.

(* every sum is non-negative and >= the initial sum; every earlier sum is <= every later one *)
Theorem cum_desc_mono_F64 : forall desc sum,
  nn sum -> (forall kv, In kv desc -> nn (snd kv)) ->
  Forall (fun kv => nn (snd kv) /\ F64.le sum (snd kv) = true) (cum_desc NumF64 sum desc) /\
  StronglySorted vle (cum_desc NumF64 sum desc).
Proof.
  induction desc as [|[k v] r IH]; intros sum Hs Hv; cbn [cum_desc].
  - split; constructor.
  - cbn [NumF64 n_add].
    assert (nn v) as Hnv by (apply (Hv (k, v)); left; reflexivity).
    destruct (add_ge_l sum v Hs Hnv) as [Hle Hn].
    destruct (IH (F64.add sum v) Hn (fun kv H => Hv kv (or_intror H))) as [IH1 IH2].
    split.
    + constructor; [split; assumption|].
      eapply Forall_impl; [|exact IH1]. intros kv [H1 H2]. split; [exact H1|].
      exact (le_trans_nn sum (F64.add sum v) (snd kv) Hs Hn H1 Hle H2).
    + constructor; [exact IH2|].
      eapply Forall_impl; [|exact IH1]. intros kv [H1 H2]. exact H2.
Qed.

(* ------------------------------------------------------------------ *)
(** * 3. x.min(1.0) *)

Lemma cmp_some : forall a b : F64.t, is_nan a = false -> is_nan b = false ->
  exists c, F64.cmp a b = Some c.
Proof.
  intros a b Ha Hb. unfold F64.cmp, fcmp, Bcompare.
  destruct a as [s|s| |s m e pf]; try discriminate;
  destruct b as [s'|s'| |s' m' e' pf']; try discriminate; cbn; eexists; reflexivity.
Qed.

Lemma not_gt_le : forall x y, nn x -> nn y -> gt NumF64 x y = false -> F64.le x y = true.
Proof.
  intros x y Hx Hy. unfold gt, F64.le, fle. cbn [NumF64 n_cmp]. unfold F64.cmp.
  destruct (cmp_some x y (nn_not_nan x Hx) (nn_not_nan y Hy)) as [c E]. unfold F64.cmp in E.
  rewrite E. destruct c; intros H; try reflexivity; discriminate.
Qed.

Lemma gt_not_le : forall x y, gt NumF64 x y = true -> F64.le x y = false.
Proof.
  intros x y. unfold gt, F64.le, fle. cbn [NumF64 n_cmp]. unfold F64.cmp.
  destruct (fcmp 53 1024 x y) as [[| |]|]; intros H; try reflexivity; discriminate.
Qed.

Lemma clamp1_nn : forall x, nn x -> nn (clamp1 NumF64 x).
Proof. intros x H. unfold clamp1. destruct (gt NumF64 x _); [apply nn_one|exact H]. Qed.

Lemma clamp1_le1 : forall x, nn x -> F64.le (clamp1 NumF64 x) (F64.of_Z 1) = true.
Proof.
  intros x H. unfold clamp1. destruct (gt NumF64 x _) eqn:E; [vm_compute; reflexivity|].
  apply not_gt_le; [exact H|apply nn_one|exact E].
Qed.

Lemma clamp1_mono : forall x y, nn x -> nn y -> F64.le x y = true ->
  F64.le (clamp1 NumF64 x) (clamp1 NumF64 y) = true.
Proof.
  intros x y Hx Hy Hxy. unfold clamp1. cbn [NumF64 n_one].
  destruct (gt NumF64 x (F64.of_Z 1)) eqn:Ex; destruct (gt NumF64 y (F64.of_Z 1)) eqn:Ey.
  - vm_compute; reflexivity.
  - exfalso. apply gt_not_le in Ex. apply not_gt_le in Ey; [|exact Hy|apply nn_one].
    rewrite (le_trans_nn x y (F64.of_Z 1) Hx Hy nn_one Hxy Ey) in Ex. discriminate.
  - apply not_gt_le; [exact Hx|apply nn_one|exact Ex].
  - exact Hxy.
Qed.

(* ------------------------------------------------------------------ *)
(** * 4. the reported range *)

Lemma SSorted_app_i : forall {A} (R : A -> A -> Prop) l1 l2,
  StronglySorted R l1 -> StronglySorted R l2 -> (forall x y, In x l1 -> In y l2 -> R x y) ->
  StronglySorted R (l1 ++ l2).
Proof.
  intros A R. induction l1 as [|a r IH]; intros l2 S1 S2 H; simpl; auto.
  inversion S1; subst. constructor.
  - apply IH; auto. intros; apply H; auto. right; auto.
  - apply Forall_app. split; auto. rewrite Forall_forall. intros y Hy. apply H; auto. left; auto.
Qed.

Lemma SSorted_rev_i : forall {A} (R : A -> A -> Prop) l,
  StronglySorted R l -> StronglySorted (fun a b => R b a) (rev l).
Proof.
  intros A R l. induction 1 as [|a l S1 IH F]; simpl; [constructor|].
  apply SSorted_app_i; auto.
  - constructor; constructor.
  - intros x y Hx [<-|[]]. rewrite Forall_forall in F. apply F. apply in_rev. auto.
Qed.

Lemma fm_get_in_i : forall {T} k (m : list (Z * T)) v, fm_get k m = Some v -> In (k, v) m.
Proof.
  intros T k m v. induction m as [|[k' v'] r IH]; simpl; [discriminate|].
  destruct (Z.eqb_spec k k') as [->|Hne]; intros H.
  - inversion H; subst. left; auto.
  - right; auto.
Qed.

Lemma walk_down_in_gen : forall {T} (N : NumOps T) thr (d : fmap (T:=T)) kv,
  walk_down N thr d = Some kv -> In kv d.
Proof.
  intros T N thr d kv. induction d as [|a r IH]; simpl; [discriminate|].
  destruct r as [|b r'].
  - intros H; inversion H; left; auto.
  - destruct (ge N _ thr); intros H.
    + right. apply IH. exact H.
    + inversion H. left; auto.
Qed.

(* in a table with decreasing keys and non-decreasing sums, the sum under a key <= s is
   at least the sum under s *)
Lemma desc_order : forall (pvd : list (Z * F64.t)) s pmin kv,
  StronglySorted (fun a b => b < a) (map fst pvd) ->
  StronglySorted vle pvd ->
  Forall (fun kv => nn (snd kv)) pvd ->
  In (s, pmin) pvd -> In kv pvd -> fst kv <= s ->
  F64.le pmin (snd kv) = true.
Proof.
  induction pvd as [|x r IH]; intros s pmin kv Hk Hv Hn Hs Hkv Hle; [destruct Hs|].
  cbn [map] in Hk. inversion Hk as [|? ? Hk' HkF]; subst.
  inversion Hv as [|? ? Hv' HvF]; subst. inversion Hn as [|? ? Hnx Hn']; subst.
  destruct Hs as [Hs|Hs]; destruct Hkv as [Hkv|Hkv].
  - subst x kv. cbn [snd]. apply le_refl_nn. exact Hnx.
  - subst x. rewrite Forall_forall in HvF. apply (HvF kv Hkv).
  - subst x. exfalso. rewrite Forall_forall in HkF.
    assert (s < fst kv) by (apply HkF; change s with (fst (s, pmin)); apply in_map; exact Hs). lia.
  - eapply IH; eauto.
Qed.

Theorem lookup_pvalue_range_F64 : forall G bg score o,
  lookup_pvalue NumF64 G bg score = Ok o ->
  (forall kv, In kv (last (pv_rows o) []) -> nn (snd kv)) ->
  StronglySorted Z.lt (map fst (last (pv_rows o) [])) ->
  F64.le (pv_min o) (pv_max o) = true /\
  F64.le F64.zero (pv_min o) = true /\
  F64.le (pv_max o) (F64.of_Z 1) = true.
Proof.
  intros G bg score o Hlook Hnn Hsort.
  unfold lookup_pvalue in Hlook.
  destruct (n_isnan NumF64 (g_gran G)); [discriminate|].
  apply rbind_ok in Hlook. destruct Hlook as [osum [_ Hlook]].
  apply rbind_ok in Hlook. destruct Hlook as [rows [_ Hlook]].
  set (lastm := last rows []) in *.
  set (pvd := cum_desc NumF64 (n_zero NumF64) (rev lastm)) in *.
  destruct (fm_get _ _) as [pmin|] eqn:Hget; [|discriminate].
  destruct (walk_down _ _ _) as [kv|] eqn:Hwalk; [|discriminate].
  inversion Hlook; subst o; clear Hlook. cbn [pv_min pv_max pv_rows] in *. fold lastm in Hnn, Hsort.
  match type of Hget with fm_get ?k _ = _ => set (s := k) in * end.
  (* the table of sums *)
  destruct (cum_desc_mono_F64 (rev lastm) F64.zero nn_zero) as [Hall Hvs].
  { intros kv' Hin. apply Hnn. apply in_rev. exact Hin. }
  change (cum_desc NumF64 F64.zero (rev lastm)) with pvd in Hall, Hvs.
  assert (Forall (fun kv => nn (snd kv)) pvd) as Hallnn.
  { eapply Forall_impl; [|exact Hall]. intros a [H _]. exact H. }
  assert (StronglySorted (fun a b => b < a) (map fst pvd)) as Hks.
  { unfold pvd. rewrite cum_desc_keys_gen, map_rev. apply SSorted_rev_i. exact Hsort. }
  apply fm_get_in_i in Hget. apply in_rev in Hget.
  apply walk_down_in_gen in Hwalk. apply filter_In in Hwalk. destruct Hwalk as [Hkv Hkle].
  apply Z.leb_le in Hkle.
  rewrite Forall_forall in Hallnn.
  pose proof (Hallnn _ Hget) as Hnp. pose proof (Hallnn _ Hkv) as Hnk. cbn [snd] in Hnp.
  rewrite <- Forall_forall in Hallnn.
  pose proof (desc_order pvd s pmin kv Hks Hvs Hallnn Hget Hkv Hkle) as Hord.
  split; [|split].
  - apply clamp1_mono; assumption.
  - apply clamp1_nn. exact Hnp.
  - apply clamp1_le1. exact Hnk.
Qed.

Corollary pv_next_range_F64 : forall rows perm bg score g it,
  pv_next NumF64 rows perm bg score g = Ok it ->
  (forall kv, In kv (last (io_rows it) []) -> nn (snd kv)) ->
  StronglySorted Z.lt (map fst (last (io_rows it) [])) ->
  F64.le (io_start it) (io_end it) = true /\
  F64.le F64.zero (io_start it) = true /\
  F64.le (io_end it) (F64.of_Z 1) = true.
Proof.
  intros rows perm bg score g it H Hnn Hsort. unfold pv_next in H.
  apply rbind_ok in H. destruct H as [G [_ H]].
  apply rbind_ok in H. destruct H as [o [Ho H]].
  inversion H; subst it; clear H. cbn [io_start io_end io_rows] in *.
  exact (lookup_pvalue_range_F64 G bg score o Ho Hnn Hsort).
Qed.

(* ------------------------------------------------------------------ *)
(** * 5. the tables computed from non-negative inputs *)

(* non-negative or NaN (never a negative number, never -infinity): closed under + and *
   (inf * 0 = NaN is the reason for the second alternative) *)
Definition nn_or_nan (x : F64.t) : Prop := nn x \/ is_nan x = true.

Lemma nan_is : forall x : F64.t, is_nan x = true -> x = B754_nan.
Proof. intros x H. destruct x; try discriminate. reflexivity. Qed.

Lemma add_nan_l : forall b : F64.t, F64.add B754_nan b = B754_nan.
Proof. intros b. destruct b; reflexivity. Qed.
Lemma add_nan_r : forall a : F64.t, F64.add a B754_nan = B754_nan.
Proof. intros a. destruct a; reflexivity. Qed.
Lemma mul_nan_l : forall b : F64.t, F64.mul B754_nan b = B754_nan.
Proof. intros b. destruct b; reflexivity. Qed.
Lemma mul_nan_r : forall a : F64.t, F64.mul a B754_nan = B754_nan.
Proof. intros a. destruct a; reflexivity. Qed.

Lemma add_nn : forall a b, nn a -> nn b -> nn (F64.add a b).
Proof. intros a b Ha Hb. apply (add_ge_l a b Ha Hb). Qed.

Lemma add_nn_or_nan : forall a b, nn_or_nan a -> nn_or_nan b -> nn_or_nan (F64.add a b).
Proof.
  intros a b [Ha|Ha] [Hb|Hb].
  - left. apply add_nn; assumption.
  - right. rewrite (nan_is b Hb), add_nan_r. reflexivity.
  - right. rewrite (nan_is a Ha), add_nan_l. reflexivity.
  - right. rewrite (nan_is a Ha), add_nan_l. reflexivity.
Qed.

Lemma nn_sign_finite : forall s m e pf, nn (B754_finite s m e pf) -> s = false.
Proof. intros s m e pf H. destruct s; [|reflexivity]. cbv in H. discriminate. Qed.

(* the product of two finite non-negative values is non-negative (+inf on overflow) *)
Lemma mul_nn_finite : forall a b, nn a -> nn b -> is_finite a = true -> is_finite b = true ->
  nn (F64.mul a b).
Proof.
  intros a b Ha Hb Fa Fb.
  destruct (nn_cases a Ha) as [[_ Ra]|E]; [|subst a; discriminate].
  destruct (nn_cases b Hb) as [[_ Rb]|E]; [|subst b; discriminate].
  unfold F64.mul, fmul.
  pose proof (Bmult_correct 53 1024 _ _ mode_NE a b) as Hm.
  set (pr := Bmult mode_NE a b) in *.
  destruct (Rlt_bool (Rabs (round radix2 (SpecFloat.fexp 53 1024) (round_mode mode_NE) (B2R a * B2R b))) (bpow radix2 1024)) eqn:Eov.
  - destruct Hm as (HR & HF & _). rewrite Fa, Fb in HF. apply nn_finite; [exact HF|].
    rewrite HR. apply round_ge_generic; [apply fexp_correct; reflexivity|apply valid_rnd_N|apply generic_format_0|].
    apply Rmult_le_pos; assumption.
  - assert (forall x : F64.t, is_finite x = true -> (0 <= B2R x)%R -> Bsign x = true -> B2R x = 0%R) as Hz.
    { intros x Fx Rx Sx. pose proof (neg_sign_nonpos x Fx Sx). lra. }
    assert (forall r : R, (B2R a * B2R b)%R = 0%R -> False) as Hno.
    { intros _ E0. rewrite E0, round_0, Rabs_R0 in Eov by apply valid_rnd_N.
      rewrite Rlt_bool_true in Eov; [discriminate|apply bpow_gt_0]. }
    assert (Bsign a = false) as Sa.
    { destruct (Bsign a) eqn:Es; [exfalso|reflexivity]. apply (Hno 0%R).
      rewrite (Hz a Fa Ra Es). ring. }
    assert (Bsign b = false) as Sb.
    { destruct (Bsign b) eqn:Es; [exfalso|reflexivity]. apply (Hno 0%R).
      rewrite (Hz b Fb Rb Es). ring. }
    rewrite Sa, Sb in Hm.
    assert (pr = pinf) as ES by (apply B2SF_inj; rewrite Hm; reflexivity).
    rewrite ES. apply nn_pinf.
Qed.

(* nn is closed under * unless one operand is +inf and the other a zero *)
Lemma mul_nn : forall a b, nn a -> nn b ->
  ~ (a = pinf /\ F64.eq b F64.zero = true) -> ~ (b = pinf /\ F64.eq a F64.zero = true) ->
  nn (F64.mul a b).
Proof.
  intros a b Ha Hb H1 H2.
  destruct (nn_cases a Ha) as [[Fa _]|Ea]; destruct (nn_cases b Hb) as [[Fb _]|Eb].
  - apply mul_nn_finite; assumption.
  - subst b. destruct a as [s|s| |s m e pf]; try discriminate.
    + exfalso. apply H2. split; reflexivity.
    + rewrite (nn_sign_finite s m e pf Ha). reflexivity.
  - subst a. destruct b as [s|s| |s m e pf]; try discriminate.
    + exfalso. apply H1. split; reflexivity.
    + rewrite (nn_sign_finite s m e pf Hb). reflexivity.
  - subst a b. reflexivity.
Qed.

Lemma mul_nn_or_nan : forall a b, nn_or_nan a -> nn_or_nan b -> nn_or_nan (F64.mul a b).
Proof.
  intros a b [Ha|Ha] [Hb|Hb].
  2:{ right. rewrite (nan_is b Hb), mul_nan_r. reflexivity. }
  2:{ right. rewrite (nan_is a Ha), mul_nan_l. reflexivity. }
  2:{ right. rewrite (nan_is a Ha), mul_nan_l. reflexivity. }
  destruct (nn_cases a Ha) as [[Fa _]|Ea]; destruct (nn_cases b Hb) as [[Fb _]|Eb].
  - left. apply mul_nn_finite; assumption.
  - subst b. destruct a as [s|s| |s m e pf]; try discriminate.
    + right. reflexivity.
    + left. rewrite (nn_sign_finite s m e pf Ha). reflexivity.
  - subst a. destruct b as [s|s| |s m e pf]; try discriminate.
    + right. reflexivity.
    + left. rewrite (nn_sign_finite s m e pf Hb). reflexivity.
  - subst a b. left. reflexivity.
Qed.

(* ---------- an invariant scheme for [distribution] (any carrier) ---------- *)

Lemma in_skipn : forall {A} n (l : list A) x, In x (skipn n l) -> In x l.
Proof. intros A n l x H. rewrite <- (firstn_skipn n l). apply in_or_app. right. exact H. Qed.

Lemma last_P : forall {A} (P : A -> Prop) l d, Forall P l -> P d -> P (last l d).
Proof.
  intros A P l d H Hd. induction H as [|x l Hx Hl IH]; [exact Hd|].
  destruct l as [|y l']; [exact Hx|]. exact IH.
Qed.

Section DistInv.
  Context {T : Type} (N : NumOps T).
  Variable V : T -> Prop.                  (* property of values *)
  Variable P : fmap (T:=T) -> Prop.        (* property of tables *)
  Hypothesis V_zero : V (n_zero N).
  Hypothesis V_one : V (n_one N).
  Hypothesis V_add : forall a b, V a -> V b -> V (n_add N a b).
  Hypothesis V_mul : forall a b, V a -> V b -> V (n_mul N a b).
  Hypothesis P_nil : P [].
  Hypothesis P_add : forall k v m, V v -> P m -> P (fm_add N k v m).
  Hypothesis P_set : forall k v m, V v -> P m -> P (fm_set k v m).
  Hypothesis P_V : forall m kv, P m -> In kv m -> V (snd kv).

  Lemma init_row_inv : forall mn maxs1 irow bg, (forall b, In b bg -> V b) ->
    P (init_row N mn maxs1 irow bg).
  Proof.
    intros mn maxs1 irow bg Hbg. unfold init_row.
    assert (forall (l : list (Z * T)) m0, (forall cb, In cb l -> V (snd cb)) -> P m0 ->
              P (fold_left (fun m cb => if (fst cb + maxs1 >=? mn) then fm_add N (fst cb) (snd cb) m else m) l m0)) as H.
    { induction l as [|cb l IH]; intros m0 Hl Hm; [exact Hm|]. cbn [fold_left].
      apply IH; [intros c Hc; apply Hl; right; exact Hc|].
      destruct (_ >=? _); [|exact Hm]. apply P_add; [apply Hl; left; reflexivity|exact Hm]. }
    apply H; [|exact P_nil]. intros [c b] Hcb. apply in_combine_r in Hcb. apply Hbg. exact Hcb.
  Qed.

  Lemma step_cell_inv : forall mn mx mnext rnext key val st cb,
    V rnext -> V val -> V (snd cb) -> P (fst st) -> V (snd st) ->
    P (fst (step_cell N mn mx mnext rnext key val st cb)) /\
    V (snd (step_cell N mn mx mnext rnext key val st cb)).
  Proof.
    intros mn mx mnext rnext key val st cb Hr Hv Hb HP HV. unfold step_cell.
    destruct (_ >=? _); [|split; assumption].
    destruct (_ >? _); cbn [fst snd].
    - split; [exact HP|]. apply V_add; [exact HV|]. apply V_mul; [|exact Hr]. apply V_mul; assumption.
    - split; [|exact HV]. apply P_add; [|exact HP]. apply V_mul; assumption.
  Qed.

  Lemma step_row_inv : forall mn mx mnext rnext irow bg cur bucket,
    (forall b, In b bg -> V b) -> V rnext -> P cur -> V bucket ->
    P (fst (step_row N mn mx mnext rnext irow bg cur bucket)) /\
    V (snd (step_row N mn mx mnext rnext irow bg cur bucket)).
  Proof.
    intros mn mx mnext rnext irow bg cur bucket Hbg Hr Hcur Hb. unfold step_row.
    assert (forall (l : list (Z * T)) key val st, (forall cb, In cb l -> V (snd cb)) ->
              V val -> P (fst st) -> V (snd st) ->
              P (fst (fold_left (step_cell N mn mx mnext rnext key val) l st)) /\
              V (snd (fold_left (step_cell N mn mx mnext rnext key val) l st))) as Hin.
    { induction l as [|cb l IH]; intros key val st Hl Hv H1 H2; [split; assumption|].
      cbn [fold_left].
      destruct (step_cell_inv mn mx mnext rnext key val st cb Hr Hv (Hl cb (or_introl eq_refl)) H1 H2) as [H3 H4].
      apply IH; auto. intros c Hc. apply Hl. right. exact Hc. }
    assert (forall cb, In cb (combine irow bg) -> V (snd cb)) as Hcb.
    { intros [c b] H. apply in_combine_r in H. apply Hbg. exact H. }
    assert (forall (l : fmap (T:=T)) st, (forall kv, In kv l -> V (snd kv)) -> P (fst st) -> V (snd st) ->
              P (fst (fold_left (fun st kv => fold_left (step_cell N mn mx mnext rnext (fst kv) (snd kv)) (combine irow bg) st) l st)) /\
              V (snd (fold_left (fun st kv => fold_left (step_cell N mn mx mnext rnext (fst kv) (snd kv)) (combine irow bg) st) l st))) as Hout.
    { induction l as [|kv l IH]; intros st Hl H1 H2; [split; assumption|].
      cbn [fold_left].
      destruct (Hin (combine irow bg) (fst kv) (snd kv) st Hcb (Hl kv (or_introl eq_refl)) H1 H2) as [H3 H4].
      apply IH; auto. intros c Hc. apply Hl. right. exact Hc. }
    apply Hout; cbn [fst snd]; auto. intros kv Hkv. exact (P_V cur kv Hcur Hkv).
  Qed.

  Lemma dist_loop_inv : forall mn mx bg rm cur bucket acc,
    (forall b, In b bg -> V b) -> (forall x, In x rm -> V (snd x)) ->
    P cur -> V bucket -> Forall P acc ->
    let '(acc', cur', b') := dist_loop N mn mx bg rm cur bucket acc in
    Forall P acc' /\ P cur' /\ V b'.
  Proof.
    intros mn mx bg rm. induction rm as [|[[irow mnext] rnext] r IH]; intros cur bucket acc Hbg Hrm Hc Hb Ha.
    - cbn [dist_loop]. auto.
    - cbn [dist_loop].
      pose proof (step_row_inv mn mx mnext rnext irow bg cur bucket Hbg
                    (Hrm (irow, mnext, rnext) (or_introl eq_refl)) Hc Hb) as Hs.
      destruct (step_row N mn mx mnext rnext irow bg cur bucket) as [nxt b]. cbn [fst snd] in Hs.
      destruct Hs as [Hn Hb'].
      apply IH; auto. intros x Hx. apply Hrm. right. exact Hx.
  Qed.

  Lemma rest_sums_inv : forall mass n, V mass -> Forall V (rest_sums N mass n).
  Proof.
    intros mass n Hm. induction n as [|n IH]; cbn [rest_sums]; [constructor; [exact V_one|constructor]|].
    constructor; [|exact IH]. apply V_mul; [|exact Hm].
    destruct (rest_sums N mass n) as [|x l]; [exact V_one|]. inversion IH; subst. exact H1.
  Qed.

  Theorem distribution_inv : forall G bg mn mx rows,
    distribution N G bg mn mx = Ok rows ->
    (forall b, In b bg -> V b) ->
    V (n_sub N (n_one N) (last bg (n_zero N))) ->
    Forall P rows.
  Proof.
    intros G bg mn mx rows H Hbg Hmass. unfold distribution in H.
    destruct (g_int G) as [|irow0 irows]; [discriminate|].
    destruct (negb _); [discriminate|]. destruct (mx =? i64_max); [discriminate|].
    set (mass := n_sub N (n_one N) (last bg (n_zero N))) in *.
    set (rest := rest_sums N mass (length (irow0 :: irows))) in *.
    set (maxs := suffix_sums (g_maxr G)) in *.
    set (rm := combine (combine irows (skipn 2 maxs)) (skipn 2 rest)) in *.
    pose proof (dist_loop_inv mn mx bg rm (init_row N mn (nth 1 maxs 0) irow0 bg) (n_zero N) [] Hbg) as Hd.
    destruct (dist_loop N mn mx bg rm _ _ _) as [[acc cur] bucket].
    inversion H; subst rows; clear H.
    destruct Hd as [Ha [Hc Hb]].
    - intros [x rn] Hx. apply in_combine_r in Hx. apply in_skipn in Hx. cbn [snd].
      pose proof (rest_sums_inv mass (length (irow0 :: irows)) Hmass) as HF.
      rewrite Forall_forall in HF. apply HF. exact Hx.
    - apply init_row_inv. exact Hbg.
    - exact V_zero.
    - constructor.
    - apply Forall_app. split.
      + apply Forall_rev. exact Ha.
      + constructor; [|constructor]. apply P_set; assumption.
  Qed.
End DistInv.

(* ---------- instance 1: the keys of every table increase (any carrier) ---------- *)

Definition ksorted {T} (m : list (Z * T)) : Prop := StronglySorted Z.lt (map fst m).

Lemma fm_add_keys_gen : forall {T} (N : NumOps T) k v (m : fmap (T:=T)) j,
  In j (map fst (fm_add N k v m)) <-> j = k \/ In j (map fst m).
Proof.
  intros T N k v m j. induction m as [|[k' v'] r IH]; cbn [fm_add map fst In].
  - intuition.
  - destruct (Z.ltb_spec k k').
    + cbn [map fst In]. intuition.
    + destruct (Z.eqb_spec k k') as [->|Hne]; cbn [map fst In].
      * intuition.
      * rewrite IH. intuition.
Qed.

Lemma fm_set_keys_gen : forall {T} k v (m : fmap (T:=T)) j,
  In j (map fst (fm_set k v m)) <-> j = k \/ In j (map fst m).
Proof.
  intros T k v m j. induction m as [|[k' v'] r IH]; cbn [fm_set map fst In].
  - intuition.
  - destruct (Z.ltb_spec k k').
    + cbn [map fst In]. intuition.
    + destruct (Z.eqb_spec k k') as [->|Hne]; cbn [map fst In].
      * intuition.
      * rewrite IH. intuition.
Qed.

Lemma fm_add_ksorted : forall {T} (N : NumOps T) k v (m : fmap (T:=T)),
  ksorted m -> ksorted (fm_add N k v m).
Proof.
  intros T N k v m. unfold ksorted. induction m as [|[k' v'] r IH]; intros HS; cbn [fm_add].
  - cbn. constructor; constructor.
  - cbn [map fst] in HS. inversion HS as [|? ? HS' HF]; subst.
    destruct (Z.ltb_spec k k').
    + cbn [map fst]. constructor; [exact HS|].
      constructor; [auto|]. rewrite Forall_forall in *. intros x Hx. specialize (HF x Hx). lia.
    + destruct (Z.eqb_spec k k') as [->|Hne].
      * cbn [map fst]. exact HS.
      * cbn [map fst]. constructor; [apply IH; exact HS'|].
        rewrite Forall_forall in *. intros x Hx.
        apply fm_add_keys_gen in Hx. destruct Hx as [->|Hx]; [lia|auto].
Qed.

Lemma fm_set_ksorted : forall {T} k v (m : fmap (T:=T)),
  ksorted m -> ksorted (fm_set k v m).
Proof.
  intros T k v m. unfold ksorted. induction m as [|[k' v'] r IH]; intros HS; cbn [fm_set].
  - cbn. constructor; constructor.
  - cbn [map fst] in HS. inversion HS as [|? ? HS' HF]; subst.
    destruct (Z.ltb_spec k k').
    + cbn [map fst]. constructor; [exact HS|].
      constructor; [auto|]. rewrite Forall_forall in *. intros x Hx. specialize (HF x Hx). lia.
    + destruct (Z.eqb_spec k k') as [->|Hne].
      * cbn [map fst]. constructor; assumption.
      * cbn [map fst]. constructor; [apply IH; exact HS'|].
        rewrite Forall_forall in *. intros x Hx.
        apply fm_set_keys_gen in Hx. destruct Hx as [->|Hx]; [lia|auto].
Qed.

Theorem distribution_ksorted : forall {T} (N : NumOps T) G bg mn mx rows,
  distribution N G bg mn mx = Ok rows -> Forall ksorted rows.
Proof.
  intros T N G bg mn mx rows H.
  apply (distribution_inv N (fun _ => True) ksorted) with (G := G) (bg := bg) (mn := mn) (mx := mx); auto.
  - constructor.
  - intros. apply fm_add_ksorted. assumption.
  - intros. apply fm_set_ksorted. assumption.
Qed.

(* ---------- instance 2: binary64 values computed from non-negative inputs ---------- *)

Definition tab_nn_or_nan (m : list (Z * F64.t)) : Prop := forall kv, In kv m -> nn_or_nan (snd kv).

Lemma fm_add_nn_or_nan : forall k v m, nn_or_nan v -> tab_nn_or_nan m ->
  tab_nn_or_nan (fm_add NumF64 k v m).
Proof.
  intros k v m Hv. unfold tab_nn_or_nan.
  induction m as [|[k' v'] r IH]; intros Hm kv; cbn [fm_add NumF64 n_add n_zero].
  - intros [<-|[]]. cbn [snd]. apply add_nn_or_nan; [left; apply nn_zero|exact Hv].
  - destruct (k <? k').
    + intros [<-|Hin]; [|apply Hm; exact Hin]. cbn [snd]. apply add_nn_or_nan; [left; apply nn_zero|exact Hv].
    + destruct (k =? k').
      * intros [<-|Hin]; [|apply Hm; right; exact Hin]. cbn [snd].
        apply add_nn_or_nan; [|exact Hv]. apply (Hm (k', v')). left; reflexivity.
      * intros [<-|Hin]; [apply Hm; left; reflexivity|].
        apply IH; [|exact Hin]. intros x Hx. apply Hm. right. exact Hx.
Qed.

Lemma fm_set_nn_or_nan : forall k v (m : list (Z * F64.t)), nn_or_nan v -> tab_nn_or_nan m ->
  tab_nn_or_nan (fm_set k v m).
Proof.
  intros k v m Hv. unfold tab_nn_or_nan.
  induction m as [|[k' v'] r IH]; intros Hm kv; cbn [fm_set].
  - intros [<-|[]]. exact Hv.
  - destruct (k <? k').
    + intros [<-|Hin]; [exact Hv|apply Hm; exact Hin].
    + destruct (k =? k').
      * intros [<-|Hin]; [exact Hv|apply Hm; right; exact Hin].
      * intros [<-|Hin]; [apply Hm; left; reflexivity|].
        apply IH; [|exact Hin]. intros x Hx. apply Hm. right. exact Hx.
Qed.

(* every value of every table is non-negative or NaN, whenever the background
   frequencies and 1.0 - bg[K-1] are *)
Theorem distribution_nn_or_nan_F64 : forall G bg mn mx rows,
  distribution NumF64 G bg mn mx = Ok rows ->
  (forall b, In b bg -> nn_or_nan b) ->
  nn_or_nan (F64.sub (F64.of_Z 1) (last bg F64.zero)) ->
  forall m, In m rows -> forall kv, In kv m -> nn_or_nan (snd kv).
Proof.
  intros G bg mn mx rows H Hbg Hmass.
  assert (Forall tab_nn_or_nan rows) as HF.
  { apply (distribution_inv NumF64 nn_or_nan tab_nn_or_nan) with (G := G) (bg := bg) (mn := mn) (mx := mx); auto.
    - left. apply nn_zero.
    - left. apply nn_one.
    - exact add_nn_or_nan.
    - exact mul_nn_or_nan.
    - intros kv [].
    - exact fm_add_nn_or_nan.
    - exact fm_set_nn_or_nan. }
  rewrite Forall_forall in HF. exact HF.
Qed.

(* 1.0 - b for a finite 0 <= b <= 1 *)
Lemma sub_one_nn : forall b, nn b -> F64.le b (F64.of_Z 1) = true -> nn (F64.sub (F64.of_Z 1) b).
Proof.
  intros b Hb Hle. destruct f64_one_R as [F1 R1]. fold f64_one in Hle |- *.
  destruct (nn_cases b Hb) as [[Fb Rb]|E]; [|subst b; vm_compute in Hle; discriminate].
  apply le_finite_R in Hle; auto. rewrite R1 in Hle.
  unfold F64.sub, fsub.
  pose proof (Bminus_correct 53 1024 _ _ mode_NE f64_one b F1 Fb) as Hm.
  set (d := Bminus mode_NE f64_one b) in *. rewrite R1 in Hm.
  assert (0 <= round radix2 (SpecFloat.fexp 53 1024) (round_mode mode_NE) (1 - B2R b) <= 1)%R as [Hr0 Hr1].
  { split.
    - apply round_ge_generic; [apply fexp_correct; reflexivity|apply valid_rnd_N|apply generic_format_0|lra].
    - apply round_le_generic; [apply fexp_correct; reflexivity|apply valid_rnd_N| |lra].
      rewrite <- R1. apply generic_format_B2R. }
  rewrite Rlt_bool_true in Hm.
  - destruct Hm as (HR & HF & _). apply nn_finite; [exact HF|]. rewrite HR. exact Hr0.
  - rewrite Rabs_pos_eq by exact Hr0. eapply Rle_lt_trans; [exact Hr1|].
    change 1%R with (bpow radix2 0). apply bpow_lt. lia.
Qed.

(* ---------- the range from the inputs ---------- *)

Lemma lookup_pvalue_rows : forall {T} (N : NumOps T) G bg score o,
  lookup_pvalue N G bg score = Ok o ->
  exists mn mx, distribution N G bg mn mx = Ok (pv_rows o).
Proof.
  intros T N G bg score o Hlook. unfold lookup_pvalue in Hlook.
  destruct (n_isnan N (g_gran G)); [discriminate|].
  apply rbind_ok in Hlook. destruct Hlook as [osum [_ Hlook]].
  apply rbind_ok in Hlook. destruct Hlook as [rows [Hd Hlook]].
  destruct (fm_get _ _) as [pmin|]; [|discriminate].
  destruct (walk_down _ _ _) as [kv|]; [|discriminate].
  inversion Hlook; subst o; clear Hlook. cbn [pv_rows]. eauto.
Qed.

(* no hypothesis on the keys; the values: non-negative inputs and a last table without NaN *)
Theorem lookup_pvalue_range_F64_inputs : forall G bg score o,
  lookup_pvalue NumF64 G bg score = Ok o ->
  (forall b, In b bg -> nn_or_nan b) ->
  nn_or_nan (F64.sub (F64.of_Z 1) (last bg F64.zero)) ->
  (forall kv, In kv (last (pv_rows o) []) -> F64.is_nan (snd kv) = false) ->
  F64.le (pv_min o) (pv_max o) = true /\
  F64.le F64.zero (pv_min o) = true /\
  F64.le (pv_max o) (F64.of_Z 1) = true.
Proof.
  intros G bg score o Hlook Hbg Hmass Hnan.
  destruct (lookup_pvalue_rows NumF64 G bg score o Hlook) as (mn & mx & Hd).
  apply (lookup_pvalue_range_F64 G bg score o Hlook).
  - intros kv Hkv.
    assert (tab_nn_or_nan (last (pv_rows o) [])) as Ht.
    { apply last_P; [|intros x []]. rewrite Forall_forall. intros m Hm kv' Hkv'.
      exact (distribution_nn_or_nan_F64 G bg mn mx _ Hd Hbg Hmass m Hm kv' Hkv'). }
    destruct (Ht kv Hkv) as [H|H]; [exact H|]. specialize (Hnan kv Hkv).
    unfold F64.is_nan, IEEE.is_nan in Hnan. rewrite H in Hnan. discriminate.
  - apply (last_P ksorted); [|constructor]. exact (distribution_ksorted NumF64 G bg mn mx _ Hd).
Qed.

Corollary pv_next_range_F64_inputs : forall rows perm bg score g it,
  pv_next NumF64 rows perm bg score g = Ok it ->
  (forall b, In b bg -> nn_or_nan b) ->
  nn_or_nan (F64.sub (F64.of_Z 1) (last bg F64.zero)) ->
  (forall kv, In kv (last (io_rows it) []) -> F64.is_nan (snd kv) = false) ->
  F64.le (io_start it) (io_end it) = true /\
  F64.le F64.zero (io_start it) = true /\
  F64.le (io_end it) (F64.of_Z 1) = true.
Proof.
  intros rows perm bg score g it H Hbg Hmass Hnan. unfold pv_next in H.
  apply rbind_ok in H. destruct H as [G [_ H]].
  apply rbind_ok in H. destruct H as [o [Ho H]].
  inversion H; subst it; clear H. cbn [io_start io_end io_rows] in *.
  exact (lookup_pvalue_range_F64_inputs G bg score o Ho Hbg Hmass Hnan).
Qed.

(* the same with the hypotheses on the background stated by comparisons only:
   frequencies >= 0 (not NaN), wildcard frequency bg[K-1] <= 1 *)
Corollary pv_next_range_F64_bg : forall rows perm bg score g it,
  pv_next NumF64 rows perm bg score g = Ok it ->
  (forall b, In b bg -> F64.le F64.zero b = true) ->
  F64.le (last bg F64.zero) (F64.of_Z 1) = true ->
  (forall kv, In kv (last (io_rows it) []) -> F64.is_nan (snd kv) = false) ->
  F64.le (io_start it) (io_end it) = true /\
  F64.le F64.zero (io_start it) = true /\
  F64.le (io_end it) (F64.of_Z 1) = true.
Proof.
  intros rows perm bg score g it H Hbg Hw Hnan.
  apply (pv_next_range_F64_inputs rows perm bg score g it H); [| |exact Hnan].
  - intros b Hb. left. exact (Hbg b Hb).
  - left. apply sub_one_nn; [|exact Hw].
    apply (last_P nn); [|apply nn_zero]. rewrite Forall_forall. exact Hbg.
Qed.
