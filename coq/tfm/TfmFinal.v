(* `TfmPvalue::pvalue(score)` and `TfmPvalue::score(pvalue)`:

     let it = self.approximate_pvalue(score).last().unwrap();
     assert!(it.converged); // algorithm should always converge
     *it.range.start()

   The loop behind `last()` has no bound in the code; the model gives it [fuel] calls of
   `next()`.  [final_of_run fuel run] is the outcome on the run obtained with that fuel:
   the last iteration when it is converged, the panic of a panicking call, [Panic 27] when
   the iterator stopped by itself (granularity <= target) on an unconverged iteration (the
   `assert!` fails), [OutOfFuel] when the fuel ran out first (the real loop goes on).
   [pvalue_fuel_mono] / [score_fuel_mono] (TfmFinalProofs.v): an [Ok] result does not depend
   on the fuel, i.e. it is the value the unbounded loop returns.  Executable definitions only. *)
From Coq Require Import ZArith List Bool Lia.
From LMBase Require Import Res ListX IEEE.
From LMTfm Require Import TfmNum TfmModel.
Import ListNotations.

Section Final.
  Context {T : Type} (N : NumOps T).

  Definition final_of_run (fuel : nat) (run : list (res (iter_out (T:=T)))) : res (iter_out (T:=T)) :=
    match last run OutOfFuel with
    | Ok it => if io_conv it then Ok it
               else if (length run <? fuel)%nat then Panic 27
               else OutOfFuel
    | e => e
    end.

  Definition pvalue_fuel (fuel : nat) (rows : list (list T)) (perm : list nat) (bg : list T) (score : T) : res T :=
    it <- final_of_run fuel (pv_run N fuel rows perm bg score (n_tenth N)) ;;
    Ok (io_start it).

  Definition score_fuel (fuel : nat) (rows : list (list T)) (perm : list nat) (bg : list T) (p : T) : res T :=
    win <- score_window0 N rows perm ;;
    it <- final_of_run fuel (sc_run N fuel rows perm bg p (n_tenth N) win) ;;
    Ok (io_score it).

End Final.
