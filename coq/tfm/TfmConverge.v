(* When does an iteration of TFM-PVALUE report `converged`?  (exact arithmetic)

   `TfmPvalue::pvalue(score)` loops `approximate_pvalue(score)` until an iteration is
   converged (the two ends of the returned p-value range are equal).  This file gives a
   sufficient condition on the matrix and the query:

     [pv_next_converged_if_isolated]  the step at granularity g is converged as soon as no
        attainable score S of the matrix satisfies  score - (M+1) g <= S < score + M g;
     [pv_run_converged_at] / [pv_run_stops_at]  the same along the run: the iteration of
        index i (granularity 10^-(i+1)) is converged, and is the last one, when no
        attainable score lies in that window for g = 10^-(i+1);
     [sc_next_converged_if_gap], [sc_next_exhausted_converged]  the corresponding (immediate)
        facts for the score iterator;
     [pv_run_length_le], [pv_run_length_gap]  the resulting bound on the length of the run,
        in terms of the distance delta from the query to the nearest attainable score;
     [tie_never_converges_12], [tie_run_shape_30]  a machine-checked example: when the query
        IS the score of two words whose integer scores differ at every granularity, no
        iteration is converged (the exact run has 18 unconverged iterations and then
        panics on the i64 overflow of the integer matrix). *)
From Coq Require Import ZArith QArith Qround List Bool Lia Lqa Sorted Permutation.
From LMBase Require Import Res ListX.
From LMTfm Require Import TfmNum TfmModel TfmSpec TfmProofs TfmScore TfmDist TfmPerm TfmMain TfmRun.
Import ListNotations.
Open Scope Q_scope.

(* ------------------------------------------------------------------ *)
(** * Small tools *)

Lemma feq_refl (x : Q) : feq NumQ x x = true.
Proof. apply feqQ. reflexivity. Qed.

Lemma SSorted_lt_NoDup (l : list Z) : StronglySorted Z.lt l -> NoDup l.
Proof.
  induction 1 as [|a l HS IH F]; constructor; auto.
  intros Hin. rewrite Forall_forall in F. specialize (F _ Hin). lia.
Qed.

Lemma NoDup_keys_inj {B} (l : list (Z * B)) k a b :
  NoDup (map fst l) -> In (k, a) l -> In (k, b) l -> a = b.
Proof.
  induction l as [|[k' v'] r IH]; intros ND Ha Hb; [destruct Ha|].
  cbn [map fst] in ND. inversion ND as [|? ? Hnin ND']; subst.
  destruct Ha as [Ha|Ha], Hb as [Hb|Hb].
  - congruence.
  - inversion Ha; subst. exfalso. apply Hnin. apply in_map_iff. exists (k, b). auto.
  - inversion Hb; subst. exfalso. apply Hnin. apply in_map_iff. exists (k, a). auto.
  - eapply IH; eauto.
Qed.

(* words of the integer matrix come from words of the joint rows *)
Lemma attain_irows_jrows g bg css l :
  attain l (irows (ints_of g css) bg) ->
  exists lj, attain lj (jrows g bg css) /\ map (fun xc : Q * Z => snd xc) lj = l.
Proof.
  revert l; induction css as [|cs rest IH]; intros l H.
  - inversion H; subst. exists []. split; [constructor|reflexivity].
  - cbn [ints_of irows map] in H. inversion H as [|x r l' rs' Hx Hrest]; subst.
    destruct (IH _ Hrest) as [lj [A B]].
    rewrite combine_map_l, map_map in Hx. cbn [fst] in Hx.
    apply in_map_iff in Hx. destruct Hx as [xb [E Hxb]].
    exists ((fst xb, (qfl g (fst xb) + off_of g cs)%Z) :: lj). split.
    + constructor; auto. unfold jrow. rewrite map_map. cbn [fst]. apply in_map_iff. exists xb. auto.
    + cbn [map snd]. rewrite B, E. reflexivity.
Qed.

Lemma attain_jrows_srows g bg css lj :
  attain lj (jrows g bg css) -> attain (map (fun xc : Q * Z => fst xc) lj) (srows css bg).
Proof.
  intros H. rewrite (srows_jrows g). apply (attain_map (fun xc : Q * Z => fst xc)). exact H.
Qed.

(* ------------------------------------------------------------------ *)
(** * The table: no key below s means a one-point range *)

Lemma table_one_point (lastm : fmap (T:=Q)) s thr pmin kv :
  StronglySorted Z.lt (map fst lastm) ->
  (forall k, In k (map fst lastm) -> (k < s)%Z -> False) ->
  let pvd := cum_desc NumQ 0 (rev lastm) in
  let pva := rev pvd in
  fm_get s pva = Some pmin ->
  walk_down NumQ thr (filter (fun kv => (fst kv <=? s)%Z) pvd) = Some kv ->
  snd kv = pmin.
Proof.
  intros Hsort Hnone pvd pva Hget Hwalk.
  assert (Hkeys : map fst pvd = rev (map fst lastm)).
  { unfold pvd. rewrite cum_desc_keys, map_rev. reflexivity. }
  apply fm_get_in in Hget. apply in_rev1 in Hget.
  apply walk_down_in in Hwalk. apply filter_In in Hwalk. destruct Hwalk as [Hw1 Hw2].
  apply Z.leb_le in Hw2.
  assert (Hk : In (fst kv) (map fst lastm)).
  { apply in_rev1. rewrite <- Hkeys. apply in_map. exact Hw1. }
  assert (E : fst kv = s).
  { destruct (Z.eq_dec (fst kv) s) as [E|NE]; [exact E|]. exfalso. apply (Hnone _ Hk). lia. }
  assert (ND : NoDup (map fst pvd)).
  { rewrite Hkeys. apply NoDup_rev. apply SSorted_lt_NoDup. exact Hsort. }
  destruct kv as [k v]. cbn [fst snd] in *. subst k.
  eapply NoDup_keys_inj; eauto.
Qed.

(* the key s chosen by lookup_pvalue: every key below s is below avg *)
Lemma key_below_s (lastm : fmap (T:=Q)) avg mx1 :
  StronglySorted Z.lt (map fst lastm) ->
  (forall k, In k (map fst lastm) -> (k <= mx1)%Z) ->
  let pva := rev (cum_desc NumQ 0 (rev lastm)) in
  let s := match find (fun kv => (avg <=? fst kv)%Z) pva with Some kv => fst kv | None => mx1 end in
  (s <= mx1)%Z /\ forall k, In k (map fst lastm) -> (k < s)%Z -> (k < avg)%Z.
Proof.
  intros Hsort Hmax pva s.
  assert (Hkeys : map fst pva = map fst lastm).
  { unfold pva. rewrite map_rev, cum_desc_keys, map_rev, rev_involutive. reflexivity. }
  unfold s. destruct (find _ pva) as [kv0|] eqn:Ef.
  - rewrite <- Hkeys in Hsort.
    destruct (find_sorted_min avg pva kv0 Hsort Ef) as [F1 [F2 F3]]. split.
    + apply Hmax. rewrite <- Hkeys. apply in_map. exact F1.
    + intros k Hk Hlt. rewrite <- Hkeys in Hk. apply in_map_iff in Hk. destruct Hk as [kv' [<- Hkv']].
      destruct (Z.lt_ge_cases (fst kv') avg) as [L|L]; [exact L|].
      specialize (F3 kv' Hkv' L). lia.
  - split; [lia|]. intros k Hk _. rewrite <- Hkeys in Hk. apply in_map_iff in Hk.
    destruct Hk as [kv' [<- Hkv']]. pose proof (find_none _ _ Ef kv' Hkv') as Hf. cbn beta in Hf.
    apply Z.leb_gt in Hf. exact Hf.
Qed.

(* ------------------------------------------------------------------ *)
(** * Arithmetic *)

(* a word whose integer score I lies in [mn, avg) has a real score in the window
   [score - (M+1) g, score + M g) *)
Lemma iso_arith (g Sw O I E M score : Q) (avg mn : Z) :
  0 < g ->
  avg = Qfloor (score / g + O) ->
  mn = Qfloor (score / g + O - E - 1) ->
  I + 1 <= inject_Z avg -> inject_Z mn <= I ->
  0 <= Sw / g + O - I -> Sw / g + O - I < E + 1 -> E + 1 <= M ->
  score - (M + 1) * g <= Sw /\ Sw < score + M * g.
Proof.
  intros Hg Havg Hmn H1 H2 H3 H4 H5.
  pose proof (Qfloor_le (score / g + O)) as F1. rewrite <- Havg in F1.
  pose proof (Qlt_floor (score / g + O - E - 1)) as F2. rewrite <- Hmn in F2.
  rewrite inject_Z_plus in F2. change (inject_Z 1) with 1 in F2.
  assert (E1 : Sw == Sw / g * g) by (field; lra).
  assert (E2 : score == score / g * g) by (field; lra).
  set (u := Sw / g) in *. set (v := score / g) in *.
  assert (A1 : v - (M + 1) <= u) by lra.
  assert (A2 : u <= v + M - 1) by lra.
  rewrite E1, E2. split; nra.
Qed.

Lemma floor_window (x e : Q) :
  0 <= e -> (Qfloor (x - e - 1) <= Qfloor (x + e + 1) + 1)%Z /\ (Qfloor x <= Qfloor (x + e + 1))%Z.
Proof.
  intros He.
  assert (Qfloor (x - e - 1) <= Qfloor (x + e + 1))%Z by (apply Qfloor_resp_le; lra).
  assert (Qfloor x <= Qfloor (x + e + 1))%Z by (apply Qfloor_resp_le; lra).
  split; lia.
Qed.

(* ------------------------------------------------------------------ *)
(** * 1. PvaluesIterator::next is converged on an isolated query *)

Lemma lookup_pvalue_one_point rows perm bg K g G score o :
  matrix_ok K rows bg -> (2 <= length rows)%nat -> length perm = length rows -> 0 < g ->
  recompute NumQ rows perm g = Ok G ->
  lookup_pvalue NumQ G bg score = Ok o ->
  let M := inject_Z (Z.of_nat (length rows)) in
  let cs := perm_cells rows perm in
  (forall l, attain l (srows cs bg) ->
             ~ (score - (M + 1) * g <= Qsum l /\ Qsum l < score + M * g)) ->
  pv_min o = pv_max o.
Proof.
  intros Hok HM Hperm Hg Hrec Hlook M cs Hiso.
  assert (Hpne : perm <> []) by (intros E; rewrite E in Hperm; simpl in Hperm; lia).
  destruct (recompute_cells _ _ _ _ _ _ Hok Hrec) as [Hcells [Hmaxr HlenG]].
  destruct (matrix_ok_bg _ _ _ Hok) as [Hunit Hbl].
  destruct (recompute_Q_geom _ _ _ _ Hrec) as [prow [Hp [Hgran [Hg1 [Hint [Hoff [Hne [_ [_ Hem]]]]]]]]].
  destruct (permuted_rows_spec _ _ _ Hp) as [Hplen [Hpin Hcs]].
  fold cs in Hcs. rewrite Hcs in Hint.
  (* error_max >= 0 *)
  rewrite combine_map_self, tl_map in Hem.
  apply error_max_from_Q in Hem; auto; [|apply Forall_tl; auto].
  destruct Hem as [Em0 _].
  (* open the lookup *)
  unfold lookup_pvalue in Hlook. cbn [NumQ n_isnan n_add n_sub n_div n_ofZ n_floorZ n_one n_zero] in Hlook.
  apply rbind_ok in Hlook. destruct Hlook as [osum [Hosum Hlook]].
  apply rbind_ok in Hlook. destruct Hlook as [rowsq [Hd Hlook]].
  apply sum_i64_ok in Hosum. rewrite Z.add_0_l in Hosum.
  rewrite Hgran in Hlook, Hd.
  set (scaled := score / g + inject_Z osum) in *.
  set (avg := Qfloor scaled) in *.
  set (mx := Qfloor (scaled + g_emax G + 1)) in *.
  set (mn := Qfloor (scaled - g_emax G - 1)) in *.
  set (lastm := last rowsq []) in *.
  destruct (floor_window scaled (g_emax G) Em0) as [Hmnmx Havgmx].
  fold mn in Hmnmx. fold mx in Hmnmx, Havgmx. fold avg in Havgmx.
  assert (HlG : (2 <= length (g_int G))%nat) by lia.
  pose proof (distribution_exact G bg mn mx rowsq (K - 1)%nat Hd HlG Hcells Hmaxr Hunit Hbl Hmnmx) as Hdist.
  pose proof (distribution_keys_attainable G bg mn mx rowsq (K - 1)%nat Hd HlG Hcells Hmaxr Hunit Hbl Hmnmx) as Hatt.
  fold lastm in Hdist, Hatt.
  destruct (dist_exact_keys _ _ _ _ Hdist) as [Hsort _].
  destruct Hdist as [body [vb [Hl [_ [Hbody _]]]]].
  rewrite Hl, removelast_last in Hatt.
  assert (Hmax : forall k, In k (map fst lastm) -> (k <= mx + 1)%Z).
  { intros k Hk. rewrite Hl, map_app in Hk. apply in_app_or in Hk. destruct Hk as [Hk|[<-|[]]]; [|cbn [fst]; lia].
    apply in_map_iff in Hk. destruct Hk as [kv' [<- Hkv']]. destruct (Hbody _ Hkv') as [B _]. lia. }
  destruct (key_below_s lastm avg (mx + 1)%Z Hsort Hmax) as [Hsmx Hbelow].
  cbv zeta in Hsmx, Hbelow.
  destruct (fm_get _ _) as [pmin|] eqn:Hget; [|discriminate].
  destruct (walk_down _ _ _) as [kv|] eqn:Hwalk; [|discriminate].
  inversion Hlook; subst o; clear Hlook. cbn [pv_min pv_max].
  f_equal. symmetry.
  refine (table_one_point lastm _ _ pmin kv Hsort _ Hget Hwalk).
  (* no key below s *)
  intros k Hk Hks.
  pose proof (Hbelow k Hk Hks) as Hkavg.
  assert (Hkb : In k (map fst body)).
  { rewrite Hl, map_app in Hk. apply in_app_or in Hk. destruct Hk as [Hk|[E|[]]]; [exact Hk|cbn [fst] in E; lia]. }
  assert (Hkmn : (mn <= k)%Z).
  { apply in_map_iff in Hkb. destruct Hkb as [kv' [<- Hkv']]. destruct (Hbody _ Hkv') as [B _]. lia. }
  destruct (Hatt k Hkb) as [l [Hl1 Hl2]].
  rewrite Hint in Hl1. apply attain_irows_jrows in Hl1. destruct Hl1 as [lj [Hj1 Hj2]].
  destruct (int_score_error_fine rows perm bg K g G lj Hok Hg Hpne Hrec Hj1) as [E0 [E1 [E2 E3]]].
  rewrite Hj2, Hl2, <- Hosum in E0, E1.
  apply (Hiso (map (fun xc : Q * Z => fst xc) lj)).
  { apply (attain_jrows_srows g). exact Hj1. }
  apply (iso_arith g _ (inject_Z osum) (inject_Z k) (g_emax G) M score avg mn); auto.
  - change (inject_Z k + 1) with (inject_Z k + inject_Z 1). rewrite <- (inject_Z_plus k 1). rewrite <- Zle_Qle. lia.
  - rewrite <- Zle_Qle. exact Hkmn.
  - unfold M. rewrite <- Hperm. exact E3.
Qed.

Theorem pv_next_converged_if_isolated : forall rows perm bg K g score it,
  matrix_ok K rows bg -> (2 <= length rows)%nat -> length perm = length rows -> 0 < g ->
  pv_next NumQ rows perm bg score g = Ok it ->
  let M := inject_Z (Z.of_nat (length rows)) in
  let cs := perm_cells rows perm in
  (forall l, attain l (srows cs bg) ->
             ~ (score - (M + 1) * g <= Qsum l /\ Qsum l < score + M * g)) ->
  io_conv it = true.
Proof.
  intros rows perm bg K g score it Hok HM Hperm Hg H M cs Hiso. unfold pv_next in H.
  apply rbind_ok in H. destruct H as [G [Hrec H]].
  apply rbind_ok in H. destruct H as [o [Hlook H]].
  inversion H; subst it; clear H. cbn [io_conv].
  rewrite (lookup_pvalue_one_point rows perm bg K g G score o Hok HM Hperm Hg Hrec Hlook Hiso).
  apply feq_refl.
Qed.

(* ------------------------------------------------------------------ *)
(** * 2. The run: which iteration is the last one *)

(* no attainable score in the window [score - (M+1) g, score + M g) *)
Definition isolated (cs : list (list Q)) (bg : list Q) (M score g : Q) : Prop :=
  forall l, attain l (srows cs bg) -> ~ (score - (M + 1) * g <= Qsum l /\ Qsum l < score + M * g).

Lemma isolated_ext cs bg M score g g' : g == g' -> isolated cs bg M score g -> isolated cs bg M score g'.
Proof.
  intros E H l Hl [H1 H2]. apply (H l Hl). rewrite E. split; assumption.
Qed.

(* a smaller granularity has a smaller window *)
Lemma isolated_mono cs bg M score g g' :
  0 <= M -> g' <= g -> isolated cs bg M score g -> isolated cs bg M score g'.
Proof.
  intros HM0 Hle H l Hl [H1 H2]. apply (H l Hl). split; nra.
Qed.

Lemma pv_run_converged_gen : forall steps rows perm bg K score g i it,
  matrix_ok K rows bg -> (2 <= length rows)%nat -> length perm = length rows -> 0 < g ->
  nth_error (pv_run NumQ steps rows perm bg score g) i = Some (Ok it) ->
  isolated (perm_cells rows perm) bg (inject_Z (Z.of_nat (length rows))) score (g / pow10 i) ->
  io_conv it = true.
Proof.
  intros steps rows perm bg K score g i it Hok HM Hperm. revert g i.
  induction steps as [|n IH]; intros g i Hg H Hiso; cbn [pv_run] in H.
  - destruct i; discriminate.
  - rewrite (le_pos_false g Hg) in H.
    destruct (pv_next NumQ rows perm bg score g) as [it0| | |] eqn:Enext;
      try (destruct i as [|[|i]]; discriminate).
    destruct i as [|i]; cbn [nth_error] in H.
    + inversion H; subst it0.
      apply (pv_next_converged_if_isolated rows perm bg K g score it Hok HM Hperm Hg Enext).
      apply (isolated_ext _ _ _ _ (g / pow10 0)); [|exact Hiso]. rewrite pow10_0. field.
    + destruct (io_conv it0); [destruct i; discriminate|].
      destruct (div10_pos g Hg) as [D1 _].
      apply (IH _ i D1 H).
      apply (isolated_ext _ _ _ _ (g / pow10 (S i))); [|exact Hiso].
      cbn [NumQ n_div n_ten]. rewrite pow10_S. pose proof (pow10_pos i). field. lra.
Qed.

(* a converged iteration is the last element of the run *)
Lemma pv_run_stops : forall steps rows perm bg score g i it,
  nth_error (pv_run NumQ steps rows perm bg score g) i = Some (Ok it) ->
  io_conv it = true ->
  length (pv_run NumQ steps rows perm bg score g) = S i.
Proof.
  induction steps as [|n IH]; intros rows perm bg score g i it H Hc; cbn [pv_run] in *.
  - destruct i; discriminate.
  - destruct (le NumQ g (n_zero NumQ)); [destruct i; discriminate|].
    destruct (pv_next NumQ rows perm bg score g) as [it0| | |] eqn:Enext;
      try (destruct i as [|[|i]]; discriminate).
    destruct i as [|i]; cbn [nth_error] in H.
    + inversion H; subst it0. rewrite Hc. reflexivity.
    + destruct (io_conv it0); [destruct i; discriminate|].
      cbn [length]. f_equal. eapply IH; eauto.
Qed.

(* a failing call is the last element of the run *)
Lemma is_ok_dec {A} (e : res A) : {a | e = Ok a} + {forall a, e <> Ok a}.
Proof. destruct e as [a| | |]; [left; exists a; reflexivity|right; discriminate..]. Qed.

Lemma pv_run_nonok_last : forall steps rows perm bg score g i e,
  nth_error (pv_run NumQ steps rows perm bg score g) i = Some e ->
  (forall it, e <> Ok it) ->
  length (pv_run NumQ steps rows perm bg score g) = S i.
Proof.
  induction steps as [|n IH]; intros rows perm bg score g i e H Hno; cbn [pv_run] in *.
  - destruct i; discriminate.
  - destruct (le NumQ g (n_zero NumQ)); [destruct i; discriminate|].
    destruct (pv_next NumQ rows perm bg score g) as [it0|c|c|] eqn:Enext.
    + destruct i as [|i]; cbn [nth_error] in H.
      * inversion H; subst e. exfalso. apply (Hno it0). reflexivity.
      * destruct (io_conv it0); [destruct i; discriminate|].
        cbn [length]. f_equal. eapply IH; eauto.
    + destruct i as [|[|i]]; try discriminate. reflexivity.
    + destruct i as [|[|i]]; try discriminate. reflexivity.
    + destruct i as [|[|i]]; try discriminate. reflexivity.
Qed.

(* `approximate_pvalue(score)`: the iteration of index i works at granularity
   gi = 10^-(i+1); it is converged when no attainable score S of the matrix has
   score - (M+1) gi <= S < score + M gi. *)
Theorem pv_run_converged_at : forall steps rows perm bg K score i it,
  matrix_ok K rows bg -> (2 <= length rows)%nat -> length perm = length rows ->
  nth_error (pv_run NumQ steps rows perm bg score (1 # 10)) i = Some (Ok it) ->
  let M := inject_Z (Z.of_nat (length rows)) in
  let cs := perm_cells rows perm in
  let gi := (1 # 10) / pow10 i in
  (forall l, attain l (srows cs bg) ->
             ~ (score - (M + 1) * gi <= Qsum l /\ Qsum l < score + M * gi)) ->
  io_conv it = true.
Proof.
  intros steps rows perm bg K score i it Hok HM Hperm H M cs gi Hiso.
  apply (pv_run_converged_gen steps rows perm bg K score (1 # 10) i it Hok HM Hperm); [reflexivity|exact H|exact Hiso].
Qed.

(* ... and then the run has no element after index i: `pvalue()` returns at iteration i
   (or earlier: see [pv_run_length_le]) *)
Theorem pv_run_stops_at : forall steps rows perm bg K score i it,
  matrix_ok K rows bg -> (2 <= length rows)%nat -> length perm = length rows ->
  nth_error (pv_run NumQ steps rows perm bg score (1 # 10)) i = Some (Ok it) ->
  let M := inject_Z (Z.of_nat (length rows)) in
  let cs := perm_cells rows perm in
  let gi := (1 # 10) / pow10 i in
  (forall l, attain l (srows cs bg) ->
             ~ (score - (M + 1) * gi <= Qsum l /\ Qsum l < score + M * gi)) ->
  length (pv_run NumQ steps rows perm bg score (1 # 10)) = S i.
Proof.
  intros steps rows perm bg K score i it Hok HM Hperm H M cs gi Hiso.
  apply (pv_run_stops steps rows perm bg score (1 # 10) i it H).
  exact (pv_run_converged_at steps rows perm bg K score i it Hok HM Hperm H Hiso).
Qed.

(* The bound without assuming that the run reaches index i: whatever happens before
   (an earlier converged iteration, a panic, fewer steps), a run on a query that is
   isolated at granularity 10^-(i+1) has at most i+1 elements. *)
Theorem pv_run_length_le : forall steps rows perm bg K score i,
  matrix_ok K rows bg -> (2 <= length rows)%nat -> length perm = length rows ->
  let M := inject_Z (Z.of_nat (length rows)) in
  let cs := perm_cells rows perm in
  let gi := (1 # 10) / pow10 i in
  (forall l, attain l (srows cs bg) ->
             ~ (score - (M + 1) * gi <= Qsum l /\ Qsum l < score + M * gi)) ->
  (length (pv_run NumQ steps rows perm bg score (1 # 10)) <= S i)%nat.
Proof.
  intros steps rows perm bg K score i Hok HM Hperm M cs gi Hiso.
  set (run := pv_run NumQ steps rows perm bg score (1 # 10)).
  destruct (nth_error run i) as [e|] eqn:E.
  - destruct (is_ok_dec e) as [[it ->]|Hno].
    + unfold run in *. rewrite (pv_run_stops_at steps rows perm bg K score i it Hok HM Hperm E Hiso). lia.
    + unfold run in *. rewrite (pv_run_nonok_last steps rows perm bg score (1 # 10) i e E Hno). lia.
  - apply nth_error_None in E. lia.
Qed.

Lemma gran_pos i : 0 < (1 # 10) / pow10 i.
Proof.
  unfold Qdiv. apply Qmult_lt_0_compat; [reflexivity|]. apply Qinv_lt_0_compat. apply pow10_pos.
Qed.

(* In terms of the distance to the nearest attainable score: if every attainable score
   S of the matrix has |S - score| >= delta > 0, the run stops at the first index i with
   (M+1) 10^-(i+1) < delta, that is after at most floor(log10((M+1)/delta)) + 1 calls of
   next() (= ceil(log10((M+1)/delta)) unless (M+1)/delta is a power of ten).
   When `score` IS an attainable score, delta = 0 and these theorems give nothing: see
   section 4 for a query on which no iteration converges in exact arithmetic. *)
Theorem pv_run_length_gap : forall steps rows perm bg K score delta i,
  matrix_ok K rows bg -> (2 <= length rows)%nat -> length perm = length rows ->
  let M := inject_Z (Z.of_nat (length rows)) in
  let cs := perm_cells rows perm in
  (forall l, attain l (srows cs bg) -> Qsum l <= score - delta \/ score + delta <= Qsum l) ->
  (M + 1) * ((1 # 10) / pow10 i) < delta ->
  (length (pv_run NumQ steps rows perm bg score (1 # 10)) <= S i)%nat.
Proof.
  intros steps rows perm bg K score delta i Hok HM Hperm M cs Hgap Hd.
  apply (pv_run_length_le steps rows perm bg K score i Hok HM Hperm).
  fold M. fold cs. intros l Hl [H1 H2].
  pose proof (gran_pos i) as Hgi.
  assert (HM0 : 0 <= M).
  { unfold M. change 0 with (inject_Z 0). rewrite <- Zle_Qle. lia. }
  set (gi := (1 # 10) / pow10 i) in *.
  destruct (Hgap l Hl) as [A|A]; nra.
Qed.

(* ------------------------------------------------------------------ *)
(** * 3. ScoresIterator::next *)

(* `if (alpha - alpha_e) as f64 > error_max { pvalues[alpha]..=pvalues[alpha] }` *)
Lemma lookup_score_gap_point G (bg : list Q) p mn mx o :
  lookup_score NumQ G bg p mn mx = Ok o ->
  g_emax G < inject_Z (ls_alpha o - ls_alpha_e o) ->
  ls_start o = ls_end o.
Proof.
  unfold lookup_score. cbn [NumQ n_isnan]. intros H Hgap.
  apply rbind_ok in H. destruct H as [rowsq [_ H]].
  destruct (length (last rowsq [])) as [|top]; [discriminate|].
  apply rbind_ok in H. destruct H as [[[riter sum] pvs] [_ H]].
  apply rbind_ok in H. destruct H as [[[[a ae] pvs'] exh] [_ H]].
  apply rbind_ok in H. destruct H as [pa [_ H]].
  apply rbind_ok in H. destruct H as [pe [Hpe H]].
  inversion H; subst o; clear H. cbn [ls_start ls_end ls_alpha ls_alpha_e] in *.
  destruct (gt NumQ (n_ofZ NumQ (a - ae)) (g_emax G)) eqn:Egt.
  - inversion Hpe. reflexivity.
  - exfalso. assert (gt NumQ (n_ofZ NumQ (a - ae)) (g_emax G) = true) by (apply gtQ; exact Hgap).
    congruence.
Qed.

(* the window gave no crossing: alpha_e = alpha, the range is a point *)
Lemma lookup_score_exhausted_point G (bg : list Q) p mn mx o :
  lookup_score NumQ G bg p mn mx = Ok o ->
  ls_exhausted o = true ->
  ls_start o = ls_end o.
Proof.
  unfold lookup_score. cbn [NumQ n_isnan]. intros H Hexh.
  apply rbind_ok in H. destruct H as [rowsq [_ H]].
  destruct (length (last rowsq [])) as [|top]; [discriminate|].
  apply rbind_ok in H. destruct H as [[[riter sum] pvs] [_ H]].
  apply rbind_ok in H. destruct H as [[[[a ae] pvs'] exh] [Hr H]].
  apply rbind_ok in H. destruct H as [pa [Hpa H]].
  apply rbind_ok in H. destruct H as [pe [Hpe H]].
  inversion H; subst o; clear H. cbn [ls_start ls_end ls_exhausted] in *. subst exh.
  assert (Eae : ae = a).
  { destruct (gt NumQ sum p).
    - apply rbind_ok in Hr. destruct Hr as [x [_ Hr]]. apply rbind_ok in Hr. destruct Hr as [y [_ Hr]].
      inversion Hr.
    - destruct riter as [|r'].
      + apply rbind_ok in Hr. destruct Hr as [x [_ Hr]]. inversion Hr. reflexivity.
      + apply rbind_ok in Hr. destruct Hr as [x [_ Hr]]. apply rbind_ok in Hr. destruct Hr as [y [_ Hr]].
        inversion Hr. }
  subst ae. clear Hr. revert Hpe. destruct (gt NumQ _ _); intros Hpe; congruence.
Qed.

Theorem sc_next_converged_if_gap : forall rows perm bg p g win it G o,
  recompute NumQ rows perm g = Ok G ->
  lookup_score NumQ G bg p (fst win) (snd win) = Ok o ->
  sc_next NumQ rows perm bg p g win = Ok it ->
  g_emax G < inject_Z (ls_alpha o - ls_alpha_e o) ->
  io_conv it = true.
Proof.
  intros rows perm bg p g win it G o Hrec Hlook H Hgap. unfold sc_next in H.
  rewrite Hrec in H. cbn [rbind] in H. rewrite Hlook in H. cbn [rbind] in H.
  apply rbind_ok in H. destruct H as [osum [_ H]].
  destruct (negb _); [discriminate|].
  inversion H; subst it; clear H. cbn [io_conv].
  rewrite (lookup_score_gap_point G bg p _ _ o Hlook Hgap). apply feq_refl.
Qed.

(* the same on the values the iteration itself reports *)
Theorem sc_next_converged_if_gap' : forall rows perm bg p g win it,
  sc_next NumQ rows perm bg p g win = Ok it ->
  exists o, lookup_score NumQ (io_geom it) bg p (fst win) (snd win) = Ok o /\
            io_key it = ls_alpha o /\
            (g_emax (io_geom it) < inject_Z (ls_alpha o - ls_alpha_e o) -> io_conv it = true).
Proof.
  intros rows perm bg p g win it H. pose proof H as H0. unfold sc_next in H.
  apply rbind_ok in H. destruct H as [G [Hrec H]].
  apply rbind_ok in H. destruct H as [o [Hlook H]].
  apply rbind_ok in H. destruct H as [osum [_ H]].
  destruct (negb _); [discriminate|].
  inversion H; subst it; clear H. cbn [io_geom io_key].
  exists o. split; [exact Hlook|]. split; [reflexivity|].
  intros Hgap. exact (sc_next_converged_if_gap rows perm bg p g win _ G o Hrec Hlook H0 Hgap).
Qed.

Theorem sc_next_exhausted_converged : forall rows perm bg p g win it,
  sc_next NumQ rows perm bg p g win = Ok it ->
  io_exh it = true -> io_conv it = true.
Proof.
  intros rows perm bg p g win it H Hexh. unfold sc_next in H.
  apply rbind_ok in H. destruct H as [G [Hrec H]].
  apply rbind_ok in H. destruct H as [o [Hlook H]].
  apply rbind_ok in H. destruct H as [osum [_ H]].
  destruct (negb _); [discriminate|].
  inversion H; subst it; clear H. cbn [io_conv io_exh] in *.
  rewrite (lookup_score_exhausted_point G bg p _ _ o Hlook Hexh). apply feq_refl.
Qed.

(* ------------------------------------------------------------------ *)
(** * 4. An exact tie never converges *)

(* Two rows, four symbols + wildcard column, uniform background.  The query 4/3 is the
   exact score of the words (2/3, 2/3) and (1/3, 1): at granularity 10^-k their integer
   scores are 2 * 66..6 = 133..32 and 33..3 + 100..0 = 133..33 (before offsets), and
   score / g = 133..3.33..: the key s is the second one, the first one is a key below
   s inside the window, and the reported range is [2/16, 3/16] at every step. *)
Definition tie_rows : list (list Q) := [[1 # 3; 2 # 3; 0; -1; -100]; [2 # 3; 1; 0; -1; -100]].
Definition tie_bg : list Q := [1 # 4; 1 # 4; 1 # 4; 1 # 4; 0].
Definition tie_perm : list nat := [1; 0]%nat.      (* decreasing score range: 2, 5/3 *)
Definition tie_score : Q := 4 # 3.

Definition all_unconverged (run : list (res (iter_out (T:=Q)))) : bool :=
  forallb (fun r => match r with Ok it => negb (io_conv it) | _ => false end) run.

Lemma tie_matrix_ok : matrix_ok 5 tie_rows tie_bg.
Proof.
  unfold matrix_ok, tie_rows, tie_bg. split; [lia|]. split; [repeat constructor|].
  split; [reflexivity|]. split.
  - intros b Hb. simpl in Hb. repeat (destruct Hb as [<-|Hb]; [discriminate|]). destruct Hb.
  - split; reflexivity.
Qed.

Lemma tie_score_attained :
  attain [2 # 3; 2 # 3] (srows (perm_cells tie_rows tie_perm) tie_bg) /\
  attain [1; 1 # 3] (srows (perm_cells tie_rows tie_perm) tie_bg) /\
  Qsum [2 # 3; 2 # 3] == tie_score /\ Qsum [1; 1 # 3] == tie_score.
Proof.
  split; [|split; [|split; reflexivity]].
  - repeat constructor; simpl; tauto.
  - repeat constructor; simpl; tauto.
Qed.

Theorem tie_never_converges_12 :
  let run := pv_run NumQ 12 tie_rows tie_perm tie_bg tie_score (1 # 10) in
  length run = 12%nat /\ all_unconverged run = true.
Proof. vm_compute. split; reflexivity. Qed.

(* the same with the rows in matrix order *)
Theorem tie_never_converges_12_id :
  let run := pv_run NumQ 12 tie_rows [0; 1]%nat tie_bg tie_score (1 # 10) in
  length run = 12%nat /\ all_unconverged run = true.
Proof. vm_compute. split; reflexivity. Qed.

(* the reported ranges: [1/8, 3/16] at every step (3/16 = P(S >= 4/3) exactly) *)
Theorem tie_ranges_12 :
  map (fun r => match r with Ok it => Some (Qred (io_start it), Qred (io_end it)) | _ => None end)
      (pv_run NumQ 12 tie_rows tie_perm tie_bg tie_score (1 # 10))
  = repeat (Some (1 # 8, 3 # 16)) 12.
Proof. vm_compute. reflexivity. Qed.

(* The whole exact run on this query: 18 unconverged iterations (granularities 10^-1 ..
   10^-18), then the call at granularity 10^-19 panics at site 14 (i64 overflow of
   `int_matrix += offset`: the integer cells exceed 2^63).  In exact arithmetic
   `pvalue(4/3)` never returns on this matrix. *)
Definition run_shape (run : list (res (iter_out (T:=Q)))) : list (bool + nat) :=
  map (fun r => match r with
                | Ok it => inl (io_conv it)
                | Panic n => inr n
                | Err n => inr (1000 + n)%nat
                | OutOfFuel => inr 2000%nat
                end) run.

Theorem tie_run_shape_30 :
  run_shape (pv_run NumQ 30 tie_rows tie_perm tie_bg tie_score (1 # 10))
  = repeat (inl false) 18 ++ [inr 14%nat].
Proof. vm_compute. reflexivity. Qed.

(* a query off the ties: 7/5 is at distance 1/15 from the nearest attainable score 4/3,
   M + 1 = 3 and 3 * 10^-2 < 1/15: [pv_run_length_gap] (i = 1) bounds the run by two
   elements; the computed run has exactly two, the second one converged *)
Theorem off_tie_run_shape :
  run_shape (pv_run NumQ 12 tie_rows tie_perm tie_bg (7 # 5) (1 # 10)) = [inl false; inl true].
Proof. vm_compute. reflexivity. Qed.
