(* Property C18 — Python indexing and buffer views expose exactly the logical contents.
   Only the property theorems (closed by lemmas of PyIdxProofs), statement pins and
   non-vacuity examples.

   Reading guide: [enc_getitem], [mat_getitem], [scores_getitem], [*_getbuffer],
   [configure_all] are the code of lightmotif-py/lightmotif/lib.rs as modelled in
   PyIdxModel.v (panics explicit); [index_spec], [view_spec], [Holds_C18] and
   [check_C18] (PyIdxSpec.v) are the property over observations and its executable
   checker; [ravel st] is the memory of a dense matrix with padded rows (coq/dense). *)
From Coq Require Import List Arith ZArith Bool Lia.
From LMBase Require Import Res ListX.
From LMDense Require Import DenseModel DenseProofs.
From LMPyIdx Require Import PyIdxAlloc PyIdxReuse.
From LMPyIdx Require Import PyIdxModel PyIdxSpec GenSlots PyIdxProofs.
Import ListNotations.

(* ---------- indexing ---------- *)

(* obj[i] of every indexable class, for EVERY integer i (since the fix of F33 an integer
   outside the C ssize_t range is out of range like any other): the element for
   0 <= i < len and -len <= i < 0, IndexError otherwise.  [d], [t] are arbitrary;
   a StripedScores is any value calculate() can return (scores_of, motif of M >= 1 rows,
   sequence of L <= R*C symbols). *)
Theorem C18_getitem_spec :
  forall (T : Type) (dflt : T) (i : Z),
  (forall d : list T, (enc_len d <= ssize_max)%Z ->
     index_spec (enc_len d) (fun k => VElem (nth k d dflt)) i (out_of_res VElem (enc_getitem d i))) /\
  (forall t : list (list T), (mat_len t <= ssize_max)%Z ->
     index_spec (mat_len t) (fun k => VRow (nth k t [])) i (out_of_res VRow (mat_getitem t i))) /\
  (forall C S R L M pos, 1 <= M -> L <= R * C -> (Z.of_nat L <= ssize_max)%Z ->
     let s := scores_of dflt C S R L M pos in
     index_spec (scores_len s) (fun k => VElem (nth k pos dflt)) i (out_of_res VElem (scores_getitem s i))).
Proof.
  intros T dflt i. split; [|split].
  - intros d Hd. exact (enc_getitem_obs dflt d i Hd).
  - intros t Ht. exact (mat_getitem_obs t i Ht).
  - intros C S R L M pos HM HL Hn s.
    destruct (scores_of_inv dflt C S R L M pos HM HL) as (Ht & Hm & Hmax & _).
    apply (scores_getitem_obs dflt s C _ pos i Ht Hm); auto.
    fold s in Hmax. rewrite Hmax. destruct ((L <? M) || (R =? 0)); lia.
Qed.

(* no integer whatsoever makes __getitem__ panic (no isize overflow in the
   normalisation, no out-of-bounds Vec index, no division by zero rows) *)
Theorem C18_getitem_never_panics :
  forall (T : Type) (dflt : T) (i : Z),
  (forall d : list T, (enc_len d <= ssize_max)%Z -> is_panic (enc_getitem d i) = false) /\
  (forall t : list (list T), (mat_len t <= ssize_max)%Z -> is_panic (mat_getitem t i) = false) /\
  (forall C S R L M pos, 1 <= M -> L <= R * C -> (Z.of_nat L <= ssize_max)%Z ->
     is_panic (scores_getitem (scores_of dflt C S R L M pos) i) = false).
Proof.
  intros T dflt i. split; [|split].
  - intros d Hd. rewrite (enc_getitem_py dflt d i Hd).
    unfold py_index. destruct ((0 <=? i) && (i <? enc_len d))%Z; cbn; auto.
    destruct ((- enc_len d <=? i) && (i <? 0))%Z; cbn; auto.
  - intros t Ht. rewrite (mat_getitem_py t i Ht).
    unfold py_index. destruct ((0 <=? i) && (i <? mat_len t))%Z; cbn; auto.
    destruct ((- mat_len t <=? i) && (i <? 0))%Z; cbn; auto.
  - intros C S R L M pos HM HL Hn.
    destruct (scores_of_inv dflt C S R L M pos HM HL) as (Ht & Hm & Hmax & _).
    rewrite (scores_getitem_py dflt _ C _ pos i Ht Hm); auto.
    + unfold py_index. destruct ((0 <=? i) && (i <? _))%Z; cbn; auto.
      destruct ((- _ <=? i) && (i <? 0))%Z; cbn; auto.
    + rewrite Hmax. destruct ((L <? M) || (R =? 0)); lia.
Qed.

(* repaired defect F33 (corpus/C18/boundary.txt, cases with big=1): 2^63 and -2^63-1 *)
Example C18_getitem_outside_ssize_is_index_error :
  out_of_res VElem (enc_getitem [0%Z; 1%Z] 9223372036854775808%Z) = OExc EIndex /\
  out_of_res VElem (enc_getitem [0%Z; 1%Z] (-9223372036854775809)%Z) = OExc EIndex.
Proof. split; reflexivity. Qed.

(* len() of a StripedScores is the number of scored positions *)
Theorem C18_scores_len :
  forall (T : Type) (dflt : T) C S R L M (pos : list T), 1 <= M -> L <= R * C -> 1 <= L ->
    scores_len (scores_of dflt C S R L M pos) = Z.of_nat (if L <? M then 0 else L + 1 - M).
Proof.
  intros T dflt C S R L M pos HM HL HL1.
  destruct (scores_of_inv dflt C S R L M pos HM HL) as (_ & _ & Hmax & _).
  unfold scores_len. rewrite Hmax.
  assert (R <> 0) by (intros ->; simpl in HL; lia).
  destruct (R =? 0) eqn:E; [apply Nat.eqb_eq in E; lia|]. rewrite orb_false_r. reflexivity.
Qed.

(* ---------- buffer views ---------- *)

(* ScoringMatrix: for every storage [st] that represents the K-column table [t] with row
   stride S >= K (padding cells arbitrary), element [i][j] of the exported view lies at
   byte 4*(i*S+j) — row i, column j < K: inside the allocation, not in the padding — and
   reads the logical entry (position i, symbol j); shape = (rows, K), item format "f". *)
Theorem C18_scoring_view_addresses_logical :
  forall (T : Type) (dflt : T) K S (t : list (list T)) (st : @storage T),
    K <= S -> s_wf K S st -> abs st = t ->
    let b := scoring_getbuffer (scoring_new K S t) in
    mv_shape b = [Z.of_nat (length t); Z.of_nat K] /\ pb_itemsize b = 4%Z /\ pb_format b = Fmtf /\
    pb_len b = (Z.of_nat (length t) * Z.of_nat K * 4)%Z /\
    forall i j, i < length t -> j < K ->
      dotZ [Z.of_nat i; Z.of_nat j] (mv_strides b) = (4 * Z.of_nat (i * S + j))%Z /\
      i * S + j < length (ravel st) /\
      mv_get (ravel st) 4 b [Z.of_nat i; Z.of_nat j] = Ok (nth j (nth i t []) dflt).
Proof.
  intros T dflt K S t st HKS Hwf Habs b.
  destruct (scoring_view_desc K S t) as (A & _ & B & C & _ & D).
  split; [exact A|]. split; [exact B|]. split; [exact C|]. split; [exact D|].
  intros i j Hi Hj. exact (scoring_view_cell dflt K S t st i j HKS Hwf Habs Hi Hj).
Qed.

(* StripedSequence: after stripe() and ANY sequence of calculate() calls (motif widths Ms)
   the reconfiguration never panics, and a view taken then has shape (C, R) and element
   [c][r] is the symbol at position c*R+r — row r < R of the matrix (never a look-ahead
   row), column c < C — whatever the storage's padding holds. *)
Theorem C18_striped_view_addresses_logical :
  forall (T : Type) (dflt : T) C S R L (pos : list T) (Ms : list nat),
    1 <= C -> C <= S ->
    exists s, configure_all dflt C Ms (striped_new C S (striped_table dflt C R pos) L) = Ok s /\
    let b := striped_getbuffer s in
    mv_shape b = [Z.of_nat C; Z.of_nat R] /\ pb_itemsize b = 1%Z /\ pb_format b = FmtB /\
    pb_len b = (Z.of_nat C * Z.of_nat R)%Z /\
    forall (st : @storage T), s_wf C S st -> abs st = ss_tab s ->
    forall c r, c < C -> r < R ->
      dotZ [Z.of_nat c; Z.of_nat r] (mv_strides b) = (1 * Z.of_nat (r * S + c))%Z /\
      r * S + c < length (ravel st) /\
      mv_get (ravel st) 1 b [Z.of_nat c; Z.of_nat r] = Ok (nth (c * R + r) pos dflt).
Proof.
  intros T dflt C S R L pos Ms HC HCS.
  destruct (configure_all_inv dflt C S HC R pos Ms _ (striped_new_inv dflt C S R pos L)) as (s & E & Hinv).
  exists s. split; auto. intros b.
  destruct (striped_view_desc dflt C S R pos s Hinv) as (A & _ & B & D & _ & F).
  split; [exact A|]. split; [exact B|]. split; [exact D|]. split; [exact F|].
  intros st Hswf Habs c r Hc Hr. exact (striped_view_cell dflt C S HC R pos s st c r HCS Hinv Hswf Habs Hc Hr).
Qed.

(* StripedScores returned by calculate(): shape (C, rows), element [c][r] is the score of
   position c*rows+r, at byte 4*(r*S+c) of the allocation. *)
Theorem C18_scores_view_addresses_logical :
  forall (T : Type) (dflt : T) C S R L M (pos : list T), 1 <= M -> L <= R * C -> C <= S ->
    let s := scores_of dflt C S R L M pos in
    let R' := if (L <? M) || (R =? 0) then 0 else R in
    let b := scores_getbuffer s in
    mv_shape b = [Z.of_nat C; Z.of_nat R'] /\ pb_itemsize b = 4%Z /\ pb_format b = Fmtf /\
    pb_len b = (Z.of_nat C * Z.of_nat R' * 4)%Z /\
    forall (st : @storage T), s_wf C S st -> abs st = sc_tab s ->
    forall c r, c < C -> r < R' ->
      dotZ [Z.of_nat c; Z.of_nat r] (mv_strides b) = (4 * Z.of_nat (r * S + c))%Z /\
      r * S + c < length (ravel st) /\
      mv_get (ravel st) 4 b [Z.of_nat c; Z.of_nat r] = Ok (nth (c * R' + r) pos dflt).
Proof.
  intros T dflt C S R L M pos HM HL HCS s R' b.
  destruct (scores_of_inv dflt C S R L M pos HM HL) as (Ht & Hm & Hmax & Hsh & Hst).
  fold s in Ht, Hsh, Hst. fold R' in Ht, Hsh.
  assert (Hshape : mv_shape b = [Z.of_nat C; Z.of_nat R']).
  { unfold b, mv_shape, scores_getbuffer. cbn [pb_shape]. rewrite Hsh. reflexivity. }
  assert (Hlen : pb_len b = (Z.of_nat C * Z.of_nat R' * 4)%Z).
  { unfold b, scores_getbuffer. cbn [pb_len]. rewrite Hsh. reflexivity. }
  split; [exact Hshape|]. split; [reflexivity|]. split; [reflexivity|]. split; [exact Hlen|].
  intros st Hswf Habs c r Hc Hr. exact (scores_view_cell dflt C S R' pos s st c r HCS Ht Hst Hswf Habs Hc Hr).
Qed.

(* EncodedSequence / ScoreDistribution: 1-D views over the vector itself *)
Theorem C18_vector_views :
  forall (T : Type) (dflt : T) (l : list T),
    mv_shape (enc_getbuffer l) = [Z.of_nat (length l)] /\ pb_format (enc_getbuffer l) = FmtB /\
    mv_shape (dist_getbuffer l) = [Z.of_nat (length l)] /\ pb_format (dist_getbuffer l) = Fmtd /\
    forall i, i < length l ->
      mv_get l 1 (enc_getbuffer l) [Z.of_nat i] = Ok (nth i l dflt) /\
      mv_get l 8 (dist_getbuffer l) [Z.of_nat i] = Ok (nth i l dflt).
Proof.
  intros T dflt l.
  split; [exact (proj1 (enc_view_desc l))|]. split; [reflexivity|].
  split; [exact (proj1 (dist_view_desc l))|]. split; [reflexivity|].
  intros i Hi. split; [exact (enc_view_cell dflt l i Hi) | exact (dist_view_cell dflt l i Hi)].
Qed.

(* ---------- the model against the source text (translator tie) ---------- *)

(* GenSlots.v is re-extracted from lib.rs on every run: which classes define __len__ /
   __getitem__ / __getbuffer__ (none outside the model), the format literal, ndim, itemsize
   type and NULL-ness of shape/strides of every __getbuffer__, and the shape / strides
   arrays cached by the three constructors; readonly / suboffsets / internal / view.obj, the
   WRITABLE and NULL-view guards of every __getbuffer__ and that no class has a
   __releasebuffer__; DEFAULT_EXTRA_ROWS, the row alignment and the lane count of the core
   crate.  The hand-written model agrees with all of it. *)
Theorem C18_model_matches_source :
  (forall k, has_index k = gen_has_len k /\ has_index k = gen_has_getitem k /\
             model_getbuffer k = gen_getbuffer k /\ model_getbuffer_misc k = gen_getbuffer_misc k) /\
  gen_unmodelled_slots = 0 /\ gen_releasebuffer_classes = 0 /\
  DEFAULT_EXTRA_ROWS = gen_extra_rows /\ ROW_ALIGN = gen_row_align /\ LANES = gen_lanes /\
  (forall (T : Type) K S (t : list (list T)),
     sm_shape (scoring_new K S t) = gen_scoring_shape (Z.of_nat (length t)) (Z.of_nat K) (Z.of_nat S) /\
     sm_strides (scoring_new K S t) = gen_scoring_strides (Z.of_nat (length t)) (Z.of_nat K) (Z.of_nat S)) /\
  (forall (T : Type) C S (t : list (list T)) L,
     ss_shape (striped_new C S t L) = gen_striped_shape (Z.of_nat (length t)) (Z.of_nat C) (Z.of_nat S) /\
     ss_strides (striped_new C S t L) = gen_striped_strides (Z.of_nat (length t)) (Z.of_nat C) (Z.of_nat S)) /\
  (forall (T : Type) C S (t : list (list T)) maxi,
     sc_shape (scores_new C S t maxi) = gen_scores_shape (Z.of_nat (length t)) (Z.of_nat C) (Z.of_nat S) /\
     sc_strides (scores_new C S t maxi) = gen_scores_strides (Z.of_nat (length t)) (Z.of_nat C) (Z.of_nat S)).
Proof.
  split; [intros k; destruct k; repeat split; reflexivity|].
  do 5 (split; [reflexivity|]).
  split; [|split]; intros;
    unfold gen_scoring_shape, gen_scoring_strides, gen_striped_shape, gen_striped_strides,
           gen_scores_shape, gen_scores_strides, scoring_new, striped_new, scores_new;
    cbn [sm_shape sm_strides ss_shape ss_strides sc_shape sc_strides];
    split; f_equal; lia.
Qed.

(* ---------- buffer requests with explicit flags ---------- *)

(* PyObject_GetBuffer(obj, &view, flags) on any object of any exporting class, any history:
   a request with the PyBUF_WRITABLE bit is refused with BufferError (never granted, never a
   panic), every other request — with or without PyBUF_FORMAT / ND / STRIDES / *_CONTIGUOUS /
   INDIRECT — is answered with one and the same read-only Py_buffer, the one the view
   theorems above are about (so they hold for every consumer, not only memoryview). *)
Theorem C18_buffer_requests :
  forall (T : Type) (dflt : T) (o : @lobj T) wraps L M (flags : Z) (b : pybuf),
    model_buf dflt o wraps L M = Ok b ->
    pb_readonly b = true /\
    (Z.land flags 1 = 1%Z -> model_request dflt o wraps L M flags = Err EBuffer) /\
    (Z.land flags 1 = 0%Z -> model_request dflt o wraps L M flags = Ok b).
Proof. intros T dflt o wraps L M flags b. exact (model_request_cases dflt o wraps L M flags b). Qed.

(* the two cases are exhaustive *)
Example C18_flags_exhaustive : forall flags, (Z.land flags 1 = 0 \/ Z.land flags 1 = 1)%Z.
Proof. exact land1_cases. Qed.

(* ---------- views that outlive a reconfiguration (known finding F24) ---------- *)

(* A view of a StripedSequence stays valid across calculate() calls as long as the motifs
   need no more rows than the capacity stripe() reserved (rows+32 on the AVX2 arm,
   2*rows+64 on the generic arm): the Vec is resized in place, the exported pointer still
   is the buffer. *)
Theorem C18_view_valid_within_capacity :
  forall avx2 R before after,
    (forall M, In M after -> R + (M - 1) <= va_cap (stripe_alloc avx2 R)) ->
    view_dangling avx2 R before after = false.
Proof. exact view_valid_within_capacity. Qed.

(* Current tree: beyond that capacity the buffer is reallocated and a view exported before
   the call keeps the old pointer — "views taken before and after the object is reused"
   does NOT hold for a view that is still exported during the reuse.  Witness: 2 sequence
   rows (64 symbols), a motif of 120 rows, either arm (the harness observes the move on the
   implementation: cases cls=alloc and the probe pyharness/py/c18_stale.py). *)
Theorem C18_stale_view_refuted :
  exists R M, view_dangling true R [] [M] = true /\ view_dangling false R [] [M] = true.
Proof. exists 2, 120. vm_compute. split; reflexivity. Qed.

(* Content of a view that is STILL EXPORTED while the sequence is reused (review finding C18-2).
   For any history [before] at whose end the view is exported and any later history [after]:
   the descriptor handed out at export time is the descriptor of the reconfigured object (shape
   and strides are cached at construction: this holds for EVERY history, with or without a
   reallocation); and when the motifs of [after] need no more rows than the capacity stripe()
   reserved, the pointer still designates the live buffer (view_dangling = false) and the OLD
   descriptor, read against ANY storage of the reconfigured object (look-ahead rows added,
   padding arbitrary), yields exactly the logical symbols: element [c][r] = symbol c*R+r.
   (Same allocation id = the bytes the exported pointer designates are the current buffer of
   the Vec, rows at the same offsets r*S: Vec::resize_with within capacity works in place.) *)
Theorem C18_stale_view_reads_logical_within_capacity :
  forall (T : Type) (dflt : T) C S R L (pos : list T) (avx2 : bool) (before after : list nat),
    1 <= C -> C <= S ->
    (forall M, In M after -> R + (M - 1) <= va_cap (stripe_alloc avx2 R)) ->
    view_dangling avx2 R before after = false /\
    exists s1 s2,
      configure_all dflt C before (striped_new C S (striped_table dflt C R pos) L) = Ok s1 /\
      configure_all dflt C after s1 = Ok s2 /\
      configure_all dflt C (before ++ after) (striped_new C S (striped_table dflt C R pos) L) = Ok s2 /\
      striped_getbuffer s1 = striped_getbuffer s2 /\
      forall (st : @storage T), s_wf C S st -> abs st = ss_tab s2 ->
      forall c r, c < C -> r < R ->
        mv_get (ravel st) 1 (striped_getbuffer s1) [Z.of_nat c; Z.of_nat r] = Ok (nth (c * R + r) pos dflt).
Proof.
  intros T dflt C S R L pos avx2 before after HC HCS Hcap.
  split; [exact (view_valid_within_capacity avx2 R before after Hcap)|].
  exact (stale_view_reads_logical dflt C S HC R L pos before after HCS).
Qed.

(* The descriptor never changes, whatever the history (so a stale view that dangles - F24,
   C18_stale_view_refuted - still CLAIMS the same shape and strides over freed memory). *)
Theorem C18_descriptor_is_history_independent :
  forall (T : Type) (dflt : T) C (Ms : list nat) (s s' : @py_striped T),
    configure_all dflt C Ms s = Ok s' -> striped_getbuffer s' = striped_getbuffer s.
Proof. intros T dflt C Ms s s'. exact (configure_all_desc dflt C Ms s s'). Qed.

(* The verdict on a cls=alloc observation (buffer address before / after every calculate() while a
   view stays exported) is the extracted check_alloc: it accepts exactly the observations in which
   the buffer of a non-empty sequence never moves; the model predicts no move at any step of a
   history that stays within the capacity reserved by stripe(), and a move beyond it (F24:
   C18_stale_view_refuted), which check_alloc rejects. *)
Theorem C18_check_alloc_sound_complete :
  forall R moves, check_alloc R moves = true <-> alloc_ok R moves.
Proof. exact check_alloc_iff. Qed.

Theorem C18_alloc_model_within_capacity :
  forall avx2 R before ms,
    (forall M, In M ms -> R + (M - 1) <= va_cap (stripe_alloc avx2 R)) ->
    Forall (fun b => b = false) (model_moves avx2 R before ms) /\
    check_alloc R (map (fun b => Some b) (model_moves avx2 R before ms)) = true.
Proof.
  intros avx2 R before ms H.
  pose proof (model_moves_within_capacity avx2 R ms before H) as F. split; [exact F|].
  apply check_alloc_iff. right. intros k Hk.
  rewrite nth_error_map in Hk. destruct (nth_error (model_moves avx2 R before ms) k) as [b|] eqn:E; [|discriminate].
  rewrite Forall_forall in F. rewrite (F b (nth_error_In _ _ E)) in Hk. discriminate.
Qed.

Example C18_check_alloc_rejects_F24 :
  model_moves true 2 [] [3; 120] = [false; true] /\
  check_alloc 2 (map (fun b => Some b) (model_moves true 2 [] [3; 120])) = false /\
  alloc_steps 0 (model_moves true 2 [] [3; 120]) [Some false; Some true] = ([1], []) /\
  alloc_steps 0 (model_moves true 2 [] [3; 120]) [Some true; None] = ([], [0]).
Proof. vm_compute. repeat split; reflexivity. Qed.

(* The reference (logical) object handed over by the harness is checked for well-formedness by
   the extracted lobj_wfb before anything is compared with it (hypothesis lobj_wf of the theorems
   about check_C18 / model_obs): it decides lobj_wf. *)
Theorem C18_reference_object_wf_decided :
  forall (T : Type) (o : @lobj T), lobj_wfb o = true <-> lobj_wf o.
Proof. intros T o. exact (lobj_wfb_iff o). Qed.

(* The cells of a StripedScores view past len() (review finding C18-1).  The view has the shape
   (C, R) of the whole striped score matrix: R*C cells in position order p = c*R + r, while
   len() = L+1-M.  For the logical scoring function [score] of the case (score p = the score of
   the window of M symbols at position p of the sequence continued with the wildcard symbol;
   the score C01 defines when p + M <= L):
   - EVERY cell [c][r] of the view holds score (c*R+r): no uninitialised or foreign memory;
   - the cells with c*R+r < len() are the logical scores: the value obj[c*R+r] returns, window
     inside the sequence;
   - the cells with c*R+r >= len() are NOT logical scores: obj[c*R+r] raises IndexError, their
     window reads at least one position >= L (wildcard continuation / look-ahead rows), and
     there are exactly R*C - len() of them (at least M-1). *)
Theorem C18_scores_view_cells_named :
  forall (T : Type) (dflt : T) (score : nat -> T) C S R L M,
    1 <= M -> M <= L -> L <= R * C -> C <= S -> (Z.of_nat (R * C) <= ssize_max)%Z ->
    let s := scores_of dflt C S R L M (scores_pos score C R) in
    let b := scores_getbuffer s in
    scores_len s = Z.of_nat (L + 1 - M) /\
    length (filter (fun p => L + 1 - M <=? p) (seq 0 (R * C))) = R * C - (L + 1 - M) /\
    forall (st : @storage T), s_wf C S st -> abs st = sc_tab s ->
    forall c r, c < C -> r < R ->
      let p := c * R + r in
      mv_get (ravel st) 4 b [Z.of_nat c; Z.of_nat r] = Ok (score p) /\
      (p < L + 1 - M -> scores_getitem s (Z.of_nat p) = Ok (score p) /\ p + M <= L) /\
      (L + 1 - M <= p -> scores_getitem s (Z.of_nat p) = Err EIndex /\ L < p + M).
Proof.
  intros T dflt score C S R L M HM HML HL HCS Hss s b.
  destruct (scores_cells_named dflt score C S R L M HM HML HL HCS Hss) as [A B].
  split; [exact A|]. split; [exact (scores_cells_beyond_count C R L M HM HML HL)|exact B].
Qed.

(* non-vacuity: 40 symbols in 2 rows of 32 columns, a motif of 5 rows: len() = 36, the view has
   64 cells, 28 of them past len() *)
Example C18_scores_cells_example :
  let s := scores_of 0 32 32 2 40 5 (scores_pos (fun p => p) 32 2) in
  scores_len s = 36%Z /\
  scores_getitem s 35 = Ok 35 /\ scores_getitem s 36 = Err EIndex /\
  length (filter (fun p => 40 + 1 - 5 <=? p) (seq 0 (2 * 32))) = 28.
Proof. vm_compute. repeat split; reflexivity. Qed.

(* ---------- the checker used on the implementation's observations ---------- *)

(* whatever check_C18 accepts satisfies the property (lengths, every index outcome,
   item format, shape, addresses of all elements, contents) *)
Theorem check_C18_sound :
  forall (T : Type) (dflt : T) (eqT : T -> T -> bool),
    (forall x y, eqT x y = true -> x = y) ->
    forall (o : @lobj T) (ob : @obs T), check_C18 dflt eqT o ob = true -> Holds_C18 dflt o ob.
Proof. intros T dflt eqT H o ob. exact (check_C18_sound_lemma dflt eqT H o ob). Qed.

(* The property for the model of lib.rs, in executable form: for every well-formed logical
   object of every class (StripedScores below), every list of integer indices
   and every history of reconfigurations, the observation the model predicts is accepted by
   the checker — hence (check_C18_sound) satisfies Holds_C18: right length, every index
   outcome, item format, shape, the address of every element, contents. *)
Theorem C18_model_passes :
  forall (T : Type) (dflt : T) (eqT : T -> T -> bool) (poison : T),
    (forall x, eqT x x = true) ->
    forall (o : @lobj T) idxs wraps L M,
      lobj_wf o -> (llen o <= ssize_max)%Z -> lkind o <> KScores ->
      check_C18 dflt eqT o (model_obs dflt poison o idxs wraps L M) = true.
Proof. intros T dflt eqT poison H o idxs wraps L M. exact (model_passes_lemma dflt eqT H poison o idxs wraps L M). Qed.

(* StripedScores: the object calculate() returns for L symbols and a motif of M >= 1 rows *)
Theorem C18_model_passes_scores :
  forall (T : Type) (dflt : T) (eqT : T -> T -> bool) (poison : T),
    (forall x, eqT x x = true) ->
    forall L M (pos : list T) idxs wraps,
      1 <= M -> (Z.of_nat L <= ssize_max)%Z ->
      check_C18 dflt eqT (scores_lobj L M pos) (model_obs dflt poison (scores_lobj L M pos) idxs wraps L M) = true.
Proof. intros T dflt eqT poison H L M pos idxs wraps. exact (model_passes_scores_lemma dflt eqT H poison L M pos idxs wraps). Qed.

(* and an accepted view shows no padding or foreign memory: every element's address is
   that of a cell (r, c) with r < rows and c < columns of the dense matrix *)
Theorem C18_view_no_padding :
  forall (T : Type) (dflt : T) (o : @lobj T) (v : @vobs T) idx,
    lobj_wf o -> view_spec dflt o v -> In idx (idx_range (lshape o)) ->
    exists r c, dotZ (map Z.of_nat idx) (vo_strides v) =
                (Z.of_nat (ksize (lkind o)) * Z.of_nat (r * lstride o + c))%Z /\
                r < lrows o /\ c < lcols o /\ (r, c) = lcoord o idx.
Proof. intros T dflt o v idx. exact (view_spec_no_padding dflt o v idx). Qed.

(* ... and, whatever the padding of the backing storage holds, the element the view shows
   at [idx] is the logical cell (row r, column c) it stands for: the address condition of
   the checker alone pins the contents (so an implementation that passes the checker on
   one run cannot be showing padding that happened to hold the right values). *)
Theorem C18_accepted_view_reads_logical :
  forall (T : Type) (dflt : T) (o : @lobj T) (v : @vobs T) (st : @storage T) idx,
    lobj_wf o -> lcols o <= lstride o ->
    s_wf (lcols o) (lstride o) st -> abs st = ltable dflt o ->
    view_spec dflt o v -> In idx (idx_range (lshape o)) ->
    exists r c,
      (r, c) = lcoord o idx /\ r < lrows o /\ c < lcols o /\
      dotZ (map Z.of_nat idx) (vo_strides v) = (Z.of_nat (ksize (lkind o)) * Z.of_nat (r * lstride o + c))%Z /\
      r * lstride o + c < length (ravel st) /\
      nth (r * lstride o + c) (ravel st) dflt = nth c (nth r (ltable dflt o) []) dflt.
Proof. intros T dflt o v st idx. exact (accepted_view_reads_logical dflt o v st idx). Qed.

(* ---------- non-vacuity ---------- *)

(* the strides the theorems are instantiated with on x86-64 (coq/dense, C19_stride_spec):
   5 and 21 columns of f32 have padded rows, 32 columns of u8 / f32 have none *)
Example C18_strides :
  (dense_stride 4 5, dense_stride 4 21, dense_stride 1 32, dense_stride 4 32) = (8, 24, 32, 32).
Proof. vm_compute. reflexivity. Qed.

(* a ScoringMatrix view really skips padding: with the as-coded descriptor the model reads
   the table; with the padded stride used as the column count it would show the poison *)
Example C18_scoring_view_example :
  let t := [[1; 2; 3; 4; 5]; [6; 7; 8; 9; 10]]%Z in
  o_view (model_obs 0%Z (-1)%Z (LRows KScoring 5 t) [] [] 0 0) =
  OVal {| vo_shape := [2; 5]%Z; vo_strides := [32; 4]%Z; vo_itemsize := 4; vo_format := 1;
          vo_ndim := 2; vo_nbytes := 40; vo_readonly := true; vo_tolist := t;
          vo_bytes := concat t |} /\
  check_C18 0%Z Z.eqb (LRows KScoring 5 t) (model_obs 0%Z (-1)%Z (LRows KScoring 5 t) [(-3); (-2); 1; 2]%Z [] 0 0) = true.
Proof. vm_compute. split; reflexivity. Qed.

(* the checker rejects a view that exposes the padded stride as column count *)
Example C18_checker_rejects_padding :
  let t := [[1; 2; 3; 4; 5]; [6; 7; 8; 9; 10]]%Z in
  check_view 0%Z Z.eqb (LRows KScoring 5 t)
    (OVal {| vo_shape := [2; 8]%Z; vo_strides := [32; 4]%Z; vo_itemsize := 4; vo_format := 1;
             vo_ndim := 2; vo_nbytes := 64; vo_readonly := true;
             vo_tolist := [[1; 2; 3; 4; 5; 0; 0; 0]; [6; 7; 8; 9; 10; 0; 0; 0]]%Z;
             vo_bytes := [1; 2; 3; 4; 5; 0; 0; 0; 6; 7; 8; 9; 10; 0; 0; 0]%Z |}) = false.
Proof. vm_compute. reflexivity. Qed.

(* a striped sequence reused for motifs of widths 3, 1 and 40: the view keeps its shape *)
Example C18_striped_history_example :
  let pos := map Z.of_nat (seq 0 64) in
  check_C18 4%Z Z.eqb (LStriped KStriped 2 pos 0) (model_obs 4%Z (-1)%Z (LStriped KStriped 2 pos 0) [] [3; 1; 40] 40 0) = true.
Proof. vm_compute. reflexivity. Qed.

(* the hypotheses of C18_accepted_view_reads_logical are met: every well-formed logical
   object has a storage (here: padding full of poison) on the x86-64 strides *)
Example C18_storage_exists :
  forall (T : Type) (dflt poison : T) (o : @lobj T), lobj_wf o ->
    lcols o <= lstride o /\
    s_wf (lcols o) (lstride o) (canon (lcols o) (lstride o) poison (ltable dflt o)) /\
    abs (canon (lcols o) (lstride o) poison (ltable dflt o)) = ltable dflt o.
Proof.
  intros T dflt poison o Hwf.
  assert (H : lcols o <= lstride o).
  { destruct o as [k l|k K t|k R pos maxi]; cbn [lcols lstride lkind]; auto;
      apply dense_stride_ge; destruct k; cbn; lia. }
  split; auto. split; [|apply canon_abs].
  apply canon_wf; auto.
  destruct o as [k l|k K t|k R pos maxi]; cbn [ltable lcols].
  - constructor; auto.
  - exact (proj2 Hwf).
  - apply striped_table_wf.
Qed.

Check C18_getitem_spec :
  forall (T : Type) (dflt : T) (i : Z),
  (forall d : list T, (enc_len d <= ssize_max)%Z ->
     index_spec (enc_len d) (fun k => VElem (nth k d dflt)) i (out_of_res VElem (enc_getitem d i))) /\
  (forall t : list (list T), (mat_len t <= ssize_max)%Z ->
     index_spec (mat_len t) (fun k => VRow (nth k t [])) i (out_of_res VRow (mat_getitem t i))) /\
  (forall C S R L M pos, 1 <= M -> L <= R * C -> (Z.of_nat L <= ssize_max)%Z ->
     let s := scores_of dflt C S R L M pos in
     index_spec (scores_len s) (fun k => VElem (nth k pos dflt)) i (out_of_res VElem (scores_getitem s i))).
Check check_C18_sound :
  forall (T : Type) (dflt : T) (eqT : T -> T -> bool),
    (forall x y, eqT x y = true -> x = y) ->
    forall (o : @lobj T) (ob : @obs T), check_C18 dflt eqT o ob = true -> Holds_C18 dflt o ob.
