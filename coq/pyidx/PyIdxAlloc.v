(* The cls=alloc observation (a view of a StripedSequence stays exported while calculate() is
   called on the sequence): the property it must satisfy, the extracted checker that decides it,
   and what the allocation model of PyIdxModel.v (vec_resize / stripe_alloc) predicts for it.
   Executable definitions and the specification only; lemmas in PyIdxReuse.v. *)
From Coq Require Import List Arith Bool.
From LMPyIdx Require Import PyIdxModel PyIdxSpec.
Import ListNotations.

(* per calculate() of the history: Some true = __getbuffer__ hands out another address than
   before the call (the buffer moved), Some false = the same address, None = not observable *)
Definition alloc_obs := list (option bool).

(* The exported view holds the address of the buffer at export time and nothing pins it
   (PyIdxModel: view_dangling).  "With no foreign memory visible" therefore demands that the
   buffer of a non-empty sequence NEVER moves while the view is exported. *)
Definition alloc_ok (R : nat) (moves : alloc_obs) : Prop :=
  R = 0 \/ forall k, nth_error moves k <> Some (Some true).

Definition is_move (m : option bool) : bool := match m with Some true => true | _ => false end.

Definition check_alloc (R : nat) (moves : alloc_obs) : bool :=
  (R =? 0) || negb (existsb is_move moves).

(* the model's prediction: does step k (calculate with a motif of M rows after [before]) move the buffer *)
Fixpoint model_moves (avx2 : bool) (R : nat) (before ms : list nat) : list bool :=
  match ms with
  | [] => []
  | M :: rest => view_dangling avx2 R before [M] :: model_moves avx2 R (before ++ [M]) rest
  end.

(* steps (0-based) at which a move was observed, split by what the model says about that step *)
Fixpoint alloc_steps (k : nat) (pred : list bool) (moves : alloc_obs) : list nat * list nat :=
  match pred, moves with
  | p :: pred', m :: moves' =>
      let (exp, unexp) := alloc_steps (S k) pred' moves' in
      if is_move m then (if p then (k :: exp, unexp) else (exp, k :: unexp)) else (exp, unexp)
  | _, _ => ([], [])
  end.

(* ---------- well-formedness of the logical (reference) object, decided ----------
   The logical object of a case is computed by the Python harness from the constructor inputs;
   the theorems about check_C18 / model_obs assume lobj_wf.  The driver refuses (DIFF) a reference
   object that is not well formed instead of checking against it. *)
Section WfB.
  Context {T : Type}.
  Definition lobj_wfb (o : @lobj T) : bool :=
    match o with
    | LSeq k _ => kind_eqb k KEnc || kind_eqb k KDist
    | LRows k K t =>
        (kind_eqb k KCount || kind_eqb k KWeight || kind_eqb k KScoring) &&
        forallb (fun r => length r =? K) t
    | LStriped k R pos maxi =>
        (kind_eqb k KStriped || kind_eqb k KScores) && (length pos =? R * LANES) && (maxi <=? R * LANES)
    end.
End WfB.
