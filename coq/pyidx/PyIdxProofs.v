(* Lemmas about the model of lightmotif-py's indexing and buffer glue. *)
From Coq Require Import List Arith ZArith Bool Lia.
From LMBase Require Import Res ListX.
From LMDense Require Import DenseModel DenseProofs.
From LMPyIdx Require Import PyIdxModel PyIdxSpec.
Import ListNotations.

(* ---------- isize ---------- *)
Lemma in_ssize_iff i : in_ssize i = true <-> (ssize_min <= i <= ssize_max)%Z.
Proof. unfold in_ssize. rewrite andb_true_iff, !Z.leb_le. tauto. Qed.

Lemma in_ssize_false i : in_ssize i = false <-> (i < ssize_min \/ ssize_max < i)%Z.
Proof.
  unfold in_ssize. rewrite andb_false_iff, !Z.leb_gt. tauto.
Qed.

(* The three normalisations compute the same function: Python's sequence index rule. *)
Definition py_index (n i : Z) : res Z :=
  if ((0 <=? i) && (i <? n))%Z then Ok i
  else if ((- n <=? i) && (i <? 0))%Z then Ok (i + n)%Z
  else Err EIndex.

Lemma py_index_cases n i : (0 <= n)%Z ->
  ((0 <= i < n)%Z /\ py_index n i = Ok i) \/
  ((- n <= i < 0)%Z /\ py_index n i = Ok (i + n)%Z) \/
  ((i < - n \/ n <= i)%Z /\ py_index n i = Err EIndex).
Proof.
  intros Hn. unfold py_index.
  destruct (0 <=? i)%Z eqn:A; destruct (i <? n)%Z eqn:B; simpl;
    destruct (- n <=? i)%Z eqn:C; destruct (i <? 0)%Z eqn:D; simpl;
    rewrite ?Z.leb_le, ?Z.leb_gt, ?Z.ltb_lt, ?Z.ltb_ge in *; try lia; auto.
  all: try (right; right; split; [lia | reflexivity]).
  all: try (right; left; split; [lia | reflexivity]).
  all: try (left; split; [lia | reflexivity]).
Qed.

Lemma py_index_outside n i : (0 <= n <= ssize_max)%Z -> in_ssize i = false -> py_index n i = Err EIndex.
Proof.
  intros Hn Hi. apply in_ssize_false in Hi. unfold ssize_min, ssize_max in *.
  destruct (py_index_cases n i) as [[H E]|[[H E]|[H E]]]; try lia; auto.
Qed.

Lemma norm_common (n i : Z) :
  (0 <= n <= ssize_max)%Z -> in_ssize i = true ->
  (i1 <- (if (i <? 0)%Z then isize_add i n else Ok i) ;;
   if (i1 <? 0)%Z || (n <=? i1)%Z then Err EIndex else Ok i1) = py_index n i.
Proof.
  intros Hn Hi. apply in_ssize_iff in Hi. unfold py_index, isize_add, ssize_min, ssize_max in *.
  destruct (i <? 0)%Z eqn:A; rewrite ?Z.ltb_lt, ?Z.ltb_ge in A.
  - assert (S : in_ssize (i + n) = true) by (apply in_ssize_iff; unfold ssize_min, ssize_max; lia).
    rewrite S. cbn [rbind].
    replace (0 <=? i)%Z with false by (symmetry; apply Z.leb_gt; lia). cbn [andb].
    destruct (i + n <? 0)%Z eqn:B; rewrite ?Z.ltb_lt, ?Z.ltb_ge in B.
    + cbn [orb]. replace (- n <=? i)%Z with false by (symmetry; apply Z.leb_gt; lia). reflexivity.
    + cbn [orb]. replace (n <=? i + n)%Z with false by (symmetry; apply Z.leb_gt; lia).
      replace (- n <=? i)%Z with true by (symmetry; apply Z.leb_le; lia).
      replace (i <? 0)%Z with true by (symmetry; apply Z.ltb_lt; lia). reflexivity.
  - cbn [rbind]. replace (i <? 0)%Z with false by (symmetry; apply Z.ltb_ge; lia). cbn [orb].
    replace (0 <=? i)%Z with true by (symmetry; apply Z.leb_le; lia). cbn [andb].
    destruct (i <? n)%Z eqn:B; rewrite ?Z.ltb_lt, ?Z.ltb_ge in B.
    + replace (n <=? i)%Z with false by (symmetry; apply Z.leb_gt; lia). reflexivity.
    + replace (n <=? i)%Z with true by (symmetry; apply Z.leb_le; lia).
      rewrite andb_false_r. reflexivity.
Qed.

Lemma enc_norm_spec n i : (0 <= n <= ssize_max)%Z -> in_ssize i = true -> enc_norm n i = py_index n i.
Proof. intros; unfold enc_norm; apply norm_common; auto. Qed.

Lemma mat_norm_spec n i : (0 <= n <= ssize_max)%Z -> in_ssize i = true -> mat_norm n i = py_index n i.
Proof. intros; unfold mat_norm; apply norm_common; auto. Qed.

Lemma sc_norm_spec n i : (0 <= n <= ssize_max)%Z -> in_ssize i = true -> sc_norm n i = py_index n i.
Proof.
  intros Hn Hi. unfold sc_norm. rewrite <- (norm_common n i Hn Hi).
  destruct (if (i <? 0)%Z then isize_add i n else Ok i); cbn [rbind]; auto.
  destruct (a <? n)%Z eqn:A; destruct (0 <=? a)%Z eqn:B; destruct (a <? 0)%Z eqn:C; destruct (n <=? a)%Z eqn:D;
    rewrite ?Z.leb_le, ?Z.leb_gt, ?Z.ltb_lt, ?Z.ltb_ge in *; simpl; auto; lia.
Qed.

Lemma nth_map_seq {A} (f : nat -> A) n i d : i < n -> nth i (map f (seq 0 n)) d = f i.
Proof.
  intros H. rewrite (nth_indep _ d (f 0)) by (rewrite map_length, seq_length; auto).
  rewrite map_nth. rewrite seq_nth by auto. reflexivity.
Qed.

(* ---------- core indexers ---------- *)
Section Elem.
  Context {T : Type}.
  Variable dflt : T.
  Notation table := (list (list T)).

  Lemma vec_get_lt (l : list T) i : i < length l -> vec_get l i = Ok (nth i l dflt).
  Proof.
    intros H. unfold vec_get. destruct (nth_error l i) eqn:E.
    - f_equal. symmetry. apply nth_error_nth. auto.
    - apply nth_error_None in E. lia.
  Qed.

  Lemma mat_row_lt (t : table) r : r < length t -> mat_row t r = Ok (nth r t []).
  Proof.
    intros H. unfold mat_row. destruct (nth_error t r) eqn:E.
    - f_equal. symmetry. apply nth_error_nth. auto.
    - apply nth_error_None in E. lia.
  Qed.

  (* ---------- EncodedSequence ---------- *)
  Lemma enc_getitem_py (d : list T) i :
    (enc_len d <= ssize_max)%Z ->
    enc_getitem d i = (j <- py_index (enc_len d) i ;; Ok (nth (Z.to_nat j) d dflt)).
  Proof.
    intros Hn. unfold enc_getitem, extract_isize. destruct (in_ssize i) eqn:Hi; cbn [rbind].
    2:{ rewrite py_index_outside; auto. unfold enc_len in *; lia. }
    rewrite enc_norm_spec by (unfold enc_len in *; lia || auto).
    destruct (py_index_cases (enc_len d) i) as [[H E]|[[H E]|[H E]]]; try (unfold enc_len; lia);
      rewrite E; cbn [rbind]; auto; apply vec_get_lt; unfold enc_len in *; lia.
  Qed.

  (* ---------- matrices ---------- *)
  Lemma mat_getitem_py (t : table) i :
    (mat_len t <= ssize_max)%Z ->
    mat_getitem t i = (j <- py_index (mat_len t) i ;; Ok (nth (Z.to_nat j) t [])).
  Proof.
    intros Hn. unfold mat_getitem, extract_isize. destruct (in_ssize i) eqn:Hi; cbn [rbind].
    2:{ rewrite py_index_outside; auto. unfold mat_len in *; lia. }
    rewrite mat_norm_spec by (unfold mat_len in *; lia || auto).
    destruct (py_index_cases (mat_len t) i) as [[H E]|[[H E]|[H E]]]; try (unfold mat_len; lia);
      rewrite E; cbn [rbind]; auto; apply mat_row_lt; unfold mat_len in *; lia.
  Qed.

  (* ---------- striped tables ---------- *)
  Lemma striped_table_length C R pos : length (striped_table dflt C R pos) = R.
  Proof. unfold striped_table. rewrite map_length, seq_length. reflexivity. Qed.

  Lemma striped_table_row C R pos r : r < R ->
    nth r (striped_table dflt C R pos) [] = map (fun c => nth (c * R + r) pos dflt) (seq 0 C).
  Proof.
    intros H. unfold striped_table. rewrite nth_map_seq by auto. reflexivity.
  Qed.

  Lemma striped_table_row_length C R pos r : r < R -> length (nth r (striped_table dflt C R pos) []) = C.
  Proof. intros H. rewrite striped_table_row by auto. rewrite map_length, seq_length. reflexivity. Qed.

  Lemma striped_table_cell C R pos r c : r < R -> c < C ->
    nth c (nth r (striped_table dflt C R pos) []) dflt = nth (c * R + r) pos dflt.
  Proof.
    intros Hr Hc. rewrite striped_table_row by auto. rewrite nth_map_seq by auto. reflexivity.
  Qed.

  Lemma striped_table_wf C R pos : Forall (fun r => length r = C) (striped_table dflt C R pos).
  Proof.
    unfold striped_table. apply Forall_forall. intros x Hx. apply in_map_iff in Hx.
    destruct Hx as [r [E _]]. subst x. rewrite map_length, seq_length. reflexivity.
  Qed.

  (* ---------- StripedScores ---------- *)
  Lemma scores_index_spec C R pos i : i < R * C ->
    scores_index (striped_table dflt C R pos) i = Ok (nth i pos dflt).
  Proof.
    intros Hi. unfold scores_index. rewrite striped_table_length.
    assert (HR : R <> 0) by (intros ->; simpl in Hi; lia).
    destruct (R =? 0) eqn:E; [apply Nat.eqb_eq in E; lia|].
    assert (Hm : i mod R < R) by (apply Nat.mod_upper_bound; auto).
    assert (Hd : i / R < C) by (apply Nat.div_lt_upper_bound; auto; lia).
    rewrite mat_row_lt by (rewrite striped_table_length; auto). cbn [rbind].
    rewrite vec_get_lt by (rewrite striped_table_row_length; auto).
    rewrite striped_table_cell by auto. f_equal. f_equal.
    rewrite (Nat.div_mod i R HR) at 3. lia.
  Qed.

  Lemma scores_getitem_py (s : @py_scores T) C R pos i :
    sc_tab s = striped_table dflt C R pos -> sc_max s <= R * C ->
    (Z.of_nat (sc_max s) <= ssize_max)%Z ->
    scores_getitem s i = (j <- py_index (Z.of_nat (sc_max s)) i ;; Ok (nth (Z.to_nat j) pos dflt)).
  Proof.
    intros Ht Hm Hn. unfold scores_getitem, extract_isize. destruct (in_ssize i) eqn:Hi; cbn [rbind].
    2:{ rewrite py_index_outside; auto. lia. }
    rewrite sc_norm_spec by (lia || auto).
    destruct (py_index_cases (Z.of_nat (sc_max s)) i) as [[H E]|[[H E]|[H E]]]; try lia;
      rewrite E; cbn [rbind]; auto; rewrite Ht; apply scores_index_spec; lia.
  Qed.

  Lemma scores_of_inv C S R L M pos : 1 <= M -> L <= R * C ->
    let s := scores_of dflt C S R L M pos in
    let R' := if ((L <? M) || (R =? 0))%bool then 0 else R in
    sc_tab s = striped_table dflt C R' pos /\ sc_max s <= R' * C /\
    sc_max s = (if ((L <? M) || (R =? 0))%bool then 0 else L + 1 - M) /\
    sc_shape s = (Z.of_nat C, Z.of_nat R') /\ sc_strides s = (4%Z, (Z.of_nat S * 4)%Z).
  Proof.
    intros HM HL. unfold scores_of. destruct ((L <? M) || (R =? 0)) eqn:E; cbn.
    - repeat split; auto.
    - rewrite striped_table_length. repeat split; auto. lia.
  Qed.
End Elem.

(* ---------- memoryview reads ---------- *)
Section Views.
  Context {T : Type}.
  Variable dflt : T.
  Notation table := (list (list T)).

  (* a read at a whole element inside the allocation returns that element *)
  Lemma mv_get_elem (flat : list T) esize (b : pybuf) idx k :
    (0 < esize)%Z -> pb_itemsize b = esize ->
    (pb_off b + dotZ idx (mv_strides b) = esize * Z.of_nat k)%Z -> k < length flat ->
    mv_get flat esize b idx = Ok (nth k flat dflt).
  Proof.
    intros He Hi Ho Hk. unfold mv_get. rewrite Ho, Hi, Z.eqb_refl.
    rewrite Z.mul_comm, Z_mod_mult, Z.eqb_refl. rewrite Z.div_mul by lia.
    replace (0 <=? Z.of_nat k * esize)%Z with true by (symmetry; apply Z.leb_le; nia).
    replace (Z.of_nat k <? Z.of_nat (length flat))%Z with true by (symmetry; apply Z.ltb_lt; lia).
    cbn [andb]. rewrite Nat2Z.id. apply vec_get_lt. auto.
  Qed.

  (* cell (r, c) of a dense storage through its flat view *)
  Lemma ravel_cell C S (st : @storage T) (t : table) r c :
    C <= S -> s_wf C S st -> abs st = t -> r < length t -> c < C ->
    r * S + c < length (ravel st) /\ nth (r * S + c) (ravel st) dflt = nth c (nth r t []) dflt.
  Proof.
    intros HCS Hwf Habs Hr Hc. subst t. rewrite abs_length in Hr. split.
    - rewrite (ravel_length C S HCS st Hwf). nia.
    - rewrite (ravel_index C S HCS st r c dflt Hwf Hr Hc).
      unfold abs. change (@nil T) with (ra (@srow0 T)). rewrite map_nth. reflexivity.
  Qed.

  Lemma zrange_of_nat n : zrange (Z.of_nat n) = map Z.of_nat (seq 0 n).
  Proof. unfold zrange. rewrite Nat2Z.id. reflexivity. Qed.

  (* ---------- ScoringMatrix ---------- *)
  Lemma scoring_view_cell K S (t : table) (st : @storage T) i j :
    K <= S -> s_wf K S st -> abs st = t -> i < length t -> j < K ->
    let b := scoring_getbuffer (scoring_new K S t) in
    dotZ [Z.of_nat i; Z.of_nat j] (mv_strides b) = (4 * Z.of_nat (i * S + j))%Z /\
    i * S + j < length (ravel st) /\
    mv_get (ravel st) 4 b [Z.of_nat i; Z.of_nat j] = Ok (nth j (nth i t []) dflt).
  Proof.
    intros HKS Hwf Habs Hi Hj b.
    destruct (ravel_cell K S st t i j HKS Hwf Habs Hi Hj) as [Hlen Hnth].
    assert (Hd : dotZ [Z.of_nat i; Z.of_nat j] (mv_strides b) = (4 * Z.of_nat (i * S + j))%Z).
    { unfold b, mv_strides, scoring_getbuffer, scoring_new. cbn [pb_strides sm_strides fst snd dotZ]. lia. }
    repeat split; auto.
    rewrite <- Hnth. apply mv_get_elem; auto; try lia;
      (rewrite Hd; unfold b, scoring_getbuffer; cbn [pb_off]; lia).
  Qed.

  Lemma scoring_view_desc K S (t : table) :
    let b := scoring_getbuffer (scoring_new K S t) in
    mv_shape b = [Z.of_nat (length t); Z.of_nat K] /\
    mv_strides b = [(Z.of_nat S * 4)%Z; 4%Z] /\
    pb_itemsize b = 4%Z /\ pb_format b = Fmtf /\ pb_ndim b = 2 /\
    pb_len b = (Z.of_nat (length t) * Z.of_nat K * 4)%Z.
  Proof. cbn. repeat split; reflexivity. Qed.

  (* ---------- StripedScores ---------- *)
  Lemma scores_view_cell C S R pos (s : @py_scores T) (st : @storage T) c r :
    C <= S -> sc_tab s = striped_table dflt C R pos ->
    sc_strides s = (4%Z, (Z.of_nat S * 4)%Z) ->
    s_wf C S st -> abs st = sc_tab s -> c < C -> r < R ->
    let b := scores_getbuffer s in
    dotZ [Z.of_nat c; Z.of_nat r] (mv_strides b) = (4 * Z.of_nat (r * S + c))%Z /\
    r * S + c < length (ravel st) /\
    mv_get (ravel st) 4 b [Z.of_nat c; Z.of_nat r] = Ok (nth (c * R + r) pos dflt).
  Proof.
    intros HCS Ht Hs Hwf Habs Hc Hr b.
    assert (Hr' : r < length (sc_tab s)) by (rewrite Ht, striped_table_length; auto).
    destruct (ravel_cell C S st (sc_tab s) r c HCS Hwf Habs Hr' Hc) as [Hlen Hnth].
    assert (Hd : dotZ [Z.of_nat c; Z.of_nat r] (mv_strides b) = (4 * Z.of_nat (r * S + c))%Z).
    { unfold b, mv_strides, scores_getbuffer. cbn [pb_strides]. rewrite Hs. cbn [fst snd dotZ]. lia. }
    repeat split; auto.
    rewrite <- (striped_table_cell dflt C R pos r c Hr Hc), <- Ht, <- Hnth.
    apply mv_get_elem; auto; try lia;
      (rewrite Hd; unfold b, scores_getbuffer; cbn [pb_off]; lia).
  Qed.

  (* ---------- 1-D objects: the allocation is the vector itself ---------- *)
  Lemma enc_view_cell (l : list T) i : i < length l ->
    mv_get l 1 (enc_getbuffer l) [Z.of_nat i] = Ok (nth i l dflt).
  Proof.
    intros Hi. apply mv_get_elem; auto; try lia.
    unfold mv_strides, enc_getbuffer. cbn [pb_off pb_strides pb_itemsize dotZ]. lia.
  Qed.

  Lemma dist_view_cell (l : list T) i : i < length l ->
    mv_get l 8 (dist_getbuffer l) [Z.of_nat i] = Ok (nth i l dflt).
  Proof.
    intros Hi. apply mv_get_elem; auto; try lia.
    unfold mv_strides, dist_getbuffer. cbn [pb_off pb_strides pb_itemsize dotZ]. lia.
  Qed.

  Lemma enc_view_desc (l : list T) :
    mv_shape (enc_getbuffer l) = [Z.of_nat (length l)] /\ mv_strides (enc_getbuffer l) = [1%Z].
  Proof. unfold mv_shape, mv_strides, enc_getbuffer, enc_len. cbn. rewrite Z.div_1_r. auto. Qed.

  Lemma dist_view_desc (l : list T) :
    mv_shape (dist_getbuffer l) = [Z.of_nat (length l)] /\ mv_strides (dist_getbuffer l) = [8%Z].
  Proof. unfold mv_shape, mv_strides, dist_getbuffer. cbn. rewrite Z.div_mul by lia. auto. Qed.
End Views.

(* ---------- StripedSequence: invariant under reconfiguration ---------- *)
Section Striped.
  Context {T : Type}.
  Variable dflt : T.
  Notation table := (list (list T)).
  Variable C S : nat.
  Hypothesis HC : 1 <= C.

  Definition rows_wf (t : table) : Prop := Forall (fun r => length r = C) t.

  Lemma wrap_row_length src : length (wrap_row dflt C src) = C.
  Proof. unfold wrap_row. rewrite app_length, map_length, seq_length. simpl. lia. Qed.

  Lemma t_resize_wf (t : table) n : rows_wf t -> rows_wf (t_resize dflt C t n).
  Proof.
    intros H. unfold t_resize, rows_wf. apply Forall_app. split.
    - apply Forall_firstn. auto.
    - apply Forall_repeat. unfold t_row0. apply repeat_length.
  Qed.

  Lemma t_resize_len (t : table) n : length (t_resize dflt C t n) = n.
  Proof. exact (t_resize_rows dflt C C (le_n C) t n). Qed.

  Lemma t_resize_same (t : table) n r : r < n -> r < length t -> nth r (t_resize dflt C t n) [] = nth r t [].
  Proof. exact (t_resize_keeps dflt C C (le_n C) t n r). Qed.

  (* the loop of configure_wrap writes rows rows+0 .. rows+m-1 only and never panics *)
  Lemma cw_fold rows m (t0 : table) : forall k a (t : table),
    a + k <= m ->
    length t = rows + m -> rows_wf t -> (forall r, r < rows -> nth r t [] = nth r t0 []) ->
    exists t1, fold_left (cw_step dflt C rows) (seq a k) (Ok t) = Ok t1 /\
               length t1 = rows + m /\ rows_wf t1 /\ (forall r, r < rows -> nth r t1 [] = nth r t0 []).
  Proof.
    induction k as [|k IH]; intros a t Hak Hlen Hwf Hkeep.
    - exists t. simpl. auto.
    - assert (E : cw_step dflt C rows (Ok t) a = Ok (upd (rows + a) (wrap_row dflt C (nth a t [])) t)).
      { unfold cw_step. cbn [rbind]. rewrite (mat_row_lt t a) by lia. cbn [rbind].
        replace (rows + a <? length t) with true by (symmetry; apply Nat.ltb_lt; lia). reflexivity. }
      cbn [seq fold_left]. rewrite E.
      apply IH.
      + lia.
      + rewrite upd_length. auto.
      + apply Forall_upd; auto. apply wrap_row_length.
      + intros r Hr. rewrite nth_upd_other by lia. auto.
  Qed.

  Definition striped_inv (R : nat) (pos : list T) (s : @py_striped T) : Prop :=
    length (ss_tab s) = R + ss_wrap s /\
    (forall r, r < R -> nth r (ss_tab s) [] = nth r (striped_table dflt C R pos) []) /\
    rows_wf (ss_tab s) /\
    ss_shape s = (Z.of_nat C, Z.of_nat R) /\ ss_strides s = (1%Z, (1 * Z.of_nat S)%Z).

  Lemma striped_new_inv R pos L :
    striped_inv R pos (striped_new C S (striped_table dflt C R pos) L).
  Proof.
    unfold striped_inv, striped_new. cbn. rewrite striped_table_length.
    repeat split; auto. apply striped_table_wf.
  Qed.

  Lemma configure_wrap_inv R pos m s :
    striped_inv R pos s -> exists s', configure_wrap dflt C m s = Ok s' /\ striped_inv R pos s'.
  Proof.
    intros (Hlen & Hkeep & Hwf & Hsh & Hst). unfold configure_wrap.
    destruct (ss_wrap s <? m) eqn:E.
    2:{ exists s. split; auto. repeat split; auto. }
    apply Nat.ltb_lt in E.
    replace (length (ss_tab s) <? ss_wrap s) with false by (symmetry; apply Nat.ltb_ge; lia).
    cbv zeta.
    replace (length (ss_tab s) - ss_wrap s) with R by lia.
    replace (length (ss_tab s) + m - ss_wrap s) with (R + m) by lia.
    destruct (cw_fold R m (ss_tab s) m 0 (t_resize dflt C (ss_tab s) (R + m))) as (t1 & Hf & Hl1 & Hw1 & Hk1).
    - lia.
    - apply t_resize_len.
    - apply t_resize_wf. auto.
    - intros r Hr. apply t_resize_same; lia.
    - unfold DenseModel.table in *. eexists. split; [rewrite Hf; cbn [rbind]; reflexivity|].
      unfold striped_inv. cbn. repeat split; auto.
      intros r Hr. rewrite Hk1 by auto. auto.
  Qed.

  Lemma configure_all_inv R pos Ms : forall s,
    striped_inv R pos s -> exists s', configure_all dflt C Ms s = Ok s' /\ striped_inv R pos s'.
  Proof.
    induction Ms as [|M Ms IH]; intros s Hs; simpl.
    - exists s. auto.
    - unfold configure. destruct (M =? 0).
      + cbn [rbind]. apply IH. auto.
      + destruct (configure_wrap_inv R pos (M - 1) s Hs) as (s1 & E & H1). rewrite E. cbn [rbind]. apply IH. auto.
  Qed.

  (* element [c][r] of a view of any reachable StripedSequence *)
  Lemma striped_view_cell R pos (s : @py_striped T) (st : @storage T) c r :
    C <= S -> striped_inv R pos s ->
    s_wf C S st -> abs st = ss_tab s -> c < C -> r < R ->
    let b := striped_getbuffer s in
    dotZ [Z.of_nat c; Z.of_nat r] (mv_strides b) = (1 * Z.of_nat (r * S + c))%Z /\
    r * S + c < length (ravel st) /\
    mv_get (ravel st) 1 b [Z.of_nat c; Z.of_nat r] = Ok (nth (c * R + r) pos dflt).
  Proof.
    intros HCS (Hlen & Hkeep & Hwf & Hsh & Hst) Hswf Habs Hc Hr b.
    assert (Hr' : r < length (ss_tab s)) by lia.
    destruct (ravel_cell dflt C S st (ss_tab s) r c HCS Hswf Habs Hr' Hc) as [Hl Hnth].
    assert (Hd : dotZ [Z.of_nat c; Z.of_nat r] (mv_strides b) = (1 * Z.of_nat (r * S + c))%Z).
    { unfold b, mv_strides, striped_getbuffer. cbn [pb_strides]. rewrite Hst. cbn [fst snd dotZ]. lia. }
    repeat split; auto.
    rewrite <- (striped_table_cell dflt C R pos r c Hr Hc), <- Hkeep, <- Hnth by auto.
    apply mv_get_elem; auto; try lia;
      (rewrite Hd; unfold b, striped_getbuffer; cbn [pb_off]; lia).
  Qed.

  Lemma striped_view_desc R pos (s : @py_striped T) : striped_inv R pos s ->
    let b := striped_getbuffer s in
    mv_shape b = [Z.of_nat C; Z.of_nat R] /\ mv_strides b = [1%Z; (1 * Z.of_nat S)%Z] /\
    pb_itemsize b = 1%Z /\ pb_format b = FmtB /\ pb_ndim b = 2 /\ pb_len b = (Z.of_nat C * Z.of_nat R)%Z.
  Proof.
    intros (Hlen & Hkeep & Hwf & Hsh & Hst). unfold striped_getbuffer, mv_shape, mv_strides. cbn.
    rewrite Hsh, Hst. cbn. repeat split; reflexivity.
  Qed.
End Striped.

(* ---------- soundness of the checker ---------- *)
Section CheckSound.
  Context {T : Type}.
  Variable dflt : T.
  Variable eqT : T -> T -> bool.
  Hypothesis eqT_eq : forall x y, eqT x y = true -> x = y.

  Lemma list_eqT_sound a : forall b, list_eqT eqT a b = true -> a = b.
  Proof.
    induction a as [|x a IH]; destruct b as [|y b]; simpl; intros H; try discriminate; auto.
    apply andb_true_iff in H. destruct H as [H1 H2]. f_equal; auto.
  Qed.

  Lemma table_eqT_sound a : forall b, table_eqT eqT a b = true -> a = b.
  Proof.
    induction a as [|x a IH]; destruct b as [|y b]; simpl; intros H; try discriminate; auto.
    apply andb_true_iff in H. destruct H as [H1 H2]. f_equal; auto. apply list_eqT_sound; auto.
  Qed.

  Lemma listZ_eqb_sound a : forall b, listZ_eqb a b = true -> a = b.
  Proof.
    induction a as [|x a IH]; destruct b as [|y b]; simpl; intros H; try discriminate; auto.
    apply andb_true_iff in H. destruct H as [H1 H2]. apply Z.eqb_eq in H1. f_equal; auto.
  Qed.

  Lemma pyval_eqb_sound a b : pyval_eqb eqT a b = true -> a = b.
  Proof.
    destruct a, b; simpl; intros H; try discriminate; f_equal; auto. apply list_eqT_sound; auto.
  Qed.

  Lemma is_val_sound (o : outcome (@pyval T)) v : is_val eqT o v = true -> o = OVal v.
  Proof. destruct o; simpl; intros H; try discriminate. f_equal. apply pyval_eqb_sound; auto. Qed.

  Lemma is_exc_sound (o : outcome (@pyval T)) c : is_exc o c = true -> o = OExc c.
  Proof. destruct o; simpl; intros H; try discriminate. apply Nat.eqb_eq in H. subst; auto. Qed.

  Lemma index_check_sound n elem i (o : outcome (@pyval T)) :
    (0 <= n)%Z -> index_check eqT n elem i o = true -> index_spec n elem i o.
  Proof.
    intros Hn. unfold index_check, index_spec.
    destruct ((0 <=? i) && (i <? n))%Z eqn:A.
    - apply andb_true_iff in A. rewrite Z.leb_le, Z.ltb_lt in A. intros H. apply is_val_sound in H.
      repeat split; intros; auto; lia.
    - destruct ((- n <=? i) && (i <? 0))%Z eqn:B.
      + apply andb_true_iff in B. rewrite Z.leb_le, Z.ltb_lt in B. intros H. apply is_val_sound in H.
        repeat split; intros; auto; lia.
      + intros H. apply is_exc_sound in H.
        apply andb_false_iff in A. apply andb_false_iff in B.
        rewrite Z.leb_gt, Z.ltb_ge in A, B.
        repeat split; intros; auto; lia.
  Qed.

  Lemma llen_nonneg (o : @lobj T) : (0 <= llen o)%Z.
  Proof. destruct o; simpl; lia. Qed.

  Lemma check_index_sound (o : @lobj T) ln gets :
    check_index dflt eqT o ln gets = true -> has_index (lkind o) = true ->
    ln = OVal (llen o) /\
    Forall (fun io => index_spec (llen o) (lelem dflt o) (fst io) (snd io)) gets.
  Proof.
    unfold check_index. intros H Hi. rewrite Hi in H. apply andb_true_iff in H. destruct H as [H1 H2].
    split.
    - destruct ln; try discriminate. apply Z.eqb_eq in H1. subst. reflexivity.
    - apply Forall_forall. intros io Hin. rewrite forallb_forall in H2.
      apply index_check_sound; auto. apply llen_nonneg.
  Qed.

  Lemma view_check_sound (o : @lobj T) v : view_check dflt eqT o v = true -> view_spec dflt o v.
  Proof.
    unfold view_check, view_spec. rewrite !andb_true_iff.
    intros [[[[[[[H1 H2] H3] H4] H5] H6] H7] H8].
    repeat split.
    - unfold fmt_check in H1. destruct (kfmt (lkind o)); try discriminate.
      apply Nat.eqb_eq in H1. simpl. f_equal. auto.
    - apply Z.eqb_eq; auto.
    - apply Z.eqb_eq; auto.
    - apply listZ_eqb_sound; auto.
    - apply Z.eqb_eq; auto.
    - intros idx Hin. rewrite forallb_forall in H6. apply Z.eqb_eq. apply H6. auto.
    - apply table_eqT_sound; auto.
    - apply list_eqT_sound; auto.
  Qed.

  Lemma check_view_sound (o : @lobj T) ov :
    check_view dflt eqT o ov = true -> kfmt (lkind o) <> None ->
    exists v, ov = OVal v /\ view_spec dflt o v.
  Proof.
    unfold check_view. intros H Hk. destruct (kfmt (lkind o)); [|congruence].
    destruct ov; try discriminate. exists v. split; auto. apply view_check_sound; auto.
  Qed.

  Lemma check_C18_sound_lemma (o : @lobj T) ob :
    check_C18 dflt eqT o ob = true -> Holds_C18 dflt o ob.
  Proof.
    unfold check_C18, Holds_C18. intros H. apply andb_true_iff in H. destruct H as [H1 H2]. split.
    - intros Hi. apply check_index_sound; auto.
    - intros Hk. apply check_view_sound; auto.
  Qed.

  (* what view_spec says about memory: every element of the view is one logical cell of
     the dense matrix — inside the allocation of rows*stride elements, never in padding *)
  Lemma view_spec_no_padding (o : @lobj T) v idx :
    lobj_wf o -> view_spec dflt o v -> In idx (idx_range (lshape o)) ->
    exists r c, dotZ (map Z.of_nat idx) (vo_strides v) =
                (Z.of_nat (ksize (lkind o)) * Z.of_nat (r * lstride o + c))%Z /\
                r < lrows o /\ c < lcols o /\ (r, c) = lcoord o idx.
  Proof.
    intros Hwf (_ & _ & _ & _ & _ & Haddr & _) Hin.
    exists (fst (lcoord o idx)), (snd (lcoord o idx)).
    split; [apply Haddr; auto|].
    destruct o as [k l|k K t|k R pos maxi]; unfold lshape, idx_range in Hin;
      cbn [lcoord lrows lcols fst snd].
    - rewrite Nat2Z.id in Hin. apply in_map_iff in Hin. destruct Hin as [i [E Hi]]. subst idx.
      apply in_seq in Hi. cbn [fst snd]. repeat split; lia.
    - rewrite !Nat2Z.id in Hin. apply in_flat_map in Hin. destruct Hin as [i [Hi Hj]].
      apply in_map_iff in Hj. destruct Hj as [j [E Hj]]. subst idx.
      apply in_seq in Hi. apply in_seq in Hj. cbn [fst snd]. repeat split; lia.
    - rewrite !Nat2Z.id in Hin. apply in_flat_map in Hin. destruct Hin as [c [Hc Hr]].
      apply in_map_iff in Hr. destruct Hr as [r [E Hr]]. subst idx.
      apply in_seq in Hc. apply in_seq in Hr. cbn [fst snd]. repeat split; lia.
  Qed.
End CheckSound.

(* ---------- the index theorems in terms of observations ---------- *)
Section IndexObs.
  Context {T : Type}.
  Variable dflt : T.

  Lemma out_of_res_bind {A} (f : A -> @pyval T) (p : res Z) (g : nat -> A) :
    out_of_res f (j <- p ;; Ok (g (Z.to_nat j))) =
    out_of_res (fun v : @pyval T => v) (j <- p ;; Ok (f (g (Z.to_nat j)))).
  Proof. destruct p; reflexivity. Qed.

  Lemma py_index_obs n i (elem : nat -> @pyval T) : (0 <= n)%Z ->
    index_spec n elem i (out_of_res (fun v => v) (j <- py_index n i ;; Ok (elem (Z.to_nat j)))).
  Proof.
    intros Hn. unfold index_spec.
    destruct (py_index_cases n i Hn) as [[H E]|[[H E]|[H E]]]; rewrite E; cbn [rbind out_of_res];
      repeat split; intros; auto; lia.
  Qed.

  Lemma py_index_no_panic n i (elem : nat -> @pyval T) :
    out_of_res (fun v => v) (j <- py_index n i ;; Ok (elem (Z.to_nat j))) <> OPanic.
  Proof.
    unfold py_index. destruct ((0 <=? i) && (i <? n))%Z; cbn; try discriminate.
    destruct ((- n <=? i) && (i <? 0))%Z; cbn; discriminate.
  Qed.

  Lemma enc_getitem_obs (d : list T) i :
    (enc_len d <= ssize_max)%Z ->
    index_spec (enc_len d) (fun k => VElem (nth k d dflt)) i (out_of_res VElem (enc_getitem d i)).
  Proof.
    intros Hn. rewrite (enc_getitem_py dflt d i Hn).
    rewrite (out_of_res_bind VElem _ (fun k => nth k d dflt)).
    apply (py_index_obs (enc_len d) i (fun k => VElem (nth k d dflt))). unfold enc_len. lia.
  Qed.

  Lemma mat_getitem_obs (t : list (list T)) i :
    (mat_len t <= ssize_max)%Z ->
    index_spec (mat_len t) (fun k => VRow (nth k t [])) i (out_of_res VRow (mat_getitem t i)).
  Proof.
    intros Hn. rewrite (mat_getitem_py t i Hn).
    rewrite (out_of_res_bind VRow _ (fun k => nth k t [])).
    apply (py_index_obs (mat_len t) i (fun k => VRow (nth k t []))). unfold mat_len. lia.
  Qed.

  Lemma scores_getitem_obs (s : @py_scores T) C R pos i :
    sc_tab s = striped_table dflt C R pos -> sc_max s <= R * C ->
    (Z.of_nat (sc_max s) <= ssize_max)%Z ->
    index_spec (scores_len s) (fun k => VElem (nth k pos dflt)) i (out_of_res VElem (scores_getitem s i)).
  Proof.
    intros Ht Hm Hn. rewrite (scores_getitem_py dflt s C R pos i Ht Hm Hn).
    rewrite (out_of_res_bind VElem _ (fun k => nth k pos dflt)).
    apply (py_index_obs (scores_len s) i (fun k => VElem (nth k pos dflt))). unfold scores_len. lia.
  Qed.

End IndexObs.

(* ---------- the model's observation passes the checker ---------- *)
Section ModelPasses.
  Context {T : Type}.
  Variable dflt : T.
  Variable eqT : T -> T -> bool.
  Hypothesis eqT_refl : forall x, eqT x x = true.
  Variable poison : T.
  Notation table := (list (list T)).

  Lemma list_eqT_refl l : list_eqT eqT l l = true.
  Proof. induction l; simpl; auto. rewrite eqT_refl. auto. Qed.
  Lemma table_eqT_refl t : table_eqT eqT t t = true.
  Proof. induction t; simpl; auto. rewrite list_eqT_refl. auto. Qed.
  Lemma listZ_eqb_refl l : listZ_eqb l l = true.
  Proof. induction l; simpl; auto. rewrite Z.eqb_refl. auto. Qed.
  Lemma pyval_eqb_refl v : pyval_eqb eqT v v = true.
  Proof. destruct v; simpl; auto using list_eqT_refl. Qed.

  Lemma index_check_py n i (elem : nat -> @pyval T) :
    index_check eqT n elem i (out_of_res (fun v => v) (j <- py_index n i ;; Ok (elem (Z.to_nat j)))) = true.
  Proof.
    unfold index_check, py_index.
    destruct ((0 <=? i) && (i <? n))%Z; cbn; [apply pyval_eqb_refl|].
    destruct ((- n <=? i) && (i <? 0))%Z; cbn; [apply pyval_eqb_refl|]. reflexivity.
  Qed.

  Lemma forallb_map_true {A B} (f : B -> bool) (g : A -> B) l :
    (forall x, In x l -> f (g x) = true) -> forallb f (map g l) = true.
  Proof. intros H. apply forallb_forall. intros y Hy. apply in_map_iff in Hy. destruct Hy as [x [E Hx]]. subst. auto. Qed.

  (* --- reads collected by tolist() --- *)
  Lemma strip_ok (t : table) : strip poison (map (map (@Ok T)) t) = (t, true).
  Proof.
    unfold strip. f_equal.
    - rewrite map_map. rewrite <- (map_id t) at 2. apply map_ext. intros r.
      rewrite map_map. rewrite <- (map_id r) at 2. apply map_ext. reflexivity.
    - apply forallb_forall. intros r Hr. apply in_map_iff in Hr. destruct Hr as [r0 [E _]]. subst.
      apply forallb_forall. intros x Hx. apply in_map_iff in Hx. destruct Hx as [x0 [E _]]. subst. reflexivity.
  Qed.

  Lemma map_seq_ext {A} (f g : nat -> A) n : (forall i, i < n -> f i = g i) -> map f (seq 0 n) = map g (seq 0 n).
  Proof. intros H. apply map_ext_in. intros i Hi. apply in_seq in Hi. apply H. lia. Qed.

  Lemma tolist_2d (flat : list T) esize (b : pybuf) n0 n1 (cell : nat -> nat -> T) :
    mv_shape b = [Z.of_nat n0; Z.of_nat n1] ->
    (forall i j, i < n0 -> j < n1 -> mv_get flat esize b [Z.of_nat i; Z.of_nat j] = Ok (cell i j)) ->
    mv_tolist flat esize b = map (map (@Ok T)) (map (fun i => map (fun j => cell i j) (seq 0 n1)) (seq 0 n0)).
  Proof.
    intros Hs H. unfold mv_tolist. rewrite Hs. rewrite !zrange_of_nat. rewrite !map_map.
    apply map_seq_ext. intros i Hi. rewrite !map_map. apply map_seq_ext. intros j Hj. apply H; auto.
  Qed.

  Lemma tolist_1d (flat : list T) esize (b : pybuf) n (cell : nat -> T) :
    mv_shape b = [Z.of_nat n] ->
    (forall i, i < n -> mv_get flat esize b [Z.of_nat i] = Ok (cell i)) ->
    mv_tolist flat esize b = map (map (@Ok T)) [map cell (seq 0 n)].
  Proof.
    intros Hs H. unfold mv_tolist. rewrite Hs. rewrite zrange_of_nat. cbn [map]. f_equal. rewrite !map_map.
    apply map_seq_ext. auto.
  Qed.

  Lemma list_as_map (l : list T) : map (fun i => nth i l dflt) (seq 0 (length l)) = l.
  Proof.
    apply nth_ext with (d := dflt) (d' := dflt).
    - rewrite map_length, seq_length. auto.
    - intros n Hn. rewrite map_length, seq_length in Hn. rewrite nth_map_seq by auto. reflexivity.
  Qed.

  Lemma table_as_map K (t : table) : Forall (fun r => length r = K) t ->
    map (fun i => map (fun j => nth j (nth i t []) dflt) (seq 0 K)) (seq 0 (length t)) = t.
  Proof.
    intros Hwf. apply nth_ext with (d := []) (d' := []).
    - rewrite map_length, seq_length. auto.
    - intros n Hn. rewrite map_length, seq_length in Hn. rewrite nth_map_seq by auto.
      assert (HK : length (nth n t []) = K).
      { rewrite Forall_forall in Hwf. apply Hwf. apply nth_In. auto. }
      rewrite <- HK. apply list_as_map.
  Qed.

  Lemma canon_wf C S (t : table) : C <= S -> Forall (fun r => length r = C) t -> s_wf C S (canon C S poison t).
  Proof.
    intros HCS H. unfold canon, s_wf. apply Forall_forall. intros x Hx. apply in_map_iff in Hx.
    destruct Hx as [r [E Hr]]. subst x. rewrite Forall_forall in H. split; simpl; auto. apply repeat_length.
  Qed.

  Lemma canon_abs C S (t : table) : abs (canon C S poison t) = t.
  Proof. unfold abs, canon. rewrite map_map. simpl. apply map_id. Qed.

  Lemma canon_1d (l : list T) : ravel (canon (length l) (length l) poison [l]) = l.
  Proof. unfold ravel, canon. simpl. rewrite Nat.sub_diag. simpl. rewrite !app_nil_r. reflexivity. Qed.

  (* a view whose descriptor and reads are right passes view_check *)
  Lemma check_view_model (o : @lobj T) C S esize (t : table) (b : pybuf) f :
    kfmt (lkind o) = Some f -> pb_format b = f ->
    pb_itemsize b = Z.of_nat (ksize (lkind o)) ->
    pb_ndim b = length (lshape o) ->
    mv_shape b = lshape o ->
    pb_len b = (prodZ (lshape o) * Z.of_nat (ksize (lkind o)))%Z ->
    (forall idx, In idx (idx_range (lshape o)) ->
       dotZ (map Z.of_nat idx) (mv_strides b) =
       (Z.of_nat (ksize (lkind o)) * Z.of_nat (fst (lcoord o idx) * lstride o + snd (lcoord o idx)))%Z) ->
    mv_tolist (ravel (canon C S poison t)) (Z.of_nat esize) b = map (map (@Ok T)) (ltolist dflt o) ->
    check_view dflt eqT o (model_view poison C S esize t b) = true.
  Proof.
    intros Hk Hf Hi Hn Hs Hl Ha Ht. unfold model_view. rewrite Ht, strip_ok.
    unfold check_view. rewrite Hk. unfold view_check, fmt_check. rewrite Hk. cbn.
    rewrite Hf, Nat.eqb_refl, Hi, Z.eqb_refl, Hn, Z.eqb_refl, Hs, listZ_eqb_refl, Hl, Z.eqb_refl.
    rewrite table_eqT_refl, list_eqT_refl. cbn [andb]. rewrite !andb_true_r.
    apply forallb_forall. intros idx Hin. apply Z.eqb_eq. apply Ha. auto.
  Qed.

  Lemma in_idx_range_1 n idx : In idx (idx_range [Z.of_nat n]) -> exists i, idx = [i] /\ i < n.
  Proof.
    unfold idx_range. rewrite Nat2Z.id. intros H. apply in_map_iff in H. destruct H as [i [E Hi]].
    apply in_seq in Hi. exists i. split; auto. lia.
  Qed.

  Lemma in_idx_range_2 n0 n1 idx : In idx (idx_range [Z.of_nat n0; Z.of_nat n1]) ->
    exists i j, idx = [i; j] /\ i < n0 /\ j < n1.
  Proof.
    unfold idx_range. rewrite !Nat2Z.id. intros H. apply in_flat_map in H. destruct H as [i [Hi Hj]].
    apply in_map_iff in Hj. destruct Hj as [j [E Hj]]. apply in_seq in Hi. apply in_seq in Hj.
    exists i, j. repeat split; auto; lia.
  Qed.

  (* --- indexing part, per class --- *)
  Lemma check_index_enc (l : list T) idxs : (enc_len l <= ssize_max)%Z ->
    check_index dflt eqT (LSeq KEnc l) (OVal (enc_len l))
      (map (fun i => (i, out_of_res VElem (enc_getitem l i))) idxs) = true.
  Proof.
    intros Hn. unfold check_index. cbn [lkind has_index llen]. unfold enc_len. rewrite Z.eqb_refl. cbn [andb].
    apply forallb_map_true. intros i Hi. cbn [fst snd lelem].
    rewrite (enc_getitem_py dflt l i Hn).
    rewrite (out_of_res_bind VElem _ (fun k => nth k l dflt)).
    apply (index_check_py (enc_len l) i (fun k => VElem (nth k l dflt))).
  Qed.

  Lemma check_index_rows k K (t : table) idxs : (mat_len t <= ssize_max)%Z ->
    check_index dflt eqT (LRows k K t) (OVal (mat_len t))
      (map (fun i => (i, out_of_res VRow (mat_getitem t i))) idxs) = true.
  Proof.
    intros Hn. unfold check_index. cbn [lkind llen]. destruct (has_index k); auto.
    unfold mat_len. rewrite Z.eqb_refl. cbn [andb].
    apply forallb_map_true. intros i Hi. cbn [fst snd lelem].
    rewrite (mat_getitem_py t i Hn).
    rewrite (out_of_res_bind VRow _ (fun k => nth k t [])).
    apply (index_check_py (mat_len t) i (fun k => VRow (nth k t []))).
  Qed.

  Lemma check_index_scores C (s : @py_scores T) R pos idxs :
    sc_tab s = striped_table dflt C R pos -> sc_max s <= R * C ->
    (Z.of_nat (sc_max s) <= ssize_max)%Z ->
    check_index dflt eqT (LStriped KScores R pos (sc_max s)) (OVal (scores_len s))
      (map (fun i => (i, out_of_res VElem (scores_getitem s i))) idxs) = true.
  Proof.
    intros Ht Hm Hn. unfold check_index. cbn [lkind has_index llen]. unfold scores_len. rewrite Z.eqb_refl. cbn [andb].
    apply forallb_map_true. intros i Hi. cbn [fst snd lelem].
    rewrite (scores_getitem_py dflt s C R pos i Ht Hm Hn).
    rewrite (out_of_res_bind VElem _ (fun k => nth k pos dflt)).
    apply (index_check_py (Z.of_nat (sc_max s)) i (fun k => VElem (nth k pos dflt))).
  Qed.

  (* --- view part, per class --- *)
  Lemma check_view_enc (l : list T) :
    check_view dflt eqT (LSeq KEnc l) (model_view poison (length l) (length l) 1 [l] (enc_getbuffer l)) = true.
  Proof.
    destruct (enc_view_desc l) as [Hs Hst].
    apply (check_view_model (LSeq KEnc l) _ _ 1 [l] (enc_getbuffer l) FmtB); auto.
    - cbn. unfold enc_len. lia.
    - intros idx Hin. apply in_idx_range_1 in Hin. destruct Hin as [i [E Hi]]. subst idx.
      rewrite Hst. cbn [map dotZ lcoord fst snd lkind ksize lstride]. lia.
    - rewrite canon_1d. change (Z.of_nat 1) with 1%Z. rewrite (tolist_1d l 1 (enc_getbuffer l) (length l) (fun i => nth i l dflt)); auto.
      + cbn [ltolist]. rewrite list_as_map. reflexivity.
      + intros i Hi. apply enc_view_cell. auto.
  Qed.

  Lemma check_view_dist (l : list T) :
    check_view dflt eqT (LSeq KDist l) (model_view poison (length l) (length l) 8 [l] (dist_getbuffer l)) = true.
  Proof.
    destruct (dist_view_desc l) as [Hs Hst].
    apply (check_view_model (LSeq KDist l) _ _ 8 [l] (dist_getbuffer l) Fmtd); auto.
    - cbn. lia.
    - intros idx Hin. apply in_idx_range_1 in Hin. destruct Hin as [i [E Hi]]. subst idx.
      rewrite Hst. cbn [map dotZ lcoord fst snd lkind ksize lstride]. lia.
    - rewrite canon_1d. change (Z.of_nat 8) with 8%Z. rewrite (tolist_1d l 8 (dist_getbuffer l) (length l) (fun i => nth i l dflt)); auto.
      + cbn [ltolist]. rewrite list_as_map. reflexivity.
      + intros i Hi. apply dist_view_cell. auto.
  Qed.

  Lemma dense_stride_ge size C : 0 < size -> C <= dense_stride size C.
  Proof. intros H. unfold dense_stride, ROW_ALIGN. apply stride_ge; lia. Qed.

  Lemma check_view_scoring K (t : table) : Forall (fun r => length r = K) t ->
    check_view dflt eqT (LRows KScoring K t)
      (model_view poison K (dense_stride 4 K) 4 t (scoring_getbuffer (scoring_new K (dense_stride 4 K) t))) = true.
  Proof.
    intros Hwf. set (S := dense_stride 4 K). assert (HKS : K <= S) by (apply dense_stride_ge; lia).
    destruct (scoring_view_desc K S t) as (Hsh & Hst & Hi & Hf & Hn & Hl).
    apply (check_view_model (LRows KScoring K t) K S 4 t _ Fmtf); auto.
    - rewrite Hl. cbn [lshape prodZ lkind ksize]. lia.
    - intros idx Hin. apply in_idx_range_2 in Hin. destruct Hin as (i & j & E & Hi' & Hj). subst idx.
      rewrite Hst. cbn [map dotZ lcoord fst snd lkind ksize lstride lcols]. fold S. lia.
    - change (Z.of_nat 4) with 4%Z. rewrite (tolist_2d _ 4 _ (length t) K (fun i j => nth j (nth i t []) dflt)); auto.
      + cbn [ltolist]. rewrite (table_as_map K t Hwf). reflexivity.
      + intros i j Hi' Hj.
        exact (proj2 (proj2 (scoring_view_cell dflt K S t (canon K S poison t) i j HKS
                 (canon_wf K S t HKS Hwf) (canon_abs K S t) Hi' Hj))).
  Qed.

  Lemma check_view_striped R pos maxi (s : @py_striped T) :
    striped_inv dflt LANES (dense_stride 1 LANES) R pos s ->
    check_view dflt eqT (LStriped KStriped R pos maxi)
      (model_view poison LANES (dense_stride 1 LANES) 1 (ss_tab s) (striped_getbuffer s)) = true.
  Proof.
    intros Hinv. set (S := dense_stride 1 LANES) in *.
    assert (HCS : LANES <= S) by (apply dense_stride_ge; lia).
    assert (HC : 1 <= LANES) by (unfold LANES; lia).
    destruct (striped_view_desc dflt LANES S R pos s Hinv) as (Hsh & Hst & Hi & Hf & Hn & Hl).
    pose proof Hinv as (_ & _ & Hwf & _).
    apply (check_view_model (LStriped KStriped R pos maxi) LANES S 1 (ss_tab s) _ FmtB); auto.
    - rewrite Hl. cbn [lshape prodZ lkind ksize]. lia.
    - intros idx Hin. apply in_idx_range_2 in Hin. destruct Hin as (c & r & E & Hc & Hr). subst idx.
      rewrite Hst. cbn [map dotZ lcoord fst snd lkind ksize lstride lcols]. fold S. lia.
    - change (Z.of_nat 1) with 1%Z. rewrite (tolist_2d _ 1 _ LANES R (fun c r => nth (c * R + r) pos dflt)); auto.
      intros c r Hc Hr.
      exact (proj2 (proj2 (striped_view_cell dflt LANES S HC R pos s (canon LANES S poison (ss_tab s)) c r HCS Hinv
               (canon_wf LANES S (ss_tab s) HCS Hwf) (canon_abs LANES S (ss_tab s)) Hc Hr))).
  Qed.

  Lemma check_view_scores R pos (s : @py_scores T) :
    sc_tab s = striped_table dflt LANES R pos ->
    sc_shape s = (Z.of_nat LANES, Z.of_nat R) ->
    sc_strides s = (4%Z, (Z.of_nat (dense_stride 4 LANES) * 4)%Z) ->
    check_view dflt eqT (LStriped KScores R pos (sc_max s))
      (model_view poison LANES (dense_stride 4 LANES) 4 (sc_tab s) (scores_getbuffer s)) = true.
  Proof.
    intros Ht Hsh Hst. set (S := dense_stride 4 LANES) in *.
    assert (HCS : LANES <= S) by (apply dense_stride_ge; lia).
    assert (Hwf : Forall (fun r => length r = LANES) (sc_tab s)) by (rewrite Ht; apply striped_table_wf).
    apply (check_view_model (LStriped KScores R pos (sc_max s)) LANES S 4 (sc_tab s) _ Fmtf); auto.
    - unfold mv_shape, scores_getbuffer. cbn [pb_shape]. rewrite Hsh. reflexivity.
    - unfold scores_getbuffer. cbn [pb_len]. rewrite Hsh. cbn [fst snd lshape prodZ lkind ksize]. lia.
    - intros idx Hin. apply in_idx_range_2 in Hin. destruct Hin as (c & r & E & Hc & Hr). subst idx.
      unfold mv_strides, scores_getbuffer. cbn [pb_strides]. rewrite Hst.
      cbn [map dotZ lcoord fst snd lkind ksize lstride lcols]. fold S. lia.
    - change (Z.of_nat 4) with 4%Z. rewrite (tolist_2d _ 4 _ LANES R (fun c r => nth (c * R + r) pos dflt)); auto.
      + unfold mv_shape, scores_getbuffer. cbn [pb_shape]. rewrite Hsh. reflexivity.
      + intros c r Hc Hr.
        exact (proj2 (proj2 (scores_view_cell dflt LANES S R pos s (canon LANES S poison (sc_tab s)) c r HCS Ht Hst
                 (canon_wf LANES S (sc_tab s) HCS Hwf) (canon_abs LANES S (sc_tab s)) Hc Hr))).
  Qed.

  Lemma seq_rows_ge L : L <= seq_rows L * LANES.
  Proof.
    unfold seq_rows, LANES. pose proof (Nat.div_mod (L + (32 - 1)) 32 ltac:(lia)) as H.
    pose proof (Nat.mod_upper_bound (L + (32 - 1)) 32 ltac:(lia)). lia.
  Qed.

  (* every class except StripedScores: any well-formed logical object, any indices of
     the ssize_t range, any history of reconfigurations *)
  Lemma model_passes_lemma (o : @lobj T) idxs wraps L M :
    lobj_wf o -> (llen o <= ssize_max)%Z -> lkind o <> KScores ->
    check_C18 dflt eqT o (model_obs dflt poison o idxs wraps L M) = true.
  Proof.
    intros Hwf Hn Hk. destruct o as [k l|k K t|k R pos maxi]; cbn [lobj_wf] in Hwf.
    - destruct Hwf as [-> | ->]; unfold check_C18, model_obs; cbn [o_len o_get o_view].
      + rewrite check_index_enc, check_view_enc; auto.
      + rewrite check_view_dist. reflexivity.
    - destruct Hwf as [[-> | [-> | ->]] Hrows]; unfold check_C18, model_obs; cbn [o_len o_get o_view].
      + rewrite check_index_rows; auto.
      + rewrite check_index_rows; auto.
      + rewrite check_index_rows, check_view_scoring; auto.
    - destruct Hwf as [[-> | ->] [Hlen Hmax]]; [|cbn in Hk; congruence].
      unfold check_C18, model_obs.
      assert (HC : 1 <= LANES) by (unfold LANES; lia).
      destruct (configure_all_inv dflt LANES (dense_stride 1 LANES) HC R pos wraps _
                  (striped_new_inv dflt LANES (dense_stride 1 LANES) R pos L)) as (s & E & Hinv).
      rewrite E. cbn [o_len o_get o_view]. rewrite check_view_striped; auto.
  Qed.

  Lemma check_scores_obj R pos (s : @py_scores T) idxs maxi :
    sc_tab s = striped_table dflt LANES R pos -> sc_max s <= R * LANES ->
    (Z.of_nat (sc_max s) <= ssize_max)%Z ->
    sc_shape s = (Z.of_nat LANES, Z.of_nat R) ->
    sc_strides s = (4%Z, (Z.of_nat (dense_stride 4 LANES) * 4)%Z) ->
    maxi = sc_max s ->
    check_index dflt eqT (LStriped KScores R pos maxi) (OVal (scores_len s))
      (map (fun i => (i, out_of_res VElem (scores_getitem s i))) idxs) &&
    check_view dflt eqT (LStriped KScores R pos maxi)
      (model_view poison LANES (dense_stride 4 LANES) 4 (sc_tab s) (scores_getbuffer s)) = true.
  Proof.
    intros Ht Hm Hn Hsh Hst ->.
    rewrite (check_index_scores LANES s R pos idxs Ht Hm Hn).
    rewrite (check_view_scores R pos s Ht Hsh Hst). reflexivity.
  Qed.

  (* StripedScores: the object calculate() returns for a sequence of L symbols and a motif
     of M >= 1 rows, [pos] being the scores of all cells in position order *)
  Lemma model_passes_scores_lemma L M (pos : list T) idxs wraps :
    1 <= M -> (Z.of_nat L <= ssize_max)%Z ->
    check_C18 dflt eqT (scores_lobj L M pos) (model_obs dflt poison (scores_lobj L M pos) idxs wraps L M) = true.
  Proof.
    intros HM Hn. unfold scores_lobj. destruct (L <? M) eqn:E.
    - unfold check_C18, model_obs. cbn [o_len o_get o_view].
      pose proof (scores_of_inv dflt LANES (dense_stride 4 LANES) (seq_rows L) L M [] HM (seq_rows_ge L)) as H.
      cbv zeta in H. rewrite E in H. cbn [orb] in H. destruct H as (Ht & Hm & Hmax & Hsh & Hst).
      apply check_scores_obj; auto; lia.
    - apply Nat.ltb_ge in E. unfold check_C18, model_obs. cbn [o_len o_get o_view].
      pose proof (scores_of_inv dflt LANES (dense_stride 4 LANES) (seq_rows L) L M pos HM (seq_rows_ge L)) as H.
      cbv zeta in H.
      assert (HR : seq_rows L <> 0).
      { pose proof (seq_rows_ge L) as G. intros Z0. rewrite Z0 in G. simpl in G. lia. }
      replace (L <? M) with false in H by (symmetry; apply Nat.ltb_ge; lia).
      replace (seq_rows L =? 0) with false in H by (symmetry; apply Nat.eqb_neq; auto).
      cbn [orb] in H. destruct H as (Ht & Hm & Hmax & Hsh & Hst).
      apply check_scores_obj; auto; lia.
  Qed.
End ModelPasses.

(* ---------- allocation identity of a StripedSequence under reconfiguration ---------- *)
Lemma configure_alloc_fits R a wrap M :
  R + (M - 1) <= va_cap a ->
  va_id (fst (configure_alloc R (a, wrap) M)) = va_id a /\
  va_cap (fst (configure_alloc R (a, wrap) M)) = va_cap a.
Proof.
  intros H. unfold configure_alloc. destruct (M =? 0); auto. destruct (wrap <? M - 1); auto.
  unfold vec_resize. replace (R + (M - 1) <=? va_cap a) with true by (symmetry; apply Nat.leb_le; auto).
  auto.
Qed.

Lemma run_alloc_fits R Ms : forall a wrap,
  (forall M, In M Ms -> R + (M - 1) <= va_cap a) ->
  va_id (fst (fold_left (configure_alloc R) Ms (a, wrap))) = va_id a.
Proof.
  induction Ms as [|M Ms IH]; intros a wrap H; cbn [fold_left fst]; auto.
  destruct (configure_alloc_fits R a wrap M (H M (or_introl eq_refl))) as [Hid Hcap].
  destruct (configure_alloc R (a, wrap) M) as [a' wrap'] eqn:E. simpl in Hid, Hcap.
  rewrite IH.
  - auto.
  - intros M' HM'. rewrite Hcap. apply H. right. auto.
Qed.

Lemma fold_left_app_alloc avx2 R before after :
  run_alloc avx2 R (before ++ after) = fold_left (configure_alloc R) after (run_alloc avx2 R before).
Proof. unfold run_alloc. apply fold_left_app. Qed.

Lemma configure_alloc_cap_mono R st M : va_cap (fst st) <= va_cap (fst (configure_alloc R st M)).
Proof.
  destruct st as [a wrap]. unfold configure_alloc. destruct (M =? 0); auto. destruct (wrap <? M - 1); auto.
  unfold vec_resize. destruct (R + (M - 1) <=? va_cap a); simpl; lia.
Qed.

Lemma run_alloc_cap_ge R Ms : forall st, va_cap (fst st) <= va_cap (fst (fold_left (configure_alloc R) Ms st)).
Proof.
  induction Ms as [|M Ms IH]; intros st; cbn [fold_left]; auto.
  etransitivity; [apply (configure_alloc_cap_mono R st M)|apply IH].
Qed.

Lemma view_valid_within_capacity avx2 R before after :
  (forall M, In M after -> R + (M - 1) <= va_cap (stripe_alloc avx2 R)) ->
  view_dangling avx2 R before after = false.
Proof.
  intros H. unfold view_dangling. rewrite fold_left_app_alloc.
  destruct (run_alloc avx2 R before) as [a wrap] eqn:E.
  rewrite run_alloc_fits.
  - cbn [fst]. rewrite Nat.eqb_refl. apply andb_false_r.
  - intros M HM. etransitivity; [apply H; auto|].
    pose proof (run_alloc_cap_ge R before (stripe_alloc avx2 R, 0)) as G. unfold run_alloc in E. rewrite E in G. exact G.
Qed.

(* ---------- an accepted view reads the logical cells from ANY storage ---------- *)
Section AcceptedView.
  Context {T : Type}.
  Variable dflt : T.

  Lemma ltable_rows (o : @lobj T) : length (ltable dflt o) = lrows o.
  Proof. destruct o; cbn [ltable lrows]; auto. apply striped_table_length. Qed.

  Lemma accepted_view_reads_logical (o : @lobj T) (v : @vobs T) (st : @storage T) idx :
    lobj_wf o -> lcols o <= lstride o ->
    s_wf (lcols o) (lstride o) st -> abs st = ltable dflt o ->
    view_spec dflt o v -> In idx (idx_range (lshape o)) ->
    exists r c,
      (r, c) = lcoord o idx /\ r < lrows o /\ c < lcols o /\
      dotZ (map Z.of_nat idx) (vo_strides v) = (Z.of_nat (ksize (lkind o)) * Z.of_nat (r * lstride o + c))%Z /\
      r * lstride o + c < length (ravel st) /\
      nth (r * lstride o + c) (ravel st) dflt = nth c (nth r (ltable dflt o) []) dflt.
  Proof.
    intros Hwf HCS Hswf Habs Hv Hin.
    destruct (view_spec_no_padding dflt o v idx Hwf Hv Hin) as (r & c & Ha & Hr & Hc & Hco).
    exists r, c. repeat split; auto.
    - apply (ravel_cell dflt (lcols o) (lstride o) st (ltable dflt o) r c); auto. rewrite ltable_rows. auto.
    - apply (ravel_cell dflt (lcols o) (lstride o) st (ltable dflt o) r c); auto. rewrite ltable_rows. auto.
  Qed.
End AcceptedView.

(* ---------- buffer requests with flags ---------- *)
Lemma land1_cases flags : (Z.land flags 1 = 0 \/ Z.land flags 1 = 1)%Z.
Proof.
  change 1%Z with (Z.ones 1). rewrite Z.land_ones by lia. rewrite Z.pow_1_r.
  pose proof (Z.mod_pos_bound flags 2 ltac:(lia)). change (Z.ones 1) with 1%Z. lia.
Qed.

Lemma getbuffer_request_cases flags b :
  (Z.land flags 1 = 1%Z -> getbuffer_request flags b = Err EBuffer) /\
  (Z.land flags 1 = 0%Z -> getbuffer_request flags b = Ok b).
Proof.
  unfold getbuffer_request, PyBUF_WRITABLE. split; intros H; rewrite H; reflexivity.
Qed.

Section Requests.
  Context {T : Type}.
  Variable dflt : T.

  Lemma model_buf_readonly (o : @lobj T) wraps L M b :
    model_buf dflt o wraps L M = Ok b -> pb_readonly b = true.
  Proof.
    destruct o as [k l|k K t|k R pos maxi]; cbn [model_buf].
    - destruct k; intros H; inversion H; reflexivity.
    - destruct k; intros H; inversion H; reflexivity.
    - destruct k; try (destruct (configure_all _ _ _ _); cbn [rbind]; intros H; inversion H; reflexivity).
      intros H; inversion H; reflexivity.
  Qed.

  Lemma model_request_cases (o : @lobj T) wraps L M flags b :
    model_buf dflt o wraps L M = Ok b ->
    pb_readonly b = true /\
    (Z.land flags 1 = 1%Z -> model_request dflt o wraps L M flags = Err EBuffer) /\
    (Z.land flags 1 = 0%Z -> model_request dflt o wraps L M flags = Ok b).
  Proof.
    intros H. split; [exact (model_buf_readonly o wraps L M b H)|].
    unfold model_request. rewrite H. cbn [rbind]. apply getbuffer_request_cases.
  Qed.
End Requests.

