(* Model of the indexing / length / buffer-protocol glue of lightmotif-py
   (lightmotif-py/lightmotif/lib.rs), executable definitions only.

   Three layers:
   - the *code* of lib.rs as written: index normalisation of every __getitem__,
     __len__, the Py_buffer filled by every __getbuffer__ (with the shape/strides
     arrays cached at construction time), on top of the core indexers
     (Vec index, DenseMatrix Index<usize>, StripedScores Index<usize>) with their
     panics explicit;
   - the part of PyO3 / CPython the code relies on (trusted, modelled): extraction
     of an isize argument (fails outside the ssize_t range), what a
     memoryview does with a Py_buffer (default shape/strides of a 1-D buffer,
     element [i][j] read at buf + i*strides[0] + j*strides[1]);
   - memory: the backing store of a matrix object is `ravel st` of a dense storage
     [st] of coq/dense (rows of C logical cells followed by S-C padding cells);
     a read outside that list is foreign memory (Panic 30).

   Elements are opaque (a type T): u8 symbols, u32 counts, f32/f64 bit patterns. *)
From Coq Require Import List Arith ZArith Bool Lia.
From LMBase Require Import Res ListX.
From LMDense Require Import DenseModel.
Import ListNotations.

(* ---------- Python exceptions (Err codes) ---------- *)
Definition EIndex : nat := 1.      (* IndexError *)
Definition EOverflow : nat := 2.   (* OverflowError (what PyO3's isize extraction raises; no longer reaches Python) *)
Definition EType : nat := 3.       (* TypeError: the class has no such slot *)
Definition EBuffer : nat := 4.     (* BufferError *)

(* ---------- isize ---------- *)
Definition ssize_min : Z := (-9223372036854775808)%Z.
Definition ssize_max : Z := 9223372036854775807%Z.
Definition in_ssize (i : Z) : bool := (ssize_min <=? i)%Z && (i <=? ssize_max)%Z.

(* lib.rs extract_index (since the fix of F33): <isize as FromPyObject>::extract
   (PyLong_AsSsize_t semantics) with its OverflowError mapped to IndexError — like `list`,
   an integer that does not fit a C ssize_t is out of range *)
Definition extract_isize (i : Z) : res Z := if in_ssize i then Ok i else Err EIndex.

(* `a += b` on isize, overflow checks on (debug profile) *)
Definition isize_add (a b : Z) : res Z :=
  let s := (a + b)%Z in if in_ssize s then Ok s else Panic 20.

(* ---------- index normalisation, as coded ---------- *)

(* EncodedSequence::__getitem__:
     if index < 0 { index += length as Py_ssize_t }
     if index < 0 || index >= length as Py_ssize_t { IndexError } *)
Definition enc_norm (len i : Z) : res Z :=
  i1 <- (if (i <? 0)%Z then isize_add i len else Ok i) ;;
  if (i1 <? 0)%Z || (len <=? i1)%Z then Err EIndex else Ok i1.

(* {Count,Weight,Scoring}Matrix::__getitem__:
     if index_ < 0 { index_ += rows as isize }
     if index_ < 0 || (index_ as usize) >= rows { IndexError } *)
Definition mat_norm (rows i : Z) : res Z :=
  i1 <- (if (i <? 0)%Z then isize_add i rows else Ok i) ;;
  if (i1 <? 0)%Z || (rows <=? i1)%Z then Err EIndex else Ok i1.

(* StripedScores::__getitem__:
     if index < 0 { index += max_index as isize }
     if index < max_index as isize && index >= 0 { Ok } else { IndexError } *)
Definition sc_norm (maxi i : Z) : res Z :=
  i1 <- (if (i <? 0)%Z then isize_add i maxi else Ok i) ;;
  if (i1 <? maxi)%Z && (0 <=? i1)%Z then Ok i1 else Err EIndex.

(* ---------- buffer descriptors ---------- *)
Inductive fmt := FmtB | Fmtf | Fmtd.          (* "B", "f", "d" *)

Definition fmt_code (f : fmt) : nat := match f with FmtB => 0 | Fmtf => 1 | Fmtd => 2 end.

(* the fields of Py_buffer that __getbuffer__ fills; buf is an offset (in bytes)
   from the start of the object's backing allocation *)
Record pybuf := {
  pb_off : Z;
  pb_len : Z;
  pb_itemsize : Z;
  pb_format : fmt;
  pb_ndim : nat;
  pb_shape : option (list Z);
  pb_strides : option (list Z);
  pb_readonly : bool
}.

(* CPython memoryview (Objects/memoryobject.c, init_shape_strides): a 1-D buffer
   without shape gets shape = [len / itemsize]; without strides it is C-contiguous *)
Definition mv_shape (b : pybuf) : list Z :=
  match pb_shape b with Some s => s | None => [(pb_len b / pb_itemsize b)%Z] end.
Definition mv_strides (b : pybuf) : list Z :=
  match pb_strides b with Some s => s | None => [pb_itemsize b] end.

(* every __getbuffer__ of lib.rs starts with
     if view.is_null() { BufferError }                      (not reachable from Python code)
     if flags & PyBUF_WRITABLE == PyBUF_WRITABLE { BufferError("Object is not writable") }
   and then fills ALL fields whatever else was requested: format, shape and strides are
   handed out even without PyBUF_FORMAT / PyBUF_ND / PyBUF_STRIDES, and a strided matrix
   is exported even to a PyBUF_C_CONTIGUOUS / PyBUF_SIMPLE request (CPython's own
   consumers re-check contiguity).  suboffsets and internal are NULL, readonly = 1,
   view.obj = a new reference to the exporter; there is no __releasebuffer__. *)
Definition PyBUF_WRITABLE : Z := 1.
Definition getbuffer_request (flags : Z) (b : pybuf) : res pybuf :=
  if (Z.land flags PyBUF_WRITABLE =? PyBUF_WRITABLE)%Z then Err EBuffer else Ok b.

Fixpoint dotZ (a b : list Z) : Z :=
  match a, b with
  | x :: a', y :: b' => (x * y + dotZ a' b')%Z
  | _, _ => 0%Z
  end.

Fixpoint prodZ (l : list Z) : Z := match l with [] => 1%Z | x :: r => (x * prodZ r)%Z end.

Section Elem.
  Context {T : Type}.
  Variable dflt : T.       (* T::default(): N for symbols, 0 for numbers *)

  Notation table := (list (list T)).

  (* ---------- core indexers (panics explicit) ---------- *)
  (* Vec<T> / slice index *)
  Definition vec_get (l : list T) (i : nat) : res T :=
    match nth_error l i with Some x => Ok x | None => Panic 10 end.
  (* DenseMatrix Index<usize>: self.data[index].a.as_slice() *)
  Definition mat_row (t : table) (r : nat) : res (list T) :=
    match nth_error t r with Some x => Ok x | None => Panic 11 end.
  (* StripedScores Index<usize>: col = index / rows; row = index % rows; data[row][col] *)
  Definition scores_index (t : table) (i : nat) : res T :=
    let rows := length t in
    if rows =? 0 then Panic 12
    else row <- mat_row t (i mod rows) ;; vec_get row (i / rows).

  (* ---------- EncodedSequence ---------- *)
  Definition enc_len (d : list T) : Z := Z.of_nat (length d).
  Definition enc_getitem (d : list T) (i : Z) : res T :=
    i0 <- extract_isize i ;;
    j <- enc_norm (enc_len d) i0 ;;
    vec_get d (Z.to_nat j).
  (* __getbuffer__: len = data.len(), itemsize 1, "B", ndim 1, shape/strides NULL *)
  Definition enc_getbuffer (d : list T) : pybuf :=
    {| pb_off := 0; pb_len := enc_len d; pb_itemsize := 1; pb_format := FmtB; pb_ndim := 1;
       pb_shape := None; pb_strides := None; pb_readonly := true |}.

  (* ---------- ScoreDistribution ---------- *)
  Definition dist_getbuffer (sf : list T) : pybuf :=
    {| pb_off := 0; pb_len := (Z.of_nat (length sf) * 8)%Z; pb_itemsize := 8; pb_format := Fmtd;
       pb_ndim := 1; pb_shape := None; pb_strides := None; pb_readonly := true |}.

  (* ---------- CountMatrix / WeightMatrix / ScoringMatrix ---------- *)
  Definition mat_len (t : table) : Z := Z.of_nat (length t).
  Definition mat_getitem (t : table) (i : Z) : res (list T) :=
    i0 <- extract_isize i ;;
    j <- mat_norm (mat_len t) i0 ;;
    mat_row t (Z.to_nat j).

  (* ScoringMatrix: data + shape/strides cached by ScoringMatrix::new *)
  Record py_scoring := { sm_tab : table; sm_shape : Z * Z; sm_strides : Z * Z }.

  (* ScoringMatrix::new: shape = [rows, cols]; strides = [stride * 4, 4] *)
  Definition scoring_new (K S : nat) (t : table) : py_scoring :=
    {| sm_tab := t;
       sm_shape := (Z.of_nat (length t), Z.of_nat K);
       sm_strides := ((Z.of_nat S * 4)%Z, 4%Z) |}.

  Definition scoring_getbuffer (m : py_scoring) : pybuf :=
    {| pb_off := 0; pb_len := (fst (sm_shape m) * snd (sm_shape m) * 4)%Z; pb_itemsize := 4;
       pb_format := Fmtf; pb_ndim := 2;
       pb_shape := Some [fst (sm_shape m); snd (sm_shape m)];
       pb_strides := Some [fst (sm_strides m); snd (sm_strides m)];
       pb_readonly := true |}.

  (* ---------- StripedSequence ---------- *)
  (* the table holds the sequence rows followed by [ss_wrap] look-ahead rows *)
  Record py_striped := {
    ss_tab : table; ss_length : nat; ss_wrap : nat; ss_shape : Z * Z; ss_strides : Z * Z }.

  (* core: the striped layout of a sequence given in position order (closed form
     proved for Stripe::stripe in group stripe, C04): cell (r, c) = pos[c*R + r] *)
  Definition striped_table (C R : nat) (pos : list T) : table :=
    map (fun r => map (fun c => nth (c * R + r) pos dflt) (seq 0 C)) (seq 0 R).

  (* From<StripedSequenceData> for StripedSequence:
       shape = [cols, rows]; strides = [1, 1 * stride] *)
  Definition striped_new (C S : nat) (t : table) (len : nat) : py_striped :=
    {| ss_tab := t; ss_length := len; ss_wrap := 0;
       ss_shape := (Z.of_nat C, Z.of_nat (length t));
       ss_strides := (1%Z, (1 * Z.of_nat S)%Z) |}.

  (* one look-ahead row: dst[j] = src[j+1] for j < C-1; dst[C-1] = default symbol *)
  Definition wrap_row (C : nat) (src : list T) : list T :=
    map (fun j => nth (j + 1) src dflt) (seq 0 (C - 1)) ++ [dflt].

  (* StripedSequence::configure_wrap(m) *)
  Definition cw_step (C rows : nat) (acc : res table) (i : nat) : res table :=
    t <- acc ;;
    src <- mat_row t i ;;
    if rows + i <? length t then Ok (upd (rows + i) (wrap_row C src) t) else Panic 14.

  Definition configure_wrap (C : nat) (m : nat) (s : py_striped) : res py_striped :=
    if ss_wrap s <? m then
      if length (ss_tab s) <? ss_wrap s then Panic 15 (* rows() - wrap underflows *) else
      let rows := length (ss_tab s) - ss_wrap s in
      let t0 := t_resize dflt C (ss_tab s) (length (ss_tab s) + m - ss_wrap s) in
      t1 <- fold_left (cw_step C rows) (seq 0 m) (Ok t0) ;;
      Ok {| ss_tab := t1; ss_length := ss_length s; ss_wrap := m;
            ss_shape := ss_shape s; ss_strides := ss_strides s |}
    else Ok s.

  (* ScoringMatrix.calculate(seq) on the sequence: seq.configure(pssm) with a motif of
     M rows = configure_wrap(M - 1) for non-empty motifs *)
  Definition configure (C : nat) (M : nat) (s : py_striped) : res py_striped :=
    if M =? 0 then Ok s else configure_wrap C (M - 1) s.

  Fixpoint configure_all (C : nat) (Ms : list nat) (s : py_striped) : res py_striped :=
    match Ms with
    | [] => Ok s
    | M :: rest => s' <- configure C M s ;; configure_all C rest s'
    end.

  Definition striped_getbuffer (s : py_striped) : pybuf :=
    {| pb_off := 0; pb_len := (fst (ss_shape s) * snd (ss_shape s))%Z; pb_itemsize := 1;
       pb_format := FmtB; pb_ndim := 2;
       pb_shape := Some [fst (ss_shape s); snd (ss_shape s)];
       pb_strides := Some [fst (ss_strides s); snd (ss_strides s)];
       pb_readonly := true |}.

  (* ---------- StripedScores ---------- *)
  Record py_scores := { sc_tab : table; sc_max : nat; sc_shape : Z * Z; sc_strides : Z * Z }.

  (* From<StripedScores<f32>>: shape = [cols, rows]; strides = [4, stride * 4] *)
  Definition scores_new (C S : nat) (t : table) (maxi : nat) : py_scores :=
    {| sc_tab := t; sc_max := maxi;
       sc_shape := (Z.of_nat C, Z.of_nat (length t));
       sc_strides := (4%Z, (Z.of_nat S * 4)%Z) |}.

  (* Score::score on a sequence of L symbols in R rows with a motif of M >= 1 rows:
     L < M (or no rows) gives resize(0, 0), otherwise R rows and max_index L+1-M;
     [pos] lists the score of every cell in position order *)
  Definition scores_of (C S R L M : nat) (pos : list T) : py_scores :=
    if (L <? M) || (R =? 0) then scores_new C S [] 0
    else scores_new C S (striped_table C R pos) (L + 1 - M).

  Definition scores_len (s : py_scores) : Z := Z.of_nat (sc_max s).
  Definition scores_getitem (s : py_scores) (i : Z) : res T :=
    i0 <- extract_isize i ;;
    j <- sc_norm (Z.of_nat (sc_max s)) i0 ;;
    scores_index (sc_tab s) (Z.to_nat j).

  Definition scores_getbuffer (s : py_scores) : pybuf :=
    {| pb_off := 0; pb_len := (fst (sc_shape s) * snd (sc_shape s) * 4)%Z; pb_itemsize := 4;
       pb_format := Fmtf; pb_ndim := 2;
       pb_shape := Some [fst (sc_shape s); snd (sc_shape s)];
       pb_strides := Some [fst (sc_strides s); snd (sc_strides s)];
       pb_readonly := true |}.

  (* ---------- what a memoryview reads ---------- *)
  (* [flat] is the backing allocation in elements of [esize] bytes; an access that is
     not exactly one element inside [flat] touches foreign memory *)
  Definition mv_get (flat : list T) (esize : Z) (b : pybuf) (idx : list Z) : res T :=
    let off := (pb_off b + dotZ idx (mv_strides b))%Z in
    if (pb_itemsize b =? esize)%Z && (0 <=? off)%Z && (off mod esize =? 0)%Z
       && (off / esize <? Z.of_nat (length flat))%Z
    then vec_get flat (Z.to_nat (off / esize)) else Panic 30.

  Definition zrange (n : Z) : list Z := map Z.of_nat (seq 0 (Z.to_nat n)).

  (* tolist(): nested lists in index order; 1-D views are reported as one row *)
  Definition mv_tolist (flat : list T) (esize : Z) (b : pybuf) : list (list (res T)) :=
    match mv_shape b with
    | [n] => [map (fun i => mv_get flat esize b [i]) (zrange n)]
    | [n0; n1] => map (fun i => map (fun j => mv_get flat esize b [i; j]) (zrange n1)) (zrange n0)
    | _ => []
    end.

  (* a storage for a table whose padding holds [poison] (any value would do: the
     theorems quantify over all storages) *)
  Definition canon (C S : nat) (poison : T) (t : table) : @storage T :=
    map (fun r => {| ra := r; rp := repeat poison (S - C) |}) t.
End Elem.

(* row stride (in elements) of DenseMatrix<T, C> on x86-64: rows aligned to ROW_ALIGN bytes
   (dense.rs repr(align); re-extracted: GenSlots.gen_row_align) *)
Definition ROW_ALIGN : nat := 32.
Definition dense_stride (size C : nat) : nat := stride size C ROW_ALIGN.

(* ---------- which allocation a view points into (known finding F24) ----------
   __getbuffer__ stores the raw pointer of the Vec buffer in the Py_buffer and nothing
   keeps that buffer alive or in place: ScoringMatrix.calculate / Scanner take
   `&mut StripedSequence` and configure_wrap() resizes the Vec.  Vec::resize_with keeps
   the buffer while the new length fits the capacity and otherwise grows it
   (RawVec::grow_amortized: capacity max(2*cap, needed)); the model gives the grown
   buffer a fresh identity (the allocator may move it; the old pointer is then dangling). *)
Record valloc := { va_id : nat; va_cap : nat; va_rows : nat }.

Definition vec_resize (a : valloc) (n : nat) : valloc :=
  if n <=? va_cap a then {| va_id := va_id a; va_cap := va_cap a; va_rows := n |}
  else {| va_id := S (va_id a); va_cap := Nat.max (2 * va_cap a) n; va_rows := n |}.

(* Stripe::stripe allocates with_capacity(rows, rows+E), E = DEFAULT_EXTRA_ROWS.  The generic
   stripe_into then reserves rows+E *additional* rows (capacity 2*rows+2*E by amortised growth; E
   for an empty sequence); the AVX2 stripe_into only resizes (capacity rows+E) and for an empty
   sequence returns early, leaving the default matrix (capacity 0) in place. *)
Definition DEFAULT_EXTRA_ROWS : nat := 32.    (* seq.rs; re-extracted: GenSlots.gen_extra_rows *)

Definition stripe_alloc (avx2 : bool) (R : nat) : valloc :=
  {| va_id := 0;
     va_cap := if avx2 then (if R =? 0 then 0 else R + DEFAULT_EXTRA_ROWS)
               else (if R =? 0 then DEFAULT_EXTRA_ROWS else 2 * R + 2 * DEFAULT_EXTRA_ROWS);
     va_rows := R |}.

(* configure(motif of M rows) on a sequence of R sequence rows and [wrap] look-ahead rows *)
Definition configure_alloc (R : nat) (st : valloc * nat) (M : nat) : valloc * nat :=
  let (a, wrap) := st in
  if M =? 0 then st
  else if wrap <? M - 1 then (vec_resize a (R + (M - 1)), M - 1) else st.

Definition run_alloc (avx2 : bool) (R : nat) (Ms : list nat) : valloc * nat :=
  fold_left (configure_alloc R) Ms (stripe_alloc avx2 R, 0).

(* a view exported after the history [before] and read after [before ++ after]: it shows
   R*C > 0 elements through a pointer into a buffer that has been given up *)
Definition view_dangling (avx2 : bool) (R : nat) (before after : list nat) : bool :=
  negb (R =? 0) &&
  negb (va_id (fst (run_alloc avx2 R before)) =? va_id (fst (run_alloc avx2 R (before ++ after)))).
