(* Extraction of the executable model and of the property checker of C18.
   Only ExtrOcamlBasic is used: nat, Z, positive stay the extracted inductive types. *)
From Coq Require Import List ZArith Extraction ExtrOcamlBasic.
From LMBase Require Import Res ListX.
From LMDense Require Import DenseModel.
From LMPyIdx Require Import PyIdxModel PyIdxSpec PyIdxAlloc.

(* elements are Z: symbol indices, counts, IEEE bit patterns *)
Definition z_model_obs (dflt poison : Z) := @model_obs Z dflt poison.
Definition z_check_C18 (dflt : Z) := @check_C18 Z dflt Z.eqb.
Definition z_check_index (dflt : Z) := @check_index Z dflt Z.eqb.
Definition z_check_view (dflt : Z) := @check_view Z dflt Z.eqb.
Definition z_scores_lobj := @scores_lobj Z.
Definition z_lobj_wfb := @lobj_wfb Z.
Definition z_model_request (dflt : Z) := @model_request Z dflt.
Definition z_model_request_null (dflt : Z) := @model_request_null Z dflt.

Extraction Language OCaml.
Extraction "pyidx_model.ml" z_model_obs z_check_C18 z_check_index z_check_view z_scores_lobj z_model_request z_model_request_null seq_rows dense_stride
  ssize_min ssize_max fmt_code view_dangling check_alloc model_moves alloc_steps z_lobj_wfb.
