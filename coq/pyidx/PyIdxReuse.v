(* Round 3, wave 3 (review findings C18-1, C18-2).
   1. The cells of a StripedScores view that lie past len(): which they are, that obj[i] cannot
      reach them, and what they hold.
   2. A view of a StripedSequence that stays exported while the sequence is reused for scoring
      within the reserved capacity: the descriptor does not change (shape / strides are cached
      at construction, for ANY history) and the OLD descriptor reads the logical symbols from
      the storage of the reconfigured object. *)
From Coq Require Import List Arith ZArith Bool Lia.
From LMBase Require Import Res ListX.
From LMDense Require Import DenseModel DenseProofs.
From LMPyIdx Require Import PyIdxModel PyIdxSpec PyIdxProofs PyIdxAlloc.
Import ListNotations.

Section Reuse.
  Context {T : Type}.
  Variable dflt : T.
  Variable C S : nat.
  Hypothesis HC : 1 <= C.

  Lemma configure_all_app (a b : list nat) : forall s : @py_striped T,
    configure_all dflt C (a ++ b) s = (s1 <- configure_all dflt C a s ;; configure_all dflt C b s1).
  Proof.
    induction a as [|M a IH]; intros s; cbn [app configure_all]; [reflexivity|].
    destruct (configure dflt C M s) as [s'| | |]; cbn [rbind]; auto.
  Qed.

  (* shape and strides are cached when the object is built; configure() never touches them *)
  Lemma configure_wrap_desc m (s s' : @py_striped T) :
    configure_wrap dflt C m s = Ok s' -> striped_getbuffer s' = striped_getbuffer s.
  Proof.
    unfold configure_wrap. destruct (ss_wrap s <? m); [|intros E; injection E as <-; reflexivity].
    destruct (length (ss_tab s) <? ss_wrap s); [discriminate|]. cbv zeta.
    destruct (fold_left _ _ _) as [t1| | |]; cbn [rbind]; try discriminate.
    intros E; injection E as <-. reflexivity.
  Qed.

  Lemma configure_all_desc Ms : forall s s' : @py_striped T,
    configure_all dflt C Ms s = Ok s' -> striped_getbuffer s' = striped_getbuffer s.
  Proof.
    induction Ms as [|M Ms IH]; intros s s'; cbn [configure_all].
    - intros E; injection E as <-; reflexivity.
    - unfold configure. destruct (M =? 0); cbn [rbind].
      + apply IH.
      + destruct (configure_wrap dflt C (M - 1) s) as [s1| | |] eqn:E1; cbn [rbind]; try discriminate.
        intros E. rewrite (IH s1 s' E). exact (configure_wrap_desc (M - 1) s s1 E1).
  Qed.

  (* a view exported after the history [before] and used after [before ++ after] *)
  Lemma stale_view_reads_logical R L (pos : list T) (before after : list nat) :
    C <= S ->
    exists s1 s2,
      configure_all dflt C before (striped_new C S (striped_table dflt C R pos) L) = Ok s1 /\
      configure_all dflt C after s1 = Ok s2 /\
      configure_all dflt C (before ++ after) (striped_new C S (striped_table dflt C R pos) L) = Ok s2 /\
      striped_getbuffer s1 = striped_getbuffer s2 /\
      forall (st : @storage T), s_wf C S st -> abs st = ss_tab s2 ->
      forall c r, c < C -> r < R ->
        mv_get (ravel st) 1 (striped_getbuffer s1) [Z.of_nat c; Z.of_nat r] = Ok (nth (c * R + r) pos dflt).
  Proof.
    intros HCS.
    destruct (configure_all_inv dflt C S HC R pos before _ (striped_new_inv dflt C S R pos L)) as (s1 & E1 & I1).
    destruct (configure_all_inv dflt C S HC R pos after s1 I1) as (s2 & E2 & I2).
    exists s1, s2. split; [exact E1|]. split; [exact E2|].
    split; [rewrite configure_all_app, E1; cbn [rbind]; exact E2|].
    assert (D : striped_getbuffer s1 = striped_getbuffer s2) by (symmetry; exact (configure_all_desc after s1 s2 E2)).
    split; [exact D|].
    intros st Hwf Habs c r Hc Hr. rewrite D.
    exact (proj2 (proj2 (striped_view_cell dflt C S HC R pos s2 st c r HCS I2 Hwf Habs Hc Hr))).
  Qed.
End Reuse.

(* ---------- the cells of a StripedScores view past len() ---------- *)
Section ScoresCells.
  Context {T : Type}.
  Variable dflt : T.
  (* the logical scoring function of the case: [score p] is the score of the window of M
     symbols starting at position p of the sequence CONTINUED WITH THE WILDCARD symbol
     (sum over j < M of pssm[j][sym (p + j)], sym q = the q-th symbol for q < L and the
     wildcard N for q >= L).  It is defined for every p; for p + M <= L it is the score
     of property C01.  The harness computes it (c18_driver.scores_logical) for all R*32
     cells from the constructor inputs. *)
  Variable score : nat -> T.

  Definition scores_pos (C R : nat) : list T := map score (seq 0 (R * C)).

  Lemma scores_pos_nth C R p : p < R * C -> nth p (scores_pos C R) dflt = score p.
  Proof.
    intros Hp. unfold scores_pos.
    rewrite (nth_indep _ dflt (score 0)) by (rewrite map_length, seq_length; exact Hp).
    rewrite map_nth, seq_nth by exact Hp. reflexivity.
  Qed.

  Lemma cell_pos_lt C R c r : c < C -> r < R -> c * R + r < R * C.
  Proof. intros Hc Hr. nia. Qed.

  Lemma scores_cells_named C S R L M :
    1 <= M -> M <= L -> L <= R * C -> C <= S -> (Z.of_nat (R * C) <= ssize_max)%Z ->
    let s := scores_of dflt C S R L M (scores_pos C R) in
    let b := scores_getbuffer s in
    scores_len s = Z.of_nat (L + 1 - M) /\
    forall (st : @storage T), s_wf C S st -> abs st = sc_tab s ->
    forall c r, c < C -> r < R ->
      let p := c * R + r in
      (* every cell of the view holds the score of window p of the wildcard-continued sequence *)
      mv_get (ravel st) 4 b [Z.of_nat c; Z.of_nat r] = Ok (score p) /\
      (* the cells with p < len(): the logical scores, the same values obj[p] returns; their
         window lies inside the sequence *)
      (p < L + 1 - M -> scores_getitem s (Z.of_nat p) = Ok (score p) /\ p + M <= L) /\
      (* the cells with p >= len(): NOT logical scores - obj[p] raises IndexError, the window
         runs past the end of the sequence into the wildcard continuation *)
      (L + 1 - M <= p -> scores_getitem s (Z.of_nat p) = Err EIndex /\ L < p + M).
  Proof.
    intros HM HML HL HCS Hss s b.
    assert (HR : R <> 0) by (intros ->; simpl in HL; lia).
    assert (Hcond : ((L <? M) || (R =? 0)) = false).
    { apply orb_false_iff. split; [apply Nat.ltb_ge; lia|apply Nat.eqb_neq; exact HR]. }
    destruct (scores_of_inv dflt C S R L M (scores_pos C R) HM HL) as (Ht & Hm & Hmax & Hsh & Hst).
    fold s in Ht, Hm, Hmax, Hsh, Hst. rewrite Hcond in *.
    split; [unfold scores_len; rewrite Hmax; reflexivity|].
    intros st Hwf Habs c r Hc Hr p.
    assert (Hp : p < R * C) by (apply cell_pos_lt; assumption).
    split; [|split].
    - destruct (scores_view_cell dflt C S R (scores_pos C R) s st c r HCS Ht Hst Hwf Habs Hc Hr) as (_ & _ & G).
      fold b in G. rewrite G. f_equal. apply scores_pos_nth. exact Hp.
    - intros Hlt. split; [|lia].
      rewrite (scores_getitem_py dflt s C R (scores_pos C R) (Z.of_nat p) Ht Hm) by (rewrite Hmax; lia).
      destruct (py_index_cases (Z.of_nat (sc_max s)) (Z.of_nat p) ltac:(lia)) as [[H E]|[[H E]|[H E]]];
        rewrite Hmax in H; try lia.
      rewrite E. cbn [rbind]. rewrite Nat2Z.id. f_equal. apply scores_pos_nth. exact Hp.
    - intros Hge. split; [|lia].
      rewrite (scores_getitem_py dflt s C R (scores_pos C R) (Z.of_nat p) Ht Hm) by (rewrite Hmax; lia).
      destruct (py_index_cases (Z.of_nat (sc_max s)) (Z.of_nat p) ltac:(lia)) as [[H E]|[[H E]|[H E]]];
        rewrite Hmax in H; try lia.
      rewrite E. reflexivity.
  Qed.

  Lemma filter_none {A} (f : A -> bool) l : (forall x, In x l -> f x = false) -> filter f l = [].
  Proof.
    induction l as [|x l IH]; intros H; [reflexivity|]. cbn [filter].
    rewrite (H x) by (left; reflexivity). apply IH. intros y Hy. apply H. right; exact Hy.
  Qed.
  Lemma filter_all {A} (f : A -> bool) l : (forall x, In x l -> f x = true) -> filter f l = l.
  Proof.
    induction l as [|x l IH]; intros H; [reflexivity|]. cbn [filter].
    rewrite (H x) by (left; reflexivity). f_equal. apply IH. intros y Hy. apply H. right; exact Hy.
  Qed.

  (* how many cells of the view are not logical scores *)
  Lemma scores_cells_beyond_count C R L M :
    1 <= M -> M <= L -> L <= R * C ->
    length (filter (fun p => L + 1 - M <=? p) (seq 0 (R * C))) = R * C - (L + 1 - M).
  Proof.
    intros HM HML HL. set (n := L + 1 - M). assert (Hn : n <= R * C) by (unfold n; lia).
    replace (R * C) with (n + (R * C - n)) at 1 by lia.
    rewrite seq_app, filter_app, app_length.
    rewrite filter_none.
    2:{ intros x Hx. apply in_seq in Hx. apply Nat.leb_gt. lia. }
    rewrite filter_all.
    2:{ intros x Hx. apply in_seq in Hx. apply Nat.leb_le. lia. }
    rewrite seq_length. reflexivity.
  Qed.
End ScoresCells.

(* ---------- the cls=alloc checker ---------- *)

Lemma existsb_is_move_iff (moves : alloc_obs) :
  existsb is_move moves = true <-> exists k, nth_error moves k = Some (Some true).
Proof.
  rewrite existsb_exists. split.
  - intros [m [Hin Hm]]. destruct m as [[|]|]; try discriminate.
    apply In_nth_error in Hin. exact Hin.
  - intros [k Hk]. exists (Some true). split; [eapply nth_error_In; exact Hk|reflexivity].
Qed.

Lemma check_alloc_iff R moves : check_alloc R moves = true <-> alloc_ok R moves.
Proof.
  unfold check_alloc, alloc_ok. rewrite orb_true_iff, Nat.eqb_eq, negb_true_iff.
  split; (intros [H|H]; [left; exact H|right]).
  - intros k Hk. assert (E : existsb is_move moves = true) by (apply existsb_is_move_iff; exists k; exact Hk).
    rewrite H in E. discriminate.
  - destruct (existsb is_move moves) eqn:E; [|reflexivity].
    apply existsb_is_move_iff in E. destruct E as [k Hk]. exfalso. exact (H k Hk).
Qed.

(* within the capacity reserved by stripe() the model predicts no move at any step *)
Lemma model_moves_within_capacity avx2 R ms : forall before,
  (forall M, In M ms -> R + (M - 1) <= va_cap (stripe_alloc avx2 R)) ->
  Forall (fun b => b = false) (model_moves avx2 R before ms).
Proof.
  induction ms as [|M ms IH]; intros before H; cbn [model_moves]; constructor.
  - apply view_valid_within_capacity. intros M' [<-|[]]. apply H. left; reflexivity.
  - apply IH. intros M' HM'. apply H. right; exact HM'.
Qed.

(* ---------- lobj_wfb decides lobj_wf ---------- *)
Lemma kind_eqb_iff a b : kind_eqb a b = true <-> a = b.
Proof. destruct a, b; cbn; split; intros H; try discriminate; reflexivity. Qed.

Lemma lobj_wfb_iff {T} (o : @lobj T) : lobj_wfb o = true <-> lobj_wf o.
Proof.
  destruct o as [k l|k K t|k R pos maxi]; cbn [lobj_wfb lobj_wf].
  - rewrite orb_true_iff, !kind_eqb_iff. tauto.
  - rewrite andb_true_iff, !orb_true_iff, !kind_eqb_iff, forallb_forall, Forall_forall.
    split; intros [A B]; (split; [tauto|]); intros r Hr; specialize (B r Hr); apply Nat.eqb_eq; exact B.
  - rewrite !andb_true_iff, orb_true_iff, !kind_eqb_iff, Nat.eqb_eq, Nat.leb_le. tauto.
Qed.
