(* Property C18 as a specification over *observations*, the executable checker of
   that specification, and the observation the model predicts.  Definitions only. *)
From Coq Require Import List Arith ZArith Bool Lia.
From LMBase Require Import Res ListX.
From LMDense Require Import DenseModel.
From LMPyIdx Require Import PyIdxModel.
Import ListNotations.

(* the classes of lightmotif.lib that hold indexable / viewable data *)
Inductive kind := KEnc | KDist | KCount | KWeight | KScoring | KStriped | KScores.

Definition kind_eqb (a b : kind) : bool :=
  match a, b with
  | KEnc, KEnc | KDist, KDist | KCount, KCount | KWeight, KWeight
  | KScoring, KScoring | KStriped, KStriped | KScores, KScores => true
  | _, _ => false
  end.

(* element size in bytes (u8 symbols, u32 counts, f32 weights/scores, f64 survival function) *)
Definition ksize (k : kind) : nat :=
  match k with KEnc | KStriped => 1 | KDist => 8 | _ => 4 end.

(* buffer item format the element type calls for; None: the class exports no buffer *)
Definition kfmt (k : kind) : option fmt :=
  match k with
  | KEnc | KStriped => Some FmtB
  | KDist => Some Fmtd
  | KScoring | KScores => Some Fmtf
  | KCount | KWeight => None
  end.

(* classes with __len__/__getitem__ *)
Definition has_index (k : kind) : bool :=
  match k with KEnc | KCount | KWeight | KScoring | KScores => true | _ => false end.

Definition LANES : nat := 32.   (* DefaultColumns of the x86-64 build: AVX2 lanes; re-extracted: GenSlots.gen_lanes *)

(* what the model's __getbuffer__ of each class puts in the fields that do not depend on
   the object: (format, ndim, itemsize, shape exported, strides exported) — compared with
   the table re-extracted from lib.rs (GenSlots.v, C18_model_matches_source) *)
Definition desc_consts (b : pybuf) : option (fmt * nat * Z * bool * bool) :=
  Some (pb_format b, pb_ndim b, pb_itemsize b,
        match pb_shape b with Some _ => true | None => false end,
        match pb_strides b with Some _ => true | None => false end).

(* (readonly, suboffsets NULL, internal NULL, view.obj = new reference to the exporter,
   WRITABLE requests refused, NULL view refused, flags used for nothing else).  The model has
   no suboffsets / internal / obj fields and no NULL-view case: it *assumes* NULL, NULL, a new
   reference and the guard (the `true` constants), which is what the table re-extracted from
   lib.rs has to say as well. *)
Definition misc_consts (b : pybuf) : option (bool * bool * bool * bool * bool * bool * bool) :=
  Some (pb_readonly b, true, true, true,
        match getbuffer_request 1 b with Err _ => true | _ => false end, true,
        match getbuffer_request 284 b, getbuffer_request 0 b with Ok _, Ok _ => true | _, _ => false end).

Definition model_getbuffer (k : kind) : option (fmt * nat * Z * bool * bool) :=
  match k with
  | KEnc => desc_consts (enc_getbuffer (@nil unit))
  | KDist => desc_consts (dist_getbuffer (@nil unit))
  | KScoring => desc_consts (scoring_getbuffer (scoring_new 0 0 (@nil (list unit))))
  | KStriped => desc_consts (striped_getbuffer (striped_new 0 0 (@nil (list unit)) 0))
  | KScores => desc_consts (scores_getbuffer (scores_new 0 0 (@nil (list unit)) 0))
  | KCount | KWeight => None
  end.

Definition model_getbuffer_misc (k : kind) : option (bool * bool * bool * bool * bool * bool * bool) :=
  match k with
  | KEnc => misc_consts (enc_getbuffer (@nil unit))
  | KDist => misc_consts (dist_getbuffer (@nil unit))
  | KScoring => misc_consts (scoring_getbuffer (scoring_new 0 0 (@nil (list unit))))
  | KStriped => misc_consts (striped_getbuffer (striped_new 0 0 (@nil (list unit)) 0))
  | KScores => misc_consts (scores_getbuffer (scores_new 0 0 (@nil (list unit)) 0))
  | KCount | KWeight => None
  end.

Section Spec.
  Context {T : Type}.
  Variable dflt : T.
  Variable eqT : T -> T -> bool.

  Notation table := (list (list T)).

  (* ---------- the logical object ---------- *)
  Inductive lobj :=
  | LSeq (k : kind) (l : list T)                   (* EncodedSequence, ScoreDistribution *)
  | LRows (k : kind) (K : nat) (t : table)         (* Count/Weight/ScoringMatrix: rows of K cells *)
  | LStriped (k : kind) (R : nat) (pos : list T) (maxi : nat).
      (* StripedSequence / StripedScores: R rows of 32 columns; [pos] = the R*32 cells in
         position order (cell (row r, column c) is pos[c*R + r]); [maxi] = number of
         indexable positions of a StripedScores *)

  Definition lkind (o : lobj) : kind :=
    match o with LSeq k _ => k | LRows k _ _ => k | LStriped k _ _ _ => k end.

  Definition lobj_wf (o : lobj) : Prop :=
    match o with
    | LSeq k _ => k = KEnc \/ k = KDist
    | LRows k K t => (k = KCount \/ k = KWeight \/ k = KScoring) /\ Forall (fun r => length r = K) t
    | LStriped k R pos maxi =>
        (k = KStriped \/ k = KScores) /\ length pos = R * LANES /\ maxi <= R * LANES
    end.

  (* rows of the striped matrix of a sequence of L symbols *)
  Definition seq_rows (L : nat) : nat := (L + (LANES - 1)) / LANES.

  (* the logical StripedScores that calculate() has to return for a sequence of L symbols
     and a motif of M >= 1 rows: nothing when the motif does not fit, otherwise
     L+1-M indexable positions over seq_rows(L) rows *)
  Definition scores_lobj (L M : nat) (pos : list T) : lobj :=
    if L <? M then LStriped KScores 0 [] 0
    else LStriped KScores (seq_rows L) pos (L + 1 - M).

  (* ---------- values and outcomes seen from Python ---------- *)
  Inductive pyval := VElem (x : T) | VRow (r : list T).

  Inductive outcome (V : Type) :=
  | OVal (v : V)
  | OExc (code : nat)     (* EIndex / EOverflow / EType / EBuffer / 9 = any other exception *)
  | OPanic.               (* pyo3_runtime.PanicException *)
  Arguments OVal {V}. Arguments OExc {V}. Arguments OPanic {V}.

  Record vobs := {
    vo_shape : list Z; vo_strides : list Z; vo_itemsize : Z; vo_format : nat;
    vo_ndim : Z; vo_nbytes : Z; vo_readonly : bool;
    vo_tolist : list (list T);   (* tolist(), 1-D as one row *)
    vo_bytes : list T            (* tobytes(), cut into items *)
  }.

  Record obs := {
    o_len : outcome Z;
    o_get : list (Z * outcome pyval);
    o_view : outcome vobs
  }.

  (* ---------- logical length / elements / shape ---------- *)
  Definition llen (o : lobj) : Z :=
    match o with
    | LSeq _ l => Z.of_nat (length l)
    | LRows _ _ t => Z.of_nat (length t)
    | LStriped _ _ _ maxi => Z.of_nat maxi
    end.

  Definition lelem (o : lobj) (i : nat) : pyval :=
    match o with
    | LSeq _ l => VElem (nth i l dflt)
    | LRows _ _ t => VRow (nth i t [])
    | LStriped _ _ pos _ => VElem (nth i pos dflt)
    end.

  Definition lshape (o : lobj) : list Z :=
    match o with
    | LSeq _ l => [Z.of_nat (length l)]
    | LRows _ K t => [Z.of_nat (length t); Z.of_nat K]
    | LStriped _ R _ _ => [Z.of_nat LANES; Z.of_nat R]
    end.

  (* columns and row stride (elements) of the dense matrix behind the object *)
  Definition lcols (o : lobj) : nat :=
    match o with LSeq _ l => length l | LRows _ K _ => K | LStriped _ _ _ _ => LANES end.
  Definition lstride (o : lobj) : nat :=
    match o with
    | LSeq _ l => length l
    | _ => dense_stride (ksize (lkind o)) (lcols o)
    end.
  Definition lrows (o : lobj) : nat :=
    match o with LSeq _ _ => 1 | LRows _ _ t => length t | LStriped _ R _ _ => R end.

  (* the (row, column) of the dense matrix that view index [idx] stands for *)
  Definition lcoord (o : lobj) (idx : list nat) : nat * nat :=
    match o, idx with
    | LSeq _ _, [i] => (0, i)
    | LRows _ _ _, [i; j] => (i, j)              (* [position][symbol] *)
    | LStriped _ _ _ _, [c; r] => (r, c)         (* [column][row] *)
    | _, _ => (0, 0)
    end.

  (* the logical table of the dense matrix (rows x columns) *)
  Definition ltable (o : lobj) : table :=
    match o with
    | LSeq _ l => [l]
    | LRows _ _ t => t
    | LStriped _ R pos _ => striped_table dflt LANES R pos
    end.

  (* what tolist() has to be *)
  Definition ltolist (o : lobj) : table :=
    match o with
    | LSeq _ l => [l]
    | LRows _ _ t => t
    | LStriped _ R pos _ =>
        map (fun c => map (fun r => nth (c * R + r) pos dflt) (seq 0 R)) (seq 0 LANES)
    end.

  (* all index vectors of a shape, in C order *)
  Definition idx_range (shape : list Z) : list (list nat) :=
    match shape with
    | [n] => map (fun i => [i]) (seq 0 (Z.to_nat n))
    | [n0; n1] => flat_map (fun i => map (fun j => [i; j]) (seq 0 (Z.to_nat n1))) (seq 0 (Z.to_nat n0))
    | _ => []
    end.

  (* ---------- the property, over observations ---------- *)

  (* obj[i] behaves like a Python sequence of [n] elements *)
  Definition index_spec (n : Z) (elem : nat -> pyval) (i : Z) (o : outcome pyval) : Prop :=
    ((0 <= i < n)%Z -> o = OVal (elem (Z.to_nat i))) /\
    ((- n <= i < 0)%Z -> o = OVal (elem (Z.to_nat (i + n)))) /\
    ((i < - n \/ n <= i)%Z -> o = OExc EIndex).

  (* a memoryview of the object shows exactly the logical elements *)
  Definition view_spec (o : lobj) (v : vobs) : Prop :=
    Some (vo_format v) = option_map fmt_code (kfmt (lkind o)) /\
    vo_itemsize v = Z.of_nat (ksize (lkind o)) /\
    vo_ndim v = Z.of_nat (length (lshape o)) /\
    vo_shape v = lshape o /\
    vo_nbytes v = (prodZ (lshape o) * Z.of_nat (ksize (lkind o)))%Z /\
    (* element [idx] lies at the address of the logical cell it stands for *)
    (forall idx, In idx (idx_range (lshape o)) ->
       dotZ (map Z.of_nat idx) (vo_strides v) =
       (Z.of_nat (ksize (lkind o)) *
        Z.of_nat (fst (lcoord o idx) * lstride o + snd (lcoord o idx)))%Z) /\
    vo_tolist v = ltolist o /\
    vo_bytes v = concat (ltolist o).

  Definition Holds_C18 (o : lobj) (ob : obs) : Prop :=
    (has_index (lkind o) = true ->
       o_len ob = OVal (llen o) /\
       Forall (fun io => index_spec (llen o) (lelem o) (fst io) (snd io)) (o_get ob)) /\
    (kfmt (lkind o) <> None -> exists v, o_view ob = OVal v /\ view_spec o v).

  (* ---------- the checker ---------- *)
  Fixpoint list_eqT (a b : list T) : bool :=
    match a, b with
    | [], [] => true
    | x :: a', y :: b' => eqT x y && list_eqT a' b'
    | _, _ => false
    end.
  Fixpoint table_eqT (a b : table) : bool :=
    match a, b with
    | [], [] => true
    | x :: a', y :: b' => list_eqT x y && table_eqT a' b'
    | _, _ => false
    end.
  Fixpoint listZ_eqb (a b : list Z) : bool :=
    match a, b with
    | [], [] => true
    | x :: a', y :: b' => (x =? y)%Z && listZ_eqb a' b'
    | _, _ => false
    end.

  Definition pyval_eqb (a b : pyval) : bool :=
    match a, b with
    | VElem x, VElem y => eqT x y
    | VRow x, VRow y => list_eqT x y
    | _, _ => false
    end.

  Definition is_val (o : outcome pyval) (v : pyval) : bool :=
    match o with OVal w => pyval_eqb w v | _ => false end.
  Definition is_exc (o : outcome pyval) (c : nat) : bool :=
    match o with OExc d => d =? c | _ => false end.

  Definition index_check (n : Z) (elem : nat -> pyval) (i : Z) (o : outcome pyval) : bool :=
    if (0 <=? i)%Z && (i <? n)%Z then is_val o (elem (Z.to_nat i))
    else if (- n <=? i)%Z && (i <? 0)%Z then is_val o (elem (Z.to_nat (i + n)))
    else is_exc o EIndex.

  Definition fmt_check (o : lobj) (v : vobs) : bool :=
    match kfmt (lkind o) with
    | Some f => vo_format v =? fmt_code f
    | None => false
    end.

  Definition view_check (o : lobj) (v : vobs) : bool :=
    fmt_check o v &&
    (vo_itemsize v =? Z.of_nat (ksize (lkind o)))%Z &&
    (vo_ndim v =? Z.of_nat (length (lshape o)))%Z &&
    listZ_eqb (vo_shape v) (lshape o) &&
    (vo_nbytes v =? prodZ (lshape o) * Z.of_nat (ksize (lkind o)))%Z &&
    forallb (fun idx =>
               (dotZ (map Z.of_nat idx) (vo_strides v) =?
                Z.of_nat (ksize (lkind o)) *
                Z.of_nat (fst (lcoord o idx) * lstride o + snd (lcoord o idx)))%Z)
            (idx_range (lshape o)) &&
    table_eqT (vo_tolist v) (ltolist o) &&
    list_eqT (vo_bytes v) (concat (ltolist o)).

  Definition check_index (o : lobj) (ln : outcome Z) (gets : list (Z * outcome pyval)) : bool :=
    if has_index (lkind o) then
      match ln with OVal n => (n =? llen o)%Z | _ => false end &&
      forallb (fun io => index_check (llen o) (lelem o) (fst io) (snd io)) gets
    else true.

  Definition check_view (o : lobj) (ov : outcome vobs) : bool :=
    match kfmt (lkind o) with
    | None => true
    | Some _ => match ov with OVal v => view_check o v | _ => false end
    end.

  Definition check_C18 (o : lobj) (ob : obs) : bool :=
    check_index o (o_len ob) (o_get ob) && check_view o (o_view ob).

  (* ---------- the observation the model predicts ---------- *)
  Definition out_of_res {A V} (f : A -> V) (r : res A) : outcome V :=
    match r with
    | Ok a => OVal (f a)
    | Err c => OExc c
    | Panic _ => OPanic
    | OutOfFuel => OExc 9
    end.

  Variable poison : T.

  (* collect a tolist() of reads; a read of foreign memory shows as [poison] and is
     flagged by the second component *)
  Definition strip (l : list (list (res T))) : table * bool :=
    (map (map (fun r => match r with Ok x => x | _ => poison end)) l,
     forallb (forallb (fun r => match r with Ok _ => true | _ => false end)) l).

  Definition model_view (C S : nat) (esize : nat) (t : table) (b : pybuf) : outcome vobs :=
    let flat := ravel (canon C S poison t) in
    let (cells, safe) := strip (mv_tolist flat (Z.of_nat esize) b) in
    if safe then
      OVal {| vo_shape := mv_shape b; vo_strides := mv_strides b; vo_itemsize := pb_itemsize b;
              vo_format := fmt_code (pb_format b); vo_ndim := Z.of_nat (pb_ndim b);
              vo_nbytes := pb_len b; vo_readonly := pb_readonly b;
              vo_tolist := cells; vo_bytes := concat cells |}
    else OPanic.

  (* [wraps]: widths of the motifs the StripedSequence was scored with before the view
     is taken (ScoringMatrix.calculate reconfigures the sequence in place);
     [L M]: for StripedScores, sequence length and motif width of the calculate() call *)
  Definition model_obs (o : lobj) (idxs : list Z) (wraps : list nat) (L M : nat) : obs :=
    match o with
    | LSeq KEnc l =>
        {| o_len := OVal (enc_len l);
           o_get := map (fun i => (i, out_of_res VElem (enc_getitem l i))) idxs;
           o_view := model_view (length l) (length l) 1 [l] (enc_getbuffer l) |}
    | LSeq _ l =>
        {| o_len := OExc EType;
           o_get := map (fun i => (i, OExc EType)) idxs;
           o_view := model_view (length l) (length l) 8 [l] (dist_getbuffer l) |}
    | LRows KScoring K t =>
        let S := dense_stride 4 K in
        {| o_len := OVal (mat_len t);
           o_get := map (fun i => (i, out_of_res VRow (mat_getitem t i))) idxs;
           o_view := model_view K S 4 t (scoring_getbuffer (scoring_new K S t)) |}
    | LRows _ K t =>
        {| o_len := OVal (mat_len t);
           o_get := map (fun i => (i, out_of_res VRow (mat_getitem t i))) idxs;
           o_view := OExc EType |}
    | LStriped KScores R pos maxi =>
        let S := dense_stride 4 LANES in
        let s := scores_of dflt LANES S (seq_rows L) L M pos in
        {| o_len := OVal (scores_len s);
           o_get := map (fun i => (i, out_of_res VElem (scores_getitem s i))) idxs;
           o_view := model_view LANES S 4 (sc_tab s) (scores_getbuffer s) |}
    | LStriped _ R pos maxi =>
        let S := dense_stride 1 LANES in
        let s0 := striped_new LANES S (striped_table dflt LANES R pos) L in
        match configure_all dflt LANES wraps s0 with
        | Ok s =>
            {| o_len := OExc EType;
               o_get := map (fun i => (i, OExc EType)) idxs;
               o_view := model_view LANES S 1 (ss_tab s) (striped_getbuffer s) |}
        | _ => {| o_len := OPanic; o_get := []; o_view := OPanic |}
        end
    end.
  (* the Py_buffer __getbuffer__ fills for the object (before looking at the flags), and
     the outcome of PyObject_GetBuffer(obj, &view, flags) *)
  Definition model_buf (o : lobj) (wraps : list nat) (L M : nat) : res pybuf :=
    match o with
    | LSeq KEnc l => Ok (enc_getbuffer l)
    | LSeq _ l => Ok (dist_getbuffer l)
    | LRows KScoring K t => Ok (scoring_getbuffer (scoring_new K (dense_stride 4 K) t))
    | LRows _ _ _ => Err EType
    | LStriped KScores R pos maxi =>
        Ok (scores_getbuffer (scores_of dflt LANES (dense_stride 4 LANES) (seq_rows L) L M pos))
    | LStriped _ R pos _ =>
        s <- configure_all dflt LANES wraps
               (striped_new LANES (dense_stride 1 LANES) (striped_table dflt LANES R pos) L) ;;
        Ok (striped_getbuffer s)
    end.

  Definition model_request (o : lobj) (wraps : list nat) (L M : nat) (flags : Z) : res pybuf :=
    b <- model_buf o wraps L M ;; getbuffer_request flags b.

  (* PyObject_GetBuffer(obj, NULL, flags): `if view.is_null() { BufferError }` (only reachable
     from C / ctypes) *)
  Definition model_request_null (o : lobj) (wraps : list nat) (L M : nat) : res pybuf :=
    b <- model_buf o wraps L M ;; Err EBuffer.
End Spec.

Arguments OVal {V}. Arguments OExc {V}. Arguments OPanic {V}.
