(* Lemmas about the SIMD kernel models (SimdModel.v): every kernel computes, cell
   by cell, what the generic kernel computes. *)
From Coq Require Import List Arith Bool Lia NArith.
From LMBase Require Import Res ListX.
From LMScore Require Import ScoreModel SimdModel ScoreProofs.
Import ListNotations.

(* ---------- list facts ---------- *)

Lemma map2_map_map {A B D E} (f : B -> D -> E) (g : A -> B) (h : A -> D) (l : list A) :
  map2 f (map g l) (map h l) = map (fun x => f (g x) (h x)) l.
Proof. induction l; simpl; auto. f_equal; auto. Qed.

Lemma map2_length {A B D} (f : A -> B -> D) l1 l2 :
  length (map2 f l1 l2) = Nat.min (length l1) (length l2).
Proof. revert l2; induction l1; intros [|y l2]; simpl; auto. Qed.

Lemma Forall2_map_eq {A B D} (R : A -> B -> Prop) (F : A -> D) (G : B -> D) l1 l2 :
  Forall2 R l1 l2 -> (forall a b, R a b -> F a = G b) -> map F l1 = map G l2.
Proof. intros H HR. induction H; simpl; auto. f_equal; auto. Qed.

Lemma all_some_Forall2 {A B} (f : A -> option B) l ys :
  all_some (map f l) = Some ys -> Forall2 (fun a y => f a = Some y) l ys.
Proof.
  revert ys. induction l as [|a l IH]; intros ys H; simpl in H.
  - inversion H. constructor.
  - destruct (f a) eqn:E; try discriminate.
    destruct (all_some (map f l)) eqn:E2; try discriminate.
    inversion H; subst. constructor; auto.
Qed.

Lemma store_at_map {A B} (f : A -> B) off r row :
  store_at off (map f r) (map f row) = map f (store_at off r row).
Proof.
  unfold store_at. rewrite !map_app, firstn_map, skipn_map, map_length. reflexivity.
Qed.

Lemma store_at_length {A} off (r row : list A) :
  off + length r <= length row -> length (store_at off r row) = length row.
Proof.
  intros H. unfold store_at. rewrite !app_length, firstn_length, skipn_length. lia.
Qed.

Lemma nth_store_at {A} off (r row : list A) i d :
  off + length r <= length row ->
  nth i (store_at off r row) d =
  if i <? off then nth i row d
  else if i <? off + length r then nth (i - off) r d else nth i row d.
Proof.
  intros H. unfold store_at.
  destruct (Nat.ltb_spec i off) as [H1|H1].
  - rewrite app_nth1 by (rewrite firstn_length; lia). apply nth_firstn_lt. auto.
  - rewrite app_nth2 by (rewrite firstn_length; lia). rewrite firstn_length.
    replace (Nat.min off (length row)) with off by lia.
    destruct (Nat.ltb_spec i (off + length r)) as [H2|H2].
    + rewrite app_nth1 by lia. reflexivity.
    + rewrite app_nth2 by lia. rewrite nth_skipn. f_equal. lia.
Qed.

Lemma N_eqb_of_nat a b : N.eqb (N.of_nat a) (N.of_nat b) = Nat.eqb a b.
Proof.
  destruct (Nat.eqb_spec a b) as [->|H].
  - apply N.eqb_refl.
  - apply N.eqb_neq. intros E. apply H. apply Nat2N.inj. exact E.
Qed.

Lemma N_land_ones_small a n : (a < 2 ^ n)%N -> N.land a (N.ones n) = a.
Proof. intros H. rewrite N.land_ones. apply N.mod_small. exact H. Qed.

Lemma land7_of_nat s : s < 8 -> N.to_nat (N.land (N.of_nat s) 7) = s.
Proof.
  intros H. change 7%N with (N.ones 3). rewrite N_land_ones_small.
  - apply Nat2N.id.
  - change (2 ^ 3)%N with (N.of_nat 8). lia.
Qed.

Lemma land15_lt i : N.to_nat (N.land i 15) < 16.
Proof.
  change 15%N with (N.ones 4). rewrite N.land_ones.
  assert (i mod 2 ^ 4 < 2 ^ 4)%N by (apply N.mod_lt; discriminate).
  change (2 ^ 4)%N with 16%N in *. lia.
Qed.

(* ---------- byte shuffles as index selections ---------- *)

Definition pick (x : list N) (o : option nat) : N :=
  match o with None => 0%N | Some k => nth k x 0%N end.

Lemma shuffle_lane_sel (x : list N) base (b : list N) lane :
  (forall j, j < 16 -> nth j lane 0%N = nth (base + j) x 0%N) ->
  shuffle_lane lane b = map (pick x) (shuffle_sel_lane base b).
Proof.
  intros H. unfold shuffle_lane, shuffle_sel_lane. rewrite map_map.
  apply map_ext. intros i. destruct (N.testbit i 7); simpl; auto.
  apply H. apply land15_lt.
Qed.

Lemma shuffle_epi8_sel (x b : list N) :
  shuffle_epi8 x b = map (pick x) (shuffle_sel b).
Proof.
  unfold shuffle_epi8, shuffle_sel. rewrite map_app. f_equal.
  - apply shuffle_lane_sel. intros j Hj. apply nth_firstn_lt. auto.
  - apply shuffle_lane_sel. intros j Hj. apply nth_skipn.
Qed.

Lemma epi32_sel_spec (x : list N) :
  forall n sel ks, length sel <= n -> epi32_sel sel = Some ks ->
    as_epi32 (map (pick x) sel) = map (fun k => nth k x 0%N) ks.
Proof.
  induction n as [|n IH]; intros sel ks Hl H.
  - destruct sel; [|simpl in Hl; lia]. simpl in H. inversion H. reflexivity.
  - destruct sel as [|o0 sel]; [simpl in H; inversion H; reflexivity|].
    destruct o0 as [k|]; [|simpl in H; discriminate].
    destruct sel as [|o1 sel]; [simpl in H; discriminate|].
    destruct o1; [simpl in H; discriminate|].
    destruct sel as [|o2 sel]; [simpl in H; discriminate|].
    destruct o2; [simpl in H; discriminate|].
    destruct sel as [|o3 sel]; [simpl in H; discriminate|].
    destruct o3; [simpl in H; discriminate|].
    simpl in H. destruct (epi32_sel sel) as [ks'|] eqn:E; [|discriminate].
    inversion H; subst. cbn [map pick as_epi32].
    rewrite !N.mul_0_r, !N.add_0_r. f_equal.
    apply IH; auto. simpl in Hl. lia.
Qed.

Lemma mask_cols_spec (x : list N) m ks :
  mask_cols m = Some ks ->
  as_epi32 (shuffle_epi8 x (set_epi32 m)) = map (fun k => nth k x 0%N) ks.
Proof.
  unfold mask_cols. intros H.
  destruct (length (set_epi32 m) =? 32); [|discriminate].
  rewrite shuffle_epi8_sel. eapply epi32_sel_spec; eauto.
Qed.

(* ---------- permute2f128 and stores commute with map ---------- *)

Lemma permute2f128_map {A B} (f : A -> B) za zb a b imm :
  N.testbit imm 3 = false -> N.testbit imm 7 = false ->
  permute2f128 zb (map f a) (map f b) imm = map f (permute2f128 za a b imm).
Proof.
  intros H3 H7. unfold permute2f128. rewrite H3, H7. rewrite map_app. f_equal.
  - destruct (N.to_nat (N.land imm 3)) as [|[|[|?]]]; rewrite ?firstn_map, ?skipn_map; reflexivity.
  - destruct (N.to_nat (N.land (N.shiftr imm 4) 3)) as [|[|[|?]]]; rewrite ?firstn_map, ?skipn_map; reflexivity.
Qed.

Lemma fold_store_map {A B} (f : A -> B) (l : list (nat * list A)) row :
  fold_left (fun row ro => store_at (fst ro) (snd ro) row)
            (map (fun ro => (fst ro, map f (snd ro))) l) (map f row) =
  map f (fold_left (fun row ro => store_at (fst ro) (snd ro) row) l row).
Proof.
  revert row. induction l as [|[off r] l IH]; intros row; simpl; auto.
  rewrite store_at_map. apply IH.
Qed.

Lemma combine_map_r {A B D} (f : B -> D) (l1 : list A) (l2 : list B) :
  combine l1 (map f l2) = map (fun p => (fst p, f (snd p))) (combine l1 l2).
Proof. revert l2; induction l1; intros [|y l2]; simpl; auto. f_equal; auto. Qed.

Lemma map_combine_fst {A B D} (g : A -> D) (l1 : list A) (l2 : list B) :
  length l1 = length l2 -> map (fun jo => g (fst jo)) (combine l1 l2) = map g l1.
Proof.
  revert l2. induction l1 as [|x r IH]; intros [|y l2] Hl; simpl in *; try discriminate; auto.
  f_equal. apply IH. lia.
Qed.

Lemma list_nat_eqb_eq a b : list_nat_eqb a b = true -> a = b.
Proof.
  revert b. induction a as [|x a IH]; intros [|y b] H; simpl in H; try discriminate; auto.
  apply andb_true_iff in H. destruct H as [H1 H2]. apply Nat.eqb_eq in H1. f_equal; auto.
Qed.

(* results that agree up to the panic site *)
Definition res_equiv {A} (x y : res A) : Prop :=
  match x, y with
  | Ok a, Ok b => a = b
  | Panic _, Panic _ => True
  | _, _ => False
  end.

(* StripedScores<f32, C>: every row has C cells *)
Definition sc_wf {T} (C : nat) (sc : sscores T) : Prop :=
  forall r, r < length (sc_mat sc) -> length (nth r (sc_mat sc) []) = C.

Lemma terms_from_succ {T} (zero : T) j pr f :
  terms_from zero (S j) pr f = terms_from zero j pr (fun j' => f (S j')).
Proof. revert j. induction pr as [|prow rest IH]; intros j; simpl; auto. f_equal. apply IH. Qed.

(* ---------- AVX2 ---------- *)

Section Avx2Proofs.
  Context {T : Type}.
  Variable add : T -> T -> T.
  Variable zero : T.
  Variable K : nat.
  Notation Nw := (K - 1).

  Variable cs : avx2_consts.
  Variable lookup : list T -> list N -> list T.
  Variable pads : nat -> list T.

  (* the table look-up returns the cell of each symbol (symbols below K), whatever
     follows the K cells in memory *)
  Hypothesis lookup_ok : forall prow pad syms,
      length prow = K -> Forall (fun s => s < K) syms ->
      lookup (prow ++ pad) (map N.of_nat syms) = map (fun s => nth s prow zero) syms.

  (* facts established by the reflection check avx2_layout_ok *)
  Variable kss : list (list nat).
  Hypothesis Hkss : all_some (map mask_cols (ac_masks cs)) = Some kss.
  Hypothesis Hk32 : forall ks k, In ks kss -> In k ks -> k < 32.
  Hypothesis Hk8 : forall ks, In ks kss -> length ks = 8.
  Hypothesis Hperm : forall ia ib imm, In (ia, ib, imm) (ac_perm cs) ->
      N.testbit imm 3 = false /\ N.testbit imm 7 = false.
  Hypothesis Hfinal : avx2_final_cols cs kss = seq 0 32.

  Lemma avx2_xs xrow :
    map (fun m => as_epi32 (shuffle_epi8 (map N.of_nat xrow) (set_epi32 m))) (ac_masks cs) =
    map (fun ks => map N.of_nat (map (fun k => nth k xrow 0) ks)) kss.
  Proof.
    apply (Forall2_map_eq (fun m ks => mask_cols m = Some ks)).
    - apply all_some_Forall2. exact Hkss.
    - intros m ks Hm. rewrite (mask_cols_spec _ m ks Hm). rewrite map_map.
      apply map_ext. intros k. change 0%N with (N.of_nat 0). apply map_nth.
  Qed.

  Lemma avx2_step (g h : nat -> T) :
    map2 (add_ps add) (map (map g) kss) (map (fun ks => map h ks) kss) =
    map (map (fun k => add (g k) (h k))) kss.
  Proof.
    rewrite map2_map_map. apply map_ext. intros ks. unfold add_ps. apply map2_map_map.
  Qed.

  Lemma avx2_inner_ok :
    forall pr j0 sr g,
      pssm_wf K pr -> length pr <= length sr ->
      (forall j, j < length pr -> length (nth j sr []) = 32 /\ Forall (fun x => x < K) (nth j sr [])) ->
      avx2_inner add cs lookup (pssm_mem_from j0 pr pads) sr (map (map g) kss) =
      Ok (map (map (fun k => fold_left add (terms_from zero 0 pr (fun j => nth k (nth j sr []) Nw)) (g k))) kss).
  Proof.
    induction pr as [|prow rest IH]; intros j0 sr g Hp Hl Hsr.
    - simpl. reflexivity.
    - pose proof (Forall_inv Hp) as Hk. pose proof (Forall_inv_tail Hp) as Hrest. cbv beta in Hk.
      destruct sr as [|xrow sr']; [simpl in Hl; lia|].
      unfold pssm_mem_from. cbn [length seq combine map fst snd avx2_inner].
      destruct (Hsr 0 ltac:(simpl; lia)) as [Hx32 HxK]. cbn [nth] in Hx32, HxK.
      rewrite avx2_xs. rewrite map_map.
      assert (Hbs : map (fun ks => lookup (prow ++ pads j0) (map N.of_nat (map (fun k => nth k xrow 0) ks))) kss =
                    map (fun ks => map (fun k => nth (nth k xrow 0) prow zero) ks) kss).
      { apply map_ext_in. intros ks Hks. rewrite lookup_ok; auto.
        - rewrite map_map. reflexivity.
        - apply Forall_forall. intros s Hs. apply in_map_iff in Hs. destruct Hs as [k [<- Hkin]].
          rewrite Forall_forall in HxK. apply HxK. apply nth_In. rewrite Hx32. eapply Hk32; eauto. }
      rewrite Hbs. rewrite avx2_step.
      change (map (fun jr => snd jr ++ pads (fst jr)) (combine (seq (S j0) (length rest)) rest))
        with (pssm_mem_from (S j0) rest pads).
      rewrite IH; auto.
      + f_equal. apply map_ext_in. intros ks Hks. apply map_ext_in. intros k Hkin.
        cbn [terms_from fold_left nth]. rewrite terms_from_succ. cbn [nth].
        rewrite (nth_indep xrow 0 Nw) by (rewrite Hx32; eapply Hk32; eauto). reflexivity.
      + simpl in Hl. lia.
      + intros j Hj. apply (Hsr (S j)). simpl. lia.
  Qed.

  Lemma avx2_store_ok (G : nat -> T) (old : list T) :
    length old = 32 ->
    avx2_store zero cs (map (map G) kss) old = map G (seq 0 32).
  Proof.
    intros Hold.
    set (G' := fun k => if k <? 32 then G k else nth (k - 32) old zero).
    assert (Hacc : map (map G) kss = map (map G') kss).
    { apply map_ext_in. intros ks Hks. apply map_ext_in. intros k Hk. unfold G'.
      replace (k <? 32) with true; auto. symmetry. apply Nat.ltb_lt. eapply Hk32; eauto. }
    assert (Hrow : old = map G' (seq 32 32)).
    { apply (nth_ext_len _ _ zero).
      - rewrite map_length, seq_length. auto.
      - intros i Hi. rewrite (map_nth_in _ _ _ 0) by (rewrite seq_length; lia).
        rewrite seq_nth by lia. unfold G'.
        replace (32 + i <? 32) with false by (symmetry; apply Nat.ltb_ge; lia).
        f_equal. lia. }
    unfold avx2_store. rewrite Hacc. rewrite Hrow at 1.
    assert (Hrs : map (fun p => match p with (ia, ib, imm) =>
                      permute2f128 zero (nth ia (map (map G') kss) []) (nth ib (map (map G') kss) []) imm end)
                    (ac_perm cs) =
                  map (map G') (map (fun p => match p with (ia, ib, imm) =>
                      permute2f128 999 (nth ia kss []) (nth ib kss []) imm end) (ac_perm cs))).
    { rewrite map_map. apply map_ext_in. intros [[ia ib] imm] Hin.
      destruct (Hperm ia ib imm Hin) as [H3 H7].
      change (@nil T) with (map G' []). rewrite !map_nth.
      apply permute2f128_map; auto. }
    rewrite Hrs. rewrite combine_map_r. rewrite fold_store_map.
    fold (avx2_final_cols cs kss). rewrite Hfinal.
    apply map_ext_in. intros k Hk. apply in_seq in Hk. unfold G'.
    replace (k <? 32) with true; auto. symmetry. apply Nat.ltb_lt. lia.
  Qed.

  Lemma kss_length : length kss = length (ac_masks cs).
  Proof.
    pose proof (all_some_Forall2 _ _ _ Hkss) as H.
    rewrite <- (map_length mask_cols).
    clear -H. induction H; simpl; auto.
  Qed.

  Lemma avx2_acc0 : repeat (repeat zero 8) (length (ac_masks cs)) = map (map (fun _ => zero)) kss.
  Proof.
    rewrite <- kss_length. symmetry.
    rewrite (map_ext_in _ (fun _ => repeat zero 8)).
    - apply map_const_repeat. auto.
    - intros ks Hks. rewrite <- (Hk8 ks Hks). apply map_const_repeat. auto.
  Qed.

  (* one result row of the AVX2 kernel = the row of the generic kernel *)
  Lemma avx2_row_ok pssm m i old :
    mat_wf 32 K m -> pssm_wf K pssm -> i + length pssm <= length m -> i < length m ->
    length old = 32 ->
    avx2_row add zero cs lookup (pssm_mem pssm pads) m i old =
    Ok (map (cell_of add zero K pssm m i) (seq 0 32)).
  Proof.
    intros Hm Hp Hi Hi' Hold. unfold avx2_row.
    replace (length m <=? i) with false by (symmetry; apply Nat.leb_gt; lia).
    rewrite avx2_acc0. unfold pssm_mem. rewrite avx2_inner_ok; auto.
    - cbn [rbind]. f_equal. rewrite avx2_store_ok by auto.
      apply map_ext_in. intros k _. unfold cell_of. f_equal.
      apply terms_from_shift. intros j Hj. rewrite nth_skipn. reflexivity.
    - rewrite skipn_length. lia.
    - intros j Hj. rewrite nth_skipn. apply Hm. lia.
  Qed.

  Lemma avx2_kernel_ok pssm q a b buf :
    mat_wf 32 K (sq_mat q) -> pssm_wf K pssm -> 1 <= length pssm ->
    a < b -> b + length pssm - 1 <= length (sq_mat q) ->
    length buf = b - a -> (forall r, r < length buf -> length (nth r buf []) = 32) ->
    avx2_kernel add zero cs lookup (pssm_mem pssm pads) q a b buf =
    Ok (map (fun r => map (cell_of add zero K pssm (sq_mat q) r) (seq 0 32)) (seq a (b - a))).
  Proof.
    intros Hm Hp HM Hab Hb Hlen Hrows. unfold avx2_kernel.
    destruct buf as [|b0 buf']; [simpl in Hlen; lia|].
    destruct (pssm_mem pssm pads) as [|m0 pm'] eqn:Epm.
    { unfold pssm_mem, pssm_mem_from in Epm. apply (f_equal (@length _)) in Epm.
      rewrite map_length, combine_length, seq_length in Epm. simpl in Epm. lia. }
    rewrite <- Epm.
    rewrite (rows_update_all _ (fun i _ => map (cell_of add zero K pssm (sq_mat q) i) (seq 0 32))).
    - f_equal. cbn [fst snd].
      apply (map_combine_fst (fun i => map (cell_of add zero K pssm (sq_mat q) i) (seq 0 32))).
      rewrite seq_length. auto.
    - rewrite seq_length. auto.
    - intros j Hj. rewrite seq_length in Hj. rewrite seq_nth by auto.
      apply avx2_row_ok; auto; try lia. apply Hrows. lia.
  Qed.
End Avx2Proofs.

(* ---------- the two AVX2 look-ups ---------- *)

Lemma lookup_permute_ok {T} (zero : T) K (prow pad : list T) syms :
  K <= 8 -> length prow = K -> Forall (fun s => s < K) syms ->
  lookup_permute zero (prow ++ pad) (map N.of_nat syms) = map (fun s => nth s prow zero) syms.
Proof.
  intros HK Hl Hs. unfold lookup_permute, permutevar8x32. rewrite map_map.
  apply map_ext_in. intros s Hin. rewrite Forall_forall in Hs. specialize (Hs s Hin).
  rewrite land7_of_nat by lia. rewrite nth_firstn_lt by lia. apply app_nth1. lia.
Qed.

Lemma lookup_gather_ok {T} (zero : T) K (prow pad : list T) syms :
  length prow = K -> Forall (fun s => s < K) syms ->
  lookup_gather zero (prow ++ pad) (map N.of_nat syms) = map (fun s => nth s prow zero) syms.
Proof.
  intros Hl Hs. unfold lookup_gather, i32gather. rewrite map_map.
  apply map_ext_in. intros s Hin. rewrite Forall_forall in Hs. specialize (Hs s Hin).
  rewrite Nat2N.id. apply app_nth1. lia.
Qed.

(* what the reflection check establishes *)
Lemma avx2_layout_facts cs :
  avx2_layout_ok cs = true ->
  exists kss,
    all_some (map mask_cols (ac_masks cs)) = Some kss /\
    (forall ks k, In ks kss -> In k ks -> k < 32) /\
    (forall ks, In ks kss -> length ks = 8) /\
    (forall ia ib imm, In (ia, ib, imm) (ac_perm cs) ->
       N.testbit imm 3 = false /\ N.testbit imm 7 = false) /\
    avx2_final_cols cs kss = seq 0 32.
Proof.
  unfold avx2_layout_ok. destruct (all_some (map mask_cols (ac_masks cs))) as [kss|]; [|discriminate].
  intros H. exists kss. split; [reflexivity|].
  apply andb_true_iff in H. destruct H as [H H4]. apply andb_true_iff in H. destruct H as [H H3].
  apply andb_true_iff in H. destruct H as [H1 H2].
  rewrite forallb_forall in H1. rewrite forallb_forall in H2.
  repeat split.
  - intros ks k Hks Hk. specialize (H1 ks Hks). apply andb_true_iff in H1. destruct H1 as [_ H1].
    rewrite forallb_forall in H1. apply Nat.ltb_lt. apply H1. exact Hk.
  - intros ks Hks. specialize (H1 ks Hks). apply andb_true_iff in H1. destruct H1 as [H1 _].
    apply Nat.eqb_eq. exact H1.
  - specialize (H2 _ H). cbv beta iota in H2.
    apply andb_true_iff in H2. destruct H2 as [H2 _]. apply andb_true_iff in H2. destruct H2 as [_ H2].
    apply negb_true_iff. exact H2.
  - specialize (H2 _ H). cbv beta iota in H2.
    apply andb_true_iff in H2. destruct H2 as [_ H2]. apply negb_true_iff. exact H2.
  - apply list_nat_eqb_eq. exact H4.
Qed.

(* ---------- the wrapper guards ---------- *)

Section Guard.
  Context {T : Type}.
  Variable add : T -> T -> T.
  Variable zero : T.
  Variable C K : nat.

  Lemma sc_resize_rows (old : sscores T) n maxi r :
    sc_wf C old -> r < n -> length (nth r (sc_mat (sc_resize zero C old n maxi)) []) = C.
  Proof.
    intros Hw Hr. unfold sc_resize. cbn [sc_mat].
    apply m_resize_row_length; auto. apply repeat_length.
  Qed.

  (* a kernel that fills the resized buffer with the generic cells makes the guarded
     wrapper agree with the generic pipeline (same values, panics in the same cases) *)
  Lemma simd_guard_equiv pssm q a b old kernel :
    0 < C -> mat_wf C K (sq_mat q) -> pssm_wf K pssm -> sc_wf C old ->
    1 <= length pssm -> length pssm - 1 <= sq_wrap q ->
    (a < b -> b + length pssm - 1 <= length (sq_mat q) -> length pssm <= sq_len q ->
     forall buf, length buf = b - a -> (forall r, r < length buf -> length (nth r buf []) = C) ->
       kernel buf = Ok (map (fun r => map (cell_of add zero K pssm (sq_mat q) r) (seq 0 C)) (seq a (b - a)))) ->
    res_equiv (simd_guard zero C (length pssm) q a b old kernel)
              (generic_rows_into add zero C pssm q a b old).
  Proof.
    intros HC Hm Hp Hw HM Hwrap Hk. unfold simd_guard.
    replace (length pssm =? 0) with false by (symmetry; apply Nat.eqb_neq; lia).
    replace (sq_wrap q <? length pssm - 1) with false by (symmetry; apply Nat.ltb_ge; lia).
    destruct ((sq_len q <? length pssm) || negb (a <? b)) eqn:E.
    - unfold generic_rows_into. rewrite E. simpl. reflexivity.
    - apply orb_false_iff in E. destruct E as [E1 E2].
      apply Nat.ltb_ge in E1. apply negb_false_iff in E2. apply Nat.ltb_lt in E2.
      destruct (length (sq_mat q) <? b + length pssm - 1) eqn:E3.
      + apply Nat.ltb_lt in E3.
        pose proof (generic_rows_into_panic add zero C K pssm q a b old HC Hm Hp E1 E2 E3 HM) as Hpanic.
        destruct (generic_rows_into add zero C pssm q a b old); simpl in *; auto; discriminate.
      + apply Nat.ltb_ge in E3.
        rewrite Hk; auto.
        * rewrite (generic_rows_into_ok add zero C K); auto. simpl. reflexivity.
        * unfold sc_resize. cbn [sc_mat]. apply m_resize_length.
        * intros r Hr. unfold sc_resize in Hr. cbn [sc_mat] in Hr. rewrite m_resize_length in Hr.
          apply sc_resize_rows; auto.
  Qed.

  Lemma simd_guard_unconfigured M q a b old kernel :
    1 <= M -> sq_wrap q < M - 1 -> simd_guard zero C M q a b old kernel = Panic 31.
  Proof.
    intros HM Hw. unfold simd_guard.
    replace (M =? 0) with false by (symmetry; apply Nat.eqb_neq; lia).
    replace (sq_wrap q <? M - 1) with true by (symmetry; apply Nat.ltb_lt; lia).
    reflexivity.
  Qed.
End Guard.

(* ---------- AVX2 wrappers = generic ---------- *)

Section Avx2Eq.
  Context {T : Type}.
  Variable add : T -> T -> T.
  Variable zero : T.
  Variable K : nat.

  Theorem avx2_permute_equiv cs pssm pads q a b old :
    avx2_layout_ok cs = true -> K <= 8 ->
    mat_wf 32 K (sq_mat q) -> pssm_wf K pssm -> sc_wf 32 old ->
    1 <= length pssm -> length pssm - 1 <= sq_wrap q ->
    res_equiv (avx2_permute_rows_into add zero cs pssm pads q a b old)
              (generic_rows_into add zero 32 pssm q a b old).
  Proof.
    intros Hlay HK Hm Hp Hw HM Hwrap.
    destruct (avx2_layout_facts cs Hlay) as [kss [H1 [H2 [H3 [H4 H5]]]]].
    unfold avx2_permute_rows_into. apply (simd_guard_equiv add zero 32 K); auto; try lia.
    intros Hab Hb HL buf Hlen Hrows.
    apply (avx2_kernel_ok add zero K cs (lookup_permute zero) pads) with (kss := kss); auto.
    intros prow pad syms Hl Hs. apply (lookup_permute_ok zero K); auto.
  Qed.

  Theorem avx2_gather_equiv cs pssm pads q a b old :
    avx2_layout_ok cs = true ->
    mat_wf 32 K (sq_mat q) -> pssm_wf K pssm -> sc_wf 32 old ->
    1 <= length pssm -> length pssm - 1 <= sq_wrap q ->
    res_equiv (avx2_gather_rows_into add zero cs pssm pads q a b old)
              (generic_rows_into add zero 32 pssm q a b old).
  Proof.
    intros Hlay Hm Hp Hw HM Hwrap.
    destruct (avx2_layout_facts cs Hlay) as [kss [H1 [H2 [H3 [H4 H5]]]]].
    unfold avx2_gather_rows_into. apply (simd_guard_equiv add zero 32 K); auto; try lia.
    intros Hab Hb HL buf Hlen Hrows.
    apply (avx2_kernel_ok add zero K cs (lookup_gather zero) pads) with (kss := kss); auto.
    intros prow pad syms Hl Hs. apply (lookup_gather_ok zero K); auto.
  Qed.

  Theorem avx2_equiv csp csg pssm pads q a b old :
    avx2_layout_ok csp = true -> avx2_layout_ok csg = true ->
    mat_wf 32 K (sq_mat q) -> pssm_wf K pssm -> sc_wf 32 old ->
    1 <= length pssm -> length pssm - 1 <= sq_wrap q ->
    res_equiv (avx2_rows_into add zero csp csg K pssm pads q a b old)
              (generic_rows_into add zero 32 pssm q a b old).
  Proof.
    intros Hp Hg Hm Hpw Hw HM Hwrap. unfold avx2_rows_into.
    destruct (K <=? 8) eqn:E.
    - apply Nat.leb_le in E. apply avx2_permute_equiv; auto.
    - apply avx2_gather_equiv; auto.
  Qed.
End Avx2Eq.
